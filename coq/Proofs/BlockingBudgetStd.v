(** C03 under the std::time clock ([stdclock] of Model/Sim.v, nanosecond
    ticks). The framework's blocked-share test divides two [as_secs_f64]
    values: each operand carries two roundings (n/1e9, then secs + that), the
    final division one more. The test "quotient < f" therefore implies the
    real inequality only up to a relative tolerance; we prove the explicit
    tolerance 2^-50 (the operands are within (1 +- 2^-53)^2 of the real
    number of seconds; the final division needs no error term because f is
    representable and rounding is monotone). *)
From Coq Require Import ZArith NArith Reals Lia Lra Psatz Bool.
From Flocq Require Import Core.Core IEEE754.BinarySingleNaN.
Require Import Flocq.Prop.Relative.
From MB Require Import Model.Framework Model.Validate Model.Sim.
From MB Require Import Proofs.Tactics Proofs.ListFacts Proofs.FloatFacts Proofs.FrameworkStructure
     Proofs.FrameworkInv Proofs.FrameworkSlots Proofs.FrameworkAcct Proofs.AcctSpec Proofs.PaddingBudget
     Proofs.BlockingBudget.
Open Scope N_scope.

(** ** rounding to nearest: relative error 2^-53 in the normal range *)
Definition u64 : R := bpow radix2 (-53).

Lemma u64_val : u64 = (/ 9007199254740992)%R.
Proof. reflexivity. Qed.

Lemma u64_range : (0 < u64 <= / 16)%R.
Proof. rewrite u64_val. lra. Qed.

Lemma rnd64_mono : forall x y : R, (x <= y)%R -> (rnd64 x <= rnd64 y)%R.
Proof.
  intros x y H. apply round_le; [apply (fexp_correct prec64 emax64 Hprec64)|apply valid_rnd_N|exact H].
Qed.

Lemma rnd64_id_Z : forall z, (Z.abs z < 2 ^ 53)%Z -> rnd64 (IZR z) = IZR z.
Proof.
  intros z Hz. apply round_generic; [apply valid_rnd_N|apply format_small_Z; exact Hz].
Qed.

Lemma rnd64_id_bpow : forall k, (-1000 <= k <= 1000)%Z -> rnd64 (bpow radix2 k) = bpow radix2 k.
Proof.
  intros k Hk. apply round_generic; [apply valid_rnd_N|].
  apply generic_format_bpow. unfold SpecFloat.fexp, SpecFloat.emin, prec64, emax64. lia.
Qed.

Lemma tiny_le : (bpow radix2 (-1022) <= / 4000000000)%R.
Proof.
  apply Rle_trans with (bpow radix2 (-40)).
  - apply bpow_le. lia.
  - change (bpow radix2 (-40)) with (/ 1099511627776)%R. lra.
Qed.

Lemma rnd64_bounds : forall x : R, (x = 0 \/ / 4000000000 <= x)%R ->
  (x * (1 - u64) <= rnd64 x <= x * (1 + u64))%R.
Proof.
  intros x [->|Hx].
  - replace (rnd64 0) with 0%R by (symmetry; apply round_0; apply valid_rnd_N). lra.
  - assert (Hpos : (0 < x)%R) by lra.
    pose proof (relative_error_N_FLT radix2 (-1074) 53 ltac:(lia) (fun z => negb (Z.even z)) x) as H.
    change (round radix2 (FLT_exp (-1074) 53) (Znearest (fun z => negb (Z.even z))) x) with (rnd64 x) in H.
    change (-1074 + 53 - 1)%Z with (-1022)%Z in H.
    change (/ 2 * bpow radix2 (- (53) + 1))%R with (/ 2 * (/ 4503599627370496))%R in H.
    rewrite (Rabs_pos_eq x) in H by lra.
    specialize (H ltac:(pose proof tiny_le; lra)).
    assert (Hu : (/ 2 * / 4503599627370496 = u64)%R) by (rewrite u64_val; lra).
    rewrite Hu in H. apply Rabs_le_inv in H. nra.
Qed.

(** ** [Duration::as_secs_f64]: finite, and within (1 +- 2^-53)^2 of d / 10^9 *)
Definition secsR (d : N) : R := (IZR (Z.of_N d) / 1000000000)%R.

Lemma as_secs_f64_bounds : forall d, d < 2 ^ 53 * NS ->
  is_finite (as_secs_f64 d) = true /\
  (secsR d * ((1 - u64) * (1 - u64)) <= B2R (as_secs_f64 d) <= secsR d * ((1 + u64) * (1 + u64)))%R.
Proof.
  intros d Hd. unfold as_secs_f64.
  pose proof u64_range as Hu.
  assert (HNS : NS = 1000000000) by reflexivity.
  assert (Hs : d / NS < 2 ^ 53) by (apply N.div_lt_upper_bound; [rewrite HNS; lia|lia]).
  assert (Hn : d mod NS < NS) by (apply N.mod_lt; rewrite HNS; lia).
  assert (Hdm : d = NS * (d / NS) + d mod NS) by (apply N.div_mod; rewrite HNS; lia).
  set (S := d / NS) in *. set (n := d mod NS) in *.
  assert (Hn53 : n < 2 ^ 53).
  { eapply N.lt_trans; [exact Hn|]. rewrite HNS. reflexivity. }
  destruct (f64_of_N_exact S Hs) as [RS FS].
  destruct (f64_of_N_exact n Hn53) as [Rn Fn].
  destruct (f64_of_N_exact NS ltac:(reflexivity)) as [RN FN].
  change (IZR (Z.of_N NS)) with 1000000000%R in RN.
  (* the real values *)
  set (rS := IZR (Z.of_N S)) in *. set (rn := IZR (Z.of_N n)) in *.
  assert (HS0 : (rS = 0 \/ 1 <= rS)%R).
  { destruct (N.eq_dec S 0) as [E|E]; [left; subst rS; rewrite E; reflexivity|right].
    subst rS. apply (IZR_le 1). lia. }
  assert (HSle : (rS <= IZR (2 ^ 53))%R).
  { subst rS. apply IZR_le. change (2 ^ 53)%Z with (Z.of_N (2 ^ 53)). lia. }
  assert (Hn0 : (rn = 0 \/ 1 <= rn)%R).
  { destruct (N.eq_dec n 0) as [E|E]; [left; subst rn; rewrite E; reflexivity|right].
    subst rn. apply (IZR_le 1). lia. }
  assert (Hnle : (rn <= 1000000000)%R).
  { subst rn. apply (IZR_le _ 1000000000). rewrite HNS in Hn. lia. }
  assert (HX : secsR d = (rS + rn / 1000000000)%R).
  { unfold secsR. rewrite Hdm at 1. rewrite N2Z.inj_add, N2Z.inj_mul, plus_IZR, mult_IZR.
    fold rS rn. change (IZR (Z.of_N NS)) with 1000000000%R. field. }
  (* the nanosecond part: one division *)
  set (r := (rn / 1000000000)%R) in *.
  assert (Hr' : (r = 0 \/ / 1000000000 <= r)%R).
  { subst r. destruct Hn0 as [->|H1]; [left; lra|right]. lra. }
  assert (Hr : (r = 0 \/ / 4000000000 <= r)%R) by (destruct Hr'; [left; assumption|right; lra]).
  assert (Hr1 : (0 <= r <= 1)%R) by (subst r; destruct Hn0; lra).
  pose proof (rnd64_bounds r Hr) as Hq.
  assert (Hq01 : (0 <= rnd64 r <= 1)%R).
  { split.
    - replace 0%R with (rnd64 0) by (apply round_0; apply valid_rnd_N). apply rnd64_mono; lra.
    - rewrite <- (rnd64_id_Z 1) by (simpl; lia). apply rnd64_mono; lra. }
  generalize (Bdiv_correct prec64 emax64 _ _ mode_NE (f64_of_N n) (f64_of_N NS)).
  rewrite Rn, RN. fold r. intros Hdv. specialize (Hdv ltac:(lra)).
  change (round_mode mode_NE) with ZnearestE in Hdv.
  rewrite Rlt_bool_true in Hdv.
  2:{ rewrite Rabs_pos_eq by lra. apply Rle_lt_trans with 1%R; [lra|].
      change 1%R with (bpow radix2 0). apply bpow_lt. unfold emax64; lia. }
  destruct Hdv as (Vq & Fq & _). rewrite Fn in Fq.
  (* the sum *)
  set (q := fdiv (f64_of_N n) (f64_of_N NS)) in *.
  change (Bdiv mode_NE (f64_of_N n) (f64_of_N NS)) with q in Vq, Fq.
  generalize (Bplus_correct prec64 emax64 _ _ mode_NE (f64_of_N S) q FS Fq).
  rewrite RS, Vq. change (round_mode mode_NE) with ZnearestE.
  set (y := (rS + rnd64 r)%R).
  assert (Hy : (y = 0 \/ / 4000000000 <= y)%R).
  { subst y. destruct HS0 as [HS0|HS0]; [|right; lra].
    destruct Hr' as [Hr0|Hr0]; [left|right].
    - rewrite Hr0 in Hq |- *. lra.
    - apply Rle_trans with (r * (1 - u64))%R; [|lra].
      apply Rle_trans with (/ 1000000000 * (/ 4))%R; [lra|].
      apply Rmult_le_compat; lra. }
  assert (Hyle : (0 <= y <= IZR (2 ^ 54))%R).
  { subst y. split; [destruct HS0; lra|].
    change (IZR (2 ^ 54)) with 18014398509481984%R. change (IZR (2 ^ 53)) with 9007199254740992%R in HSle. lra. }
  pose proof (rnd64_bounds y Hy) as Hry.
  assert (Hryle : (0 <= rnd64 y <= IZR (2 ^ 54))%R).
  { split.
    - replace 0%R with (rnd64 0) by (apply round_0; apply valid_rnd_N). apply rnd64_mono; lra.
    - change (IZR (2 ^ 54)) with (bpow radix2 54). rewrite <- (rnd64_id_bpow 54) by lia.
      apply rnd64_mono. change (bpow radix2 54) with (IZR (2 ^ 54)). lra. }
  rewrite Rlt_bool_true.
  2:{ rewrite Rabs_pos_eq by lra. apply Rle_lt_trans with (IZR (2 ^ 54)); [lra|].
      change (IZR (2 ^ 54)) with (bpow radix2 54). apply bpow_lt. unfold emax64; lia. }
  intros (Va & Fa & _). unfold fadd. split; [exact Fa|].
  rewrite Va, HX.
  assert (HS00 : (0 <= rS)%R) by (destruct HS0; lra).
  subst y. split.
  - apply Rle_trans with ((rS + rnd64 r) * (1 - u64))%R; [|lra].
    replace ((rS + r) * ((1 - u64) * (1 - u64)))%R with (((rS + r) * (1 - u64)) * (1 - u64))%R by ring.
    apply Rmult_le_compat_r; [lra|]. nra.
  - apply Rle_trans with ((rS + rnd64 r) * (1 + u64))%R; [lra|].
    replace ((rS + r) * ((1 + u64) * (1 + u64)))%R with (((rS + r) * (1 + u64)) * (1 + u64))%R by ring.
    apply Rmult_le_compat_r; [lra|]. nra.
Qed.

Lemma as_secs_f64_zero : as_secs_f64 0 = B754_zero false.
Proof. vm_compute. reflexivity. Qed.

(** (1+u)^2 <= (1 + 8u) (1-u)^2 for small u *)
Lemma tol_poly : forall u : R, (0 < u <= / 16)%R ->
  (0 < (1 - u) * (1 - u) /\ (1 + u) * (1 + u) <= (1 + 8 * u) * ((1 - u) * (1 - u)))%R.
Proof.
  intros u Hu. split; [apply Rmult_lt_0_compat; lra|].
  assert (E : ((1 + 8 * u) * ((1 - u) * (1 - u)) - (1 + u) * (1 + u) = 4 * u * (1 - 4 * u + 2 * (u * u)))%R) by ring.
  assert (0 <= u * u)%R by (apply Rmult_le_pos; lra).
  assert (0 <= 4 * u * (1 - 4 * u + 2 * (u * u)))%R by (apply Rmult_le_pos; lra).
  lra.
Qed.

Lemma tol_const : (8 * u64 = / 2 ^ 50)%R.
Proof. rewrite u64_val. lra. Qed.

(** "the blocked share d/e is below f (if set), up to a relative 2^-50" *)
Definition share_below_tol (f : F64) (d e : N) : Prop :=
  fgt f f64_zero = false \/ (e = 0 /\ d = 0) \/
  (0 < e /\ (IZR (Z.of_N d) / IZR (Z.of_N e) < B2R f * (1 + / 2 ^ 50))%R).

(** the std clock's quotient is within a relative 2^-50 of the real quotient *)
Theorem share_below_std_tolerance : forall f d e,
  is_finite f = true -> (B2R f <= 1)%R ->
  d < 2 ^ 53 * NS -> e < 2 ^ 53 * NS ->
  share_below stdclock f d e ->
  fgt f f64_zero = false \/ (e = 0 /\ d = 0) \/
  (0 < e /\ (IZR (Z.of_N d) / IZR (Z.of_N e) < B2R f * (1 + / 2 ^ 50))%R).
Proof.
  unfold share_below; intros f d e Hf Hf1 Hd He [H|H]; [left; exact H|].
  destruct (fgt f f64_zero) eqn:Eg; [|left; reflexivity]. right.
  cbn [c_div stdclock] in H.
  destruct (as_secs_f64_bounds d Hd) as [Fd [Ld Ud]].
  destruct (as_secs_f64_bounds e He) as [Fe [Le Ue]].
  pose proof u64_range as Hu.
  destruct (tol_poly u64 Hu) as [Ha Hab].
  set (a := ((1 - u64) * (1 - u64))%R) in *. set (b := ((1 + u64) * (1 + u64))%R) in *.
  assert (Hb : (0 < b <= 2)%R).
  { subst b. split; [apply Rmult_lt_0_compat; lra|].
    apply Rle_trans with ((1 + / 16) * (1 + / 16))%R; [apply Rmult_le_compat; lra|lra]. }
  assert (Ha4 : (/ 2 <= a)%R).
  { subst a. apply Rle_trans with ((1 - / 16) * (1 - / 16))%R; [lra|apply Rmult_le_compat; lra]. }
  assert (Hfpos : (0 < B2R f)%R).
  { unfold fgt in Eg. rewrite Bltb_correct in Eg by (auto; reflexivity).
    change (B2R f64_zero) with 0%R in Eg.
    destruct (Rlt_bool_spec 0 (B2R f)); [assumption|discriminate]. }
  assert (HD0 : (0 <= IZR (Z.of_N d))%R) by (apply IZR_le; lia).
  assert (HDle : (IZR (Z.of_N d) <= 9007199254740992 * 1000000000)%R).
  { rewrite <- mult_IZR. apply IZR_le. change NS with 1000000000 in Hd. lia. }
  destruct (N.eq_dec e 0) as [->|Hne].
  - (* elapsed = 0: only 0/0 (NaN) passes; d/0 = +inf is >= f *)
    destruct (N.eq_dec d 0) as [->|Hdn]; [left; auto|exfalso].
    assert (HD1 : (1 <= IZR (Z.of_N d))%R) by (apply (IZR_le 1); lia).
    assert (Hdpos : (0 < B2R (as_secs_f64 d))%R).
    { eapply Rlt_le_trans; [|exact Ld]. apply Rmult_lt_0_compat; [unfold secsR; lra|lra]. }
    rewrite as_secs_f64_zero in H. unfold fge, fdiv in H.
    assert (Hinf : Bdiv mode_NE (as_secs_f64 d) (B754_zero false) = B754_infinity false).
    { destruct (as_secs_f64 d) as [s|s| |s mm ee Hbd] eqn:Eo.
      - exfalso. cbn in Hdpos. lra.
      - discriminate Fd.
      - discriminate Fd.
      - assert (s = false).
        { destruct s; [|reflexivity]. exfalso. cbn in Hdpos. unfold F2R in Hdpos. cbn in Hdpos.
          assert (IZR (Z.neg mm) < 0)%R by (apply IZR_lt; lia).
          pose proof (bpow_gt_0 radix2 ee). nra. }
        subst s. vm_compute. reflexivity. }
    rewrite Hinf in H.
    destruct f as [s|s| |s mm ee Hbf]; try discriminate Hf; vm_compute in Eg, H; discriminate.
  - right. split; [lia|].
    assert (HE1 : (1 <= IZR (Z.of_N e))%R) by (apply (IZR_le 1); lia).
    set (D := IZR (Z.of_N d)) in *. set (E := IZR (Z.of_N e)) in *.
    set (Ad := B2R (as_secs_f64 d)) in *. set (Ae := B2R (as_secs_f64 e)) in *.
    unfold secsR in Ld, Ud, Le, Ue. fold D E in Ld, Ud, Le, Ue.
    assert (HAe : (/ 2000000000 <= Ae)%R).
    { eapply Rle_trans; [|exact Le].
      apply Rle_trans with (/ 1000000000 * / 2)%R; [lra|apply Rmult_le_compat; lra]. }
    assert (HAd : (0 <= Ad <= 9007199254740992 * 2)%R).
    { split.
      - eapply Rle_trans; [|exact Ld]. apply Rmult_le_pos; lra.
      - eapply Rle_trans; [exact Ud|]. apply Rmult_le_compat; lra. }
    assert (Hq0 : (0 <= Ad / Ae)%R).
    { apply Rmult_le_pos; [lra|]. left. apply Rinv_0_lt_compat. lra. }
    assert (Hqle : (Ad / Ae <= bpow radix2 90)%R).
    { apply Rmult_le_reg_r with Ae; [lra|]. unfold Rdiv. rewrite Rmult_assoc, Rinv_l by lra.
      rewrite Rmult_1_r. change (bpow radix2 90) with 1237940039285380274899124224%R.
      apply Rle_trans with (1237940039285380274899124224 * / 2000000000)%R; [lra|].
      apply Rmult_le_compat_l; lra. }
    generalize (Bdiv_correct prec64 emax64 _ _ mode_NE (as_secs_f64 d) (as_secs_f64 e)).
    fold Ad Ae. intros Hdv. specialize (Hdv ltac:(lra)).
    change (round_mode mode_NE) with ZnearestE in Hdv.
    assert (Hr0 : (0 <= rnd64 (Ad / Ae) <= bpow radix2 90)%R).
    { split.
      - replace 0%R with (rnd64 0) by (apply round_0; apply valid_rnd_N). apply rnd64_mono; exact Hq0.
      - rewrite <- (rnd64_id_bpow 90) by lia. apply rnd64_mono; exact Hqle. }
    rewrite Rlt_bool_true in Hdv.
    2:{ rewrite Rabs_pos_eq by lra. apply Rle_lt_trans with (bpow radix2 90); [lra|].
        apply bpow_lt. unfold emax64; lia. }
    destruct Hdv as (Vq & Fq & _). rewrite Fd in Fq.
    unfold fge, fdiv in H. rewrite Bleb_correct in H by assumption.
    rewrite Vq in H.
    destruct (Rle_bool_spec (B2R f) (rnd64 (Ad / Ae))) as [Hx|Hx]; [discriminate|]. clear H.
    (* rnd q < f, f representable, rnd monotone: q < f *)
    assert (Hqf : (Ad / Ae < B2R f)%R).
    { destruct (Rlt_or_le (Ad / Ae) (B2R f)) as [Hlt|Hge]; [exact Hlt|exfalso].
      apply (Rlt_irrefl (B2R f)). eapply Rle_lt_trans; [|exact Hx].
      assert (Hff : rnd64 (B2R f) = B2R f)
        by (apply round_generic; [apply valid_rnd_N|apply generic_format_B2R]).
      rewrite <- Hff at 1. apply rnd64_mono. exact Hge. }
    set (F := B2R f) in *.
    assert (H1 : (Ad < F * Ae)%R).
    { apply Rmult_lt_reg_r with (/ Ae)%R; [apply Rinv_0_lt_compat; lra|].
      rewrite Rmult_assoc, Rinv_r by lra. rewrite Rmult_1_r. exact Hqf. }
    (* D/1e9 * a <= Ad < F * Ae <= F * (E/1e9 * b) <= F * (E/1e9 * ((1+8u) * a)) *)
    assert (H2 : (D / 1000000000 * a < F * (E / 1000000000 * ((1 + 8 * u64) * a)))%R).
    { eapply Rle_lt_trans; [exact Ld|]. eapply Rlt_le_trans; [exact H1|].
      apply Rmult_le_compat_l; [lra|]. eapply Rle_trans; [exact Ue|].
      apply Rmult_le_compat_l; [|exact Hab]. apply Rmult_le_pos; lra. }
    rewrite <- tol_const.
    assert (H3 : (D < F * (1 + 8 * u64) * E)%R).
    { apply Rmult_lt_reg_r with (/ 1000000000 * a)%R; [apply Rmult_lt_0_compat; lra|].
      replace (D * (/ 1000000000 * a))%R with (D / 1000000000 * a)%R by (unfold Rdiv; ring).
      replace (F * (1 + 8 * u64) * E * (/ 1000000000 * a))%R
        with (F * (E / 1000000000 * ((1 + 8 * u64) * a)))%R by (unfold Rdiv; ring).
      exact H2. }
    apply Rmult_lt_reg_r with E; [lra|].
    unfold Rdiv. rewrite Rmult_assoc, Rinv_l by lra. rewrite Rmult_1_r. exact H3.
Qed.

Corollary share_below_std_tol : forall f d e,
  is_finite f = true -> (B2R f <= 1)%R ->
  d < 2 ^ 53 * NS -> e < 2 ^ 53 * NS ->
  share_below stdclock f d e -> share_below_tol f d e.
Proof. exact share_below_std_tolerance. Qed.

(** ** concrete instances of the premise (f = 0.5) *)
Definition f_half : F64 := f64_of_bits 4602678819172646912.   (* 0x3FE0000000000000 *)

Example f_half_val : is_finite f_half = true /\ B2R f_half = (/ 2)%R.
Proof.
  split; [reflexivity|].
  assert (E : B2SF f_half = SpecFloat.S754_finite false 4503599627370496 (-53)) by (vm_compute; reflexivity).
  destruct f_half as [s|s| |s mm ee Hb]; try discriminate E.
  cbn [B2SF] in E. injection E as -> -> ->.
  unfold B2R, F2R. cbn [Fnum Fexp cond_Zopp].
  change (bpow radix2 (-53)) with (/ 9007199254740992)%R. lra.
Qed.

(* 1.2 s blocked of 3.7 s elapsed: 0.324 < 0.5, the test passes *)
Example share_below_std_holds : share_below stdclock f_half 1200000000 3700000000.
Proof. right. vm_compute. reflexivity. Qed.

(* 2.0 s blocked of 3.7 s elapsed: 0.54 >= 0.5, the test fails *)
Example share_below_std_fails : ~ share_below stdclock f_half 2000000000 3700000000.
Proof. intros [H|H]; vm_compute in H; discriminate. Qed.

(* elapsed = 0: 0/0 is NaN and passes (the middle disjunct), d/0 = +inf fails *)
Example share_below_std_zero_zero : share_below stdclock f_half 0 0.
Proof. right. vm_compute. reflexivity. Qed.

Example share_below_std_pos_zero : ~ share_below stdclock f_half 5 0.
Proof. intros [H|H]; vm_compute in H; discriminate. Qed.

(** ** the history-level statement for the std clock *)
Theorem blocking_budget_history_stdclock : forall c tp t0 s0 h e t s' outs i tmo dur byp rep m,
  valid_cfg c = true -> clk c = stdclock ->
  fnew c tp t0 = Ok s0 ->
  run c tp s0 (h ++ [([e], t)]) = Ok (s', outs) ->
  In (TBlockOutgoing i tmo dur byp rep) (last outs []) ->
  nth_error (machines c) (N.to_nat i) = Some m ->
  let A := acct_hist stdclock (h ++ [([e], t)]) (acct0 c t0) in
  exists ns ps bd, nth_error (a_m A) (N.to_nat i) = Some (ns, ps, bd) /\
    let blocked_i := with_ongoing stdclock (a_bactive A) (a_now A) (a_bstart A) bd in
    let blocked_g := with_ongoing stdclock (a_bactive A) (a_now A) (a_bstart A) (a_gblk A) in
    let elapsed := Z.to_N (a_now A - a_start A) in
    blocked_i < 2 ^ 53 * NS -> blocked_g < 2 ^ 53 * NS -> elapsed < 2 ^ 53 * NS ->
    (rep = true /\ a_bactive A = true) \/
    blocked_i < allowed_blocked_microsec m * 1000 \/
    (share_below_tol (f64_of_bits (max_blocking_frac m)) blocked_i elapsed /\
     share_below_tol (f64_of_bits (fw_max_blocking_frac c)) blocked_g elapsed).
Proof.
  intros c tp t0 s0 h e t s' outs i tmo dur byp rep m Hv Hk Hnew Hrun Hin Hm A.
  destruct (blocking_budget_history c tp t0 s0 h e t s' outs i tmo dur byp rep m Hnew Hrun Hin Hm)
    as (ns & ps & bd & Hn & Hb).
  rewrite Hk in Hn, Hb. fold A in Hn, Hb.
  exists ns, ps, bd. split; [exact Hn|].
  intros blocked_i blocked_g elapsed Hbi Hbg Hel.
  cbn [c_from_micros c_since stdclock] in Hb. fold blocked_i blocked_g elapsed in Hb.
  destruct Hb as [Hb|[Hb|[Hb1 Hb2]]]; [left; exact Hb|right; left; exact Hb|right; right].
  unfold valid_cfg in Hv. split_andb.
  match goal with Hf : forallb validate_machine _ = true |- _ =>
    rewrite forallb_forall in Hf; specialize (Hf m (nth_error_In _ _ Hm));
    unfold validate_machine in Hf; cbv zeta in Hf end.
  split_andb.
  repeat match goal with Hu : in_unit _ = true |- _ => apply in_unit_range in Hu; destruct Hu end.
  split; apply share_below_std_tol; assumption.
Qed.

Print Assumptions share_below_std_tolerance.
Print Assumptions blocking_budget_history_stdclock.
