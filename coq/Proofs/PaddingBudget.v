(** C02: padding budgets. The gate instance for SendPadding, the translation
    of the f64 fraction test into an exact rational inequality, and the
    history-level recount. *)
From Coq Require Import Reals Lra.
From Flocq Require Import Core.Core IEEE754.BinarySingleNaN.
From MB Require Import Model.Framework Model.Validate.
From MB Require Import Proofs.Tactics Proofs.ListFacts Proofs.FloatFacts Proofs.FrameworkStructure
     Proofs.FrameworkInv Proofs.FrameworkSlots Proofs.FrameworkAcct Proofs.AcctSpec.
Open Scope N_scope.

(** the fraction test of [below_limit_padding] *)
Definition frac_exceeded (f : F64) (p t : N) : bool :=
  fgt f f64_zero && (0 <? t) && fge (fdiv (f64_of_N p) (f64_of_N t)) f.

Definition pad_budget_ok (c : cfg) (gp gn : N) (ps ns : N) (m : machine) : bool :=
  (ps <? allowed_padding_packets m)
  || (negb (frac_exceeded (f64_of_bits (max_padding_frac m)) ps (ns + ps))
      && negb (frac_exceeded (f64_of_bits (fw_max_padding_frac c)) gp (gp + gn))).

Lemma below_limit_padding_budget : forall c s r m,
  below_limit_padding c s r m = true ->
  pad_budget_ok c (gpad s) (gnorm s) (psent r) (nsent r) m = true /\ 0 < lim r.
Proof.
  unfold below_limit_padding, pad_budget_ok, frac_exceeded; intros c s r m H.
  destruct (psent r <? allowed_padding_packets m); [cbn; split; [reflexivity|apply N.ltb_lt; exact H]|].
  cbn [orb].
  destruct (fgt (f64_of_bits (max_padding_frac m)) f64_zero && (0 <? nsent r + psent r)
            && fge (fdiv (f64_of_N (psent r)) (f64_of_N (nsent r + psent r))) (f64_of_bits (max_padding_frac m)));
    [discriminate|].
  destruct (fgt (f64_of_bits (fw_max_padding_frac c)) f64_zero && (0 <? gpad s + gnorm s)
            && fge (fdiv (f64_of_N (gpad s)) (f64_of_N (gpad s + gnorm s))) (f64_of_bits (fw_max_padding_frac c)));
    [discriminate|].
  cbn. split; [reflexivity|apply N.ltb_lt; exact H].
Qed.

(** "the fraction p/t is below the limit f (if set)"; a fraction over zero
    packets counts as below *)
Definition frac_below (f : F64) (p t : N) : Prop :=
  fgt f f64_zero = false \/ t = 0 \/ (IZR (Z.of_N p) / IZR (Z.of_N t) < B2R f)%R.

Lemma not_exceeded_below : forall f p t,
  is_finite f = true -> p <= t -> t < 2 ^ 53 ->
  frac_exceeded f p t = false -> frac_below f p t.
Proof.
  unfold frac_exceeded, frac_below; intros f p t Hf Hp Ht H.
  destruct (fgt f f64_zero) eqn:Eg; [|left; reflexivity].
  destruct (N.ltb_spec 0 t) as [Hpos|Hz]; [|right; left; lia].
  cbn [andb] in H. right; right.
  apply (div_deny_exact (Z.of_N p) (Z.of_N t) f).
  - lia.
  - split; [lia|]. change (2 ^ 53)%Z with (Z.of_N (2 ^ 53)). lia.
  - exact Hf.
  - exact H.
Qed.

Lemma fle_one : forall x : F64, fle x f64_one = fle x (ofZ 1).
Proof.
  intros x. unfold fle, Bleb. f_equal; vm_compute; reflexivity.
Qed.

Lemma in_unit_finite : forall f, in_unit f = true -> is_finite f = true.
Proof.
  unfold in_unit; intros f H. apply andb_prop in H. destruct H as [H0 H1].
  rewrite fle_one in H1. apply (unit_range_finite f H0 H1).
Qed.

(** ** the gate instance *)
Definition Qpad (c : cfg) (s : fstate) (i : nat) (ta : taction) : Prop :=
  match ta with
  | TSendPadding _ _ _ _ =>
      exists r m, nth_error (rts s) i = Some r /\ nth_error (machines c) i = Some m /\
                  pad_budget_ok c (gpad s) (gnorm s) (psent r) (nsent r) m = true
  | _ => True
  end.

Lemma Qpad_acct : forall c s s' i ta, acct_same s s' -> Qpad c s i ta -> Qpad c s' i ta.
Proof.
  intros c s s' i ta A H. destruct ta; cbn in *; auto.
  destruct H as (r & m0 & Hr & Hm & Hb). destruct A as [_ _ A3 A4 _ _ _ _ A9].
  destruct (A9 i r Hr) as (r' & Hr' & (S1 & S2 & S3)).
  exists r', m0. rewrite A3, A4, S1, S2. auto.
Qed.

Lemma Qpad_other : forall c s mi r' i ta, i <> mi -> Qpad c s i ta -> Qpad c (set_rt s mi r') i ta.
Proof.
  intros c s mi r' i ta Hne H. destruct ta; cbn in *; auto.
  destruct H as (r & m0 & Hr & Hm & Hb). exists r, m0.
  rewrite nth_error_upd_neq by auto. auto.
Qed.

Lemma Qpad_sched : forall c s mi r m st ta,
  nth_error (rts s) mi = Some r -> nth_error (machines c) mi = Some m ->
  nthN (states m) (cur r) = Some st -> below_action_limits c s r m = Ok true ->
  action_shape (saction st) ta -> Qpad c s mi ta.
Proof.
  intros c s mi r m st ta Hr Hm Hst Hb Hsh. destruct ta as [? ?|mm tm b rp|? ? ? ? ?|? ? ?]; cbn; auto.
  unfold below_action_limits, getN in Hb. rewrite Hst in Hb. cbn [bind] in Hb.
  destruct (saction st) as [[t|b0 r0 t l|b0 r0 t d l|r0 d l]|]; cbn in Hsh; try contradiction.
  injection Hb as Hb'. apply below_limit_padding_budget in Hb'. destruct Hb' as [Hb' _].
  exists r, m. auto.
Qed.

Theorem padding_gate_call : forall c tp s e t s' acts i tmo byp rep,
  trigger_events c tp s [e] t = Ok (s', acts) ->
  In (TSendPadding i tmo byp rep) acts ->
  exists r m, nth_error (rts s') (N.to_nat i) = Some r /\
              nth_error (machines c) (N.to_nat i) = Some m /\
              pad_budget_ok c (gpad s') (gnorm s') (psent r) (nsent r) m = true.
Proof.
  intros c tp s e t s' acts i tmo byp rep H Hin.
  pose proof (single_event_gate c tp (Qpad c) (Qpad_acct c) (Qpad_other c) (Qpad_sched c) s e t s' acts H) as HG.
  destruct (output_contract c tp s [e] t s' acts H) as (_ & _ & H3).
  destruct (H3 _ Hin) as (_ & Hn & _). cbn [taction_machine] in Hn.
  exact (HG _ _ Hn).
Qed.

(** ** recount over histories *)
Definition history := list (list trigger_event * Z).

Definition acct_hist (k : clock) (h : history) (a : acct) : acct :=
  fold_left (fun a '(evs, t) => acct_call k evs t a) h a.

Lemma run_acct : forall c tp h s s' outs,
  run c tp s h = Ok (s', outs) -> acct_of s' = acct_hist (clk c) h (acct_of s).
Proof.
  intros c tp h; induction h as [|[evs t] h IH]; intros s s' outs H; cbn [run] in H.
  - inversion H; subst; reflexivity.
  - mbind H as [s1 a1] E1. mbind H as [s2 r2] E2. inversion H; subst.
    cbn [acct_hist fold_left]. apply trigger_events_acct in E1. rewrite <- E1.
    apply (IH _ _ _ E2).
Qed.

Lemma run_app : forall c tp h1 h2 s s' outs,
  run c tp s (h1 ++ h2) = Ok (s', outs) ->
  exists s1 o1 o2, run c tp s h1 = Ok (s1, o1) /\ run c tp s1 h2 = Ok (s', o2) /\ outs = o1 ++ o2.
Proof.
  intros c tp h1; induction h1 as [|[evs t] h1 IH]; intros h2 s s' outs H; cbn [app run] in *.
  - exists s, [], outs. auto.
  - mbind H as [s1 a1] E1. mbind H as [s2 r2] E2. inversion H; subst.
    destruct (IH _ _ _ _ E2) as (sx & o1 & o2 & Hx & Hy & ->).
    exists sx, (a1 :: o1), o2. cbn [bind]. rewrite Hx. cbn [bind]. auto.
Qed.

(** counting the reports *)
Definition all_events (h : history) : list trigger_event := flat_map fst h.

Fixpoint count_normal (evs : list trigger_event) : N :=
  match evs with
  | [] => 0
  | TENormalSent :: t => 1 + count_normal t
  | _ :: t => count_normal t
  end.

Fixpoint count_pad (evs : list trigger_event) : N :=
  match evs with
  | [] => 0
  | TEPaddingSent _ :: t => 1 + count_pad t
  | _ :: t => count_pad t
  end.

Fixpoint count_pad_for (i : N) (evs : list trigger_event) : N :=
  match evs with
  | [] => 0
  | TEPaddingSent m :: t => (if m =? i then 1 else 0) + count_pad_for i t
  | _ :: t => count_pad_for i t
  end.

Definition pad_view (a : acct) (i : nat) : option (N * N) :=
  match nth_error (a_m a) i with Some (n, p, _) => Some (n, p) | None => None end.

Lemma mapi_acct_nth : forall m l i n p b,
  nth_error l i = Some (n, p, b) ->
  nth_error (mapi_acct m l) i = Some (n, if m =? N.of_nat i then p + 1 else p, b).
Proof.
  unfold mapi_acct. intros m l.
  assert (G : forall (l : list (N*N*N)) off i n p b, nth_error l i = Some (n, p, b) ->
    nth_error ((fix go (i0 : nat) (l0 : list (N * N * N)) {struct l0} : list (N * N * N) :=
         match l0 with
         | [] => []
         | (n, p, b) :: t => (if N.of_nat i0 =? m then (n, p + 1, b) else (n, p, b)) :: go (S i0) t
         end) off l) i = Some (n, if m =? N.of_nat (off + i) then p + 1 else p, b)).
  { induction l0 as [|[[n0 p0] b0] l0 IHl]; intros off [|i] n p b H; cbn in H; try discriminate.
    - inversion H; subst. cbn. rewrite Nat.add_0_r, (N.eqb_sym m).
      destruct (N.of_nat off =? m); reflexivity.
    - cbn. rewrite (IHl (S off) i n p b H). replace (off + S i)%nat with (S off + i)%nat by lia. reflexivity. }
  intros i n p b H. apply (G l 0%nat i n p b H).
Qed.

Ltac some_pair :=
  cbn; rewrite ?N.add_0_r;
  match goal with
  | |- Some (?a, ?b) = Some (?c, ?d) =>
      replace c with a by lia; replace d with b by lia; reflexivity
  end.

Lemma acct_event_pad : forall k e a i n p,
  pad_view a i = Some (n, p) ->
  a_gnorm (acct_event k e a) = a_gnorm a + count_normal [e] /\
  a_gpad (acct_event k e a) = a_gpad a + count_pad [e] /\
  pad_view (acct_event k e a) i = Some (n + count_normal [e], p + count_pad_for (N.of_nat i) [e]).
Proof.
  unfold pad_view; intros k e a i n p H.
  destruct (nth_error (a_m a) i) as [[[n0 p0] b0]|] eqn:E; inversion H; subst. clear H.
  destruct e as [ | | | |m| |m| |m|m]; cbn [acct_event count_normal count_pad count_pad_for a_gnorm a_gpad a_m];
    rewrite ?N.add_0_r; try (rewrite E; auto; fail).
  - split; [lia|]. split; [reflexivity|].
    rewrite (map_nth_error _ _ _ E). some_pair.
  - split; [reflexivity|]. split; [lia|].
    rewrite (mapi_acct_nth m _ _ _ _ _ E). destruct (m =? N.of_nat i); some_pair.
  - destruct (a_bactive a); cbn; rewrite E; auto.
  - destruct (a_bactive a); cbn; [|rewrite E; auto].
    rewrite (map_nth_error _ _ _ E). auto.
Qed.

Lemma count_normal_app : forall l1 l2, count_normal (l1 ++ l2) = count_normal l1 + count_normal l2.
Proof. induction l1 as [|e l1 IH]; intros l2; cbn [app count_normal]; [reflexivity|]. destruct e; rewrite ?IH; lia. Qed.
Lemma count_pad_app : forall l1 l2, count_pad (l1 ++ l2) = count_pad l1 + count_pad l2.
Proof. induction l1 as [|e l1 IH]; intros l2; cbn [app count_pad]; [reflexivity|]. destruct e; rewrite ?IH; lia. Qed.
Lemma count_pad_for_app : forall i l1 l2, count_pad_for i (l1 ++ l2) = count_pad_for i l1 + count_pad_for i l2.
Proof. induction l1 as [|e l1 IH]; intros l2; cbn [app count_pad_for]; [reflexivity|]. destruct e; rewrite ?IH; lia. Qed.

Lemma acct_call_pad : forall k evs t a i n p,
  pad_view a i = Some (n, p) ->
  a_gnorm (acct_call k evs t a) = a_gnorm a + count_normal evs /\
  a_gpad (acct_call k evs t a) = a_gpad a + count_pad evs /\
  pad_view (acct_call k evs t a) i = Some (n + count_normal evs, p + count_pad_for (N.of_nat i) evs).
Proof.
  unfold acct_call. intros k evs t a i n p H.
  set (a0 := mkacct t (a_start a) (a_gnorm a) (a_gpad a) (a_gblk a) (a_bstart a) (a_bactive a) (a_m a)).
  assert (H0 : pad_view a0 i = Some (n, p)) by exact H.
  change (a_gnorm a) with (a_gnorm a0). change (a_gpad a) with (a_gpad a0).
  clearbody a0. clear H. revert a0 n p H0.
  induction evs as [|e evs IH]; intros a0 n p H0; cbn [fold_left].
  - cbn. rewrite !N.add_0_r. auto.
  - destruct (acct_event_pad k e a0 i n p H0) as (E1 & E2 & E3).
    destruct (IH _ _ _ E3) as (I1 & I2 & I3).
    rewrite I1, I2, I3, E1, E2.
    change (e :: evs) with ([e] ++ evs). rewrite count_normal_app, count_pad_app, count_pad_for_app.
    split; [lia|]. split; [lia|]. f_equal. f_equal; lia.
Qed.

Lemma acct_hist_pad : forall k h a i n p,
  pad_view a i = Some (n, p) ->
  a_gnorm (acct_hist k h a) = a_gnorm a + count_normal (all_events h) /\
  a_gpad (acct_hist k h a) = a_gpad a + count_pad (all_events h) /\
  pad_view (acct_hist k h a) i =
    Some (n + count_normal (all_events h), p + count_pad_for (N.of_nat i) (all_events h)).
Proof.
  unfold acct_hist, all_events. intros k h; induction h as [|[evs t] h IH]; intros a i n p H; cbn [fold_left flat_map fst].
  - cbn. rewrite !N.add_0_r. auto.
  - destruct (acct_call_pad k evs t a i n p H) as (E1 & E2 & E3).
    destruct (IH _ _ _ _ E3) as (I1 & I2 & I3).
    rewrite I1, I2, I3, E1, E2, count_normal_app, count_pad_app, count_pad_for_app.
    split; [lia|]. split; [lia|]. f_equal. f_equal; lia.
Qed.

Lemma count_pad_for_le : forall i evs, count_pad_for i evs <= count_pad evs.
Proof.
  induction evs as [|e evs IH]; cbn [count_pad_for count_pad]; [lia|].
  destruct e; try lia. destruct (m =? i); lia.
Qed.

Lemma all_events_app : forall h1 h2, all_events (h1 ++ h2) = all_events h1 ++ all_events h2.
Proof. unfold all_events; intros; apply flat_map_app. Qed.

Lemma all_events_snoc : forall h e t, all_events (h ++ [([e], t)]) = all_events h ++ [e].
Proof. intros. rewrite all_events_app. reflexivity. Qed.

Lemma init_rts_acct : forall tp ms p rs p',
  init_rts tp p ms = Ok (rs, p') -> map rt_acct rs = map (fun _ => (0, 0, 0)) ms.
Proof.
  induction ms as [|m ms IH]; intros p rs p' H; cbn [init_rts] in H.
  - inversion H; subst; reflexivity.
  - mbind H as st0 E0.
    destruct (match saction st0 with Some a => sample_limit tp p a | None => (0, p) end) as [l p1].
    mbind H as [rs1 p2] E1. inversion H; subst. cbn [map]. rewrite (IH _ _ _ E1). reflexivity.
Qed.

Lemma fnew_acct : forall c tp t0 s0 i,
  fnew c tp t0 = Ok s0 -> (i < length (machines c))%nat ->
  a_gnorm (acct_of s0) = 0 /\ a_gpad (acct_of s0) = 0 /\ pad_view (acct_of s0) i = Some (0, 0).
Proof.
  unfold fnew; intros c tp t0 s0 i H Hi. mbind H as [rs p] E. inversion H; subst.
  unfold pad_view, acct_of; cbn. rewrite (init_rts_acct _ _ _ _ _ E).
  split; [reflexivity|]. split; [reflexivity|].
  destruct (nth_error (machines c) i) as [m|] eqn:Em; [|apply nth_error_None in Em; lia].
  rewrite (map_nth_error _ _ _ Em). reflexivity.
Qed.

Theorem padding_budget_history : forall c tp t0 s0 h e t s' outs i tmo byp rep m,
  valid_cfg c = true ->
  fnew c tp t0 = Ok s0 ->
  run c tp s0 (h ++ [([e], t)]) = Ok (s', outs) ->
  In (TSendPadding i tmo byp rep) (last outs []) ->
  nth_error (machines c) (N.to_nat i) = Some m ->
  let evs := all_events h ++ [e] in
  count_normal evs + count_pad evs < 2 ^ 53 ->
  count_pad_for i evs < allowed_padding_packets m \/
  (frac_below (f64_of_bits (max_padding_frac m)) (count_pad_for i evs) (count_normal evs + count_pad_for i evs) /\
   frac_below (f64_of_bits (fw_max_padding_frac c)) (count_pad evs) (count_pad evs + count_normal evs)).
Proof.
  intros c tp t0 s0 h e t s' outs i tmo byp rep m Hv Hnew Hrun Hin Hm evs Hsmall.
  pose proof (run_acct _ _ _ _ _ _ Hrun) as Hacct.
  destruct (run_app _ _ _ _ _ _ _ Hrun) as (s1 & o1 & o2 & Hr1 & Hr2 & ->).
  cbn [run] in Hr2. mbind Hr2 as [s2 acts] Ecall. inversion Hr2; subst. clear Hr2.
  rewrite last_last in Hin.
  destruct (padding_gate_call _ _ _ _ _ _ _ _ _ _ _ Ecall Hin) as (r & m' & Hr & Hm' & Hok).
  assert (m' = m) by congruence. subst m'.
  assert (Hi : (N.to_nat i < length (machines c))%nat) by (apply nth_error_Some; congruence).
  destruct (fnew_acct _ _ _ _ _ Hnew Hi) as (G0 & P0 & V0).
  destruct (acct_hist_pad (clk c) (h ++ [([e], t)]) (acct_of s0) (N.to_nat i) 0 0 V0) as (G1 & P1 & V1).
  rewrite <- Hacct in G1, P1, V1. rewrite G0 in G1. rewrite P0 in P1.
  rewrite all_events_snoc in G1, P1, V1. rewrite N2Nat.id in V1.
  fold evs in G1, P1, V1.
  assert (Hns : nsent r = count_normal evs /\ psent r = count_pad_for i evs).
  { unfold pad_view, acct_of in V1. cbn [a_m] in V1. rewrite (map_nth_error _ _ _ Hr) in V1.
    unfold rt_acct in V1. rewrite !N.add_0_l in V1. inversion V1. auto. }
  destruct Hns as [Hn Hp]. cbn [a_gnorm a_gpad acct_of] in G1, P1.
  rewrite G1, P1, Hn, Hp, !N.add_0_l in Hok. clear G1 P1 V1 Hn Hp.
  pose proof (count_pad_for_le i evs) as Hle.
  unfold pad_budget_ok in Hok. apply orb_prop in Hok. destruct Hok as [Hb|Hf].
  - left. apply N.ltb_lt. exact Hb.
  - right. apply andb_prop in Hf. destruct Hf as [Hf1 Hf2].
    apply negb_true_iff in Hf1. apply negb_true_iff in Hf2.
    unfold valid_cfg in Hv. split_andb.
    match goal with Hf : forallb validate_machine _ = true |- _ =>
      rewrite forallb_forall in Hf; specialize (Hf m (nth_error_In _ _ Hm));
      unfold validate_machine in Hf; cbv zeta in Hf end.
    split_andb.
    split; apply not_exceeded_below; try assumption; try lia.
    + apply in_unit_finite. assumption.
    + apply in_unit_finite. assumption.
Qed.
