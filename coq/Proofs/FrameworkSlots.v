(** The output contract (C04): slot i only ever holds an action scheduled for
    machine i from one of its states with clamped durations; the returned
    list is the filled slots in index order; END is absorbing. *)
From MB Require Import Model.Framework Model.Validate.
From Coq Require Import Sorting.Sorted.
From MB Require Import Proofs.Tactics Proofs.ListFacts Proofs.FloatFacts Proofs.FrameworkStructure Proofs.FrameworkInv.
Open Scope N_scope.

Definition SlotInv (c : cfg) (s : fstate) : Prop :=
  forall i ta, nth_error (slots s) i = Some (Some ta) -> sched_ok c i (Some ta).

Definition slot_rel (c : cfg) (s s' : fstate) : Prop := SlotInv c s -> SlotInv c s'.

Lemma SlotInv_same : forall c s s', slots s' = slots s -> slot_rel c s s'.
Proof. unfold slot_rel, SlotInv; intros c s s' H HI i ta. rewrite H. apply HI. Qed.

Lemma SlotInv_set_slot : forall c s mi a, sched_ok c mi a -> slot_rel c s (set_slot s mi a).
Proof.
  unfold slot_rel, SlotInv; intros c s mi a Hok HI i ta H. cbn in H.
  rewrite nth_error_upd in H. destruct (Nat.eqb_spec mi i) as [->|Hne].
  - destruct (i <? length (slots s))%nat; inversion H; subst. exact Hok.
  - apply HI; exact H.
Qed.

Section Slots.
  Variable c : cfg.
  Variable tp : tape.

  Lemma slot_rel_trans : forall s1 s2 s3, slot_rel c s1 s2 -> slot_rel c s2 s3 -> slot_rel c s1 s3.
  Proof. unfold slot_rel; auto. Qed.

  Lemma transition_slots : forall fuel s mi ev s' b,
    transition fuel c tp s mi ev = Ok (s', b) -> slot_rel c s s'.
  Proof.
    intros fuel s mi ev s' b.
    apply (transition_R c tp (fun _ => slot_rel c)); intros;
      try (apply SlotInv_same; reflexivity).
    - eapply slot_rel_trans; eauto.
    - apply SlotInv_set_slot; assumption.
  Qed.

  Lemma decrement_limit_slots : forall s mi s',
    decrement_limit c tp s mi = Ok s' -> slot_rel c s s'.
  Proof.
    intros s mi s'.
    apply (decrement_limit_R c tp (fun _ => slot_rel c)); intros;
      try (apply SlotInv_same; reflexivity).
    - eapply slot_rel_trans; eauto.
    - apply SlotInv_set_slot; assumption.
  Qed.

  Lemma trigger_events_SlotInv : forall s evs t s' acts,
    trigger_events c tp s evs t = Ok (s', acts) ->
    SlotInv c s' /\ acts = collect_actions (slots s').
  Proof.
    intros s evs t s' acts H.
    destruct (trigger_events_G c tp (slot_rel c)) with (s := s) (evs := evs) (t := t) (s' := s') (acts := acts)
      as [HG Hacts]; try exact H; intros; try (apply SlotInv_same; reflexivity).
    - eapply slot_rel_trans; eauto.
    - eapply transition_slots; eauto.
    - eapply decrement_limit_slots; eauto.
    - split; [|exact Hacts]. apply HG.
      intros i ta Hs. cbn in Hs. rewrite nth_error_map in Hs.
      destruct (nth_error (slots s) i); inversion Hs.
  Qed.
End Slots.

(** ** the returned list *)
Lemma collect_spec : forall (sl : list (option taction)) off,
  (forall i ta, nth_error sl i = Some (Some ta) -> taction_machine ta = N.of_nat (off + i)) ->
  (length (collect_actions sl) <= length sl)%nat /\
  (forall a, In a (collect_actions sl) ->
      N.of_nat off <= taction_machine a < N.of_nat (off + length sl) /\
      nth_error sl (N.to_nat (taction_machine a) - off) = Some (Some a)) /\
  StronglySorted N.lt (map taction_machine (collect_actions sl)).
Proof.
  unfold collect_actions.
  induction sl as [|o sl IH]; intros off H; cbn [flat_map length].
  - split; [lia|]. split; [intros a []|constructor].
  - assert (H' : forall i ta, nth_error sl i = Some (Some ta) -> taction_machine ta = N.of_nat (S off + i)).
    { intros i ta Hi. rewrite (H (S i) ta Hi). f_equal. lia. }
    destruct (IH (S off) H') as (IH1 & IH2 & IH3).
    destruct o as [a0|]; cbn [app].
    + pose proof (H 0%nat a0 eq_refl) as Ha0. rewrite Nat.add_0_r in Ha0.
      split; [cbn [length]; lia|]. split.
      * intros a [<-|Hin].
        -- rewrite Ha0. split; [lia|]. rewrite Nat2N.id, Nat.sub_diag. reflexivity.
        -- destruct (IH2 a Hin) as [Hr Hn]. split; [lia|].
           replace (N.to_nat (taction_machine a) - off)%nat with (S (N.to_nat (taction_machine a) - S off)) by lia.
           exact Hn.
      * cbn [map]. constructor; [exact IH3|]. apply Forall_forall. intros x Hx.
        apply in_map_iff in Hx. destruct Hx as (a & <- & Hin). destruct (IH2 a Hin) as [Hr _]. lia.
    + split; [lia|]. split; [|exact IH3].
      intros a Hin. destruct (IH2 a Hin) as [Hr Hn]. split; [lia|].
      replace (N.to_nat (taction_machine a) - off)%nat with (S (N.to_nat (taction_machine a) - S off)) by lia.
      exact Hn.
Qed.

Lemma day_sample_vclock_le : forall c v, clk c = vclock -> day_sample c v -> v <= DAY_US.
Proof.
  intros c v Hc (tp & p & d & ->). rewrite Hc. cbn [c_from_micros vclock].
  unfold sample_day_clamped. destruct (dist_sample_clamped tp p d) as [x q]. cbn [fst].
  apply round_day_bound.
Qed.

(** ** END is absorbing *)
Definition EndQ (i : nat) (s : fstate) : Prop :=
  (exists r, nth_error (rts s) i = Some r /\ cur r = STATE_END) /\
  nth_error (slots s) i = Some None.

Definition end_rel (i : nat) (s s' : fstate) : Prop := EndQ i s -> EndQ i s'.

Lemma EndQ_same : forall i s s', rts s' = rts s -> slots s' = slots s -> end_rel i s s'.
Proof. unfold end_rel, EndQ; intros i s s' H1 H2. rewrite H1, H2. auto. Qed.

Lemma transition_at_end : forall fuel c tp s mi ev r,
  nth_error (rts s) mi = Some r -> cur r = STATE_END ->
  transition (S fuel) c tp s mi ev =
  Ok (add_step (add_log s (LOG_TRANS, N.of_nat mi, N.of_nat (event_idx ev))), false).
Proof.
  intros fuel c tp s mi ev r Hr Hc. cbn [transition].
  unfold get. cbn [rts add_step add_log]. rewrite Hr. cbn [bind]. rewrite Hc.
  rewrite N.eqb_refl. reflexivity.
Qed.

Section EndAbsorbing.
  Variable c : cfg.
  Variable tp : tape.
  Variable i : nat.

  Lemma end_rel_trans : forall s1 s2 s3, end_rel i s1 s2 -> end_rel i s2 s3 -> end_rel i s1 s3.
  Proof. unfold end_rel; auto. Qed.

  Lemma end_rel_set_rt_other : forall s mi r, mi <> i -> end_rel i s (set_rt s mi r).
  Proof.
    unfold end_rel, EndQ; intros s mi r Hne [(r0 & Hr & Hc) Hs]. cbn.
    rewrite nth_error_upd_neq by exact Hne. eauto.
  Qed.

  Lemma end_rel_set_slot_other : forall s mi a, mi <> i -> end_rel i s (set_slot s mi a).
  Proof.
    unfold end_rel, EndQ; intros s mi a Hne [(r0 & Hr & Hc) Hs]. cbn.
    rewrite nth_error_upd_neq by exact Hne. eauto.
  Qed.

  Lemma transition_end_rel : forall s mi ev s' b,
    transition FUEL c tp s mi ev = Ok (s', b) -> end_rel i s s'.
  Proof.
    intros s mi ev s' b H. destruct (Nat.eq_dec mi i) as [->|Hne].
    - intros HE. destruct HE as [(r & Hr & Hc) Hs].
      unfold FUEL in H. rewrite (transition_at_end _ c tp s i ev r Hr Hc) in H. inversion H; subst.
      split; [exists r; auto|exact Hs].
    - pose proof (transition_R c tp (fun m s s' => m <> i -> end_rel i s s')) as G.
      apply G with (fuel := FUEL) (ev := ev) (b := b) (mi := mi) (s := s) (s' := s');
        try exact H; try exact Hne; clear G;
        try (intros; apply EndQ_same; reflexivity).
      + intros m s1 s2 s3 H1 H2 Hm. eapply end_rel_trans; eauto.
      + intros; apply end_rel_set_rt_other; assumption.
      + intros; apply end_rel_set_slot_other; assumption.
  Qed.

  Lemma decrement_limit_end_rel : forall s mi s',
    decrement_limit c tp s mi = Ok s' -> end_rel i s s'.
  Proof.
    intros s mi s' H. destruct (Nat.eq_dec mi i) as [->|Hne].
    - intros [(r & Hr & Hc) Hs]. unfold decrement_limit in H.
      unfold get at 1 in H. cbn [rts add_log] in H. rewrite Hr in H. cbn [bind] in H.
      set (r1 := if 0 <? lim r then rt_set_lim r (lim r - 1) else r) in H.
      assert (Hc1 : cur r1 = STATE_END) by (subst r1; destruct (0 <? lim r); exact Hc).
      assert (Hlen : (i < length (rts s))%nat) by (apply nth_error_Some; congruence).
      set (s1 := set_rt (add_log s (LOG_DEC, N.of_nat i, 0)) i r1) in H.
      assert (HE1 : EndQ i s1).
      { split; [exists r1; split; [subst s1; cbn; apply nth_error_upd_eq; exact Hlen|exact Hc1]|exact Hs]. }
      mbind H as m Em. mbind H as st Est.
      destruct (saction st) as [a|]; [|inversion H; subst; exact HE1].
      destruct ((lim r1 =? 0) && action_has_limit a); [|inversion H; subst; exact HE1].
      mbind H as [s2 b] E2. inversion H; subst.
      apply (transition_end_rel _ _ _ _ _ E2).
      assert (Hsl : (i < length (slots s))%nat) by (apply nth_error_Some; rewrite Hs; discriminate).
      split; [exists r1; split; [cbn; apply nth_error_upd_eq; exact Hlen|exact Hc1]|].
      cbn. apply nth_error_upd_eq. exact Hsl.
    - pose proof (decrement_limit_R c tp (fun m s s' => m <> i -> end_rel i s s')) as G.
      apply G with (mi := mi) (s := s) (s' := s');
        try exact H; try exact Hne; clear G;
        try (intros; apply EndQ_same; reflexivity).
      + intros m s1 s2 s3 H1 H2 Hm. eapply end_rel_trans; eauto.
      + intros; apply end_rel_set_rt_other; assumption.
      + intros; apply end_rel_set_slot_other; assumption.
  Qed.
End EndAbsorbing.

Section EndAbsorbingCall.
  Variable c : cfg.
  Variable tp : tape.
  Variable i : nat.

  Lemma end_rel_set_rt_same_cur : forall s mi r r',
    nth_error (rts s) mi = Some r -> cur r' = cur r -> end_rel i s (set_rt s mi r').
  Proof.
    intros s mi r r' Hr Hc. destruct (Nat.eq_dec mi i) as [->|Hne].
    - intros [(r0 & Hr0 & Hc0) Hs]. split; [|exact Hs].
      exists r'. split; [cbn; apply nth_error_upd_eq; apply nth_error_Some; congruence|].
      rewrite Hc. congruence.
    - apply end_rel_set_rt_other; exact Hne.
  Qed.

  Lemma trigger_events_end : forall s evs t s' acts r,
    nth_error (rts s) i = Some r -> cur r = STATE_END -> (i < length (slots s))%nat ->
    trigger_events c tp s evs t = Ok (s', acts) ->
    EndQ i s'.
  Proof.
    intros s evs t s' acts r Hr Hc Hl H.
    destruct (trigger_events_G c tp (end_rel i)) with (s := s) (evs := evs) (t := t) (s' := s') (acts := acts)
      as [HG _]; try exact H; intros; try (apply EndQ_same; reflexivity).
    - eapply end_rel_trans; eauto.
    - eapply transition_end_rel; eauto.
    - eapply decrement_limit_end_rel; eauto.
    - eapply end_rel_set_rt_same_cur; eauto.
    - eapply end_rel_set_rt_same_cur; eauto.
    - eapply end_rel_set_rt_same_cur; eauto.
    - apply HG. split.
      + exists (rt_clear_z r). split; [cbn; rewrite nth_error_map, Hr; reflexivity|exact Hc].
      + cbn. rewrite nth_error_map.
        destruct (nth_error (slots s) i) eqn:E; [reflexivity|apply nth_error_None in E; lia].
  Qed.
End EndAbsorbingCall.

(** ** the output contract of one call *)
Theorem output_contract : forall c tp s evs t s' acts,
  trigger_events c tp s evs t = Ok (s', acts) ->
  (length acts <= length (slots s'))%nat /\
  StronglySorted N.lt (map taction_machine acts) /\
  forall a, In a acts ->
    taction_machine a < N.of_nat (length (slots s')) /\
    nth_error (slots s') (N.to_nat (taction_machine a)) = Some (Some a) /\
    sched_ok c (N.to_nat (taction_machine a)) (Some a).
Proof.
  intros c tp s evs t s' acts H.
  destruct (trigger_events_SlotInv c tp s evs t s' acts H) as [HI ->].
  destruct (collect_spec (slots s') 0) as (H1 & H2 & H3).
  { intros i ta Hi. destruct (HI i ta Hi) as [Hm _]. exact Hm. }
  split; [exact H1|]. split; [exact H3|].
  intros a Ha. destruct (H2 a Ha) as [Hr Hn]. rewrite Nat.sub_0_r in Hn.
  split; [cbn in Hr; lia|]. split; [exact Hn|]. apply HI. exact Hn.
Qed.

Lemma StronglySorted_lt_NoDup : forall l, StronglySorted N.lt l -> NoDup l.
Proof.
  induction l as [|x l IH]; intros H; [constructor|].
  inversion H; subst. constructor; [|apply IH; assumption].
  intros Hin. match goal with HF : Forall _ l |- _ => rewrite Forall_forall in HF; specialize (HF x Hin) end. lia.
Qed.

(** the number of returned actions never exceeds the number of machines *)
Lemma slots_length_call : forall c tp s evs t s' acts,
  trigger_events c tp s evs t = Ok (s', acts) -> length (slots s') = length (slots s).
Proof.
  intros c tp s evs t s' acts H.
  destruct (trigger_events_G c tp (fun a b => length (slots b) = length (slots a)))
    with (s := s) (evs := evs) (t := t) (s' := s') (acts := acts) as [HG _];
    try exact H; intros; try reflexivity; try congruence.
  - eapply (transition_R c tp (fun _ a b => length (slots b) = length (slots a))); eauto;
      intros; try reflexivity; try congruence. cbn. apply upd_length.
  - eapply (decrement_limit_R c tp (fun _ a b => length (slots b) = length (slots a))); eauto;
      intros; try reflexivity; try congruence. cbn. apply upd_length.
  - rewrite HG. cbn. apply map_length.
Qed.

Theorem acts_length_le : forall c tp s evs t s' acts,
  Inv c s -> trigger_events c tp s evs t = Ok (s', acts) ->
  (length acts <= length (machines c))%nat.
Proof.
  intros c tp s evs t s' acts HI H.
  destruct (output_contract c tp s evs t s' acts H) as (H1 & _).
  rewrite (slots_length_call _ _ _ _ _ _ _ H), (inv_slots _ _ HI) in H1. exact H1.
Qed.
