(** The simulator model honours blocking: nothing leaves a blocked side unless
    the blocking is bypassable and the packet carries the bypass flag.

    Contents
    - [wf_evq]/[wf_simq]: the routing invariant of the event queues, preserved
      by [sq_push] (any event) and [sq_pop].
    - [act_on_block_rule], [act_on_zero_duration]: contract of a due
      BlockOutgoing action.
    - [pick_next_step]: one unfolding of [pick_next] as a four-way case split.
    - [pick_next_no_leak]: THE CORE.
    - [pick_next_returns_blocking_end_partial] (+ the counterexample to the
      statement without the extra hypothesis) and the stronger
      [pick_next_blocking_end_exact].
    - [network_stack_bypass_origin]. *)
From Coq Require Import List Arith Lia Permutation Sorted ZArith.
From MB Require Import Base.Prelude Model.Framework Model.Sim Proofs.Tactics Proofs.SimHeap.
Import ListNotations.
Open Scope N_scope.

(** * 0. The routing invariant *)

Definition wf_evq (is_client : bool) (q : evq) : Prop :=
  (forall e, In e (q_base q) -> se_client e = is_client /\ se_ev e = TENormalSent) /\
  (forall e, In e (q_blocking q) -> se_client e = is_client /\ se_ev e = TETunnelSent /\ se_bypass e = false) /\
  (forall e, In e (q_bypass q) -> se_client e = is_client /\ se_ev e = TETunnelSent /\ se_bypass e = true) /\
  (forall e, In e (q_internal q) -> se_client e = is_client /\ se_ev e <> TETunnelSent /\ se_ev e <> TENormalSent).
Definition wf_simq (sq : simq) : Prop := wf_evq true (sq_c sq) /\ wf_evq false (sq_s sq).

(** the heap of an event queue named by a [qid] *)
Definition evq_heap (q : evq) (w : qid) : list sev :=
  match w with
  | QBase => q_base q | QBlocking => q_blocking q
  | QBypassable => q_bypass q | QInternal => q_internal q
  end.

(** what the invariant says about a member of heap [w] *)
Definition heap_ok (ic : bool) (w : qid) (e : sev) : Prop :=
  se_client e = ic /\
  match w with
  | QBase => se_ev e = TENormalSent
  | QBlocking => se_ev e = TETunnelSent /\ se_bypass e = false
  | QBypassable => se_ev e = TETunnelSent /\ se_bypass e = true
  | QInternal => se_ev e <> TETunnelSent /\ se_ev e <> TENormalSent
  end.

Lemma wf_evq_iff : forall ic q,
  wf_evq ic q <-> (forall w e, In e (evq_heap q w) -> heap_ok ic w e).
Proof.
  intros ic q. unfold wf_evq, heap_ok. split.
  - intros (Hb & Hbl & Hby & Hi) w e Hin.
    destruct w; cbn [evq_heap] in Hin.
    + destruct (Hbl e Hin) as (H1 & H2 & H3). auto.
    + destruct (Hby e Hin) as (H1 & H2 & H3). auto.
    + destruct (Hi e Hin) as (H1 & H2 & H3). auto.
    + destruct (Hb e Hin) as (H1 & H2). auto.
  - intros H. split; [|split; [|split]]; intros e Hin.
    + destruct (H QBase e Hin) as (H1 & H2). auto.
    + destruct (H QBlocking e Hin) as (H1 & H2 & H3). auto.
    + destruct (H QBypassable e Hin) as (H1 & H2 & H3). auto.
    + destruct (H QInternal e Hin) as (H1 & H2 & H3). auto.
Qed.

(** the heap an event is routed to by [evq_push] *)
Definition route (x : sev) : qid :=
  match se_ev x with
  | TETunnelSent => if se_bypass x then QBypassable else QBlocking
  | TENormalSent => QBase
  | _ => QInternal
  end.

Lemma route_ok : forall x, heap_ok (se_client x) (route x) x.
Proof.
  intros x. unfold heap_ok, route. split; [reflexivity|].
  destruct (se_ev x) eqn:E; try (split; discriminate); try reflexivity.
  destruct (se_bypass x); split; reflexivity.
Qed.

Lemma evq_push_heap : forall q x w,
  evq_heap (evq_push q x) w =
    if qid_eqb w (route x) then heap_push sev_le (evq_heap q w) x else evq_heap q w.
Proof.
  intros q x w. unfold evq_push, route.
  destruct (se_ev x); try destruct (se_bypass x); destruct w; reflexivity.
Qed.

Lemma qid_eqb_eq : forall a b, qid_eqb a b = true -> a = b.
Proof. intros [] []; cbn [qid_eqb]; intros H; try discriminate; reflexivity. Qed.

Lemma evq_push_in : forall q x w e,
  In e (evq_heap (evq_push q x) w) -> In e (evq_heap q w) \/ (e = x /\ w = route x).
Proof.
  intros q x w e Hin. rewrite evq_push_heap in Hin.
  destruct (qid_eqb w (route x)) eqn:Ew; [|left; exact Hin].
  apply qid_eqb_eq in Ew.
  apply (Permutation_in _ (heap_push_perm sev sev_le _ x)) in Hin.
  destruct Hin as [Hx|Hin]; [right; split; [symmetry; exact Hx|exact Ew]|left; exact Hin].
Qed.

Lemma evq_push_wf : forall ic q x,
  wf_evq ic q -> se_client x = ic -> wf_evq ic (evq_push q x).
Proof.
  intros ic q x Hwf Hc. rewrite wf_evq_iff in *.
  intros w e Hin. apply evq_push_in in Hin. destruct Hin as [Hin|[He Hw]].
  - apply Hwf. exact Hin.
  - subst e w ic. apply route_ok.
Qed.

(** fields other than the time *)
Definition sev_same (x y : sev) : Prop :=
  se_ev x = se_ev y /\ se_client x = se_client y /\ se_pad x = se_pad y /\
  se_bypass x = se_bypass y /\ se_replace x = se_replace y.

Lemma sev_same_refl : forall x, sev_same x x.
Proof. intros x. unfold sev_same. auto. Qed.

Lemma sev_same_set_time : forall x t, sev_same (set_time x t) x.
Proof. intros x t. unfold sev_same, set_time. cbn [se_ev se_client se_pad se_bypass se_replace]. auto. Qed.

Lemma heap_peek_in : forall (h : list sev) x, heap_peek h = Some x -> In x h.
Proof. intros [|a t] x H; cbn in H; [discriminate|]. injection H as <-. left. reflexivity. Qed.

(** [evq_pop] pops the top of the named heap and leaves the others alone *)
Lemma evq_pop_spec : forall q w delay x q',
  evq_pop q w delay = Some (x, q') ->
  exists x0 h, heap_pop sev_le (evq_heap q w) = Some (x0, h) /\ sev_same x x0 /\
               (w <> QBase -> x = x0) /\
               evq_heap q' w = h /\ (forall w', w' <> w -> evq_heap q' w' = evq_heap q w').
Proof.
  intros q w delay x q' H. unfold evq_pop in H.
  destruct w; cbn [evq_heap].
  - destruct (heap_pop sev_le (q_blocking q)) as [[x0 h]|] eqn:E; [|discriminate].
    injection H as <- <-. exists x0, h.
    split; [reflexivity|]. split; [apply sev_same_refl|]. split; [reflexivity|]. split; [reflexivity|].
    intros [] Hne; try reflexivity. congruence.
  - destruct (heap_pop sev_le (q_bypass q)) as [[x0 h]|] eqn:E; [|discriminate].
    injection H as <- <-. exists x0, h.
    split; [reflexivity|]. split; [apply sev_same_refl|]. split; [reflexivity|]. split; [reflexivity|].
    intros [] Hne; try reflexivity. congruence.
  - destruct (heap_pop sev_le (q_internal q)) as [[x0 h]|] eqn:E; [|discriminate].
    injection H as <- <-. exists x0, h.
    split; [reflexivity|]. split; [apply sev_same_refl|]. split; [reflexivity|]. split; [reflexivity|].
    intros [] Hne; try reflexivity. congruence.
  - destruct (heap_pop sev_le (q_base q)) as [[x0 h]|] eqn:E; [|discriminate].
    injection H as <- <-. exists x0, h.
    split; [reflexivity|]. split; [apply sev_same_set_time|]. split; [congruence|]. split; [reflexivity|].
    intros [] Hne; try reflexivity. congruence.
Qed.

Lemma qid_eq_dec : forall a b : qid, {a = b} + {a <> b}.
Proof. decide equality. Qed.

Lemma evq_pop_in : forall q w delay x q' w' e,
  evq_pop q w delay = Some (x, q') -> In e (evq_heap q' w') -> In e (evq_heap q w').
Proof.
  intros q w delay x q' w' e H Hin.
  destruct (evq_pop_spec _ _ _ _ _ H) as (x0 & h & Hpop & _ & _ & Hh & Hoth).
  destruct (qid_eq_dec w' w) as [->|Hne].
  - rewrite Hh in Hin. apply heap_pop_perm in Hpop.
    apply (Permutation_in _ (Permutation_sym Hpop)). right. exact Hin.
  - rewrite (Hoth w' Hne) in Hin. exact Hin.
Qed.

(** the popped event is (up to its time) the one [heap_peek] shows *)
Lemma evq_pop_top : forall q w delay x q',
  evq_pop q w delay = Some (x, q') ->
  exists x0, heap_peek (evq_heap q w) = Some x0 /\ sev_same x x0.
Proof.
  intros q w delay x q' H.
  destruct (evq_pop_spec _ _ _ _ _ H) as (x0 & h & Hpop & Hsame & _).
  exists x0. split; [|exact Hsame]. eapply heap_pop_peek. exact Hpop.
Qed.

Lemma evq_pop_wf : forall ic q w delay x q',
  wf_evq ic q -> evq_pop q w delay = Some (x, q') -> wf_evq ic q'.
Proof.
  intros ic q w delay x q' Hwf H. rewrite wf_evq_iff in *.
  intros w' e Hin. apply Hwf. eapply evq_pop_in; [exact H|exact Hin].
Qed.

(** ** the two sides *)
Lemma wf_simq_iff : forall sq, wf_simq sq <-> (forall ic, wf_evq ic (sq_side sq ic)).
Proof.
  intros sq. unfold wf_simq, sq_side. split.
  - intros [Hc Hs] [|]; assumption.
  - intros H. split; [apply (H true)|apply (H false)].
Qed.

Lemma sq_side_set : forall sq ic q ic',
  sq_side (sq_set_side sq ic q) ic' = if Bool.eqb ic ic' then q else sq_side sq ic'.
Proof. intros sq [|] q [|]; reflexivity. Qed.

Lemma sq_push_wf : forall sq x, wf_simq sq -> wf_simq (sq_push sq x).
Proof.
  intros sq x Hwf. rewrite wf_simq_iff in *. intros ic.
  unfold sq_push. rewrite sq_side_set.
  destruct (Bool.eqb (se_client x) ic) eqn:E; [|apply Hwf].
  apply Bool.eqb_prop in E. subst ic. apply evq_push_wf; [apply Hwf|reflexivity].
Qed.

Lemma sq_pop_wf : forall sq which ic delay x sq',
  wf_simq sq -> sq_pop sq which ic delay = Some (x, sq') -> wf_simq sq'.
Proof.
  intros sq which ic delay x sq' Hwf H. unfold sq_pop in H.
  destruct (evq_pop (sq_side sq ic) which delay) as [[x0 q]|] eqn:E; [|discriminate].
  injection H as <- <-.
  rewrite wf_simq_iff in *. intros ic'. rewrite sq_side_set.
  destruct (Bool.eqb ic ic') eqn:Eb; [|apply Hwf].
  apply Bool.eqb_prop in Eb. subst ic'.
  eapply evq_pop_wf; [apply Hwf|exact E].
Qed.

(** the popped event is the top of heap [which] of side [ic]; the invariant
    tells its side and kind *)
Lemma sq_pop_top : forall sq which ic delay x sq',
  sq_pop sq which ic delay = Some (x, sq') ->
  exists x0, heap_peek (evq_heap (sq_side sq ic) which) = Some x0 /\ sev_same x x0.
Proof.
  intros sq which ic delay x sq' H. unfold sq_pop in H.
  destruct (evq_pop (sq_side sq ic) which delay) as [[x1 q]|] eqn:E; [|discriminate].
  injection H as <- <-. eapply evq_pop_top. exact E.
Qed.

Lemma sq_pop_ok : forall sq which ic delay x sq',
  wf_simq sq -> sq_pop sq which ic delay = Some (x, sq') -> heap_ok ic which x.
Proof.
  intros sq which ic delay x sq' Hwf H.
  destruct (sq_pop_top _ _ _ _ _ _ H) as (x0 & Hpk & Hev & Hcl & _ & Hby & _).
  rewrite wf_simq_iff in Hwf. specialize (Hwf ic). rewrite wf_evq_iff in Hwf.
  specialize (Hwf which x0 (heap_peek_in _ _ Hpk)).
  unfold heap_ok in *. rewrite Hev, Hcl, Hby. exact Hwf.
Qed.

(** * 1. Executing a due BlockOutgoing action *)

Theorem act_on_block_rule : forall sd ic m tmo dur by_ rp t sd' e,
  act_on sd ic (TBlockOutgoing m tmo dur by_ rp) t = Ok (sd', e) ->
  (0 < dur \/ rp = true \/ s_buntil sd <> None) ->
  e = mksev (TEBlockingBegin m) t ic false (s_bbypass sd') false /\
  s_fw sd' = s_fw sd /\ s_sched sd' = s_sched sd /\ s_timers sd' = s_timers sd /\
  s_buntil sd' = Some (match s_buntil sd with
                       | None => (t + Z.of_N dur)%Z
                       | Some u => if rp then (t + Z.of_N dur)%Z else Z.max u (t + Z.of_N dur)%Z
                       end) /\
  s_bbypass sd' = match s_buntil sd with
                  | None => by_
                  | Some u => if rp then by_
                              else if (u <? t + Z.of_N dur)%Z then s_bbypass sd && by_ else s_bbypass sd
                  end.
Proof.
  intros sd ic m tmo dur by_ rp t sd' e H Hpre.
  unfold act_on in H. injection H as Hsd He.
  split; [subst sd'; symmetry; exact He|]. clear He.
  destruct rp.
  - cbn [orb] in Hsd. subst sd'. unfold side_set_block.
    cbn [s_fw s_sched s_timers s_buntil s_bbypass].
    destruct (s_buntil sd); auto 6.
  - cbn [orb] in Hsd.
    destruct (s_buntil sd) as [u|] eqn:Eu.
    + destruct (Z.ltb_spec u (t + Z.of_N dur)) as [Hlt|Hge]; subst sd'.
      * unfold side_set_block. cbn [s_fw s_sched s_timers s_buntil s_bbypass].
        replace (Z.max u (t + Z.of_N dur))%Z with (t + Z.of_N dur)%Z by lia. auto 6.
      * rewrite Eu. replace (Z.max u (t + Z.of_N dur))%Z with u by lia. auto 6.
    + assert (Hd : 0 < dur).
      { destruct Hpre as [Hd|[Hd|Hd]]; [exact Hd|discriminate|congruence]. }
      destruct (Z.ltb_spec t (t + Z.of_N dur)) as [Hlt|Hge]; [|lia]. subst sd'.
      unfold side_set_block. cbn [s_fw s_sched s_timers s_buntil s_bbypass]. auto 6.
Qed.

(** recorded finding of the real code: a non-replacing zero-duration block
    with no blocking in place reports BlockingBegin but starts no blocking *)
Lemma act_on_zero_duration : forall sd ic m tmo by_ t,
  s_buntil sd = None ->
  exists e, act_on sd ic (TBlockOutgoing m tmo 0 by_ false) t = Ok (sd, e) /\ se_ev e = TEBlockingBegin m.
Proof.
  intros sd ic m tmo by_ t Hn. unfold act_on. rewrite Hn. cbn [orb Z.of_N].
  rewrite Z.add_0_r, Z.ltb_irrefl.
  eexists. split; [reflexivity|reflexivity].
Qed.

(** * 2. What the peeks return *)

Lemma since_mono : forall a a' b, (a <= a')%Z -> since a b <= since a' b.
Proof. intros a a' b H. unfold since. lia. Qed.

Lemma since_le_DMAX : forall a b, since a b <= DMAX.
Proof. intros a b. unfold since. lia. Qed.

(** [evq_peek] shows the top of the heap it names *)
Lemma evq_peek_some : forall q delay nowt p w dur,
  evq_peek q delay nowt = (Some p, w, dur) -> heap_peek (evq_heap q w) = Some p.
Proof.
  intros q delay nowt p w dur H. unfold evq_peek in H.
  destruct (evq_len q); [discriminate|].
  destruct (heap_peek (q_bypass q)) as [a|] eqn:Ea;
  destruct (heap_peek (q_blocking q)) as [b|] eqn:Eb;
  destruct (heap_peek (q_internal q)) as [c|] eqn:Ec;
  destruct (heap_peek (q_base q)) as [d|] eqn:Ed;
  cbn [opt_gt before] in H;
  repeat match type of H with
         | context [if ?c then _ else _] => destruct c
         | context [match ?c with Gt => _ | _ => _ end] => destruct c
         end;
  injection H as <- <- _; cbn [evq_heap]; assumption.
Qed.

Lemma sq_peek_some : forall sq cd sd nowt p w dur,
  sq_peek sq cd sd nowt = (Some p, w, dur) ->
  exists ic, heap_peek (evq_heap (sq_side sq ic) w) = Some p.
Proof.
  intros sq cd sd nowt p w dur H. unfold sq_peek in H.
  destruct (sq_len sq); [discriminate|].
  destruct (evq_peek (sq_c sq) cd nowt) as [[c cq] cdur] eqn:Ec.
  destruct (evq_peek (sq_s sq) sd nowt) as [[s sqq] sdur] eqn:Es.
  destruct c as [ce|], s as [se|].
  - destruct (match cdur ?= sdur with
              | Eq => ev_idx (se_ev ce) ?= ev_idx (se_ev se) | x => x end);
      injection H as <- <- <-.
    + exists true. eapply evq_peek_some. exact Ec.
    + exists true. eapply evq_peek_some. exact Ec.
    + exists false. eapply evq_peek_some. exact Es.
  - injection H as <- <- <-. exists true. eapply evq_peek_some. exact Ec.
  - injection H as <- <- <-. exists false. eapply evq_peek_some. exact Es.
  - discriminate.
Qed.

(** under the invariant the side is the one recorded in the event *)
Lemma sq_peek_some_wf : forall sq cd sd nowt p w dur,
  wf_simq sq -> sq_peek sq cd sd nowt = (Some p, w, dur) ->
  heap_peek (evq_heap (sq_side sq (se_client p)) w) = Some p.
Proof.
  intros sq cd sd nowt p w dur Hwf H.
  destruct (sq_peek_some _ _ _ _ _ _ _ H) as [ic Hpk].
  rewrite wf_simq_iff in Hwf. specialize (Hwf ic). rewrite wf_evq_iff in Hwf.
  destruct (Hwf w p (heap_peek_in _ _ Hpk)) as [Hc _]. rewrite Hc. exact Hpk.
Qed.

Lemma sq_peek_non_blocking_qid : forall sq bb ic delay pn nq,
  sq_peek_non_blocking sq bb ic delay = (pn, nq) ->
  nq = QBase \/ nq = QInternal \/ (nq = QBypassable /\ bb = true).
Proof.
  intros sq bb ic delay pn nq H. unfold sq_peek_non_blocking, evq_peek_non_blocking in H.
  destruct bb.
  - destruct (before (heap_peek (q_base (sq_side sq ic))) (heap_peek (q_internal (sq_side sq ic))) delay);
      match type of H with context [if ?c then _ else _] => destruct c end;
      injection H as _ <-; auto.
  - destruct (before (heap_peek (q_base (sq_side sq ic))) (heap_peek (q_internal (sq_side sq ic))) delay);
      injection H as _ <-; auto.
Qed.

Lemma peek_blocked_exp_le_DMAX : forall bc bs nowt, fst (peek_blocked_exp bc bs nowt) <= DMAX.
Proof.
  intros [c|] [s|] nowt; unfold peek_blocked_exp;
    try destruct (c <? s)%Z; cbn [fst]; try apply since_le_DMAX. lia.
Qed.

(** the expiry peek is at most the expiry of either blocked side *)
Lemma peek_blocked_exp_le : forall bc bs nowt ic u,
  (if ic : bool then bc else bs) = Some u -> fst (peek_blocked_exp bc bs nowt) <= since u nowt.
Proof.
  intros bc bs nowt ic u H. unfold peek_blocked_exp.
  destruct bc as [c|], bs as [s|]; destruct ic; try discriminate; injection H as ->.
  - destruct (Z.ltb_spec u s); cbn [fst]; [lia|]. apply since_mono. lia.
  - destruct (Z.ltb_spec c u); cbn [fst]; [|lia]. apply since_mono. lia.
  - cbn [fst]. lia.
  - cbn [fst]. lia.
Qed.

(** what [peek_queue_earliest_side] offers for one side: nothing, an event of
    the part of the queue blocking does not hold back, or an event that is
    due no earlier than the side's blocking expires *)
Lemma pqes_spec : forall sq bu bb nowt delay ic d w side,
  peek_queue_earliest_side sq bu bb nowt delay ic = (d, w, side) ->
  side = ic /\
  (d = DMAX \/ (w = QBase \/ w = QInternal \/ (w = QBypassable /\ bb = true)) \/
   (forall u, bu = Some u -> since u nowt <= d)).
Proof.
  intros sq bu bb nowt delay ic d w side H. unfold peek_queue_earliest_side in H.
  destruct (sq_peek_blocking sq bb ic) as [pb bq].
  destruct (sq_peek_non_blocking sq bb ic delay) as [pn nq] eqn:En.
  apply sq_peek_non_blocking_qid in En.
  destruct pb as [b|], pn as [n|].
  - match type of H with context [if ?c then _ else _] => destruct c end;
      injection H as <- <- <-; (split; [reflexivity|]).
    + right. right. intros u ->. apply since_mono. lia.
    + right. left. exact En.
  - injection H as <- <- <-. split; [reflexivity|].
    right. right. intros u ->. apply since_mono. lia.
  - injection H as <- <- <-. split; [reflexivity|]. right. left. exact En.
  - injection H as <- <- <-. split; [reflexivity|]. left. reflexivity.
Qed.

(** the fall-through of [peek_queue]: the earlier of the two sides' offers *)
Lemma pq_fallthrough : forall sq c s cd sd nowt q w side,
  (let '(c_d, c_q, c_b) := peek_queue_earliest_side sq (s_buntil c) (s_bbypass c) nowt cd true in
   let '(s_d, s_q, s_b) := peek_queue_earliest_side sq (s_buntil s) (s_bbypass s) nowt sd false in
   if c_d <=? s_d then (c_d, c_q, c_b) else (s_d, s_q, s_b)) = (q, w, side) ->
  let sdd := if side then c else s in
  fst (peek_blocked_exp (s_buntil c) (s_buntil s) nowt) <= q
  \/ s_buntil sdd = None
  \/ (w = QBase \/ w = QInternal \/ (w = QBypassable /\ s_bbypass sdd = true)).
Proof.
  intros sq c s cd sd nowt q w side H sdd. subst sdd.
  pose proof (peek_blocked_exp_le_DMAX (s_buntil c) (s_buntil s) nowt) as HD.
  destruct (peek_queue_earliest_side sq (s_buntil c) (s_bbypass c) nowt cd true)
    as [[c_d c_q] c_b] eqn:Ec.
  destruct (peek_queue_earliest_side sq (s_buntil s) (s_bbypass s) nowt sd false)
    as [[s_d s_q] s_b] eqn:Es.
  apply pqes_spec in Ec. destruct Ec as [-> Ec].
  apply pqes_spec in Es. destruct Es as [-> Es].
  destruct (c_d <=? s_d); injection H as <- <- <-.
  - destruct Ec as [Ec|[Ec|Ec]].
    + left. rewrite Ec. exact HD.
    + right. right. exact Ec.
    + destruct (s_buntil c) as [u|] eqn:Eu; [|right; left; reflexivity].
      left. specialize (Ec u eq_refl).
      pose proof (peek_blocked_exp_le (Some u) (s_buntil s) nowt true u eq_refl). lia.
  - destruct Es as [Es|[Es|Es]].
    + left. rewrite Es. exact HD.
    + right. right. exact Es.
    + destruct (s_buntil s) as [u|] eqn:Eu; [|right; left; reflexivity].
      left. specialize (Es u eq_refl).
      pose proof (peek_blocked_exp_le (s_buntil c) (Some u) nowt false u eq_refl). lia.
Qed.

(** the four ways [peek_queue] can answer *)
Lemma peek_queue_cases : forall sq c s cd sd earliest nowt q w side,
  wf_simq sq ->
  peek_queue sq c s cd sd earliest nowt = (q, w, side) ->
  let sdd := if side then c else s in
  fst (peek_blocked_exp (s_buntil c) (s_buntil s) nowt) <= q
  \/ s_buntil sdd = None
  \/ (w = QBase \/ w = QInternal \/ (w = QBypassable /\ s_bbypass sdd = true))
  \/ (exists p, heap_peek (evq_heap (sq_side sq side) w) = Some p /\
                (se_ev p <> TETunnelSent \/ (s_bbypass sdd = true /\ se_bypass p = true))).
Proof.
  intros sq c s cd sd earliest nowt q w side Hwf H sdd. subst sdd.
  pose proof (peek_blocked_exp_le_DMAX (s_buntil c) (s_buntil s) nowt) as HD.
  unfold peek_queue in H.
  destruct (sq_len sq); [injection H as <- <- <-; left; exact HD|].
  destruct (sq_peek sq cd sd nowt) as [[pk q0] dur] eqn:Epk.
  destruct pk as [p|]; [|injection H as <- <- <-; left; exact HD].
  apply (sq_peek_some_wf _ _ _ _ _ _ _ Hwf) in Epk.
  destruct (earliest <? dur); [injection H as <- <- <-; left; exact HD|].
  destruct (is_tunnel_sent (se_ev p)) eqn:Ets; cbn [negb] in H.
  2:{ injection H as <- <- <-. right. right. right. exists p. split; [exact Epk|].
      left. intros E. rewrite E in Ets. discriminate. }
  match type of H with (if ?b then _ else _) = _ => destruct b eqn:E1 end.
  { injection H as <- <- <-. right. left.
    destruct (se_client p), (s_buntil c), (s_buntil s); cbn [negb andb] in E1;
      try discriminate; reflexivity. }
  match type of H with (if ?b then _ else _) = _ => destruct b eqn:E2 end.
  { injection H as <- <- <-. right. left.
    destruct (se_client p), (s_buntil c), (s_buntil s); cbn [negb andb orb] in E2;
      try discriminate; reflexivity. }
  match type of H with (if ?b then _ else _) = _ => destruct b eqn:E3 end.
  { injection H as <- <- <-. right. right. right. exists p. split; [exact Epk|]. right.
    destruct (se_client p), (s_buntil c), (s_buntil s), (s_bbypass c), (s_bbypass s), (se_bypass p);
      cbn [negb andb orb] in E3; try discriminate; auto. }
  apply pq_fallthrough in H. cbv zeta in H.
  destruct H as [H|[H|H]]; auto.
Qed.

(** * 3. One unfolding of [pick_next] *)

Definition pn_sa (st : sim) (nowt : Z) : N := peek_sched (s_sched (m_c st)) (s_sched (m_s st)) nowt.
Definition pn_it (st : sim) (nowt : Z) : N := peek_timers (s_timers (m_c st)) (s_timers (m_s st)) nowt.
Definition pn_b (st : sim) (nowt : Z) : N * bool :=
  peek_blocked_exp (s_buntil (m_c st)) (s_buntil (m_s st)) nowt.
Definition pn_n (st : sim) (nowt : Z) : N := net_peek_agg (m_net st) nowt.
Definition pn_q (st : sim) (nowt : Z) : N * qid * bool :=
  peek_queue (m_sq st) (m_c st) (m_s st) (n_cagg (m_net st)) (n_sagg (m_net st))
    (N.min (N.min (N.min (pn_sa st nowt) (pn_it st nowt)) (fst (pn_b st nowt))) (pn_n st nowt)) nowt.

(** the state handed to the recursive call *)
Definition pn_rec (st : sim) (nowt : Z) (st1 : sim) (nowt1 : Z) : Prop :=
  (st1 = mksim (m_sq st) (m_c st) (m_s st) (net_pop_agg (m_net st)) (m_pos st) /\ nowt1 = nowt)
  \/ (exists c' s' e,
        do_internal_timer (m_c st) (m_s st) (nowt + Z.of_N (pn_it st nowt))%Z = Ok (c', s', e) /\
        st1 = mksim (sq_push (m_sq st) e) c' s' (m_net st) (m_pos st) /\
        nowt1 = (nowt + Z.of_N (pn_it st nowt))%Z)
  \/ (exists c' s' e,
        do_scheduled_action (m_c st) (m_s st) (nowt + Z.of_N (pn_sa st nowt))%Z = Ok (c', s', e) /\
        st1 = mksim (sq_push (m_sq st) e) c' s' (m_net st) (m_pos st) /\
        nowt1 = (nowt + Z.of_N (pn_sa st nowt))%Z).

Lemma pick_next_step : forall fuel st nowt r,
  pick_next (S fuel) st nowt = Ok r ->
  let sa := pn_sa st nowt in let it := pn_it st nowt in
  let b := fst (pn_b st nowt) in let bic := snd (pn_b st nowt) in
  let n := pn_n st nowt in
  let q := fst (fst (pn_q st nowt)) in let w := snd (fst (pn_q st nowt)) in
  let qic := snd (pn_q st nowt) in
  (* nothing left *)
  r = (None, st)
  (* an aggregate delay, an internal timer or a scheduled action: pick again *)
  \/ (exists st1 nowt1, pick_next fuel st1 nowt1 = Ok r /\ pn_rec st nowt st1 nowt1)
  (* blocking expiry *)
  \/ ((sa =? DMAX) && (it =? DMAX) && (b =? DMAX) && (n =? DMAX) && (q =? DMAX) = false /\
      (n <=? sa) && (n <=? it) && (n <=? b) && (n <=? q) = false /\
      (b <=? sa) && (b <=? it) && (b <=? q) = true /\
      exists net',
        r = (Some (mksev TEBlockingEnd (nowt + Z.of_N b)%Z bic false false false),
             mksim (m_sq st)
                   (if bic then side_set_block (m_c st) None (s_bbypass (m_c st)) else m_c st)
                   (if bic then m_s st else side_set_block (m_s st) None (s_bbypass (m_s st)))
                   net' (m_pos st)))
  (* the head of the queue *)
  \/ ((b <=? sa) && (b <=? it) && (b <=? q) = false /\
      (q <=? sa) && (q <=? it) = true /\
      exists tmp sq' tmp',
        sq_pop (m_sq st) w qic (if qic then n_cagg (m_net st) else n_sagg (m_net st)) = Some (tmp, sq') /\
        sev_same tmp' tmp /\ se_time tmp' = Z.max (se_time tmp) (nowt + Z.of_N q)%Z /\
        r = (Some tmp', mksim sq' (m_c st) (m_s st) (m_net st) (m_pos st))).
Proof.
  intros fuel st nowt r H. cbn [pick_next] in H.
  unfold pn_q, pn_b, pn_n, pn_sa, pn_it, pn_rec.
  set (sa := peek_sched (s_sched (m_c st)) (s_sched (m_s st)) nowt) in *.
  set (it := peek_timers (s_timers (m_c st)) (s_timers (m_s st)) nowt) in *.
  destruct (peek_blocked_exp (s_buntil (m_c st)) (s_buntil (m_s st)) nowt) as [b bic] eqn:Eb.
  cbn [fst snd].
  set (n := net_peek_agg (m_net st) nowt) in *.
  destruct (peek_queue (m_sq st) (m_c st) (m_s st) (n_cagg (m_net st)) (n_sagg (m_net st))
              (N.min (N.min (N.min sa it) b) n) nowt) as [[q w] qic] eqn:Eq.
  cbn [fst snd]. cbv zeta.
  destruct ((sa =? DMAX) && (it =? DMAX) && (b =? DMAX) && (n =? DMAX) && (q =? DMAX)) eqn:E0.
  { left. injection H as <-. reflexivity. }
  destruct ((n <=? sa) && (n <=? it) && (n <=? b) && (n <=? q)) eqn:E1.
  { right. left. eexists _, _. split; [exact H|]. left. split; reflexivity. }
  destruct ((b <=? sa) && (b <=? it) && (b <=? q)) eqn:E2.
  { right. right. left. split; [reflexivity|]. split; [reflexivity|]. split; [reflexivity|].
    destruct bic; injection H as <-; eexists; reflexivity. }
  destruct ((q <=? sa) && (q <=? it)) eqn:E3.
  { right. right. right. split; [reflexivity|]. split; [reflexivity|].
    destruct (sq_pop (m_sq st) w qic (if qic then n_cagg (m_net st) else n_sagg (m_net st)))
      as [[tmp sq']|] eqn:Epop; [|discriminate].
    injection H as <-.
    destruct (Z.ltb_spec (se_time tmp) (nowt + Z.of_N q)) as [Hlt|Hge].
    - exists tmp, sq', (set_time tmp (nowt + Z.of_N q)%Z). split; [reflexivity|].
      split; [apply sev_same_set_time|]. split; [|reflexivity].
      unfold set_time. cbn [se_time]. lia.
    - exists tmp, sq', tmp. split; [reflexivity|].
      split; [apply sev_same_refl|]. split; [|reflexivity]. lia. }
  right. left.
  destruct (it <=? sa).
  - mbind H as [[c' s'] e] Ed. eexists _, _. split; [exact H|].
    right. left. exists c', s', e. split; [exact Ed|]. split; reflexivity.
  - mbind H as [[c' s'] e] Ed. eexists _, _. split; [exact H|].
    right. right. exists c', s', e. split; [exact Ed|]. split; reflexivity.
Qed.

Lemma pn_rec_wf : forall st nowt st1 nowt1,
  pn_rec st nowt st1 nowt1 -> wf_simq (m_sq st) -> wf_simq (m_sq st1).
Proof.
  intros st nowt st1 nowt1 [[-> _]|[(c' & s' & e & _ & -> & _)|(c' & s' & e & _ & -> & _)]] Hwf;
    cbn [m_sq]; [exact Hwf|apply sq_push_wf; exact Hwf|apply sq_push_wf; exact Hwf].
Qed.

(** * 4. THE CORE: no TunnelSent leaves a side whose blocking is in force,
    unless the blocking is bypassable and the packet carries the bypass flag *)

(** the queue branch of [pick_next]: what it pops when it is reached *)
Lemma queue_branch_no_leak : forall st nowt tmp sq',
  wf_simq (m_sq st) ->
  (fst (pn_b st nowt) <=? pn_sa st nowt) && (fst (pn_b st nowt) <=? pn_it st nowt)
    && (fst (pn_b st nowt) <=? fst (fst (pn_q st nowt))) = false ->
  (fst (fst (pn_q st nowt)) <=? pn_sa st nowt) && (fst (fst (pn_q st nowt)) <=? pn_it st nowt) = true ->
  sq_pop (m_sq st) (snd (fst (pn_q st nowt))) (snd (pn_q st nowt))
         (if snd (pn_q st nowt) then n_cagg (m_net st) else n_sagg (m_net st)) = Some (tmp, sq') ->
  se_ev tmp = TETunnelSent ->
  let sd := if se_client tmp then m_c st else m_s st in
  s_buntil sd = None \/ (s_bbypass sd = true /\ se_bypass tmp = true).
Proof.
  intros st nowt tmp sq' Hwf E2 E3 Hpop Hev. cbv zeta.
  destruct (pn_q st nowt) as [[q w] qic] eqn:Eq. cbn [fst snd] in *.
  destruct (sq_pop_ok _ _ _ _ _ _ Hwf Hpop) as [Hcl Hk].
  destruct (sq_pop_top _ _ _ _ _ _ Hpop) as (x0 & Hpk & Hev0 & _ & _ & Hby0 & _).
  unfold pn_q in Eq. apply (peek_queue_cases _ _ _ _ _ _ _ _ _ _ Hwf) in Eq. cbv zeta in Eq.
  rewrite Hcl.
  destruct Eq as [Hb|[Hn|[Hw|(p & Hp & Hp')]]].
  - (* the expiry is due no later: this branch is not reached *)
    exfalso. unfold pn_b in E2.
    apply andb_prop in E3. destruct E3 as [E3a E3b].
    apply N.leb_le in E3a, E3b.
    apply Bool.andb_false_iff in E2. destruct E2 as [E2|E2].
    + apply Bool.andb_false_iff in E2. destruct E2 as [E2|E2]; apply N.leb_gt in E2; lia.
    + apply N.leb_gt in E2. lia.
  - left. exact Hn.
  - destruct Hw as [->|[->|[-> Hbb]]]; cbn beta iota in Hk.
    + rewrite Hk in Hev. discriminate.
    + destruct Hk as [Hk _]. congruence.
    + right. split; [exact Hbb|apply Hk].
  - rewrite Hp in Hpk. injection Hpk as <-.
    destruct Hp' as [Hne|[Hbb Hby]].
    + congruence.
    + right. split; [exact Hbb|congruence].
Qed.

Theorem pick_next_no_leak : forall fuel st nowt e st',
  wf_simq (m_sq st) ->
  pick_next fuel st nowt = Ok (Some e, st') -> se_ev e = TETunnelSent ->
  let sd := if se_client e then m_c st' else m_s st' in
  s_buntil sd = None \/ (s_bbypass sd = true /\ se_bypass e = true).
Proof.
  induction fuel as [|fuel IH]; intros st nowt e st' Hwf H Hev; [discriminate|].
  apply pick_next_step in H. cbv zeta in H.
  destruct H as [H|[(st1 & nowt1 & H & Hrec)|[(_ & _ & _ & net' & H)|
                  (E2 & E3 & tmp & sq' & tmp' & Hpop & Hsame & _ & H)]]].
  - discriminate.
  - eapply IH; [eapply pn_rec_wf; eassumption|exact H|exact Hev].
  - injection H as -> _. discriminate Hev.
  - injection H as -> ->. cbn [m_c m_s].
    destruct Hsame as (Hev' & Hcl' & _ & Hby' & _).
    rewrite Hcl', Hby'. rewrite Hev' in Hev.
    exact (queue_branch_no_leak st nowt tmp sq' Hwf E2 E3 Hpop Hev).
Qed.

(** * 5. The blocking-expiry branch *)

(** COUNTEREXAMPLE to [pick_next_returns_blocking_end] as first stated (with
    [wf_simq] only): the routing invariant allows a BlockingEnd event to sit in
    an internal heap; the queue branch then hands it out, padding flag and all,
    while the side's blocking stays in force. *)
Definition cx_fw : fstate := mkfstate 0 0 [] [] 0 0 0 0 false None 0 0 [].
Definition cx_side (u : option Z) : side := mkside cx_fw [] [] u false.
Definition cx_st : sim :=
  mksim (mksimq (mkevq [] [] [] [mksev TEBlockingEnd 5 true true false false]) evq_empty None)
        (cx_side (Some 100%Z)) (cx_side None) (mknetb 0 0 [] 0 [] [] 0 0) 0.

Lemma cx_st_wf : wf_simq (m_sq cx_st).
Proof.
  unfold wf_simq, wf_evq, cx_st. cbn [m_sq sq_c sq_s q_base q_blocking q_bypass q_internal evq_empty].
  split; (split; [|split; [|split]]); intros e Hin; try (destruct Hin; fail).
  destruct Hin as [<-|[]]. cbn [se_client se_ev]. split; [reflexivity|]. split; discriminate.
Qed.

Lemma pick_next_returns_blocking_end_counterexample :
  exists e st', pick_next 1 cx_st 0 = Ok (Some e, st') /\ se_ev e = TEBlockingEnd /\
                se_client e = true /\ s_buntil (m_c st') = Some 100%Z /\ se_pad e = true.
Proof.
  exists (mksev TEBlockingEnd 5 true true false false),
         (mksim (mksimq evq_empty evq_empty None) (cx_side (Some 100%Z)) (cx_side None)
                (mknetb 0 0 [] 0 [] [] 0 0) 0).
  split; [vm_compute; reflexivity|]. cbn. auto.
Qed.

(** the missing piece of invariant: no BlockingEnd is ever queued (the
    simulator hands BlockingEnd out directly) *)
Definition sq_no_bend (sq : simq) : Prop :=
  forall ic w e, In e (evq_heap (sq_side sq ic) w) -> se_ev e <> TEBlockingEnd.

Lemma sq_push_no_bend : forall sq x,
  sq_no_bend sq -> se_ev x <> TEBlockingEnd -> sq_no_bend (sq_push sq x).
Proof.
  intros sq x Hnb Hx ic w e Hin. unfold sq_push in Hin. rewrite sq_side_set in Hin.
  destruct (Bool.eqb (se_client x) ic) eqn:E; [|eapply Hnb; exact Hin].
  apply evq_push_in in Hin. destruct Hin as [Hin|[-> _]]; [eapply Hnb; exact Hin|exact Hx].
Qed.

Lemma sq_pop_no_bend : forall sq which ic delay x sq',
  sq_no_bend sq -> sq_pop sq which ic delay = Some (x, sq') ->
  sq_no_bend sq' /\ se_ev x <> TEBlockingEnd.
Proof.
  intros sq which ic delay x sq' Hnb H. split.
  - unfold sq_pop in H.
    destruct (evq_pop (sq_side sq ic) which delay) as [[x0 q]|] eqn:E; [|discriminate].
    injection H as <- <-. intros ic' w e Hin. rewrite sq_side_set in Hin.
    destruct (Bool.eqb ic ic') eqn:Eb; [|eapply Hnb; exact Hin].
    eapply Hnb. eapply evq_pop_in; [exact E|exact Hin].
  - destruct (sq_pop_top _ _ _ _ _ _ H) as (x0 & Hpk & Hev & _).
    rewrite Hev. eapply Hnb. apply heap_peek_in. exact Hpk.
Qed.

Lemma do_internal_timer_ev : forall c s target c' s' e,
  do_internal_timer c s target = Ok (c', s', e) -> exists id, se_ev e = TETimerEnd id.
Proof.
  intros c s target c' s' e H. unfold do_internal_timer in H.
  destruct (take_timer (s_timers c) target 0) as [[id l]|].
  - injection H as _ _ <-. eexists. reflexivity.
  - destruct (take_timer (s_timers s) target 0) as [[id l]|]; [|discriminate].
    injection H as _ _ <-. eexists. reflexivity.
Qed.

Lemma act_on_ev : forall sd ic a t sd' e,
  act_on sd ic a t = Ok (sd', e) ->
  (exists m, se_ev e = TEPaddingSent m) \/ (exists m, se_ev e = TEBlockingBegin m).
Proof.
  intros sd ic a t sd' e H. unfold act_on in H. destruct a; try discriminate.
  - injection H as _ <-. left. eexists. reflexivity.
  - injection H as _ <-. right. eexists. reflexivity.
Qed.

Lemma do_scheduled_action_ev : forall c s target c' s' e,
  do_scheduled_action c s target = Ok (c', s', e) ->
  (exists m, se_ev e = TEPaddingSent m) \/ (exists m, se_ev e = TEBlockingBegin m).
Proof.
  intros c s target c' s' e H. unfold do_scheduled_action in H.
  destruct (take_action (s_sched c) target) as [[[a t] l]|].
  - mbind H as [c1 e1] Ea. injection H as _ _ <-. eapply act_on_ev. exact Ea.
  - destruct (take_action (s_sched s) target) as [[[a t] l]|]; [|discriminate].
    mbind H as [s1 e1] Ea. injection H as _ _ <-. eapply act_on_ev. exact Ea.
Qed.

Lemma pn_rec_no_bend : forall st nowt st1 nowt1,
  pn_rec st nowt st1 nowt1 -> sq_no_bend (m_sq st) -> sq_no_bend (m_sq st1).
Proof.
  intros st nowt st1 nowt1 [[-> _]|[(c' & s' & e & Hd & -> & _)|(c' & s' & e & Hd & -> & _)]] Hnb;
    cbn [m_sq]; [exact Hnb| |]; apply sq_push_no_bend; try exact Hnb.
  - apply do_internal_timer_ev in Hd. destruct Hd as [id ->]. discriminate.
  - apply do_scheduled_action_ev in Hd. destruct Hd as [[m ->]|[m ->]]; discriminate.
Qed.

Lemma pn_rec_time : forall st nowt st1 nowt1, pn_rec st nowt st1 nowt1 -> (nowt <= nowt1)%Z.
Proof.
  intros st nowt st1 nowt1 [[_ ->]|[(c' & s' & e & _ & _ & ->)|(c' & s' & e & _ & _ & ->)]]; lia.
Qed.

(** the true variant of the requested statement: as requested, plus the
    hypothesis that no BlockingEnd is queued *)
Theorem pick_next_returns_blocking_end_partial : forall fuel st nowt e st',
  pick_next fuel st nowt = Ok (Some e, st') -> se_ev e = TEBlockingEnd ->
  wf_simq (m_sq st) -> sq_no_bend (m_sq st) ->
  exists u, (if se_client e then s_buntil (m_c st') = None else s_buntil (m_s st') = None) /\
            se_time e = u /\ se_pad e = false.
Proof.
  induction fuel as [|fuel IH]; intros st nowt e st' H Hev Hwf Hnb; [discriminate|].
  apply pick_next_step in H. cbv zeta in H.
  destruct H as [H|[(st1 & nowt1 & H & Hrec)|[(_ & _ & _ & net' & H)|
                  (_ & _ & tmp & sq' & tmp' & Hpop & Hsame & _ & H)]]].
  - discriminate.
  - eapply IH; [exact H|exact Hev|eapply pn_rec_wf; eassumption|eapply pn_rec_no_bend; eassumption].
  - injection H as -> ->. cbn [se_client se_time se_pad m_c m_s].
    eexists. split; [|split; reflexivity].
    destruct (snd (pn_b st nowt)); reflexivity.
  - exfalso. injection H as -> _. destruct Hsame as (Hev' & _).
    apply (sq_pop_no_bend _ _ _ _ _ _ Hnb) in Hpop. destruct Hpop as [_ Hne]. congruence.
Qed.

(** ** the peeks never exceed Duration::MAX *)
Lemma DMAX_pos : 0 <= DMAX.
Proof. apply N.le_0_l. Qed.

Lemma peek_sched_le_DMAX : forall sc ss nowt, peek_sched sc ss nowt <= DMAX.
Proof.
  intros sc ss nowt. unfold peek_sched.
  set (f := fun (acc : N) (o : option (taction * Z)) =>
              match o with
              | Some (_, t) => if (nowt <=? t)%Z && (since t nowt <? acc) then since t nowt else acc
              | None => acc
              end).
  assert (Hf : forall l acc, acc <= DMAX -> fold_left f l acc <= DMAX).
  { induction l as [|o l IHl]; intros acc Hacc; cbn [fold_left]; [exact Hacc|].
    apply IHl. unfold f. destruct o as [[a t]|]; [|exact Hacc].
    destruct ((nowt <=? t)%Z && (since t nowt <? acc)); [apply since_le_DMAX|exact Hacc]. }
  apply Hf. apply Hf. apply N.le_refl.
Qed.

Lemma peek_timers_le_DMAX : forall tc ts nowt, peek_timers tc ts nowt <= DMAX.
Proof.
  intros tc ts nowt. unfold peek_timers.
  set (f := fun (acc : N) (o : option Z) =>
              match o with
              | Some t => if (nowt <=? t)%Z && (since t nowt <? acc) then since t nowt else acc
              | None => acc
              end).
  assert (Hf : forall l acc, acc <= DMAX -> fold_left f l acc <= DMAX).
  { induction l as [|o l IHl]; intros acc Hacc; cbn [fold_left]; [exact Hacc|].
    apply IHl. unfold f. destruct o as [t|]; [|exact Hacc].
    destruct ((nowt <=? t)%Z && (since t nowt <? acc)); [apply since_le_DMAX|exact Hacc]. }
  apply Hf. apply Hf. apply N.le_refl.
Qed.

Lemma net_peek_agg_le_DMAX : forall nb nowt, net_peek_agg nb nowt <= DMAX.
Proof.
  intros nb nowt. unfold net_peek_agg.
  destruct (heap_peek (n_aggq nb)); [apply since_le_DMAX|apply N.le_refl].
Qed.

Lemma evq_peek_le_DMAX : forall q delay nowt, snd (evq_peek q delay nowt) <= DMAX.
Proof.
  intros q delay nowt. unfold evq_peek.
  destruct (evq_len q); [apply DMAX_pos|].
  destruct (heap_peek (q_bypass q)) as [a|];
  destruct (heap_peek (q_blocking q)) as [b|];
  destruct (heap_peek (q_internal q)) as [c|];
  destruct (heap_peek (q_base q)) as [d|];
  cbn [opt_gt before];
  repeat match goal with
         | |- context [if ?c then _ else _] => destruct c
         | |- context [match ?c with Gt => _ | _ => _ end] => destruct c
         end;
  cbn [snd]; first [apply since_le_DMAX|apply DMAX_pos].
Qed.

Lemma sq_peek_le_DMAX : forall sq cd sd nowt, snd (sq_peek sq cd sd nowt) <= DMAX.
Proof.
  intros sq cd sd nowt. unfold sq_peek.
  destruct (sq_len sq); [apply DMAX_pos|].
  pose proof (evq_peek_le_DMAX (sq_c sq) cd nowt) as Hc.
  pose proof (evq_peek_le_DMAX (sq_s sq) sd nowt) as Hs.
  destruct (evq_peek (sq_c sq) cd nowt) as [[c cq] cdur].
  destruct (evq_peek (sq_s sq) sd nowt) as [[s sqq] sdur].
  cbn [snd] in Hc, Hs.
  destruct c as [ce|], s as [se|]; cbn [snd]; try assumption; try apply DMAX_pos.
  destruct (match cdur ?= sdur with
            | Eq => ev_idx (se_ev ce) ?= ev_idx (se_ev se) | x => x end); cbn [snd]; assumption.
Qed.

Lemma pqes_le_DMAX : forall sq bu bb nowt delay ic,
  fst (fst (peek_queue_earliest_side sq bu bb nowt delay ic)) <= DMAX.
Proof.
  intros sq bu bb nowt delay ic. unfold peek_queue_earliest_side.
  destruct (sq_peek_blocking sq bb ic) as [pb bq].
  destruct (sq_peek_non_blocking sq bb ic delay) as [pn nq].
  destruct pb as [b|], pn as [n|];
    try match goal with |- context [if ?c then _ else _] => destruct c end;
    cbn [fst]; first [apply since_le_DMAX|apply N.le_refl].
Qed.

Lemma peek_queue_le_DMAX : forall sq c s cd sd earliest nowt,
  fst (fst (peek_queue sq c s cd sd earliest nowt)) <= DMAX.
Proof.
  intros sq c s cd sd earliest nowt. unfold peek_queue.
  destruct (sq_len sq); [apply N.le_refl|].
  pose proof (sq_peek_le_DMAX sq cd sd nowt) as Hd.
  destruct (sq_peek sq cd sd nowt) as [[pk q0] dur]. cbn [snd] in Hd.
  destruct pk as [p|]; [|apply N.le_refl].
  destruct (earliest <? dur); [apply N.le_refl|].
  repeat match goal with
         | |- context [if ?b then (dur, q0, se_client p) else _] => destruct b; [exact Hd|]
         end.
  pose proof (pqes_le_DMAX sq (s_buntil c) (s_bbypass c) nowt cd true) as Hc.
  pose proof (pqes_le_DMAX sq (s_buntil s) (s_bbypass s) nowt sd false) as Hs.
  destruct (peek_queue_earliest_side sq (s_buntil c) (s_bbypass c) nowt cd true) as [[c_d c_q] c_b].
  destruct (peek_queue_earliest_side sq (s_buntil s) (s_bbypass s) nowt sd false) as [[s_d s_q] s_b].
  cbn [fst] in Hc, Hs. destruct (c_d <=? s_d); cbn [fst]; assumption.
Qed.

(** when the expiry branch is taken some side does block; the branch picks
    the side that expires first (the server on a tie) *)
Lemma blocking_branch_exact : forall st nowt,
  (pn_sa st nowt =? DMAX) && (pn_it st nowt =? DMAX) && (fst (pn_b st nowt) =? DMAX)
    && (pn_n st nowt =? DMAX) && (fst (fst (pn_q st nowt)) =? DMAX) = false ->
  (pn_n st nowt <=? pn_sa st nowt) && (pn_n st nowt <=? pn_it st nowt)
    && (pn_n st nowt <=? fst (pn_b st nowt)) && (pn_n st nowt <=? fst (fst (pn_q st nowt))) = false ->
  (fst (pn_b st nowt) <=? pn_sa st nowt) && (fst (pn_b st nowt) <=? pn_it st nowt)
    && (fst (pn_b st nowt) <=? fst (fst (pn_q st nowt))) = true ->
  exists u,
    s_buntil (if snd (pn_b st nowt) then m_c st else m_s st) = Some u /\
    fst (pn_b st nowt) = since u nowt /\
    (forall u', s_buntil (if snd (pn_b st nowt) then m_s st else m_c st) = Some u' ->
                if snd (pn_b st nowt) then (u < u')%Z else (u <= u')%Z).
Proof.
  intros st nowt E0 E1 E2.
  assert (Hq : fst (fst (pn_q st nowt)) <= DMAX) by (unfold pn_q; apply peek_queue_le_DMAX).
  assert (Hsa : pn_sa st nowt <= DMAX) by apply peek_sched_le_DMAX.
  assert (Hit : pn_it st nowt <= DMAX) by apply peek_timers_le_DMAX.
  assert (Hn : pn_n st nowt <= DMAX) by apply net_peek_agg_le_DMAX.
  set (q := fst (fst (pn_q st nowt))) in *. clearbody q.
  set (sa := pn_sa st nowt) in *. clearbody sa.
  set (it := pn_it st nowt) in *. clearbody it.
  set (n := pn_n st nowt) in *. clearbody n.
  unfold pn_b, peek_blocked_exp in *.
  destruct (s_buntil (m_c st)) as [uc|] eqn:Euc, (s_buntil (m_s st)) as [us|] eqn:Eus.
  - destruct (Z.ltb_spec uc us) as [Hlt|Hge]; cbn [fst snd].
    + exists uc. split; [exact Euc|]. split; [reflexivity|].
      intros u' Hu'. rewrite Eus in Hu'. injection Hu' as <-. exact Hlt.
    + exists us. split; [exact Eus|]. split; [reflexivity|].
      intros u' Hu'. rewrite Euc in Hu'. injection Hu' as <-. exact Hge.
  - cbn [fst snd]. exists uc. split; [exact Euc|]. split; [reflexivity|].
    intros u' Hu'. rewrite Eus in Hu'. discriminate.
  - cbn [fst snd]. exists us. split; [exact Eus|]. split; [reflexivity|].
    intros u' Hu'. rewrite Euc in Hu'. discriminate.
  - (* nobody blocks: the expiry peek is Duration::MAX and cannot win *)
    exfalso. cbn [fst snd] in *.
    apply andb_prop in E2. destruct E2 as [E2 E2c]. apply andb_prop in E2. destruct E2 as [E2a E2b].
    apply N.leb_le in E2a, E2b, E2c.
    assert (sa = DMAX) by lia. assert (it = DMAX) by lia. assert (q = DMAX) by lia. subst sa it q.
    rewrite !N.eqb_refl in E0. cbn [andb] in E0. rewrite Bool.andb_true_r in E0.
    apply N.eqb_neq in E0.
    assert (Hlt : n <= DMAX) by exact Hn.
    assert (E : (n <=? DMAX) = true) by (apply N.leb_le; exact Hlt).
    rewrite E in E1. discriminate E1.
Qed.

(** the strengthened form: the BlockingEnd is for the side that, in the state
    [st1] in which the expiry branch was taken, expires first; it is stamped
    with that side's expiry [u] (exactly [u] unless [u] is already past or
    more than Duration::MAX ahead), clears that side's blocking and changes
    nothing else of the two sides or of the queue *)
Theorem pick_next_blocking_end_exact : forall fuel st nowt e st',
  pick_next fuel st nowt = Ok (Some e, st') -> se_ev e = TEBlockingEnd ->
  sq_no_bend (m_sq st) ->
  exists st1 nowt1 u,
    (nowt <= nowt1)%Z /\
    s_buntil (if se_client e then m_c st1 else m_s st1) = Some u /\
    (forall u', s_buntil (if se_client e then m_s st1 else m_c st1) = Some u' ->
                if se_client e then (u < u')%Z else (u <= u')%Z) /\
    se_time e = (nowt1 + Z.of_N (since u nowt1))%Z /\
    ((nowt1 <= u <= nowt1 + Z.of_N DMAX)%Z -> se_time e = u) /\
    e = mksev TEBlockingEnd (se_time e) (se_client e) false false false /\
    m_c st' = (if se_client e then side_set_block (m_c st1) None (s_bbypass (m_c st1)) else m_c st1) /\
    m_s st' = (if se_client e then m_s st1 else side_set_block (m_s st1) None (s_bbypass (m_s st1))) /\
    m_sq st' = m_sq st1.
Proof.
  induction fuel as [|fuel IH]; intros st nowt e st' H Hev Hnb; [discriminate|].
  apply pick_next_step in H. cbv zeta in H.
  destruct H as [H|[(st1 & nowt1 & H & Hrec)|[(E0 & E1 & E2 & net' & H)|
                  (_ & _ & tmp & sq' & tmp' & Hpop & Hsame & _ & H)]]].
  - discriminate.
  - destruct (IH st1 nowt1 e st' H Hev (pn_rec_no_bend _ _ _ _ Hrec Hnb))
      as (st2 & nowt2 & u & Ht & Hrest).
    exists st2, nowt2, u. split; [|exact Hrest].
    apply pn_rec_time in Hrec. lia.
  - destruct (blocking_branch_exact st nowt E0 E1 E2) as (u & Hu & Hb & Hfirst).
    injection H as -> ->. cbn [se_client se_time m_c m_s m_sq].
    exists st, nowt, u.
    split; [lia|]. split; [exact Hu|]. split; [exact Hfirst|].
    split; [rewrite Hb; reflexivity|].
    split; [intros Hr; rewrite Hb; unfold since; lia|].
    split; [reflexivity|]. split; [reflexivity|]. split; reflexivity.
  - exfalso. injection H as -> _. destruct Hsame as (Hev' & _).
    apply (sq_pop_no_bend _ _ _ _ _ _ Hnb) in Hpop. destruct Hpop as [_ Hne]. congruence.
Qed.

(** * 6. What carries the bypass flag *)

Lemma route_bypass : forall x, QBypassable = route x -> se_ev x = TETunnelSent /\ se_bypass x = true.
Proof.
  intros x H. unfold route in H.
  destruct (se_ev x); try discriminate. destruct (se_bypass x); [auto|discriminate].
Qed.

Lemma sq_push_bypass_in : forall sq x y,
  In y (q_bypass (sq_c (sq_push sq x)) ++ q_bypass (sq_s (sq_push sq x))) ->
  In y (q_bypass (sq_c sq) ++ q_bypass (sq_s sq)) \/
  (y = x /\ se_ev x = TETunnelSent /\ se_bypass x = true).
Proof.
  intros sq x y Hin. unfold sq_push, sq_set_side, sq_side in Hin.
  destruct (se_client x); cbn [sq_c sq_s] in Hin;
    apply in_app_or in Hin; destruct Hin as [Hin|Hin].
  - apply (evq_push_in _ _ QBypassable) in Hin. destruct Hin as [Hin|[-> Hr]].
    + left. apply in_or_app. left. exact Hin.
    + right. split; [reflexivity|]. apply route_bypass. exact Hr.
  - left. apply in_or_app. right. exact Hin.
  - left. apply in_or_app. left. exact Hin.
  - apply (evq_push_in _ _ QBypassable) in Hin. destruct Hin as [Hin|[-> Hr]].
    + left. apply in_or_app. right. exact Hin.
    + right. split; [reflexivity|]. apply route_bypass. exact Hr.
Qed.

Lemma sq_pop_bypass_in : forall sq w ic delay x sq' y,
  sq_pop sq w ic delay = Some (x, sq') ->
  In y (q_bypass (sq_c sq') ++ q_bypass (sq_s sq')) ->
  In y (q_bypass (sq_c sq) ++ q_bypass (sq_s sq)).
Proof.
  intros sq w ic delay x sq' y H Hin. unfold sq_pop in H.
  destruct (evq_pop (sq_side sq ic) w delay) as [[x0 q]|] eqn:E; [|discriminate].
  injection H as <- <-. unfold sq_set_side, sq_side in *.
  destruct ic; cbn [sq_c sq_s] in Hin; apply in_app_or in Hin; destruct Hin as [Hin|Hin];
    apply in_or_app.
  - left. apply (evq_pop_in _ _ _ _ _ QBypassable y E). exact Hin.
  - right. exact Hin.
  - left. exact Hin.
  - right. apply (evq_pop_in _ _ _ _ _ QBypassable y E). exact Hin.
Qed.

Lemma sq_pop_blocking_inv : forall sq which bb ic delay x sq',
  sq_pop_blocking sq which bb ic delay = Some (x, sq') ->
  exists w d, sq_pop sq w ic d = Some (x, sq').
Proof.
  intros sq which bb ic delay x sq' H. unfold sq_pop_blocking in H.
  destruct bb; eauto.
Qed.

(** pushing an event that is not a bypass-flagged TunnelSent *)
Lemma push_plain : forall sq x (P : Prop),
  wf_simq sq -> (se_ev x = TETunnelSent -> se_bypass x = true -> P) ->
  wf_simq (sq_push sq x) /\
  (forall y, In y (q_bypass (sq_c (sq_push sq x)) ++ q_bypass (sq_s (sq_push sq x))) ->
             In y (q_bypass (sq_c sq) ++ q_bypass (sq_s sq)) \/ P).
Proof.
  intros sq x P Hwf HP. split; [apply sq_push_wf; exact Hwf|].
  intros y Hin. apply sq_push_bypass_in in Hin.
  destruct Hin as [Hin|(_ & Hev & Hby)]; [left; exact Hin|right; exact (HP Hev Hby)].
Qed.

Theorem network_stack_bypass_origin : forall next sq bb net nowt sq' net' act,
  wf_simq sq -> sim_network_stack next sq bb net nowt = Ok (sq', net', act) -> wf_simq sq' /\
  (forall x, In x (q_bypass (sq_c sq') ++ q_bypass (sq_s sq')) ->
             In x (q_bypass (sq_c sq) ++ q_bypass (sq_s sq)) \/
             (exists m, se_ev next = TEPaddingSent m /\ se_bypass next = true)).
Proof.
  intros next sq bb net nowt sq' net' act Hwf H. unfold sim_network_stack in H.
  destruct (se_ev next) eqn:Eev;
    try (injection H as <- _ _; split; [exact Hwf|intros x Hin; left; exact Hin]).
  - (* TunnelRecv *)
    destruct (se_pad next); injection H as <- _ _;
      apply push_plain; try exact Hwf; cbn [se_ev]; discriminate.
  - (* NormalSent *)
    injection H as <- _ _. apply push_plain; [exact Hwf|]. cbn [se_bypass]. discriminate.
  - (* PaddingSent *)
    assert (Hplain : forall sq1,
      sq1 = sq_push sq (mksev TETunnelSent (se_time next) (se_client next) true
                              (se_bypass next) (se_replace next)) ->
      wf_simq sq1 /\
      (forall x, In x (q_bypass (sq_c sq1) ++ q_bypass (sq_s sq1)) ->
                 In x (q_bypass (sq_c sq) ++ q_bypass (sq_s sq)) \/
                 (exists m0, TEPaddingSent m = TEPaddingSent m0 /\ se_bypass next = true))).
    { intros sq1 ->. apply push_plain; [exact Hwf|]. cbn [se_bypass]. intros _ Hby.
      exists m. split; [reflexivity|exact Hby]. }
    destruct (se_replace next); [|injection H as <- _ _; apply Hplain; reflexivity].
    destruct (sq_peek_blocking sq bb (se_client next)) as [[queued|] which];
      [|injection H as <- _ _; apply Hplain; reflexivity].
    destruct (Bool.eqb (se_client queued) (se_client next) && is_tunnel_sent (se_ev queued)
              && negb (se_pad queued)); [|injection H as <- _ _; apply Hplain; reflexivity].
    destruct (se_bypass next) eqn:Eby; cbn [negb] in H.
    + destruct (sq_pop_blocking sq which bb (se_client next)
                  (if se_client next then n_cagg net else n_sagg net)) as [[entry sq1]|] eqn:Epop;
        [|discriminate].
      injection H as <- _ _.
      apply sq_pop_blocking_inv in Epop. destruct Epop as (w & d & Epop).
      split; [apply sq_push_wf; eapply sq_pop_wf; [exact Hwf|exact Epop]|].
      intros x _. right. exists m. split; reflexivity.
    + injection H as <- _ _. split; [exact Hwf|intros x Hin; left; exact Hin].
  - (* TunnelSent *)
    destruct (net_sample net nowt (se_client next)) as [[net1 nd] baseline].
    destruct (negb (se_pad next)); injection H as <- _ _;
      apply push_plain; try exact Hwf; cbn [se_ev]; discriminate.
Qed.

(** * 7. The two invariants hold all along [sim_loop]: they are established by
    [parse_trace] and preserved by [pick_next], [sim_network_stack] and
    [trigger_update] (so the hypotheses of the theorems above are met at every
    iteration) *)

Definition sq_inv (sq : simq) : Prop := wf_simq sq /\ sq_no_bend sq.

Lemma sq_push_inv : forall sq x, sq_inv sq -> se_ev x <> TEBlockingEnd -> sq_inv (sq_push sq x).
Proof.
  intros sq x [Hwf Hnb] Hx. split; [apply sq_push_wf; exact Hwf|apply sq_push_no_bend; assumption].
Qed.

Lemma sq_pop_inv : forall sq which ic delay x sq',
  sq_inv sq -> sq_pop sq which ic delay = Some (x, sq') -> sq_inv sq' /\ se_ev x <> TEBlockingEnd.
Proof.
  intros sq which ic delay x sq' [Hwf Hnb] H.
  destruct (sq_pop_no_bend _ _ _ _ _ _ Hnb H) as [Hnb' Hx].
  split; [split; [eapply sq_pop_wf; eassumption|exact Hnb']|exact Hx].
Qed.

Lemma sq_inv_empty : forall pps, sq_inv (mksimq evq_empty evq_empty pps).
Proof.
  intros pps. split.
  - unfold wf_simq, wf_evq, evq_empty. cbn [sq_c sq_s q_base q_blocking q_bypass q_internal].
    split; (split; [|split; [|split]]); intros e [].
  - intros [|] [] e Hin; cbn in Hin; destruct Hin.
Qed.

Lemma sq_inv_pps : forall sq pps, sq_inv sq -> sq_inv (mksimq (sq_c sq) (sq_s sq) pps).
Proof.
  intros sq pps [Hwf Hnb]. split; [exact Hwf|].
  intros ic w e Hin. apply (Hnb ic w e). destruct ic; exact Hin.
Qed.

Lemma parse_lines_inv : forall tr delay q sw rw smax rmax,
  sq_inv q -> sq_inv (fst (parse_lines tr delay q sw rw smax rmax)).
Proof.
  induction tr as [|[t [|]] rest IH]; intros delay q sw rw smax rmax Hq; cbn [parse_lines].
  - exact Hq.
  - destruct (window_add_w PARSE_WINDOW sw t) as [sw' m].
    apply IH. apply sq_push_inv; [exact Hq|cbn [se_ev]; discriminate].
  - destruct (window_add_w PARSE_WINDOW rw t) as [rw' m].
    apply IH. apply sq_push_inv; [exact Hq|cbn [se_ev]; discriminate].
Qed.

Theorem parse_trace_inv : forall tr delay, sq_inv (parse_trace tr delay).
Proof.
  intros tr delay. unfold parse_trace.
  pose proof (parse_lines_inv tr delay (mksimq evq_empty evq_empty None) [] [] 0 0
                (sq_inv_empty None)) as H.
  destruct (parse_lines tr delay (mksimq evq_empty evq_empty None) [] [] 0 0) as [q pps].
  cbn [fst] in H. apply sq_inv_pps. exact H.
Qed.

Theorem pick_next_inv : forall fuel st nowt r st',
  sq_inv (m_sq st) -> pick_next fuel st nowt = Ok (r, st') -> sq_inv (m_sq st').
Proof.
  induction fuel as [|fuel IH]; intros st nowt r st' Hinv H; [discriminate|].
  apply pick_next_step in H. cbv zeta in H.
  destruct H as [H|[(st1 & nowt1 & H & Hrec)|[(_ & _ & _ & net' & H)|
                  (_ & _ & tmp & sq' & tmp' & Hpop & Hsame & _ & H)]]].
  - injection H as -> ->. exact Hinv.
  - apply (IH st1 nowt1 r st'); [|exact H]. destruct Hinv as [Hwf Hnb].
    split; [eapply pn_rec_wf; eassumption|eapply pn_rec_no_bend; eassumption].
  - injection H as -> ->. cbn [m_sq]. exact Hinv.
  - injection H as -> ->. cbn [m_sq].
    destruct (sq_pop_inv _ _ _ _ _ _ Hinv Hpop) as [Hinv' Hx]. exact Hinv'.
Qed.

Theorem network_stack_inv : forall next sq bb net nowt sq' net' act,
  sq_inv sq -> sim_network_stack next sq bb net nowt = Ok (sq', net', act) -> sq_inv sq'.
Proof.
  intros next sq bb net nowt sq' net' act Hinv H.
  split; [exact (proj1 (network_stack_bypass_origin _ _ _ _ _ _ _ _ (proj1 Hinv) H))|].
  destruct Hinv as [Hwf Hnb]. unfold sim_network_stack in H.
  destruct (se_ev next) eqn:Eev; try (injection H as <- _ _; exact Hnb).
  - destruct (se_pad next); injection H as <- _ _;
      (apply sq_push_no_bend; [exact Hnb|cbn [se_ev]; discriminate]).
  - injection H as <- _ _. apply sq_push_no_bend; [exact Hnb|cbn [se_ev]; discriminate].
  - assert (Hplain : forall pd by_ rp,
              sq_no_bend (sq_push sq (mksev TETunnelSent (se_time next) (se_client next) pd by_ rp))).
    { intros pd by_ rp. apply sq_push_no_bend; [exact Hnb|cbn [se_ev]; discriminate]. }
    destruct (se_replace next); [|injection H as <- _ _; apply Hplain].
    destruct (sq_peek_blocking sq bb (se_client next)) as [[queued|] which];
      [|injection H as <- _ _; apply Hplain].
    destruct (Bool.eqb (se_client queued) (se_client next) && is_tunnel_sent (se_ev queued)
              && negb (se_pad queued)); [|injection H as <- _ _; apply Hplain].
    destruct (negb (se_bypass next)); [injection H as <- _ _; exact Hnb|].
    destruct (sq_pop_blocking sq which bb (se_client next)
                (if se_client next then n_cagg net else n_sagg net)) as [[entry sq1]|] eqn:Epop;
      [|discriminate].
    injection H as <- _ _.
    apply sq_pop_blocking_inv in Epop. destruct Epop as (w & d & Epop).
    destruct (sq_pop_no_bend _ _ _ _ _ _ Hnb Epop) as [Hnb1 Hx].
    apply sq_push_no_bend; [exact Hnb1|cbn [se_ev]; exact Hx].
  - destruct (net_sample net nowt (se_client next)) as [[net1 nd] baseline].
    destruct (negb (se_pad next)); injection H as <- _ _;
      (apply sq_push_no_bend; [exact Hnb|cbn [se_ev]; discriminate]).
Qed.

Lemma apply_actions_inv : forall acts sd sq nowt ic sd' sq',
  sq_inv sq -> apply_actions acts sd sq nowt ic = Ok (sd', sq') -> sq_inv sq'.
Proof.
  induction acts as [|a rest IH]; intros sd sq nowt ic sd' sq' Hinv H; cbn [apply_actions] in H.
  - injection H as _ <-. exact Hinv.
  - mbind H as [sd1 sq1] E1. apply (IH sd1 sq1 nowt ic sd' sq'); [|exact H].
    destruct a.
    + mbind E1 as x Eg. injection E1 as _ <-. exact Hinv.
    + mbind E1 as x Eg. injection E1 as _ <-. exact Hinv.
    + mbind E1 as x Eg. injection E1 as _ <-. exact Hinv.
    + mbind E1 as cur Eg.
      match type of E1 with (if ?b then _ else _) = _ => destruct b end; injection E1 as _ <-;
        [|exact Hinv].
      apply sq_push_inv; [exact Hinv|cbn [se_ev]; discriminate].
Qed.

Theorem trigger_update_inv : forall cf tp sd p next nowt sq ic sd' sq' p',
  sq_inv sq -> trigger_update cf tp sd p next nowt sq ic = Ok (sd', sq', p') -> sq_inv sq'.
Proof.
  intros cf tp sd p next nowt sq ic sd' sq' p' Hinv H. unfold trigger_update in H.
  mbind H as [fw' acts] Et. mbind H as [sd1 sq1] Ea. injection H as _ <- _.
  eapply apply_actions_inv; [exact Hinv|exact Ea].
Qed.
