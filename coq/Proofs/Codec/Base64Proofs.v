(** Round trip of the base64 model: decoding an encoding gives back the bytes. *)
From MB Require Import Base.Prelude Model.Codec.Base64.
Open Scope N_scope.

(* [lia] extended with division / modulo by constants; the global zify hook is
   deliberately not redefined so that importing this file has no side effect *)
Ltac dlia := Zify.zify; Z.to_euclidean_division_equations; lia.

(** * Bounded exhaustive checking *)

Lemma N_lt_in_range (n : nat) (v : N) :
  v < N.of_nat n -> In v (map N.of_nat (seq 0 n)).
Proof.
  intros Hlt.
  rewrite <- (N2Nat.id v).
  apply in_map.
  apply in_seq.
  lia.
Qed.

Lemma forall_lt_check (P : N -> bool) (n : nat) :
  forallb P (map N.of_nat (seq 0 n)) = true ->
  forall v, v < N.of_nat n -> P v = true.
Proof.
  intros Hall v Hlt.
  rewrite forallb_forall in Hall.
  apply Hall.
  apply N_lt_in_range.
  exact Hlt.
Qed.

(** * Alphabet *)

Lemma b64_val_char (v : N) : v < 64 -> b64_val (b64_char v) = Some v.
Proof.
  intros Hlt.
  pose (P := fun v => match b64_val (b64_char v) with
                      | Some w => w =? v
                      | None => false
                      end).
  assert (HP : P v = true).
  { apply (forall_lt_check P 64).
    - vm_compute. reflexivity.
    - exact Hlt. }
  unfold P in HP.
  destruct (b64_val (b64_char v)) as [w|].
  - apply N.eqb_eq in HP. rewrite HP. reflexivity.
  - discriminate HP.
Qed.

Lemma b64_char_not_pad (v : N) : v < 64 -> (b64_char v =? B64_PAD) = false.
Proof.
  intros Hlt.
  pose (P := fun v => negb (b64_char v =? B64_PAD)).
  assert (HP : P v = true).
  { apply (forall_lt_check P 64).
    - vm_compute. reflexivity.
    - exact Hlt. }
  unfold P in HP.
  apply negb_true_iff in HP.
  exact HP.
Qed.

(** * Equations for the decoder *)

Lemma b64_decode_4 (a b c d : N) :
  b64_decode [a; b; c; d] = b64_decode_last a b c d.
Proof. reflexivity. Qed.

Lemma b64_decode_cons4 (a b c d h : N) (t : list N) :
  b64_decode (a :: b :: c :: d :: h :: t) =
  match b64_decode_quad a b c d, b64_decode (h :: t) with
  | Some x, Some y => Some (x ++ y)
  | _, _ => None
  end.
Proof. reflexivity. Qed.

Lemma b64_encode_3 (a b c : N) (rest : list N) :
  b64_encode (a :: b :: c :: rest) =
  b64_char (a / 4) :: b64_char ((a mod 4) * 16 + b / 16)
    :: b64_char ((b mod 16) * 4 + c / 64) :: b64_char (c mod 64)
    :: b64_encode rest.
Proof. reflexivity. Qed.

Lemma b64_encode_cons_shape (x : N) (l : list N) :
  exists h t, b64_encode (x :: l) = h :: t.
Proof.
  destruct l as [|y [|z l']].
  - eexists. eexists. reflexivity.
  - eexists. eexists. reflexivity.
  - eexists. eexists. rewrite b64_encode_3. reflexivity.
Qed.

(** * The three kinds of groups *)

Lemma b64_quad_roundtrip (a b c : N) :
  a < 256 -> b < 256 -> c < 256 ->
  b64_decode_quad (b64_char (a / 4)) (b64_char ((a mod 4) * 16 + b / 16))
                  (b64_char ((b mod 16) * 4 + c / 64)) (b64_char (c mod 64))
  = Some [a; b; c].
Proof.
  intros Ha Hb Hc.
  unfold b64_decode_quad.
  rewrite (b64_val_char (a / 4)) by dlia.
  rewrite (b64_val_char ((a mod 4) * 16 + b / 16)) by dlia.
  rewrite (b64_val_char ((b mod 16) * 4 + c / 64)) by dlia.
  rewrite (b64_val_char (c mod 64)) by dlia.
  assert (E1 : a / 4 * 4 + ((a mod 4) * 16 + b / 16) / 16 = a) by dlia.
  assert (E2 : ((a mod 4) * 16 + b / 16) mod 16 * 16
               + ((b mod 16) * 4 + c / 64) / 4 = b) by dlia.
  assert (E3 : ((b mod 16) * 4 + c / 64) mod 4 * 64 + c mod 64 = c) by dlia.
  rewrite E1, E2, E3.
  reflexivity.
Qed.

Lemma b64_last3_roundtrip (a b c : N) :
  a < 256 -> b < 256 -> c < 256 ->
  b64_decode_last (b64_char (a / 4)) (b64_char ((a mod 4) * 16 + b / 16))
                  (b64_char ((b mod 16) * 4 + c / 64)) (b64_char (c mod 64))
  = Some [a; b; c].
Proof.
  intros Ha Hb Hc.
  unfold b64_decode_last.
  rewrite (b64_char_not_pad (c mod 64)) by dlia.
  apply b64_quad_roundtrip; assumption.
Qed.

Lemma b64_last2_roundtrip (a b : N) :
  a < 256 -> b < 256 ->
  b64_decode_last (b64_char (a / 4)) (b64_char ((a mod 4) * 16 + b / 16))
                  (b64_char ((b mod 16) * 4)) B64_PAD
  = Some [a; b].
Proof.
  intros Ha Hb.
  unfold b64_decode_last.
  rewrite (N.eqb_refl B64_PAD).
  rewrite (b64_char_not_pad ((b mod 16) * 4)) by dlia.
  rewrite (b64_val_char (a / 4)) by dlia.
  rewrite (b64_val_char ((a mod 4) * 16 + b / 16)) by dlia.
  rewrite (b64_val_char ((b mod 16) * 4)) by dlia.
  assert (E0 : (b mod 16) * 4 mod 4 = 0) by dlia.
  assert (E1 : a / 4 * 4 + ((a mod 4) * 16 + b / 16) / 16 = a) by dlia.
  assert (E2 : ((a mod 4) * 16 + b / 16) mod 16 * 16 + (b mod 16) * 4 / 4 = b) by dlia.
  rewrite E0, E1, E2.
  reflexivity.
Qed.

Lemma b64_last1_roundtrip (a : N) :
  a < 256 ->
  b64_decode_last (b64_char (a / 4)) (b64_char ((a mod 4) * 16)) B64_PAD B64_PAD
  = Some [a].
Proof.
  intros Ha.
  unfold b64_decode_last.
  rewrite (N.eqb_refl B64_PAD).
  rewrite (b64_val_char (a / 4)) by dlia.
  rewrite (b64_val_char ((a mod 4) * 16)) by dlia.
  assert (E0 : (a mod 4) * 16 mod 16 = 0) by dlia.
  assert (E1 : a / 4 * 4 + (a mod 4) * 16 / 16 = a) by dlia.
  rewrite E0, E1.
  reflexivity.
Qed.

(** * Induction three elements at a time *)

Lemma list_ind3 (A : Type) (P : list A -> Prop) :
  P [] ->
  (forall a, P [a]) ->
  (forall a b, P [a; b]) ->
  (forall a b c rest, P rest -> P (a :: b :: c :: rest)) ->
  forall l, P l.
Proof.
  intros H0 H1 H2 H3.
  assert (Hall : forall l, P l /\ (forall x, P (x :: l)) /\ (forall x y, P (x :: y :: l))).
  { induction l as [|z l IHl].
    - split; [exact H0|]. split; [exact H1|exact H2].
    - destruct IHl as [IH0 [IH1 IH2]].
      split; [apply IH1|].
      split; [intros x; apply IH2|].
      intros x y. apply H3. exact IH0. }
  intros l. apply (Hall l).
Qed.

(** * Main theorem *)

Theorem b64_roundtrip :
  forall bs, Forall (fun b => b < 256) bs -> b64_decode (b64_encode bs) = Some bs.
Proof.
  intros bs.
  induction bs as [|a|a b|a b c rest IH] using list_ind3; intros Hall.
  - reflexivity.
  - inversion Hall as [|x l Ha _]; subst.
    cbn [b64_encode].
    rewrite b64_decode_4.
    apply b64_last1_roundtrip. exact Ha.
  - inversion Hall as [|x l Ha Hall1]; subst.
    inversion Hall1 as [|x l Hb _]; subst.
    cbn [b64_encode].
    rewrite b64_decode_4.
    apply b64_last2_roundtrip; assumption.
  - inversion Hall as [|x l Ha Hall1]; subst.
    inversion Hall1 as [|x l Hb Hall2]; subst.
    inversion Hall2 as [|x l Hc Hrest]; subst.
    rewrite b64_encode_3.
    destruct rest as [|r0 rest'].
    + cbn [b64_encode].
      rewrite b64_decode_4.
      apply b64_last3_roundtrip; assumption.
    + destruct (b64_encode_cons_shape r0 rest') as [h [t Hshape]].
      specialize (IH Hrest).
      rewrite Hshape in IH.
      rewrite Hshape.
      rewrite b64_decode_cons4.
      rewrite IH.
      rewrite b64_quad_roundtrip by assumption.
      reflexivity.
Qed.

(** The encoding of a byte list has length 4 * ceil(n / 3). *)
Lemma b64_encode_length (bs : list N) :
  length (b64_encode bs) = (4 * ((length bs + 2) / 3))%nat.
Proof.
  induction bs as [|a|a b|a b c rest IH] using list_ind3.
  - reflexivity.
  - reflexivity.
  - reflexivity.
  - rewrite b64_encode_3.
    cbn [length].
    rewrite IH.
    replace (S (S (S (length rest))) + 2)%nat with ((length rest + 2) + 1 * 3)%nat by lia.
    rewrite Nat.div_add by lia.
    lia.
Qed.
