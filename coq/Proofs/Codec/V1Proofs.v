(** Proofs about the v1 parser model (Model/Codec/V1.v):
    - [parse_v1_total] / [parse_v1_never_panics]: on every byte string
      [parse_v1] returns normally ([Ok _]): every slice, index and checked
      arithmetic operation of parsing.rs is in range.  No reachable panic was
      found; the length checks of [parse_v1] and [parse_state] cover every
      access.
    - [parse_state_total]: [parse_state] alone (it is [pub]) never panics
      either, for any buffer and any [num_states < 2^16].
    - [parse_v1_valid]: an accepted machine satisfies [validate_machine].
    - [parse_v1_shape]: the exact payload length of an accepted input.
    - examples: a payload of the crate's own test-suite is accepted (and
      gives the bytes observed on the real crate), a mutated one is rejected. *)
From MB Require Import Base.Prelude Base.Floats Model.Types Model.Validate
  Model.Codec.Bincode Model.Codec.V1 Proofs.Tactics Proofs.ListFacts.
Open Scope N_scope.

(** * Monad lemmas *)

Definition total {A} (o : outcome A) : Prop := exists a, o = Ok a.

Lemma total_ok : forall {A} (a : A), total (Ok a).
Proof. intros A a. exists a. reflexivity. Qed.

Lemma rbind_some : forall {A B} (e : outcome (option A)) (f : A -> outcome (option B)) b,
  rbind e f = Ok (Some b) -> exists a, e = Ok (Some a) /\ f a = Ok (Some b).
Proof.
  intros A B [[a|]|k|] f b H; cbn [rbind] in H; try discriminate. eauto.
Qed.

Lemma rbind_total : forall {A B} (e : outcome (option A)) (f : A -> outcome (option B)),
  total e -> (forall a, e = Ok (Some a) -> total (f a)) -> total (rbind e f).
Proof.
  intros A B e f [[a|] E] Hf; subst e; cbn [rbind].
  - apply Hf. reflexivity.
  - apply total_ok.
Qed.

(** * Slices *)

Lemma blen_skipn : forall (buf : list N) a, a <= blen buf -> blen (skipn (N.to_nat a) buf) = blen buf - a.
Proof. intros buf a H. unfold blen in *. rewrite skipn_length. lia. Qed.

Lemma blen_firstn : forall (buf : list N) n, n <= blen buf -> blen (firstn (N.to_nat n) buf) = n.
Proof. intros buf n H. unfold blen in *. rewrite firstn_length. lia. Qed.

Lemma In_skipn : forall {A} n (l : list A) x, In x (skipn n l) -> In x l.
Proof.
  intros A n l x H. rewrite <- (firstn_skipn n l). apply in_or_app. right. exact H.
Qed.

Lemma In_firstn : forall {A} n (l : list A) x, In x (firstn n l) -> In x l.
Proof.
  intros A n l x H. rewrite <- (firstn_skipn n l). apply in_or_app. left. exact H.
Qed.

Lemma slice_ok : forall buf a b, a <= b -> b <= blen buf ->
  exists s, slice buf a b = Ok s /\ blen s = b - a /\ (forall x, In x s -> In x buf).
Proof.
  intros buf a b Hab Hb. unfold slice.
  destruct (N.leb_spec a b) as [_|]; [|lia].
  destruct (N.leb_spec b (blen buf)) as [_|]; [|lia].
  cbn [andb]. eexists. split; [reflexivity|]. split.
  - rewrite blen_firstn; [reflexivity|]. rewrite blen_skipn; lia.
  - intros x Hx. apply In_firstn in Hx. apply In_skipn in Hx. exact Hx.
Qed.

Lemma slice_inv : forall buf a b s, slice buf a b = Ok s ->
  a <= b /\ b <= blen buf /\ blen s = b - a /\ (forall x, In x s -> In x buf).
Proof.
  intros buf a b s H. unfold slice in H.
  destruct (N.leb_spec a b) as [Hab|]; [|discriminate].
  destruct (N.leb_spec b (blen buf)) as [Hb|]; [|discriminate].
  destruct (slice_ok buf a b Hab Hb) as (s' & E & L & I).
  unfold slice in E.
  destruct (N.leb_spec a b) as [_|]; [|lia].
  destruct (N.leb_spec b (blen buf)) as [_|]; [|lia].
  cbn [andb] in H, E. rewrite H in E. inversion E; subst s'. auto.
Qed.

Lemma slice_from_ok : forall buf a, a <= blen buf ->
  exists s, slice_from buf a = Ok s /\ blen s = blen buf - a.
Proof.
  intros buf a H. unfold slice_from.
  destruct (N.leb_spec a (blen buf)) as [_|]; [|lia].
  eexists. split; [reflexivity|]. apply blen_skipn. exact H.
Qed.

Lemma read_le_ok : forall n buf, n <= blen buf -> exists v, read_le n buf = Ok v.
Proof.
  intros n buf H. unfold read_le.
  destruct (slice_ok buf 0 n) as (s & E & _); [lia|lia|].
  rewrite E. cbn [bind]. eexists. reflexivity.
Qed.

Lemma le_val_lt : forall bs, (forall x, In x bs -> x < 256) -> le_val bs < 256 ^ blen bs.
Proof.
  induction bs as [|b t IH]; intros H.
  - cbn. lia.
  - cbn [le_val]. unfold blen in *. cbn [length]. rewrite Nat2N.inj_succ, N.pow_succ_r'.
    assert (Hb : b < 256) by (apply H; left; reflexivity).
    assert (Ht : le_val t < 256 ^ N.of_nat (length t)).
    { apply IH. intros x Hx. apply H. right. exact Hx. }
    lia.
Qed.

Lemma read_le_lt : forall n buf v, (forall x, In x buf -> x < 256) ->
  read_le n buf = Ok v -> v < 256 ^ n.
Proof.
  intros n buf v Hb H. unfold read_le in H.
  apply bind_ok in H as (s & Es & H). inversion H; subst v.
  apply slice_inv in Es as (_ & _ & L & I).
  replace n with (blen s) by lia. apply le_val_lt.
  intros x Hx. apply Hb. apply I. exact Hx.
Qed.

Lemma index_ok : forall buf i, i < blen buf -> exists b, index buf i = Ok b.
Proof. intros buf i H. unfold index. apply getN_lt. exact H. Qed.

(** the goal starts with [bind (slice buf a b) _]: discharge the bounds with
    [lia] and continue with the slice *)
Ltac step_slice :=
  match goal with
  | |- total (bind (slice ?buf ?a ?b) _) =>
      let s := fresh "s" in let Es := fresh "Es" in
      let Ls := fresh "Ls" in let Is := fresh "Is" in
      destruct (slice_ok buf a b) as (s & Es & Ls & Is);
      [lia | lia | rewrite Es; cbn [bind]]
  end.

Ltac step_read :=
  match goal with
  | |- total (bind (read_le ?n ?s) _) =>
      let v := fresh "v" in let Ev := fresh "Ev" in
      destruct (read_le_ok n s) as (v & Ev); [lia | rewrite Ev; cbn [bind]]
  end.

Ltac step_index :=
  match goal with
  | |- total (bind (index ?buf ?i) _) =>
      let b := fresh "b" in let Eb := fresh "Eb" in
      destruct (index_ok buf i) as (b & Eb); [lia | rewrite Eb; cbn [bind]]
  end.

(** * [state_len] *)

Lemma state_len_ok : forall n, n < 65536 -> state_len n = Ok (106 + 64 * (n + 2)).
Proof.
  intros n H. unfold state_len, uadd, umul, USIZE_MAX, V1_EVENTS_LEN, SERIALIZED_DIST_SIZE.
  destruct (N.leb_spec (n + 2) 18446744073709551615) as [_|]; [|lia]. cbn [bind].
  destruct (N.leb_spec ((n + 2) * 8) 18446744073709551615) as [_|]; [|lia]. cbn [bind].
  destruct (N.leb_spec ((n + 2) * 8 * (7 + 1)) 18446744073709551615) as [_|]; [|lia]. cbn [bind].
  destruct (N.leb_spec (3 * 34 + 4 + (n + 2) * 8 * (7 + 1)) 18446744073709551615) as [_|]; [|lia].
  f_equal. lia.
Qed.

(** * [parse_dist] *)

Lemma parse_dist_total : forall buf, total (parse_dist buf).
Proof.
  intros buf. unfold parse_dist, SERIALIZED_DIST_SIZE, rerr, rok.
  destruct (N.ltb_spec (blen buf) 34) as [|Hlen]; [apply total_ok|].
  do 5 (step_slice; step_read).
  destruct (buf_to_dist_type _ _ _); apply total_ok.
Qed.

(** * The loops of [parse_state] *)

Lemma trans_loop_total : forall buf n cnt i r acc,
  r + 8 * N.of_nat cnt <= blen buf ->
  exists res, trans_loop buf n cnt i r acc = Ok res /\
    match res with
    | Some (r', _) => r' = r + 8 * N.of_nat cnt
    | None => True
    end.
Proof.
  intros buf n cnt. induction cnt as [|cnt IH]; intros i r acc H.
  - cbn [trans_loop]. unfold rok. eexists. split; [reflexivity|]. cbn. lia.
  - cbn [trans_loop]. rewrite Nat2N.inj_succ in *.
    destruct (slice_ok buf r (r + 8)) as (s & Es & Ls & _); [lia|lia|].
    rewrite Es. cbn [bind].
    destruct (read_le_ok 8 s) as (v & Ev); [lia|]. rewrite Ev. cbn [bind].
    destruct (negb (feq (f64_of_bits v) f64_zero)).
    + destruct (i ?= n).
      * unfold rerr. eexists. split; [reflexivity|exact I].
      * destruct (IH (i + 1) (r + 8) ((i, f64_to_f32_bits v) :: acc)) as (res & E & P); [lia|].
        exists res. split; [exact E|]. destruct res as [[r' vec]|]; [lia|exact I].
      * destruct (IH (i + 1) (r + 8) ((STATE_END, f64_to_f32_bits v) :: acc)) as (res & E & P); [lia|].
        exists res. split; [exact E|]. destruct res as [[r' vec]|]; [lia|exact I].
    + destruct (IH (i + 1) (r + 8) acc) as (res & E & P); [lia|].
      exists res. split; [exact E|]. destruct res as [[r' vec]|]; [lia|exact I].
Qed.

Lemma events_loop_total : forall buf n evs r em,
  r + (8 * (n + 2)) * N.of_nat (length evs) <= blen buf ->
  total (events_loop buf n evs r em).
Proof.
  intros buf n evs. induction evs as [|e evs IH]; intros r em H.
  - cbn [events_loop]. apply total_ok.
  - cbn [events_loop]. cbn [length] in H. rewrite Nat2N.inj_succ, N.mul_succ_r in H.
    destruct (trans_loop_total buf n (N.to_nat (n + 2)) 0 r []) as (res & E & P).
    { rewrite N2Nat.id. lia. }
    rewrite E. destruct res as [[r' vec]|]; cbn [rbind]; [|apply total_ok].
    apply IH. rewrite N2Nat.id in P. lia.
Qed.

(** * [parse_state]: total on every buffer *)

Theorem parse_state_total : forall buf n, n < 65536 -> total (parse_state buf n).
Proof.
  intros buf n Hn. unfold parse_state. rewrite (state_len_ok n Hn). cbn [bind].
  unfold SERIALIZED_DIST_SIZE, rerr, rok.
  destruct (N.ltb_spec (blen buf) (106 + 64 * (n + 2))) as [|Hlen]; [apply total_ok|].
  cbv zeta.
  step_slice. apply rbind_total; [apply parse_dist_total|]. intros duration _.
  step_slice. apply rbind_total; [apply parse_dist_total|]. intros limit _.
  step_slice. apply rbind_total; [apply parse_dist_total|]. intros timeout _.
  do 3 step_index.
  apply rbind_total.
  { destruct timeout as [t|]; [|apply total_ok].
    destruct (b =? 1); [|apply total_ok].
    destruct duration; apply total_ok. }
  intros action _.
  apply rbind_total; [|intros em _; apply total_ok].
  apply events_loop_total.
  change (N.of_nat (length V1_EVENTS)) with 7. lia.
Qed.

Corollary parse_state_never_panics : forall buf n k, n < 65536 -> parse_state buf n <> Panic k.
Proof. intros buf n k Hn. destruct (parse_state_total buf n Hn) as (r & E). rewrite E. discriminate. Qed.

(** * [parse_v1] *)

Lemma states_loop_total : forall buf n esl cnt r acc, n < 65536 ->
  r + esl * N.of_nat cnt <= blen buf ->
  total (states_loop buf n esl cnt r acc).
Proof.
  intros buf n esl cnt. induction cnt as [|cnt IH]; intros r acc Hn H.
  - cbn [states_loop]. apply total_ok.
  - cbn [states_loop]. rewrite Nat2N.inj_succ, N.mul_succ_r in H.
    step_slice.
    apply rbind_total; [apply parse_state_total; exact Hn|]. intros st _.
    apply IH; [exact Hn|lia].
Qed.

Lemma machine_new_total : forall a b c d s, total (machine_new a b c d s).
Proof. intros. unfold machine_new. destruct (validate_machine _); apply total_ok. Qed.

Theorem parse_v1_total : forall bytes, (forall b, In b bytes -> b < 256) -> total (parse_v1 bytes).
Proof.
  intros buf Hb. unfold parse_v1, rerr.
  destruct (N.ltb_spec (blen buf) (4 * 8 + 1 + 2)) as [|Hlen]; [apply total_ok|].
  cbv zeta.
  do 4 (step_slice; step_read).
  step_slice.
  destruct (read_le_ok 2 s3) as (n & En); [lia|]. rewrite En. cbn [bind].
  assert (Hn : n < 65536).
  { change 65536 with (256 ^ 2). apply (read_le_lt 2 s3); [|exact En].
    intros x Hx. apply Hb. apply Is3. exact Hx. }
  rewrite (state_len_ok n Hn). cbn [bind].
  destruct (slice_from_ok buf (0 + 8 + 8 + 8 + 8 + 1 + 2)) as (rest & Er & Lr); [lia|].
  rewrite Er. cbn [bind].
  assert (Hmul : (106 + 64 * (n + 2)) * n <= 4194474 * 65535).
  { apply N.mul_le_mono; lia. }
  unfold umul, USIZE_MAX.
  destruct (N.leb_spec ((106 + 64 * (n + 2)) * n) 18446744073709551615) as [_|Hov].
  2:{ exfalso. revert Hov. apply N.le_ngt. etransitivity; [exact Hmul|]. vm_compute. discriminate. }
  cbn [bind].
  destruct (N.eqb_spec (blen rest) ((106 + 64 * (n + 2)) * n)) as [Heq|]; cbn [negb]; [|apply total_ok].
  apply rbind_total; [|intros sts _; apply machine_new_total].
  apply states_loop_total; [exact Hn|].
  rewrite N2Nat.id. lia.
Qed.

(** The requested statement.  It holds: no byte string makes [parse_v1] panic. *)
Theorem parse_v1_never_panics : forall bytes, (forall b, In b bytes -> b < 256) ->
  forall k, parse_v1 bytes <> Panic k.
Proof.
  intros bytes Hb k. destruct (parse_v1_total bytes Hb) as (r & E). rewrite E. discriminate.
Qed.

Corollary parse_v1_fuel : forall bytes, (forall b, In b bytes -> b < 256) -> parse_v1 bytes <> OutOfFuel.
Proof.
  intros bytes Hb. destruct (parse_v1_total bytes Hb) as (r & E). rewrite E. discriminate.
Qed.

(** the harness never reports a panic *)
Corollary run_v1_not_9 : forall bytes, (forall b, In b bytes -> b < 256) -> run_v1 bytes <> [9].
Proof.
  intros bytes Hb. unfold run_v1. destruct (parse_v1_total bytes Hb) as ([m|] & E); rewrite E; discriminate.
Qed.

(** * Accepted machines are valid *)

Theorem parse_v1_valid : forall bytes m, parse_v1 bytes = Ok (Some m) -> validate_machine m = true.
Proof.
  intros buf m H. unfold parse_v1, rerr in H.
  destruct (blen buf <? 4 * 8 + 1 + 2); [discriminate|].
  cbv zeta in H.
  repeat (apply bind_ok in H as (? & _ & H)).
  destruct (negb _); [discriminate|].
  apply rbind_some in H as (sts & _ & H).
  unfold machine_new, rok, rerr in H.
  destruct (validate_machine _) eqn:V; [|discriminate].
  inversion H; subst m. exact V.
Qed.

(** * Shape of an accepted payload *)

Lemma states_loop_length : forall buf n esl cnt r acc sts,
  states_loop buf n esl cnt r acc = Ok (Some sts) -> length sts = (cnt + length acc)%nat.
Proof.
  intros buf n esl cnt. induction cnt as [|cnt IH]; intros r acc sts H; cbn [states_loop] in H.
  - unfold rok in H. inversion H; subst sts. rewrite rev_length. reflexivity.
  - apply bind_ok in H as (s & _ & H).
    apply rbind_some in H as (st & _ & H).
    apply IH in H. cbn [length] in H. lia.
Qed.

Lemma ser_le_2_le_val : forall b0 b1, b0 < 256 -> b1 < 256 ->
  ser_le 2 (le_val [b0; b1]) = [b0; b1].
Proof.
  intros b0 b1 H0 H1. cbn [ser_le le_val].
  rewrite N.mul_0_r, N.add_0_r.
  assert (E0 : (b0 + 256 * b1) mod 256 = b0).
  { rewrite N.mul_comm, N.mod_add by lia. apply N.mod_small. exact H0. }
  assert (E1 : (b0 + 256 * b1) / 256 = b1).
  { rewrite N.mul_comm, N.div_add by lia. rewrite (N.div_small b0) by exact H0. lia. }
  rewrite E0, E1. rewrite (N.mod_small b1) by exact H1. reflexivity.
Qed.

(** an accepted payload has [n] in 1..65535 states, announces [n] in its
    bytes 33..34, and is exactly [35 + n * (106 + 64 * (n + 2))] bytes long *)
Theorem parse_v1_shape : forall bytes m, (forall b, In b bytes -> b < 256) ->
  parse_v1 bytes = Ok (Some m) ->
  let n := N.of_nat (length (states m)) in
  0 < n < 65536 /\ blen bytes = 35 + n * (106 + 64 * (n + 2)) /\
  slice bytes 33 35 = Ok (ser_le 2 n).
Proof.
  intros buf m Hb H. pose proof (parse_v1_valid buf m H) as V.
  unfold parse_v1, rerr in H.
  destruct (N.ltb_spec (blen buf) (4 * 8 + 1 + 2)) as [|Hlen]; [discriminate|].
  cbv zeta in H.
  do 8 (apply bind_ok in H as (? & _ & H)).
  apply bind_ok in H as (s & Es & H).
  apply bind_ok in H as (n & En & H).
  assert (Hn : n < 65536).
  { change 65536 with (256 ^ 2). apply (read_le_lt 2 s); [|exact En].
    intros y Hy. apply Hb. apply slice_inv in Es as (_ & _ & _ & I). apply I. exact Hy. }
  rewrite (state_len_ok n Hn) in H. cbn [bind] in H.
  apply bind_ok in H as (rest & Er & H).
  apply bind_ok in H as (tot & Et & H).
  assert (Etot : tot = (106 + 64 * (n + 2)) * n).
  { unfold umul in Et.
    match type of Et with (if ?c then _ else _) = _ => destruct c end; [|discriminate].
    congruence. }
  subst tot. clear Et.
  destruct (N.eqb_spec (blen rest) ((106 + 64 * (n + 2)) * n)) as [Heq|]; cbn [negb] in H; [|discriminate].
  apply rbind_some in H as (sts & Hs & H).
  apply states_loop_length in Hs. cbn [length] in Hs. rewrite Nat.add_0_r in Hs.
  unfold machine_new, rok, rerr in H. destruct (validate_machine _); [|discriminate].
  inversion H; subst m. cbn [states]. rewrite Hs, N2Nat.id.
  destruct (slice_from_ok buf (0 + 8 + 8 + 8 + 8 + 1 + 2)) as (rest' & Er' & Lr); [lia|].
  rewrite Er in Er'. inversion Er'; subst rest'.
  split.
  - unfold validate_machine in V. cbn [states] in V. rewrite Hs, N2Nat.id in V.
    split_andb. destruct (N.ltb_spec 0 n); [lia|discriminate].
  - split; [lia|].
    change (0 + 8 + 8 + 8 + 8 + 1) with 33 in Es. change (33 + 2) with 35 in Es.
    rewrite Es. f_equal.
    pose proof Es as Es'. apply slice_inv in Es' as (_ & _ & Ls & Is).
    assert (L2 : length s = 2%nat) by (unfold blen in Ls; lia).
    destruct s as [|b0 [|b1 [|b2 t]]]; try discriminate L2.
    assert (H0 : b0 < 256) by (apply Hb, Is; left; reflexivity).
    assert (H1 : b1 < 256) by (apply Hb, Is; right; left; reflexivity).
    assert (En' : read_le 2 [b0; b1] = Ok (le_val [b0; b1])) by reflexivity.
    rewrite En in En'. injection En' as En'. rewrite En'.
    symmetry. apply ser_le_2_le_val; assumption.
Qed.

(** * Examples *)

(** the float cast on a few values: 1.0, 0.5, 0.1 (rounds up to 0x3DCCCCCD),
    1 + 2^-24 (ties to even: 1.0), 1e39 (overflows to +inf),
    2^-149 (the smallest f32 subnormal), 2^-150 (ties to even: 0.0) *)
Example cast_one : f64_to_f32_bits 4607182418800017408 = 1065353216.
Proof. vm_compute. reflexivity. Qed.
Example cast_half : f64_to_f32_bits 4602678819172646912 = 1056964608.
Proof. vm_compute. reflexivity. Qed.
Example cast_tenth : f64_to_f32_bits 4591870180066957722 = 1036831949.
Proof. vm_compute. reflexivity. Qed.
Example cast_tie : f64_to_f32_bits 4607182419068452864 = 1065353216.
Proof. vm_compute. reflexivity. Qed.
Example cast_big : f64_to_f32_bits 5183643171103440592 = 2139095040.
Proof. vm_compute. reflexivity. Qed.
Example cast_min_sub : f64_to_f32_bits 3936146074321813504 = 1.
Proof. vm_compute. reflexivity. Qed.
Example cast_half_min_sub : f64_to_f32_bits 3931642474694443008 = 0.
Proof. vm_compute. reflexivity. Qed.

Definition zeros (n : nat) : list N := repeat 0 n.
Definition f64_1 : list N := [0; 0; 0; 0; 0; 0; 240; 63].

(** The payload (after the two version bytes) of the second machine of the
    crate's own test [test_parse_v1_machine], inflated from the hex string
    "789cd5cf...1b66": limits u64::MAX / 0.0 / u64::MAX / 0.0, flag 1, two
    states of 362 = 106 + 64 * 4 bytes each.
    State 0: no distributions, no flags; rows NormalRecv, PaddingRecv,
    NormalSent, PaddingSent each [0.0, 1.0, 0.0, 0.0] (to state 1).
    State 1: duration and limit absent, timeout Uniform{1500000.0,
    9500000.0} start 1.0 max 0.0, no flags; rows NormalSent and PaddingSent
    [0.0, 1.0, 0.0, 0.0] (to state 1).  The eighth row of each matrix is
    never read. *)
Definition ex_v1_payload : list N :=
  repeat 255 8 ++ zeros 8 ++ repeat 255 8 ++ zeros 8 ++ [1] ++ [2; 0]
  (* state 0 *)
  ++ zeros 34 ++ zeros 34 ++ zeros 34 ++ [0; 0; 0; 0]
  ++ (zeros 8 ++ f64_1 ++ zeros 16) ++ (zeros 8 ++ f64_1 ++ zeros 16)
  ++ (zeros 8 ++ f64_1 ++ zeros 16) ++ (zeros 8 ++ f64_1 ++ zeros 16)
  ++ zeros 128
  (* state 1 *)
  ++ zeros 34 ++ zeros 34
  ++ ([1; 0] ++ [0; 0; 0; 0; 96; 227; 54; 65] ++ [0; 0; 0; 0; 172; 30; 98; 65] ++ f64_1 ++ zeros 8)
  ++ [0; 0; 0; 0]
  ++ zeros 64
  ++ (zeros 8 ++ f64_1 ++ zeros 16) ++ (zeros 8 ++ f64_1 ++ zeros 16)
  ++ zeros 128.

Example ex_v1_len : length ex_v1_payload = 759%nat.
Proof. vm_compute. reflexivity. Qed.

Definition ex_v1_machine : machine :=
  mkmachine U64_MAX 0 U64_MAX 0
    [mkstate None None None
       [Some [(1, 1065353216)]; Some [(1, 1065353216)]; None; Some [(1, 1065353216)];
        Some [(1, 1065353216)]; None; None; None; None; None; None; None; None];
     mkstate
       (Some (SendPadding false false
                (mkdist (Uniform 4699193262664056832 4711361884266168320) 4607182418800017408 0)
                None))
       None None
       [None; None; None; Some [(1, 1065353216)]; Some [(1, 1065353216)]; None; None; None;
        None; None; None; None; None]].

Example ex_v1_accepted : parse_v1 ex_v1_payload = Ok (Some ex_v1_machine).
Proof. vm_compute. reflexivity. Qed.

(** the bincode bytes printed by the real crate for this machine (scratch
    program calling [maybenot::parsing::parse_v1_machine] on the hex string,
    then [bincode::DefaultOptions::new().with_limit(1 << 20).serialize]) *)
Example ex_v1_run : run_v1 ex_v1_payload =
  [1; 253; 255; 255; 255; 255; 255; 255; 255; 255; 0; 0; 0; 0; 0; 0; 0; 0;
   253; 255; 255; 255; 255; 255; 255; 255; 255; 0; 0; 0; 0; 0; 0; 0; 0; 2;
   0; 0; 0; 1; 1; 1; 0; 0; 128; 63; 1; 1; 1; 0; 0; 128; 63; 0; 1; 1; 1; 0; 0; 128; 63;
   1; 1; 1; 0; 0; 128; 63; 0; 0; 0; 0; 0; 0; 0; 0;
   1; 1; 0; 0; 0; 0; 0; 0; 0; 96; 227; 54; 65; 0; 0; 0; 0; 172; 30; 98; 65;
   0; 0; 0; 0; 0; 0; 240; 63; 0; 0; 0; 0; 0; 0; 0; 0; 0; 0; 0; 0; 0; 0;
   1; 1; 1; 0; 0; 128; 63; 1; 1; 1; 0; 0; 128; 63; 0; 0; 0; 0; 0; 0; 0; 0].
Proof. vm_compute. reflexivity. Qed.

(** rejected: the same payload with one byte removed ("expected 724 bytes for
    2 states, but got 723 bytes"); with the entry [i = num_states] of a row
    set ("invalid state, not supported in v2"); an empty payload; a payload
    that announces a state but stops after the header *)
Example ex_v1_short : parse_v1 (removelast ex_v1_payload) = Ok None.
Proof. vm_compute. reflexivity. Qed.

Example ex_v1_cancel_state :
  parse_v1 (firstn (35 + 106 + 16) ex_v1_payload ++ f64_1
              ++ skipn (35 + 106 + 24) ex_v1_payload) = Ok None.
Proof. vm_compute. reflexivity. Qed.

Example ex_v1_empty : parse_v1 [] = Ok None.
Proof. vm_compute. reflexivity. Qed.

Example ex_v1_header_only : run_v1 (zeros 33 ++ [1; 0]) = [0].
Proof. vm_compute. reflexivity. Qed.

(** targets are [i < num_states] or STATE_END by construction, so the target
    check of [validate_machine] cannot fail on a v1 machine; but a row whose
    f32 sum exceeds 1 (here [1.0, 1.0, 0, 0]) is rejected by it *)
Example ex_v1_sum_too_big :
  parse_v1 (firstn (35 + 106) ex_v1_payload ++ f64_1
              ++ skipn (35 + 106 + 8) ex_v1_payload) = Ok None.
Proof. vm_compute. reflexivity. Qed.

(** Side remark (a functional oddity, not a panic): [buf_to_dist_type] maps
    type 7 to [Poisson { lambda: 0.0 }] (and type 5 to [Geometric {
    probability: 0.0 }]) whatever the parameters in the payload.
    [Poisson::new(0.0)] fails ("lambda is not positive"), so a v1 machine
    whose action uses a Poisson distribution is always rejected by
    [Machine::new]; the Geometric one is accepted with probability 0. *)
Example v1_poisson_never_valid : forall s m, validate_dist (mkdist (Poisson 0) s m) = false.
Proof. intros s m. vm_compute. reflexivity. Qed.

Example v1_geometric_valid : forall s m, validate_dist (mkdist (Geometric 0) s m) = true.
Proof. intros s m. vm_compute. reflexivity. Qed.

(** the accepted payload with the timeout of state 1 changed to type 7 *)
Example ex_v1_poisson_rejected :
  parse_v1 (firstn (35 + 362 + 68) ex_v1_payload ++ [7]
              ++ skipn (35 + 362 + 69) ex_v1_payload) = Ok None.
Proof. vm_compute. reflexivity. Qed.

(** ... and to type 5: accepted *)
Example ex_v1_geometric_accepted :
  exists m, parse_v1 (firstn (35 + 362 + 68) ex_v1_payload ++ [5]
                        ++ skipn (35 + 362 + 69) ex_v1_payload) = Ok (Some m).
Proof. eexists. vm_compute. reflexivity. Qed.
