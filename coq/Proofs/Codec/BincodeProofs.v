(** Round trip of the bincode model: every decoder consumes exactly what the
    corresponding encoder produced and returns the encoded value. *)
From MB Require Import Base.Prelude Model.Types Model.Codec.Bincode.
Open Scope N_scope.

(** * Little endian literals *)

Lemma ser_le_length (n : nat) (v : N) : length (ser_le n v) = n.
Proof.
  revert v.
  induction n as [|n IHn]; intros v.
  - reflexivity.
  - cbn [ser_le length]. rewrite IHn. reflexivity.
Qed.

Lemma de_le_ok (n : nat) :
  forall v rest, v < 256 ^ N.of_nat n -> de_le n (ser_le n v ++ rest) = Some (v, rest).
Proof.
  induction n as [|n IHn]; intros v rest Hv.
  - cbn [ser_le de_le app].
    change (256 ^ N.of_nat 0) with 1 in Hv.
    assert (E : v = 0) by lia.
    rewrite E. reflexivity.
  - cbn [ser_le de_le app].
    rewrite Nat2N.inj_succ in Hv.
    rewrite N.pow_succ_r' in Hv.
    assert (Hq : v / 256 < 256 ^ N.of_nat n).
    { apply N.div_lt_upper_bound.
      - lia.
      - exact Hv. }
    rewrite (IHn (v / 256) rest Hq).
    assert (E : v mod 256 + 256 * (v / 256) = v).
    { rewrite N.add_comm. symmetry. apply N.div_mod'. }
    rewrite E. reflexivity.
Qed.

Lemma de_le2_ok v rest : v < TWO16 -> de_le 2 (ser_le 2 v ++ rest) = Some (v, rest).
Proof. intros Hv. apply de_le_ok. exact Hv. Qed.

Lemma de_le4_ok v rest : v < TWO32 -> de_le 4 (ser_le 4 v ++ rest) = Some (v, rest).
Proof. intros Hv. apply de_le_ok. exact Hv. Qed.

Lemma de_le8_ok v rest : v < TWO64 -> de_le 8 (ser_le 8 v ++ rest) = Some (v, rest).
Proof. intros Hv. apply de_le_ok. exact Hv. Qed.

(** * Varint *)

Lemma de_varint_small b t : b < 251 -> de_varint (b :: t) = Some (b, t).
Proof.
  intros Hb. unfold de_varint.
  apply N.ltb_lt in Hb. rewrite Hb. reflexivity.
Qed.

Lemma de_varint_251 t : de_varint (251 :: t) = de_le 2 t.
Proof. reflexivity. Qed.

Lemma de_varint_252 t : de_varint (252 :: t) = de_le 4 t.
Proof. reflexivity. Qed.

Lemma de_varint_253 t : de_varint (253 :: t) = de_le 8 t.
Proof. reflexivity. Qed.

Lemma de_varint_ok v rest :
  u64_ok v -> de_varint (ser_varint v ++ rest) = Some (v, rest).
Proof.
  unfold u64_ok. intros Hv.
  unfold ser_varint.
  destruct (N.ltb_spec v 251) as [H1|H1].
  - cbn [app]. apply de_varint_small. exact H1.
  - destruct (N.ltb_spec v TWO16) as [H2|H2].
    + cbn [app]. rewrite de_varint_251. apply de_le2_ok. exact H2.
    + destruct (N.ltb_spec v TWO32) as [H3|H3].
      * cbn [app]. rewrite de_varint_252. apply de_le4_ok. exact H3.
      * cbn [app]. rewrite de_varint_253. apply de_le8_ok. exact Hv.
Qed.

Lemma ser_varint_nonempty v : (1 <= length (ser_varint v))%nat.
Proof.
  unfold ser_varint.
  destruct (v <? 251); [cbn [length]; lia|].
  destruct (v <? TWO16); [cbn [length]; lia|].
  destruct (v <? TWO32); cbn [length]; lia.
Qed.

Lemma de_u64_ok v rest : u64_ok v -> de_u64 (ser_u64 v ++ rest) = Some (v, rest).
Proof. exact (de_varint_ok v rest). Qed.

Lemma u32_ok_u64_ok v : u32_ok v -> u64_ok v.
Proof. unfold u32_ok, u64_ok, TWO32, TWO64. lia. Qed.

Lemma de_u32_ok v rest : u32_ok v -> de_u32 (ser_u32 v ++ rest) = Some (v, rest).
Proof.
  intros Hv.
  unfold de_u32, ser_u32, pbind.
  rewrite de_varint_ok by (apply u32_ok_u64_ok; exact Hv).
  unfold u32_ok in Hv. apply N.ltb_lt in Hv. rewrite Hv.
  reflexivity.
Qed.

(** * Floats *)

Lemma de_f64_ok v rest : u64_ok v -> de_f64 (ser_f64 v ++ rest) = Some (v, rest).
Proof. exact (de_le8_ok v rest). Qed.

Lemma de_f32_ok v rest : u32_ok v -> de_f32 (ser_f32 v ++ rest) = Some (v, rest).
Proof. exact (de_le4_ok v rest). Qed.

(** * bool, Option *)

Lemma de_bool_ok b rest : de_bool (ser_bool b ++ rest) = Some (b, rest).
Proof. destruct b; reflexivity. Qed.

Lemma de_option_tag0 {A} (p : parser A) t : de_option p (0 :: t) = Some (None, t).
Proof. reflexivity. Qed.

Lemma de_option_tag1 {A} (p : parser A) t :
  de_option p (1 :: t) =
  match p t with
  | Some (x, r) => Some (Some x, r)
  | None => None
  end.
Proof. reflexivity. Qed.

Lemma de_option_ok {A} (f : A -> list N) (p : parser A) (P : A -> Prop) :
  (forall x rest, P x -> p (f x ++ rest) = Some (x, rest)) ->
  forall o rest, wf_option P o ->
                 de_option p (ser_option f o ++ rest) = Some (o, rest).
Proof.
  intros Hp o rest Ho.
  destruct o as [x|].
  - cbn [ser_option app wf_option] in *.
    rewrite de_option_tag1.
    rewrite (Hp x rest Ho).
    reflexivity.
  - cbn [ser_option app].
    apply de_option_tag0.
Qed.

Lemma ser_option_nonempty {A} (f : A -> list N) o : (1 <= length (ser_option f o))%nat.
Proof. destruct o; cbn [ser_option length]; lia. Qed.

(** * Sequences *)

Lemma ser_seq_cons {A} (f : A -> list N) x l : ser_seq f (x :: l) = f x ++ ser_seq f l.
Proof. reflexivity. Qed.

Lemma ser_seq_length_ge {A} (f : A -> list N) :
  (forall x, (1 <= length (f x))%nat) ->
  forall l, (length l <= length (ser_seq f l))%nat.
Proof.
  intros Hf l.
  induction l as [|x l IHl].
  - cbn [length]. lia.
  - rewrite ser_seq_cons. rewrite app_length. cbn [length].
    specialize (Hf x). lia.
Qed.

Lemma de_arr_ok {A} (f : A -> list N) (p : parser A) (P : A -> Prop) :
  (forall x rest, P x -> p (f x ++ rest) = Some (x, rest)) ->
  forall l rest, Forall P l ->
                 de_arr p (length l) (ser_seq f l ++ rest) = Some (l, rest).
Proof.
  intros Hp l.
  induction l as [|x l IHl]; intros rest Hall.
  - reflexivity.
  - inversion Hall as [|x' l' Hx Hl]; subst.
    rewrite ser_seq_cons. rewrite <- app_assoc.
    cbn [length de_arr].
    rewrite (Hp x _ Hx).
    rewrite (IHl rest Hl).
    reflexivity.
Qed.

Lemma de_rep_zero {A} (p : parser A) fuel bs : de_rep p fuel 0 bs = Some ([], bs).
Proof. destruct fuel; reflexivity. Qed.

Lemma de_rep_succ {A} (p : parser A) fuel n bs :
  n <> 0 ->
  de_rep p (S fuel) n bs =
  match p bs with
  | Some (x, r) =>
      match de_rep p fuel (N.pred n) r with
      | Some (xs, r') => Some (x :: xs, r')
      | None => None
      end
  | None => None
  end.
Proof.
  intros Hn.
  cbn [de_rep].
  apply N.eqb_neq in Hn. rewrite Hn.
  reflexivity.
Qed.

Lemma de_rep_ok {A} (f : A -> list N) (p : parser A) (P : A -> Prop) :
  (forall x rest, P x -> p (f x ++ rest) = Some (x, rest)) ->
  forall l fuel rest,
    Forall P l -> (length l <= fuel)%nat ->
    de_rep p fuel (N.of_nat (length l)) (ser_seq f l ++ rest) = Some (l, rest).
Proof.
  intros Hp l.
  induction l as [|x l IHl]; intros fuel rest Hall Hfuel.
  - cbn [length]. apply de_rep_zero.
  - inversion Hall as [|x' l' Hx Hl]; subst.
    cbn [length] in *.
    destruct fuel as [|fuel]; [lia|].
    rewrite de_rep_succ by lia.
    rewrite ser_seq_cons. rewrite <- app_assoc.
    rewrite (Hp x _ Hx).
    replace (N.pred (N.of_nat (S (length l)))) with (N.of_nat (length l)) by lia.
    rewrite (IHl fuel rest Hl) by lia.
    reflexivity.
Qed.

Lemma de_vec_ok {A} (f : A -> list N) (p : parser A) (P : A -> Prop) :
  (forall x rest, P x -> p (f x ++ rest) = Some (x, rest)) ->
  (forall x, (1 <= length (f x))%nat) ->
  forall l rest,
    len_ok l -> Forall P l ->
    de_vec p (ser_vec f l ++ rest) = Some (l, rest).
Proof.
  intros Hp Hf l rest Hlen Hall.
  unfold de_vec, ser_vec.
  rewrite <- app_assoc.
  rewrite de_u64_ok by exact Hlen.
  apply (de_rep_ok f p P Hp); [exact Hall|].
  rewrite app_length.
  pose proof (ser_seq_length_ge f Hf l) as Hge.
  lia.
Qed.

(** * Step tactics *)

Ltac wf_side :=
  first [ assumption | reflexivity | exact I ].

Ltac prim_step :=
  first [ rewrite de_u32_ok by wf_side
        | rewrite de_u64_ok by wf_side
        | rewrite de_f64_ok by wf_side
        | rewrite de_f32_ok by wf_side
        | rewrite de_bool_ok ];
  cbv beta iota.

(** * dist.rs *)

Lemma de_disttype_ok d rest :
  wf_disttype d -> de_disttype (ser_disttype d ++ rest) = Some (d, rest).
Proof.
  intros Hwf.
  destruct d; cbn [wf_disttype] in Hwf;
    repeat match goal with
           | H : _ /\ _ |- _ => destruct H as [? H]
           end;
    unfold de_disttype, ser_disttype, pbind;
    rewrite <- ?app_assoc;
    repeat prim_step;
    reflexivity.
Qed.

Lemma de_dist_ok d rest :
  wf_dist d -> de_dist (ser_dist d ++ rest) = Some (d, rest).
Proof.
  destruct d as [t s m].
  unfold wf_dist. cbn [dtype dstart dmax].
  intros [Ht [Hs Hm]].
  unfold de_dist, ser_dist, pbind. cbn [dtype dstart dmax].
  rewrite <- !app_assoc.
  rewrite de_disttype_ok by exact Ht. cbv beta iota.
  repeat prim_step.
  reflexivity.
Qed.

Lemma de_optdist_ok o rest :
  wf_option wf_dist o ->
  de_option de_dist (ser_option ser_dist o ++ rest) = Some (o, rest).
Proof. apply (de_option_ok ser_dist de_dist wf_dist). exact de_dist_ok. Qed.

(** * action.rs *)

Lemma de_timer_ok t rest : de_timer (ser_timer t ++ rest) = Some (t, rest).
Proof.
  destruct t; unfold de_timer, ser_timer, pbind; prim_step; reflexivity.
Qed.

Ltac dist_step :=
  first [ prim_step
        | rewrite de_dist_ok by wf_side; cbv beta iota
        | rewrite de_optdist_ok by wf_side; cbv beta iota
        | rewrite de_timer_ok; cbv beta iota ].

Lemma de_action_ok a rest :
  wf_action a -> de_action (ser_action a ++ rest) = Some (a, rest).
Proof.
  intros Hwf.
  destruct a; cbn [wf_action] in Hwf;
    repeat match goal with
           | H : _ /\ _ |- _ => destruct H as [? H]
           end;
    unfold de_action, ser_action, pbind;
    rewrite <- ?app_assoc;
    repeat dist_step;
    reflexivity.
Qed.

Lemma ser_action_nonempty a : (1 <= length (ser_action a))%nat.
Proof.
  destruct a; cbn [ser_action]; rewrite app_length;
    pose proof (ser_varint_nonempty 0); pose proof (ser_varint_nonempty 1);
    pose proof (ser_varint_nonempty 2); pose proof (ser_varint_nonempty 3);
    unfold ser_u32; lia.
Qed.

(** * counter.rs *)

Lemma de_operation_ok o rest : de_operation (ser_operation o ++ rest) = Some (o, rest).
Proof.
  destruct o; unfold de_operation, ser_operation, pbind; prim_step; reflexivity.
Qed.

Lemma de_counter_ok c rest :
  wf_counter c -> de_counter (ser_counter c ++ rest) = Some (c, rest).
Proof.
  destruct c as [o d cp].
  unfold wf_counter. cbn [cop cdist ccopy].
  intros Hd.
  unfold de_counter, ser_counter, pbind. cbn [cop cdist ccopy].
  rewrite <- !app_assoc.
  rewrite de_operation_ok. cbv beta iota.
  repeat dist_step.
  reflexivity.
Qed.

(** * state.rs *)

Lemma de_trans_ok t rest :
  wf_trans t -> de_trans (ser_trans t ++ rest) = Some (t, rest).
Proof.
  destruct t as [s p].
  unfold wf_trans. cbn [fst snd].
  intros [Hs Hp].
  unfold de_trans, ser_trans, pbind. cbn [fst snd].
  rewrite <- !app_assoc.
  repeat prim_step.
  reflexivity.
Qed.

Lemma ser_trans_nonempty t : (1 <= length (ser_trans t))%nat.
Proof.
  unfold ser_trans. rewrite app_length.
  unfold ser_f32. rewrite ser_le_length. lia.
Qed.

Lemma de_transvec_ok l rest :
  wf_transvec l ->
  de_vec de_trans (ser_vec ser_trans l ++ rest) = Some (l, rest).
Proof.
  intros [Hlen Hall].
  apply (de_vec_ok ser_trans de_trans wf_trans).
  - exact de_trans_ok.
  - exact ser_trans_nonempty.
  - exact Hlen.
  - exact Hall.
Qed.

Lemma de_opttransvec_ok o rest :
  wf_option wf_transvec o ->
  de_option (de_vec de_trans) (ser_option (ser_vec ser_trans) o ++ rest) = Some (o, rest).
Proof.
  apply (de_option_ok (ser_vec ser_trans) (de_vec de_trans) wf_transvec).
  exact de_transvec_ok.
Qed.

Lemma de_transitions_ok l rest :
  length l = EVENT_NUM ->
  Forall (wf_option wf_transvec) l ->
  de_arr (de_option (de_vec de_trans)) EVENT_NUM
         (ser_seq (ser_option (ser_vec ser_trans)) l ++ rest) = Some (l, rest).
Proof.
  intros Hlen Hall.
  rewrite <- Hlen.
  apply (de_arr_ok (ser_option (ser_vec ser_trans)) (de_option (de_vec de_trans))
                   (wf_option wf_transvec)).
  - exact de_opttransvec_ok.
  - exact Hall.
Qed.

Lemma de_optaction_ok o rest :
  wf_option wf_action o ->
  de_option de_action (ser_option ser_action o ++ rest) = Some (o, rest).
Proof. apply (de_option_ok ser_action de_action wf_action). exact de_action_ok. Qed.

Lemma de_optcounter_ok o rest :
  wf_option wf_counter o ->
  de_option de_counter (ser_option ser_counter o ++ rest) = Some (o, rest).
Proof. apply (de_option_ok ser_counter de_counter wf_counter). exact de_counter_ok. Qed.

Lemma de_state_ok s rest :
  wf_state s -> de_state (ser_state s ++ rest) = Some (s, rest).
Proof.
  destruct s as [a ca cb tr].
  unfold wf_state. cbn [saction sctr_a sctr_b strans].
  intros [Ha [Hca [Hcb [Hlen Htr]]]].
  unfold de_state, ser_state, pbind. cbn [saction sctr_a sctr_b strans].
  rewrite <- !app_assoc.
  rewrite de_optaction_ok by exact Ha. cbv beta iota.
  rewrite de_optcounter_ok by exact Hca. cbv beta iota.
  rewrite de_optcounter_ok by exact Hcb. cbv beta iota.
  rewrite de_transitions_ok by assumption. cbv beta iota.
  reflexivity.
Qed.

Lemma ser_state_nonempty s : (1 <= length (ser_state s))%nat.
Proof.
  unfold ser_state. rewrite app_length.
  pose proof (ser_option_nonempty ser_action (saction s)) as H.
  lia.
Qed.

Lemma de_states_ok l rest :
  len_ok l -> Forall wf_state l ->
  de_vec de_state (ser_vec ser_state l ++ rest) = Some (l, rest).
Proof.
  intros Hlen Hall.
  apply (de_vec_ok ser_state de_state wf_state).
  - exact de_state_ok.
  - exact ser_state_nonempty.
  - exact Hlen.
  - exact Hall.
Qed.

(** * machine.rs *)

Lemma de_machine_p_ok m rest :
  wf_machine m -> de_machine_p (ser_machine m ++ rest) = Some (m, rest).
Proof.
  destruct m as [app mpf abm mbf sts].
  unfold wf_machine.
  cbn [allowed_padding_packets max_padding_frac allowed_blocked_microsec
       max_blocking_frac states].
  intros [H1 [H2 [H3 [H4 [Hlen Hall]]]]].
  unfold de_machine_p, ser_machine, pbind.
  cbn [allowed_padding_packets max_padding_frac allowed_blocked_microsec
       max_blocking_frac states].
  rewrite <- !app_assoc.
  repeat prim_step.
  rewrite de_states_ok by assumption. cbv beta iota.
  reflexivity.
Qed.

Theorem bincode_roundtrip :
  forall m, wf_machine m -> de_machine (ser_machine m) = Some m.
Proof.
  intros m Hwf.
  unfold de_machine.
  rewrite <- (app_nil_r (ser_machine m)).
  rewrite (de_machine_p_ok m [] Hwf).
  reflexivity.
Qed.

(** trailing bytes are rejected *)
Theorem bincode_trailing_rejected :
  forall m b rest, wf_machine m -> de_machine (ser_machine m ++ b :: rest) = None.
Proof.
  intros m b rest Hwf.
  unfold de_machine.
  rewrite (de_machine_p_ok m (b :: rest) Hwf).
  reflexivity.
Qed.

(** the encoder is injective on well-formed machines *)
Corollary ser_machine_inj :
  forall m1 m2, wf_machine m1 -> wf_machine m2 ->
                ser_machine m1 = ser_machine m2 -> m1 = m2.
Proof.
  intros m1 m2 H1 H2 Heq.
  pose proof (bincode_roundtrip m1 H1) as R1.
  pose proof (bincode_roundtrip m2 H2) as R2.
  rewrite Heq in R1. rewrite R1 in R2.
  inversion R2. reflexivity.
Qed.

(** * The boolean well-formedness check implies the predicate *)

Lemma u64_okb_ok v : u64_okb v = true -> u64_ok v.
Proof. unfold u64_okb, u64_ok. apply N.ltb_lt. Qed.

Lemma u32_okb_ok v : u32_okb v = true -> u32_ok v.
Proof. unfold u32_okb, u32_ok. apply N.ltb_lt. Qed.

Lemma wf_optionb_ok {A} (Pb : A -> bool) (P : A -> Prop) :
  (forall x, Pb x = true -> P x) ->
  forall o, wf_optionb Pb o = true -> wf_option P o.
Proof.
  intros HP o Ho.
  destruct o as [x|]; cbn [wf_optionb wf_option] in *.
  - apply HP. exact Ho.
  - exact I.
Qed.

Lemma forallb_Forall {A} (Pb : A -> bool) (P : A -> Prop) :
  (forall x, Pb x = true -> P x) ->
  forall l, forallb Pb l = true -> Forall P l.
Proof.
  intros HP l Hl.
  rewrite forallb_forall in Hl.
  apply Forall_forall.
  intros x Hx. apply HP. apply Hl. exact Hx.
Qed.

Lemma len_okb_ok {A} (l : list A) : len_okb l = true -> len_ok l.
Proof. unfold len_okb, len_ok. apply u64_okb_ok. Qed.

Ltac split_andb :=
  repeat match goal with
         | H : _ && _ = true |- _ =>
             let H1 := fresh "Hb" in
             apply andb_true_iff in H; destruct H as [H1 H]
         end.

Lemma wf_disttypeb_ok d : wf_disttypeb d = true -> wf_disttype d.
Proof.
  intros H.
  destruct d; cbn [wf_disttypeb wf_disttype] in *; split_andb;
    repeat split; apply u64_okb_ok; assumption.
Qed.

Lemma wf_distb_ok d : wf_distb d = true -> wf_dist d.
Proof.
  unfold wf_distb, wf_dist. intros H. split_andb.
  repeat split.
  - apply wf_disttypeb_ok. assumption.
  - apply u64_okb_ok. assumption.
  - apply u64_okb_ok. assumption.
Qed.

Lemma wf_optdistb_ok o : wf_optionb wf_distb o = true -> wf_option wf_dist o.
Proof. apply wf_optionb_ok. exact wf_distb_ok. Qed.

Lemma wf_actionb_ok a : wf_actionb a = true -> wf_action a.
Proof.
  intros H.
  destruct a; cbn [wf_actionb wf_action] in *; split_andb;
    repeat split;
    first [ exact I
          | apply wf_distb_ok; assumption
          | apply wf_optdistb_ok; assumption ].
Qed.

Lemma wf_counterb_ok c : wf_counterb c = true -> wf_counter c.
Proof. unfold wf_counterb, wf_counter. apply wf_optdistb_ok. Qed.

Lemma wf_transb_ok t : wf_transb t = true -> wf_trans t.
Proof.
  unfold wf_transb, wf_trans. intros H. split_andb.
  split.
  - apply u64_okb_ok. assumption.
  - apply u32_okb_ok. assumption.
Qed.

Lemma wf_transvecb_ok l : wf_transvecb l = true -> wf_transvec l.
Proof.
  unfold wf_transvecb, wf_transvec. intros H. split_andb.
  split.
  - apply len_okb_ok. assumption.
  - apply (forallb_Forall wf_transb wf_trans wf_transb_ok). assumption.
Qed.

Lemma wf_stateb_ok s : wf_stateb s = true -> wf_state s.
Proof.
  unfold wf_stateb, wf_state. intros H. split_andb.
  repeat split.
  - apply (wf_optionb_ok wf_actionb wf_action wf_actionb_ok). assumption.
  - apply (wf_optionb_ok wf_counterb wf_counter wf_counterb_ok). assumption.
  - apply (wf_optionb_ok wf_counterb wf_counter wf_counterb_ok). assumption.
  - apply Nat.eqb_eq. assumption.
  - apply (forallb_Forall (wf_optionb wf_transvecb) (wf_option wf_transvec)).
    + apply wf_optionb_ok. exact wf_transvecb_ok.
    + assumption.
Qed.

Theorem wf_machineb_ok m : wf_machineb m = true -> wf_machine m.
Proof.
  unfold wf_machineb, wf_machine. intros H. split_andb.
  repeat split.
  - apply u64_okb_ok. assumption.
  - apply u64_okb_ok. assumption.
  - apply u64_okb_ok. assumption.
  - apply u64_okb_ok. assumption.
  - apply len_okb_ok. assumption.
  - apply (forallb_Forall wf_stateb wf_state wf_stateb_ok). assumption.
Qed.

Corollary bincode_roundtrip_b :
  forall m, wf_machineb m = true -> de_machine (ser_machine m) = Some m.
Proof. intros m H. apply bincode_roundtrip. apply wf_machineb_ok. exact H. Qed.
