(** C13: the clamp of Dist::sample. For EVERY raw sampler result (any f64,
    NaN and infinities included) and every start / max: the returned value is
    not NaN, not negative, and at most max when max > 0; the integer values
    derived from it (timeouts, durations, limits, counter values) are within
    range; the Uniform sampler accepts the draw 0. *)
From Coq Require Import Reals Lra.
From Flocq Require Import Core.Core IEEE754.BinarySingleNaN.
From MB Require Import Model.Framework Model.Validate.
From MB Require Import Proofs.Tactics Proofs.FloatFacts.
Open Scope N_scope.

(** not NaN and not below zero *)
Definition nonneg (x : F64) : Prop := is_nan x = false /\ Bltb x f64_zero = false.

Lemma Bltb_irrefl_zero : Bltb f64_zero f64_zero = false.
Proof. reflexivity. Qed.

Lemma Bltb_antisym : forall x y : F64, Bltb x y = true -> Bltb y x = false.
Proof.
  intros x y H.
  destruct x as [sx|sx| |sx mx ex Hx]; destruct y as [sy|sy| |sy my ey Hy];
    try discriminate H;
    try (destruct sx; try discriminate H; try reflexivity; destruct sy; try discriminate H; reflexivity);
    try (destruct sy; try discriminate H; try reflexivity; destruct sx; try discriminate H; reflexivity).
  rewrite Bltb_correct in H by reflexivity. rewrite Bltb_correct by reflexivity.
  destruct (Rlt_bool_spec (B2R (B754_finite sx mx ex Hx : F64)) (B2R (B754_finite sy my ey Hy : F64))); [|discriminate].
  apply Rlt_bool_false. lra.
Qed.

Lemma Bltb_irrefl : forall x : F64, Bltb x x = false.
Proof.
  intros x. destruct (Bltb x x) eqn:E; [|reflexivity].
  pose proof (Bltb_antisym x x E). congruence.
Qed.

Lemma Bltb_not_nan : forall x y : F64, Bltb x y = true -> is_nan x = false /\ is_nan y = false.
Proof. intros x y H. destruct x, y; try discriminate H; auto. Qed.

Lemma fmax_zero_nonneg : forall b : F64, nonneg (fmax f64_zero b).
Proof.
  intros b. unfold fmax. change (is_nan f64_zero) with false. cbn [is_nan].
  destruct (is_nan b) eqn:En; [split; reflexivity|].
  destruct (Bltb f64_zero b) eqn:El.
  - split; [exact En|]. apply Bltb_antisym; exact El.
  - split; reflexivity.
Qed.

Lemma fmin_le : forall r mx : F64,
  nonneg r -> Bltb f64_zero mx = true ->
  nonneg (fmin r mx) /\ Bltb mx (fmin r mx) = false.
Proof.
  intros r mx [Hn Hr] Hm. destruct (Bltb_not_nan _ _ Hm) as [_ Hmn].
  unfold fmin. rewrite Hn, Hmn.
  destruct (Bltb mx r) eqn:El.
  - split; [split; [exact Hmn|apply Bltb_antisym; exact Hm]|apply Bltb_irrefl].
  - split; [split; assumption|exact El].
Qed.

Theorem sample_range : forall tp p d,
  let v := fst (dist_sample_clamped tp p d) in
  nonneg v /\
  (fgt (f64_of_bits (dmax d)) f64_zero = true -> Bltb (f64_of_bits (dmax d)) v = false).
Proof.
  intros tp p d. unfold dist_sample_clamped.
  destruct (dist_sample tp p d) as [raw q].
  pose proof (fmax_zero_nonneg (fadd raw (f64_of_bits (dstart d)))) as Hr.
  destruct (fgt (f64_of_bits (dmax d)) f64_zero) eqn:Em; cbn [fst].
  - destruct (fmin_le _ _ Hr Em) as [H1 H2]. split; [exact H1|intros _; exact H2].
  - split; [exact Hr|intros Hx; discriminate Hx].
Qed.

(** the integer consumers *)
Lemma round_u64_range : forall x : F64, f64_round_u64 x <= U64_MAX.
Proof.
  intros x. unfold f64_round_u64, U64_MAX, U64MAXZ.
  destruct x as [s|s| |s m e H]; try lia.
  - destruct s; lia.
  - destruct s; [lia|]. destruct (0 <=? e)%Z.
    + lia.
    + destruct (_ <=? _)%Z; lia.
Qed.

Lemma trunc_u64_range : forall x : F64, f64_trunc_u64 x <= U64_MAX.
Proof.
  intros x. unfold f64_trunc_u64, U64_MAX, U64MAXZ.
  destruct x as [s|s| |s m e H]; try lia.
  - destruct s; lia.
  - destruct s; [lia|]. destruct (0 <=? e)%Z; lia.
Qed.

Theorem consumers_in_range : forall tp p d a cn,
  fst (sample_day_clamped tp p d) <= DAY_US /\
  fst (sample_limit tp p a) <= U64_MAX /\
  fst (sample_value tp p cn) <= U64_MAX.
Proof.
  intros tp p d a cn. split; [|split].
  - unfold sample_day_clamped. destruct (dist_sample_clamped tp p d). cbn [fst]. apply round_day_bound.
  - unfold sample_limit.
    destruct a as [t|b r t [l|]|b r t dd [l|]|r dd [l|]]; cbn [fst]; unfold STATE_LIMIT_MAX; try lia;
      destruct (dist_sample_clamped tp p l); cbn [fst]; apply round_u64_range.
  - unfold sample_value. destruct (cdist cn) as [dd|]; [|cbn; unfold U64_MAX; lia].
    destruct (dist_sample_clamped tp p dd). cbn [fst]. apply trunc_u64_range.
Qed.

(** ** the rand_distr constructors succeed on validated distributions *)
Definition ctor_ok (d : dist) : bool :=
  match dtype d with
  | Uniform _ _ => true                                 (* no constructor; see [uniform_pre] *)
  | Normal _ sd => is_finite (f64_of_bits sd)
  | SkewNormal _ sc sh =>
      is_finite (f64_of_bits sc) && fgt (f64_of_bits sc) f64_zero && is_finite (f64_of_bits sh)
  | LogNormal _ sg => is_finite (f64_of_bits sg)
  | Binomial _ p => fge (f64_of_bits p) f64_zero && fle (f64_of_bits p) f64_one
  | Geometric p =>
      is_finite (f64_of_bits p) && negb (flt (f64_of_bits p) f64_zero) && negb (fgt (f64_of_bits p) f64_one)
  | Pareto sc sh | Weibull sc sh => fgt (f64_of_bits sc) f64_zero && fgt (f64_of_bits sh) f64_zero
  | Poisson l => fgt (f64_of_bits l) f64_zero
  | Gamma sc sh => fgt (f64_of_bits sh) f64_zero && fgt (f64_of_bits sc) f64_zero
  | Beta a b => fgt (f64_of_bits a) f64_zero && fgt (f64_of_bits b) f64_zero
  end.

Theorem validated_ctor_ok : forall d, validate_dist d = true -> ctor_ok d = true.
Proof.
  unfold validate_dist, ctor_ok; intros d H.
  destruct (dtype d); split_andb; repeat (apply andb_true_iff; split); auto.
Qed.

(** gen_range(low..high) is only reached when low <> high; its assertions
    (low < high, finite range) then hold *)
Theorem uniform_pre : forall d lo hi,
  validate_dist d = true -> dtype d = Uniform lo hi ->
  feq (f64_of_bits lo) (f64_of_bits hi) = false ->
  flt (f64_of_bits lo) (f64_of_bits hi) = true /\ is_finite (fsub (f64_of_bits hi) (f64_of_bits lo)) = true.
Proof.
  unfold validate_dist; intros d lo hi H E Hne. rewrite E in H. split_andb.
  repeat match goal with Hx : negb _ = true |- _ => apply negb_true_iff in Hx end.
  repeat match goal with Hx : _ || _ = false |- _ => apply orb_false_iff in Hx; destruct Hx end.
  set (l := f64_of_bits lo) in *. set (h := f64_of_bits hi) in *.
  assert (Fl : is_finite l = true) by (destruct l; try discriminate; reflexivity).
  assert (Fh : is_finite h = true) by (destruct h; try discriminate; reflexivity).
  split.
  - unfold flt, fgt, feq in *. rewrite Bltb_correct by assumption.
    rewrite Bltb_correct in * by assumption. rewrite Beqb_correct in Hne by assumption.
    destruct (Rlt_bool_spec (B2R h) (B2R l)); [discriminate|].
    destruct (Req_bool_spec (B2R l) (B2R h)); [discriminate|].
    apply Rlt_bool_true. lra.
  - unfold fsub in *.
    generalize (Bminus_correct prec64 emax64 _ _ mode_NE h l Fh Fl).
    destruct (Rlt_bool _ _).
    + intros (_ & Hf & _). exact Hf.
    + intros [Hinf _]. unfold is_inf in *. destruct (Bminus mode_NE h l); try discriminate; try reflexivity.
Qed.

(** ** the Uniform sampler (rand 0.8 UniformFloat::sample_single): one
    iteration computes res = v * scale + low from a draw v in [0,1) and
    accepts iff res < high *)
Definition fmul (x y : F64) : F64 := Bmult mode_NE x y.

Definition uniform_try (low high v01 : F64) : option F64 :=
  let scale := fsub high low in
  let res := fadd (fmul v01 scale) low in
  if flt res high then Some res else None.

Theorem uniform_accepts_zero : forall low high : F64,
  is_finite low = true -> flt low high = true -> is_finite (fsub high low) = true ->
  exists r, uniform_try low high f64_zero = Some r.
Proof.
  intros low high Fl Hlt Fs. unfold uniform_try.
  set (scale := fsub high low) in *.
  assert (Hz : exists s, fmul f64_zero scale = B754_zero s).
  { unfold fmul, Bmult. destruct scale; try discriminate Fs; cbn; eauto. }
  destruct Hz as [sz ->].
  assert (Hr : flt (fadd (B754_zero sz) low) high = true).
  { unfold flt in *. destruct low as [sl|sl| |sl ml el Hl]; try discriminate Fl.
    - (* low is a zero: the sum is a zero, which compares like low *)
      unfold fadd, Bplus; cbn.
      destruct high as [sh|sh| |sh mh eh Hh]; try discriminate Hlt;
        destruct (Bool.eqb sz sl); cbn in *; try exact Hlt;
        destruct sz, sl, sh; cbn in *; try discriminate; try reflexivity; exact Hlt.
    - unfold fadd, Bplus; cbn. exact Hlt. }
  rewrite Hr. eauto.
Qed.
