(** The simulator model never panics: none of the internal consistency
    assertions of crates/maybenot-simulator modelled in [Model/Sim.v]
    ([P_BUG], [P_UNWRAP], [P_INDEX] from [get]) can fire when the two
    configurations are validated and the event queue is routed the way
    [sq_push] routes it.  [OutOfFuel] is allowed. *)
From Coq Require Import List Arith Lia Permutation Sorted ZArith.
From MB Require Import Base.Prelude Model.Framework Model.Sim Proofs.Tactics Proofs.SimHeap.
From MB Require Import Proofs.ListFacts Proofs.FrameworkInv Proofs.FrameworkTotal Proofs.FrameworkSlots.
Import ListNotations.
Open Scope N_scope.

(** * statements fixed by the task *)
Definition cfg_ok (c : cfg) : Prop := machines_ok c /\ nonempty_ok c /\ clock_total (clk c).

(** routing invariant of the event queues (what evq_push / sq_push establish) *)
Definition wf_evq (is_client : bool) (q : evq) : Prop :=
  (forall e, In e (q_base q) -> se_client e = is_client /\ se_ev e = TENormalSent) /\
  (forall e, In e (q_blocking q) -> se_client e = is_client /\ se_ev e = TETunnelSent /\ se_bypass e = false) /\
  (forall e, In e (q_bypass q) -> se_client e = is_client /\ se_ev e = TETunnelSent /\ se_bypass e = true) /\
  (forall e, In e (q_internal q) -> se_client e = is_client /\ se_ev e <> TETunnelSent /\ se_ev e <> TENormalSent).
Definition wf_simq (sq : simq) : Prop := wf_evq true (sq_c sq) /\ wf_evq false (sq_s sq).

(** "no panic" as a predicate on outcomes *)
Definition no_panic {A} (r : outcome A) : Prop := match r with Panic _ => False | _ => True end.

Lemma no_panic_neq : forall {A} (r : outcome A) k, no_panic r -> r <> Panic k.
Proof. intros A r k H E. rewrite E in H. exact H. Qed.

(** * (a) durations, peeks and takes *)

Lemma since_le : forall a b, since a b <= DMAX.
Proof. intros a b. unfold since. lia. Qed.

Lemma since_exact : forall t nowt d,
  (nowt <= t)%Z -> since t nowt = d -> d < DMAX -> t = (nowt + Z.of_N d)%Z.
Proof. intros t nowt d Hle Hs Hd. unfold since in Hs. lia. Qed.

Definition tf (nowt : Z) := fun (acc : N) (o : option Z) =>
  match o with
  | Some t => if (nowt <=? t)%Z && (since t nowt <? acc) then since t nowt else acc
  | None => acc
  end.

Definition sf (nowt : Z) := fun (acc : N) (o : option (taction * Z)) =>
  match o with
  | Some (_, t) => if (nowt <=? t)%Z && (since t nowt <? acc) then since t nowt else acc
  | None => acc
  end.

Lemma peek_timers_fold : forall tc ts nowt,
  peek_timers tc ts nowt = fold_left (tf nowt) ts (fold_left (tf nowt) tc DMAX).
Proof. reflexivity. Qed.

Lemma peek_sched_fold : forall sc ss nowt,
  peek_sched sc ss nowt = fold_left (sf nowt) ss (fold_left (sf nowt) sc DMAX).
Proof. reflexivity. Qed.

Lemma tfold_spec : forall nowt l acc,
  fold_left (tf nowt) l acc <= acc /\
  (fold_left (tf nowt) l acc = acc \/
   exists t, In (Some t) l /\ (nowt <= t)%Z /\ since t nowt = fold_left (tf nowt) l acc).
Proof.
  intros nowt l. induction l as [|o l IH]; intros acc; cbn [fold_left].
  - split; [lia|left; reflexivity].
  - destruct (IH (tf nowt acc o)) as [Hle Hor].
    assert (Hstep : tf nowt acc o <= acc /\
              (tf nowt acc o = acc \/
               exists t, o = Some t /\ (nowt <= t)%Z /\ since t nowt = tf nowt acc o)).
    { unfold tf. destruct o as [t|]; [|split; [lia|left; reflexivity]].
      destruct (Z.leb_spec nowt t) as [H1|H1]; cbn [andb]; [|split; [lia|left; reflexivity]].
      destruct (N.ltb_spec (since t nowt) acc) as [H2|H2]; [|split; [lia|left; reflexivity]].
      split; [lia|]. right. exists t. split; [reflexivity|]. split; [exact H1|reflexivity]. }
    destruct Hstep as [Hs1 Hs2]. split; [lia|].
    destruct Hor as [He|(t & Hin & Hlt & Hs)].
    + rewrite He. destruct Hs2 as [Hs2|(t & Ho & Hlt & Hs)].
      * left. exact Hs2.
      * right. exists t. split; [left; exact Ho|]. split; [exact Hlt|exact Hs].
    + right. exists t. split; [right; exact Hin|]. split; [exact Hlt|exact Hs].
Qed.

Lemma sfold_spec : forall nowt l acc,
  fold_left (sf nowt) l acc <= acc /\
  (fold_left (sf nowt) l acc = acc \/
   exists a t, In (Some (a, t)) l /\ (nowt <= t)%Z /\ since t nowt = fold_left (sf nowt) l acc).
Proof.
  intros nowt l. induction l as [|o l IH]; intros acc; cbn [fold_left].
  - split; [lia|left; reflexivity].
  - destruct (IH (sf nowt acc o)) as [Hle Hor].
    assert (Hstep : sf nowt acc o <= acc /\
              (sf nowt acc o = acc \/
               exists a t, o = Some (a, t) /\ (nowt <= t)%Z /\ since t nowt = sf nowt acc o)).
    { unfold sf. destruct o as [[a t]|]; [|split; [lia|left; reflexivity]].
      destruct (Z.leb_spec nowt t) as [H1|H1]; cbn [andb]; [|split; [lia|left; reflexivity]].
      destruct (N.ltb_spec (since t nowt) acc) as [H2|H2]; [|split; [lia|left; reflexivity]].
      split; [lia|]. right. exists a, t. split; [reflexivity|]. split; [exact H1|reflexivity]. }
    destruct Hstep as [Hs1 Hs2]. split; [lia|].
    destruct Hor as [He|(a & t & Hin & Hlt & Hs)].
    + rewrite He. destruct Hs2 as [Hs2|(a & t & Ho & Hlt & Hs)].
      * left. exact Hs2.
      * right. exists a, t. split; [left; exact Ho|]. split; [exact Hlt|exact Hs].
    + right. exists a, t. split; [right; exact Hin|]. split; [exact Hlt|exact Hs].
Qed.

Lemma peek_timers_le : forall tc ts nowt, peek_timers tc ts nowt <= DMAX.
Proof.
  intros tc ts nowt. rewrite peek_timers_fold.
  pose proof (tfold_spec nowt tc DMAX) as [H1 _].
  pose proof (tfold_spec nowt ts (fold_left (tf nowt) tc DMAX)) as [H2 _]. lia.
Qed.

Lemma peek_sched_le : forall sc ss nowt, peek_sched sc ss nowt <= DMAX.
Proof.
  intros sc ss nowt. rewrite peek_sched_fold.
  pose proof (sfold_spec nowt sc DMAX) as [H1 _].
  pose proof (sfold_spec nowt ss (fold_left (sf nowt) sc DMAX)) as [H2 _]. lia.
Qed.

(** a timer expiry strictly below the sentinel is the expiry of an armed slot *)
Lemma peek_timers_in : forall tc ts nowt,
  peek_timers tc ts nowt < DMAX ->
  In (Some (nowt + Z.of_N (peek_timers tc ts nowt))%Z) tc \/
  In (Some (nowt + Z.of_N (peek_timers tc ts nowt))%Z) ts.
Proof.
  intros tc ts nowt. rewrite peek_timers_fold. intros Hlt.
  destruct (tfold_spec nowt ts (fold_left (tf nowt) tc DMAX)) as [_ [He|(t & Hin & Hle & Hs)]].
  - rewrite He in *.
    destruct (tfold_spec nowt tc DMAX) as [_ [He2|(t & Hin & Hle & Hs)]]; [lia|].
    left. rewrite <- (since_exact t nowt _ Hle Hs Hlt). exact Hin.
  - right. rewrite <- (since_exact t nowt _ Hle Hs Hlt). exact Hin.
Qed.

Lemma peek_sched_in : forall sc ss nowt,
  peek_sched sc ss nowt < DMAX ->
  (exists a, In (Some (a, (nowt + Z.of_N (peek_sched sc ss nowt))%Z)) sc) \/
  (exists a, In (Some (a, (nowt + Z.of_N (peek_sched sc ss nowt))%Z)) ss).
Proof.
  intros sc ss nowt. rewrite peek_sched_fold. intros Hlt.
  destruct (sfold_spec nowt ss (fold_left (sf nowt) sc DMAX)) as [_ [He|(a & t & Hin & Hle & Hs)]].
  - rewrite He in *.
    destruct (sfold_spec nowt sc DMAX) as [_ [He2|(a & t & Hin & Hle & Hs)]]; [lia|].
    left. exists a. rewrite <- (since_exact t nowt _ Hle Hs Hlt). exact Hin.
  - right. exists a. rewrite <- (since_exact t nowt _ Hle Hs Hlt). exact Hin.
Qed.

Lemma take_timer_some : forall l target i,
  In (Some target) l -> exists j l', take_timer l target i = Some (j, l').
Proof.
  induction l as [|o l IH]; intros target i Hin; [destruct Hin|].
  cbn [take_timer]. destruct o as [t|].
  - destruct (Z.eqb_spec t target) as [He|Hne]; [eauto|].
    destruct Hin as [Hin|Hin]; [congruence|].
    destruct (IH target (S i) Hin) as (j & l' & ->). eauto.
  - destruct Hin as [Hin|Hin]; [discriminate|].
    destruct (IH target (S i) Hin) as (j & l' & ->). eauto.
Qed.

Lemma take_timer_length : forall l target i j l',
  take_timer l target i = Some (j, l') -> length l' = length l.
Proof.
  induction l as [|o l IH]; intros target i j l' H; cbn [take_timer] in H; [discriminate|].
  destruct o as [t|].
  - destruct (t =? target)%Z.
    + injection H as <- <-. reflexivity.
    + destruct (take_timer l target (S i)) as [[j0 r]|] eqn:E; [|discriminate].
      injection H as <- <-. cbn [length]. f_equal. eapply IH; exact E.
  - destruct (take_timer l target (S i)) as [[j0 r]|] eqn:E; [|discriminate].
    injection H as <- <-. cbn [length]. f_equal. eapply IH; exact E.
Qed.

Lemma take_action_some : forall l a target,
  In (Some (a, target)) l -> exists a' t' l', take_action l target = Some (a', t', l').
Proof.
  induction l as [|o l IH]; intros a target Hin; [destruct Hin|].
  cbn [take_action]. destruct o as [[a0 t]|].
  - destruct (Z.eqb_spec t target) as [He|Hne]; [eauto|].
    destruct Hin as [Hin|Hin]; [congruence|].
    destruct (IH a target Hin) as (a' & t' & l' & ->). eauto.
  - destruct Hin as [Hin|Hin]; [discriminate|].
    destruct (IH a target Hin) as (a' & t' & l' & ->). eauto.
Qed.

Lemma take_action_spec : forall l target a t l',
  take_action l target = Some (a, t, l') ->
  length l' = length l /\ In (Some (a, t)) l /\ (forall x, In (Some x) l' -> In (Some x) l).
Proof.
  induction l as [|o l IH]; intros target a t l' H; cbn [take_action] in H; [discriminate|].
  destruct o as [[a0 t0]|].
  - destruct (t0 =? target)%Z.
    + injection H as <- <- <-. split; [reflexivity|]. split; [left; reflexivity|].
      intros x [Hx|Hx]; [discriminate|right; exact Hx].
    + destruct (take_action l target) as [[[a1 t1] r]|] eqn:E; [|discriminate].
      injection H as <- <- <-. destruct (IH _ _ _ _ E) as (Hl & Hin & Hsub).
      split; [cbn [length]; f_equal; exact Hl|]. split; [right; exact Hin|].
      intros x [Hx|Hx]; [left; exact Hx|right; apply Hsub; exact Hx].
  - destruct (take_action l target) as [[[a1 t1] r]|] eqn:E; [|discriminate].
    injection H as <- <- <-. destruct (IH _ _ _ _ E) as (Hl & Hin & Hsub).
    split; [cbn [length]; f_equal; exact Hl|]. split; [right; exact Hin|].
    intros x [Hx|Hx]; [discriminate|right; apply Hsub; exact Hx].
Qed.

(** * (b) the routing invariant *)

Definition evq_heap (q : evq) (w : qid) : list sev :=
  match w with
  | QBlocking => q_blocking q | QBypassable => q_bypass q
  | QInternal => q_internal q | QBase => q_base q
  end.

Lemma in_heap_push : forall h x e, In e (heap_push sev_le h x) -> e = x \/ In e h.
Proof.
  intros h x e H. apply (Permutation_in _ (heap_push_perm sev sev_le h x)) in H.
  destruct H as [H|H]; [left; symmetry; exact H|right; exact H].
Qed.

Lemma in_heap_pop : forall h x h' e, heap_pop sev_le h = Some (x, h') -> In e h' -> In e h.
Proof.
  intros h x h' e Hp Hin.
  eapply Permutation_in; [apply Permutation_sym; eapply heap_pop_perm; exact Hp|right; exact Hin].
Qed.

Lemma heap_peek_in : forall (h : list sev) p, heap_peek h = Some p -> In p h.
Proof. intros [|a t] p H; cbn in H; [discriminate|]. injection H as ->. left. reflexivity. Qed.

Lemma heap_peek_nonempty : forall (h : list sev) p, heap_peek h = Some p -> h <> [].
Proof. intros [|a t] p H; cbn in H; [discriminate|discriminate]. Qed.

Lemma heap_pop_some : forall h : list sev, h <> [] -> exists x h', heap_pop sev_le h = Some (x, h').
Proof.
  intros h Hne. destruct (heap_pop sev_le h) as [[x h']|] eqn:E; [eauto|].
  apply heap_pop_none in E. contradiction.
Qed.

Lemma wf_evq_push : forall ic q x, wf_evq ic q -> se_client x = ic -> wf_evq ic (evq_push q x).
Proof.
  intros ic q x (Hb & Hbl & Hby & Hi) Hc. unfold evq_push.
  destruct (se_ev x) eqn:E; try destruct (se_bypass x) eqn:B;
    unfold wf_evq; cbn [q_base q_blocking q_bypass q_internal];
    (split; [|split; [|split]]); intros e He; auto;
    apply in_heap_push in He; destruct He as [->|He]; auto;
    rewrite E; repeat split; auto; discriminate.
Qed.

Lemma sq_push_wf : forall sq x, wf_simq sq -> wf_simq (sq_push sq x).
Proof.
  intros sq x [Hc Hs]. unfold sq_push, sq_set_side, sq_side.
  destruct (se_client x) eqn:C; split; cbn [sq_c sq_s]; auto using wf_evq_push.
Qed.

Lemma wf_evq_pop : forall ic q w d x q',
  wf_evq ic q -> evq_pop q w d = Some (x, q') -> wf_evq ic q'.
Proof.
  intros ic q w d x q' (Hb & Hbl & Hby & Hi) H. unfold evq_pop in H.
  destruct w;
    match type of H with
    | match heap_pop sev_le ?h with _ => _ end = _ =>
        destruct (heap_pop sev_le h) as [[y h']|] eqn:E; [|discriminate]
    end; injection H as <- <-;
    unfold wf_evq; cbn [q_base q_blocking q_bypass q_internal];
    (split; [|split; [|split]]); intros e He; auto;
    apply (in_heap_pop _ _ _ _ E) in He; auto.
Qed.

Lemma sq_pop_wf : forall sq w ic d x sq',
  wf_simq sq -> sq_pop sq w ic d = Some (x, sq') -> wf_simq sq'.
Proof.
  intros sq w ic d x sq' [Hc Hs] H. unfold sq_pop in H.
  destruct (evq_pop (sq_side sq ic) w d) as [[y q']|] eqn:E; [|discriminate].
  injection H as <- <-. unfold sq_set_side, sq_side in *.
  destruct ic; split; cbn [sq_c sq_s]; auto; eapply wf_evq_pop; eauto.
Qed.

Lemma evq_pop_some : forall q w d, evq_heap q w <> [] -> exists x q', evq_pop q w d = Some (x, q').
Proof.
  intros q w d Hne. unfold evq_pop.
  destruct w; cbn [evq_heap] in Hne; destruct (heap_pop_some _ Hne) as (x & h' & ->); eauto.
Qed.

Lemma sq_pop_some : forall sq w ic d,
  evq_heap (sq_side sq ic) w <> [] -> exists x sq', sq_pop sq w ic d = Some (x, sq').
Proof.
  intros sq w ic d Hne. unfold sq_pop.
  destruct (evq_pop_some _ _ d Hne) as (x & q' & ->). eauto.
Qed.

Lemma wf_evq_empty : forall ic, wf_evq ic evq_empty.
Proof. intros ic. unfold wf_evq, evq_empty; cbn [q_base q_blocking q_bypass q_internal]. (split; [|split; [|split]]); intros e []. Qed.

Lemma parse_lines_wf : forall tr delay q sw rw smax rmax,
  wf_simq q -> wf_simq (fst (parse_lines tr delay q sw rw smax rmax)).
Proof.
  induction tr as [|[t d] tr IH]; intros delay q sw rw smax rmax Hq; cbn [parse_lines].
  - exact Hq.
  - destruct d.
    + destruct (window_add_w PARSE_WINDOW sw t) as [sw' m]. apply IH. apply sq_push_wf. exact Hq.
    + destruct (window_add_w PARSE_WINDOW rw t) as [rw' m]. apply IH. apply sq_push_wf. exact Hq.
Qed.

Lemma parse_trace_wf : forall tr delay, wf_simq (parse_trace tr delay).
Proof.
  intros tr delay. unfold parse_trace.
  pose proof (parse_lines_wf tr delay (mksimq evq_empty evq_empty None) [] [] 0 0) as H.
  destruct (parse_lines tr delay (mksimq evq_empty evq_empty None) [] [] 0 0) as [q pps].
  cbn [fst] in H. destruct H as [Hc Hs]; [split; apply wf_evq_empty|].
  split; cbn [sq_c sq_s]; assumption.
Qed.

(** * (c) the peeks name a non-empty heap *)

Lemma wf_evq_heap : forall ic q w e, wf_evq ic q -> In e (evq_heap q w) -> se_client e = ic.
Proof.
  intros ic q w e (Hb & Hbl & Hby & Hi) Hin.
  destruct w; cbn [evq_heap] in Hin.
  - apply Hbl in Hin. tauto.
  - apply Hby in Hin. tauto.
  - apply Hi in Hin. tauto.
  - apply Hb in Hin. tauto.
Qed.

Lemma sq_peek_blocking_spec : forall sq bb ic,
  heap_peek (evq_heap (sq_side sq ic) (snd (sq_peek_blocking sq bb ic))) = fst (sq_peek_blocking sq bb ic).
Proof.
  intros sq bb ic. unfold sq_peek_blocking. destruct bb; [reflexivity|].
  destruct (opt_gt _ _); reflexivity.
Qed.

Lemma evq_peek_non_blocking_spec : forall q d,
  heap_peek (evq_heap q (snd (evq_peek_non_blocking q d))) = fst (evq_peek_non_blocking q d).
Proof. intros q d. unfold evq_peek_non_blocking. destruct (before _ _ _); reflexivity. Qed.

Lemma sq_peek_non_blocking_spec : forall sq bb ic d,
  heap_peek (evq_heap (sq_side sq ic) (snd (sq_peek_non_blocking sq bb ic d)))
  = fst (sq_peek_non_blocking sq bb ic d).
Proof.
  intros sq bb ic d. unfold sq_peek_non_blocking.
  destruct bb; [|apply evq_peek_non_blocking_spec].
  pose proof (evq_peek_non_blocking_spec (sq_side sq ic) d) as H.
  destruct (evq_peek_non_blocking (sq_side sq ic) d) as [n nq]. cbn [fst snd] in H.
  destruct (opt_gt _ n); cbn [fst snd evq_heap]; [reflexivity|exact H].
Qed.

Lemma evq_peek_spec : forall q d nowt o w dur p,
  evq_peek q d nowt = (o, w, dur) -> o = Some p -> heap_peek (evq_heap q w) = Some p.
Proof.
  intros q d nowt o w dur p H Ho. unfold evq_peek in H.
  destruct (evq_len q) as [|k]; [injection H as <- <- <-; discriminate|].
  cbv zeta in H.
  destruct (opt_gt (heap_peek (q_blocking q)) (heap_peek (q_bypass q))); cbv beta iota in H;
    match type of H with context [opt_gt ?a ?b] => destruct (opt_gt a b) end; cbv beta iota in H;
    match type of H with context [before ?a ?b ?c] => destruct (before a b c) end;
    injection H as <- <- <-; exact Ho.
Qed.

Lemma sq_peek_spec : forall sq cd sd nowt p w dur,
  wf_simq sq -> sq_peek sq cd sd nowt = (Some p, w, dur) ->
  heap_peek (evq_heap (sq_side sq (se_client p)) w) = Some p.
Proof.
  intros sq cd sd nowt p w dur [Hc Hs] H. unfold sq_peek in H.
  destruct (sq_len sq) as [|k]; [discriminate|].
  destruct (evq_peek (sq_c sq) cd nowt) as [[c cq] cdur] eqn:Ec.
  destruct (evq_peek (sq_s sq) sd nowt) as [[s sqq] sdur] eqn:Es.
  assert (HC : forall x, c = Some x ->
            heap_peek (evq_heap (sq_side sq (se_client x)) cq) = Some x).
  { intros x Hx. pose proof (evq_peek_spec _ _ _ _ _ _ x Ec Hx) as Hp.
    rewrite (wf_evq_heap true (sq_c sq) cq x Hc (heap_peek_in _ _ Hp)). exact Hp. }
  assert (HS : forall x, s = Some x ->
            heap_peek (evq_heap (sq_side sq (se_client x)) sqq) = Some x).
  { intros x Hx. pose proof (evq_peek_spec _ _ _ _ _ _ x Es Hx) as Hp.
    rewrite (wf_evq_heap false (sq_s sq) sqq x Hs (heap_peek_in _ _ Hp)). exact Hp. }
  destruct c as [ce|], s as [se|].
  - destruct (match cdur ?= sdur with
              | Eq => ev_idx (se_ev ce) ?= ev_idx (se_ev se) | x => x end);
      injection H as <- <- <-; auto.
  - injection H as <- <- <-; auto.
  - injection H as <- <- <-; auto.
  - discriminate.
Qed.

Lemma pqes_nonempty : forall sq bu bb nowt delay ic d w side,
  peek_queue_earliest_side sq bu bb nowt delay ic = (d, w, side) -> d < DMAX ->
  side = ic /\ evq_heap (sq_side sq ic) w <> [].
Proof.
  intros sq bu bb nowt delay ic d w side H Hd. unfold peek_queue_earliest_side in H.
  pose proof (sq_peek_blocking_spec sq bb ic) as Hb.
  pose proof (sq_peek_non_blocking_spec sq bb ic delay) as Hn.
  destruct (sq_peek_blocking sq bb ic) as [pb bq].
  destruct (sq_peek_non_blocking sq bb ic delay) as [pn nq].
  cbn [fst snd] in Hb, Hn. cbv zeta in H.
  destruct pb as [b|], pn as [n|].
  - match type of H with (if ?c then _ else _) = _ => destruct c end;
      injection H as <- <- <-; (split; [reflexivity|]); eapply heap_peek_nonempty; eauto.
  - injection H as <- <- <-; (split; [reflexivity|]); eapply heap_peek_nonempty; eauto.
  - injection H as <- <- <-; (split; [reflexivity|]); eapply heap_peek_nonempty; eauto.
  - injection H as <- <- <-. lia.
Qed.

(** a queue candidate strictly below the sentinel designates a non-empty heap *)
Lemma peek_queue_nonempty : forall sq c s cd sd earliest nowt q w side,
  wf_simq sq -> peek_queue sq c s cd sd earliest nowt = (q, w, side) -> q < DMAX ->
  evq_heap (sq_side sq side) w <> [].
Proof.
  intros sq c s cd sd earliest nowt q w side Hwf H Hq. unfold peek_queue in H.
  destruct (sq_len sq) as [|k]; [injection H as <- <- <-; lia|].
  destruct (sq_peek sq cd sd nowt) as [[pk qq] dur] eqn:Epk.
  destruct pk as [p|]; [|injection H as <- <- <-; lia].
  pose proof (sq_peek_spec _ _ _ _ _ _ _ Hwf Epk) as Hp. apply heap_peek_nonempty in Hp.
  destruct (earliest <? dur); [injection H as <- <- <-; lia|].
  destruct (negb (is_tunnel_sent (se_ev p))); [injection H as <- <- <-; exact Hp|].
  cbv zeta in H.
  match type of H with (if ?b then _ else _) = _ => destruct b end;
    [injection H as <- <- <-; exact Hp|].
  match type of H with (if ?b then _ else _) = _ => destruct b end;
    [injection H as <- <- <-; exact Hp|].
  match type of H with (if ?b then _ else _) = _ => destruct b end;
    [injection H as <- <- <-; exact Hp|].
  destruct (peek_queue_earliest_side sq (s_buntil c) (s_bbypass c) nowt cd true)
    as [[c_d c_q] c_b] eqn:Ecs.
  destruct (peek_queue_earliest_side sq (s_buntil s) (s_bbypass s) nowt sd false)
    as [[s_d s_q] s_b] eqn:Ess.
  destruct (c_d <=? s_d); injection H as <- <- <-.
  - destruct (pqes_nonempty _ _ _ _ _ _ _ _ _ Ecs Hq) as [-> Hne]. exact Hne.
  - destruct (pqes_nonempty _ _ _ _ _ _ _ _ _ Ess Hq) as [-> Hne]. exact Hne.
Qed.

Lemma peek_queue_le : forall sq c s cd sd earliest nowt q w side,
  peek_queue sq c s cd sd earliest nowt = (q, w, side) -> q <= DMAX.
Proof.
  intros sq c s cd sd earliest nowt q w side H. unfold peek_queue in H.
  destruct (sq_len sq) as [|k]; [injection H as <- <- <-; lia|].
  destruct (sq_peek sq cd sd nowt) as [[pk qq] dur] eqn:Epk.
  destruct pk as [p|]; [|injection H as <- <- <-; lia].
  destruct (N.ltb_spec earliest dur) as [Hlt|Hge]; [injection H as <- <- <-; lia|].
  assert (Hdur : dur <= DMAX).
  { unfold sq_peek in Epk. destruct (sq_len sq); [discriminate|].
    destruct (evq_peek (sq_c sq) cd nowt) as [[c0 cq] cdur] eqn:Ec.
    destruct (evq_peek (sq_s sq) sd nowt) as [[s0 sqq] sdur] eqn:Es.
    assert (HE : forall q0 d0 o w0 du, evq_peek q0 d0 nowt = (o, w0, du) -> du <= DMAX).
    { clear. intros q0 d0 o w0 du H. unfold evq_peek in H.
      destruct (evq_len q0); [injection H as <- <- <-; unfold DMAX; lia|].
      cbv zeta in H.
      destruct (opt_gt (heap_peek (q_blocking q0)) (heap_peek (q_bypass q0))); cbv beta iota in H;
        match type of H with context [opt_gt ?a ?b] => destruct (opt_gt a b) end; cbv beta iota in H;
        match type of H with context [before ?a ?b ?c] => destruct (before a b c) end;
        injection H as <- <- <-;
        match goal with |- match ?o with _ => _ end <= _ => destruct o end;
        try apply since_le; unfold DMAX; lia. }
    pose proof (HE _ _ _ _ _ Ec) as H1. pose proof (HE _ _ _ _ _ Es) as H2.
    destruct c0 as [ce|], s0 as [se|]; try discriminate.
    - destruct (match cdur ?= sdur with
                | Eq => ev_idx (se_ev ce) ?= ev_idx (se_ev se) | x => x end);
        injection Epk as <- <- <-; assumption.
    - injection Epk as <- <- <-; assumption.
    - injection Epk as <- <- <-; assumption. }
  destruct (negb (is_tunnel_sent (se_ev p))); [injection H as <- <- <-; exact Hdur|].
  cbv zeta in H.
  match type of H with (if ?b then _ else _) = _ => destruct b end;
    [injection H as <- <- <-; exact Hdur|].
  match type of H with (if ?b then _ else _) = _ => destruct b end;
    [injection H as <- <- <-; exact Hdur|].
  match type of H with (if ?b then _ else _) = _ => destruct b end;
    [injection H as <- <- <-; exact Hdur|].
  assert (HP : forall bu bb dl ic d0 w0 b0,
            peek_queue_earliest_side sq bu bb nowt dl ic = (d0, w0, b0) -> d0 <= DMAX).
  { clear. intros bu bb dl ic d0 w0 b0 H. unfold peek_queue_earliest_side in H.
    destruct (sq_peek_blocking sq bb ic) as [pb bq].
    destruct (sq_peek_non_blocking sq bb ic dl) as [pn nq]. cbv zeta in H.
    destruct pb as [b|], pn as [n|].
    - match type of H with (if ?c then _ else _) = _ => destruct c end;
        injection H as <- <- <-; apply since_le.
    - injection H as <- <- <-; apply since_le.
    - injection H as <- <- <-; apply since_le.
    - injection H as <- <- <-. lia. }
  destruct (peek_queue_earliest_side sq (s_buntil c) (s_bbypass c) nowt cd true)
    as [[c_d c_q] c_b] eqn:Ecs.
  destruct (peek_queue_earliest_side sq (s_buntil s) (s_bbypass s) nowt sd false)
    as [[s_d s_q] s_b] eqn:Ess.
  destruct (c_d <=? s_d); injection H as <- <- <-; eapply HP; eauto.
Qed.

Lemma peek_blocked_exp_le : forall bc bs nowt, fst (peek_blocked_exp bc bs nowt) <= DMAX.
Proof.
  intros bc bs nowt. unfold peek_blocked_exp.
  destruct bc as [c|], bs as [s|]; try destruct (c <? s)%Z; cbn [fst]; try apply since_le. lia.
Qed.

Lemma net_peek_agg_le : forall nb nowt, net_peek_agg nb nowt <= DMAX.
Proof. intros nb nowt. unfold net_peek_agg. destruct (heap_peek (n_aggq nb)); [apply since_le|lia]. Qed.

(** * (d) the state invariant *)

Definition sched_act_ok (a : taction) : Prop :=
  match a with TSendPadding _ _ _ _ | TBlockOutgoing _ _ _ _ _ => True | _ => False end.

Definition sched_acts_ok (l : list (option (taction * Z))) : Prop :=
  forall a t, In (Some (a, t)) l -> sched_act_ok a.

Record side_ok (cf : cfg) (sd : side) : Prop := mkside_ok {
  so_inv : Inv cf (s_fw sd);
  so_sched : length (s_sched sd) = length (machines cf);
  so_timers : length (s_timers sd) = length (machines cf);
  so_acts : sched_acts_ok (s_sched sd)
}.

Definition SimInv (cc sc : cfg) (st : sim) : Prop :=
  wf_simq (m_sq st) /\ side_ok cc (m_c st) /\ side_ok sc (m_s st).

Lemma side_ok_set_block : forall cf sd u b, side_ok cf sd -> side_ok cf (side_set_block sd u b).
Proof. intros cf sd u b [H1 H2 H3 H4]. constructor; cbn [side_set_block s_fw s_sched s_timers]; assumption. Qed.

Lemma side_ok_set_timers : forall cf sd l,
  side_ok cf sd -> length l = length (s_timers sd) -> side_ok cf (side_set_timers sd l).
Proof.
  intros cf sd l [H1 H2 H3 H4] Hl.
  constructor; cbn [side_set_timers s_fw s_sched s_timers]; try assumption. congruence.
Qed.

Lemma side_ok_set_sched : forall cf sd l,
  side_ok cf sd -> length l = length (s_sched sd) -> sched_acts_ok l -> side_ok cf (side_set_sched sd l).
Proof.
  intros cf sd l [H1 H2 H3 H4] Hl Ha.
  constructor; cbn [side_set_sched s_fw s_sched s_timers]; try assumption. congruence.
Qed.

Lemma side_ok_set_fw : forall cf sd f, side_ok cf sd -> Inv cf f -> side_ok cf (side_set_fw sd f).
Proof.
  intros cf sd f [H1 H2 H3 H4] Hf. constructor; cbn [side_set_fw s_fw s_sched s_timers]; assumption.
Qed.

Lemma do_internal_timer_ok : forall cc sc c s target,
  side_ok cc c -> side_ok sc s ->
  In (Some target) (s_timers c) \/ In (Some target) (s_timers s) ->
  exists c' s' e, do_internal_timer c s target = Ok (c', s', e) /\ side_ok cc c' /\ side_ok sc s'.
Proof.
  intros cc sc c s target Hc Hs Hin. unfold do_internal_timer.
  destruct (take_timer (s_timers c) target 0) as [[id l]|] eqn:Ec.
  - do 3 eexists. split; [reflexivity|]. split; [|exact Hs].
    apply side_ok_set_timers; [exact Hc|]. eapply take_timer_length; exact Ec.
  - destruct Hin as [Hin|Hin].
    { destruct (take_timer_some _ _ 0%nat Hin) as (j & l' & E). congruence. }
    destruct (take_timer_some _ _ 0%nat Hin) as (j & l' & Es). rewrite Es.
    do 3 eexists. split; [reflexivity|]. split; [exact Hc|].
    apply side_ok_set_timers; [exact Hs|]. eapply take_timer_length; exact Es.
Qed.

Lemma act_on_ok : forall cf sd ic a t,
  side_ok cf sd -> sched_act_ok a ->
  exists sd' e, act_on sd ic a t = Ok (sd', e) /\ side_ok cf sd'.
Proof.
  intros cf sd ic a t Hsd Ha. unfold act_on.
  destruct a as [m tm|m tmo by_ rp|m tmo dur by_ rp|m dur rp]; cbn [sched_act_ok] in Ha;
    try contradiction.
  - do 2 eexists. split; [reflexivity|exact Hsd].
  - cbv zeta. do 2 eexists. split; [reflexivity|].
    destruct (rp || (match s_buntil sd with Some u => u | None => t end <? t + Z.of_N dur)%Z);
      [apply side_ok_set_block|]; exact Hsd.
Qed.

Lemma do_scheduled_action_ok : forall cc sc c s target,
  side_ok cc c -> side_ok sc s ->
  (exists a, In (Some (a, target)) (s_sched c)) \/ (exists a, In (Some (a, target)) (s_sched s)) ->
  exists c' s' e, do_scheduled_action c s target = Ok (c', s', e) /\ side_ok cc c' /\ side_ok sc s'.
Proof.
  intros cc sc c s target Hc Hs Hin. unfold do_scheduled_action.
  assert (Hstep : forall cf sd ic a t l, side_ok cf sd -> take_action (s_sched sd) target = Some (a, t, l) ->
            exists sd' e, act_on (side_set_sched sd l) ic a t = Ok (sd', e) /\ side_ok cf sd').
  { intros cf sd ic a t l Hsd Et. destruct (take_action_spec _ _ _ _ _ Et) as (Hl & Hi & Hsub).
    apply act_on_ok.
    - apply side_ok_set_sched; [exact Hsd|exact Hl|].
      intros a0 t0 H0. apply Hsub in H0. eapply (so_acts _ _ Hsd); exact H0.
    - eapply (so_acts _ _ Hsd); exact Hi. }
  destruct (take_action (s_sched c) target) as [[[a t] l]|] eqn:Ec.
  - destruct (Hstep cc c true a t l Hc Ec) as (c' & e & -> & Hc'). cbn [bind].
    do 3 eexists. split; [reflexivity|]. split; assumption.
  - destruct Hin as [[a Hin]|[a Hin]].
    { destruct (take_action_some _ _ _ Hin) as (a' & t' & l' & E). congruence. }
    destruct (take_action_some _ _ _ Hin) as (a' & t' & l' & Es). rewrite Es.
    destruct (Hstep sc s false a' t' l' Hs Es) as (s' & e & -> & Hs'). cbn [bind].
    do 3 eexists. split; [reflexivity|]. split; assumption.
Qed.

(** * (e) pick_next *)

Lemma br_q_lt : forall sa it b n q,
  sa <= DMAX -> it <= DMAX -> b <= DMAX -> n <= DMAX -> q <= DMAX ->
  (sa =? DMAX) && (it =? DMAX) && (b =? DMAX) && (n =? DMAX) && (q =? DMAX) = false ->
  (n <=? sa) && (n <=? it) && (n <=? b) && (n <=? q) = false ->
  (b <=? sa) && (b <=? it) && (b <=? q) = false ->
  (q <=? sa) && (q <=? it) = true -> q < DMAX.
Proof.
  intros sa it b n q H1 H2 H3 H4 H5 C1 C2 C3 C4.
  rewrite ?andb_true_iff, ?andb_false_iff, ?N.eqb_neq, ?N.leb_le, ?N.leb_gt in *. lia.
Qed.

Lemma br_it_lt : forall sa it q,
  sa <= DMAX -> it <= DMAX -> q <= DMAX ->
  (q <=? sa) && (q <=? it) = false -> (it <=? sa) = true -> it < DMAX.
Proof.
  intros sa it q H1 H2 H5 C4 C5.
  rewrite ?andb_true_iff, ?andb_false_iff, ?N.eqb_neq, ?N.leb_le, ?N.leb_gt in *. lia.
Qed.

Lemma br_sa_lt : forall sa it, it <= DMAX -> (it <=? sa) = false -> sa < DMAX.
Proof. intros sa it H2 C5. rewrite N.leb_gt in C5. lia. Qed.

Definition pn_good (cc sc : cfg) (nowt : Z) (r : outcome (option sev * sim)) : Prop :=
  match r with
  | Ok (nx, st') => SimInv cc sc st' /\ forall e, nx = Some e -> (nowt <= se_time e)%Z
  | Panic _ => False
  | OutOfFuel => True
  end.

Lemma pn_good_mono : forall cc sc t1 t2 r, (t1 <= t2)%Z -> pn_good cc sc t2 r -> pn_good cc sc t1 r.
Proof.
  intros cc sc t1 t2 r Hle H. destruct r as [[nx st']|k|]; cbn [pn_good] in *; auto.
  destruct H as [H1 H2]. split; [exact H1|]. intros e He. specialize (H2 e He). lia.
Qed.

Lemma pick_next_good : forall cc sc fuel st nowt,
  SimInv cc sc st -> pn_good cc sc nowt (pick_next fuel st nowt).
Proof.
  intros cc sc. induction fuel as [|fuel IH]; intros st nowt HI; [exact I|].
  destruct HI as (Hwf & Hc & Hs).
  cbn [pick_next].
  pose proof (peek_sched_le (s_sched (m_c st)) (s_sched (m_s st)) nowt) as Hsa.
  pose proof (peek_timers_le (s_timers (m_c st)) (s_timers (m_s st)) nowt) as Hit.
  pose proof (peek_sched_in (s_sched (m_c st)) (s_sched (m_s st)) nowt) as Hsain.
  pose proof (peek_timers_in (s_timers (m_c st)) (s_timers (m_s st)) nowt) as Hitin.
  set (sa := peek_sched (s_sched (m_c st)) (s_sched (m_s st)) nowt) in *.
  set (it := peek_timers (s_timers (m_c st)) (s_timers (m_s st)) nowt) in *.
  pose proof (peek_blocked_exp_le (s_buntil (m_c st)) (s_buntil (m_s st)) nowt) as Hb.
  destruct (peek_blocked_exp (s_buntil (m_c st)) (s_buntil (m_s st)) nowt) as [b bic].
  cbn [fst] in Hb.
  pose proof (net_peek_agg_le (m_net st) nowt) as Hn.
  set (n := net_peek_agg (m_net st) nowt) in *.
  destruct (peek_queue (m_sq st) (m_c st) (m_s st) (n_cagg (m_net st)) (n_sagg (m_net st))
              (N.min (N.min (N.min sa it) b) n) nowt) as [[q which] qic] eqn:Eq.
  pose proof (peek_queue_le _ _ _ _ _ _ _ _ _ _ Eq) as Hq.
  match goal with |- pn_good _ _ _ (if ?c then _ else _) => destruct c eqn:C1 end.
  { cbn [pn_good]. split; [exact (conj Hwf (conj Hc Hs))|]. intros e He. discriminate. }
  match goal with |- pn_good _ _ _ (if ?c then _ else _) => destruct c eqn:C2 end.
  { apply IH. unfold SimInv. cbn [m_sq m_c m_s]. auto. }
  match goal with |- pn_good _ _ _ (if ?c then _ else _) => destruct c eqn:C3 end.
  { destruct bic; cbv beta iota zeta; cbn [pn_good]; (split; [|intros e He; injection He as <-; cbn [se_time]; lia]);
      unfold SimInv; cbn [m_sq m_c m_s]; auto using side_ok_set_block. }
  match goal with |- pn_good _ _ _ (if ?c then _ else _) => destruct c eqn:C4 end.
  { pose proof (br_q_lt _ _ _ _ _ Hsa Hit Hb Hn Hq C1 C2 C3 C4) as Hqlt.
    pose proof (peek_queue_nonempty _ _ _ _ _ _ _ _ _ _ Hwf Eq Hqlt) as Hne.
    destruct (sq_pop_some _ _ _ (if qic then n_cagg (m_net st) else n_sagg (m_net st)) Hne)
      as (tmp & sq' & Epop).
    rewrite Epop. cbv zeta. cbn [pn_good]. split.
    - unfold SimInv. cbn [m_sq m_c m_s]. split; [|auto]. eapply sq_pop_wf; eauto.
    - intros e He. injection He as <-.
      destruct (Z.ltb_spec (se_time tmp) (nowt + Z.of_N q)); cbn [set_time se_time]; lia. }
  match goal with |- pn_good _ _ _ (if ?c then _ else _) => destruct c eqn:C5 end.
  - pose proof (br_it_lt _ _ _ Hsa Hit Hq C4 C5) as Hlt.
    destruct (do_internal_timer_ok cc sc _ _ _ Hc Hs (Hitin Hlt)) as (c' & s' & e & -> & Hc' & Hs').
    cbn [bind]. eapply pn_good_mono; [|apply IH]; [lia|].
    unfold SimInv. cbn [m_sq m_c m_s]. split; [apply sq_push_wf; exact Hwf|auto].
  - pose proof (br_sa_lt _ _ Hit C5) as Hlt.
    destruct (do_scheduled_action_ok cc sc _ _ _ Hc Hs (Hsain Hlt)) as (c' & s' & e & -> & Hc' & Hs').
    cbn [bind]. eapply pn_good_mono; [|apply IH]; [lia|].
    unfold SimInv. cbn [m_sq m_c m_s]. split; [apply sq_push_wf; exact Hwf|auto].
Qed.

(** * (f) sim_network_stack *)

Definition sns_good (r : outcome (simq * netb * bool)) : Prop :=
  match r with Ok (sq', _, _) => wf_simq sq' | Panic _ => False | OutOfFuel => True end.

Lemma sq_pop_blocking_some : forall sq bb ic d queued which,
  sq_peek_blocking sq bb ic = (Some queued, which) ->
  exists x sq', sq_pop_blocking sq which bb ic d = Some (x, sq').
Proof.
  intros sq bb ic d queued which H. pose proof (sq_peek_blocking_spec sq bb ic) as Hp.
  rewrite H in Hp. cbn [fst snd] in Hp. apply heap_peek_nonempty in Hp.
  unfold sq_pop_blocking. destruct bb.
  - unfold sq_peek_blocking in H. injection H as _ <-. apply sq_pop_some. exact Hp.
  - apply sq_pop_some. exact Hp.
Qed.

Lemma sq_pop_blocking_wf : forall sq which bb ic d x sq',
  wf_simq sq -> sq_pop_blocking sq which bb ic d = Some (x, sq') -> wf_simq sq'.
Proof.
  intros sq which bb ic d x sq' Hwf H. unfold sq_pop_blocking in H.
  destruct bb; eapply sq_pop_wf; eauto.
Qed.

Lemma sim_network_stack_good : forall next sq bb net nowt,
  wf_simq sq -> sns_good (sim_network_stack next sq bb net nowt).
Proof.
  intros next sq bb net nowt Hwf. unfold sim_network_stack. cbv zeta.
  destruct (se_ev next) eqn:Ev; try (cbn [sns_good]; exact Hwf).
  - (* TunnelRecv *)
    destruct (se_pad next); cbn [sns_good]; apply sq_push_wf; exact Hwf.
  - (* NormalSent *)
    cbn [sns_good]. apply sq_push_wf; exact Hwf.
  - (* PaddingSent *)
    destruct (se_replace next); [|cbn [sns_good]; apply sq_push_wf; exact Hwf].
    destruct (sq_peek_blocking sq bb (se_client next)) as [[queued|] which] eqn:Epk;
      [|cbn [sns_good]; apply sq_push_wf; exact Hwf].
    match goal with |- sns_good (if ?c then _ else _) => destruct c end;
      [|cbn [sns_good]; apply sq_push_wf; exact Hwf].
    destruct (negb (se_bypass next)); [cbn [sns_good]; exact Hwf|].
    destruct (sq_pop_blocking_some sq bb (se_client next)
                (if se_client next then n_cagg net else n_sagg net) queued which Epk)
      as (entry & sq' & Epop).
    rewrite Epop. cbn [sns_good]. apply sq_push_wf. eapply sq_pop_blocking_wf; eauto.
  - (* TunnelSent *)
    destruct (net_sample net nowt (se_client next)) as [[net1 nd] baseline].
    destruct (negb (se_pad next)); cbn [sns_good]; apply sq_push_wf; exact Hwf.
Qed.

(** * (g) apply_actions and trigger_update *)

Definition aa_good (cf : cfg) (r : outcome (side * simq)) : Prop :=
  match r with Ok (sd', sq') => side_ok cf sd' /\ wf_simq sq' | Panic _ => False | OutOfFuel => True end.

Lemma in_upd : forall {A} (l : list A) i y x, In x (upd l i y) -> x = y \/ In x l.
Proof.
  intros A l. induction l as [|a l IH]; intros [|i] y x H; cbn [upd] in H.
  - destruct H.
  - destruct H.
  - destruct H as [H|H]; [left; symmetry; exact H|right; right; exact H].
  - destruct H as [H|H]; [right; left; exact H|].
    destruct (IH _ _ _ H) as [H1|H1]; [left; exact H1|right; right; exact H1].
Qed.

Lemma sched_acts_upd_none : forall l i, sched_acts_ok l -> sched_acts_ok (upd l i None).
Proof.
  intros l i H a t Hin. apply in_upd in Hin. destruct Hin as [Hin|Hin]; [discriminate|eauto].
Qed.

Lemma sched_acts_upd_some : forall l i a t,
  sched_acts_ok l -> sched_act_ok a -> sched_acts_ok (upd l i (Some (a, t))).
Proof.
  intros l i a t H Ha a0 t0 Hin. apply in_upd in Hin.
  destruct Hin as [Hin|Hin]; [injection Hin as -> ->; exact Ha|eauto].
Qed.

Lemma apply_actions_good : forall cf acts sd sq nowt ic,
  side_ok cf sd -> wf_simq sq ->
  (forall a, In a acts -> (N.to_nat (taction_machine a) < length (machines cf))%nat) ->
  aa_good cf (apply_actions acts sd sq nowt ic).
Proof.
  intros cf acts. induction acts as [|a rest IH]; intros sd sq nowt ic Hsd Hwf Hidx;
    cbn [apply_actions].
  - cbn [aa_good]. split; assumption.
  - pose proof (Hidx a (or_introl eq_refl)) as Hlt. cbv zeta.
    assert (Hrest : forall a0, In a0 rest -> (N.to_nat (taction_machine a0) < length (machines cf))%nat)
      by (intros a0 H0; apply Hidx; right; exact H0).
    pose proof Hsd as [HI Hls Hlt' Hacts].
    destruct (get_lt (s_sched sd) (N.to_nat (taction_machine a)) ltac:(rewrite Hls; exact Hlt))
      as [xs Exs].
    destruct (get_lt (s_timers sd) (N.to_nat (taction_machine a)) ltac:(rewrite Hlt'; exact Hlt))
      as [xt Ext].
    destruct a as [m tm|m tmo by_ rp|m tmo dur by_ rp|m dur rp].
    + rewrite Exs. cbn [bind]. apply IH; [|exact Hwf|exact Hrest].
      destruct tm.
      * apply side_ok_set_sched; [exact Hsd|apply upd_length|apply sched_acts_upd_none; exact Hacts].
      * apply side_ok_set_timers; [exact Hsd|apply upd_length].
      * apply side_ok_set_timers; [|apply upd_length].
        apply side_ok_set_sched; [exact Hsd|apply upd_length|apply sched_acts_upd_none; exact Hacts].
    + rewrite Exs. cbn [bind]. apply IH; [|exact Hwf|exact Hrest].
      apply side_ok_set_sched; [exact Hsd|apply upd_length|].
      apply sched_acts_upd_some; [exact Hacts|exact I].
    + rewrite Exs. cbn [bind]. apply IH; [|exact Hwf|exact Hrest].
      apply side_ok_set_sched; [exact Hsd|apply upd_length|].
      apply sched_acts_upd_some; [exact Hacts|exact I].
    + rewrite Ext. cbn [bind].
      match goal with |- aa_good _ (bind (if ?c then _ else _) _) => destruct c end; cbn [bind].
      * apply IH; [|apply sq_push_wf; exact Hwf|exact Hrest].
        apply side_ok_set_timers; [exact Hsd|apply upd_length].
      * apply IH; [exact Hsd|exact Hwf|exact Hrest].
Qed.

Lemma Inv_set_pos : forall c s p, Inv c s -> Inv c (set_pos s p).
Proof. intros c s p H. eapply Inv_same; [exact H| | |]; reflexivity. Qed.

Definition tu_good (cf : cfg) (r : outcome (side * simq * nat)) : Prop :=
  match r with Ok (sd', sq', _) => side_ok cf sd' /\ wf_simq sq' | Panic _ => False | OutOfFuel => True end.

Lemma trigger_update_good : forall cf tp sd p next nowt sq ic,
  machines_ok cf -> clock_total (clk cf) -> side_ok cf sd -> wf_simq sq ->
  tu_good cf (trigger_update cf tp sd p next nowt sq ic).
Proof.
  intros cf tp sd p next nowt sq ic Hm Hclk Hsd Hwf. unfold trigger_update.
  destruct (trigger_events_total cf tp Hm Hclk (set_pos (s_fw sd) p) [se_ev next] nowt
              (Inv_set_pos _ _ _ (so_inv _ _ Hsd))) as (fw' & acts & Et & HI' & _).
  rewrite Et. cbn [bind].
  destruct (output_contract _ _ _ _ _ _ _ Et) as (_ & _ & Hc).
  pose proof (apply_actions_good cf acts (side_set_fw sd fw') sq nowt ic
                (side_ok_set_fw _ _ _ Hsd HI') Hwf) as Hg.
  destruct (apply_actions acts (side_set_fw sd fw') sq nowt ic) as [[sd' sq']|k|];
    cbn [bind tu_good].
  - apply Hg. intros a Ha. destruct (Hc a Ha) as (Hlt & _).
    rewrite (inv_slots _ _ HI') in Hlt. lia.
  - apply Hg. intros a Ha. destruct (Hc a Ha) as (Hlt & _).
    rewrite (inv_slots _ _ HI') in Hlt. lia.
  - exact I.
Qed.

(** * (h) the main loop *)

Lemma sim_loop_good : forall cc sc tp args fuel st nowt trace iters,
  cfg_ok cc -> cfg_ok sc -> SimInv cc sc st ->
  no_panic (sim_loop fuel cc sc tp args st nowt trace iters).
Proof.
  intros cc sc tp args fuel. induction fuel as [|fuel IH]; intros st nowt trace iters Hcc Hsc HI;
    [exact I|].
  cbn [sim_loop].
  match goal with |- no_panic (bind (pick_next ?f st nowt) _) =>
    pose proof (pick_next_good cc sc f st nowt HI) as Hpn;
    destruct (pick_next f st nowt) as [[nx st1]|k|] end;
    cbn [bind pn_good no_panic] in *; [|contradiction|exact I].
  destruct Hpn as [(Hwf1 & Hc1 & Hs1) Ht].
  destruct nx as [next|]; [|exact I].
  specialize (Ht next eq_refl).
  destruct (Z.ltb_spec (se_time next) nowt) as [Hlt|Hge]; [lia|].
  cbv zeta.
  match goal with |- no_panic (bind (sim_network_stack next ?a ?b ?c ?d) _) =>
    pose proof (sim_network_stack_good next a b c d Hwf1) as Hsns;
    destruct (sim_network_stack next a b c d) as [[[sq2 net2] activity]|k|] end;
    cbn [bind sns_good no_panic] in *; [|contradiction|exact I].
  pose proof Hcc as (Hcm & _ & Hck). pose proof Hsc as (Hsm & _ & Hsk).
  destruct (se_client next) eqn:Ecl.
  - pose proof (trigger_update_good cc tp (m_c st1) (m_pos st1) next (se_time next) sq2 true
                  Hcm Hck Hc1 Hsns) as Htu.
    destruct (trigger_update cc tp (m_c st1) (m_pos st1) next (se_time next) sq2 true)
      as [[[c' sq'] p']|k|]; cbn [bind tu_good no_panic] in *; [|contradiction|exact I].
    destruct Htu as [Hc' Hwf'].
    repeat match goal with |- no_panic (if ?c then _ else _) => destruct c end;
      try exact I.
    apply IH; [exact Hcc|exact Hsc|]. unfold SimInv. cbn [m_sq m_c m_s]. auto.
  - pose proof (trigger_update_good sc tp (m_s st1) (m_pos st1) next (se_time next) sq2 false
                  Hsm Hsk Hs1 Hsns) as Htu.
    destruct (trigger_update sc tp (m_s st1) (m_pos st1) next (se_time next) sq2 false)
      as [[[s' sq'] p']|k|]; cbn [bind tu_good no_panic] in *; [|contradiction|exact I].
    destruct Htu as [Hs' Hwf'].
    repeat match goal with |- no_panic (if ?c then _ else _) => destruct c end;
      try exact I.
    apply IH; [exact Hcc|exact Hsc|]. unfold SimInv. cbn [m_sq m_c m_s]. auto.
Qed.

(** * (i) the theorem *)

Lemma fnew_at_total : forall c tp t0 p,
  nonempty_ok c -> exists s, fnew_at c tp t0 p = Ok s /\ Inv c s.
Proof.
  intros c tp t0 p Hne. unfold fnew_at.
  destruct (init_rts_total tp (machines c) p Hne) as (rs & p' & -> & Hlen & Hc). cbn [bind].
  eexists. split; [reflexivity|]. constructor; cbn [rts slots sigp].
  - exact Hlen.
  - apply map_length.
  - intros i r m Hr Hm. right. rewrite (Hc i r Hr).
    assert (Hst : states m <> []) by (apply Hne; eapply nth_error_In; exact Hm).
    destruct (states m); [contradiction|cbn [length]; lia].
  - intros x Hx. discriminate Hx.
Qed.

Lemma new_side_ok : forall cf fw, Inv cf fw -> side_ok cf (new_side cf fw).
Proof.
  intros cf fw HI. unfold new_side. constructor; cbn [s_fw s_sched s_timers].
  - exact HI.
  - apply map_length.
  - apply map_length.
  - intros a t Hin. apply in_map_iff in Hin. destruct Hin as (m & Hm & _). discriminate.
Qed.

Theorem sim_advanced_no_panic : forall fuel cc sc tp sq delay pps args k,
  cfg_ok cc -> cfg_ok sc -> wf_simq sq -> sq_first_time sq <> None ->
  sim_advanced fuel cc sc tp sq delay pps args <> Panic k.
Proof.
  intros fuel cc sc tp sq delay pps args k Hcc Hsc Hwf Hft. unfold sim_advanced.
  destruct (sq_first_time sq) as [t0|]; [|contradiction].
  destruct (fnew_at_total cc tp t0 0%nat (proj1 (proj2 Hcc))) as (cfw & -> & HIc). cbn [bind].
  destruct (fnew_at_total sc tp t0 (Framework.pos cfw) (proj1 (proj2 Hsc))) as (sfw & -> & HIs).
  cbn [bind]. unfold netb_new. cbv zeta. cbn [bind].
  match goal with |- bind (sim_loop fuel cc sc tp args ?st t0 [] 0) _ <> _ =>
    assert (HI : SimInv cc sc st)
      by (unfold SimInv; cbn [m_sq m_c m_s]; auto using new_side_ok);
    pose proof (sim_loop_good cc sc tp args fuel st t0 [] 0 Hcc Hsc HI) as Hg;
    destruct (sim_loop fuel cc sc tp args st t0 [] 0) as [tr|k0|] end;
    cbn [bind no_panic] in *; [discriminate|contradiction|discriminate].
Qed.
