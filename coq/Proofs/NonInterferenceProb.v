(** C10 for ARBITRARY (probabilistic) machines.

    A machine [m] at position [i] of a configuration [c] in which no machine
    can signal.  The combined run on tape [tp] interleaves the draws of
    machine [i] with the draws of its neighbours.  There is a list [l] of
    draws -- an order-preserving sub-sequence of the tape prefix consumed by
    the combined run: machine [i]'s own draws -- such that [m] running alone on
    the projected history on ANY tape that starts with [l] consumes exactly
    [l] and returns, call by call, exactly the actions it returned in the
    combined run ([solo_equals_combined_prob]).  No hypothesis on [m]'s
    distributions or transition probabilities.

    Method.  (1) "Own" steps: a step of machine [i] in the combined run at
    tape position [pos s] is replayed by the solo machine at position
    [pos s1 = pos s - D] on the shifted tape [shift D tp]; the offset [D]
    (the number of draws the neighbours have made so far) is constant during
    the step ([RelD], lemmas [*_own]).  (2) Steps of neighbours leave the solo
    state alone and only advance the combined position (frame lemmas of
    NonInterferenceSolo.v).  (3) [Step]: the two are glued with the tape
    locality theorems (TapeLocal.v): the solo function run on any tape that
    carries the own draws at the solo position gives the same result. *)
From MB Require Import Model.Framework Model.Validate.
From MB Require Import Proofs.Tactics Proofs.ListFacts Proofs.FrameworkStructure Proofs.FrameworkInv
     Proofs.FrameworkTotal Proofs.FrameworkSlots Proofs.FrameworkAcct Proofs.Counters
     Proofs.NonInterference Proofs.TapeLocal Proofs.NonInterferenceSolo.
Open Scope N_scope.

(** ** order-preserving sub-sequences, tape segments *)
Inductive sublist {A} : list A -> list A -> Prop :=
| sl_nil : forall l, sublist [] l
| sl_skip : forall x l1 l2, sublist l1 l2 -> sublist l1 (x :: l2)
| sl_take : forall x l1 l2, sublist l1 l2 -> sublist (x :: l1) (x :: l2).

Definition tape_starts_with (tp1 : tape) (l : list N) : Prop :=
  forall q, (q < length l)%nat -> tp1 q = nth q l 0.

Lemma sublist_refl : forall {A} (l : list A), sublist l l.
Proof. induction l as [|x l IH]; [apply sl_nil|apply sl_take; exact IH]. Qed.

Lemma sublist_app_l : forall {A} (l a b : list A), sublist a b -> sublist a (l ++ b).
Proof. induction l as [|x l IH]; intros a b H; cbn [app]; [exact H|]. apply sl_skip. apply IH. exact H. Qed.

Lemma sublist_app : forall {A} (a b a' b' : list A),
  sublist a b -> sublist a' b' -> sublist (a ++ a') (b ++ b').
Proof.
  intros A a b a' b' H H'. induction H as [l|x l1 l2 H IH|x l1 l2 H IH]; cbn [app].
  - apply sublist_app_l. exact H'.
  - apply sl_skip. exact IH.
  - apply sl_take. exact IH.
Qed.

Lemma sublist_length : forall {A} (a b : list A), sublist a b -> (length a <= length b)%nat.
Proof. intros A a b H. induction H; cbn [length]; lia. Qed.

(** the tape entries at positions a, ..., b-1 *)
Definition seg (tp : tape) (a b : nat) : list N := map tp (seq a (b - a)).

Lemma seg_length : forall tp a b, length (seg tp a b) = (b - a)%nat.
Proof. intros. unfold seg. rewrite map_length, seq_length. reflexivity. Qed.

Lemma seg_app : forall tp a b c, (a <= b <= c)%nat -> seg tp a c = seg tp a b ++ seg tp b c.
Proof.
  intros tp a b c H. unfold seg.
  replace (c - a)%nat with ((b - a) + (c - b))%nat by lia.
  rewrite seq_app, map_app. replace (a + (b - a))%nat with b by lia. reflexivity.
Qed.

Lemma seg_nth : forall tp a b q, (q < b - a)%nat -> nth q (seg tp a b) 0 = tp (a + q)%nat.
Proof.
  intros tp a b q H. unfold seg.
  rewrite (nth_indep _ 0 (tp 0%nat)) by (rewrite map_length, seq_length; exact H).
  rewrite map_nth, seq_nth by exact H. reflexivity.
Qed.

Lemma seg_empty : forall tp a, seg tp a a = [].
Proof. intros. unfold seg. rewrite Nat.sub_diag. reflexivity. Qed.

Lemma sublist_seg_widen : forall tp l a b a' b',
  sublist l (seg tp a b) -> (a' <= a)%nat -> (a <= b)%nat -> (b <= b')%nat -> sublist l (seg tp a' b').
Proof.
  intros tp l a b a' b' H H1 H2 H3.
  rewrite (seg_app tp a' a b') by lia. apply sublist_app_l.
  rewrite (seg_app tp a b b') by lia. rewrite <- (app_nil_r l).
  apply sublist_app; [exact H|apply sl_nil].
Qed.

(** [tp1] carries the list [l] from position [p] on *)
Definition starts_at (tp1 : tape) (p : nat) (l : list N) : Prop :=
  forall q, (q < length l)%nat -> tp1 (p + q)%nat = nth q l 0.

Lemma starts_at_app : forall tp1 p l1 l2,
  starts_at tp1 p (l1 ++ l2) -> starts_at tp1 p l1 /\ starts_at tp1 (p + length l1) l2.
Proof.
  intros tp1 p l1 l2 H. split; intros q Hq.
  - rewrite H by (rewrite app_length; lia). apply app_nth1. exact Hq.
  - rewrite <- Nat.add_assoc. rewrite H by (rewrite app_length; lia).
    rewrite app_nth2 by lia. f_equal. lia.
Qed.

(** the tape [tp] read [D] positions further *)
Definition shift (D : nat) (tp : tape) : tape := fun q => tp (q + D)%nat.

Lemma starts_at_seg_agree : forall tp tp1 D p1 p1',
  starts_at tp1 p1 (seg tp (p1 + D) (p1' + D)) -> agree (shift D tp) tp1 p1 p1'.
Proof.
  intros tp tp1 D p1 p1' H q Hq. specialize (H (q - p1)%nat).
  rewrite seg_length in H. replace (p1 + (q - p1))%nat with q in H by lia.
  rewrite H by lia. rewrite seg_nth by lia. unfold shift. f_equal. lia.
Qed.

(** ** the samplers on two tapes that carry the same entries at two positions *)
Definition ALk (tp tp1 : tape) (p p1 k : nat) : Prop :=
  forall q, (q < k)%nat -> tp1 (p1 + q)%nat = tp (p + q)%nat.

Lemma ALk_shift : forall tp D p p1 k, p = (p1 + D)%nat -> ALk tp (shift D tp) p p1 k.
Proof. intros tp D p p1 k -> q _. unfold shift. f_equal. lia. Qed.

Lemma ALk_0 : forall tp tp1 p p1 k, ALk tp tp1 p p1 k -> (0 < k)%nat -> tp1 p1 = tp p.
Proof. intros tp tp1 p p1 k H Hk. specialize (H 0%nat Hk). rewrite !Nat.add_0_r in H. exact H. Qed.

Lemma dist_sample_al : forall tp tp1 p p1 d, tp1 p1 = tp p ->
  dist_sample tp1 p1 d = (fst (dist_sample tp p d), S p1).
Proof.
  intros tp tp1 p p1 d H. unfold dist_sample. rewrite H.
  destruct (dtype d); try reflexivity. destruct (feq _ _); reflexivity.
Qed.

Lemma dist_sample_clamped_al : forall tp tp1 p p1 d, tp1 p1 = tp p ->
  dist_sample_clamped tp1 p1 d = (fst (dist_sample_clamped tp p d), S p1).
Proof.
  intros tp tp1 p p1 d H. unfold dist_sample_clamped. rewrite (dist_sample_al tp tp1 p p1 d H).
  destruct (dist_sample tp p d) as [raw q]. cbn [fst]. destruct (fgt _ _); reflexivity.
Qed.

Lemma sample_day_clamped_al : forall tp p d v p',
  sample_day_clamped tp p d = (v, p') ->
  p' = S p /\ forall tp1 p1, tp1 p1 = tp p -> sample_day_clamped tp1 p1 d = (v, S p1).
Proof.
  intros tp p d v p' H. split; [eapply sample_day_clamped_pos; exact H|].
  intros tp1 p1 Ht. revert H. unfold sample_day_clamped.
  rewrite (dist_sample_clamped_al tp tp1 p p1 d Ht).
  destruct (dist_sample_clamped tp p d) as [x q]. cbn [fst]. intro H; inversion H; reflexivity.
Qed.

Lemma sample_limit_al : forall tp p a v p',
  sample_limit tp p a = (v, p') ->
  exists k, p' = (p + k)%nat /\ forall tp1 p1, ALk tp tp1 p p1 k -> sample_limit tp1 p1 a = (v, (p1 + k)%nat).
Proof.
  intros tp p a v p' H. unfold sample_limit in *.
  destruct a as [t|b r t [l|]|b r t d [l|]|r d [l|]];
    try (inversion H; subst; exists 0%nat; split; [lia|]; intros tp1 p1 _; rewrite Nat.add_0_r; reflexivity);
    (destruct (dist_sample_clamped tp p l) as [x q] eqn:E;
     pose proof (dist_sample_clamped_pos _ _ _ _ _ E) as Hq; inversion H; subst;
     exists 1%nat; split; [lia|]; intros tp1 p1 Hal;
     rewrite (dist_sample_clamped_al tp tp1 p p1 l) by (eapply ALk_0; [exact Hal|lia]);
     rewrite E; cbn [fst]; rewrite Nat.add_1_r; reflexivity).
Qed.

Lemma sample_value_al : forall tp p cn v p',
  sample_value tp p cn = (v, p') ->
  exists k, p' = (p + k)%nat /\ forall tp1 p1, ALk tp tp1 p p1 k -> sample_value tp1 p1 cn = (v, (p1 + k)%nat).
Proof.
  intros tp p cn v p' H. unfold sample_value in *. destruct (cdist cn) as [d|].
  - destruct (dist_sample_clamped tp p d) as [x q] eqn:E.
    pose proof (dist_sample_clamped_pos _ _ _ _ _ E) as Hq. inversion H; subst.
    exists 1%nat. split; [lia|]. intros tp1 p1 Hal.
    rewrite (dist_sample_clamped_al tp tp1 p p1 d) by (eapply ALk_0; [exact Hal|lia]).
    rewrite E. cbn [fst]. rewrite Nat.add_1_r. reflexivity.
  - inversion H; subst. exists 0%nat. split; [lia|]. intros tp1 p1 _. rewrite Nat.add_0_r. reflexivity.
Qed.

Lemma sample_state_al : forall tp p st ev v p',
  sample_state tp p st ev = (v, p') ->
  exists k, p' = (p + k)%nat /\ forall tp1 p1, ALk tp tp1 p p1 k -> sample_state tp1 p1 st ev = (v, (p1 + k)%nat).
Proof.
  intros tp p st ev v p' H. unfold sample_state in *.
  destruct (nth_error (strans st) (event_idx ev)) as [[l|]|];
    try (inversion H; subst; exists 0%nat; split; [lia|]; intros tp1 p1 _; rewrite Nat.add_0_r; reflexivity).
  inversion H; subst. exists 1%nat. split; [lia|]. intros tp1 p1 Hal.
  rewrite (ALk_0 _ _ _ _ _ Hal) by lia. rewrite Nat.add_1_r. reflexivity.
Qed.

(** ** [update_counter] in two named halves *)
Definition uc_a (tp : tape) (p : nat) (st : state) (r : mrt) : mrt * nat * bool :=
  match sctr_a st with
  | None => (r, p, false)
  | Some cn =>
      let '(change, p) := if ccopy cn then (cb r, p) else sample_value tp p cn in
      let v := apply_op (cop cn) (ca r) change in
      if negb (ca r =? 0) && (v =? 0) && negb (za r)
      then (rt_set_ca r v true, p, true)
      else (rt_set_ca r v (za r), p, false)
  end.

Definition uc_b (tp : tape) (p : nat) (st : state) (r0 r : mrt) : mrt * nat * bool :=
  match sctr_b st with
  | None => (r, p, false)
  | Some cn =>
      let '(change, p) := if ccopy cn then (ca r0, p) else sample_value tp p cn in
      let v := apply_op (cop cn) (cb r) change in
      if negb (cb r0 =? 0) && (v =? 0) && negb (zb r)
      then (rt_set_cb r v true, p, true)
      else (rt_set_cb r v (zb r), p, false)
  end.

Lemma update_counter_eq : forall trans c tp s mi,
  update_counter trans c tp s mi =
  (m <- get (machines c) mi ;;
   r <- get (rts s) mi ;;
   st <- getN (states m) (cur r) ;;
   let '(rA, pA, zA) := uc_a tp (pos s) st r in
   let '(rB, pB, zB) := uc_b tp pA st r rA in
   let s := set_pos (set_rt s mi rB) pB in
   if zA || zB then
     let s := add_log s (LOG_CZERO, N.of_nat mi, 0) in
     '(s, changed) <- trans s mi CounterZero ;;
     slot <- get (slots s) mi ;;
     Ok (s, match slot with None => true | Some _ => false end, changed)
   else Ok (s, true, false)).
Proof. reflexivity. Qed.

Lemma uc_a_al : forall tp p st r rA pA zA,
  uc_a tp p st r = (rA, pA, zA) ->
  exists k, pA = (p + k)%nat /\ forall tp1 p1, ALk tp tp1 p p1 k -> uc_a tp1 p1 st r = (rA, (p1 + k)%nat, zA).
Proof.
  intros tp p st r rA pA zA H. unfold uc_a in *. destruct (sctr_a st) as [cn|].
  2:{ inversion H; subst. exists 0%nat. split; [lia|]. intros tp1 p1 _. rewrite Nat.add_0_r. reflexivity. }
  destruct (ccopy cn).
  - exists 0%nat. cbv zeta in *.
    destruct (negb (ca r =? 0) && (apply_op (cop cn) (ca r) (cb r) =? 0) && negb (za r));
      inversion H; subst; (split; [lia|]); intros tp1 p1 _; rewrite Nat.add_0_r; reflexivity.
  - destruct (sample_value tp p cn) as [chg q] eqn:E.
    apply sample_value_al in E. destruct E as (k & -> & E1). exists k. cbv zeta in *.
    destruct (negb (ca r =? 0) && (apply_op (cop cn) (ca r) chg =? 0) && negb (za r)) eqn:Ez;
      inversion H; subst; (split; [reflexivity|]); intros tp1 p1 Hal; rewrite (E1 tp1 p1 Hal), Ez; reflexivity.
Qed.

Lemma uc_b_al : forall tp p st r0 r rB pB zB,
  uc_b tp p st r0 r = (rB, pB, zB) ->
  exists k, pB = (p + k)%nat /\ forall tp1 p1, ALk tp tp1 p p1 k -> uc_b tp1 p1 st r0 r = (rB, (p1 + k)%nat, zB).
Proof.
  intros tp p st r0 r rB pB zB H. unfold uc_b in *. destruct (sctr_b st) as [cn|].
  2:{ inversion H; subst. exists 0%nat. split; [lia|]. intros tp1 p1 _. rewrite Nat.add_0_r. reflexivity. }
  destruct (ccopy cn).
  - exists 0%nat. cbv zeta in *.
    destruct (negb (cb r0 =? 0) && (apply_op (cop cn) (cb r) (ca r0) =? 0) && negb (zb r));
      inversion H; subst; (split; [lia|]); intros tp1 p1 _; rewrite Nat.add_0_r; reflexivity.
  - destruct (sample_value tp p cn) as [chg q] eqn:E.
    apply sample_value_al in E. destruct E as (k & -> & E1). exists k. cbv zeta in *.
    destruct (negb (cb r0 =? 0) && (apply_op (cop cn) (cb r) chg =? 0) && negb (zb r)) eqn:Ez;
      inversion H; subst; (split; [reflexivity|]); intros tp1 p1 Hal; rewrite (E1 tp1 p1 Hal), Ez; reflexivity.
Qed.

(** ** own steps: machine i in the combined run on [tp], the solo machine on
    the shifted tape *)
Section Own.
  Variable c : cfg.
  Variable i : nat.
  Variable m : machine.
  Variable tp : tape.
  Hypothesis Hm : nth_error (machines c) i = Some m.
  Hypothesis Hns : no_signal c.

  Local Notation c1 := (solo_cfg c m).

  (** [Rel] plus: the combined position is [D] ahead of the solo position *)
  Definition RelD (D : nat) (s s1 : fstate) : Prop :=
    Rel i s s1 /\ pos s = (pos s1 + D)%nat.

  Lemma RelD_core : forall D s s1 s' s1',
    RelD D s s1 -> core s' = core s -> core s1' = core s1 ->
    pos s' = pos s -> pos s1' = pos s1 -> RelD D s' s1'.
  Proof.
    intros D s s1 s' s1' [HR HP] H H1 P P1. split; [eapply Rel_core; eauto|congruence].
  Qed.

  Ltac ghostD HR := apply (RelD_core _ _ _ _ _ HR); reflexivity.

  Lemma Rel_get_rt1 : forall s s1 r, Rel i s s1 -> get (rts s) i = Ok r -> get (rts s1) 0 = Ok r.
  Proof.
    intros s s1 r HR H. destruct (rl_rt _ _ _ HR) as (r0 & Hr & Hr1).
    apply get_ok in H. rewrite Hr1. unfold get. cbn [nth_error]. congruence.
  Qed.

  Lemma Rel_get_slot1 : forall s s1 sl, Rel i s s1 -> get (slots s) i = Ok sl ->
    exists sl1, get (slots s1) 0 = Ok sl1 /\ sl = option_map (rename_to i) sl1.
  Proof.
    intros s s1 sl HR H. destruct (rl_slot _ _ _ HR) as (sl1 & Hs & Hs1).
    apply get_ok in H. exists sl1. split; [rewrite Hs1; reflexivity|congruence].
  Qed.

  Lemma RelD_set_rt : forall D s s1 r', RelD D s s1 -> RelD D (set_rt s i r') (set_rt s1 0 r').
  Proof. intros D s s1 r' [HR HP]. split; [apply Rel_set_rt; exact HR|exact HP]. Qed.

  Lemma RelD_set_slot : forall D s s1 a,
    RelD D s s1 -> RelD D (set_slot s i (option_map (rename_to i) a)) (set_slot s1 0 a).
  Proof. intros D s s1 a [HR HP]. split; [apply Rel_set_slot; exact HR|exact HP]. Qed.

  Lemma RelD_set_pos : forall D s s1 k,
    RelD D s s1 -> RelD D (set_pos s (pos s + k)) (set_pos s1 (pos s1 + k)).
  Proof.
    intros D s s1 k [HR HP]. split; [apply (Rel_core _ _ _ _ _ HR); reflexivity|].
    cbn [pos set_pos]. lia.
  Qed.

  Lemma ALk_D : forall D s s1 k, RelD D s s1 -> ALk tp (shift D tp) (pos s) (pos s1) k.
  Proof. intros D s s1 k [_ HP]. apply ALk_shift. exact HP. Qed.

  (** *** schedule_action *)
  Lemma schedule_action_own : forall D s s1 ns s',
    RelD D s s1 -> schedule_action c tp s i ns = Ok s' ->
    exists s1', schedule_action c1 (shift D tp) s1 0 ns = Ok s1' /\ RelD D s' s1'.
  Proof.
    unfold schedule_action; intros D s s1 ns s' HR H.
    rewrite (machine_comb c i m Hm) in H. rewrite machine_solo. cbn [bind] in H |- *.
    mbind H as st Est. cbn [bind].
    set (sL := add_log s (LOG_SCHED, N.of_nat i, ns)) in *.
    set (sL1 := add_log s1 (LOG_SCHED, N.of_nat 0, ns)) in *.
    assert (HRL : RelD D sL sL1) by (ghostD HR).
    mbind H as sl Esl.
    destruct (Rel_get_slot1 _ _ _ (proj1 HRL) Esl) as (sl1 & Esl1 & _). rewrite Esl1. cbn [bind].
    assert (Ht : shift D tp (pos sL1) = tp (pos sL)) by (unfold shift; rewrite (proj2 HRL); reflexivity).
    destruct (saction st) as [[t|b r t l|b r t d l|r d l]|] eqn:Ea.
    - inversion H; subst. eexists. split; [reflexivity|].
      exact (RelD_set_slot _ _ _ (Some (TCancel 0 t)) HRL).
    - destruct (sample_day_clamped tp (pos sL) t) as [v p] eqn:E.
      apply sample_day_clamped_al in E. destruct E as [-> E1].
      rewrite (E1 _ _ Ht). inversion H; subst. eexists. split; [reflexivity|].
      apply (RelD_set_slot _ _ _ (Some (TSendPadding 0 (c_from_micros (clk c) v) b r))).
      pose proof (RelD_set_pos _ _ _ 1 HRL) as HRp. rewrite !Nat.add_1_r in HRp. exact HRp.
    - destruct (sample_day_clamped tp (pos sL) t) as [v p] eqn:E.
      apply sample_day_clamped_al in E. destruct E as [-> E1].
      rewrite (E1 _ _ Ht).
      destruct (sample_day_clamped tp (S (pos sL)) d) as [v2 p2] eqn:E2.
      apply sample_day_clamped_al in E2. destruct E2 as [-> E21].
      rewrite (E21 (shift D tp) (S (pos sL1)))
        by (unfold shift; rewrite (proj2 HRL); reflexivity).
      inversion H; subst. eexists. split; [reflexivity|].
      apply (RelD_set_slot _ _ _ (Some (TBlockOutgoing 0 (c_from_micros (clk c) v) (c_from_micros (clk c) v2) b r))).
      pose proof (RelD_set_pos _ _ _ 2 HRL) as HRp.
      replace (pos sL + 2)%nat with (S (S (pos sL))) in HRp by lia.
      replace (pos sL1 + 2)%nat with (S (S (pos sL1))) in HRp by lia. exact HRp.
    - destruct (sample_day_clamped tp (pos sL) d) as [v p] eqn:E.
      apply sample_day_clamped_al in E. destruct E as [-> E1].
      rewrite (E1 _ _ Ht). inversion H; subst. eexists. split; [reflexivity|].
      apply (RelD_set_slot _ _ _ (Some (TUpdateTimer 0 (c_from_micros (clk c) v) r))).
      pose proof (RelD_set_pos _ _ _ 1 HRL) as HRp. rewrite !Nat.add_1_r in HRp. exact HRp.
    - inversion H; subst. eexists. split; [reflexivity|].
      exact (RelD_set_slot _ _ _ None HRL).
  Qed.

  (** *** update_counter, given the simulation for the nested transition *)
  Lemma update_counter_own :
    forall (tr tr1 : fstate -> nat -> event -> outcome (fstate * bool)) D s s1 s' al ch,
    (forall sa sa1 sb b, RelD D sa sa1 -> tr sa i CounterZero = Ok (sb, b) ->
       exists sb1, tr1 sa1 0%nat CounterZero = Ok (sb1, b) /\ RelD D sb sb1) ->
    RelD D s s1 ->
    update_counter tr c tp s i = Ok (s', al, ch) ->
    exists s1', update_counter tr1 c1 (shift D tp) s1 0 = Ok (s1', al, ch) /\ RelD D s' s1'.
  Proof.
    intros tr tr1 D s s1 s' al ch Htr HR H. rewrite update_counter_eq in H |- *.
    rewrite (machine_comb c i m Hm) in H. rewrite machine_solo. cbn [bind] in H |- *.
    mbind H as r Er. rewrite (Rel_get_rt1 _ _ _ (proj1 HR) Er). cbn [bind].
    mbind H as st Est. cbn [bind].
    destruct (uc_a tp (pos s) st r) as [[rA pA] zA] eqn:EA.
    apply uc_a_al in EA. destruct EA as (k & -> & EA1).
    rewrite (EA1 _ _ (ALk_D _ _ _ k HR)).
    destruct (uc_b tp (pos s + k) st r rA) as [[rB pB] zB] eqn:EB.
    apply uc_b_al in EB. destruct EB as (k2 & -> & EB1).
    rewrite (EB1 (shift D tp) (pos s1 + k)%nat) by (apply ALk_shift; destruct HR as [_ HP]; lia).
    cbv zeta in H |- *.
    assert (HRa : RelD D (set_pos (set_rt s i rB) (pos s + k + k2)) (set_pos (set_rt s1 0 rB) (pos s1 + k + k2))).
    { pose proof (RelD_set_pos _ _ _ (k + k2) (RelD_set_rt _ _ _ rB HR)) as X.
      cbn [pos set_rt set_rts] in X. rewrite !Nat.add_assoc in X. exact X. }
    destruct (zA || zB).
    - mbind H as [s2 chg] E2.
      assert (HRb : RelD D (add_log (set_pos (set_rt s i rB) (pos s + k + k2)) (LOG_CZERO, N.of_nat i, 0))
                        (add_log (set_pos (set_rt s1 0 rB) (pos s1 + k + k2)) (LOG_CZERO, N.of_nat 0, 0)))
        by (ghostD HRa).
      destruct (Htr _ _ _ _ HRb E2) as (sb1 & E21 & HR2). rewrite E21. cbn [bind].
      mbind H as slot Esl.
      destruct (Rel_get_slot1 _ _ _ (proj1 HR2) Esl) as (sl1 & Esl1 & Hsl). rewrite Esl1. cbn [bind].
      inversion H; subst. eexists. split; [|exact HR2]. destruct sl1; reflexivity.
    - inversion H; subst. eexists. split; [reflexivity|exact HRa].
  Qed.

  (** *** one machine step *)
  Lemma transition_own : forall fuel D s s1 ev s' b,
    RelD D s s1 ->
    transition fuel c tp s i ev = Ok (s', b) ->
    exists s1', transition fuel c1 (shift D tp) s1 0 ev = Ok (s1', b) /\ RelD D s' s1'.
  Proof.
    induction fuel as [|fuel IH]; intros D s s1 ev s' b HR H; [discriminate H|].
    cbn [transition] in H |- *.
    set (s0 := add_step (add_log s (LOG_TRANS, N.of_nat i, N.of_nat (event_idx ev)))) in *.
    set (s10 := add_step (add_log s1 (LOG_TRANS, N.of_nat 0, N.of_nat (event_idx ev)))) in *.
    assert (HR0 : RelD D s0 s10) by (ghostD HR).
    mbind H as r Er. rewrite (Rel_get_rt1 _ _ _ (proj1 HR0) Er). cbn [bind].
    destruct (cur r =? STATE_END).
    { inversion H; subst. eexists. split; [reflexivity|exact HR0]. }
    rewrite (machine_comb c i m Hm) in H. rewrite machine_solo. cbn [bind] in H |- *.
    mbind H as st Est. cbn [bind].
    pose proof Est as Hin. apply getN_ok in Hin. apply nthN_In in Hin.
    destruct (sample_state tp (pos s0) st ev) as [nxt p] eqn:Es.
    pose proof Es as Es'. apply sample_state_al in Es'. destruct Es' as (k & -> & Es1).
    rewrite (Es1 _ _ (ALk_D _ _ _ k HR0)).
    pose proof (RelD_set_pos _ _ _ k HR0) as HRp.
    destruct nxt as [ns|].
    2:{ inversion H; subst. eexists. split; [reflexivity|exact HRp]. }
    set (sA := add_log (set_pos s0 (pos s0 + k)) (LOG_NEXT, N.of_nat i, ns)) in *.
    set (sA1 := add_log (set_pos s10 (pos s10 + k)) (LOG_NEXT, N.of_nat 0, ns)) in *.
    assert (HRA : RelD D sA sA1) by (ghostD HRp).
    destruct (ns =? STATE_END).
    { inversion H; subst. eexists. split; [reflexivity|apply RelD_set_rt; exact HRA]. }
    destruct (N.eqb_spec ns STATE_SIGNAL) as [Hsg|Hnsg].
    { exfalso. eapply (sample_state_no_signal m); eauto.
      apply Hns. eapply nth_error_In; eauto. }
    mbind H as s2 E2.
    assert (X2 : exists s12,
      (if negb (cur r =? ns)
       then nst <- getN (states m) ns;;
            (let '(l, p0) := match saction nst with
                             | Some a => sample_limit (shift D tp) (pos sA1) a
                             | None => (STATE_LIMIT_MAX, pos sA1)
                             end in
             Ok (set_pos (set_rt (add_log sA1 (LOG_CHANGE, N.of_nat 0, ns)) 0 (rt_set_cur r ns l)) p0))
       else Ok sA1) = Ok s12 /\ RelD D s2 s12).
    { destruct (negb (cur r =? ns)); [|inversion E2; subst; eexists; split; [reflexivity|exact HRA]].
      mbind E2 as nst Enst. cbn [bind].
      assert (HRl : RelD D (add_log sA (LOG_CHANGE, N.of_nat i, ns)) (add_log sA1 (LOG_CHANGE, N.of_nat 0, ns)))
        by (ghostD HRA).
      destruct (saction nst) as [a|].
      - destruct (sample_limit tp (pos sA) a) as [l q] eqn:El.
        apply sample_limit_al in El. destruct El as (k2 & -> & El1).
        rewrite (El1 _ _ (ALk_D _ _ _ k2 HRA)). inversion E2; subst.
        eexists. split; [reflexivity|].
        exact (RelD_set_pos _ _ _ k2 (RelD_set_rt _ _ _ (rt_set_cur r ns l) HRl)).
      - inversion E2; subst. eexists. split; [reflexivity|].
        pose proof (RelD_set_pos _ _ _ 0 (RelD_set_rt _ _ _ (rt_set_cur r ns STATE_LIMIT_MAX) HRl)) as X.
        rewrite !Nat.add_0_r in X. exact X. }
    destruct X2 as (s12 & E12 & HR2). rewrite E12. cbn [bind].
    mbind H as r2 Er2. rewrite (Rel_get_rt1 _ _ _ (proj1 HR2) Er2). cbn [bind].
    rewrite (below_solo c i m _ _ r2 (proj1 HR2)).
    mbind H as below Ebel. cbn [bind].
    mbind H as [[s3 allow] chg] Euc.
    destruct (update_counter_own (transition fuel c tp) (transition fuel c1 (shift D tp)) D _ _ _ _ _
                (fun sa sa1 sb bb HRx Hx => IH D sa sa1 CounterZero sb bb HRx Hx) HR2 Euc) as (s13 & Euc1 & HR3).
    rewrite Euc1. cbn [bind].
    mbind H as s4 Esch.
    assert (X4 : exists s14,
      (if allow && below then schedule_action c1 (shift D tp) s13 0 ns else Ok s13) = Ok s14 /\ RelD D s4 s14).
    { destruct (allow && below).
      - eapply schedule_action_own; eauto.
      - inversion Esch; subst. eexists. split; [reflexivity|exact HR3]. }
    destruct X4 as (s14 & Esch1 & HR4). rewrite Esch1. cbn [bind].
    mbind H as r4 Er4. rewrite (Rel_get_rt1 _ _ _ (proj1 HR4) Er4). cbn [bind].
    inversion H; subst. eexists. split; [reflexivity|exact HR4].
  Qed.

  (** *** decrement_limit and trans_dec *)
  Lemma decrement_limit_own : forall D s s1 s',
    RelD D s s1 -> decrement_limit c tp s i = Ok s' ->
    exists s1', decrement_limit c1 (shift D tp) s1 0 = Ok s1' /\ RelD D s' s1'.
  Proof.
    unfold decrement_limit; intros D s s1 s' HR H. cbv zeta in H |- *.
    set (sL := add_log s (LOG_DEC, N.of_nat i, 0)) in *.
    set (sL1 := add_log s1 (LOG_DEC, N.of_nat 0, 0)) in *.
    assert (HRL : RelD D sL sL1) by (ghostD HR).
    mbind H as r0 Er0. rewrite (Rel_get_rt1 _ _ _ (proj1 HRL) Er0). cbn [bind].
    set (r := if 0 <? lim r0 then rt_set_lim r0 (lim r0 - 1) else r0) in *.
    assert (HRr : RelD D (set_rt sL i r) (set_rt sL1 0 r)) by (apply RelD_set_rt; exact HRL).
    rewrite (machine_comb c i m Hm) in H. rewrite machine_solo. cbn [bind] in H |- *.
    mbind H as st Est. cbn [bind].
    destruct (saction st) as [act|]; [|inversion H; subst; eexists; split; [reflexivity|exact HRr]].
    destruct ((lim r =? 0) && action_has_limit act);
      [|inversion H; subst; eexists; split; [reflexivity|exact HRr]].
    mbind H as [s2 b] E2. inversion H; subst.
    assert (HRn : RelD D (add_log (set_slot (set_rt sL i r) i None) (LOG_LIMIT, N.of_nat i, 0))
                      (add_log (set_slot (set_rt sL1 0 r) 0 None) (LOG_LIMIT, N.of_nat 0, 0))).
    { pose proof (RelD_set_slot _ _ _ None HRr) as X. ghostD X. }
    destruct (transition_own _ _ _ _ _ _ _ HRn E2) as (s12 & E12 & HR2).
    rewrite E12. cbn [bind]. eexists. split; [reflexivity|exact HR2].
  Qed.

  Lemma trans_dec_own : forall D s s1 ev dec s',
    RelD D s s1 -> trans_dec c tp s i ev dec = Ok s' ->
    exists s1', trans_dec c1 (shift D tp) s1 0 ev dec = Ok s1' /\ RelD D s' s1'.
  Proof.
    unfold trans_dec; intros D s s1 ev dec s' HR H.
    mbind H as [sa chg] E. destruct (transition_own _ _ _ _ _ _ _ HR E) as (sa1 & E1 & HRa).
    rewrite E1. cbn [bind].
    mbind H as r Er. rewrite (Rel_get_rt1 _ _ _ (proj1 HRa) Er). cbn [bind].
    destruct (negb chg && negb (cur r =? STATE_END) && dec).
    - eapply decrement_limit_own; eauto.
    - inversion H; subst. eexists. split; [reflexivity|exact HRa].
  Qed.

  (** *** the bodies of the four loops, machine i *)
  Lemma tr_own : forall D ev s s1 s',
    RelD D s s1 -> tr_body c tp ev i s = Ok s' ->
    exists s1', trans_all c1 (shift D tp) ev 1 0 s1 = Ok s1' /\ RelD D s' s1'.
  Proof.
    unfold tr_body; intros D ev s s1 s' HR H. mbind H as [sx b] E. inversion H; subst.
    destruct (transition_own _ _ _ _ _ _ _ HR E) as (sx1 & E1 & HRx).
    cbn [trans_all]. rewrite E1. cbn [bind]. eexists. split; [reflexivity|exact HRx].
  Qed.

  Lemma ns_own : forall D s s1 s',
    RelD D s s1 -> ns_body c tp i s = Ok s' ->
    exists s1', normal_sent_all c1 (shift D tp) 1 0 s1 = Ok s1' /\ RelD D s' s1'.
  Proof.
    unfold ns_body; intros D s s1 s' HR H. mbind H as r Er. mbind H as [sx b] E. inversion H; subst.
    cbn [normal_sent_all]. rewrite (Rel_get_rt1 _ _ _ (proj1 HR) Er). cbn [bind].
    destruct (transition_own _ _ _ _ _ _ _ (RelD_set_rt _ _ _ (rt_set_nsent r (nsent r + 1)) HR) E)
      as (sx1 & E1 & HRx).
    rewrite E1. cbn [bind]. eexists. split; [reflexivity|exact HRx].
  Qed.

  Lemma bb_own : forall D x s s1 s',
    RelD D s s1 -> bb_body c tp x i s = Ok s' ->
    exists s1', blocking_begin_all c1 (shift D tp) (proj_id i x) 1 0 s1 = Ok s1' /\ RelD D s' s1'.
  Proof.
    unfold bb_body; intros D x s s1 s' HR H.
    destruct (trans_dec_own _ _ _ _ _ _ HR H) as (sx1 & E1 & HRx).
    cbn [blocking_begin_all]. change (N.of_nat 0) with 0. rewrite proj_id_self, E1. cbn [bind].
    eexists. split; [reflexivity|exact HRx].
  Qed.

  Lemma be_own : forall D blocked s s1 s',
    RelD D s s1 -> be_body c tp blocked i s = Ok s' ->
    exists s1', blocking_end_all c1 (shift D tp) blocked 1 0 s1 = Ok s1' /\ RelD D s' s1'.
  Proof.
    unfold be_body; intros D blocked s s1 s' HR H. mbind H as r Er. mbind H as s0 E0.
    mbind H as [sx b] E. inversion H; subst.
    cbn [blocking_end_all]. rewrite (Rel_get_rt1 _ _ _ (proj1 HR) Er). cbn [bind].
    change (clk c1) with (clk c).
    assert (X0 : exists s10,
      (if negb (blocked =? 0)
       then d <- c_add (clk c) (bdur r) blocked;; Ok (set_rt s1 0 (rt_set_bdur r d))
       else Ok s1) = Ok s10 /\ RelD D s0 s10).
    { destruct (negb (blocked =? 0)); [|inversion E0; subst; eexists; split; [reflexivity|exact HR]].
      mbind E0 as d Ed. cbn [bind]. inversion E0; subst. eexists. split; [reflexivity|].
      apply RelD_set_rt. exact HR. }
    destruct X0 as (s10 & E10 & HR0). rewrite E10. cbn [bind].
    destruct (transition_own _ _ _ _ _ _ _ HR0 E) as (sx1 & E1 & HRx).
    rewrite E1. cbn [bind]. eexists. split; [reflexivity|exact HRx].
  Qed.

  (** ** gluing own steps and neighbours' steps *)

  (** [Rel] plus: the solo run has consumed no more than the combined run *)
  Definition RelP (s s1 : fstate) : Prop := Rel i s s1 /\ (pos s1 <= pos s)%nat.

  (** the combined run went from [s] to [s']; [ext] is the part of the
      consumed segment that machine i drew; the solo computation [f1] on any
      tape carrying [ext] at the solo position returns the related state *)
  Definition Step (s s' s1 : fstate) (f1 : tape -> outcome fstate) : Prop :=
    (pos s <= pos s')%nat /\
    exists ext s1', sublist ext (seg tp (pos s) (pos s')) /\ Rel i s' s1' /\
      pos s1' = (pos s1 + length ext)%nat /\
      forall tp1, starts_at tp1 (pos s1) ext -> f1 tp1 = Ok s1'.

  Lemma Step_own : forall s s' s1 (f1 : tape -> outcome fstate),
    RelP s s1 ->
    (forall D, RelD D s s1 -> exists s1', f1 (shift D tp) = Ok s1' /\ RelD D s' s1') ->
    (forall tpA tpB, Loc tpA tpB (pos s1) pos (f1 tpA) (f1 tpB)) ->
    Step s s' s1 f1.
  Proof.
    intros s s' s1 f1 [HR HP] Hown Hloc.
    set (D := (pos s - pos s1)%nat).
    assert (HD : RelD D s s1) by (split; [exact HR|subst D; lia]).
    destruct (Hown D HD) as (s1' & E1 & HR' & HP').
    destruct (Hloc (shift D tp) (shift D tp)) as [Hok _]. destruct (Hok _ E1) as [Hle _].
    destruct HD as [_ HPD].
    split; [lia|].
    exists (seg tp (pos s) (pos s')), s1'. split; [apply sublist_refl|]. split; [exact HR'|].
    split; [rewrite seg_length; lia|].
    intros tp1 Hst. destruct (Hloc (shift D tp) tp1) as [Hok1 _]. apply (Hok1 _ E1).
    apply starts_at_seg_agree. rewrite <- HP', <- HPD. exact Hst.
  Qed.

  Lemma Step_foreign : forall s s' s1 s1x (f1 : tape -> outcome fstate),
    Rel i s' s1x -> pos s1x = pos s1 -> (pos s <= pos s')%nat ->
    (forall tp1, f1 tp1 = Ok s1x) -> Step s s' s1 f1.
  Proof.
    intros s s' s1 s1x f1 HR HP Hle Hf. split; [exact Hle|].
    exists [], s1x. split; [apply sl_nil|]. split; [exact HR|]. split; [cbn [length]; lia|].
    intros tp1 _. apply Hf.
  Qed.

  Lemma Step_pre : forall s sa s' s1 f1,
    (pos s <= pos sa)%nat -> Step sa s' s1 f1 -> Step s s' s1 f1.
  Proof.
    intros s sa s' s1 f1 Hle [Hle2 (ext & s1' & Hsub & HR & HP & Hf)]. split; [lia|].
    exists ext, s1'. split; [|auto]. eapply sublist_seg_widen; eauto.
  Qed.

  Lemma Step_post : forall s sa s' s1 f1,
    Step s sa s1 f1 -> (pos sa <= pos s')%nat -> (forall s1', Rel i sa s1' -> Rel i s' s1') ->
    Step s s' s1 f1.
  Proof.
    intros s sa s' s1 f1 [Hle (ext & s1' & Hsub & HR & HP & Hf)] Hle2 Hpres. split; [lia|].
    exists ext, s1'. split; [|auto]. eapply sublist_seg_widen; eauto.
  Qed.

  Lemma Step_seq : forall s sa s' s1 (f1 : tape -> outcome fstate) (g1 : fstate -> tape -> outcome fstate),
    RelP s s1 -> Step s sa s1 f1 ->
    (forall s1a, RelP sa s1a -> Step sa s' s1a (g1 s1a)) ->
    Step s s' s1 (fun tp1 => x <- f1 tp1 ;; g1 x tp1).
  Proof.
    intros s sa s' s1 f1 g1 [_ HP0] [Hle (ext & s1a & Hsub & HR & HP & Hf)] Hg.
    assert (HRP : RelP sa s1a).
    { split; [exact HR|]. apply sublist_length in Hsub. rewrite seg_length in Hsub. lia. }
    destruct (Hg s1a HRP) as [Hle2 (ext2 & s1' & Hsub2 & HR2 & HP2 & Hf2)]. split; [lia|].
    exists (ext ++ ext2), s1'. split.
    { rewrite (seg_app tp (pos s) (pos sa) (pos s')) by lia. apply sublist_app; assumption. }
    split; [exact HR2|]. split; [rewrite app_length; lia|].
    intros tp1 Hst. apply starts_at_app in Hst. destruct Hst as [Hst1 Hst2].
    rewrite (Hf tp1 Hst1). cbn [bind]. apply Hf2. rewrite HP. exact Hst2.
  Qed.

  Lemma Step_ext : forall s s' s1 (f1 g1 : tape -> outcome fstate),
    Step s s' s1 f1 -> (forall tp1, g1 tp1 = f1 tp1) -> Step s s' s1 g1.
  Proof.
    intros s s' s1 f1 g1 [Hle (ext & s1' & Hsub & HR & HP & Hf)] He. split; [exact Hle|].
    exists ext, s1'. split; [exact Hsub|]. split; [exact HR|]. split; [exact HP|].
    intros tp1 Hst. rewrite He. apply Hf. exact Hst.
  Qed.

  (** *** a loop over the machines: neighbours before, machine i, neighbours after *)
  Section LoopStep.
    Variable body : nat -> fstate -> outcome fstate.
    Variable f1 : fstate -> tape -> outcome fstate.
    Hypothesis body_mono : forall j s s', body j s = Ok s' -> (pos s <= pos s')%nat.
    Hypothesis body_other : forall j s s' s1, j <> i -> Rel i s s1 -> body j s = Ok s' -> Rel i s' s1.
    Hypothesis body_self : forall s s' s1, RelP s s1 -> body i s = Ok s' -> Step s s' s1 (f1 s1).

    Lemma loop_step : forall k from s s',
      loop body k from s = Ok s' ->
      (pos s <= pos s')%nat /\
      (~ (from <= i < from + k)%nat -> forall s1, Rel i s s1 -> Rel i s' s1) /\
      ((from <= i < from + k)%nat -> forall s1, RelP s s1 -> Step s s' s1 (f1 s1)).
    Proof.
      induction k as [|k IH]; intros from s s' H; cbn [loop] in H.
      - inversion H; subst. split; [lia|]. split; [auto|intros; lia].
      - mbind H as sa E. destruct (IH _ _ _ H) as (IH0 & IH1 & IH2).
        pose proof (body_mono _ _ _ E) as Hm0. split; [lia|]. split.
        + intros Hn s1 HR. apply IH1; [lia|]. apply (body_other from s); auto. lia.
        + intros Hin s1 HRP. destruct (Nat.eq_dec from i) as [->|Hne].
          * eapply Step_post; [apply body_self; eauto|exact IH0|]. apply IH1. lia.
          * eapply Step_pre; [exact Hm0|]. apply IH2; [lia|].
            destruct HRP as [HR HP]. split; [apply (body_other from s); auto|lia].
    Qed.
  End LoopStep.

  Lemma RelP_Rel : forall s s1, RelP s s1 -> Rel i s s1.
  Proof. intros s s1 H; exact (proj1 H). Qed.

  (** *** the four loops *)
  Lemma trans_all_step : forall ev n s s1 s',
    (i < n)%nat -> RelP s s1 -> trans_all c tp ev n 0 s = Ok s' ->
    Step s s' s1 (fun tp1 => trans_all c1 tp1 ev 1 0 s1).
  Proof.
    intros ev n s s1 s' Hn HR H. rewrite trans_all_loop in H.
    refine (proj2 (proj2 (loop_step (tr_body c tp ev) (fun s1 tp1 => trans_all c1 tp1 ev 1 0 s1) _ _ _
                            n 0%nat s s' H)) _ s1 HR); [| | |lia].
    - intros j sa sa' Hb. unfold tr_body in Hb. mbind Hb as [sx b] E. inversion Hb; subst.
      eapply transition_pos_mono; eauto.
    - intros j sa sa' sb Hj HRa Hb. unfold tr_body in Hb. mbind Hb as [sx b] E. inversion Hb; subst.
      eapply (transition_other c i tp Hns); eauto.
    - intros sa sa' sb HRa Hb. apply Step_own; [exact HRa| |].
      + intros D HD. eapply tr_own; eauto.
      + intros tpA tpB. exact (trans_all_loc tpA tpB c1 ev 1 0%nat sb).
  Qed.

  Lemma trans_dec_pos_mono : forall cc tt s mi ev dec s',
    trans_dec cc tt s mi ev dec = Ok s' -> (pos s <= pos s')%nat.
  Proof.
    intros cc tt s mi ev dec s' H. destruct (trans_dec_loc tt tt cc s mi ev dec) as [Hok _].
    apply (Hok _ H).
  Qed.

  Lemma normal_sent_all_step : forall n s s1 s',
    (i < n)%nat -> RelP s s1 -> normal_sent_all c tp n 0 s = Ok s' ->
    Step s s' s1 (fun tp1 => normal_sent_all c1 tp1 1 0 s1).
  Proof.
    intros n s s1 s' Hn HR H. rewrite normal_sent_all_loop in H.
    refine (proj2 (proj2 (loop_step (ns_body c tp) (fun s1 tp1 => normal_sent_all c1 tp1 1 0 s1) _ _ _
                            n 0%nat s s' H)) _ s1 HR); [| | |lia].
    - intros j sa sa' Hb. unfold ns_body in Hb. mbind Hb as r Er. mbind Hb as [sx b] E. inversion Hb; subst.
      apply transition_pos_mono in E. exact E.
    - intros j sa sa' sb Hj HRa Hb. unfold ns_body in Hb. mbind Hb as r Er.
      mbind Hb as [sx b] E. inversion Hb; subst.
      eapply (transition_other c i tp Hns); [exact Hj| |exact E]. apply Rel_set_rt_other; auto.
    - intros sa sa' sb HRa Hb. apply Step_own; [exact HRa| |].
      + intros D HD. eapply ns_own; eauto.
      + intros tpA tpB. exact (normal_sent_all_loc tpA tpB c1 1 0%nat sb).
  Qed.

  Lemma blocking_begin_all_step : forall x n s s1 s',
    (i < n)%nat -> RelP s s1 -> blocking_begin_all c tp x n 0 s = Ok s' ->
    Step s s' s1 (fun tp1 => blocking_begin_all c1 tp1 (proj_id i x) 1 0 s1).
  Proof.
    intros x n s s1 s' Hn HR H. rewrite blocking_begin_all_loop in H.
    refine (proj2 (proj2 (loop_step (bb_body c tp x)
                            (fun s1 tp1 => blocking_begin_all c1 tp1 (proj_id i x) 1 0 s1) _ _ _
                            n 0%nat s s' H)) _ s1 HR); [| | |lia].
    - intros j sa sa' Hb. unfold bb_body in Hb. eapply trans_dec_pos_mono; eauto.
    - intros j sa sa' sb Hj HRa Hb. unfold bb_body in Hb. eapply (trans_dec_other c i tp Hns); eauto.
    - intros sa sa' sb HRa Hb. apply Step_own; [exact HRa| |].
      + intros D HD. eapply bb_own; eauto.
      + intros tpA tpB. exact (blocking_begin_all_loc tpA tpB c1 (proj_id i x) 1 0%nat sb).
  Qed.

  Lemma blocking_end_all_step : forall blocked n s s1 s',
    (i < n)%nat -> RelP s s1 -> blocking_end_all c tp blocked n 0 s = Ok s' ->
    Step s s' s1 (fun tp1 => blocking_end_all c1 tp1 blocked 1 0 s1).
  Proof.
    intros blocked n s s1 s' Hn HR H. rewrite blocking_end_all_loop in H.
    refine (proj2 (proj2 (loop_step (be_body c tp blocked)
                            (fun s1 tp1 => blocking_end_all c1 tp1 blocked 1 0 s1) _ _ _
                            n 0%nat s s' H)) _ s1 HR); [| | |lia].
    - intros j sa sa' Hb. unfold be_body in Hb. mbind Hb as r Er. mbind Hb as s0 E0.
      mbind Hb as [sx b] E. inversion Hb; subst. apply transition_pos_mono in E.
      assert (pos s0 = pos sa).
      { destruct (negb (blocked =? 0)); [mbind E0 as d Ed|]; inversion E0; reflexivity. }
      lia.
    - intros j sa sa' sb Hj HRa Hb. unfold be_body in Hb. mbind Hb as r Er.
      mbind Hb as s0 E0. mbind Hb as [sx b] E. inversion Hb; subst.
      eapply (transition_other c i tp Hns); [exact Hj| |exact E].
      destruct (negb (blocked =? 0)); [|inversion E0; subst; exact HRa].
      mbind E0 as d Ed. inversion E0; subst. apply Rel_set_rt_other; auto.
    - intros sa sa' sb HRa Hb. apply Step_own; [exact HRa| |].
      + intros D HD. eapply be_own; eauto.
      + intros tpA tpB. exact (blocking_end_all_loc tpA tpB c1 blocked 1 0%nat sb).
  Qed.

  (** *** one reported event *)
  Lemma Step_pos : forall s s' s1 sx s1x f1,
    pos sx = pos s -> pos s1x = pos s1 -> Step sx s' s1x f1 -> Step s s' s1 f1.
  Proof. intros s s' s1 sx s1x f1 E E1 H. unfold Step in *. rewrite E, E1 in H. exact H. Qed.

  Lemma RelP_pos : forall s s1 sx s1x,
    RelP s s1 -> Rel i sx s1x -> pos sx = pos s -> pos s1x = pos s1 -> RelP sx s1x.
  Proof. intros s s1 sx s1x [_ HP] HR E E1. split; [exact HR|lia]. Qed.

  Ltac globals HR :=
    unfold set_gnorm, set_gpad, set_blocking;
    apply (Rel_globals _ _ _ _ _ _ _ _ _ _ _ _ _ HR); destruct HR; congruence.

  Lemma to_nat_other : forall x, x <> N.of_nat i -> N.to_nat x <> i.
  Proof. intros x Hx Hc. apply Hx. rewrite <- Hc, N2Nat.id. reflexivity. Qed.

  Lemma process_event_step : forall s s1 e s',
    RelP s s1 -> process_event c tp s e = Ok s' ->
    Step s s' s1 (fun tp1 => process_event c1 tp1 s1 (proj_event i e)).
  Proof.
    intros s s1 e s' HRP H. pose proof (proj1 HRP) as HR.
    pose proof (Rel_lt _ _ _ HR) as [Hlt Hone].
    pose proof (process_event_pos_mono _ _ _ _ _ H) as Hmono.
    unfold process_event, nmach in H.
    assert (Hleb : (N.of_nat (length (rts s)) <=? N.of_nat i) = false) by (apply N.leb_gt; lia).
    destruct e as [ | | | |x| |x| |x|x]; cbn [proj_event].
    - eapply Step_ext; [eapply trans_all_step; eauto|].
      intros tp1. unfold process_event, nmach. rewrite Hone. reflexivity.
    - eapply Step_ext; [eapply trans_all_step; eauto|].
      intros tp1. unfold process_event, nmach. rewrite Hone. reflexivity.
    - eapply Step_ext; [eapply trans_all_step; eauto|].
      intros tp1. unfold process_event, nmach. rewrite Hone. reflexivity.
    - (* NormalSent *)
      assert (HRg : RelP (set_gnorm s (gnorm s + 1)) (set_gnorm s1 (gnorm s1 + 1))).
      { apply (RelP_pos s s1); [exact HRP| |reflexivity|reflexivity]. globals HR. }
      eapply Step_ext; [eapply (Step_pos s s' s1); [| |eapply normal_sent_all_step; [exact Hlt|exact HRg|exact H]]; reflexivity|].
      intros tp1. unfold process_event, nmach. rewrite Hone. reflexivity.
    - (* PaddingSent x *)
      assert (HRg : Rel i (set_gpad s (gpad s + 1)) (set_gpad s1 (gpad s1 + 1))) by (globals HR).
      destruct (N.eqb_spec x (N.of_nat i)) as [->|Hx].
      + rewrite Hleb, Nat2N.id in H. rewrite proj_id_same.
        apply Step_own; [exact HRP| |].
        * intros D [_ HP]. unfold process_event, nmach. rewrite Hone.
          change (N.of_nat 1 <=? 0) with false. cbv iota. change (N.to_nat 0) with 0%nat.
          mbind H as r Er. rewrite (Rel_get_rt1 _ _ _ HRg Er). cbn [bind].
          eapply trans_dec_own; [|exact H]. apply RelD_set_rt. split; [exact HRg|exact HP].
        * intros tpA tpB. exact (process_event_loc tpA tpB c1 s1 (TEPaddingSent 0)).
      + apply (Step_foreign s s' s1 (set_gpad s1 (gpad s1 + 1))); [|reflexivity|exact Hmono|].
        * destruct (N.of_nat (length (rts s)) <=? x); [inversion H; subst; exact HRg|].
          mbind H as r Er.
          eapply (trans_dec_other c i tp Hns); [apply to_nat_other; exact Hx| |exact H].
          apply Rel_set_rt_other; [exact HRg|apply to_nat_other; exact Hx].
        * intros tp1. unfold process_event, nmach. rewrite Hone, (proj_id_other i x Hx). reflexivity.
    - eapply Step_ext; [eapply trans_all_step; eauto|].
      intros tp1. unfold process_event, nmach. rewrite Hone. reflexivity.
    - (* BlockingBegin x *)
      set (sB := if bactive s then s else set_blocking s (gblk s) (now s) true) in *.
      set (sB1 := if bactive s1 then s1 else set_blocking s1 (gblk s1) (now s1) true).
      assert (HRB : RelP sB sB1).
      { subst sB sB1. rewrite (rl_bactive _ _ _ HR). destruct (bactive s); [exact HRP|].
        apply (RelP_pos s s1); [exact HRP| |reflexivity|reflexivity]. globals HR. }
      assert (PB : pos sB = pos s) by (subst sB; destruct (bactive s); reflexivity).
      assert (PB1 : pos sB1 = pos s1) by (subst sB1; destruct (bactive s1); reflexivity).
      eapply Step_ext; [eapply (Step_pos s s' s1 sB sB1); [exact PB|exact PB1|];
                        eapply blocking_begin_all_step; [exact Hlt|exact HRB|exact H]|].
      intros tp1. unfold process_event, nmach. rewrite Hone. reflexivity.
    - (* BlockingEnd *)
      mbind H as [s0 blocked] E0.
      assert (X0 : exists s10, RelP s0 s10 /\ pos s0 = pos s /\ pos s10 = pos s1 /\
                forall tp1, process_event c1 tp1 s1 TEBlockingEnd = blocking_end_all c1 tp1 blocked 1 0 s10).
      { destruct (bactive s) eqn:Eb.
        - mbind E0 as g Eg. inversion E0; subst.
          exists (set_blocking s1 g (bstart s1) false). split.
          { apply (RelP_pos s s1); [exact HRP| |reflexivity|reflexivity]. globals HR. }
          split; [reflexivity|]. split; [reflexivity|].
          intros tp1. unfold process_event, nmach. rewrite Hone.
          rewrite (rl_bactive _ _ _ HR), Eb. change (clk c1) with (clk c). cbv zeta.
          rewrite (rl_gblk _ _ _ HR), (rl_now _ _ _ HR), (rl_bstart _ _ _ HR), Eg. cbn [bind]. reflexivity.
        - inversion E0; subst. exists s1. split; [exact HRP|]. split; [reflexivity|]. split; [reflexivity|].
          intros tp1. unfold process_event, nmach. rewrite Hone.
          rewrite (rl_bactive _ _ _ HR), Eb. cbn [bind]. reflexivity. }
      destruct X0 as (s10 & HR0 & P0 & P10 & Hf).
      assert (Hlen : length (rts s0) = length (rts s)).
      { destruct (bactive s); [mbind E0 as g Eg|]; inversion E0; reflexivity. }
      eapply Step_ext; [eapply (Step_pos s s' s1 s0 s10); [exact P0|exact P10|];
                        eapply blocking_end_all_step; [exact Hlt|exact HR0|exact H]|exact Hf].
    - (* TimerBegin x *)
      destruct (N.eqb_spec x (N.of_nat i)) as [->|Hx].
      + rewrite Hleb, Nat2N.id in H. rewrite proj_id_same.
        apply Step_own; [exact HRP| |].
        * intros D HD. unfold process_event, nmach. rewrite Hone.
          change (N.of_nat 1 <=? 0) with false. cbv iota. change (N.to_nat 0) with 0%nat.
          eapply trans_dec_own; eauto.
        * intros tpA tpB. exact (process_event_loc tpA tpB c1 s1 (TETimerBegin 0)).
      + apply (Step_foreign s s' s1 s1); [|reflexivity|exact Hmono|].
        * destruct (N.of_nat (length (rts s)) <=? x); [inversion H; subst; exact HR|].
          eapply (trans_dec_other c i tp Hns); [apply to_nat_other; exact Hx|exact HR|exact H].
        * intros tp1. unfold process_event, nmach. rewrite Hone, (proj_id_other i x Hx). reflexivity.
    - (* TimerEnd x *)
      destruct (N.eqb_spec x (N.of_nat i)) as [->|Hx].
      + rewrite Hleb, Nat2N.id in H. rewrite proj_id_same.
        apply Step_own; [exact HRP| |].
        * intros D HD. unfold process_event, nmach. rewrite Hone.
          change (N.of_nat 1 <=? 0) with false. cbv iota. change (N.to_nat 0) with 0%nat.
          mbind H as [sa b] E. inversion H; subst.
          destruct (transition_own _ _ _ _ _ _ _ HD E) as (sa1 & E1 & HRa).
          rewrite E1. cbn [bind]. eexists. split; [reflexivity|exact HRa].
        * intros tpA tpB. exact (process_event_loc tpA tpB c1 s1 (TETimerEnd 0)).
      + apply (Step_foreign s s' s1 s1); [|reflexivity|exact Hmono|].
        * destruct (N.of_nat (length (rts s)) <=? x); [inversion H; subst; exact HR|].
          mbind H as [sa b] E. inversion H; subst.
          eapply (transition_other c i tp Hns); [apply to_nat_other; exact Hx|exact HR|exact E].
        * intros tp1. unfold process_event, nmach. rewrite Hone, (proj_id_other i x Hx). reflexivity.
  Qed.

  Lemma events_step : forall evs s s1 s',
    RelP s s1 -> foldM (process_event c tp) evs s = Ok s' ->
    Step s s' s1 (fun tp1 => foldM (process_event c1 tp1) (map (proj_event i) evs) s1).
  Proof.
    induction evs as [|e evs IH]; intros s s1 s' HRP H; cbn [map foldM] in H |- *.
    - inversion H; subst. apply (Step_foreign s' s' s1 s1); [exact (proj1 HRP)|reflexivity|lia|reflexivity].
    - mbind H as sa E.
      apply (Step_seq s sa s' s1 (fun tp1 => process_event c1 tp1 s1 (proj_event i e))
               (fun x tp1 => foldM (process_event c1 tp1) (map (proj_event i) evs) x)).
      + exact HRP.
      + apply process_event_step; assumption.
      + intros s1a HRa. apply IH; assumption.
  Qed.

  (** *** one call *)
  Lemma trigger_events_step : forall s s1 evs t s' acts,
    RelP s s1 -> trigger_events c tp s evs t = Ok (s', acts) ->
    (pos s <= pos s')%nat /\
    exists ext s1' acts1, sublist ext (seg tp (pos s) (pos s')) /\ Rel i s' s1' /\
      pos s1' = (pos s1 + length ext)%nat /\
      acts_of i acts = map (rename_to i) acts1 /\
      forall tp1, starts_at tp1 (pos s1) ext ->
        trigger_events c1 tp1 s1 (map (proj_event i) evs) t = Ok (s1', acts1).
  Proof.
    intros s s1 evs t s' acts HRP H.
    destruct (trigger_events_SlotInv _ _ _ _ _ _ _ H) as [HS _].
    unfold trigger_events in H. cbv zeta in H.
    mbind H as sa E. mbind H as sb Eb.
    assert (HRb : RelP (begin_call s t) (begin_call s1 t)).
    { apply (RelP_pos s s1); [exact HRP| |reflexivity|reflexivity]. apply begin_call_solo. exact (proj1 HRP). }
    destruct (events_step _ _ _ _ HRb E) as [Hle (ext & s1a & Hsub & HRa & HPa & Hf)].
    assert (sb = sa).
    { unfold signal_round in Eb. rewrite (rl_sig _ _ _ HRa) in Eb. inversion Eb; reflexivity. }
    subst sb. inversion H; subst. cbn [pos begin_call] in Hle, Hsub, HPa, Hf.
    split; [exact Hle|]. exists ext, s1a, (collect_actions (slots s1a)).
    split; [exact Hsub|]. split; [exact HRa|]. split; [exact HPa|].
    split; [apply (collect_solo c); assumption|].
    intros tp1 Hst. unfold trigger_events. cbv zeta. rewrite (Hf tp1 Hst). cbn [bind].
    unfold signal_round. rewrite (rl_sig1 _ _ _ HRa). cbn [bind]. reflexivity.
  Qed.

  (** *** a whole history *)
  Lemma run_step : forall h s s1 s' outs,
    RelP s s1 -> run c tp s h = Ok (s', outs) ->
    (pos s <= pos s')%nat /\
    exists ext s1' outs1, sublist ext (seg tp (pos s) (pos s')) /\ Rel i s' s1' /\
      pos s1' = (pos s1 + length ext)%nat /\
      map (acts_of i) outs = map (map (rename_to i)) outs1 /\
      forall tp1, starts_at tp1 (pos s1) ext ->
        run c1 tp1 s1 (proj_hist i h) = Ok (s1', outs1).
  Proof.
    induction h as [|[evs t] h IH]; intros s s1 s' outs HRP H; unfold proj_hist; cbn [run map] in H |- *.
    - inversion H; subst. split; [lia|]. exists [], s1, [].
      split; [apply sl_nil|]. split; [exact (proj1 HRP)|]. split; [cbn [length]; lia|].
      split; [reflexivity|]. intros; reflexivity.
    - fold (proj_hist i h). mbind H as [sa acts] E. mbind H as [sb rest] Eb. inversion H; subst.
      destruct (trigger_events_step _ _ _ _ _ _ HRP E) as [Hle (ext & s1a & acts1 & Hsub & HRa & HPa & Ha & Hf)].
      assert (HRPa : RelP sa s1a).
      { split; [exact HRa|]. apply sublist_length in Hsub. rewrite seg_length in Hsub.
        destruct HRP as [_ HP]. lia. }
      destruct (IH _ _ _ _ HRPa Eb) as [Hle2 (ext2 & s1b & outs1 & Hsub2 & HRb & HPb & Hb & Hf2)].
      split; [lia|]. exists (ext ++ ext2), s1b, (acts1 :: outs1).
      split. { rewrite (seg_app tp (pos s) (pos sa) (pos s')) by lia. apply sublist_app; assumption. }
      split; [exact HRb|]. split; [rewrite app_length; lia|].
      split; [cbn [map]; rewrite Ha, Hb; reflexivity|].
      intros tp1 Hst. apply starts_at_app in Hst. destruct Hst as [Hst1 Hst2].
      rewrite (Hf tp1 Hst1). cbn [bind]. rewrite HPa in Hf2. rewrite (Hf2 tp1 Hst2). cbn [bind]. reflexivity.
  Qed.

  (** *** Framework::new: the initial limit of machine i *)
  Lemma init_rts_pos_mono : forall tt ms p rs p', init_rts tt p ms = Ok (rs, p') -> (p <= p')%nat.
  Proof.
    intros tt ms p rs p' H. destruct (init_rts_loc tt tt ms p) as [Hok _].
    apply (Hok _ H).
  Qed.

  Lemma starts_at_ALk : forall tp1 p1 p k, starts_at tp1 p1 (seg tp p (p + k)) -> ALk tp tp1 p p1 k.
  Proof.
    intros tp1 p1 p k H q Hq. rewrite H by (rewrite seg_length; lia). apply seg_nth. lia.
  Qed.

  Lemma init_rts_step : forall ms p rs p' j mm,
    init_rts tp p ms = Ok (rs, p') -> nth_error ms j = Some mm ->
    exists ext r, sublist ext (seg tp p p') /\ nth_error rs j = Some r /\
      forall tp1 p1, starts_at tp1 p1 ext ->
        init_rts tp1 p1 [mm] = Ok ([r], (p1 + length ext)%nat).
  Proof.
    induction ms as [|m0 ms IH]; intros p rs p' j mm H Hj; [destruct j; discriminate Hj|].
    cbn [init_rts] in H. mbind H as st0 E0.
    destruct (match saction st0 with Some a => sample_limit tp p a | None => (0, p) end) as [l q] eqn:El.
    mbind H as [rs' p''] Er. inversion H; subst.
    pose proof (init_rts_pos_mono _ _ _ _ _ Er) as Hle2.
    assert (Hle1 : (p <= q)%nat).
    { destruct (saction st0); [eapply sample_limit_pos; exact El|inversion El; lia]. }
    destruct j as [|j].
    - inversion Hj; subst mm. exists (seg tp p q), (mkmrt 0 l 0 0 0 0 0 false false).
      split; [eapply sublist_seg_widen; [apply sublist_refl|lia|lia|lia]|]. split; [reflexivity|].
      intros tp1 p1 Hst. cbn [init_rts]. rewrite E0. cbn [bind]. rewrite seg_length.
      destruct (saction st0) as [a|].
      + apply sample_limit_al in El. destruct El as (k & -> & El1).
        rewrite (El1 tp1 p1 (starts_at_ALk _ _ _ _ Hst)). cbn [bind].
        replace (p + k - p)%nat with k by lia. reflexivity.
      + inversion El; subst. cbn [bind]. rewrite Nat.sub_diag, Nat.add_0_r. reflexivity.
    - cbn [nth_error] in Hj |- *. destruct (IH _ _ _ _ _ Er Hj) as (ext & r & Hsub & Hr & Hf).
      exists ext, r. split; [eapply sublist_seg_widen; [exact Hsub|lia|lia|lia]|]. split; [exact Hr|exact Hf].
  Qed.

  Lemma fnew_step : forall t0 s0,
    fnew c tp t0 = Ok s0 ->
    exists ext s10, sublist ext (seg tp 0 (pos s0)) /\ Rel i s0 s10 /\ pos s10 = length ext /\
      forall tp1, starts_at tp1 0 ext -> fnew c1 tp1 t0 = Ok s10.
  Proof.
    unfold fnew; intros t0 s0 H. mbind H as [rs p] E. inversion H; subst. cbn [pos].
    destruct (init_rts_step _ _ _ _ _ _ E Hm) as (ext & r & Hsub & Hr & Hf).
    exists ext, (mkfstate t0 t0 [r] [None] 0 0 0 t0 false None (length ext) 0 []).
    split; [exact Hsub|]. split.
    - constructor; cbn; auto.
      + exists r. split; [exact Hr|reflexivity].
      + exists None. split; [|reflexivity]. rewrite nth_error_map, Hm. reflexivity.
    - split; [reflexivity|]. intros tp1 Hst. change (machines c1) with [m].
      rewrite (Hf tp1 0%nat Hst). cbn [bind map Nat.add]. reflexivity.
  Qed.
End Own.

(** ** C10 for arbitrary machines *)
Lemma starts_with_at : forall tp1 l, tape_starts_with tp1 l -> starts_at tp1 0 l.
Proof. intros tp1 l H q Hq. cbn [Nat.add]. apply H. exact Hq. Qed.

Theorem solo_equals_combined_prob_sem : forall c i m tp t0 h s0 s outs,
  nth_error (machines c) i = Some m -> no_signal c ->
  fnew c tp t0 = Ok s0 -> run c tp s0 h = Ok (s, outs) ->
  exists l : list N,
    sublist l (map tp (seq 0 (pos s))) /\
    forall tp1, tape_starts_with tp1 l ->
      exists s10 s1 outs1,
        fnew (solo_cfg c m) tp1 t0 = Ok s10 /\
        run (solo_cfg c m) tp1 s10 (proj_hist i h) = Ok (s1, outs1) /\
        pos s1 = length l /\
        map (acts_of i) outs = map (map (rename_to i)) outs1.
Proof.
  intros c i m tp t0 h s0 s outs Hm Hns F R.
  destruct (fnew_step c i m tp Hm t0 s0 F) as (ext0 & s10 & Hsub0 & HR0 & HP0 & Hf0).
  assert (HRP0 : RelP i s0 s10).
  { split; [exact HR0|]. apply sublist_length in Hsub0. rewrite seg_length in Hsub0. lia. }
  destruct (run_step c i m tp Hm Hns h s0 s10 s outs HRP0 R)
    as [Hle (ext & s1 & outs1 & Hsub & HR & HP & Ho & Hf)].
  exists (ext0 ++ ext). split.
  - replace (map tp (seq 0 (pos s))) with (seg tp 0 (pos s)) by (unfold seg; rewrite Nat.sub_0_r; reflexivity).
    rewrite (seg_app tp 0 (pos s0) (pos s)) by lia. apply sublist_app; assumption.
  - intros tp1 Hst. apply starts_with_at in Hst. apply starts_at_app in Hst. destruct Hst as [Hst0 Hst1].
    exists s10, s1, outs1. split; [apply Hf0; exact Hst0|]. split.
    + apply Hf. rewrite HP0. exact Hst1.
    + split; [rewrite app_length; lia|exact Ho].
Qed.

Theorem solo_equals_combined_prob : forall c i m tp t0 h s0 s outs,
  nth_error (machines c) i = Some m -> no_signal_b c = true ->
  fnew c tp t0 = Ok s0 -> run c tp s0 h = Ok (s, outs) ->
  exists l : list N,
    sublist l (map tp (seq 0 (pos s))) /\
    forall tp1, tape_starts_with tp1 l ->
      exists s10 s1 outs1,
        fnew (solo_cfg c m) tp1 t0 = Ok s10 /\
        run (solo_cfg c m) tp1 s10 (proj_hist i h) = Ok (s1, outs1) /\
        pos s1 = length l /\
        map (acts_of i) outs = map (map (rename_to i)) outs1.
Proof.
  intros c i m tp t0 h s0 s outs Hm Hn.
  apply solo_equals_combined_prob_sem; [exact Hm|apply no_signal_b_sound; exact Hn].
Qed.

Print Assumptions solo_equals_combined_prob.

(** ** sanity (non-vacuity): a probabilistic machine (probability-1/2
    transitions, Uniform[0,100] timeout) between two probabilistic neighbours,
    three calls; the 24 draws of the combined run are interleaved, machine 1
    owns the draws at positions 2, 5, 6, 9, 10, 17, 18, 23 *)
Definition pm_state : state :=
  mkstate (Some (SendPadding false false (mkdist (Uniform 0 F100) 0 F100) None)) None None
          [None; None; None; Some [(0, HALF32)]; Some [(0, HALF32)]; None; None; None; None; None; None; None; None].
Definition pm_machine : machine := mkmachine 1000 0 0 0 [pm_state].
Definition pn_cfg : cfg := mkcfg [nb_machine; pm_machine; nb_machine] 0 0 vclock.
Definition pn_hist : list (list trigger_event * Z) :=
  [([TENormalSent; TEPaddingSent 1], 5%Z); ([TENormalSent; TEPaddingSent 0; TEBlockingBegin 1], 9%Z);
   ([TETunnelSent; TENormalSent; TEPaddingSent 2; TEPaddingSent 1; TEBlockingEnd], 12%Z)].

(** final tape position and the returned actions of a whole life *)
Definition run_info (c : cfg) (tp : tape) (h : list (list trigger_event * Z)) : option (nat * list (list taction)) :=
  match fnew c tp 0%Z with
  | Ok s0 => match run c tp s0 h with Ok (s, outs) => Some (pos s, outs) | _ => None end
  | _ => None
  end.

Lemma run_info_ok : forall c tp h p outs, run_info c tp h = Some (p, outs) ->
  exists s0 s, fnew c tp 0%Z = Ok s0 /\ run c tp s0 h = Ok (s, outs) /\ pos s = p.
Proof.
  unfold run_info; intros c tp h p outs H.
  destruct (fnew c tp 0%Z) as [s0| |]; try discriminate H.
  destruct (run c tp s0 h) as [[s o]| |] eqn:R; try discriminate H.
  inversion H; subst. exists s0, s. auto.
Qed.

Fixpoint sublist_b (l1 l2 : list N) : bool :=
  match l2 with
  | [] => match l1 with [] => true | _ => false end
  | y :: l2' =>
      match l1 with
      | [] => true
      | x :: l1' => if x =? y then sublist_b l1' l2' else sublist_b l1 l2'
      end
  end.

Lemma sublist_b_sound : forall l2 l1, sublist_b l1 l2 = true -> sublist l1 l2.
Proof.
  induction l2 as [|y l2 IH]; intros l1 H; cbn [sublist_b] in H.
  - destruct l1; [apply sl_nil|discriminate H].
  - destruct l1 as [|x l1]; [apply sl_nil|].
    destruct (N.eqb_spec x y) as [->|Hne]; [apply sl_take|apply sl_skip]; apply IH; exact H.
Qed.

(** machine 1 is probabilistic (not covered by [solo_equals_combined_full]) *)
Example pn_hyps : (no_signal_b pn_cfg, valid_cfg pn_cfg, det_machine_b pm_machine) = (true, true, false).
Proof. vm_compute. reflexivity. Qed.

(** the combined run consumes 24 tape entries; machine 1 misses its first
    probability-1/2 transition and then draws the timeouts 7, 22, 100 *)
Example pn_combined : run_info pn_cfg sn_tp pn_hist =
  Some (24%nat,
        [[TSendPadding 0 1 false false; TSendPadding 1 7 false false; TSendPadding 2 4 false false];
         [TSendPadding 0 72 false false; TSendPadding 1 22 false false; TSendPadding 2 40 false false];
         [TSendPadding 0 100 false false; TSendPadding 1 100 false false; TSendPadding 2 100 false false]]).
Proof. vm_compute. reflexivity. Qed.

(** machine 1's own draws *)
Definition pn_l : list N := map sn_tp [2; 5; 6; 9; 10; 17; 18; 23]%nat.

Example pn_l_sub : sublist pn_l (map sn_tp (seq 0 24)).
Proof. apply sublist_b_sound. vm_compute. reflexivity. Qed.

(** a tape that carries these draws and nothing else *)
Definition pn_tp1 : tape := fun q => nth q pn_l 0.

Example pn_tp1_starts : tape_starts_with pn_tp1 pn_l.
Proof. intros q _. reflexivity. Qed.

(** alone on that tape the machine consumes exactly the 8 draws and returns
    the same actions *)
Example pn_solo : run_info (solo_cfg pn_cfg pm_machine) pn_tp1 (proj_hist 1 pn_hist) =
  Some (8%nat, [[TSendPadding 0 7 false false]; [TSendPadding 0 22 false false]; [TSendPadding 0 100 false false]]).
Proof. vm_compute. reflexivity. Qed.

(** the draws matter: with the first own draw replaced (k/2^23 < 1/2) the
    solo machine takes its first transition and behaves differently *)
Example pn_solo_other : run_info (solo_cfg pn_cfg pm_machine) (fun q => match q with O => 0 | _ => pn_tp1 q end)
                                 (proj_hist 1 pn_hist) <>
  Some (8%nat, [[TSendPadding 0 7 false false]; [TSendPadding 0 22 false false]; [TSendPadding 0 100 false false]]).
Proof. vm_compute. discriminate. Qed.

(** the theorem on this instance: the hypotheses hold, machine 1 returns an
    action in every call, and the list of draws it provides is not empty *)
Example pn_instance : exists s0 s outs l,
  fnew pn_cfg sn_tp 0%Z = Ok s0 /\ run pn_cfg sn_tp s0 pn_hist = Ok (s, outs) /\
  map (acts_of 1) outs =
    [[TSendPadding 1 7 false false]; [TSendPadding 1 22 false false]; [TSendPadding 1 100 false false]] /\
  l <> [] /\
  sublist l (map sn_tp (seq 0 (pos s))) /\
  forall tp1, tape_starts_with tp1 l ->
    exists s10 s1 outs1,
      fnew (solo_cfg pn_cfg pm_machine) tp1 0%Z = Ok s10 /\
      run (solo_cfg pn_cfg pm_machine) tp1 s10 (proj_hist 1 pn_hist) = Ok (s1, outs1) /\
      pos s1 = length l /\
      map (acts_of 1) outs = map (map (rename_to 1)) outs1.
Proof.
  destruct (run_info_ok _ _ _ _ _ pn_combined) as (s0 & s & F & R & P).
  destruct (solo_equals_combined_prob pn_cfg 1 pm_machine sn_tp 0%Z pn_hist s0 s _ eq_refl eq_refl F R)
    as (l & Hsub & Hl).
  exists s0, s. eexists. exists l. split; [exact F|]. split; [exact R|]. split; [reflexivity|].
  split; [|split; [exact Hsub|exact Hl]].
  intros ->.
  destruct (Hl pn_tp1) as (s10 & s1 & outs1 & F1 & R1 & P1 & _); [intros q Hq; inversion Hq|].
  destruct (run_info_ok _ _ _ _ _ pn_solo) as (s10' & s1' & F1' & R1' & P1').
  rewrite F1 in F1'. inversion F1'; subst s10'. rewrite R1 in R1'. inversion R1'; subst s1'.
  cbn [length] in P1. rewrite P1 in P1'. discriminate P1'.
Qed.

Print Assumptions pn_instance.
