From Coq Require Import List Arith Lia Permutation Sorted ZArith Bool.
From MB Require Import Base.Prelude Model.Framework Model.Sim Proofs.Tactics Proofs.SimHeap.
Import ListNotations.
Open Scope N_scope.

(** * Packet conservation and network causality of the simulator model

    Counting invariants over the whole main loop [sim_loop], for runs that
    record every event ([a_only_client = false], [a_only_network = false]). *)

Definition cnt (p : sev -> bool) (l : list sev) : nat := length (filter p l).
Definition all_events (sq : simq) : list sev :=
  q_base (sq_c sq) ++ q_blocking (sq_c sq) ++ q_bypass (sq_c sq) ++ q_internal (sq_c sq) ++
  q_base (sq_s sq) ++ q_blocking (sq_s sq) ++ q_bypass (sq_s sq) ++ q_internal (sq_s sq).
Definition is_ts (X k : bool) (e : sev) : bool :=      (* TunnelSent of side X (true = client), padding flag k *)
  is_tunnel_sent (se_ev e) && Bool.eqb (se_client e) X && Bool.eqb (se_pad e) k.
Definition is_tr (X k : bool) (e : sev) : bool :=
  is_tunnel_recv (se_ev e) && Bool.eqb (se_client e) X && Bool.eqb (se_pad e) k.
Definition is_ns (X : bool) (e : sev) : bool :=
  match se_ev e with TENormalSent => Bool.eqb (se_client e) X | _ => false end.
Definition is_nr (X : bool) (e : sev) : bool :=
  match se_ev e with TENormalRecv => Bool.eqb (se_client e) X | _ => false end.
Definition upto (T : Z) (e : sev) : bool := (se_time e <=? T)%Z.
Definition sent_by (d : N) (T : Z) (e : sev) : bool := (se_time e + Z.of_N d <=? T)%Z.

(** the initial queue: only base events (NormalSent of the right side), as parse_trace builds it *)
Definition init_simq (sq : simq) : Prop :=
  q_blocking (sq_c sq) = [] /\ q_bypass (sq_c sq) = [] /\ q_internal (sq_c sq) = [] /\
  q_blocking (sq_s sq) = [] /\ q_bypass (sq_s sq) = [] /\ q_internal (sq_s sq) = [] /\
  (forall e, In e (q_base (sq_c sq)) -> se_ev e = TENormalSent /\ se_client e = true) /\
  (forall e, In e (q_base (sq_s sq)) -> se_ev e = TENormalSent /\ se_client e = false).
Definition full_args (args : simargs) : Prop := a_only_client args = false /\ a_only_network args = false.

(** ** counting *)
Definition b2n (b : bool) : nat := if b then 1%nat else 0%nat.

Lemma cnt_nil : forall p, cnt p [] = 0%nat.
Proof. reflexivity. Qed.

Lemma cnt_cons : forall p x l, cnt p (x :: l) = (b2n (p x) + cnt p l)%nat.
Proof. intros p x l. unfold cnt. cbn [filter]. destruct (p x); reflexivity. Qed.

Lemma cnt_app : forall p l1 l2, cnt p (l1 ++ l2) = (cnt p l1 + cnt p l2)%nat.
Proof. intros p l1 l2. unfold cnt. rewrite filter_app, app_length. reflexivity. Qed.

Lemma cnt_perm : forall p l l', Permutation l l' -> cnt p l = cnt p l'.
Proof.
  intros p l l' HP. induction HP as [|x l l' HP IH|x y l|l l' l'' HP1 IH1 HP2 IH2].
  - reflexivity.
  - rewrite !cnt_cons, IH. reflexivity.
  - rewrite !cnt_cons. lia.
  - congruence.
Qed.

Lemma cnt_ext : forall p q l, (forall e, In e l -> p e = q e) -> cnt p l = cnt q l.
Proof.
  intros p q l. induction l as [|x l IH]; intros H; [reflexivity|].
  rewrite !cnt_cons, (H x (or_introl eq_refl)), IH; [reflexivity|].
  intros e He. apply H. right. exact He.
Qed.

Lemma cnt_all : forall p l, (forall e, In e l -> p e = true) -> cnt p l = length l.
Proof.
  intros p l. induction l as [|x l IH]; intros H; [reflexivity|].
  rewrite cnt_cons, (H x (or_introl eq_refl)), IH; [reflexivity|].
  intros e He. apply H. right. exact He.
Qed.

Lemma cnt_none : forall p l, (forall e, In e l -> p e = false) -> cnt p l = 0%nat.
Proof.
  intros p l. induction l as [|x l IH]; intros H; [reflexivity|].
  rewrite cnt_cons, (H x (or_introl eq_refl)), IH; [reflexivity|].
  intros e He. apply H. right. exact He.
Qed.

Lemma cnt_zero_in : forall p l e, cnt p l = 0%nat -> In e l -> p e = false.
Proof.
  intros p l e. induction l as [|x l IH]; intros H He; [destruct He|].
  rewrite cnt_cons in H. destruct He as [->|He].
  - destruct (p e); [cbn in H; lia|reflexivity].
  - apply IH; [lia|exact He].
Qed.

(** ** sort_time is a permutation *)
Lemma insert_time_perm : forall x l, Permutation (insert_time x l) (x :: l).
Proof.
  intros x l. induction l as [|y t IH]; cbn [insert_time]; [apply Permutation_refl|].
  destruct (se_time x <? se_time y)%Z; [apply Permutation_refl|].
  eapply perm_trans; [apply perm_skip; exact IH|apply perm_swap].
Qed.

Lemma sort_time_perm_acc : forall l acc,
  Permutation (fold_left (fun a x => insert_time x a) l acc) (l ++ acc).
Proof.
  induction l as [|x l IH]; intros acc; cbn [fold_left app]; [apply Permutation_refl|].
  eapply perm_trans; [apply IH|].
  eapply perm_trans; [apply Permutation_app_head; apply insert_time_perm|].
  apply Permutation_sym. apply Permutation_middle.
Qed.

Lemma sort_time_perm : forall l, Permutation (sort_time l) l.
Proof.
  intros l. unfold sort_time. eapply perm_trans; [apply sort_time_perm_acc|].
  rewrite app_nil_r. apply Permutation_refl.
Qed.

(** ** events that no counted predicate sees, and count equivalence of queues *)
Definition quiet (e : sev) : bool :=
  match se_ev e with
  | TETunnelSent | TETunnelRecv | TENormalSent | TENormalRecv => false
  | _ => true
  end.

(** [adj x0 x]: same kind, side and padding flag; the time did not decrease *)
Definition adj (x0 x : sev) : Prop :=
  se_ev x = se_ev x0 /\ se_client x = se_client x0 /\ se_pad x = se_pad x0 /\ (se_time x0 <= se_time x)%Z.

Definition keq (x0 x : sev) : Prop :=
  se_ev x = se_ev x0 /\ se_client x = se_client x0 /\ se_pad x = se_pad x0 /\ se_time x = se_time x0.

(** a predicate that only looks at kind, side, padding flag and time, and is false on quiet events *)
Definition good (p : sev -> bool) : Prop :=
  (forall e, quiet e = true -> p e = false) /\
  (forall e e', keq e e' -> p e' = p e).

Definition ceq (l l' : list sev) : Prop := forall p, good p -> cnt p l = cnt p l'.

Lemma ceq_refl : forall l, ceq l l.
Proof. intros l p _. reflexivity. Qed.

Lemma ceq_sym : forall l l', ceq l l' -> ceq l' l.
Proof. intros l l' H p Hp. symmetry. apply H. exact Hp. Qed.

Lemma ceq_trans : forall l1 l2 l3, ceq l1 l2 -> ceq l2 l3 -> ceq l1 l3.
Proof. intros l1 l2 l3 H1 H2 p Hp. rewrite (H1 p Hp). apply H2. exact Hp. Qed.

Lemma ceq_perm : forall l l', Permutation l l' -> ceq l l'.
Proof. intros l l' HP p _. apply cnt_perm. exact HP. Qed.

Lemma ceq_cons : forall x l l', ceq l l' -> ceq (x :: l) (x :: l').
Proof. intros x l l' H p Hp. rewrite !cnt_cons, (H p Hp). reflexivity. Qed.

Lemma ceq_quiet : forall x l, quiet x = true -> ceq (x :: l) l.
Proof. intros x l Hq p [Hp _]. rewrite cnt_cons, (Hp x Hq). reflexivity. Qed.

Lemma ceq_keq : forall x x' l, keq x x' -> ceq (x :: l) (x' :: l).
Proof. intros x x' l Hk p [_ Hp]. rewrite !cnt_cons, (Hp x x' Hk). reflexivity. Qed.

Lemma adj_refl : forall x, adj x x.
Proof. intros x. unfold adj. repeat split; lia. Qed.

Lemma adj_trans : forall a b c, adj a b -> adj b c -> adj a c.
Proof.
  intros a b c (E1 & C1 & P1 & T1) (E2 & C2 & P2 & T2). unfold adj.
  split; [congruence|]. split; [congruence|]. split; [congruence|lia].
Qed.

Lemma adj_set_time : forall x t, (se_time x <= t)%Z -> adj x (set_time x t).
Proof.
  intros x t Ht. unfold adj, set_time. cbn [se_ev se_client se_pad se_time].
  split; [reflexivity|]. split; [reflexivity|]. split; [reflexivity|exact Ht].
Qed.

(** ** the event queue: push adds one element, pop removes one *)
Definition evq_events (q : evq) : list sev := q_base q ++ q_blocking q ++ q_bypass q ++ q_internal q.

Lemma all_events_split : forall sq, all_events sq = evq_events (sq_c sq) ++ evq_events (sq_s sq).
Proof. intros sq. unfold all_events, evq_events. rewrite <- !app_assoc. reflexivity. Qed.

Lemma perm_ins2 : forall (a b c d : list sev) x,
  Permutation (a ++ (x :: b) ++ c ++ d) (x :: a ++ b ++ c ++ d).
Proof. intros a b c d x. cbn [app]. apply Permutation_sym. apply Permutation_middle. Qed.

Lemma perm_ins3 : forall (a b c d : list sev) x,
  Permutation (a ++ b ++ (x :: c) ++ d) (x :: a ++ b ++ c ++ d).
Proof.
  intros a b c d x. cbn [app]. rewrite !(app_assoc a b).
  apply Permutation_sym. apply Permutation_middle.
Qed.

Lemma perm_ins4 : forall (a b c d : list sev) x,
  Permutation (a ++ b ++ c ++ x :: d) (x :: a ++ b ++ c ++ d).
Proof.
  intros a b c d x. rewrite !(app_assoc a b), !(app_assoc (a ++ b) c).
  apply Permutation_sym. apply Permutation_middle.
Qed.

Lemma evq_push_perm : forall q x, Permutation (evq_events (evq_push q x)) (x :: evq_events q).
Proof.
  intros q x. unfold evq_push, evq_events.
  destruct (se_ev x); try destruct (se_bypass x);
    cbn [q_base q_blocking q_bypass q_internal];
    rewrite (heap_push_perm _ sev_le);
    first [ apply Permutation_refl | apply perm_ins2 | apply perm_ins3 | apply perm_ins4 ].
Qed.

Lemma sq_push_perm : forall sq x, Permutation (all_events (sq_push sq x)) (x :: all_events sq).
Proof.
  intros sq x. rewrite !all_events_split. unfold sq_push, sq_set_side, sq_side.
  destruct (se_client x); cbn [sq_c sq_s].
  - rewrite evq_push_perm. apply Permutation_refl.
  - rewrite evq_push_perm. apply Permutation_sym. apply Permutation_middle.
Qed.

Lemma sq_push_ceq : forall sq x, ceq (all_events (sq_push sq x)) (x :: all_events sq).
Proof. intros sq x. apply ceq_perm. apply sq_push_perm. Qed.

Lemma sq_push_quiet : forall sq x, quiet x = true -> ceq (all_events (sq_push sq x)) (all_events sq).
Proof.
  intros sq x Hq. eapply ceq_trans; [apply sq_push_ceq|]. apply ceq_quiet. exact Hq.
Qed.

Lemma evq_pop_perm : forall q which d x q',
  evq_pop q which d = Some (x, q') ->
  exists x0, Permutation (evq_events q) (x0 :: evq_events q') /\ adj x0 x /\ (which <> QBase -> x0 = x).
Proof.
  intros q which d x q' H. unfold evq_pop in H. unfold evq_events.
  destruct which.
  - destruct (heap_pop sev_le (q_blocking q)) as [[y h]|] eqn:E; [|discriminate].
    injection H as <- <-. cbn [q_base q_blocking q_bypass q_internal].
    exists y. split; [|split; [apply adj_refl|reflexivity]].
    rewrite (heap_pop_perm _ _ _ _ _ E). apply perm_ins2.
  - destruct (heap_pop sev_le (q_bypass q)) as [[y h]|] eqn:E; [|discriminate].
    injection H as <- <-. cbn [q_base q_blocking q_bypass q_internal].
    exists y. split; [|split; [apply adj_refl|reflexivity]].
    rewrite (heap_pop_perm _ _ _ _ _ E). apply perm_ins3.
  - destruct (heap_pop sev_le (q_internal q)) as [[y h]|] eqn:E; [|discriminate].
    injection H as <- <-. cbn [q_base q_blocking q_bypass q_internal].
    exists y. split; [|split; [apply adj_refl|reflexivity]].
    rewrite (heap_pop_perm _ _ _ _ _ E). apply perm_ins4.
  - destruct (heap_pop sev_le (q_base q)) as [[y h]|] eqn:E; [|discriminate].
    injection H as <- <-. cbn [q_base q_blocking q_bypass q_internal].
    exists y. split; [|split; [apply adj_set_time; lia|intros C; contradiction C; reflexivity]].
    rewrite (heap_pop_perm _ _ _ _ _ E). apply Permutation_refl.
Qed.

Lemma sq_pop_perm : forall sq which c d x sq',
  sq_pop sq which c d = Some (x, sq') ->
  exists x0, Permutation (all_events sq) (x0 :: all_events sq') /\ adj x0 x /\ (which <> QBase -> x0 = x).
Proof.
  intros sq which c d x sq' H. unfold sq_pop in H.
  destruct (evq_pop (sq_side sq c) which d) as [[y q]|] eqn:E; [|discriminate].
  injection H as <- <-.
  destruct (evq_pop_perm _ _ _ _ _ E) as (x0 & HP & Ha & Hx).
  exists x0. split; [|split; [exact Ha|exact Hx]].
  rewrite !all_events_split. unfold sq_set_side, sq_side in *.
  destruct c; cbn [sq_c sq_s].
  - rewrite HP. apply Permutation_refl.
  - rewrite HP. apply Permutation_sym. apply Permutation_middle.
Qed.

(** ** routing: which heap holds which kind of event *)
Definition evq_routed (q : evq) : Prop :=
  (forall e, In e (q_base q) -> se_ev e = TENormalSent) /\
  (forall e, In e (q_blocking q) -> se_ev e = TETunnelSent) /\
  (forall e, In e (q_bypass q) -> se_ev e = TETunnelSent) /\
  (forall e, In e (q_internal q) -> se_ev e <> TETunnelSent /\ se_ev e <> TENormalSent).
Definition routed (sq : simq) : Prop := evq_routed (sq_c sq) /\ evq_routed (sq_s sq).

Lemma in_heap_push : forall h (x e : sev), In e (heap_push sev_le h x) -> e = x \/ In e h.
Proof.
  intros h x e H. apply (Permutation_in _ (heap_push_perm _ sev_le h x)) in H.
  destruct H as [->|H]; auto.
Qed.

Lemma in_heap_pop : forall h (x : sev) h' e, heap_pop sev_le h = Some (x, h') -> In e h' -> In e h.
Proof.
  intros h x h' e H He. apply (Permutation_in _ (Permutation_sym (heap_pop_perm _ _ _ _ _ H))).
  right. exact He.
Qed.

Lemma evq_push_routed : forall q x, evq_routed q -> evq_routed (evq_push q x).
Proof.
  intros q x (Hb & Hk & Hy & Hi). unfold evq_push, evq_routed.
  destruct (se_ev x) eqn:Ex; try destruct (se_bypass x);
    cbn [q_base q_blocking q_bypass q_internal];
    (split; [|split; [|split]]); auto;
    intros e He; apply in_heap_push in He; destruct He as [->|He]; auto;
    rewrite Ex; split; discriminate.
Qed.

Lemma evq_pop_routed : forall q which d x q',
  evq_pop q which d = Some (x, q') -> evq_routed q -> evq_routed q'.
Proof.
  intros q which d x q' H (Hb & Hk & Hy & Hi). unfold evq_pop in H. unfold evq_routed.
  destruct which;
    match type of H with
    | match ?e with _ => _ end = _ => destruct e as [[y h]|] eqn:E; [|discriminate]
    end; injection H as <- <-; cbn [q_base q_blocking q_bypass q_internal];
    (split; [|split; [|split]]); auto;
    intros e He; apply (in_heap_pop _ _ _ _ E) in He; auto.
Qed.

Lemma sq_push_routed : forall sq x, routed sq -> routed (sq_push sq x).
Proof.
  intros sq x [Hc Hs]. unfold sq_push, sq_set_side, sq_side, routed.
  destruct (se_client x); cbn [sq_c sq_s]; split; auto; apply evq_push_routed; assumption.
Qed.

Lemma sq_pop_routed : forall sq which c d x sq',
  sq_pop sq which c d = Some (x, sq') -> routed sq -> routed sq'.
Proof.
  intros sq which c d x sq' H [Hc Hs]. unfold sq_pop in H.
  destruct (evq_pop (sq_side sq c) which d) as [[y q]|] eqn:E; [|discriminate].
  injection H as <- <-. unfold sq_set_side, sq_side, routed in *.
  destruct c; cbn [sq_c sq_s]; split; auto; eapply evq_pop_routed; eauto.
Qed.

(** ** the network keeps its base delay *)
Lemma net_pop_agg_delay : forall nb, n_delay (net_pop_agg nb) = n_delay nb.
Proof.
  intros nb. unfold net_pop_agg.
  destruct (heap_pop pend_le (n_aggq nb)) as [[p q]|]; [|reflexivity].
  destruct (p_client p); reflexivity.
Qed.

Lemma net_push_agg_delay : forall nb blk t c, n_delay (net_push_agg nb blk t c) = n_delay nb.
Proof.
  intros nb blk t c. unfold net_push_agg.
  destruct c; cbn [net_set_aggq n_delay]; reflexivity.
Qed.

Lemma net_sample_delay : forall nb t c nb' d bl,
  net_sample nb t c = (nb', d, bl) -> n_delay nb' = n_delay nb /\ n_delay nb <= d.
Proof.
  intros nb t c nb' d bl H. unfold net_sample in H.
  destruct (window_add (if c then n_cwin nb else n_swin nb) t) as [w count].
  destruct (0 <? _); injection H as <- <- <-; destruct c; cbn [n_delay]; split; lia.
Qed.

(** ** pick_next *)
Lemma do_internal_timer_quiet : forall c s t c' s' e,
  do_internal_timer c s t = Ok (c', s', e) -> quiet e = true.
Proof.
  intros c s t c' s' e H. unfold do_internal_timer in H.
  destruct (take_timer (s_timers c) t 0) as [[id l]|].
  - injection H as <- <- <-. reflexivity.
  - destruct (take_timer (s_timers s) t 0) as [[id l]|]; [|discriminate].
    injection H as <- <- <-. reflexivity.
Qed.

Lemma act_on_quiet : forall sd c a t sd' e, act_on sd c a t = Ok (sd', e) -> quiet e = true.
Proof.
  intros sd c a t sd' e H. unfold act_on in H.
  destruct a; try discriminate; injection H as <- <-; reflexivity.
Qed.

Lemma do_scheduled_action_quiet : forall c s t c' s' e,
  do_scheduled_action c s t = Ok (c', s', e) -> quiet e = true.
Proof.
  intros c s t c' s' e H. unfold do_scheduled_action in H.
  destruct (take_action (s_sched c) t) as [[[a ta] l]|].
  - mbind H as [c1 e1] E. injection H as <- <- <-. eapply act_on_quiet; eauto.
  - destruct (take_action (s_sched s) t) as [[[a ta] l]|]; [|discriminate].
    mbind H as [s1 e1] E. injection H as <- <- <-. eapply act_on_quiet; eauto.
Qed.

Lemma pick_next_spec : forall fuel st nowt nx st',
  pick_next fuel st nowt = Ok (nx, st') ->
  n_delay (m_net st') = n_delay (m_net st) /\
  (routed (m_sq st) -> routed (m_sq st')) /\
  match nx with
  | None => ceq (all_events (m_sq st)) (all_events (m_sq st'))
  | Some next => exists x0, ceq (all_events (m_sq st)) (x0 :: all_events (m_sq st')) /\ adj x0 next
  end.
Proof.
  induction fuel as [|f IH]; intros st nowt nx st' H; [discriminate|].
  cbn [pick_next] in H.
  match type of H with context [peek_blocked_exp ?a1 ?a2 ?a3] =>
    destruct (peek_blocked_exp a1 a2 a3) as [b bc] end.
  match type of H with context [peek_queue ?a1 ?a2 ?a3 ?a4 ?a5 ?a6 ?a7] =>
    destruct (peek_queue a1 a2 a3 a4 a5 a6 a7) as [[q which] qc] end.
  match type of H with (if ?c then _ else _) = _ => destruct c end.
  { injection H as <- <-. split; [reflexivity|]. split; [auto|]. apply ceq_refl. }
  match type of H with (if ?c then _ else _) = _ => destruct c end.
  { apply IH in H. cbn [m_net m_sq] in H. rewrite net_pop_agg_delay in H. exact H. }
  match type of H with (if ?c then _ else _) = _ => destruct c end.
  { assert (Hq : forall cs nt, Ok (Some (mksev TEBlockingEnd (nowt + Z.of_N b) bc false false false),
                                   mksim (m_sq st) (fst cs) (snd cs) nt (m_pos st)) = Ok (nx, st') ->
                               n_delay nt = n_delay (m_net st) ->
              n_delay (m_net st') = n_delay (m_net st) /\
              (routed (m_sq st) -> routed (m_sq st')) /\
              match nx with
              | None => ceq (all_events (m_sq st)) (all_events (m_sq st'))
              | Some next => exists x0, ceq (all_events (m_sq st)) (x0 :: all_events (m_sq st')) /\ adj x0 next
              end).
    { intros cs nt Hr Hd. injection Hr as <- <-. cbn [m_net m_sq]. split; [exact Hd|].
      split; [auto|]. eexists. split; [|apply adj_refl].
      apply ceq_sym. apply ceq_quiet. reflexivity. }
    match type of H with (let '(_, _) := ?cs in _) = _ => destruct cs as [c' s'] eqn:Ecs end.
    eapply (Hq (c', s')); [exact H|].
    destruct (fst (sq_peek_blocking (m_sq st) false bc)) as [ev|]; [|reflexivity].
    destruct (se_time ev <? nowt + Z.of_N b)%Z; [|reflexivity].
    destruct (agg_delay_on_blocking_expire _ _ _ _ _); [|reflexivity].
    apply net_push_agg_delay. }
  match type of H with (if ?c then _ else _) = _ => destruct c end.
  { match type of H with match ?e with _ => _ end = _ => destruct e as [[tmp sq']|] eqn:Ep end;
      [|discriminate].
    injection H as <- <-. cbn [m_net m_sq]. split; [reflexivity|].
    split; [intros Hr; eapply sq_pop_routed; eauto|].
    destruct (sq_pop_perm _ _ _ _ _ _ Ep) as (x0 & HP & Ha & _).
    exists x0. split; [apply ceq_perm; exact HP|].
    eapply adj_trans; [exact Ha|].
    destruct (Z.ltb_spec (se_time tmp) (nowt + Z.of_N q)%Z); [apply adj_set_time; lia|apply adj_refl]. }
  match type of H with (if ?c then _ else _) = _ => destruct c end.
  { mbind H as [[c' s'] e] Et. apply do_internal_timer_quiet in Et.
    apply IH in H. cbn [m_net m_sq] in H. destruct H as (Hd & Hr & Hc).
    split; [exact Hd|]. split; [intros R; apply Hr; apply sq_push_routed; exact R|].
    destruct nx as [next|].
    - destruct Hc as (x0 & Hc & Ha). exists x0. split; [|exact Ha].
      eapply ceq_trans; [apply ceq_sym; apply sq_push_quiet; exact Et|exact Hc].
    - eapply ceq_trans; [apply ceq_sym; apply sq_push_quiet; exact Et|exact Hc]. }
  { mbind H as [[c' s'] e] Et. apply do_scheduled_action_quiet in Et.
    apply IH in H. cbn [m_net m_sq] in H. destruct H as (Hd & Hr & Hc).
    split; [exact Hd|]. split; [intros R; apply Hr; apply sq_push_routed; exact R|].
    destruct nx as [next|].
    - destruct Hc as (x0 & Hc & Ha). exists x0. split; [|exact Ha].
      eapply ceq_trans; [apply ceq_sym; apply sq_push_quiet; exact Et|exact Hc].
    - eapply ceq_trans; [apply ceq_sym; apply sq_push_quiet; exact Et|exact Hc]. }
Qed.

(** ** sim_network_stack: what one processed event adds to the queue *)
Definition net_out (d : N) (next : sev) (ys : list sev) : Prop :=
  match se_ev next with
  | TENormalSent =>
      exists y, ys = [y] /\ se_ev y = TETunnelSent /\ se_client y = se_client next /\ se_pad y = false
  | TEPaddingSent _ =>
      ys = [] \/
      exists y, ys = [y] /\ se_ev y = TETunnelSent /\ se_client y = se_client next /\ se_pad y = true
  | TETunnelSent =>
      exists y, ys = [y] /\ se_ev y = TETunnelRecv /\ se_client y = negb (se_client next) /\
                se_pad y = se_pad next /\ (se_time next + Z.of_N d <= se_time y)%Z
  | TETunnelRecv =>
      if se_pad next then ys = []
      else exists y, ys = [y] /\ se_ev y = TENormalRecv /\ se_client y = se_client next
  | _ => ys = []
  end.

Lemma sq_peek_blocking_which : forall sq ab c p which,
  sq_peek_blocking sq ab c = (p, which) -> which <> QBase.
Proof.
  intros sq ab c p which H. unfold sq_peek_blocking in H.
  destruct ab; [injection H as <- <-; discriminate|].
  destruct (opt_gt _ _); injection H as <- <-; discriminate.
Qed.

Lemma sim_network_stack_spec : forall next sq bb net nowt sq2 net2 act,
  sim_network_stack next sq bb net nowt = Ok (sq2, net2, act) ->
  n_delay net2 = n_delay net /\ (routed sq -> routed sq2) /\
  exists ys, ceq (all_events sq2) (ys ++ all_events sq) /\ net_out (n_delay net) next ys.
Proof.
  intros next sq bb net nowt sq2 net2 act H.
  unfold sim_network_stack in H. unfold net_out.
  destruct (se_ev next) eqn:Ev.
  - injection H as <- <- <-. split; [reflexivity|]. split; [auto|].
    exists []. split; [apply ceq_refl|reflexivity].
  - injection H as <- <- <-. split; [reflexivity|]. split; [auto|].
    exists []. split; [apply ceq_refl|reflexivity].
  - (* TunnelRecv *)
    destruct (se_pad next); injection H as <- <- <-; (split; [reflexivity|]);
      (split; [intros R; apply sq_push_routed; exact R|]).
    + exists []. split; [|reflexivity]. apply sq_push_quiet. reflexivity.
    + eexists [_]. split; [apply sq_push_ceq|]. eexists. split; [reflexivity|].
      cbn [se_ev se_client]. split; reflexivity.
  - (* NormalSent *)
    injection H as <- <- <-. split; [reflexivity|].
    split; [intros R; apply sq_push_routed; exact R|].
    eexists [_]. split; [apply sq_push_ceq|]. eexists. split; [reflexivity|].
    cbn [se_ev se_client se_pad]. split; [reflexivity|]. split; reflexivity.
  - (* PaddingSent *)
    assert (Hplain : forall sqx netx actx,
      Ok (sq_push sq (mksev TETunnelSent (se_time next) (se_client next) true (se_bypass next) (se_replace next)),
          net, false) = Ok (sqx, netx, actx) ->
      n_delay netx = n_delay net /\ (routed sq -> routed sqx) /\
      exists ys, ceq (all_events sqx) (ys ++ all_events sq) /\
        (ys = [] \/ exists y, ys = [y] /\ se_ev y = TETunnelSent /\ se_client y = se_client next /\ se_pad y = true)).
    { intros sqx netx actx Hx. injection Hx as <- <- <-. split; [reflexivity|].
      split; [intros R; apply sq_push_routed; exact R|].
      eexists [_]. split; [apply sq_push_ceq|]. right. eexists. split; [reflexivity|].
      cbn [se_ev se_client se_pad]. split; [reflexivity|]. split; reflexivity. }
    destruct (se_replace next); [|apply (Hplain _ _ _ H)].
    destruct (sq_peek_blocking sq bb (se_client next)) as [[queued|] which] eqn:Epk; [|apply (Hplain _ _ _ H)].
    match type of H with (if ?c then _ else _) = _ => destruct c end; [|apply (Hplain _ _ _ H)].
    destruct (negb (se_bypass next)).
    { injection H as <- <- <-. split; [reflexivity|]. split; [auto|].
      exists []. split; [apply ceq_refl|left; reflexivity]. }
    destruct (sq_pop_blocking sq which bb (se_client next) _) as [[entry sq']|] eqn:Epop; [|discriminate].
    injection H as <- <- <-.
    assert (Hpop : exists wh d, sq_pop sq wh (se_client next) d = Some (entry, sq') /\ wh <> QBase).
    { unfold sq_pop_blocking in Epop. destruct bb.
      - eexists _, _. split; [exact Epop|discriminate].
      - eexists _, _. split; [exact Epop|]. eapply sq_peek_blocking_which; eauto. }
    destruct Hpop as (wh & d & Hpop & Hwh).
    destruct (sq_pop_perm _ _ _ _ _ _ Hpop) as (x0 & HP & _ & Hx0). specialize (Hx0 Hwh). subst x0.
    split.
    { destruct (agg_delay_on_padding_bypass_replace _ _ _ _ _); [apply net_push_agg_delay|reflexivity]. }
    split.
    { intros R. apply sq_push_routed. eapply sq_pop_routed; eauto. }
    exists []. split; [|left; reflexivity]. cbn [app].
    eapply ceq_trans; [apply sq_push_ceq|].
    eapply ceq_trans; [|apply ceq_sym; apply ceq_perm; exact HP].
    apply ceq_keq. unfold keq. cbn [se_ev se_client se_pad se_time].
    split; [reflexivity|]. split; [reflexivity|]. split; reflexivity.
  - (* TunnelSent *)
    destruct (net_sample net nowt (se_client next)) as [[net1 nd] bl] eqn:Es.
    destruct (net_sample_delay _ _ _ _ _ _ Es) as [Hd1 Hnd].
    assert (Hd2 : n_delay (match bl with
                           | Some pps_delay =>
                               if should_delayed_packet_prop_agg_delay sq (se_client next) next (n_cagg net1)
                               then net_push_agg net1 pps_delay nowt (se_client next) else net1
                           | None => net1 end) = n_delay net).
    { destruct bl; [|exact Hd1].
      destruct (should_delayed_packet_prop_agg_delay _ _ _ _); [|exact Hd1].
      rewrite net_push_agg_delay. exact Hd1. }
    destruct (se_pad next) eqn:Epad; cbn [negb] in H; injection H as <- <- <-;
      (split; [exact Hd2|]); (split; [intros R; apply sq_push_routed; exact R|]);
      (eexists [_]; split; [apply sq_push_ceq|]); (eexists; split; [reflexivity|]);
      cbn [se_ev se_client se_pad se_time];
      (split; [reflexivity|]); (split; [reflexivity|]); (split; [reflexivity|]); lia.
  - injection H as <- <- <-. split; [reflexivity|]. split; [auto|].
    exists []. split; [apply ceq_refl|reflexivity].
  - injection H as <- <- <-. split; [reflexivity|]. split; [auto|].
    exists []. split; [apply ceq_refl|reflexivity].
  - injection H as <- <- <-. split; [reflexivity|]. split; [auto|].
    exists []. split; [apply ceq_refl|reflexivity].
  - injection H as <- <- <-. split; [reflexivity|]. split; [auto|].
    exists []. split; [apply ceq_refl|reflexivity].
Qed.

(** ** trigger_update only queues TimerBegin events *)
Lemma apply_actions_spec : forall acts sd sq nowt c sd' sq',
  apply_actions acts sd sq nowt c = Ok (sd', sq') ->
  ceq (all_events sq') (all_events sq) /\ (routed sq -> routed sq').
Proof.
  induction acts as [|a rest IH]; intros sd sq nowt c sd' sq' H; cbn [apply_actions] in H.
  - injection H as <- <-. split; [apply ceq_refl|auto].
  - mbind H as [sd1 sq1] E. apply IH in H. destruct H as [Hc Hr].
    assert (H1 : ceq (all_events sq1) (all_events sq) /\ (routed sq -> routed sq1)).
    { destruct a.
      - mbind E as u Eg. injection E as <- <-. split; [apply ceq_refl|auto].
      - mbind E as u Eg. injection E as <- <-. split; [apply ceq_refl|auto].
      - mbind E as u Eg. injection E as <- <-. split; [apply ceq_refl|auto].
      - mbind E as u Eg.
        match type of E with (if ?b then _ else _) = _ => destruct b end; injection E as <- <-.
        + split; [apply sq_push_quiet; reflexivity|]. intros R. apply sq_push_routed. exact R.
        + split; [apply ceq_refl|auto]. }
    destruct H1 as [Hc1 Hr1]. split; [eapply ceq_trans; eauto|auto].
Qed.

Lemma trigger_update_spec : forall cf tp sd pos next nowt sq c sd' sq' pos',
  trigger_update cf tp sd pos next nowt sq c = Ok (sd', sq', pos') ->
  ceq (all_events sq') (all_events sq) /\ (routed sq -> routed sq').
Proof.
  intros cf tp sd pos next nowt sq c sd' sq' pos' H. unfold trigger_update in H.
  mbind H as [fw' acts] E1. mbind H as [sd1 sq1] E2. injection H as <- <- <-.
  eapply apply_actions_spec; eauto.
Qed.

(** ** the loop invariant *)
Definition P_tr (X k : bool) (T : Z) (e : sev) : bool := is_tr X k e && upto T e.
Definition P_ts (X k : bool) (d : N) (T : Z) (e : sev) : bool := is_ts X k e && sent_by d T e.

Record inv (d : N) (share : bool -> nat) (tr Q : list sev) : Prop := mkinv {
  i_caus : forall X k T, (cnt (P_tr X k T) tr + cnt (P_tr X k T) Q <= cnt (P_ts (negb X) k d T) tr)%nat;
  i_ns : forall X, (cnt (is_ns X) tr + cnt (is_ns X) Q = share X)%nat;
  i_ts : forall X, (cnt (is_ts X false) tr + cnt (is_ts X false) Q = cnt (is_ns X) tr)%nat;
  i_tr : forall X, (cnt (is_tr X false) tr + cnt (is_tr X false) Q = cnt (is_ts (negb X) false) tr)%nat;
  i_nr : forall X, (cnt (is_nr X) tr + cnt (is_nr X) Q = cnt (is_tr X false) tr)%nat
}.

Ltac good_tac :=
  split;
  [ intros e; unfold quiet, P_tr, is_tr, is_ts, is_ns, is_nr; destruct (se_ev e); cbn; congruence
  | intros e e' (E & C & P & Tm); unfold P_tr, is_tr, is_ts, is_ns, is_nr, upto; rewrite ?E, ?C, ?P, ?Tm; reflexivity ].

Lemma good_P_tr : forall X k T, good (P_tr X k T). Proof. intros; good_tac. Qed.
Lemma good_is_tr : forall X k, good (is_tr X k). Proof. intros; good_tac. Qed.
Lemma good_is_ts : forall X k, good (is_ts X k). Proof. intros; good_tac. Qed.
Lemma good_is_ns : forall X, good (is_ns X). Proof. intros; good_tac. Qed.
Lemma good_is_nr : forall X, good (is_nr X). Proof. intros; good_tac. Qed.

Ltac local_tac :=
  intros d x0 next ys (E & C & P & Tm) Hn; intros;
  unfold P_tr, P_ts, is_ts, is_tr, is_ns, is_nr, upto, sent_by;
  rewrite <- ?E, <- ?C, <- ?P; clear E C P;
  unfold net_out in Hn; revert Hn;
  destruct (se_ev next); intros Hn;
  repeat match goal with
    | H : _ \/ _ |- _ => destruct H
    | H : exists _, _ |- _ => destruct H
    | H : _ /\ _ |- _ => destruct H
    | H : (if se_pad ?n then _ else _) |- _ => destruct (se_pad n) eqn:?
    | H : ?l = [] |- _ => subst l
    | H : ?l = [_] |- _ => subst l
    end;
  rewrite ?cnt_cons, ?cnt_nil;
  repeat match goal with
    | H : se_ev ?y = _ |- _ => rewrite H; clear H
    | H : se_client ?y = _ |- _ => rewrite H; clear H
    | H : se_pad ?y = _ |- _ => rewrite H; clear H
    end;
  cbn [is_tunnel_sent is_tunnel_recv andb];
  repeat match goal with b : bool |- _ => destruct b end;
  destruct (se_client next); destruct (se_pad next);
  cbn [Bool.eqb negb andb b2n];
  repeat match goal with |- context [(?a <=? ?b)%Z] => destruct (Z.leb_spec a b) end;
  cbn [b2n]; lia.

Lemma loc_caus : forall d x0 next ys, adj x0 next -> net_out d next ys -> forall X k T,
  (b2n (P_tr X k T next) + cnt (P_tr X k T) ys <= b2n (P_tr X k T x0) + b2n (P_ts (negb X) k d T next))%nat.
Proof. local_tac. Qed.

Lemma loc_ns : forall d x0 next ys, adj x0 next -> net_out d next ys -> forall X,
  (b2n (is_ns X next) + cnt (is_ns X) ys = b2n (is_ns X x0))%nat.
Proof. local_tac. Qed.

Lemma loc_ts : forall d x0 next ys, adj x0 next -> net_out d next ys -> forall X,
  (b2n (is_ts X false next) + cnt (is_ts X false) ys = b2n (is_ts X false x0) + b2n (is_ns X next))%nat.
Proof. local_tac. Qed.

Lemma loc_tr : forall d x0 next ys, adj x0 next -> net_out d next ys -> forall X,
  (b2n (is_tr X false next) + cnt (is_tr X false) ys
   = b2n (is_tr X false x0) + b2n (is_ts (negb X) false next))%nat.
Proof. local_tac. Qed.

Lemma loc_nr : forall d x0 next ys, adj x0 next -> net_out d next ys -> forall X,
  (b2n (is_nr X next) + cnt (is_nr X) ys = b2n (is_nr X x0) + b2n (is_tr X false next))%nat.
Proof. local_tac. Qed.

Lemma inv_ceq : forall d share tr Q Q', inv d share tr Q -> ceq Q Q' -> inv d share tr Q'.
Proof.
  intros d share tr Q Q' [Hc Hn Ht Hr Hnr] HQ. constructor.
  - intros X k T. rewrite <- (HQ _ (good_P_tr X k T)). apply Hc.
  - intros X. rewrite <- (HQ _ (good_is_ns X)). apply Hn.
  - intros X. rewrite <- (HQ _ (good_is_ts X false)). apply Ht.
  - intros X. rewrite <- (HQ _ (good_is_tr X false)). apply Hr.
  - intros X. rewrite <- (HQ _ (good_is_nr X)). apply Hnr.
Qed.

Lemma inv_perm : forall d share tr tr' Q, inv d share tr Q -> Permutation tr tr' -> inv d share tr' Q.
Proof.
  intros d share tr tr' Q [Hc Hn Ht Hr Hnr] HP. constructor.
  - intros X k T. rewrite <- !(cnt_perm _ _ _ HP). apply Hc.
  - intros X. rewrite <- !(cnt_perm _ _ _ HP). apply Hn.
  - intros X. rewrite <- !(cnt_perm _ _ _ HP). apply Ht.
  - intros X. rewrite <- !(cnt_perm _ _ _ HP). apply Hr.
  - intros X. rewrite <- !(cnt_perm _ _ _ HP). apply Hnr.
Qed.

(** one iteration of the main loop: [x0] leaves the queue and is recorded as [next]
    (possibly later), the network stack queues [ys], the framework only timers *)
Lemma inv_step : forall d share tr Q Q1 Q2 Q3 x0 next ys,
  inv d share tr Q -> ceq Q (x0 :: Q1) -> adj x0 next ->
  ceq Q2 (ys ++ Q1) -> net_out d next ys -> ceq Q3 Q2 ->
  inv d share (next :: tr) Q3.
Proof.
  intros d share tr Q Q1 Q2 Q3 x0 next ys [Hc Hn Ht Hr Hnr] HQ Ha HQ2 Hnet HQ3.
  assert (HA : forall p, good p -> cnt p Q = (b2n (p x0) + cnt p Q1)%nat).
  { intros p Hp. rewrite (HQ p Hp), cnt_cons. reflexivity. }
  assert (HB : forall p, good p -> cnt p Q3 = (cnt p ys + cnt p Q1)%nat).
  { intros p Hp. rewrite (HQ3 p Hp), (HQ2 p Hp), cnt_app. reflexivity. }
  constructor.
  - intros X k T. specialize (Hc X k T).
    rewrite (HA _ (good_P_tr X k T)) in Hc. rewrite (HB _ (good_P_tr X k T)), !cnt_cons.
    pose proof (loc_caus d x0 next ys Ha Hnet X k T). lia.
  - intros X. specialize (Hn X).
    rewrite (HA _ (good_is_ns X)) in Hn. rewrite (HB _ (good_is_ns X)), !cnt_cons.
    pose proof (loc_ns d x0 next ys Ha Hnet X). lia.
  - intros X. specialize (Ht X).
    rewrite (HA _ (good_is_ts X false)) in Ht. rewrite (HB _ (good_is_ts X false)), !cnt_cons.
    pose proof (loc_ts d x0 next ys Ha Hnet X). lia.
  - intros X. specialize (Hr X).
    rewrite (HA _ (good_is_tr X false)) in Hr. rewrite (HB _ (good_is_tr X false)), !cnt_cons.
    pose proof (loc_tr d x0 next ys Ha Hnet X). lia.
  - intros X. specialize (Hnr X).
    rewrite (HA _ (good_is_nr X)) in Hnr. rewrite (HB _ (good_is_nr X)), !cnt_cons.
    pose proof (loc_nr d x0 next ys Ha Hnet X). lia.
Qed.

(** ** ghost variants of the main loop: why it stopped, and the final queue *)
Inductive stop := StopEmpty | StopTrace | StopIter | StopNormal.

Definition omap {A B} (f : A -> B) (o : outcome A) : outcome B :=
  match o with Ok a => Ok (f a) | Panic k => Panic k | OutOfFuel => OutOfFuel end.

Fixpoint sim_loop_r (fuel : nat) (ccfg scfg : cfg) (tp : tape) (args : simargs) (st : sim) (nowt : Z)
         (trace : list sev) (iters : N) : outcome (list sev * stop) :=
  match fuel with
  | O => OutOfFuel
  | S fuel' =>
      '(nx, st1) <- pick_next (S (S (length (n_aggq (m_net st)) + length (s_timers (m_c st))
                                     + length (s_timers (m_s st)) + length (s_sched (m_c st))
                                     + length (s_sched (m_s st))))) st nowt ;;
      match nx with
      | None => Ok (rev trace, StopEmpty)
      | Some next =>
          if (se_time next <? nowt)%Z then Panic P_BUG
          else
            let nowt' := se_time next in
            let sender_bb := if se_client next then s_bbypass (m_c st1) else s_bbypass (m_s st1) in
            '(sq2, net2, activity) <- sim_network_stack next (m_sq st1) sender_bb (m_net st1) nowt' ;;
            '(c3, s3, sq3, pos3) <-
              (if se_client next then
                 '(c', sq', p') <- trigger_update ccfg tp (m_c st1) (m_pos st1) next nowt' sq2 true ;;
                 Ok (c', m_s st1, sq', p')
               else
                 '(s', sq', p') <- trigger_update scfg tp (m_s st1) (m_pos st1) next nowt' sq2 false ;;
                 Ok (m_c st1, s', sq', p')) ;;
            let st3 := mksim sq3 c3 s3 net2 pos3 in
            let trace' := if (negb (a_only_network args) || activity)
                             && (negb (a_only_client args) || se_client next)
                          then next :: trace else trace in
            if (0 <? a_max_trace args) && (a_max_trace args <=? N.of_nat (length trace'))
            then Ok (rev trace', StopTrace)
            else
              let iters' := iters + 1 in
              if (0 <? a_max_iter args) && (a_max_iter args <=? iters') then Ok (rev trace', StopIter)
              else if negb (a_continue args) && sq_no_normal sq3 then Ok (rev trace', StopNormal)
              else sim_loop_r fuel' ccfg scfg tp args st3 nowt' trace' iters'
      end
  end.

(** the same, also returning the queue at the moment the loop stopped *)
Fixpoint sim_loop_g (fuel : nat) (ccfg scfg : cfg) (tp : tape) (args : simargs) (st : sim) (nowt : Z)
         (trace : list sev) (iters : N) : outcome (list sev * stop * simq) :=
  match fuel with
  | O => OutOfFuel
  | S fuel' =>
      '(nx, st1) <- pick_next (S (S (length (n_aggq (m_net st)) + length (s_timers (m_c st))
                                     + length (s_timers (m_s st)) + length (s_sched (m_c st))
                                     + length (s_sched (m_s st))))) st nowt ;;
      match nx with
      | None => Ok (rev trace, StopEmpty, m_sq st1)
      | Some next =>
          if (se_time next <? nowt)%Z then Panic P_BUG
          else
            let nowt' := se_time next in
            let sender_bb := if se_client next then s_bbypass (m_c st1) else s_bbypass (m_s st1) in
            '(sq2, net2, activity) <- sim_network_stack next (m_sq st1) sender_bb (m_net st1) nowt' ;;
            '(c3, s3, sq3, pos3) <-
              (if se_client next then
                 '(c', sq', p') <- trigger_update ccfg tp (m_c st1) (m_pos st1) next nowt' sq2 true ;;
                 Ok (c', m_s st1, sq', p')
               else
                 '(s', sq', p') <- trigger_update scfg tp (m_s st1) (m_pos st1) next nowt' sq2 false ;;
                 Ok (m_c st1, s', sq', p')) ;;
            let st3 := mksim sq3 c3 s3 net2 pos3 in
            let trace' := if (negb (a_only_network args) || activity)
                             && (negb (a_only_client args) || se_client next)
                          then next :: trace else trace in
            if (0 <? a_max_trace args) && (a_max_trace args <=? N.of_nat (length trace'))
            then Ok (rev trace', StopTrace, sq3)
            else
              let iters' := iters + 1 in
              if (0 <? a_max_iter args) && (a_max_iter args <=? iters') then Ok (rev trace', StopIter, sq3)
              else if negb (a_continue args) && sq_no_normal sq3 then Ok (rev trace', StopNormal, sq3)
              else sim_loop_g fuel' ccfg scfg tp args st3 nowt' trace' iters'
      end
  end.

Ltac loop_agree IH :=
  match goal with
  | |- context [pick_next ?f ?st ?t] => destruct (pick_next f st t) as [[[?|] ?]| |]
  end; cbn [bind omap]; try reflexivity;
  match goal with
  | |- context [(se_time ?n <? ?t)%Z] => destruct (se_time n <? t)%Z; [reflexivity|]
  end;
  match goal with
  | |- context [sim_network_stack ?a ?b ?c ?d ?e] =>
      destruct (sim_network_stack a b c d e) as [[[? ?] ?]| |]
  end; cbn [bind omap]; try reflexivity;
  match goal with
  | |- context [bind (if se_client ?n then ?a else ?b)] =>
      destruct (if se_client n then a else b) as [[[[? ?] ?] ?]| |]
  end; cbn [bind omap]; try reflexivity;
  repeat match goal with
  | |- context [if ?c then Ok _ else _] => destruct c; [reflexivity|]
  end;
  apply IH.

Lemma sim_loop_r_agrees : forall fuel cc sc tp args st nowt tr it,
  omap fst (sim_loop_r fuel cc sc tp args st nowt tr it) = sim_loop fuel cc sc tp args st nowt tr it.
Proof.
  induction fuel as [|f IH]; intros cc sc tp args st nowt tr it; [reflexivity|].
  cbn [sim_loop sim_loop_r]. loop_agree IH.
Qed.

Lemma sim_loop_g_agrees : forall fuel cc sc tp args st nowt tr it,
  omap fst (sim_loop_g fuel cc sc tp args st nowt tr it) = sim_loop_r fuel cc sc tp args st nowt tr it.
Proof.
  induction fuel as [|f IH]; intros cc sc tp args st nowt tr it; [reflexivity|].
  cbn [sim_loop_g sim_loop_r]. loop_agree IH.
Qed.

(** ** the invariant holds along the whole loop *)
Lemma sim_loop_g_inv : forall fuel cc sc tp args share st nowt tr it out why qf,
  full_args args ->
  sim_loop_g fuel cc sc tp args st nowt tr it = Ok (out, why, qf) ->
  inv (n_delay (m_net st)) share tr (all_events (m_sq st)) -> routed (m_sq st) ->
  inv (n_delay (m_net st)) share out (all_events qf) /\ routed qf /\
  (why = StopNormal -> sq_no_normal qf = true).
Proof.
  induction fuel as [|f IH]; intros cc sc tp args share st nowt tr it out why qf [Hoc Hon] H Hinv Hrt;
    [discriminate|].
  cbn [sim_loop_g] in H.
  mbind H as [nx st1] Ep. apply pick_next_spec in Ep. destruct Ep as (Hd1 & Hr1 & Hc1).
  specialize (Hr1 Hrt).
  destruct nx as [next|].
  2:{ injection H as <- <- <-. split; [|split; [exact Hr1|discriminate]].
      eapply inv_perm; [|apply Permutation_rev]. eapply inv_ceq; eauto. }
  destruct Hc1 as (x0 & Hc1 & Ha).
  destruct (se_time next <? nowt)%Z; [discriminate|].
  mbind H as [[sq2 net2] act] En. apply sim_network_stack_spec in En.
  destruct En as (Hd2 & Hr2 & ys & Hc2 & Hout). specialize (Hr2 Hr1).
  mbind H as [[[c3 s3] sq3] pos3] Et.
  assert (Hc3 : ceq (all_events sq3) (all_events sq2) /\ (routed sq2 -> routed sq3)).
  { destruct (se_client next).
    - mbind Et as [[c' sq'] p'] Eu. injection Et as <- <- <- <-. eapply trigger_update_spec; eauto.
    - mbind Et as [[s' sq'] p'] Eu. injection Et as <- <- <- <-. eapply trigger_update_spec; eauto. }
  destruct Hc3 as [Hc3 Hr3]. specialize (Hr3 Hr2). clear Et.
  rewrite Hoc, Hon in H. cbn [negb orb andb] in H.
  rewrite Hd1 in Hout.
  assert (Hinv3 : inv (n_delay (m_net st)) share (next :: tr) (all_events sq3)).
  { eapply inv_step; eauto. }
  assert (Hfin : inv (n_delay (m_net st)) share (rev (next :: tr)) (all_events sq3)).
  { eapply inv_perm; [exact Hinv3|apply Permutation_rev]. }
  match type of H with (if ?c then _ else _) = _ => destruct c eqn:C1 end.
  { injection H as <- <- <-. split; [exact Hfin|]. split; [exact Hr3|discriminate]. }
  match type of H with (if ?c then _ else _) = _ => destruct c eqn:C2 end.
  { injection H as <- <- <-. split; [exact Hfin|]. split; [exact Hr3|discriminate]. }
  match type of H with (if ?c then _ else _) = _ => destruct c eqn:C3 end.
  { injection H as <- <- <-. split; [exact Hfin|]. split; [exact Hr3|].
    intros _. apply andb_prop in C3. apply C3. }
  apply IH with (share := share) in H; [| split; assumption | |]; cbn [m_net m_sq] in *.
  - rewrite Hd2, Hd1 in H. exact H.
  - rewrite Hd2, Hd1. exact Hinv3.
  - exact Hr3.
Qed.

(** ** the initial queue *)
Definition share_of (sq : simq) (X : bool) : nat := length (q_base (if X then sq_c sq else sq_s sq)).

Lemma init_push : forall q t c,
  init_simq q -> init_simq (sq_push q (mksev TENormalSent t c false false false)).
Proof.
  intros q t c (H1 & H2 & H3 & H4 & H5 & H6 & Hc & Hs).
  unfold init_simq, sq_push, sq_set_side, sq_side, evq_push. cbn [se_client se_ev].
  destruct c; cbn [sq_c sq_s q_base q_blocking q_bypass q_internal].
  - do 6 (split; [assumption|]). split; [|exact Hs].
    intros e He. apply in_heap_push in He. destruct He as [->|He]; [split; reflexivity|auto].
  - do 6 (split; [assumption|]). split; [exact Hc|].
    intros e He. apply in_heap_push in He. destruct He as [->|He]; [split; reflexivity|auto].
Qed.

Lemma parse_lines_init : forall tr delay q sw rw smax rmax q' pps,
  init_simq q -> parse_lines tr delay q sw rw smax rmax = (q', pps) -> init_simq q'.
Proof.
  induction tr as [|[t dir] rest IH]; intros delay q sw rw smax rmax q' pps Hq H; cbn [parse_lines] in H.
  - injection H as <- _. exact Hq.
  - destruct dir.
    + destruct (window_add_w PARSE_WINDOW sw t) as [sw' m]. eapply IH; [|exact H]. apply init_push. exact Hq.
    + destruct (window_add_w PARSE_WINDOW rw t) as [rw' m]. eapply IH; [|exact H]. apply init_push. exact Hq.
Qed.

Lemma parse_trace_init : forall tr delay, init_simq (parse_trace tr delay).
Proof.
  intros tr delay. unfold parse_trace.
  destruct (parse_lines tr delay (mksimq evq_empty evq_empty None) [] [] 0 0) as [q pps] eqn:E.
  apply parse_lines_init in E.
  - unfold init_simq in *. cbn [sq_c sq_s]. exact E.
  - unfold init_simq, evq_empty. cbn [sq_c sq_s q_base q_blocking q_bypass q_internal].
    do 6 (split; [reflexivity|]). split; intros e [].
Qed.

Lemma init_routed : forall sq, init_simq sq -> routed sq.
Proof.
  intros sq (H1 & H2 & H3 & H4 & H5 & H6 & Hc & Hs). unfold routed, evq_routed.
  rewrite H1, H2, H3, H4, H5, H6.
  split; (split; [|split; [|split]]); try (intros e []).
  - intros e He. apply Hc. exact He.
  - intros e He. apply Hs. exact He.
Qed.

Lemma init_inv : forall d sq, init_simq sq -> inv d (share_of sq) [] (all_events sq).
Proof.
  intros d sq (H1 & H2 & H3 & H4 & H5 & H6 & Hc & Hs).
  assert (HQ : all_events sq = q_base (sq_c sq) ++ q_base (sq_s sq)).
  { unfold all_events. rewrite H1, H2, H3, H4, H5, H6. cbn [app]. rewrite app_nil_r. reflexivity. }
  assert (Hnone : forall p, (forall e, se_ev e = TENormalSent -> p e = false) -> cnt p (all_events sq) = 0%nat).
  { intros p Hp. rewrite HQ, cnt_app.
    rewrite !cnt_none; [reflexivity| |]; intros e He; apply Hp; [apply Hs|apply Hc]; exact He. }
  constructor.
  - intros X k T. rewrite Hnone; [rewrite !cnt_nil; lia|].
    intros e He. unfold P_tr, is_tr. rewrite He. reflexivity.
  - intros X. rewrite HQ, cnt_app, cnt_nil. unfold share_of. destruct X.
    + rewrite cnt_all, cnt_none; [lia| |].
      * intros e He. destruct (Hs e He) as [E C]. unfold is_ns. rewrite E, C. reflexivity.
      * intros e He. destruct (Hc e He) as [E C]. unfold is_ns. rewrite E, C. reflexivity.
    + rewrite cnt_none, cnt_all; [lia| |].
      * intros e He. destruct (Hs e He) as [E C]. unfold is_ns. rewrite E, C. reflexivity.
      * intros e He. destruct (Hc e He) as [E C]. unfold is_ns. rewrite E, C. reflexivity.
  - intros X. rewrite Hnone; [rewrite !cnt_nil; lia|].
    intros e He. unfold is_ts. rewrite He. reflexivity.
  - intros X. rewrite Hnone; [rewrite !cnt_nil; lia|].
    intros e He. unfold is_tr. rewrite He. reflexivity.
  - intros X. rewrite Hnone; [rewrite !cnt_nil; lia|].
    intros e He. unfold is_nr. rewrite He. reflexivity.
Qed.

(** ** from the loop to [sim_advanced] *)
Lemma sim_loop_inv : forall fuel cc sc tp args st nowt it out,
  init_simq (m_sq st) -> full_args args ->
  sim_loop fuel cc sc tp args st nowt [] it = Ok out ->
  exists why qf,
    sim_loop_g fuel cc sc tp args st nowt [] it = Ok (out, why, qf) /\
    inv (n_delay (m_net st)) (share_of (m_sq st)) out (all_events qf) /\ routed qf /\
    (why = StopNormal -> sq_no_normal qf = true).
Proof.
  intros fuel cc sc tp args st nowt it out Hinit Hfull H.
  rewrite <- sim_loop_r_agrees, <- sim_loop_g_agrees in H.
  destruct (sim_loop_g fuel cc sc tp args st nowt [] it) as [[[o why] qf]| |] eqn:Eg;
    cbn [omap fst] in H; try discriminate.
  injection H as <-. exists why, qf. split; [reflexivity|].
  eapply sim_loop_g_inv; eauto.
  - apply init_inv. exact Hinit.
  - apply init_routed. exact Hinit.
Qed.

Lemma sim_advanced_inv : forall fuel cc sc tp sq delay pps args out,
  init_simq sq -> full_args args ->
  sim_advanced fuel cc sc tp sq delay pps args = Ok out ->
  exists Q, inv delay (share_of sq) out Q.
Proof.
  intros fuel cc sc tp sq delay pps args out Hinit Hfull H. unfold sim_advanced in H.
  destruct (sq_first_time sq) as [t0|]; [|discriminate].
  mbind H as cfw E1. mbind H as sfw E2. mbind H as net E3. mbind H as tr E4. injection H as <-.
  unfold netb_new in E3. injection E3 as <-.
  apply sim_loop_inv in E4; [|exact Hinit|exact Hfull].
  destruct E4 as (why & qf & _ & Hinv & _). cbn [m_net m_sq n_delay] in Hinv.
  exists (all_events qf). eapply inv_perm; [exact Hinv|].
  apply Permutation_sym. apply sort_time_perm.
Qed.

(** * A. causality and conservation of tunnel packets *)
Theorem tunnel_causality : forall fuel cc sc tp sq delay pps args out,
  init_simq sq -> full_args args ->
  sim_advanced fuel cc sc tp sq delay pps args = Ok out ->
  forall X k T,
    (cnt (fun e => is_tr X k e && upto T e) out <= cnt (fun e => is_ts (negb X) k e && sent_by delay T e) out)%nat.
Proof.
  intros fuel cc sc tp sq delay pps args out Hinit Hfull H X k T.
  destruct (sim_advanced_inv _ _ _ _ _ _ _ _ _ Hinit Hfull H) as (Q & Hinv).
  pose proof (i_caus _ _ _ _ Hinv X k T) as Hc. unfold P_tr, P_ts in Hc. lia.
Qed.

(** * B. normal packets are never created or duplicated *)
Theorem normal_conservation : forall fuel cc sc tp sq delay pps args out,
  init_simq sq -> full_args args ->
  sim_advanced fuel cc sc tp sq delay pps args = Ok out ->
  forall X,
    (cnt (is_ns X) out <= length (q_base (if X then sq_c sq else sq_s sq)))%nat /\
    (cnt (is_ts X false) out <= cnt (is_ns X) out)%nat /\
    (cnt (is_tr (negb X) false) out <= cnt (is_ts X false) out)%nat /\
    (cnt (is_nr (negb X)) out <= cnt (is_tr (negb X) false) out)%nat.
Proof.
  intros fuel cc sc tp sq delay pps args out Hinit Hfull H X.
  destruct (sim_advanced_inv _ _ _ _ _ _ _ _ _ Hinit Hfull H) as (Q & Hinv).
  pose proof (i_ns _ _ _ _ Hinv X) as H1. unfold share_of in H1.
  pose proof (i_ts _ _ _ _ Hinv X) as H2.
  pose proof (i_tr _ _ _ _ Hinv (negb X)) as H3. rewrite negb_involutive in H3.
  pose proof (i_nr _ _ _ _ Hinv (negb X)) as H4.
  split; [lia|]. split; [lia|]. split; lia.
Qed.

(** * C. a run that stops because all normal packets were processed delivered every one of them *)
Lemma forallb_all_ts_nil : forall l,
  (forall e, In e l -> se_ev e = TETunnelSent) ->
  forallb (fun e => negb (is_tunnel_sent (se_ev e)) && negb (se_pad e)) l = true -> l = [].
Proof.
  intros [|x l] Hall Hf; [reflexivity|]. cbn [forallb] in Hf.
  rewrite (Hall x (or_introl eq_refl)) in Hf. cbn in Hf. discriminate.
Qed.

Lemma evq_no_normal_events : forall q e,
  evq_routed q -> evq_no_normal q = true -> In e (evq_events q) ->
  se_ev e <> TENormalSent /\ se_ev e <> TETunnelSent /\ se_ev e <> TETunnelRecv.
Proof.
  intros q e (Hb & Hk & Hy & Hi) Hn He. unfold evq_no_normal in Hn.
  apply andb_prop in Hn. destruct Hn as [Hn H4].
  apply andb_prop in Hn. destruct Hn as [Hn H3].
  apply andb_prop in Hn. destruct Hn as [H1 H2].
  apply forallb_all_ts_nil in H2; [|exact Hk].
  apply forallb_all_ts_nil in H3; [|exact Hy].
  destruct (q_base q) eqn:Eb; [|discriminate].
  unfold evq_events in He. rewrite Eb, H2, H3 in He. cbn [app] in He.
  destruct (Hi e He) as [A B]. split; [exact B|]. split; [exact A|].
  rewrite forallb_forall in H4. specialize (H4 e He).
  apply andb_prop in H4. destruct H4 as [H4 _].
  intros C. rewrite C in H4. discriminate.
Qed.

Lemma sq_no_normal_events : forall sq e,
  routed sq -> sq_no_normal sq = true -> In e (all_events sq) ->
  se_ev e <> TENormalSent /\ se_ev e <> TETunnelSent /\ se_ev e <> TETunnelRecv.
Proof.
  intros sq e [Rc Rs] Hn He. unfold sq_no_normal in Hn. apply andb_prop in Hn. destruct Hn as [Hc Hs].
  rewrite all_events_split in He. apply in_app_or in He. destruct He as [He|He].
  - exact (evq_no_normal_events (sq_c sq) e Rc Hc He).
  - exact (evq_no_normal_events (sq_s sq) e Rs Hs He).
Qed.

Lemma sq_no_normal_counts : forall sq,
  routed sq -> sq_no_normal sq = true ->
  forall X k, cnt (is_ns X) (all_events sq) = 0%nat /\ cnt (is_ts X k) (all_events sq) = 0%nat /\
              cnt (is_tr X k) (all_events sq) = 0%nat.
Proof.
  intros sq R Hn X k.
  split; [|split]; apply cnt_none; intros e He;
    destruct (sq_no_normal_events sq e R Hn He) as (A & B & C);
    unfold is_ns, is_ts, is_tr; destruct (se_ev e); try reflexivity; congruence.
Qed.

Lemma sq_len_zero_no_normal : forall sq, sq_len sq = 0%nat -> sq_no_normal sq = true.
Proof.
  intros sq H. unfold sq_len, evq_len in H. unfold sq_no_normal, evq_no_normal.
  destruct (q_base (sq_c sq)), (q_blocking (sq_c sq)), (q_bypass (sq_c sq)), (q_internal (sq_c sq)),
           (q_base (sq_s sq)), (q_blocking (sq_s sq)), (q_bypass (sq_s sq)), (q_internal (sq_s sq));
    cbn [length] in H; try lia; reflexivity.
Qed.

(** the general form: whatever the reason for stopping, if the final queue holds no normal
    packet ([sq_no_normal], in particular if it is empty) every normal packet was sent into the
    tunnel and received at the other end *)
Theorem normal_complete_queue : forall fuel cc sc tp args st nowt it out why qf,
  init_simq (m_sq st) -> full_args args ->
  sim_loop_g fuel cc sc tp args st nowt [] it = Ok (out, why, qf) ->
  sq_no_normal qf = true ->
  forall X,
    cnt (is_ns X) out = length (q_base (if X then sq_c (m_sq st) else sq_s (m_sq st))) /\
    cnt (is_ts X false) out = length (q_base (if X then sq_c (m_sq st) else sq_s (m_sq st))) /\
    cnt (is_tr (negb X) false) out = length (q_base (if X then sq_c (m_sq st) else sq_s (m_sq st))).
Proof.
  intros fuel cc sc tp args st nowt it out why qf Hinit Hfull H Hnn X.
  eapply sim_loop_g_inv in H; [|exact Hfull|apply init_inv; exact Hinit|apply init_routed; exact Hinit].
  destruct H as (Hinv & R & _).
  pose proof (i_ns _ _ _ _ Hinv X) as H1. unfold share_of in H1.
  pose proof (i_ts _ _ _ _ Hinv X) as H2.
  pose proof (i_tr _ _ _ _ Hinv (negb X)) as H3. rewrite negb_involutive in H3.
  destruct (sq_no_normal_counts qf R Hnn X false) as (Z1 & Z2 & _).
  destruct (sq_no_normal_counts qf R Hnn (negb X) false) as (_ & _ & Z3).
  split; [lia|]. split; lia.
Qed.

Theorem normal_complete : forall fuel cc sc tp args st nowt it out why,
  init_simq (m_sq st) -> full_args args ->
  sim_loop_r fuel cc sc tp args st nowt [] it = Ok (out, why) ->
  why = StopNormal ->
  forall X,
    cnt (is_ts X false) out = length (q_base (if X then sq_c (m_sq st) else sq_s (m_sq st))) /\
    cnt (is_tr (negb X) false) out = length (q_base (if X then sq_c (m_sq st) else sq_s (m_sq st))).
Proof.
  intros fuel cc sc tp args st nowt it out why Hinit Hfull H Hw X.
  rewrite <- sim_loop_g_agrees in H.
  destruct (sim_loop_g fuel cc sc tp args st nowt [] it) as [[[o w] qf]| |] eqn:Eg;
    cbn [omap fst] in H; try discriminate.
  injection H as <- <-.
  pose proof Eg as Eg'.
  eapply sim_loop_g_inv in Eg'; [|exact Hfull|apply init_inv; exact Hinit|apply init_routed; exact Hinit].
  destruct Eg' as (_ & _ & Hnn). specialize (Hnn Hw).
  destruct (normal_complete_queue _ _ _ _ _ _ _ _ _ _ _ Hinit Hfull Eg Hnn X) as (_ & A & B).
  split; assumption.
Qed.

(** the instance for [sim_advanced]: the run from its initial state *)
Corollary normal_complete_advanced : forall fuel cc sc tp sq delay pps args t0 cfw sfw net out why,
  init_simq sq -> full_args args ->
  sq_first_time sq = Some t0 ->
  fnew_at cc tp t0 0 = Ok cfw -> fnew_at sc tp t0 (Framework.pos cfw) = Ok sfw ->
  netb_new delay pps (sq_pps sq) = Ok net ->
  sim_loop_r fuel cc sc tp args
    (mksim sq (new_side cc cfw) (new_side sc sfw) net (Framework.pos sfw)) t0 [] 0 = Ok (out, why) ->
  why = StopNormal ->
  sim_advanced fuel cc sc tp sq delay pps args = Ok (sort_time out) /\
  forall X,
    cnt (is_ts X false) (sort_time out) = length (q_base (if X then sq_c sq else sq_s sq)) /\
    cnt (is_tr (negb X) false) (sort_time out) = length (q_base (if X then sq_c sq else sq_s sq)).
Proof.
  intros fuel cc sc tp sq delay pps args t0 cfw sfw net out why Hinit Hfull E0 E1 E2 E3 H Hw.
  split.
  - unfold sim_advanced. rewrite E0, E1. cbn [bind]. rewrite E2. cbn [bind]. rewrite E3. cbn [bind].
    rewrite <- sim_loop_r_agrees, H. reflexivity.
  - intros X. rewrite !(cnt_perm _ _ _ (sort_time_perm out)).
    exact (normal_complete fuel cc sc tp args
             (mksim sq (new_side cc cfw) (new_side sc sfw) net (Framework.pos sfw)) t0 0 out why
             Hinit Hfull H Hw X).
Qed.

(** ** StopEmpty does NOT imply completeness (counterexample)

    [pick_next] answers [None] when every candidate duration equals the sentinel [DMAX]
    (Duration::MAX). A queued event that lies at least [DMAX] after the current time is therefore
    invisible: the loop stops with [StopEmpty] although the queue is not empty. Witness: two client
    packets, the second one more than Duration::MAX after the first, no machines. The run stops
    with StopEmpty after sending ONE of the TWO normal packets. (Such instants cannot be built
    with std::time::Instant in practice, but the model's [Z] times allow them; excluding the case
    needs a bound on all queued times, which no invariant of this file provides.) *)
Definition cx_cfg : cfg := mkcfg [] 0 0 stdclock.
Definition cx_tape : tape := fun _ => 0.
Definition cx_sq : simq := parse_trace [(0%Z, true); ((Z.of_N DMAX + 10)%Z, true)] 0.
Definition cx_args : simargs := mksimargs 0 0 false false false.

Example stop_empty_incomplete :
  exists cfw sfw net out,
    fnew_at cx_cfg cx_tape 0 0 = Ok cfw /\
    fnew_at cx_cfg cx_tape 0 (Framework.pos cfw) = Ok sfw /\
    netb_new 0 None (sq_pps cx_sq) = Ok net /\
    sq_first_time cx_sq = Some 0%Z /\
    sim_loop_r 20 cx_cfg cx_cfg cx_tape cx_args
      (mksim cx_sq (new_side cx_cfg cfw) (new_side cx_cfg sfw) net (Framework.pos sfw)) 0 [] 0
      = Ok (out, StopEmpty) /\
    cnt (is_ts true false) out = 1%nat /\
    length (q_base (sq_c cx_sq)) = 2%nat.
Proof.
  do 4 eexists.
  split; [vm_compute; reflexivity|]. split; [vm_compute; reflexivity|].
  split; [vm_compute; reflexivity|]. split; [vm_compute; reflexivity|].
  split; [vm_compute; reflexivity|]. split; vm_compute; reflexivity.
Qed.

(** the strongest true variant for StopEmpty: it needs the final queue (returned by the ghost
    loop [sim_loop_g]) to be empty, or at least free of normal packets *)
Corollary normal_complete_empty_partial : forall fuel cc sc tp args st nowt it out qf,
  init_simq (m_sq st) -> full_args args ->
  sim_loop_g fuel cc sc tp args st nowt [] it = Ok (out, StopEmpty, qf) ->
  sq_len qf = 0%nat ->
  forall X,
    cnt (is_ts X false) out = length (q_base (if X then sq_c (m_sq st) else sq_s (m_sq st))) /\
    cnt (is_tr (negb X) false) out = length (q_base (if X then sq_c (m_sq st) else sq_s (m_sq st))).
Proof.
  intros fuel cc sc tp args st nowt it out qf Hinit Hfull H Hlen X.
  destruct (normal_complete_queue _ _ _ _ _ _ _ _ _ _ _ Hinit Hfull H (sq_len_zero_no_normal qf Hlen) X)
    as (_ & A & B).
  split; assumption.
Qed.

(** in general the books balance with what is still queued *)
Theorem normal_balance : forall fuel cc sc tp args st nowt it out why qf,
  init_simq (m_sq st) -> full_args args ->
  sim_loop_g fuel cc sc tp args st nowt [] it = Ok (out, why, qf) ->
  forall X,
    (cnt (is_ns X) out + cnt (is_ns X) (all_events qf)
       = length (q_base (if X then sq_c (m_sq st) else sq_s (m_sq st))))%nat /\
    (cnt (is_ts X false) out + cnt (is_ts X false) (all_events qf) = cnt (is_ns X) out)%nat /\
    (cnt (is_tr (negb X) false) out + cnt (is_tr (negb X) false) (all_events qf)
       = cnt (is_ts X false) out)%nat /\
    (cnt (is_nr (negb X)) out + cnt (is_nr (negb X)) (all_events qf)
       = cnt (is_tr (negb X) false) out)%nat.
Proof.
  intros fuel cc sc tp args st nowt it out why qf Hinit Hfull H X.
  eapply sim_loop_g_inv in H; [|exact Hfull|apply init_inv; exact Hinit|apply init_routed; exact Hinit].
  destruct H as (Hinv & _ & _).
  pose proof (i_ns _ _ _ _ Hinv X) as H1. unfold share_of in H1.
  pose proof (i_ts _ _ _ _ Hinv X) as H2.
  pose proof (i_tr _ _ _ _ Hinv (negb X)) as H3. rewrite negb_involutive in H3.
  pose proof (i_nr _ _ _ _ Hinv (negb X)) as H4.
  split; [exact H1|]. split; [exact H2|]. split; [exact H3|exact H4].
Qed.

