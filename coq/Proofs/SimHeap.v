(** Facts about the binary-heap model of [Model/Sim.v] (Section Heap):
    multiset preservation of push/pop (no assumption on [le]) and the
    max-heap invariant (for a total, transitive [le]).  The fuel handed out
    by [heap_push]/[heap_pop] is shown sufficient as part of the proofs. *)
From Coq Require Import List Arith Lia Permutation.
From MB Require Import Base.Prelude Model.Sim.
Import ListNotations.
Local Open Scope nat_scope.

(** ** generic list / arithmetic helpers *)

Lemma sh_upd_length : forall {A} (l : list A) i x, length (upd l i x) = length l.
Proof.
  intros A l. induction l as [|a l IH]; intros [|i] x; cbn [upd length]; auto.
Qed.

Lemma sh_nth_upd_eq : forall {A} (l : list A) i x,
  i < length l -> nth_error (upd l i x) i = Some x.
Proof.
  intros A l. induction l as [|a l IH]; intros [|i] x Hi; cbn [upd length nth_error] in *;
    try lia; auto.
  apply IH; lia.
Qed.

Lemma sh_nth_upd_neq : forall {A} (l : list A) i j x,
  i <> j -> nth_error (upd l i x) j = nth_error l j.
Proof.
  intros A l. induction l as [|a l IH]; intros [|i] [|j] x Hij; cbn [upd nth_error];
    try reflexivity; try congruence.
  apply IH; congruence.
Qed.

Lemma sh_nth_lt : forall {A} (l : list A) i x, nth_error l i = Some x -> i < length l.
Proof. intros A l i x H. apply nth_error_Some. congruence. Qed.

Lemma sh_nth_some : forall {A} (l : list A) i, i < length l -> exists x, nth_error l i = Some x.
Proof.
  intros A l i Hi. destruct (nth_error l i) as [x|] eqn:E; [eauto|].
  apply nth_error_None in E. lia.
Qed.

Lemma sh_nth_app_some : forall {A} (l1 l2 : list A) i x,
  nth_error l1 i = Some x -> nth_error (l1 ++ l2) i = Some x.
Proof.
  intros A l1 l2 i x H. rewrite nth_error_app1; [exact H|]. eapply sh_nth_lt; exact H.
Qed.

Lemma sh_nth_cons_pos : forall {A} (a b : A) t i,
  0 < i -> nth_error (a :: t) i = nth_error (b :: t) i.
Proof. intros A a b t [|i] Hi; [lia|reflexivity]. Qed.

(** replacing position [i] (holding [y]) by [x] swaps [y] for [x] in the multiset *)
Lemma sh_upd_perm : forall {A} (l : list A) i x y,
  nth_error l i = Some y -> Permutation (y :: upd l i x) (x :: l).
Proof.
  intros A l. induction l as [|a l IH]; intros [|i] x y H; cbn [nth_error upd] in *;
    try discriminate.
  - injection H as ->. apply perm_swap.
  - eapply perm_trans; [apply perm_swap|].
    eapply perm_trans; [apply perm_skip; apply IH; exact H|].
    apply perm_swap.
Qed.

Lemma div2_spec : forall n, 2 * (n / 2) <= n < 2 * (n / 2) + 2.
Proof.
  intros n.
  pose proof (Nat.div_mod n 2 ltac:(lia)) as E.
  pose proof (Nat.mod_upper_bound n 2 ltac:(lia)) as B. lia.
Qed.

(** [lia] extended with the defining inequalities of every [_ / 2] in sight *)
Ltac pose_div :=
  repeat match goal with
  | |- context [?n / 2] =>
      lazymatch goal with
      | _ : 2 * (n / 2) <= n < 2 * (n / 2) + 2 |- _ => fail
      | _ => pose proof (div2_spec n)
      end
  | _ : context [?n / 2] |- _ =>
      lazymatch goal with
      | _ : 2 * (n / 2) <= n < 2 * (n / 2) + 2 |- _ => fail
      | _ => pose proof (div2_spec n)
      end
  end.
Ltac div_lia := pose_div; lia.

Section HeapFacts.
  Variable A : Type.
  Variable le : A -> A -> bool.

  (** *** unfolding / inversion lemmas for the model functions *)

  Lemma sift_up_S : forall f h start pos elt,
    sift_up A le (S f) h start pos elt =
      if Nat.leb pos start then upd h pos elt
      else match nth_error h ((pos - 1) / 2) with
           | Some p => if le elt p then upd h pos elt
                       else sift_up A le f (upd h pos p) start ((pos - 1) / 2) elt
           | None => upd h pos elt
           end.
  Proof. reflexivity. Qed.

  Lemma sift_down_S : forall f h pos elt,
    sift_down A le (S f) h pos elt =
      if Nat.leb (2 * pos + 1 + 2) (length h) then
        match nth_error h (2 * pos + 1), nth_error h (S (2 * pos + 1)) with
        | Some a, Some b =>
            match nth_error h (if le a b then S (2 * pos + 1) else 2 * pos + 1) with
            | Some x => sift_down A le f (upd h pos x)
                          (if le a b then S (2 * pos + 1) else 2 * pos + 1) elt
            | None => (h, pos)
            end
        | _, _ => (h, pos)
        end
      else if Nat.eqb (S (2 * pos + 1)) (length h) then
        match nth_error h (2 * pos + 1) with
        | Some x => (upd h pos x, 2 * pos + 1)
        | None => (h, pos)
        end
      else (h, pos).
  Proof. reflexivity. Qed.

  (** the three ways one step of [sift_down] can go *)
  Lemma sift_down_cases : forall f h pos elt,
    (exists a b, nth_error h (2 * pos + 1) = Some a /\ nth_error h (2 * pos + 2) = Some b /\
       ((le a b = true /\
         sift_down A le (S f) h pos elt = sift_down A le f (upd h pos b) (2 * pos + 2) elt) \/
        (le a b = false /\
         sift_down A le (S f) h pos elt = sift_down A le f (upd h pos a) (2 * pos + 1) elt)))
    \/ (length h = 2 * pos + 2 /\
        exists a, nth_error h (2 * pos + 1) = Some a /\
                  sift_down A le (S f) h pos elt = (upd h pos a, 2 * pos + 1))
    \/ (length h <= 2 * pos + 1 /\ sift_down A le (S f) h pos elt = (h, pos)).
  Proof.
    intros f h pos elt. rewrite sift_down_S.
    replace (S (2 * pos + 1)) with (2 * pos + 2) by lia.
    destruct (Nat.leb (2 * pos + 1 + 2) (length h)) eqn:Hleb.
    - apply Nat.leb_le in Hleb. left.
      destruct (sh_nth_some h (2 * pos + 1) ltac:(lia)) as [a Ha].
      destruct (sh_nth_some h (2 * pos + 2) ltac:(lia)) as [b Hb].
      exists a, b. split; [exact Ha|]. split; [exact Hb|].
      rewrite Ha, Hb.
      destruct (le a b) eqn:Hab.
      + left. rewrite Hb. split; reflexivity.
      + right. rewrite Ha. split; reflexivity.
    - apply Nat.leb_gt in Hleb. right.
      destruct (Nat.eqb (2 * pos + 2) (length h)) eqn:Heqb.
      + apply Nat.eqb_eq in Heqb. left. split; [lia|].
        destruct (sh_nth_some h (2 * pos + 1) ltac:(lia)) as [a Ha].
        exists a. rewrite Ha. split; reflexivity.
      + apply Nat.eqb_neq in Heqb. right. split; [lia|reflexivity].
  Qed.

  (** the three shapes of [heap_pop] *)
  Lemma heap_pop_cases : forall h,
    (h = [] /\ heap_pop le h = None)
    \/ (exists l, h = [l] /\ heap_pop le h = Some (l, []))
    \/ (exists top t l, h = top :: t ++ [l] /\
          heap_pop le h =
            Some (top,
                  sift_up A le (S (S (length t)))
                    (fst (sift_down A le (S (length t)) (l :: t) 0 l)) 0
                    (snd (sift_down A le (S (length t)) (l :: t) 0 l)) l)).
  Proof.
    intros h. destruct h as [|x h0] using rev_ind.
    - left. split; reflexivity.
    - clear IHh0. right. unfold heap_pop.
      rewrite rev_app_distr. cbn [rev app]. rewrite removelast_last.
      destruct h0 as [|top t].
      + left. exists x. split; reflexivity.
      + right. exists top, t, x. split; [reflexivity|].
        cbn [upd length].
        destruct (sift_down A le (S (length t)) (x :: t) 0 x) as [h2 hole].
        reflexivity.
  Qed.

  (** *** multiset facts: no hypothesis on [le] *)

  Lemma sift_up_length : forall f h start pos elt,
    length (sift_up A le f h start pos elt) = length h.
  Proof.
    induction f as [|f IH]; intros h start pos elt.
    - cbn [sift_up]. apply sh_upd_length.
    - rewrite sift_up_S.
      destruct (Nat.leb pos start); [apply sh_upd_length|].
      destruct (nth_error h ((pos - 1) / 2)) as [p|]; [|apply sh_upd_length].
      destruct (le elt p); [apply sh_upd_length|].
      rewrite IH. apply sh_upd_length.
  Qed.

  (** whatever sits in the hole [pos] is traded for [elt] *)
  Lemma sift_up_perm : forall f h start pos elt y,
    nth_error h pos = Some y ->
    Permutation (y :: sift_up A le f h start pos elt) (elt :: h).
  Proof.
    induction f as [|f IH]; intros h start pos elt y Hy.
    - cbn [sift_up]. apply sh_upd_perm; exact Hy.
    - rewrite sift_up_S.
      destruct (Nat.leb pos start) eqn:Hleb; [apply sh_upd_perm; exact Hy|].
      apply Nat.leb_gt in Hleb.
      destruct (nth_error h ((pos - 1) / 2)) as [p|] eqn:Hp; [|apply sh_upd_perm; exact Hy].
      destruct (le elt p) eqn:Hlep; [apply sh_upd_perm; exact Hy|].
      assert (Hpar : (pos - 1) / 2 < pos) by div_lia.
      assert (Hp' : nth_error (upd h pos p) ((pos - 1) / 2) = Some p)
        by (rewrite sh_nth_upd_neq by lia; exact Hp).
      pose proof (IH (upd h pos p) start ((pos - 1) / 2) elt p Hp') as H1.
      pose proof (sh_upd_perm h pos p y Hy) as H2.
      apply Permutation_cons_inv with (a := p).
      eapply perm_trans; [apply perm_swap|].
      eapply perm_trans; [apply perm_skip; exact H1|].
      eapply perm_trans; [apply perm_swap|].
      eapply perm_trans; [apply perm_skip; exact H2|].
      apply perm_swap.
  Qed.

  Lemma sift_down_length : forall f h pos elt h2 hole,
    sift_down A le f h pos elt = (h2, hole) -> length h2 = length h.
  Proof.
    induction f as [|f IH]; intros h pos elt h2 hole Hsd.
    - cbn [sift_down] in Hsd. injection Hsd as <- <-. reflexivity.
    - destruct (sift_down_cases f h pos elt)
        as [(a & b & Ha & Hb & [[Hab E]|[Hab E]])|[(Hlen & a & Ha & E)|(Hlen & E)]];
        rewrite E in Hsd.
      + apply IH in Hsd. rewrite Hsd. apply sh_upd_length.
      + apply IH in Hsd. rewrite Hsd. apply sh_upd_length.
      + injection Hsd as <- <-. apply sh_upd_length.
      + injection Hsd as <- <-. reflexivity.
  Qed.

  Lemma sift_down_perm_step : forall (h h2 : list A) pos c x y y',
    c <> pos -> nth_error h pos = Some y ->
    Permutation (x :: h2) (y' :: upd h pos x) ->
    Permutation (y :: h2) (y' :: h).
  Proof.
    intros h h2 pos c x y y' Hc Hy HP.
    pose proof (sh_upd_perm h pos x y Hy) as H2.
    apply Permutation_cons_inv with (a := x).
    eapply perm_trans; [apply perm_swap|].
    eapply perm_trans; [apply perm_skip; exact HP|].
    eapply perm_trans; [apply perm_swap|].
    eapply perm_trans; [apply perm_skip; exact H2|].
    apply perm_swap.
  Qed.

  (** the stale value [y] in the hole travels down to the final hole *)
  Lemma sift_down_perm : forall f h pos elt h2 hole y,
    sift_down A le f h pos elt = (h2, hole) -> nth_error h pos = Some y ->
    exists y', nth_error h2 hole = Some y' /\ Permutation (y :: h2) (y' :: h).
  Proof.
    induction f as [|f IH]; intros h pos elt h2 hole y Hsd Hy.
    - cbn [sift_down] in Hsd. injection Hsd as <- <-.
      exists y. split; [exact Hy|apply Permutation_refl].
    - pose proof (sh_nth_lt _ _ _ Hy) as Hpos.
      destruct (sift_down_cases f h pos elt)
        as [(a & b & Ha & Hb & [[Hab E]|[Hab E]])|[(Hlen & a & Ha & E)|(Hlen & E)]];
        rewrite E in Hsd.
      + assert (Hb' : nth_error (upd h pos b) (2 * pos + 2) = Some b)
          by (rewrite sh_nth_upd_neq by lia; exact Hb).
        destruct (IH _ _ _ _ _ _ Hsd Hb') as (y' & Hy' & HP).
        exists y'. split; [exact Hy'|].
        apply (sift_down_perm_step h h2 pos (2 * pos + 2) b y y'); [lia|exact Hy|exact HP].
      + assert (Ha' : nth_error (upd h pos a) (2 * pos + 1) = Some a)
          by (rewrite sh_nth_upd_neq by lia; exact Ha).
        destruct (IH _ _ _ _ _ _ Hsd Ha') as (y' & Hy' & HP).
        exists y'. split; [exact Hy'|].
        apply (sift_down_perm_step h h2 pos (2 * pos + 1) a y y'); [lia|exact Hy|exact HP].
      + injection Hsd as <- <-. exists a. split.
        * rewrite sh_nth_upd_neq by lia. exact Ha.
        * apply sh_upd_perm. exact Hy.
      + injection Hsd as <- <-. exists y. split; [exact Hy|apply Permutation_refl].
  Qed.

  Lemma heap_push_perm : forall h x, Permutation (heap_push le h x) (x :: h).
  Proof.
    intros h x. unfold heap_push.
    assert (Hx : nth_error (h ++ [x]) (length h) = Some x).
    { rewrite nth_error_app2 by lia. rewrite Nat.sub_diag. reflexivity. }
    pose proof (sift_up_perm (S (length h)) (h ++ [x]) 0 (length h) x x Hx) as HP.
    apply Permutation_cons_inv in HP.
    eapply perm_trans; [exact HP|].
    apply Permutation_sym. apply Permutation_cons_append.
  Qed.

  Lemma heap_push_length : forall h x, length (heap_push le h x) = S (length h).
  Proof.
    intros h x. unfold heap_push. rewrite sift_up_length, app_length.
    cbn [length]. lia.
  Qed.

  Lemma heap_pop_perm : forall h x h',
    heap_pop le h = Some (x, h') -> Permutation h (x :: h').
  Proof.
    intros h x h' Hpop.
    destruct (heap_pop_cases h) as [(Hh & E)|[(l & Hh & E)|(top & t & l & Hh & E)]];
      rewrite E in Hpop.
    - discriminate.
    - injection Hpop as <- <-. subst h. apply Permutation_refl.
    - destruct (sift_down A le (S (length t)) (l :: t) 0 l) as [h2 hole] eqn:Hsd.
      cbn [fst snd] in Hpop.
      remember (sift_up A le (S (S (length t))) h2 0 hole l) as r eqn:Hr.
      injection Hpop as <- <-. subst h r.
      destruct (sift_down_perm _ _ _ _ _ _ l Hsd eq_refl) as (y' & Hy' & HP).
      pose proof (sift_up_perm (S (S (length t))) h2 0 hole l y' Hy') as HU.
      apply perm_skip.
      eapply perm_trans; [apply Permutation_sym; apply Permutation_cons_append|].
      apply Permutation_sym.
      apply Permutation_cons_inv with (a := y').
      eapply perm_trans; [exact HU|].
      eapply perm_trans; [exact HP|].
      apply Permutation_refl.
  Qed.

  Lemma heap_pop_none : forall h, heap_pop le h = None <-> h = [].
  Proof.
    intros h.
    destruct (heap_pop_cases h) as [(Hh & E)|[(l & Hh & E)|(top & t & l & Hh & E)]];
      rewrite E; subst h.
    - split; reflexivity.
    - split; discriminate.
    - split; discriminate.
  Qed.

  Lemma heap_pop_peek : forall h x h',
    heap_pop le h = Some (x, h') -> heap_peek h = Some x.
  Proof.
    intros h x h' Hpop.
    destruct (heap_pop_cases h) as [(Hh & E)|[(l & Hh & E)|(top & t & l & Hh & E)]];
      rewrite E in Hpop; subst h.
    - discriminate.
    - injection Hpop as <- <-. reflexivity.
    - injection Hpop as <- _. reflexivity.
  Qed.

  (** *** order facts *)
  Hypothesis le_total : forall a b, le a b = true \/ le b a = true.
  Hypothesis le_trans : forall a b c, le a b = true -> le b c = true -> le a c = true.

  Definition is_heap (h : list A) : Prop :=
    forall i c p, (0 < i)%nat -> nth_error h i = Some c ->
                  nth_error h ((i - 1) / 2) = Some p -> le c p = true.

  (** the child/parent relation at index [i] *)
  Definition rel_at (h : list A) (i : nat) : Prop :=
    forall c p, nth_error h i = Some c -> nth_error h ((i - 1) / 2) = Some p -> le c p = true.

  (** [h] is a heap except for the (stale) entry at the hole [pos]; [elt] may
      be put in the hole as far as the subtree below is concerned, and the
      children of the hole are fine below the hole's parent *)
  Definition hole_up (h : list A) (pos : nat) (elt : A) : Prop :=
    pos < length h /\
    (forall i, 0 < i -> i <> pos -> (i - 1) / 2 <> pos -> rel_at h i) /\
    (forall i c, 0 < i -> (i - 1) / 2 = pos -> nth_error h i = Some c -> le c elt = true) /\
    (forall i c gp, 0 < i -> 0 < pos -> (i - 1) / 2 = pos ->
        nth_error h i = Some c -> nth_error h ((pos - 1) / 2) = Some gp -> le c gp = true).

  (** invariant of [sift_down]: as above, with no constraint relating [elt] *)
  Definition hole_down (h : list A) (pos : nat) : Prop :=
    pos < length h /\
    (forall i, 0 < i -> i <> pos -> (i - 1) / 2 <> pos -> rel_at h i) /\
    (forall i c gp, 0 < i -> 0 < pos -> (i - 1) / 2 = pos ->
        nth_error h i = Some c -> nth_error h ((pos - 1) / 2) = Some gp -> le c gp = true).

  (** result of [sift_down]: the hole is a leaf *)
  Definition leaf_hole (h : list A) (hole : nat) : Prop :=
    hole < length h /\ length h <= 2 * hole + 1 /\
    (forall i, 0 < i -> i <> hole -> rel_at h i).

  Lemma le_refl : forall a, le a a = true.
  Proof. intros a. destruct (le_total a a) as [H|H]; exact H. Qed.

  Lemma is_heap_nil : is_heap [].
  Proof. intros i c p Hi Hc Hp. destruct i; discriminate. Qed.

  (** filling the hole when [elt] fits below the hole's parent *)
  Lemma hole_up_fill : forall h pos elt,
    hole_up h pos elt ->
    (pos = 0 \/ exists p, nth_error h ((pos - 1) / 2) = Some p /\ le elt p = true) ->
    is_heap (upd h pos elt).
  Proof.
    intros h pos elt (Hlt & H1 & H2 & H3) Hpar i c p Hi Hc Hp.
    destruct (Nat.eq_dec i pos) as [Heq|Hne].
    - subst i. rewrite sh_nth_upd_eq in Hc by exact Hlt. injection Hc as <-.
      destruct Hpar as [Hz|(p0 & Hp0 & Hle)]; [lia|].
      rewrite sh_nth_upd_neq in Hp by div_lia.
      rewrite Hp0 in Hp. injection Hp as <-. exact Hle.
    - rewrite sh_nth_upd_neq in Hc by lia.
      destruct (Nat.eq_dec ((i - 1) / 2) pos) as [Hpi|Hpi].
      + rewrite Hpi in Hp. rewrite sh_nth_upd_eq in Hp by exact Hlt. injection Hp as <-.
        apply (H2 i c Hi Hpi Hc).
      + rewrite sh_nth_upd_neq in Hp by lia.
        apply (H1 i Hi Hne Hpi c p Hc Hp).
  Qed.

  (** moving the hole one level up *)
  Lemma hole_up_step : forall h pos elt p,
    hole_up h pos elt -> 0 < pos ->
    nth_error h ((pos - 1) / 2) = Some p -> le p elt = true ->
    hole_up (upd h pos p) ((pos - 1) / 2) elt.
  Proof.
    intros h pos elt p (Hlt & H1 & H2 & H3) Hpos Hp Hle.
    assert (Hq : (pos - 1) / 2 < pos) by div_lia.
    split; [rewrite sh_upd_length; lia|]. split; [|split].
    - intros i Hi Hiq Hpiq c p' Hc Hp'.
      destruct (Nat.eq_dec i pos) as [Heq|Hne].
      { subst i. exfalso. apply Hpiq. reflexivity. }
      rewrite sh_nth_upd_neq in Hc by lia.
      destruct (Nat.eq_dec ((i - 1) / 2) pos) as [Hpi|Hpi].
      + rewrite Hpi in Hp'. rewrite sh_nth_upd_eq in Hp' by exact Hlt. injection Hp' as <-.
        apply (H3 i c p Hi Hpos Hpi Hc Hp).
      + rewrite sh_nth_upd_neq in Hp' by lia.
        apply (H1 i Hi Hne Hpi c p' Hc Hp').
    - intros i c Hi Hpi Hc.
      destruct (Nat.eq_dec i pos) as [Heq|Hne].
      + subst i. rewrite sh_nth_upd_eq in Hc by exact Hlt. injection Hc as <-. exact Hle.
      + rewrite sh_nth_upd_neq in Hc by lia.
        apply le_trans with p; [|exact Hle].
        apply (H1 i Hi Hne ltac:(lia) c p Hc). rewrite Hpi. exact Hp.
    - intros i c gp Hi Hq0 Hpi Hc Hgp.
      rewrite sh_nth_upd_neq in Hgp by div_lia.
      assert (Hpgp : le p gp = true).
      { apply (H1 ((pos - 1) / 2) Hq0 ltac:(lia) ltac:(div_lia) p gp Hp Hgp). }
      destruct (Nat.eq_dec i pos) as [Heq|Hne].
      + subst i. rewrite sh_nth_upd_eq in Hc by exact Hlt. injection Hc as <-. exact Hpgp.
      + rewrite sh_nth_upd_neq in Hc by lia.
        apply le_trans with p; [|exact Hpgp].
        apply (H1 i Hi Hne ltac:(lia) c p Hc). rewrite Hpi. exact Hp.
  Qed.

  (** [sift_up] from a hole restores the heap, given fuel at least [pos] *)
  Lemma sift_up_heap : forall f h pos elt,
    pos <= f -> hole_up h pos elt -> is_heap (sift_up A le f h 0 pos elt).
  Proof.
    induction f as [|f IH]; intros h pos elt Hf Hinv.
    - cbn [sift_up]. apply hole_up_fill; [exact Hinv|left; lia].
    - rewrite sift_up_S.
      destruct (Nat.leb pos 0) eqn:Hleb.
      { apply Nat.leb_le in Hleb. apply hole_up_fill; [exact Hinv|left; lia]. }
      apply Nat.leb_gt in Hleb.
      pose proof Hinv as (Hlt & _).
      assert (Hq : (pos - 1) / 2 < pos) by div_lia.
      destruct (sh_nth_some h ((pos - 1) / 2) ltac:(lia)) as [p Hp].
      rewrite Hp.
      destruct (le elt p) eqn:Hlep.
      + apply hole_up_fill; [exact Hinv|]. right. exists p. split; [exact Hp|exact Hlep].
      + apply IH; [lia|].
        apply hole_up_step; [exact Hinv|exact Hleb|exact Hp|].
        destruct (le_total elt p) as [Hc|Hc]; [congruence|exact Hc].
  Qed.

  Lemma heap_push_is_heap : forall h x, is_heap h -> is_heap (heap_push le h x).
  Proof.
    intros h x Hheap. unfold heap_push.
    apply sift_up_heap; [lia|].
    assert (Hlen : length (h ++ [x]) = length h + 1) by (rewrite app_length; reflexivity).
    split; [lia|]. split; [|split].
    - intros i Hi Hne Hpne c p Hc Hp.
      pose proof (sh_nth_lt _ _ _ Hc) as Hil.
      rewrite nth_error_app1 in Hc by lia.
      rewrite nth_error_app1 in Hp by div_lia.
      apply (Hheap i c p Hi Hc Hp).
    - intros i c Hi Hpi Hc.
      pose proof (sh_nth_lt _ _ _ Hc) as Hil. exfalso. div_lia.
    - intros i c gp Hi Hpos Hpi Hc Hgp.
      pose proof (sh_nth_lt _ _ _ Hc) as Hil. exfalso. div_lia.
  Qed.

  (** moving the hole one level down, to a greatest child [c] *)
  Lemma hole_down_step : forall h pos c x,
    hole_down h pos -> (c = 2 * pos + 1 \/ c = 2 * pos + 2) ->
    nth_error h c = Some x ->
    (forall i s, (i = 2 * pos + 1 \/ i = 2 * pos + 2) -> nth_error h i = Some s ->
                 le s x = true) ->
    hole_down (upd h pos x) c.
  Proof.
    intros h pos c x (Hlt & H1 & H3) Hc Hx Hmax.
    pose proof (sh_nth_lt _ _ _ Hx) as Hcl.
    assert (Hpc : (c - 1) / 2 = pos) by div_lia.
    split; [rewrite sh_upd_length; exact Hcl|]. split.
    - intros i Hi Hic Hpic cc pp Hcc Hpp.
      destruct (Nat.eq_dec i pos) as [Heq|Hne].
      + subst i. rewrite sh_nth_upd_eq in Hcc by exact Hlt. injection Hcc as <-.
        rewrite sh_nth_upd_neq in Hpp by div_lia.
        apply (H3 c x pp ltac:(lia) Hi Hpc Hx Hpp).
      + rewrite sh_nth_upd_neq in Hcc by lia.
        destruct (Nat.eq_dec ((i - 1) / 2) pos) as [Hpi|Hpi].
        * rewrite Hpi in Hpp. rewrite sh_nth_upd_eq in Hpp by exact Hlt. injection Hpp as <-.
          apply (Hmax i cc ltac:(div_lia) Hcc).
        * rewrite sh_nth_upd_neq in Hpp by lia.
          apply (H1 i Hi Hne Hpi cc pp Hcc Hpp).
    - intros i cc gp Hi Hc0 Hpi Hcc Hgp.
      rewrite Hpc in Hgp. rewrite sh_nth_upd_eq in Hgp by exact Hlt. injection Hgp as <-.
      rewrite sh_nth_upd_neq in Hcc by div_lia.
      apply (H1 i Hi ltac:(div_lia) ltac:(lia) cc x Hcc). rewrite Hpi. exact Hx.
  Qed.

  Lemma hole_down_leaf : forall h pos,
    hole_down h pos -> length h <= 2 * pos + 1 -> leaf_hole h pos.
  Proof.
    intros h pos (Hlt & H1 & H3) Hlen.
    split; [exact Hlt|]. split; [exact Hlen|].
    intros i Hi Hne c p Hc Hp.
    pose proof (sh_nth_lt _ _ _ Hc) as Hil.
    apply (H1 i Hi Hne ltac:(div_lia) c p Hc Hp).
  Qed.

  (** [sift_down] reaches a leaf, given fuel at least [length h - pos] *)
  Lemma sift_down_heap : forall f h pos elt h2 hole,
    length h <= f + pos -> hole_down h pos ->
    sift_down A le f h pos elt = (h2, hole) -> leaf_hole h2 hole.
  Proof.
    induction f as [|f IH]; intros h pos elt h2 hole Hf Hinv Hsd.
    - pose proof Hinv as (Hlt & _). lia.
    - destruct (sift_down_cases f h pos elt)
        as [(a & b & Ha & Hb & [[Hab E]|[Hab E]])|[(Hlen & a & Ha & E)|(Hlen & E)]];
        rewrite E in Hsd.
      + apply (IH (upd h pos b) (2 * pos + 2) elt h2 hole); [rewrite sh_upd_length; lia| |exact Hsd].
        apply hole_down_step; [exact Hinv|right; reflexivity|exact Hb|].
        intros i s [Hi|Hi] Hs; subst i.
        * rewrite Ha in Hs. injection Hs as <-. exact Hab.
        * rewrite Hb in Hs. injection Hs as <-. apply le_refl.
      + apply (IH (upd h pos a) (2 * pos + 1) elt h2 hole); [rewrite sh_upd_length; lia| |exact Hsd].
        apply hole_down_step; [exact Hinv|left; reflexivity|exact Ha|].
        intros i s [Hi|Hi] Hs; subst i.
        * rewrite Ha in Hs. injection Hs as <-. apply le_refl.
        * rewrite Hb in Hs. injection Hs as <-.
          destruct (le_total a b) as [Hc|Hc]; [congruence|exact Hc].
      + injection Hsd as <- <-.
        apply hole_down_leaf; [|rewrite sh_upd_length; lia].
        apply hole_down_step; [exact Hinv|left; reflexivity|exact Ha|].
        intros i s [Hi|Hi] Hs; subst i.
        * rewrite Ha in Hs. injection Hs as <-. apply le_refl.
        * apply sh_nth_lt in Hs. lia.
      + injection Hsd as <- <-. apply hole_down_leaf; [exact Hinv|exact Hlen].
  Qed.

  Lemma leaf_hole_up : forall h hole elt, leaf_hole h hole -> hole_up h hole elt.
  Proof.
    intros h hole elt (Hlt & Hlen & H1).
    split; [exact Hlt|]. split; [|split].
    - intros i Hi Hne _. apply (H1 i Hi Hne).
    - intros i c Hi Hpi Hc. apply sh_nth_lt in Hc. exfalso. div_lia.
    - intros i c gp Hi Hpos Hpi Hc Hgp. apply sh_nth_lt in Hc. exfalso. div_lia.
  Qed.

  Lemma heap_pop_is_heap : forall h x h',
    is_heap h -> heap_pop le h = Some (x, h') -> is_heap h'.
  Proof.
    intros h x h' Hheap Hpop.
    destruct (heap_pop_cases h) as [(Hh & E)|[(l & Hh & E)|(top & t & l & Hh & E)]];
      rewrite E in Hpop.
    - discriminate.
    - injection Hpop as <- <-. apply is_heap_nil.
    - destruct (sift_down A le (S (length t)) (l :: t) 0 l) as [h2 hole] eqn:Hsd.
      cbn [fst snd] in Hpop.
      remember (sift_up A le (S (S (length t))) h2 0 hole l) as r eqn:Hr.
      injection Hpop as <- <-. subst h r.
      assert (Hinit : hole_down (l :: t) 0).
      { split; [cbn [length]; lia|]. split.
        - intros i Hi Hne Hpne c p Hc Hp.
          rewrite (sh_nth_cons_pos l top t i Hi) in Hc.
          rewrite (sh_nth_cons_pos l top t ((i - 1) / 2) ltac:(lia)) in Hp.
          apply (Hheap i c p Hi).
          + change (top :: t ++ [l]) with ((top :: t) ++ [l]). apply sh_nth_app_some. exact Hc.
          + change (top :: t ++ [l]) with ((top :: t) ++ [l]). apply sh_nth_app_some. exact Hp.
        - intros i c gp Hi Hpos. lia. }
      assert (Hfuel : length (l :: t) <= S (length t) + 0) by (cbn [length]; lia).
      pose proof (sift_down_heap _ _ _ _ _ _ Hfuel Hinit Hsd) as Hleaf.
      pose proof (sift_down_length _ _ _ _ _ _ Hsd) as Hlen2. cbn [length] in Hlen2.
      pose proof Hleaf as (Hhl & _).
      apply sift_up_heap; [lia|].
      apply leaf_hole_up. exact Hleaf.
  Qed.

  Lemma heap_peek_max : forall h m,
    is_heap h -> heap_peek h = Some m -> forall y, In y h -> le y m = true.
  Proof.
    intros h m Hheap Hpeek y Hin.
    assert (H0 : nth_error h 0 = Some m).
    { unfold heap_peek in Hpeek. destruct h as [|a t]; [discriminate|exact Hpeek]. }
    destruct (In_nth_error h y Hin) as [i Hi].
    revert y Hi Hin. induction i as [i IH] using lt_wf_ind. intros y Hi _.
    destruct (Nat.eq_dec i 0) as [Hz|Hnz].
    - subst i. rewrite H0 in Hi. injection Hi as <-. apply le_refl.
    - pose proof (sh_nth_lt _ _ _ Hi) as Hil.
      assert (Hq : (i - 1) / 2 < i) by div_lia.
      destruct (sh_nth_some h ((i - 1) / 2) ltac:(lia)) as [p Hp].
      apply le_trans with p.
      + apply (Hheap i y p ltac:(lia) Hi Hp).
      + apply (IH ((i - 1) / 2) Hq p Hp). eapply nth_error_In. exact Hp.
  Qed.
End HeapFacts.
