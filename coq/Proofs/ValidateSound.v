(** C12: validation is sound. [WF_machine] is written from the documentation,
    over real numbers: fractions are real numbers in [0,1], probabilities real
    numbers in (0,1], targets in range without duplicates, per-event sums (as
    accumulated in f32) in (0,1], distribution parameters within their
    documented domains. NaN satisfies none of the numeric requirements.
    [validate_sound : validate_machine m = true -> WF_machine m]. *)
From Coq Require Import Reals Lra.
From Flocq Require Import Core.Core IEEE754.BinarySingleNaN.
From MB Require Import Model.Framework Model.Validate.
From MB Require Import Proofs.Tactics Proofs.ListFacts.
Open Scope N_scope.

Section Compare.
  Variable prec emax : Z.
  Context (Hp : Prec_gt_0 prec) (He : Prec_lt_emax prec emax).
  Notation flt_ := (binary_float prec emax).
  Definition fzero : flt_ := B754_zero false.

  (** a real number: neither NaN nor infinite *)
  Definition is_real (x : flt_) : Prop := is_finite x = true.

  (** strictly positive, possibly +infinity, never NaN *)
  Definition pos_param (x : flt_) : Prop :=
    is_nan x = false /\ (x = B754_infinity false \/ (is_real x /\ (0 < B2R x)%R)).

  Lemma gt_zero_pos : forall x : flt_, Bltb fzero x = true -> pos_param x.
  Proof.
    intros x H. destruct x as [s|s| |s m e Hb]; try discriminate H.
    - destruct s; [discriminate H|]. split; [reflexivity|left; reflexivity].
    - split; [reflexivity|right]. split; [reflexivity|].
      rewrite Bltb_correct in H by reflexivity. change (B2R fzero) with 0%R in H.
      destruct (Rlt_bool_spec 0 (B2R (B754_finite s m e Hb))); [assumption|discriminate].
  Qed.

  Lemma le_zero_nonneg : forall x : flt_,
    Bleb fzero x = true -> is_nan x = false /\ (x = B754_infinity false \/ (is_real x /\ (0 <= B2R x)%R)).
  Proof.
    intros x H. destruct x as [s|s| |s m e Hb]; try discriminate H.
    - split; [reflexivity|right]. split; [reflexivity|]. cbn. lra.
    - destruct s; [discriminate H|]. split; [reflexivity|left; reflexivity].
    - split; [reflexivity|right]. split; [reflexivity|].
      rewrite Bleb_correct in H by reflexivity. change (B2R fzero) with 0%R in H.
      destruct (Rle_bool_spec 0 (B2R (B754_finite s m e Hb))); [assumption|discriminate].
  Qed.

  Lemma le_finite_upper : forall x y : flt_,
    is_finite y = true -> Bleb x y = true ->
    is_nan x = false /\ (x = B754_infinity true \/ (is_real x /\ (B2R x <= B2R y)%R)).
  Proof.
    intros x y Hy H. destruct x as [s|s| |s m e Hb].
    - split; [reflexivity|right]. split; [reflexivity|].
      rewrite Bleb_correct in H by (auto; reflexivity).
      destruct (Rle_bool_spec (B2R (B754_zero s : flt_)) (B2R y)); [assumption|discriminate].
    - destruct s; [split; [reflexivity|left; reflexivity]|].
      destruct y; try discriminate Hy; discriminate H.
    - discriminate H.
    - split; [reflexivity|right]. split; [reflexivity|].
      rewrite Bleb_correct in H by (auto; reflexivity).
      destruct (Rle_bool_spec (B2R (B754_finite s m e Hb : flt_)) (B2R y)); [assumption|discriminate].
  Qed.
End Compare.

Arguments is_real {prec emax} x.
Arguments pos_param {prec emax} x.

(** a real number in [0,1] / in (0,1] *)
Definition unit_closed {p e} (x : binary_float p e) : Prop :=
  is_real x /\ (0 <= B2R x <= 1)%R.
Definition unit_halfopen {p e} (x : binary_float p e) : Prop :=
  is_real x /\ (0 < B2R x <= 1)%R.

Lemma f64_one_R : is_finite f64_one = true /\ B2R f64_one = 1%R.
Proof. split; [reflexivity|]. unfold f64_one. vm_compute B2R at 1. unfold F2R; cbn. lra. Qed.

Lemma f32_one_R : is_finite f32_one = true /\ B2R f32_one = 1%R.
Proof. split; [reflexivity|]. unfold f32_one. vm_compute B2R at 1. unfold F2R; cbn. lra. Qed.

Lemma in_unit_closed : forall f : F64, in_unit f = true -> unit_closed f.
Proof.
  unfold in_unit, fle; intros f H. apply andb_prop in H. destruct H as [H0 H1].
  destruct f64_one_R as [F1 R1].
  destruct (le_zero_nonneg _ _ f H0) as [_ [->|[Hf H0']]]; [discriminate H1|].
  destruct (le_finite_upper _ _ f f64_one F1 H1) as [_ [->|[_ H1']]]; [discriminate Hf|].
  split; [exact Hf|]. rewrite R1 in H1'. lra.
Qed.

Lemma prob_halfopen : forall p : F32,
  fgt32 p f32_zero && fle32 p f32_one = true -> unit_halfopen p.
Proof.
  unfold fgt32, fle32; intros p H. apply andb_prop in H. destruct H as [H0 H1].
  destruct f32_one_R as [F1 R1].
  destruct (gt_zero_pos _ _ p H0) as [_ [->|[Hf H0']]]; [discriminate H1|].
  destruct (le_finite_upper _ _ p f32_one F1 H1) as [_ [->|[_ H1']]]; [discriminate Hf|].
  split; [exact Hf|]. rewrite R1 in H1'. lra.
Qed.

(** ** the well-formedness predicate *)
Definition WF_dist (d : dist) : Prop :=
  match dtype d with
  | Uniform lo hi =>
      let l := f64_of_bits lo in let h := f64_of_bits hi in
      is_real l /\ is_real h /\ (B2R l <= B2R h)%R /\ is_inf (fsub h l) = false
  | Normal _ sd => is_real (f64_of_bits sd)
  | SkewNormal _ sc sh =>
      is_real (f64_of_bits sc) /\ (0 < B2R (f64_of_bits sc))%R /\ is_real (f64_of_bits sh)
  | LogNormal _ sg => is_real (f64_of_bits sg)
  | Binomial trials p =>
      trials <= 1000000000 /\ unit_closed (f64_of_bits p) /\
      (B2R (f64_of_bits p) = 0%R \/ (B2R DIST_MIN_PROBABILITY <= B2R (f64_of_bits p))%R)
  | Geometric p =>
      unit_closed (f64_of_bits p) /\
      (B2R (f64_of_bits p) = 0%R \/ (B2R DIST_MIN_PROBABILITY <= B2R (f64_of_bits p))%R)
  | Pareto a b | Weibull a b | Gamma a b | Beta a b =>
      pos_param (f64_of_bits a) /\ pos_param (f64_of_bits b)
  | Poisson l =>
      is_real (f64_of_bits l) /\ (0 < B2R (f64_of_bits l) <= B2R POISSON_MAX_LAMBDA)%R
  end.

Definition WF_optdist (d : option dist) : Prop := match d with Some d => WF_dist d | None => True end.

Definition WF_action (a : action) : Prop :=
  match a with
  | Cancel _ => True
  | SendPadding _ _ t l => WF_dist t /\ WF_optdist l
  | BlockOutgoing _ _ t d l => WF_dist t /\ WF_dist d /\ WF_optdist l
  | UpdateTimer _ d l => WF_dist d /\ WF_optdist l
  end.

(** the f32 sum as the code accumulates it *)
Definition sum32 (v : list trans) (s0 : F32) : F32 :=
  fold_left (fun s tp => fadd32 s (f32_of_bits (snd tp))) v s0.

Definition WF_vector (n : N) (v : list trans) : Prop :=
  Forall (fun tp => (fst tp < n \/ fst tp = STATE_END \/ fst tp = STATE_SIGNAL)
                    /\ unit_halfopen (f32_of_bits (snd tp))) v /\
  NoDup (map fst v) /\
  unit_halfopen (sum32 v f32_zero).

Definition WF_state (n : N) (st : state) : Prop :=
  Forall (fun ov => match ov with Some v => WF_vector n v | None => True end) (strans st) /\
  match saction st with Some a => WF_action a | None => True end /\
  match sctr_a st with Some c => WF_optdist (cdist c) | None => True end /\
  match sctr_b st with Some c => WF_optdist (cdist c) | None => True end.

Definition WF_machine (m : machine) : Prop :=
  unit_closed (f64_of_bits (max_padding_frac m)) /\
  unit_closed (f64_of_bits (max_blocking_frac m)) /\
  states m <> [] /\ N.of_nat (length (states m)) <= STATE_MAX /\
  Forall (WF_state (N.of_nat (length (states m)))) (states m).

(** ** soundness *)
Lemma zero_is_fzero64 : f64_zero = fzero prec64 emax64. Proof. reflexivity. Qed.

Lemma pos_of_fgt : forall x : F64, fgt x f64_zero = true -> pos_param x.
Proof. unfold fgt; intros x H. apply (gt_zero_pos _ _ x H). Qed.

Lemma finite_real_cases : forall x : F64, is_finite x = true -> is_nan x = false /\ is_inf x = false.
Proof. intros [s|s| |s m e H] Hf; try discriminate Hf; auto. Qed.

Lemma min_prob_spec : forall p : F64,
  unit_closed p -> too_small_probability p = false ->
  (B2R p = 0%R \/ (B2R DIST_MIN_PROBABILITY <= B2R p)%R).
Proof.
  unfold too_small_probability, feq, flt; intros p [Hf [H0 H1]] H.
  apply andb_false_iff in H. destruct H as [H|H].
  - left. apply negb_false_iff in H. rewrite Beqb_correct in H by (auto; reflexivity).
    change (B2R f64_zero) with 0%R in H.
    destruct (Req_bool_spec (B2R p) 0); [assumption|discriminate].
  - right. rewrite Bltb_correct in H by (auto; reflexivity).
    destruct (Rlt_bool_spec (B2R p) (B2R DIST_MIN_PROBABILITY)); [discriminate|assumption].
Qed.

Lemma validate_dist_sound : forall d, validate_dist d = true -> WF_dist d.
Proof.
  unfold validate_dist, WF_dist; intros d H.
  destruct (dtype d) as [lo hi|mean sd|loc sc sh|mu sg|trials p|p|a b|l|a b|a b|a b]; split_andb.
  - (* Uniform *)
    repeat match goal with Hx : negb _ = true |- _ => apply negb_true_iff in Hx end.
    repeat match goal with Hx : _ || _ = false |- _ => apply orb_false_iff in Hx; destruct Hx end.
    set (l := f64_of_bits lo) in *. set (h := f64_of_bits hi) in *.
    assert (Fl : is_finite l = true) by (destruct l; try discriminate; reflexivity).
    assert (Fh : is_finite h = true) by (destruct h; try discriminate; reflexivity).
    split; [exact Fl|]. split; [exact Fh|]. split; [|assumption].
    match goal with Hx : fgt l h = false |- _ =>
      unfold fgt in Hx; rewrite Bltb_correct in Hx by assumption;
      destruct (Rlt_bool_spec (B2R h) (B2R l)); [discriminate|lra] end.
  - exact H.
  - match goal with Hx : fgt _ f64_zero = true |- _ =>
      destruct (pos_of_fgt _ Hx) as [_ [Hi|[_ Hpos]]] end.
    + match goal with Hf : is_finite (f64_of_bits sc) = true |- _ => rewrite Hi in Hf; discriminate Hf end.
    + repeat split; assumption.
  - exact H.
  - match goal with Hx : fge _ f64_zero = true, Hy : fle _ f64_one = true |- _ =>
      assert (Hu : unit_closed (f64_of_bits p))
        by (apply in_unit_closed; unfold in_unit, fge, fle in *; rewrite Hx, Hy; reflexivity) end.
    split; [apply N.leb_le; assumption|]. split; [exact Hu|].
    apply min_prob_spec; [exact Hu|]. apply negb_true_iff. assumption.
  - repeat match goal with Hx : negb _ = true |- _ => apply negb_true_iff in Hx end.
    assert (Hu : unit_closed (f64_of_bits p)).
    { match goal with Hf : is_finite (f64_of_bits p) = true |- _ => split; [exact Hf|] end.
      destruct f64_one_R as [F1 R1].
      match goal with Hx : flt _ f64_zero = false, Hy : fgt _ f64_one = false |- _ =>
        unfold flt, fgt in Hx, Hy;
        rewrite Bltb_correct in Hx by (auto; reflexivity);
        rewrite Bltb_correct in Hy by (auto; reflexivity);
        change (B2R f64_zero) with 0%R in Hx; rewrite R1 in Hy;
        destruct (Rlt_bool_spec (B2R (f64_of_bits p)) 0); [discriminate|];
        destruct (Rlt_bool_spec 1 (B2R (f64_of_bits p))); [discriminate|lra] end. }
    split; [exact Hu|]. apply min_prob_spec; assumption.
  - split; apply pos_of_fgt; assumption.
  - repeat match goal with Hx : negb _ = true |- _ => apply negb_true_iff in Hx end.
    match goal with Hx : fgt (f64_of_bits l) f64_zero = true |- _ =>
      destruct (pos_of_fgt _ Hx) as [_ [Hi|[Hf Hpos]]] end.
    + match goal with Hx : fgt (f64_of_bits l) POISSON_MAX_LAMBDA = false |- _ =>
        rewrite Hi in Hx; vm_compute in Hx; discriminate Hx end.
    + split; [exact Hf|]. split; [exact Hpos|].
      match goal with Hx : fgt (f64_of_bits l) POISSON_MAX_LAMBDA = false |- _ =>
        unfold fgt in Hx; rewrite Bltb_correct in Hx by (auto; reflexivity);
        destruct (Rlt_bool_spec (B2R POISSON_MAX_LAMBDA) (B2R (f64_of_bits l))); [discriminate|assumption] end.
  - split; apply pos_of_fgt; assumption.
  - split; apply pos_of_fgt; assumption.
  - split; apply pos_of_fgt; assumption.
Qed.

Lemma validate_optdist_sound : forall d, validate_optdist d = true -> WF_optdist d.
Proof. intros [d|] H; [apply validate_dist_sound; exact H|exact I]. Qed.

Lemma validate_action_sound : forall a, validate_action a = true -> WF_action a.
Proof.
  intros [t|b r t l|b r t d l|r d l] H; cbn in *; split_andb;
    repeat split; auto using validate_dist_sound, validate_optdist_sound.
Qed.

Lemma validate_vector_sound : forall n v seen sum,
  validate_vector n v seen sum = true ->
  Forall (fun tp => (fst tp < n \/ fst tp = STATE_END \/ fst tp = STATE_SIGNAL)
                    /\ unit_halfopen (f32_of_bits (snd tp))) v /\
  NoDup (map fst v) /\ (forall t, In t (map fst v) -> ~ In t seen) /\
  unit_halfopen (sum32 v sum).
Proof.
  induction v as [|[t p] v IH]; intros seen sum H; cbn [validate_vector] in H.
  - split; [constructor|]. split; [constructor|]. split; [intros t []|].
    cbn. apply prob_halfopen. exact H.
  - split_andb.
    match goal with Hx : validate_vector _ _ _ _ = true |- _ => destruct (IH _ _ Hx) as (F & ND & NS & SU) end.
    assert (Ht : t < n \/ t = STATE_END \/ t = STATE_SIGNAL).
    { match goal with Hx : target_ok n t = true |- _ => unfold target_ok in Hx;
        apply orb_prop in Hx; destruct Hx as [Hx|Hx]; [apply orb_prop in Hx; destruct Hx as [Hx|Hx]|] end.
      - left; apply N.ltb_lt; assumption.
      - right; left; apply N.eqb_eq; assumption.
      - right; right; apply N.eqb_eq; assumption. }
    assert (Hp : unit_halfopen (f32_of_bits p)).
    { apply prob_halfopen. apply andb_true_iff; split; assumption. }
    assert (Hns : ~ In t seen).
    { match goal with Hx : negb (existsb _ seen) = true |- _ => apply negb_true_iff in Hx;
        intros Hin; assert (existsb (N.eqb t) seen = true)
          by (apply existsb_exists; exists t; split; [exact Hin|apply N.eqb_refl]); congruence end. }
    split; [constructor; [split; assumption|exact F]|].
    split; [cbn; constructor; [intros Hin; apply (NS t Hin); left; reflexivity|exact ND]|].
    split; [|exact SU].
    intros t' [<-|Hin]; [exact Hns|]. intros Hs. apply (NS t' Hin). right; exact Hs.
Qed.

Lemma validate_state_sound : forall n st, validate_state n st = true -> WF_state n st.
Proof.
  unfold validate_state, WF_state; intros n st H. split_andb.
  split.
  { apply Forall_forall. intros ov Hin.
    match goal with Hx : forallb _ (strans st) = true |- _ => rewrite forallb_forall in Hx; specialize (Hx ov Hin) end.
    destruct ov as [v|]; [|exact I].
    match goal with Hx : validate_vector _ _ _ _ = true |- _ =>
      destruct (validate_vector_sound _ _ _ _ Hx) as (F & ND & _ & SU) end.
    split; [exact F|]. split; [exact ND|exact SU]. }
  split; [destruct (saction st); [apply validate_action_sound; assumption|exact I]|].
  split; [destruct (sctr_a st); [apply validate_optdist_sound; assumption|exact I]|].
  destruct (sctr_b st); [apply validate_optdist_sound; assumption|exact I].
Qed.

Theorem validate_sound : forall m, validate_machine m = true -> WF_machine m.
Proof.
  unfold validate_machine, WF_machine; intros m H. cbv zeta in H. split_andb.
  split; [apply in_unit_closed; assumption|]. split; [apply in_unit_closed; assumption|].
  split; [intros E; rewrite E in *; discriminate|].
  split; [apply N.leb_le; assumption|].
  apply Forall_forall. intros st Hin.
  match goal with Hx : forallb _ (states m) = true |- _ => rewrite forallb_forall in Hx; apply validate_state_sound; auto end.
Qed.
