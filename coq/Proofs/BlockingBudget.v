(** C03: blocking budgets. Gate instance for BlockOutgoing; the blocked time
    is the accounting recount of AcctSpec (a function of the BlockingBegin /
    BlockingEnd reports and call timestamps only). *)
From Coq Require Import Reals Lra Psatz.
From Flocq Require Import Core.Core IEEE754.BinarySingleNaN.
From MB Require Import Model.Framework Model.Validate.
From MB Require Import Proofs.Tactics Proofs.ListFacts Proofs.FloatFacts Proofs.FrameworkStructure
     Proofs.FrameworkInv Proofs.FrameworkSlots Proofs.FrameworkAcct Proofs.AcctSpec Proofs.PaddingBudget.
Open Scope N_scope.

(** blocked time as the limits see it: accumulated + the ongoing block *)
Definition with_ongoing (k : clock) (active : bool) (nowt bst : Z) (d : N) : N :=
  if active then addv k d (c_since k nowt bst) else d.

(** the share test of [below_limit_blocking]: the limit is set and the f64
    quotient blocked/elapsed reaches it *)
Definition share_exceeded (k : clock) (f : F64) (d e : N) : bool :=
  fgt f f64_zero && fge (c_div k d e) f.

Definition blk_budget_ok (c : cfg) (active : bool) (nowt bst st : Z) (gb : N) (bd : N)
           (m : machine) (rep : bool) : bool :=
  let k := clk c in
  (rep && active)
  || (with_ongoing k active nowt bst bd <? c_from_micros k (allowed_blocked_microsec m))
  || (negb (share_exceeded k (f64_of_bits (max_blocking_frac m))
                           (with_ongoing k active nowt bst bd) (c_since k nowt st))
      && negb (share_exceeded k (f64_of_bits (fw_max_blocking_frac c))
                              (with_ongoing k active nowt bst gb) (c_since k nowt st))).

Lemma below_limit_blocking_budget : forall c s r m rep,
  below_limit_blocking c s r m rep = Ok true ->
  blk_budget_ok c (bactive s) (now s) (bstart s) (fstart s) (gblk s) (bdur r) m rep = true.
Proof.
  unfold below_limit_blocking, blk_budget_ok, with_ongoing, share_exceeded, addv; intros c s r m rep H.
  destruct (rep && bactive s); [reflexivity|]. cbn [orb].
  destruct (bactive s).
  - mbind H as md Em. mbind H as gd Eg. cbv beta iota.
    destruct (md <? c_from_micros (clk c) (allowed_blocked_microsec m)); [reflexivity|]. cbn [orb].
    destruct (fgt (f64_of_bits (max_blocking_frac m)) f64_zero
              && fge (c_div (clk c) md (c_since (clk c) (now s) (fstart s))) (f64_of_bits (max_blocking_frac m)));
      [discriminate|].
    destruct (fgt (f64_of_bits (fw_max_blocking_frac c)) f64_zero
              && fge (c_div (clk c) gd (c_since (clk c) (now s) (fstart s))) (f64_of_bits (fw_max_blocking_frac c)));
      [discriminate|]. reflexivity.
  - cbn [bind] in H.
    destruct (bdur r <? c_from_micros (clk c) (allowed_blocked_microsec m)); [reflexivity|]. cbn [orb].
    destruct (fgt (f64_of_bits (max_blocking_frac m)) f64_zero
              && fge (c_div (clk c) (bdur r) (c_since (clk c) (now s) (fstart s))) (f64_of_bits (max_blocking_frac m)));
      [discriminate|].
    destruct (fgt (f64_of_bits (fw_max_blocking_frac c)) f64_zero
              && fge (c_div (clk c) (gblk s) (c_since (clk c) (now s) (fstart s))) (f64_of_bits (fw_max_blocking_frac c)));
      [discriminate|]. reflexivity.
Qed.

Definition Qblk (c : cfg) (s : fstate) (i : nat) (ta : taction) : Prop :=
  match ta with
  | TBlockOutgoing _ _ _ _ rep =>
      exists r m, nth_error (rts s) i = Some r /\ nth_error (machines c) i = Some m /\
        blk_budget_ok c (bactive s) (now s) (bstart s) (fstart s) (gblk s) (bdur r) m rep = true
  | _ => True
  end.

Lemma Qblk_acct : forall c s s' i ta, acct_same s s' -> Qblk c s i ta -> Qblk c s' i ta.
Proof.
  intros c s s' i ta A H. destruct ta; cbn in *; auto.
  destruct H as (r & m0 & Hr & Hm & Hb). destruct A as [A1 A2 _ _ A5 A6 A7 _ A9].
  destruct (A9 i r Hr) as (r' & Hr' & (S1 & S2 & S3)).
  exists r', m0. rewrite A1, A2, A5, A6, A7, S3. auto.
Qed.

Lemma Qblk_other : forall c s mi r' i ta, i <> mi -> Qblk c s i ta -> Qblk c (set_rt s mi r') i ta.
Proof.
  intros c s mi r' i ta Hne H. destruct ta; cbn in *; auto.
  destruct H as (r & m0 & Hr & Hm & Hb). exists r, m0.
  rewrite nth_error_upd_neq by auto. auto.
Qed.

Lemma Qblk_sched : forall c s mi r m st ta,
  nth_error (rts s) mi = Some r -> nth_error (machines c) mi = Some m ->
  nthN (states m) (cur r) = Some st -> below_action_limits c s r m = Ok true ->
  action_shape (saction st) ta -> Qblk c s mi ta.
Proof.
  intros c s mi r m st ta Hr Hm Hst Hb Hsh. destruct ta as [? ?|? ? ? ?|mm tm dd b rp|? ? ?]; cbn; auto.
  unfold below_action_limits, getN in Hb. rewrite Hst in Hb. cbn [bind] in Hb.
  destruct (saction st) as [[t|b0 r0 t l|b0 r0 t d l|r0 d l]|]; cbn in Hsh; try contradiction.
  destruct Hsh as [_ <-]. apply below_limit_blocking_budget in Hb.
  exists r, m. auto.
Qed.

Theorem blocking_gate_call : forall c tp s e t s' acts i tmo dur byp rep,
  trigger_events c tp s [e] t = Ok (s', acts) ->
  In (TBlockOutgoing i tmo dur byp rep) acts ->
  exists r m, nth_error (rts s') (N.to_nat i) = Some r /\
              nth_error (machines c) (N.to_nat i) = Some m /\
              blk_budget_ok c (bactive s') (now s') (bstart s') (fstart s') (gblk s') (bdur r) m rep = true.
Proof.
  intros c tp s e t s' acts i tmo dur byp rep H Hin.
  pose proof (single_event_gate c tp (Qblk c) (Qblk_acct c) (Qblk_other c) (Qblk_sched c) s e t s' acts H) as HG.
  destruct (output_contract c tp s [e] t s' acts H) as (_ & _ & H3).
  destruct (H3 _ Hin) as (_ & Hn & _). cbn [taction_machine] in Hn.
  exact (HG _ _ Hn).
Qed.

(** the accounting state right after [Framework::new] *)
Definition acct0 (c : cfg) (t0 : Z) : acct :=
  mkacct t0 t0 0 0 0 t0 false (map (fun _ => (0, 0, 0)) (machines c)).

Lemma fnew_acct0 : forall c tp t0 s0, fnew c tp t0 = Ok s0 -> acct_of s0 = acct0 c t0.
Proof.
  unfold fnew; intros c tp t0 s0 H. mbind H as [rs p] E. inversion H; subst.
  unfold acct_of, acct0; cbn. rewrite (init_rts_acct _ _ _ _ _ E). reflexivity.
Qed.

(** "the blocked share d/e is below the limit f (if set)": the code's own
    notion of share, the f64 quotient computed by the clock *)
Definition share_below (k : clock) (f : F64) (d e : N) : Prop :=
  fgt f f64_zero = false \/ fge (c_div k d e) f = false.

Theorem blocking_budget_history : forall c tp t0 s0 h e t s' outs i tmo dur byp rep m,
  fnew c tp t0 = Ok s0 ->
  run c tp s0 (h ++ [([e], t)]) = Ok (s', outs) ->
  In (TBlockOutgoing i tmo dur byp rep) (last outs []) ->
  nth_error (machines c) (N.to_nat i) = Some m ->
  let k := clk c in
  let A := acct_hist k (h ++ [([e], t)]) (acct0 c t0) in
  exists ns ps bd, nth_error (a_m A) (N.to_nat i) = Some (ns, ps, bd) /\
    let blocked_i := with_ongoing k (a_bactive A) (a_now A) (a_bstart A) bd in
    let blocked_g := with_ongoing k (a_bactive A) (a_now A) (a_bstart A) (a_gblk A) in
    let elapsed := c_since k (a_now A) (a_start A) in
    (rep = true /\ a_bactive A = true) \/
    blocked_i < c_from_micros k (allowed_blocked_microsec m) \/
    (share_below k (f64_of_bits (max_blocking_frac m)) blocked_i elapsed /\
     share_below k (f64_of_bits (fw_max_blocking_frac c)) blocked_g elapsed).
Proof.
  intros c tp t0 s0 h e t s' outs i tmo dur byp rep m Hnew Hrun Hin Hm k A.
  pose proof (run_acct _ _ _ _ _ _ Hrun) as Hacct. rewrite (fnew_acct0 _ _ _ _ Hnew) in Hacct.
  fold k in Hacct. fold A in Hacct.
  destruct (run_app _ _ _ _ _ _ _ Hrun) as (s1 & o1 & o2 & Hr1 & Hr2 & ->).
  cbn [run] in Hr2. mbind Hr2 as [s2 acts] Ecall. inversion Hr2; subst. clear Hr2.
  rewrite last_last in Hin.
  destruct (blocking_gate_call _ _ _ _ _ _ _ _ _ _ _ _ Ecall Hin) as (r & m' & Hr & Hm' & Hok).
  assert (m' = m) by congruence. subst m'.
  exists (nsent r), (psent r), (bdur r). split.
  { rewrite <- Hacct. cbn [acct_of a_m]. rewrite (map_nth_error _ _ _ Hr). reflexivity. }
  rewrite <- Hacct. cbn [acct_of a_bactive a_now a_bstart a_gblk a_start].
  unfold blk_budget_ok in Hok. fold k in Hok.
  apply orb_prop in Hok. destruct Hok as [Hok|Hok]; [apply orb_prop in Hok; destruct Hok as [Hok|Hok]|].
  - left. apply andb_prop in Hok. exact Hok.
  - right; left. apply N.ltb_lt. exact Hok.
  - right; right. apply andb_prop in Hok. destruct Hok as [H1 H2].
    apply negb_true_iff in H1. apply negb_true_iff in H2. unfold share_exceeded in H1, H2. unfold share_below.
    split.
    + destruct (fgt (f64_of_bits (max_blocking_frac m)) f64_zero); [right; exact H1|left; reflexivity].
    + destruct (fgt (f64_of_bits (fw_max_blocking_frac c)) f64_zero); [right; exact H2|left; reflexivity].
Qed.

(** ** the virtual clock: the share is the exact rational *)
Definition share_below_exact (f : F64) (d e : N) : Prop :=
  fgt f f64_zero = false \/ (e = 0 /\ d = 0) \/ (0 < e /\ (IZR (Z.of_N d) / IZR (Z.of_N e) < B2R f)%R).

Lemma ofZ_zero_div_nan : fge (fdiv (ofZ 0) (ofZ 0)) (ofZ 1) = false.
Proof. vm_compute. reflexivity. Qed.

Lemma share_below_vclock_exact : forall f d e,
  is_finite f = true -> (B2R f <= 1)%R -> d < 2 ^ 53 -> e < 2 ^ 53 ->
  share_below vclock f d e -> share_below_exact f d e.
Proof.
  unfold share_below, share_below_exact; intros f d e Hf Hf1 Hd He [H|H]; [left; exact H|].
  destruct (fgt f f64_zero) eqn:Eg; [|left; reflexivity]. right.
  cbn [c_div vclock] in H. change (f64_of_N d) with (ofZ (Z.of_N d)) in H.
  change (f64_of_N e) with (ofZ (Z.of_N e)) in H.
  assert (Hd' : (Z.abs (Z.of_N d) < 2 ^ 53)%Z)
    by (rewrite Z.abs_eq by lia; change (2 ^ 53)%Z with (Z.of_N (2 ^ 53)); lia).
  assert (He' : (Z.abs (Z.of_N e) < 2 ^ 53)%Z)
    by (rewrite Z.abs_eq by lia; change (2 ^ 53)%Z with (Z.of_N (2 ^ 53)); lia).
  destruct (ofZ_exact _ Hd') as [Rd Fd]. destruct (ofZ_exact _ He') as [Re Fe].
  destruct (N.eq_dec e 0) as [->|Hne].
  - (* elapsed = 0: only 0/0 (NaN) passes; d/0 = +inf is >= f *)
    destruct (N.eq_dec d 0) as [->|Hdn]; [left; auto|exfalso].
    change (Z.of_N 0) with 0%Z in *.
    unfold fge, fdiv in H.
    assert (Hinf : Bdiv mode_NE (ofZ (Z.of_N d)) (ofZ 0) = B754_infinity false).
    { destruct (ofZ (Z.of_N d)) as [s|s| |s mm ee Hb] eqn:Eo.
      - exfalso. cbn in Rd. assert (IZR (Z.of_N d) = 0%R) by (symmetry; exact Rd).
        apply eq_IZR in H0. lia.
      - discriminate Fd.
      - discriminate Fd.
      - assert (s = false).
        { destruct s; [|reflexivity]. exfalso. cbn in Rd.
          assert (0 <= IZR (Z.of_N d))%R by (apply IZR_le; lia).
          unfold F2R in Rd. cbn in Rd.
          assert (IZR (Z.neg mm) * bpow radix2 ee < 0)%R.
          { assert (IZR (Z.neg mm) < 0)%R by (apply IZR_lt; lia).
            pose proof (bpow_gt_0 radix2 ee). nra. }
          lra. }
        subst s. vm_compute. reflexivity. }
    rewrite Hinf in H. destruct f as [s|s| |s mm ee Hb]; try discriminate Hf; vm_compute in Eg, H; try discriminate.
  - right. split; [lia|].
    assert (Het : (0 < Z.of_N e)%Z) by lia.
    destruct (N.le_gt_cases d e) as [Hle|Hgt].
    + apply (div_deny_exact (Z.of_N d) (Z.of_N e) f).
      * lia.
      * split; [lia|]. change (2 ^ 53)%Z with (Z.of_N (2 ^ 53)). lia.
      * exact Hf.
      * exact H.
    + (* blocked > elapsed: the quotient rounds to at least 1 >= f, so the test cannot pass *)
      exfalso.
      assert (Hpos : (0 < IZR (Z.of_N e))%R) by (apply IZR_lt; lia).
      generalize (Bdiv_correct prec64 emax64 _ _ mode_NE (ofZ (Z.of_N d)) (ofZ (Z.of_N e))).
      rewrite Rd, Re. intros Hdv. specialize (Hdv ltac:(lra)).
      change (round_mode mode_NE) with ZnearestE in Hdv.
      assert (Hq1 : (1 <= IZR (Z.of_N d) / IZR (Z.of_N e))%R).
      { apply Rmult_le_reg_r with (IZR (Z.of_N e)); [exact Hpos|].
        unfold Rdiv. rewrite Rmult_assoc, Rinv_l by lra. rewrite Rmult_1_r, Rmult_1_l.
        apply IZR_le. lia. }
      assert (Hqb : (IZR (Z.of_N d) / IZR (Z.of_N e) <= IZR (2 ^ 53))%R).
      { apply Rmult_le_reg_r with (IZR (Z.of_N e)); [exact Hpos|].
        unfold Rdiv. rewrite Rmult_assoc, Rinv_l by lra. rewrite Rmult_1_r.
        rewrite <- mult_IZR. apply IZR_le.
        assert (Z.of_N d < 2 ^ 53)%Z by (change (2 ^ 53)%Z with (Z.of_N (2 ^ 53)); lia). nia. }
      assert (Hr1 : (1 <= rnd64 (IZR (Z.of_N d) / IZR (Z.of_N e)))%R).
      { assert (H1 : rnd64 1 = 1%R).
        { apply round_generic; auto with typeclass_instances.
          change 1%R with (IZR 1). apply format_small_Z. simpl. lia. }
        rewrite <- H1 at 1.
        apply round_le; [apply (fexp_correct prec64 emax64 Hprec64)|apply valid_rnd_N|exact Hq1]. }
      assert (Hrb : (rnd64 (IZR (Z.of_N d) / IZR (Z.of_N e)) <= IZR (2 ^ 53))%R).
      { assert (H2 : rnd64 (IZR (2 ^ 53)) = IZR (2 ^ 53)).
        { apply round_generic; auto with typeclass_instances.
          change (IZR (2 ^ 53)) with (bpow radix2 53).
          apply generic_format_bpow. unfold SpecFloat.fexp, SpecFloat.emin, prec64, emax64. lia. }
        rewrite <- H2.
        apply round_le; [apply (fexp_correct prec64 emax64 Hprec64)|apply valid_rnd_N|exact Hqb]. }
      rewrite Rlt_bool_true in Hdv.
      2:{ rewrite Rabs_pos_eq by lra. apply Rle_lt_trans with (IZR (2 ^ 53)); [exact Hrb|].
          change (IZR (2 ^ 53)) with (bpow radix2 53). apply bpow_lt. unfold emax64; lia. }
      destruct Hdv as (Hv & Hfin & _). rewrite Fd in Hfin.
      unfold fge, fdiv in H. rewrite Bleb_correct in H by assumption.
      rewrite Hv in H.
      destruct (Rle_bool_spec (B2R f) (rnd64 (IZR (Z.of_N d) / IZR (Z.of_N e)))) as [Hx|Hx]; [discriminate|].
      lra.
Qed.

Lemma in_unit_range : forall f, in_unit f = true -> is_finite f = true /\ (B2R f <= 1)%R.
Proof.
  unfold in_unit; intros f H. apply andb_prop in H. destruct H as [H0 H1].
  rewrite fle_one in H1. destruct (unit_range_finite f H0 H1) as [Hf [_ Hr]]. auto.
Qed.

Theorem blocking_budget_history_vclock : forall c tp t0 s0 h e t s' outs i tmo dur byp rep m,
  valid_cfg c = true -> clk c = vclock ->
  fnew c tp t0 = Ok s0 ->
  run c tp s0 (h ++ [([e], t)]) = Ok (s', outs) ->
  In (TBlockOutgoing i tmo dur byp rep) (last outs []) ->
  nth_error (machines c) (N.to_nat i) = Some m ->
  let A := acct_hist vclock (h ++ [([e], t)]) (acct0 c t0) in
  exists ns ps bd, nth_error (a_m A) (N.to_nat i) = Some (ns, ps, bd) /\
    let blocked_i := with_ongoing vclock (a_bactive A) (a_now A) (a_bstart A) bd in
    let blocked_g := with_ongoing vclock (a_bactive A) (a_now A) (a_bstart A) (a_gblk A) in
    let elapsed := Z.to_N (a_now A - a_start A) in
    blocked_i < 2 ^ 53 -> blocked_g < 2 ^ 53 -> elapsed < 2 ^ 53 ->
    (rep = true /\ a_bactive A = true) \/
    blocked_i < allowed_blocked_microsec m \/
    (share_below_exact (f64_of_bits (max_blocking_frac m)) blocked_i elapsed /\
     share_below_exact (f64_of_bits (fw_max_blocking_frac c)) blocked_g elapsed).
Proof.
  intros c tp t0 s0 h e t s' outs i tmo dur byp rep m Hv Hk Hnew Hrun Hin Hm A.
  destruct (blocking_budget_history c tp t0 s0 h e t s' outs i tmo dur byp rep m Hnew Hrun Hin Hm)
    as (ns & ps & bd & Hn & Hb).
  rewrite Hk in Hn, Hb. fold A in Hn, Hb.
  exists ns, ps, bd. split; [exact Hn|].
  intros blocked_i blocked_g elapsed Hbi Hbg Hel.
  cbn [c_from_micros c_since vclock] in Hb. fold blocked_i blocked_g elapsed in Hb.
  destruct Hb as [Hb|[Hb|[Hb1 Hb2]]]; [left; exact Hb|right; left; exact Hb|right; right].
  unfold valid_cfg in Hv. split_andb.
  match goal with Hf : forallb validate_machine _ = true |- _ =>
    rewrite forallb_forall in Hf; specialize (Hf m (nth_error_In _ _ Hm));
    unfold validate_machine in Hf; cbv zeta in Hf end.
  split_andb.
  repeat match goal with Hu : in_unit _ = true |- _ => apply in_unit_range in Hu; destruct Hu end.
  split; apply share_below_vclock_exact; assumption.
Qed.
