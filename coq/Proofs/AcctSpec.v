(** The accounting refinement: the framework's accounting fields (packet
    counters, blocked-time accounting, clock) evolve by a simple function of
    the reported events and call timestamps alone -- independent of the
    machines, their states and the random tape. This is what lets C02/C03
    speak about "counting all reports so far". *)
From MB Require Import Model.Framework Model.Validate.
From MB Require Import Proofs.Tactics Proofs.ListFacts Proofs.FrameworkStructure Proofs.FrameworkAcct.
Open Scope N_scope.

Record acct := mkacct {
  a_now : Z; a_start : Z;
  a_gnorm : N; a_gpad : N;
  a_gblk : N; a_bstart : Z; a_bactive : bool;
  a_m : list (N * N * N)       (* per machine: normal_sent, padding_sent, blocking_duration *)
}.

Definition rt_acct (r : mrt) : N * N * N := (nsent r, psent r, bdur r).

Definition acct_of (s : fstate) : acct :=
  mkacct (now s) (fstart s) (gnorm s) (gpad s) (gblk s) (bstart s) (bactive s) (map rt_acct (rts s)).

(** [f] applied to the first k elements *)
Fixpoint map_upto {A} (f : A -> A) (k : nat) (l : list A) : list A :=
  match l, k with
  | x :: t, S k' => f x :: map_upto f k' t
  | _, _ => l
  end.

Lemma map_upto_0 : forall {A} (f : A -> A) l, map_upto f 0 l = l.
Proof. destruct l; reflexivity. Qed.

Lemma map_upto_all : forall {A} (f : A -> A) l, map_upto f (length l) l = map f l.
Proof. induction l as [|x l IH]; cbn; [reflexivity|]. rewrite IH; reflexivity. Qed.

Lemma map_upto_step : forall {A} (f : A -> A) l k x,
  nth_error l k = Some x -> upd (map_upto f k l) k (f x) = map_upto f (S k) l.
Proof.
  induction l as [|y l IH]; intros [|k] x H; cbn in *; try discriminate.
  - inversion H; subst. destruct l; reflexivity.
  - rewrite (IH k x H). reflexivity.
Qed.

Lemma nth_error_map_upto_ge : forall {A} (f : A -> A) l k j,
  (k <= j)%nat -> nth_error (map_upto f k l) j = nth_error l j.
Proof.
  induction l as [|y l IH]; intros [|k] [|j] H; cbn; auto; try lia. apply IH; lia.
Qed.

(** add with the clock's duration addition; the default is never used on an
    [Ok] run *)
Definition addv (k : clock) (a b : N) : N := match c_add k a b with Ok v => v | _ => 0 end.

Definition mapi_acct (m : N) (l : list (N * N * N)) : list (N * N * N) :=
  (fix go (i : nat) (l : list (N * N * N)) :=
     match l with
     | [] => []
     | (n, p, b) :: t => (if N.of_nat i =? m then (n, p + 1, b) else (n, p, b)) :: go (S i) t
     end) 0%nat l.

Definition acct_event (k : clock) (e : trigger_event) (a : acct) : acct :=
  match e with
  | TENormalSent =>
      mkacct (a_now a) (a_start a) (a_gnorm a + 1) (a_gpad a) (a_gblk a) (a_bstart a) (a_bactive a)
             (map (fun '(n, p, b) => (n + 1, p, b)) (a_m a))
  | TEPaddingSent m =>
      mkacct (a_now a) (a_start a) (a_gnorm a) (a_gpad a + 1) (a_gblk a) (a_bstart a) (a_bactive a)
             (mapi_acct m (a_m a))
  | TEBlockingBegin _ =>
      if a_bactive a then a
      else mkacct (a_now a) (a_start a) (a_gnorm a) (a_gpad a) (a_gblk a) (a_now a) true (a_m a)
  | TEBlockingEnd =>
      if a_bactive a then
        let blocked := c_since k (a_now a) (a_bstart a) in
        mkacct (a_now a) (a_start a) (a_gnorm a) (a_gpad a) (addv k (a_gblk a) blocked) (a_bstart a) false
               (map (fun '(n, p, b) => (n, p, if blocked =? 0 then b else addv k b blocked)) (a_m a))
      else a
  | _ => a
  end.

Definition acct_call (k : clock) (evs : list trigger_event) (t : Z) (a : acct) : acct :=
  fold_left (fun a e => acct_event k e a) evs
            (mkacct t (a_start a) (a_gnorm a) (a_gpad a) (a_gblk a) (a_bstart a) (a_bactive a) (a_m a)).

Lemma acct_same_of : forall s s', acct_same s s' -> acct_of s' = acct_of s.
Proof.
  intros s s' A. destruct A as [A1 A2 A3 A4 A5 A6 A7 A8 as_rts0]. unfold acct_of. f_equal; auto.
  apply nth_ext with (d := (0, 0, 0)) (d' := (0, 0, 0)); [rewrite !map_length; auto|].
  intros i Hi. rewrite map_length in Hi.
  destruct (nth_error (rts s) i) as [r|] eqn:Er.
  - destruct (as_rts0 i r Er) as (r' & Hr' & (H1 & H2 & H3)).
    rewrite (nth_error_nth (map rt_acct (rts s')) _ _ (map_nth_error rt_acct _ _ Hr')).
    rewrite (nth_error_nth (map rt_acct (rts s)) _ _ (map_nth_error rt_acct _ _ Er)).
    unfold rt_acct. congruence.
  - apply nth_error_None in Er. lia.
Qed.

Section Spec.
  Variable c : cfg.
  Variable tp : tape.

  Lemma transition_acct_of : forall s mi ev s' b,
    transition FUEL c tp s mi ev = Ok (s', b) -> acct_of s' = acct_of s.
  Proof. intros; apply acct_same_of; eapply transition_acct; eauto. Qed.

  Lemma steps_acct_same :
    (forall s mi ev dec s', trans_dec c tp s mi ev dec = Ok s' -> acct_same s s') /\
    (forall ev k from s s', trans_all c tp ev k from s = Ok s' -> acct_same s s') /\
    (forall target k from s s', blocking_begin_all c tp target k from s = Ok s' -> acct_same s s') /\
    (forall s s', signal_round c tp s = Ok s' -> acct_same s s').
  Proof.
    assert (Hs : forall s mi ev s' b, transition FUEL c tp s mi ev = Ok (s', b) -> acct_same s s')
      by (intros; eapply transition_acct; eauto).
    assert (Hd : forall s mi s', decrement_limit c tp s mi = Ok s' -> acct_same s s')
      by (intros; eapply decrement_limit_acct; eauto).
    assert (Hl : forall s mi, acct_same s (add_log s (LOG_SIGDELIVER, N.of_nat mi, 0))) by (intros; apply acct_same_rts_eq; reflexivity).
    assert (Hg : forall s, acct_same s (set_sigp s None)) by (intros; apply acct_same_rts_eq; reflexivity).
    split; [|split; [|split]].
    - intros s mi ev dec s' H. eapply (trans_dec_G c tp acct_same); [apply acct_same_trans|exact Hs|exact Hd|exact H].
    - intros ev k from s s' H.
      eapply (trans_all_G c tp acct_same); [apply acct_same_refl|apply acct_same_trans|exact Hs|exact H].
    - intros target k from s s' H.
      eapply (blocking_begin_all_G c tp acct_same);
        [apply acct_same_refl|apply acct_same_trans|exact Hs|exact Hd|exact H].
    - intros s s' H.
      eapply (signal_round_G c tp acct_same);
        [apply acct_same_refl|apply acct_same_trans|exact Hs|exact Hl|exact Hg|exact H].
  Qed.

  Lemma am_set_rt : forall s mi r, a_m (acct_of (set_rt s mi r)) = upd (a_m (acct_of s)) mi (rt_acct r).
  Proof.
    intros s mi r. cbn. generalize (rts s) mi. induction l as [|x l IH]; intros [|i]; cbn; auto.
    rewrite IH. reflexivity.
  Qed.

  (** interleaved loop of NormalSent: machines below [from] already counted *)
  Lemma normal_sent_all_acct : forall k from s s' l0,
    a_m (acct_of s) = map_upto (fun '(n, p, b) => (n + 1, p, b)) from l0 ->
    normal_sent_all c tp k from s = Ok s' ->
    a_m (acct_of s') = map_upto (fun '(n, p, b) => (n + 1, p, b)) (from + k) l0 /\
    (a_now (acct_of s'), a_start (acct_of s'), a_gnorm (acct_of s'), a_gpad (acct_of s'),
     a_gblk (acct_of s'), a_bstart (acct_of s'), a_bactive (acct_of s')) =
    (a_now (acct_of s), a_start (acct_of s), a_gnorm (acct_of s), a_gpad (acct_of s),
     a_gblk (acct_of s), a_bstart (acct_of s), a_bactive (acct_of s)).
  Proof.
    induction k as [|k IH]; intros from s s' l0 Hm H; cbn [normal_sent_all] in H.
    - inversion H; subst. rewrite Nat.add_0_r. auto.
    - mbind H as r Er. apply get_ok in Er. mbind H as [s1 b] E.
      pose proof (transition_acct_of _ _ _ _ _ E) as A1.
      set (s0 := set_rt s from (rt_set_nsent r (nsent r + 1))) in *.
      assert (Hm0 : a_m (acct_of s0) = map_upto (fun '(n, p, b) => (n + 1, p, b)) (S from) l0).
      { subst s0. rewrite am_set_rt, Hm.
        assert (Hl0 : nth_error l0 from = Some (rt_acct r)).
        { rewrite <- (nth_error_map_upto_ge (fun '(n, p, b) => (n + 1, p, b)) l0 from from) by lia.
          rewrite <- Hm. cbn. apply map_nth_error. exact Er. }
        rewrite <- (map_upto_step _ l0 from (rt_acct r) Hl0). reflexivity. }
      destruct (IH (S from) s1 s' l0) as [IH1 IH2]; [rewrite A1; exact Hm0|exact H|].
      split; [rewrite IH1; f_equal; lia|]. rewrite IH2, A1. reflexivity.
  Qed.

  Lemma blocking_end_all_acct : forall blocked k from s s' l0,
    a_m (acct_of s) =
      map_upto (fun '(n, p, b) => (n, p, if blocked =? 0 then b else addv (clk c) b blocked)) from l0 ->
    blocking_end_all c tp blocked k from s = Ok s' ->
    a_m (acct_of s') =
      map_upto (fun '(n, p, b) => (n, p, if blocked =? 0 then b else addv (clk c) b blocked)) (from + k) l0 /\
    (a_now (acct_of s'), a_start (acct_of s'), a_gnorm (acct_of s'), a_gpad (acct_of s'),
     a_gblk (acct_of s'), a_bstart (acct_of s'), a_bactive (acct_of s')) =
    (a_now (acct_of s), a_start (acct_of s), a_gnorm (acct_of s), a_gpad (acct_of s),
     a_gblk (acct_of s), a_bstart (acct_of s), a_bactive (acct_of s)).
  Proof.
    induction k as [|k IH]; intros from s s' l0 Hm H; cbn [blocking_end_all] in H.
    - inversion H; subst. rewrite Nat.add_0_r. auto.
    - mbind H as r Er. apply get_ok in Er. mbind H as s0 E0. mbind H as [s1 b] E.
      pose proof (transition_acct_of _ _ _ _ _ E) as A1.
      set (f := fun '(n, p, b) => (n, p, if blocked =? 0 then b else addv (clk c) b blocked)) in *.
      assert (Hl0 : nth_error l0 from = Some (rt_acct r)).
      { rewrite <- (nth_error_map_upto_ge f l0 from from) by lia.
        rewrite <- Hm. cbn. apply map_nth_error. exact Er. }
      assert (H0 : a_m (acct_of s0) = map_upto f (S from) l0 /\
                   (now s0, fstart s0, gnorm s0, gpad s0, gblk s0, bstart s0, bactive s0) =
                   (now s, fstart s, gnorm s, gpad s, gblk s, bstart s, bactive s)).
      { rewrite <- (map_upto_step f l0 from (rt_acct r) Hl0).
        destruct (N.eqb_spec blocked 0) as [Hz|Hnz]; cbn [negb] in E0.
        - inversion E0; subst s0. split; [|reflexivity]. rewrite Hm.
          assert (Hf : f (rt_acct r) = rt_acct r) by (destruct (rt_acct r) as [[? ?] ?]; reflexivity).
          rewrite Hf. symmetry. apply upd_same.
          rewrite nth_error_map_upto_ge by lia. exact Hl0.
        - mbind E0 as d Ed. inversion E0; subst s0. split; [|reflexivity].
          rewrite am_set_rt, Hm. f_equal. unfold f, rt_acct; cbn.
          destruct (N.eqb_spec blocked 0); [contradiction|]. unfold addv. rewrite Ed. reflexivity. }
      destruct H0 as [Hm0 Hg0].
      destruct (IH (S from) s1 s' l0) as [IH1 IH2]; [rewrite A1; exact Hm0|exact H|].
      split; [rewrite IH1; f_equal; lia|]. rewrite IH2, A1. cbn. inversion Hg0. congruence.
  Qed.

  Lemma mapi_acct_upd : forall (l : list mrt) m r,
    nth_error l (N.to_nat m) = Some r ->
    map rt_acct (upd l (N.to_nat m) (rt_set_psent r (psent r + 1))) = mapi_acct m (map rt_acct l).
  Proof.
    unfold mapi_acct. intros l m r.
    assert (G : forall (l : list mrt) off i,
      nth_error l i = Some r -> m = N.of_nat (off + i) ->
      map rt_acct (upd l i (rt_set_psent r (psent r + 1))) =
      (fix go (i0 : nat) (l0 : list (N * N * N)) {struct l0} : list (N * N * N) :=
         match l0 with
         | [] => []
         | (n, p, b) :: t => (if N.of_nat i0 =? m then (n, p + 1, b) else (n, p, b)) :: go (S i0) t
         end) off (map rt_acct l)).
    { induction l0 as [|x l0 IHl]; intros off [|i] Hn Hm; cbn in Hn; try discriminate.
      - inversion Hn; subst x. cbn [upd map]. unfold rt_acct at 1 3. cbn.
        rewrite Nat.add_0_r in Hm. rewrite Hm, N.eqb_refl. f_equal.
        clear - Hm. assert (forall k (l : list mrt) o, (o > k)%nat ->
          map rt_acct l = (fix go (i0 : nat) (l1 : list (N * N * N)) {struct l1} : list (N * N * N) :=
            match l1 with
            | [] => []
            | (n, p, b) :: t => (if N.of_nat i0 =? N.of_nat k then (n, p + 1, b) else (n, p, b)) :: go (S i0) t
            end) o (map rt_acct l)).
        { intros k l. induction l as [|y l IHl]; intros o Ho; cbn; [reflexivity|].
          unfold rt_acct at 2. destruct (N.eqb_spec (N.of_nat o) (N.of_nat k)); [lia|].
          f_equal. apply IHl. lia. }
        apply H. lia.
      - cbn [upd map]. unfold rt_acct at 3. destruct (N.eqb_spec (N.of_nat off) m); [lia|].
        f_equal. apply (IHl (S off) i Hn). rewrite Hm. f_equal. lia. }
    intros H. apply (G l 0%nat (N.to_nat m) H). cbn. lia.
  Qed.

  Lemma mapi_acct_ge : forall l m, N.of_nat (length l) <= m -> mapi_acct m l = l.
  Proof.
    unfold mapi_acct. intros l m.
    assert (G : forall (l : list (N*N*N)) off, N.of_nat (off + length l) <= m ->
      (fix go (i0 : nat) (l0 : list (N * N * N)) {struct l0} : list (N * N * N) :=
         match l0 with
         | [] => []
         | (n, p, b) :: t => (if N.of_nat i0 =? m then (n, p + 1, b) else (n, p, b)) :: go (S i0) t
         end) off l = l).
    { induction l0 as [|[[n p] b] l0 IHl]; intros off H; [reflexivity|]. cbn [length] in H.
      destruct (N.eqb_spec (N.of_nat off) m); [lia|]. f_equal. apply IHl. lia. }
    intros H. apply G. cbn. exact H.
  Qed.

  Theorem process_event_acct : forall s e s',
    process_event c tp s e = Ok s' -> acct_of s' = acct_event (clk c) e (acct_of s).
  Proof.
    destruct steps_acct_same as (Htd & Hta & Hbb & _).
    unfold process_event; intros s e s' H.
    destruct e as [ | | | |m| |m| |m|m]; cbn [acct_event].
    - apply acct_same_of. eapply Hta; eauto.
    - apply acct_same_of. eapply Hta; eauto.
    - apply acct_same_of. eapply Hta; eauto.
    - destruct (normal_sent_all_acct (nmach s) 0 (set_gnorm s (gnorm s + 1)) s' (a_m (acct_of s)))
        as [Hm Hg]; [rewrite map_upto_0; reflexivity|exact H|].
      cbn [Nat.add] in Hm. unfold nmach in Hm.
      replace (length (rts s)) with (length (a_m (acct_of s))) in Hm by (cbn; apply map_length).
      rewrite map_upto_all in Hm.
      destruct (acct_of s') eqn:Es'. cbn in Hm, Hg. inversion Hg. subst. reflexivity.
    - destruct (N.leb_spec (N.of_nat (nmach s)) m) as [Hge|Hlt].
      + inversion H; subst. unfold acct_of; cbn. f_equal.
        symmetry. apply mapi_acct_ge. rewrite map_length. exact Hge.
      + mbind H as r Er. apply get_ok in Er. apply Htd in H. apply acct_same_of in H. rewrite H.
        unfold acct_of; cbn. f_equal. apply mapi_acct_upd. exact Er.
    - apply acct_same_of. eapply Hta; eauto.
    - apply Hbb in H. apply acct_same_of in H. rewrite H.
      unfold acct_of; cbn. destruct (bactive s) eqn:Ea; cbn; rewrite ?Ea; reflexivity.
    - mbind H as [s0 b] E0.
      destruct (bactive s) eqn:Ea.
      + mbind E0 as g Eg. inversion E0; subst s0 b. clear E0.
        set (blocked := c_since (clk c) (now s) (bstart s)) in *.
        destruct (blocking_end_all_acct blocked (nmach s) 0 (set_blocking s g (bstart s) false) s' (a_m (acct_of s)))
          as [Hm Hg]; [rewrite map_upto_0; reflexivity|exact H|].
        cbn [Nat.add] in Hm. unfold nmach in Hm. cbn [rts set_blocking] in Hm.
        replace (length (rts s)) with (length (a_m (acct_of s))) in Hm by (cbn; apply map_length).
        rewrite map_upto_all in Hm.
        destruct (acct_of s') eqn:Es'. cbn in Hm, Hg. inversion Hg. subst.
        unfold acct_of; cbn. rewrite Ea. cbn. f_equal. unfold addv. fold blocked. rewrite Eg. reflexivity.
      + inversion E0; subst s0 b. clear E0.
        destruct (blocking_end_all_acct 0 (nmach s) 0 s s' (a_m (acct_of s)))
          as [Hm Hg]; [rewrite map_upto_0; reflexivity|exact H|].
        cbn [Nat.add] in Hm. unfold nmach in Hm.
        replace (length (rts s)) with (length (a_m (acct_of s))) in Hm by (cbn; apply map_length).
        rewrite map_upto_all in Hm.
        replace (map (fun '(n, p, b) => (n, p, if 0 =? 0 then b else addv (clk c) b 0)) (a_m (acct_of s)))
          with (a_m (acct_of s)) in Hm
          by (symmetry; rewrite <- (map_id (a_m (acct_of s))) at 2; apply map_ext; intros [[? ?] ?]; reflexivity).
        destruct (acct_of s') eqn:Es'. cbn in Hm, Hg. inversion Hg. subst.
        unfold acct_of; cbn. rewrite Ea. reflexivity.
    - destruct (N.of_nat (nmach s) <=? m); [inversion H; subst; reflexivity|].
      apply acct_same_of. eapply Htd; eauto.
    - destruct (N.of_nat (nmach s) <=? m); [inversion H; subst; reflexivity|].
      mbind H as [s1 b] E. inversion H; subst. eapply transition_acct_of; eauto.
  Qed.

  Theorem trigger_events_acct : forall s evs t s' acts,
    trigger_events c tp s evs t = Ok (s', acts) ->
    acct_of s' = acct_call (clk c) evs t (acct_of s).
  Proof.
    destruct steps_acct_same as (_ & _ & _ & Hsr).
    unfold trigger_events, acct_call; intros s evs t s' acts H.
    mbind H as s1 E1. mbind H as s2 E2. inversion H; subst. clear H.
    apply Hsr in E2. apply acct_same_of in E2. rewrite E2. clear E2.
    replace (mkacct t (a_start (acct_of s)) (a_gnorm (acct_of s)) (a_gpad (acct_of s)) (a_gblk (acct_of s))
                   (a_bstart (acct_of s)) (a_bactive (acct_of s)) (a_m (acct_of s)))
      with (acct_of (begin_call s t))
      by (unfold acct_of; cbn; f_equal; rewrite map_map; apply map_ext; intros; reflexivity).
    generalize dependent (begin_call s t). clear s.
    induction evs as [|e evs IH]; intros s0 E1; cbn [foldM fold_left] in *.
    - inversion E1; subst. reflexivity.
    - mbind E1 as sx Ex. apply process_event_acct in Ex. rewrite <- Ex. apply IH. exact E1.
  Qed.
End Spec.
