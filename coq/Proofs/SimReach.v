(** Reachable iterations of the simulator's main loop, so that step-level
    lemmas about [pick_next] become statements about every event of the
    returned trace: each event of the output was returned by [pick_next] in
    an iteration reachable from the initial state. *)
From Coq Require Import List Arith Lia Permutation ZArith.
From MB Require Import Base.Prelude Model.Framework Model.Sim Proofs.Tactics.
From MB Require Import Proofs.SimBasics.
Import ListNotations.
Open Scope N_scope.

Definition pn_fuel (st : sim) : nat :=
  S (S (length (n_aggq (m_net st)) + length (s_timers (m_c st))
        + length (s_timers (m_s st)) + length (s_sched (m_c st))
        + length (s_sched (m_s st)))).

(** one iteration: [pick_next] returns [next] leaving [st1]; the network
    stack and the side's framework then produce [st3] *)
Definition iter (cc sc : cfg) (tp : tape) (st : sim) (nowt : Z) (next : sev) (st1 st3 : sim) : Prop :=
  pick_next (pn_fuel st) st nowt = Ok (Some next, st1) /\
  exists sq2 net2 act sq3 pos3,
    sim_network_stack next (m_sq st1)
      (if se_client next then s_bbypass (m_c st1) else s_bbypass (m_s st1))
      (m_net st1) (se_time next) = Ok (sq2, net2, act) /\
    ((se_client next = true /\ exists c',
        trigger_update cc tp (m_c st1) (m_pos st1) next (se_time next) sq2 true = Ok (c', sq3, pos3) /\
        st3 = mksim sq3 c' (m_s st1) net2 pos3)
     \/
     (se_client next = false /\ exists s',
        trigger_update sc tp (m_s st1) (m_pos st1) next (se_time next) sq2 false = Ok (s', sq3, pos3) /\
        st3 = mksim sq3 (m_c st1) s' net2 pos3)).

Section Reach.
  Variables (cc sc : cfg) (tp : tape).

  Inductive reach (st0 : sim) (t0 : Z) : sim -> Z -> Prop :=
  | reach_refl : reach st0 t0 st0 t0
  | reach_step : forall st nowt next st1 st3,
      reach st0 t0 st nowt -> iter cc sc tp st nowt next st1 st3 -> reach st0 t0 st3 (se_time next).

  Lemma reach_trans : forall a ta b tb c tc', reach a ta b tb -> reach b tb c tc' -> reach a ta c tc'.
  Proof.
    intros a ta b tb c tc' H1 H2. induction H2 as [|st nowt next st1 st3 _ IH Hi]; [exact H1|].
    eapply reach_step; eauto.
  Qed.

  (** an invariant of single iterations holds in every reachable state *)
  Lemma reach_inv : forall (P : sim -> Prop) st0 t0,
    (forall st nowt next st1 st3, P st -> iter cc sc tp st nowt next st1 st3 -> P st3) ->
    P st0 -> forall st nowt, reach st0 t0 st nowt -> P st.
  Proof.
    intros P st0 t0 Hstep H0 st nowt H. induction H as [|st nowt next st1 st3 _ IH Hi]; [exact H0|].
    eapply Hstep; eauto.
  Qed.

  (** every event the loop adds to its trace was returned by [pick_next] in a reachable iteration *)
  Lemma sim_loop_origin : forall fuel args st nowt tr iters out,
    sim_loop fuel cc sc tp args st nowt tr iters = Ok out ->
    forall e, In e out ->
      In e tr \/ exists st' nowt' st1 st3, reach st nowt st' nowt' /\ iter cc sc tp st' nowt' e st1 st3.
  Proof.
    induction fuel as [|fuel IH]; intros args st nowt tr iters out H e He; [discriminate|].
    cbn [sim_loop] in H. change (S (S _)) with (pn_fuel st) in H.
    destruct (pick_next (pn_fuel st) st nowt) as [[nx st1]|k|] eqn:Ep; cbn [bind] in H; try discriminate.
    destruct nx as [next|]; [|injection H as <-; left; apply in_rev; exact He].
    destruct (se_time next <? nowt)%Z; [discriminate|].
    destruct (sim_network_stack next (m_sq st1) _ (m_net st1) (se_time next)) as [[[sq2 net2] act]|k|] eqn:En;
      cbn [bind] in H; try discriminate.
    (* the side's trigger_update *)
    assert (Hu : exists c3 s3 sq3 pos3,
               iter cc sc tp st nowt next st1 (mksim sq3 c3 s3 net2 pos3) /\
               (let st3 := mksim sq3 c3 s3 net2 pos3 in
                let trace' := if (negb (a_only_network args) || act) && (negb (a_only_client args) || se_client next)
                              then next :: tr else tr in
                (if (0 <? a_max_trace args) && (a_max_trace args <=? N.of_nat (length trace')) then Ok (rev trace')
                 else
                   let iters' := iters + 1 in
                   if (0 <? a_max_iter args) && (a_max_iter args <=? iters') then Ok (rev trace')
                   else if negb (a_continue args) && sq_no_normal sq3 then Ok (rev trace')
                   else sim_loop fuel cc sc tp args st3 (se_time next) trace' iters') = Ok out)).
    { destruct (se_client next) eqn:Ec.
      - destruct (trigger_update cc tp (m_c st1) (m_pos st1) next (se_time next) sq2 true) as [[[c' sq'] p']|k|] eqn:Et;
          cbn [bind] in H; try discriminate.
        exists c', (m_s st1), sq', p'. split; [|exact H].
        split; [exact Ep|]. exists sq2, net2, act, sq', p'. rewrite Ec. split; [exact En|].
        left. split; [reflexivity|]. eauto.
      - destruct (trigger_update sc tp (m_s st1) (m_pos st1) next (se_time next) sq2 false) as [[[s' sq'] p']|k|] eqn:Et;
          cbn [bind] in H; try discriminate.
        exists (m_c st1), s', sq', p'. split; [|exact H].
        split; [exact Ep|]. exists sq2, net2, act, sq', p'. rewrite Ec. split; [exact En|].
        right. split; [reflexivity|]. eauto. }
    clear H. destruct Hu as (c3 & s3 & sq3 & pos3 & Hiter & H). cbv zeta in H.
    set (tr' := if (negb (a_only_network args) || act) && (negb (a_only_client args) || se_client next) then next :: tr else tr) in H.
    assert (Htr : forall x, In x tr' -> In x tr \/ x = next).
    { subst tr'. intros x Hx. destruct ((negb (a_only_network args) || act) && (negb (a_only_client args) || se_client next));
        [destruct Hx as [Hx|Hx]; [right; symmetry; exact Hx|left; exact Hx]|left; exact Hx]. }
    assert (Hfin : In e (rev tr') ->
                   In e tr \/ exists st' nowt' st1 st3, reach st nowt st' nowt' /\ iter cc sc tp st' nowt' e st1 st3).
    { intros Hx. apply in_rev in Hx. destruct (Htr _ Hx) as [Hx'|Heq]; [left; exact Hx'|]. subst e.
      right. exists st, nowt, st1, (mksim sq3 c3 s3 net2 pos3). split; [apply reach_refl|exact Hiter]. }
    destruct (_ && _) in H; [injection H as <-; auto|].
    destruct (_ && _) in H; [injection H as <-; auto|].
    destruct (_ && _) in H; [injection H as <-; auto|].
    destruct (IH _ _ _ _ _ _ H e He) as [Hx|(st' & nowt' & st1' & st3' & Hr & Hi)].
    - destruct (Htr _ Hx) as [Hx'|Heq]; [left; exact Hx'|]. subst e.
      right. exists st, nowt, st1, (mksim sq3 c3 s3 net2 pos3). split; [apply reach_refl|exact Hiter].
    - right. exists st', nowt', st1', st3'. split; [|exact Hi].
      eapply reach_trans; [|exact Hr]. eapply reach_step; [apply reach_refl|exact Hiter].
  Qed.
End Reach.

(** the initial state of [sim_advanced] *)
Definition sim_init (cc sc : cfg) (tp : tape) (sq : simq) (delay : N) (pps : option N) (st0 : sim) (t0 : Z) : Prop :=
  exists cfw sfw net,
    sq_first_time sq = Some t0 /\ fnew_at cc tp t0 0 = Ok cfw /\ fnew_at sc tp t0 (Framework.pos cfw) = Ok sfw /\
    netb_new delay pps (sq_pps sq) = Ok net /\
    st0 = mksim sq (new_side cc cfw) (new_side sc sfw) net (Framework.pos sfw).

Theorem sim_advanced_origin : forall fuel cc sc tp sq delay pps args out,
  sim_advanced fuel cc sc tp sq delay pps args = Ok out ->
  exists st0 t0, sim_init cc sc tp sq delay pps st0 t0 /\
    forall e, In e out ->
      exists st nowt st1 st3, reach cc sc tp st0 t0 st nowt /\ iter cc sc tp st nowt e st1 st3.
Proof.
  intros fuel cc sc tp sq delay pps args out H. unfold sim_advanced in H.
  destruct (sq_first_time sq) as [t0|] eqn:E0; [|discriminate].
  mbind H as cfw E1. mbind H as sfw E2. mbind H as net E3. mbind H as tr E4. injection H as <-.
  exists (mksim sq (new_side cc cfw) (new_side sc sfw) net (Framework.pos sfw)), t0. split.
  - exists cfw, sfw, net. repeat (split; [assumption|]). reflexivity.
  - intros e He. apply (Permutation_in _ (sort_time_perm tr)) in He.
    destruct (sim_loop_origin cc sc tp _ _ _ _ _ _ _ E4 e He) as [[]|Hx]. exact Hx.
Qed.
