(** The main loop with a ghost history: for every processed event the actions
    the side's framework returned for it. [sim_loop_h] is [sim_loop] for runs
    that record all events, returning records instead of bare events. *)
From Coq Require Import List Arith Lia Permutation ZArith.
From MB Require Import Base.Prelude Model.Framework Model.Sim Proofs.Tactics.
From MB Require Import Proofs.SimBasics Proofs.SimReach.
Import ListNotations.
Open Scope N_scope.

Record hrec := mkhrec { h_ev : sev; h_acts : list taction }.

(** the actions returned for [next] by the framework of its side (what trigger_update applies) *)
Definition acts_for (cc sc : cfg) (tp : tape) (st1 : sim) (next : sev) : list taction :=
  let cf := if se_client next then cc else sc in
  let sd := if se_client next then m_c st1 else m_s st1 in
  match trigger_events cf tp (set_pos (s_fw sd) (m_pos st1)) [se_ev next] (se_time next) with
  | Ok (_, acts) => acts
  | _ => []
  end.

Fixpoint sim_loop_h (fuel : nat) (ccfg scfg : cfg) (tp : tape) (args : simargs) (st : sim) (nowt : Z)
         (hist : list hrec) (iters : N) : outcome (list hrec) :=
  match fuel with
  | O => OutOfFuel
  | S fuel' =>
      '(nx, st1) <- pick_next (pn_fuel st) st nowt ;;
      match nx with
      | None => Ok (rev hist)
      | Some next =>
          if (se_time next <? nowt)%Z then Panic P_BUG
          else
            let nowt' := se_time next in
            let sender_bb := if se_client next then s_bbypass (m_c st1) else s_bbypass (m_s st1) in
            '(sq2, net2, activity) <- sim_network_stack next (m_sq st1) sender_bb (m_net st1) nowt' ;;
            '(c3, s3, sq3, pos3) <-
              (if se_client next then
                 '(c', sq', p') <- trigger_update ccfg tp (m_c st1) (m_pos st1) next nowt' sq2 true ;;
                 Ok (c', m_s st1, sq', p')
               else
                 '(s', sq', p') <- trigger_update scfg tp (m_s st1) (m_pos st1) next nowt' sq2 false ;;
                 Ok (m_c st1, s', sq', p')) ;;
            let st3 := mksim sq3 c3 s3 net2 pos3 in
            let hist' := mkhrec next (acts_for ccfg scfg tp st1 next) :: hist in
            if (0 <? a_max_trace args) && (a_max_trace args <=? N.of_nat (length hist')) then Ok (rev hist')
            else
              let iters' := iters + 1 in
              if (0 <? a_max_iter args) && (a_max_iter args <=? iters') then Ok (rev hist')
              else if negb (a_continue args) && sq_no_normal sq3 then Ok (rev hist')
              else sim_loop_h fuel' ccfg scfg tp args st3 nowt' hist' iters'
      end
  end.

Definition full_args (args : simargs) : Prop := a_only_client args = false /\ a_only_network args = false.

Lemma sim_loop_h_agrees : forall fuel cc sc tp args st nowt hist iters,
  full_args args ->
  omap (map h_ev) (sim_loop_h fuel cc sc tp args st nowt hist iters)
  = sim_loop fuel cc sc tp args st nowt (map h_ev hist) iters.
Proof.
  induction fuel as [|fuel IH]; intros cc sc tp args st nowt hist iters [Hc Hn]; [reflexivity|].
  cbn [sim_loop_h sim_loop]. change (S (S _)) with (pn_fuel st).
  destruct (pick_next (pn_fuel st) st nowt) as [[nx st1]|k|]; cbn [bind omap]; try reflexivity.
  destruct nx as [next|]; [|cbn [omap]; rewrite map_rev; reflexivity].
  destruct (se_time next <? nowt)%Z; [reflexivity|].
  destruct (sim_network_stack next (m_sq st1) _ (m_net st1) (se_time next)) as [[[sq2 net2] act]|k|];
    cbn [bind omap]; try reflexivity.
  rewrite Hc, Hn. cbn [negb orb andb].
  match goal with |- omap _ (bind ?u _) = bind ?u _ => destruct u as [[[[c3 s3] sq3] pos3]|k|] end;
    cbn [bind omap]; try reflexivity.
  cbn [length map h_ev]. rewrite map_length.
  destruct (_ && _); [cbn [omap]; rewrite map_rev; reflexivity|].
  destruct (_ && _); [cbn [omap]; rewrite map_rev; reflexivity|].
  destruct (_ && _); [cbn [omap]; rewrite map_rev; reflexivity|].
  rewrite IH by (split; assumption). reflexivity.
Qed.

(** a returned trace is the event column of a history of the instrumented loop from the initial state *)
Theorem sim_advanced_history : forall fuel cc sc tp sq delay pps args out,
  full_args args ->
  sim_advanced fuel cc sc tp sq delay pps args = Ok out ->
  exists st0 t0 H, sim_init cc sc tp sq delay pps st0 t0 /\
    sim_loop_h fuel cc sc tp args st0 t0 [] 0 = Ok H /\ out = map h_ev H.
Proof.
  intros fuel cc sc tp sq delay pps args out Hf H.
  destruct (sim_advanced_sort_is_id _ _ _ _ _ _ _ _ _ H) as (t0 & cfw & sfw & net & Hl).
  unfold sim_advanced in H.
  destruct (sq_first_time sq) as [t0'|] eqn:E0; [|discriminate].
  mbind H as cfw' E1. mbind H as sfw' E2. mbind H as net' E3. mbind H as tr E4. injection H as <-.
  exists (mksim sq (new_side cc cfw') (new_side sc sfw') net' (Framework.pos sfw')), t0'.
  pose proof (sim_loop_h_agrees fuel cc sc tp args
                (mksim sq (new_side cc cfw') (new_side sc sfw') net' (Framework.pos sfw')) t0' [] 0 Hf) as Ha.
  cbn [map] in Ha. rewrite E4 in Ha.
  destruct (sim_loop_h fuel cc sc tp args _ t0' [] 0) as [Hh|k|] eqn:Eh; cbn [omap] in Ha; try discriminate.
  injection Ha as Ha. exists Hh. split.
  - exists cfw', sfw', net'. repeat (split; [assumption|]). reflexivity.
  - split; [reflexivity|]. rewrite Ha.
    (* the loop's trace is already sorted, so the final sort is the identity *)
    apply sort_time_id. eapply sim_loop_sorted; [| |exact E4]; [constructor|intros x []].
Qed.
