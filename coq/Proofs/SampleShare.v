(** C06, quantitative part: the number of draws selecting a target is its
    declared probability times 2^23, up to less than 2 draws.

    By [sample_state_thresholds] the draws k selecting the j-th entry of a
    validated vector are those with thr S_(j-1) <= k < thr S_j, where
    S_0 = +0, S_j = S_(j-1) (+) p_j in binary32 (round to nearest even) and
    thr S = ceil (S * 2^23). Here:
    - [thr_ceil]      thr S is the exact ceiling of S * 2^23 (S finite, >= 0);
    - [fadd32_R]      a finite f32 sum is the rounding of the real sum;
    - [fadd32_err]    the rounding error of a sum that is <= 1 is <= 2^-24;
    - [share_step]    one accumulation step: |count - p * 2^23| < 3/2 (< 2);
    - [share_vector]  every entry of a validated vector, whatever its length;
    - [count_range]   0 <= thr S_(j-1) <= thr S_j <= 2^23: the count is the
                      size of an interval of draws inside [0, 2^23). *)
From Coq Require Import Reals Lra Psatz.
From Flocq Require Import Core.Core IEEE754.BinarySingleNaN.
From MB Require Import Model.Framework Model.Validate Model.Thresholds.
From MB Require Import Proofs.Tactics Proofs.ListFacts Proofs.ValidateSound Proofs.SampleState.
Open Scope Z_scope.

Notation rnd32 := (round radix2 fexp32 ZnearestE).

Definition count_between (s_prev s_next : F32) : Z := thr s_next - thr s_prev.

Lemma fexp32_valid : Valid_exp fexp32.
Proof. exact (fexp_correct prec32 emax32 Hprec32). Qed.

Lemma fexp32_mono : Monotone_exp fexp32.
Proof. exact (FLT_exp_monotone (SpecFloat.emin prec32 emax32) prec32). Qed.

Lemma P23_pos : (0 < IZR (2 ^ 23))%R.
Proof. apply IZR_lt. reflexivity. Qed.

(** ** thr is the exact ceiling *)
Lemma thr_ceil : forall s : F32,
  is_finite s = true -> (0 <= B2R s)%R ->
  (B2R s * IZR (2 ^ 23) <= IZR (thr s) < B2R s * IZR (2 ^ 23) + 1)%R.
Proof.
  intros s Fs Hs. pose proof P23_pos as P23.
  destruct s as [sz|si| |ss m e Hb]; try discriminate Fs.
  - cbn [thr B2R]. lra.
  - destruct ss.
    + exfalso. unfold B2R, F2R in Hs; cbn [Fnum Fexp cond_Zopp] in Hs.
      assert (IZR (- Z.pos m) < 0)%R by (apply IZR_lt; lia).
      pose proof (bpow_gt_0 radix2 e). nra.
    + cbn [thr]. unfold B2R, F2R; cbn [Fnum Fexp cond_Zopp].
      destruct (Z.leb_spec 0 (e + 23)) as [He|He].
      * assert (Heq : (IZR (Z.pos m) * bpow radix2 e * IZR (2 ^ 23) = IZR (Z.pos m * 2 ^ (e + 23)))%R).
        { rewrite (mult_IZR (Z.pos m)). change (IZR (2 ^ 23)) with (bpow radix2 23).
          rewrite (IZR_Zpower radix2) by lia. rewrite bpow_plus. ring. }
        rewrite Heq. lra.
      * set (d := (2 ^ (- (e + 23)))%Z).
        assert (Hd : (0 < d)%Z) by (apply Z.pow_pos_nonneg; lia).
        assert (Dpos : (0 < IZR d)%R) by (apply IZR_lt; exact Hd).
        assert (Heq : (IZR (Z.pos m) * bpow radix2 e * IZR (2 ^ 23) = IZR (Z.pos m) * / IZR d)%R).
        { subst d. change (IZR (2 ^ 23)) with (bpow radix2 23).
          rewrite (IZR_Zpower radix2) by lia.
          replace e with (- (- (e + 23)) + - 23)%Z at 1 by lia. rewrite bpow_plus, bpow_opp.
          rewrite Rmult_assoc, Rmult_assoc, <- bpow_plus. change (-23 + 23)%Z with 0%Z.
          change (bpow radix2 0) with 1%R. ring. }
        rewrite Heq.
        set (q := ((Z.pos m + d - 1) / d)%Z).
        assert (Hq : ((q - 1) * d < Z.pos m <= q * d)%Z).
        { pose proof (Z.div_mod (Z.pos m + d - 1) d ltac:(lia)) as Hdm.
          pose proof (Z.mod_pos_bound (Z.pos m + d - 1) d Hd) as Hr.
          fold q in Hdm. nia. }
        destruct Hq as [Hq1 Hq2]. apply IZR_lt in Hq1. apply IZR_le in Hq2.
        rewrite mult_IZR in Hq1, Hq2. rewrite minus_IZR in Hq1.
        split.
        -- apply Rmult_le_reg_r with (IZR d); [exact Dpos|].
           rewrite Rmult_assoc, Rinv_l by lra. lra.
        -- apply Rmult_lt_reg_r with (IZR d); [exact Dpos|].
           rewrite Rmult_plus_distr_r, Rmult_assoc, Rinv_l by lra. lra.
Qed.

(** ** the f32 addition *)
Lemma fadd32_R : forall s p : F32,
  is_finite (fadd32 s p) = true ->
  B2R (fadd32 s p) = rnd32 (B2R s + B2R p).
Proof.
  intros s p Hf. destruct (Bplus_finite_inv _ _ Hf) as [Fs Fp].
  unfold fadd32 in *.
  generalize (Bplus_correct prec32 emax32 _ _ mode_NE s p Fs Fp).
  change (round_mode mode_NE) with ZnearestE.
  destruct (Rlt_bool _ _).
  - intros (H & _). exact H.
  - intros (H & _). exfalso.
    destruct (Bplus mode_NE s p) as [sz|si| |ss m e Hb]; try discriminate Hf.
    + cbn in H. discriminate H.
    + cbn in H. discriminate H.
Qed.

Lemma rnd32_B2R : forall s : F32, rnd32 (B2R s) = B2R s.
Proof.
  intros s. apply round_generic; [apply valid_rnd_N|apply generic_format_B2R].
Qed.

Lemma rnd32_0 : rnd32 0 = 0%R.
Proof. apply round_0. apply valid_rnd_N. Qed.

(** adding a non-negative number does not decrease the sum *)
Lemma fadd32_mono : forall s p : F32,
  is_finite (fadd32 s p) = true -> (0 <= B2R p)%R ->
  (B2R s <= B2R (fadd32 s p))%R.
Proof.
  intros s p Hf Hp. rewrite (fadd32_R s p Hf). rewrite <- (rnd32_B2R s) at 1.
  apply round_le; [exact fexp32_valid|apply valid_rnd_N|lra].
Qed.

Lemma fadd32_nonneg : forall s p : F32,
  is_finite (fadd32 s p) = true -> (0 <= B2R s)%R -> (0 <= B2R p)%R ->
  (0 <= B2R (fadd32 s p))%R.
Proof.
  intros s p Hf Hs Hp. apply Rle_trans with (B2R s); [exact Hs|apply fadd32_mono; assumption].
Qed.

Lemma ulp32_1 : ulp radix2 fexp32 1 = bpow radix2 (-23).
Proof.
  change 1%R with (bpow radix2 0). rewrite ulp_bpow. reflexivity.
Qed.

(** the rounding error of a sum that lands in [0,1] is at most 2^-24 *)
Lemma fadd32_err : forall s p : F32,
  is_finite (fadd32 s p) = true ->
  (0 <= B2R (fadd32 s p) <= 1)%R ->
  (Rabs (B2R (fadd32 s p) - (B2R s + B2R p)) * IZR (2 ^ 23) <= / 2)%R.
Proof.
  intros s p Hf [H0 H1]. rewrite (fadd32_R s p Hf) in *.
  pose proof (@error_le_half_ulp_round radix2 fexp32 fexp32_valid fexp32_mono (fun x => negb (Z.even x)) (B2R s + B2R p)) as He.
  pose proof (@ulp_le_pos radix2 fexp32 fexp32_valid fexp32_mono _ _ H0 H1) as Hu.
  rewrite ulp32_1 in Hu.
  change (bpow radix2 (-23)) with (/ IZR (2 ^ 23))%R in Hu.
  pose proof P23_pos as P23.
  assert (Hi : (0 < / IZR (2 ^ 23))%R) by (apply Rinv_0_lt_compat; exact P23).
  set (E := Rabs (rnd32 (B2R s + B2R p) - (B2R s + B2R p))) in *.
  assert (HE : (E <= / 2 * / IZR (2 ^ 23))%R) by lra.
  apply Rle_trans with (/ 2 * / IZR (2 ^ 23) * IZR (2 ^ 23))%R.
  - apply Rmult_le_compat_r; lra.
  - rewrite Rmult_assoc, Rinv_l by lra. lra.
Qed.

(** ** one accumulation step *)
Theorem share_step_strong : forall s p : F32,
  is_finite (fadd32 s p) = true ->
  (0 <= B2R s)%R -> (0 <= B2R p)%R ->
  (B2R (fadd32 s p) <= 1)%R ->
  (Rabs (IZR (count_between s (fadd32 s p)) - B2R p * IZR (2 ^ 23)) < 3 / 2)%R.
Proof.
  intros s p Hf Hs Hp H1.
  destruct (Bplus_finite_inv _ _ Hf) as [Fs Fp].
  pose proof (fadd32_nonneg s p Hf Hs Hp) as H0.
  pose proof (thr_ceil s Fs Hs) as Ts.
  pose proof (thr_ceil _ Hf H0) as Ts'.
  pose proof (fadd32_err s p Hf (conj H0 H1)) as He.
  unfold count_between. rewrite minus_IZR.
  set (s' := fadd32 s p) in *.
  pose proof P23_pos as P23.
  set (D := (B2R s' - (B2R s + B2R p))%R) in *.
  assert (HD : (- / 2 <= D * IZR (2 ^ 23) <= / 2)%R).
  { unfold Rabs in He. destruct (Rcase_abs D); nra. }
  replace (B2R p) with (B2R s' - B2R s - D)%R by (unfold D; ring).
  apply Rabs_def1; nra.
Qed.

Theorem share_step : forall s p : F32,
  is_finite (fadd32 s p) = true ->
  (0 <= B2R s)%R -> (0 < B2R p)%R ->
  (B2R (fadd32 s p) <= 1)%R ->
  (Rabs (IZR (count_between s (fadd32 s p)) - B2R p * IZR (2 ^ 23)) < 2)%R.
Proof.
  intros s p Hf Hs Hp H1.
  apply Rlt_trans with (3 / 2)%R; [|lra].
  apply share_step_strong; auto. lra.
Qed.

(** the thresholds do not decrease and stay inside the draw range *)
Lemma thr_mono : forall a b : F32,
  is_finite a = true -> is_finite b = true ->
  (0 <= B2R a)%R -> (B2R a <= B2R b)%R -> thr a <= thr b.
Proof.
  intros a b Fa Fb Ha Hab.
  pose proof (thr_ceil a Fa Ha) as Ta.
  pose proof (thr_ceil b Fb ltac:(lra)) as Tb.
  pose proof P23_pos as P23.
  assert (H : (IZR (thr a) < IZR (thr b) + 1)%R) by nra.
  rewrite <- plus_IZR in H. apply lt_IZR in H. lia.
Qed.

Lemma thr_range : forall a : F32,
  is_finite a = true -> (0 <= B2R a <= 1)%R -> 0 <= thr a <= 2 ^ 23.
Proof.
  intros a Fa [H0 H1].
  pose proof (thr_ceil a Fa H0) as Ta.
  pose proof P23_pos as P23.
  split.
  - apply le_IZR. nra.
  - assert (H : (IZR (thr a) < IZR (2 ^ 23) + 1)%R) by nra.
    rewrite <- plus_IZR in H. apply lt_IZR in H. lia.
Qed.

(** ** validated vectors *)
Lemma sum32_cons : forall t p v s,
  sum32 ((t, p) :: v) s = sum32 v (fadd32 s (f32_of_bits p)).
Proof. reflexivity. Qed.

(** every partial sum lies between the start value and the final sum *)
Lemma sums_between : forall v s,
  is_finite (sum32 v s) = true ->
  Forall (fun tp : trans => (0 <= B2R (f32_of_bits (snd tp)))%R) v ->
  (B2R s <= B2R (sum32 v s))%R /\
  Forall (fun x => (B2R s <= B2R x <= B2R (sum32 v s))%R) (sums v s).
Proof.
  induction v as [|[t p] v IH]; intros s Hf Hp.
  - cbn [sums]. split; [unfold sum32; cbn [fold_left]; lra|constructor].
  - rewrite sum32_cons in *. cbn [sums].
    inversion Hp as [|x l Hp1 Hp2]; subst. cbn [snd] in Hp1.
    destruct (IH _ Hf Hp2) as [Hle Hall].
    destruct (sums_finite _ _ Hf) as [Fs' _].
    pose proof (fadd32_mono s (f32_of_bits p) Fs' Hp1) as Hm.
    split; [lra|].
    constructor; [lra|].
    eapply Forall_impl; [|exact Hall]. cbn beta. intros a Ha. lra.
Qed.

(** consecutive entries of S_0 :: sums are related by one f32 addition *)
Lemma sums_nth : forall v s0 j t p a b,
  nth_error v j = Some (t, p) ->
  nth_error (s0 :: sums v s0) j = Some a ->
  nth_error (s0 :: sums v s0) (S j) = Some b ->
  b = fadd32 a (f32_of_bits p) /\ In b (sums v s0) /\ (a = s0 \/ In a (sums v s0)).
Proof.
  induction v as [|[t0 p0] v IH]; intros s0 j t p a b Hv Ha Hb.
  - destruct j; discriminate Hv.
  - destruct j as [|j].
    + cbn [nth_error] in Hv, Ha. inversion Hv; subst. inversion Ha; subst.
      cbn [sums nth_error] in Hb. inversion Hb; subst.
      split; [reflexivity|]. split; [cbn [sums]; left; reflexivity|left; reflexivity].
    + cbn [nth_error] in Hv.
      change (nth_error (s0 :: sums ((t0, p0) :: v) s0) (S j))
        with (nth_error (fadd32 s0 (f32_of_bits p0) :: sums v (fadd32 s0 (f32_of_bits p0))) j) in Ha.
      change (nth_error (s0 :: sums ((t0, p0) :: v) s0) (S (S j)))
        with (nth_error (fadd32 s0 (f32_of_bits p0) :: sums v (fadd32 s0 (f32_of_bits p0))) (S j)) in Hb.
      destruct (IH _ _ _ _ _ _ Hv Ha Hb) as (E & Ib & Ia).
      split; [exact E|]. cbn [sums].
      split; [right; exact Ib|].
      right. destruct Ia as [->|Ia]; [left; reflexivity|right; exact Ia].
Qed.

(** what validation guarantees about the partial sums S_0, S_1, ... *)
Lemma validated_sums_unit : forall n v,
  validate_vector n v [] f32_zero = true ->
  forall x, x = f32_zero \/ In x (sums v f32_zero) ->
  is_finite x = true /\ (0 <= B2R x <= 1)%R.
Proof.
  intros n v Hv x Hx.
  destruct (validate_vector_sound _ _ _ _ Hv) as (HF & _ & _ & [Hf [_ Hle]]).
  assert (Hp : Forall (fun tp : trans => (0 <= B2R (f32_of_bits (snd tp)))%R) v).
  { eapply Forall_impl; [|exact HF]. cbn beta. intros tp [_ [_ [H _]]]. lra. }
  destruct (sums_between v f32_zero Hf Hp) as [_ Hall].
  destruct (sums_finite v f32_zero Hf) as [_ Hfin].
  destruct Hx as [->|Hx].
  - split; [reflexivity|]. cbn [B2R f32_zero]. lra.
  - rewrite Forall_forall in Hall, Hfin.
    specialize (Hall x Hx). specialize (Hfin x Hx).
    change (B2R f32_zero) with 0%R in Hall.
    split; [exact Hfin|lra].
Qed.

Lemma validated_prob : forall n v j t p,
  validate_vector n v [] f32_zero = true -> nth_error v j = Some (t, p) ->
  is_finite (f32_of_bits p) = true /\ (0 < B2R (f32_of_bits p) <= 1)%R.
Proof.
  intros n v j t p Hv Hj.
  destruct (validate_vector_sound _ _ _ _ Hv) as (HF & _).
  rewrite Forall_forall in HF. destruct (HF _ (nth_error_In _ _ Hj)) as [_ H]. exact H.
Qed.

(** for a validated vector, every entry's count is within 2 (indeed 3/2) of
    p_j * 2^23, whatever the number of entries *)
Theorem share_vector_strong : forall n v, validate_vector n v [] f32_zero = true ->
  forall j t p, nth_error v j = Some (t, p) ->
    let ss := f32_zero :: sums v f32_zero in
    forall s_prev s_next, nth_error ss j = Some s_prev -> nth_error ss (S j) = Some s_next ->
    (Rabs (IZR (count_between s_prev s_next) - B2R (f32_of_bits p) * IZR (2 ^ 23)) < 3 / 2)%R.
Proof.
  intros n v Hv j t p Hj ss a b Ha Hb. subst ss.
  destruct (sums_nth _ _ _ _ _ _ _ Hj Ha Hb) as (E & Ib & Ia).
  destruct (validated_sums_unit n v Hv a Ia) as [Fa [Ha0 _]].
  destruct (validated_sums_unit n v Hv b (or_intror Ib)) as [Fb [_ Hb1]].
  destruct (validated_prob n v j t p Hv Hj) as [_ [Hp _]].
  subst b. apply share_step_strong; auto. lra.
Qed.

Theorem share_vector : forall n v, validate_vector n v [] f32_zero = true ->
  forall j t p, nth_error v j = Some (t, p) ->
    let ss := f32_zero :: sums v f32_zero in
    forall s_prev s_next, nth_error ss j = Some s_prev -> nth_error ss (S j) = Some s_next ->
    (Rabs (IZR (count_between s_prev s_next) - B2R (f32_of_bits p) * IZR (2 ^ 23)) < 2)%R.
Proof.
  intros n v Hv j t p Hj ss a b Ha Hb.
  apply Rlt_trans with (3 / 2)%R; [|lra].
  eapply share_vector_strong; eauto.
Qed.

(** the count is the size of an interval of draws inside [0, 2^23) *)
Theorem count_range : forall n v, validate_vector n v [] f32_zero = true ->
  forall j t p, nth_error v j = Some (t, p) ->
    let ss := f32_zero :: sums v f32_zero in
    forall s_prev s_next, nth_error ss j = Some s_prev -> nth_error ss (S j) = Some s_next ->
    0 <= thr s_prev <= thr s_next /\ thr s_next <= 2 ^ 23.
Proof.
  intros n v Hv j t p Hj ss a b Ha Hb. subst ss.
  destruct (sums_nth _ _ _ _ _ _ _ Hj Ha Hb) as (E & Ib & Ia).
  destruct (validated_sums_unit n v Hv a Ia) as [Fa Ua].
  destruct (validated_sums_unit n v Hv b (or_intror Ib)) as [Fb Ub].
  destruct (validated_prob n v j t p Hv Hj) as [_ [Hp _]].
  assert (Hab : (B2R a <= B2R b)%R).
  { subst b. apply fadd32_mono; [exact Fb|lra]. }
  pose proof (thr_range a Fa Ua). pose proof (thr_range b Fb Ub).
  pose proof (thr_mono a b Fa Fb ltac:(lra) Hab). lia.
Qed.

(** ** the draws selecting entry j are exactly the interval [thr S_(j-1), thr S_j) *)
Fixpoint chain (lo : Z) (l : list Z) : Prop :=
  match l with
  | [] => True
  | x :: l' => lo <= x /\ chain x l'
  end.

Lemma chain_lower : forall l lo x, chain lo l -> In x l -> lo <= x.
Proof.
  induction l as [|y l IH]; intros lo x Hc Hx; [destruct Hx|].
  destruct Hc as [Hy Hc]. destruct Hx as [->|Hx]; [exact Hy|].
  specialize (IH _ _ Hc Hx). lia.
Qed.

Lemma pick_int_In : forall ts th k t, pick_int ts th k = Some t -> In t ts.
Proof.
  induction ts as [|t0 ts IH]; intros th k t H; [discriminate H|].
  destruct th as [|x th]; [discriminate H|]. cbn [pick_int] in H.
  destruct (k <? x).
  - inversion H; subst. left; reflexivity.
  - right. eapply IH; eauto.
Qed.

Lemma pick_int_interval : forall v s0 k j t p a b,
  NoDup (map fst v) -> chain (thr s0) (map thr (sums v s0)) -> thr s0 <= k ->
  nth_error v j = Some (t, p) ->
  nth_error (s0 :: sums v s0) j = Some a ->
  nth_error (s0 :: sums v s0) (S j) = Some b ->
  (pick_int (map fst v) (map thr (sums v s0)) k = Some t <-> thr a <= k < thr b).
Proof.
  induction v as [|[t0 p0] v IH]; intros s0 k j t p a b ND Hc Hk Hv Ha Hb.
  - destruct j; discriminate Hv.
  - cbn [map fst] in ND. inversion ND as [|x l Hnin ND']; subst.
    cbn [sums map] in Hc. destruct Hc as [Hc1 Hc].
    set (s1 := fadd32 s0 (f32_of_bits p0)) in *.
    cbn [sums map fst pick_int]. fold s1.
    destruct j as [|j].
    + cbn [nth_error] in Hv, Ha. inversion Hv; subst. inversion Ha; subst.
      cbn [sums nth_error] in Hb. inversion Hb; subst. fold s1.
      destruct (Z.ltb_spec k (thr s1)) as [Hl|Hl].
      * split; [intros _; lia|reflexivity].
      * split; [|lia]. intros H. apply pick_int_In in H. contradiction.
    + cbn [nth_error] in Hv.
      change (nth_error (s0 :: sums ((t0, p0) :: v) s0) (S j))
        with (nth_error (s1 :: sums v s1) j) in Ha.
      change (nth_error (s0 :: sums ((t0, p0) :: v) s0) (S (S j)))
        with (nth_error (s1 :: sums v s1) (S j)) in Hb.
      assert (Hne : t0 <> t).
      { intros ->. apply Hnin. apply nth_error_In in Hv. apply (in_map fst) in Hv. exact Hv. }
      destruct (Z.ltb_spec k (thr s1)) as [Hl|Hl].
      * split; [intros H; inversion H; contradiction|].
        intros [H1 _]. exfalso.
        assert (thr s1 <= thr a); [|lia].
        apply nth_error_In in Ha. destruct Ha as [<-|Ia]; [lia|].
        apply (chain_lower _ _ _ Hc). apply in_map. exact Ia.
      * apply (IH s1 k j t p a b ND' Hc Hl Hv Ha Hb).
Qed.

Lemma sums_chain : forall v s,
  is_finite (sum32 v s) = true -> (0 <= B2R s)%R ->
  Forall (fun tp : trans => (0 <= B2R (f32_of_bits (snd tp)))%R) v ->
  chain (thr s) (map thr (sums v s)).
Proof.
  induction v as [|[t p] v IH]; intros s Hf Hs Hp; cbn [sums map chain]; [exact I|].
  rewrite sum32_cons in Hf.
  inversion Hp as [|x l Hp1 Hp2]; subst. cbn [snd] in Hp1.
  destruct (sums_finite _ _ Hf) as [Fs' _].
  destruct (Bplus_finite_inv _ _ Fs') as [Fs _].
  pose proof (fadd32_mono s (f32_of_bits p) Fs' Hp1) as Hm.
  split.
  - apply thr_mono; assumption.
  - apply IH; [exact Hf|lra|exact Hp2].
Qed.

(** the whole statement for the sampler itself: draw k selects the j-th
    declared target exactly when thr S_(j-1) <= k < thr S_j; by [count_range]
    this is an interval of [count_between S_(j-1) S_j] draws inside [0, 2^23),
    and by [share_vector] that number is within 2 of p_j * 2^23. *)
Theorem share_draws : forall n v, validate_vector n v [] f32_zero = true ->
  forall j t p, nth_error v j = Some (t, p) ->
    let ss := f32_zero :: sums v f32_zero in
    forall s_prev s_next, nth_error ss j = Some s_prev -> nth_error ss (S j) = Some s_next ->
    forall k : N, (k < 2 ^ 24)%N ->
      (pick_trans v f32_zero (f32_of_k k) = Some t <-> thr s_prev <= Z.of_N k < thr s_next).
Proof.
  intros n v Hv j t p Hj ss a b Ha Hb k Hk. subst ss.
  rewrite (sample_state_thresholds n v k Hv Hk).
  destruct (validate_vector_sound _ _ _ _ Hv) as (HF & ND & _ & [Hf _]).
  assert (Hp : Forall (fun tp : trans => (0 <= B2R (f32_of_bits (snd tp)))%R) v).
  { eapply Forall_impl; [|exact HF]. cbn beta. intros tp [_ [_ [H _]]]. lra. }
  apply (pick_int_interval v f32_zero (Z.of_N k) j t p a b ND); auto.
  - apply sums_chain; [exact Hf|cbn; lra|exact Hp].
  - cbn [thr f32_zero]. lia.
Qed.

(** ** why [share_step] assumes a finite sum.
    With only "s, p finite, 0 <= s, 0 < p, B2R (s (+) p) <= 1" the statement is
    false: the largest binary32 number added to itself overflows to +infinity,
    whose real value in Flocq is 0 (<= 1), while thr (+inf) = 2^24. Validated
    vectors never get there ([validated_sums_unit]). *)
Definition f32_max : F32 := f32_of_bits 2139095039.

Example share_step_overflow :
  is_finite f32_max = true /\ Bltb f32_zero f32_max = true /\
  fadd32 f32_max f32_max = B754_infinity false /\
  count_between f32_max (fadd32 f32_max f32_max) = 2 ^ 24 - (2 ^ 24 - 1) * 2 ^ 127.
Proof. vm_compute. repeat split; reflexivity. Qed.

Theorem share_step_without_finite_sum_false :
  ~ (forall s p : F32,
       is_finite s = true -> is_finite p = true ->
       (0 <= B2R s)%R -> (0 < B2R p)%R -> (B2R (fadd32 s p) <= 1)%R ->
       (Rabs (IZR (count_between s (fadd32 s p)) - B2R p * IZR (2 ^ 23)) < 2)%R).
Proof.
  intros H. destruct share_step_overflow as (Fm & Hpos & Einf & Ec).
  assert (Hm : (0 < B2R f32_max)%R).
  { rewrite Bltb_correct in Hpos by (auto; reflexivity).
    change (B2R f32_zero) with 0%R in Hpos.
    destruct (Rlt_bool_spec 0 (B2R f32_max)); [assumption|discriminate]. }
  specialize (H f32_max f32_max Fm Fm ltac:(lra) Hm).
  rewrite Ec in H. rewrite Einf in H. cbn [B2R] in H. specialize (H ltac:(lra)).
  pose proof P23_pos as P23.
  assert (Hc : (IZR (2 ^ 24 - (2 ^ 24 - 1) * 2 ^ 127) <= -2)%R) by (apply IZR_le; vm_compute; discriminate).
  apply Rabs_def2 in H. nra.
Qed.

(** non-vacuity: 0.5, 0.25, 0.25 -> counts 2^22, 2^21, 2^21 *)
Example share_example :
  let v := [(0%N, 1056964608%N); (1%N, 1048576000%N); (2%N, 1048576000%N)] in
  validate_vector 3 v [] f32_zero = true /\
  let ss := f32_zero :: sums v f32_zero in
  map (fun i => match nth_error ss i, nth_error ss (S i) with
                | Some a, Some b => count_between a b | _, _ => -1 end) [0; 1; 2]%nat
  = [4194304; 2097152; 2097152].
Proof. vm_compute. split; reflexivity. Qed.
