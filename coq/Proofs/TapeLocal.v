(** Tape locality (property C05): a call of the framework reads the oracle
    tape only at the positions between the state's [pos] before and after the
    call, in order, and positions only grow. Hence the result of a call is a
    function of its inputs and of the consumed segment of the random stream.

    Method: a relation [Loc p0 gp o o'] between the outcome [o] of a
    computation on tape [tp] started at position [p0] and the outcome [o'] of
    the same computation on tape [tp']; it composes along the monadic bind
    ([Loc_bind]), so every function of the model is handled by following its
    structure. *)
From MB Require Import Model.Framework Proofs.Tactics Proofs.FrameworkStructure.
Open Scope N_scope.

Definition agree (tp tp' : tape) (lo hi : nat) : Prop :=
  forall p, (lo <= p < hi)%nat -> tp' p = tp p.
Definition agree_from (tp tp' : tape) (lo : nat) : Prop :=
  forall p, (lo <= p)%nat -> tp' p = tp p.

Lemma agree_sub : forall tp tp' lo hi lo' hi',
  agree tp tp' lo hi -> (lo <= lo')%nat -> (hi' <= hi)%nat -> agree tp tp' lo' hi'.
Proof. unfold agree; intros tp tp' lo hi lo' hi' H H1 H2 p Hp; apply H; lia. Qed.

Lemma agree_split : forall tp tp' a b c,
  agree tp tp' a c -> (a <= b <= c)%nat -> agree tp tp' a b /\ agree tp tp' b c.
Proof. intros tp tp' a b c H Hb; split; eapply agree_sub; try exact H; lia. Qed.

Lemma agree_join : forall tp tp' a b c,
  agree tp tp' a b -> agree tp tp' b c -> agree tp tp' a c.
Proof.
  unfold agree; intros tp tp' a b c H1 H2 p Hp.
  destruct (Nat.lt_ge_cases p b); [apply H1|apply H2]; lia.
Qed.

Lemma agree_from_agree : forall tp tp' lo lo' hi,
  agree_from tp tp' lo -> (lo <= lo')%nat -> agree tp tp' lo' hi.
Proof. unfold agree, agree_from; intros tp tp' lo lo' hi H H1 p Hp; apply H; lia. Qed.

Lemma agree_from_sub : forall tp tp' lo lo',
  agree_from tp tp' lo -> (lo <= lo')%nat -> agree_from tp tp' lo'.
Proof. unfold agree_from; intros tp tp' lo lo' H H1 p Hp; apply H; lia. Qed.

Lemma agree_refl : forall tp lo hi, agree tp tp lo hi.
Proof. unfold agree; reflexivity. Qed.

Lemma agree_sym : forall tp tp' lo hi, agree tp tp' lo hi -> agree tp' tp lo hi.
Proof. unfold agree; intros tp tp' lo hi H p Hp; symmetry; apply H; exact Hp. Qed.

(** simplification of [pos] through the state setters, then [lia] *)
Ltac psimpl :=
  cbn [pos add_log add_step set_pos set_rt set_rts set_slot set_slots set_sigp
       set_gnorm set_gpad set_blocking begin_call fst snd] in *.
Ltac pl := psimpl; lia.

Section Local.
  Variables tp tp' : tape.

  (** ** the samplers read [tp p] only *)
  Lemma dist_sample_eq : forall p d, tp' p = tp p -> dist_sample tp' p d = dist_sample tp p d.
  Proof. intros p d H; unfold dist_sample; rewrite H; reflexivity. Qed.

  Lemma dist_sample_clamped_eq : forall p d,
    tp' p = tp p -> dist_sample_clamped tp' p d = dist_sample_clamped tp p d.
  Proof. intros p d H; unfold dist_sample_clamped; rewrite (dist_sample_eq p d H); reflexivity. Qed.

  Lemma sample_day_clamped_eq : forall p d,
    tp' p = tp p -> sample_day_clamped tp' p d = sample_day_clamped tp p d.
  Proof. intros p d H; unfold sample_day_clamped; rewrite (dist_sample_clamped_eq p d H); reflexivity. Qed.

  Lemma sample_day_clamped_loc : forall p d v p1,
    sample_day_clamped tp p d = (v, p1) ->
    (p <= p1)%nat /\ (agree tp tp' p p1 -> sample_day_clamped tp' p d = (v, p1)).
  Proof.
    intros p d v p1 H. pose proof (sample_day_clamped_pos _ _ _ _ _ H) as Hp. subst p1.
    split; [lia|]. intro Hag. rewrite sample_day_clamped_eq; [exact H|apply Hag; lia].
  Qed.

  Lemma sample_limit_loc : forall p a v p1,
    sample_limit tp p a = (v, p1) ->
    (p <= p1)%nat /\ (agree tp tp' p p1 -> sample_limit tp' p a = (v, p1)).
  Proof.
    intros p a v p1 H. split; [eapply sample_limit_pos; exact H|]. intro Hag. revert H.
    unfold sample_limit.
    destruct a as [t|b r t [l|]|b r t d [l|]|r d [l|]]; try (intro H; exact H);
      (destruct (dist_sample_clamped tp p l) as [x q] eqn:E;
       pose proof (dist_sample_clamped_pos _ _ _ _ _ E) as Hq; intro H; inversion H; subst;
       rewrite dist_sample_clamped_eq by (apply Hag; lia); rewrite E; reflexivity).
  Qed.

  Lemma sample_value_loc : forall p cn v p1,
    sample_value tp p cn = (v, p1) ->
    (p <= p1)%nat /\ (agree tp tp' p p1 -> sample_value tp' p cn = (v, p1)).
  Proof.
    intros p cn v p1 H. split; [eapply sample_value_pos; exact H|]. intro Hag. revert H.
    unfold sample_value. destruct (cdist cn) as [d|]; [|intro H; exact H].
    destruct (dist_sample_clamped tp p d) as [x q] eqn:E.
    pose proof (dist_sample_clamped_pos _ _ _ _ _ E) as Hq. intro H; inversion H; subst.
    rewrite dist_sample_clamped_eq by (apply Hag; lia). rewrite E. reflexivity.
  Qed.

  Lemma sample_state_loc : forall p st ev v p1,
    sample_state tp p st ev = (v, p1) ->
    (p <= p1)%nat /\ (agree tp tp' p p1 -> sample_state tp' p st ev = (v, p1)).
  Proof.
    intros p st ev v p1 H. split; [eapply sample_state_pos; exact H|]. intro Hag. revert H.
    unfold sample_state.
    destruct (nth_error (strans st) (event_idx ev)) as [[l|]|]; try (intro H; exact H).
    intro H; inversion H; subst. rewrite (Hag p) by lia. reflexivity.
  Qed.

  (** ** the locality relation *)
  Definition Loc {R} (p0 : nat) (gp : R -> nat) (o o' : outcome R) : Prop :=
    (forall r, o = Ok r -> (p0 <= gp r)%nat /\ (agree tp tp' p0 (gp r) -> o' = Ok r))
    /\ (agree_from tp tp' p0 -> o' = o).

  Lemma Loc_ret : forall {R} p0 (gp : R -> nat) r, (p0 <= gp r)%nat -> Loc p0 gp (Ok r) (Ok r).
  Proof.
    intros R p0 gp r H; split; [|reflexivity]. intros r' E; inversion E; subst. split; [exact H|reflexivity].
  Qed.

  Lemma Loc_panic : forall {R} p0 (gp : R -> nat) k, Loc p0 gp (Panic k) (Panic k).
  Proof. intros R p0 gp k; split; [intros r E; discriminate E|reflexivity]. Qed.

  Lemma Loc_fuel : forall {R} p0 (gp : R -> nat), Loc p0 gp OutOfFuel OutOfFuel.
  Proof. intros R p0 gp; split; [intros r E; discriminate E|reflexivity]. Qed.

  (** a computation that does not depend on the tape *)
  Lemma Loc_same : forall {R} p0 (gp : R -> nat) o,
    (forall r, o = Ok r -> (p0 <= gp r)%nat) -> Loc p0 gp o o.
  Proof. intros R p0 gp o H; split; [|reflexivity]. intros r E; split; [apply H; exact E|intros _; exact E]. Qed.

  Lemma Loc_bind : forall {R1 R2} p0 (gp1 : R1 -> nat) (gp2 : R2 -> nat) o o' (k k' : R1 -> outcome R2),
    Loc p0 gp1 o o' ->
    (forall r1, o = Ok r1 -> Loc (gp1 r1) gp2 (k r1) (k' r1)) ->
    Loc p0 gp2 (bind o k) (bind o' k').
  Proof.
    intros R1 R2 p0 gp1 gp2 o o' k k' [H1 H1f] H2. split.
    - intros r H. apply bind_ok in H as (r1 & E1 & E2).
      destruct (H1 r1 E1) as [Hle1 Hi1]. destruct (H2 r1 E1) as [H2a _].
      destruct (H2a r E2) as [Hle2 Hi2]. split; [lia|]. intro Hag.
      rewrite Hi1 by (eapply agree_sub; [exact Hag|lia|lia]). cbn [bind].
      apply Hi2. eapply agree_sub; [exact Hag|lia|lia].
    - intro Hag. rewrite (H1f Hag). destruct o as [r1|kk|]; cbn [bind]; try reflexivity.
      destruct (H1 r1 eq_refl) as [Hle1 _]. destruct (H2 r1 eq_refl) as [_ H2f].
      apply H2f. eapply agree_from_sub; [exact Hag|exact Hle1].
  Qed.

  (** bind over a tape-independent, position-free computation *)
  Lemma Loc_bind_pure : forall {A R} p0 (gp : R -> nat) (o : outcome A) (k k' : A -> outcome R),
    (forall a, o = Ok a -> Loc p0 gp (k a) (k' a)) -> Loc p0 gp (bind o k) (bind o k').
  Proof.
    intros A R p0 gp o k k' H. destruct o as [a|kk|]; cbn [bind];
      [apply H; reflexivity|apply Loc_panic|apply Loc_fuel].
  Qed.

  (** the tape-dependent side is rewritten using agreement on a first segment *)
  Lemma Loc_conv : forall {R} p0 p1 (gp : R -> nat) o o' o'2,
    (p0 <= p1)%nat -> (agree tp tp' p0 p1 -> o' = o'2) -> Loc p1 gp o o'2 -> Loc p0 gp o o'.
  Proof.
    intros R p0 p1 gp o o' o'2 Hle Hc [H Hf]. split.
    - intros r E. destruct (H r E) as [Hle2 Hi]. split; [lia|]. intro Hag.
      rewrite Hc by (eapply agree_sub; [exact Hag|lia|lia]).
      apply Hi. eapply agree_sub; [exact Hag|lia|lia].
    - intro Hag. rewrite Hc by (eapply agree_from_agree; [exact Hag|lia]).
      apply Hf. eapply agree_from_sub; [exact Hag|exact Hle].
  Qed.

  (** change of start position / projection up to provable equality *)
  Lemma Loc_start : forall {R} p0 p0' (gp : R -> nat) o o',
    p0 = p0' -> Loc p0' gp o o' -> Loc p0 gp o o'.
  Proof. intros; subst; assumption. Qed.

  Lemma Loc_weaken : forall {R} p0 p1 (gp : R -> nat) o o',
    (p0 <= p1)%nat -> Loc p1 gp o o' -> Loc p0 gp o o'.
  Proof. intros R p0 p1 gp o o' Hle H. apply (Loc_conv p0 p1 gp o o' o'); auto. Qed.

  (** one sampler step: [E : samp tp p a = (v, q)], [L] the sampler's locality lemma *)
  Ltac samp_step E L :=
    let Hle := fresh "Hle" in let Hi := fresh "Hi" in let Hag := fresh "Hag" in
    let Ht := fresh "Ht" in
    pose proof E as Ht; apply L in Ht; destruct Ht as [Hle Hi];
    match type of E with _ = (_, ?q) => match goal with
    | |- Loc ?p0 _ _ _ =>
        eapply (Loc_conv p0 q);
        [ | intro Hag; rewrite Hi by (eapply agree_sub; [exact Hag|pl|pl]); reflexivity
          | cbn beta iota ]; [pl|]
    end end.

  (** ** schedule_action *)
  Lemma schedule_action_loc : forall c s mi stidx,
    Loc (pos s) pos (schedule_action c tp s mi stidx) (schedule_action c tp' s mi stidx).
  Proof.
    intros c s mi stidx. unfold schedule_action.
    apply Loc_bind_pure; intros m Em. apply Loc_bind_pure; intros st0 Est.
    apply Loc_bind_pure; intros sl Esl.
    destruct (saction st0) as [[t|b r t l|b r t d l|r d l]|].
    - apply Loc_ret; pl.
    - destruct (sample_day_clamped tp _ t) as [v q] eqn:E1.
      samp_step E1 sample_day_clamped_loc. apply Loc_ret; pl.
    - destruct (sample_day_clamped tp _ t) as [v q] eqn:E1.
      samp_step E1 sample_day_clamped_loc.
      destruct (sample_day_clamped tp q d) as [v2 q2] eqn:E2.
      samp_step E2 sample_day_clamped_loc. apply Loc_ret; pl.
    - destruct (sample_day_clamped tp _ d) as [v q] eqn:E1.
      samp_step E1 sample_day_clamped_loc. apply Loc_ret; pl.
    - apply Loc_ret; pl.
  Qed.

  (** ** update_counter *)
  Ltac ctr_step sc :=
    let cn := fresh "cn" in let chg := fresh "chg" in let q := fresh "q" in let Es := fresh "Es" in
    destruct sc as [cn|];
    [ destruct (ccopy cn);
      [ | match goal with
          | |- context [sample_value tp ?p cn] =>
              destruct (sample_value tp p cn) as [chg q] eqn:Es; samp_step Es sample_value_loc
          end ];
      cbn beta iota zeta;
      match goal with |- context [if ?b then (_, _, true) else _] => destruct b end
    | ]; cbn beta iota zeta.

  Ltac uc_tail Htr :=
    cbn beta iota zeta; cbn [orb];
    first [ apply Loc_ret; pl
          | match goal with
            | |- Loc _ _ (bind (_ ?s1 _ _) _) _ =>
                apply (Loc_weaken _ (pos s1)); [pl|];
                eapply Loc_bind; [apply Htr|];
                let s2 := fresh "s2" in let ch := fresh "ch" in let E2 := fresh "E2" in
                let sl := fresh "sl" in let Esl := fresh "Esl" in
                intros [s2 ch] E2; cbn beta iota; apply Loc_bind_pure; intros sl Esl;
                apply Loc_ret; pl
            end ].

  Lemma update_counter_loc : forall (trans trans' : fstate -> nat -> event -> outcome (fstate * bool)) c s mi,
    (forall s1, Loc (pos s1) (fun r => pos (fst r)) (trans s1 mi CounterZero) (trans' s1 mi CounterZero)) ->
    Loc (pos s) (fun r => pos (fst (fst r)))
        (update_counter trans c tp s mi) (update_counter trans' c tp' s mi).
  Proof.
    intros trans trans' c s mi Htr. unfold update_counter.
    apply Loc_bind_pure; intros m Em. apply Loc_bind_pure; intros r Er.
    apply Loc_bind_pure; intros st Est.
    ctr_step (sctr_a st); ctr_step (sctr_b st); uc_tail Htr.
  Qed.

  (** ** transition *)
  Lemma transition_loc : forall fuel c s mi ev,
    Loc (pos s) (fun r => pos (fst r)) (transition fuel c tp s mi ev) (transition fuel c tp' s mi ev).
  Proof.
    induction fuel as [|fuel IH]; intros c s mi ev; [apply Loc_fuel|].
    cbn [transition].
    apply Loc_bind_pure; intros r Er.
    destruct (cur r =? STATE_END); [apply Loc_ret; pl|].
    apply Loc_bind_pure; intros m Em. apply Loc_bind_pure; intros st Est.
    destruct (sample_state tp _ st ev) as [nxt p] eqn:Es. samp_step Es sample_state_loc.
    destruct nxt as [ns|]; [|apply Loc_ret; pl].
    destruct (ns =? STATE_END); [apply Loc_ret; pl|].
    destruct (ns =? STATE_SIGNAL); [apply Loc_ret; pl|].
    eapply Loc_bind with (gp1 := pos).
    - destruct (negb (cur r =? ns)); [|apply Loc_ret; pl].
      apply Loc_bind_pure; intros nst Enst. destruct (saction nst) as [a|].
      + destruct (sample_limit tp _ a) as [l q] eqn:El. samp_step El sample_limit_loc.
        apply Loc_ret; pl.
      + apply Loc_ret; pl.
    - intros s2 E2. cbn beta.
      apply Loc_bind_pure; intros r1 Er1. apply Loc_bind_pure; intros below Ebel.
      eapply Loc_bind; [apply update_counter_loc; intro s1; apply IH|].
      intros [[s5 allow] chg] Euc. cbn beta iota. cbn [fst snd].
      eapply Loc_bind with (gp1 := pos);
        [destruct (allow && below); [apply schedule_action_loc|apply Loc_ret; pl]|].
      intros s6 Esch. cbn beta. apply Loc_bind_pure; intros r2 Er2. apply Loc_ret; pl.
  Qed.

  (** apply a locality lemma [L] whose start position is only convertible /
      provably below the current one *)
  Ltac lapp L := (eapply Loc_weaken; [|apply L]); [pl].
  Ltac lbind L := eapply Loc_bind; [lapp L|].
  Ltac tr_bind :=
    let s2 := fresh "s2" in let b := fresh "b" in let E := fresh "Etr" in
    lbind transition_loc; intros [s2 b] E; cbn beta iota; cbn [fst snd].

  (** ** decrement_limit, trans_dec *)
  Lemma decrement_limit_loc : forall c s mi,
    Loc (pos s) pos (decrement_limit c tp s mi) (decrement_limit c tp' s mi).
  Proof.
    intros c s mi. unfold decrement_limit.
    apply Loc_bind_pure; intros r Er. cbn zeta.
    apply Loc_bind_pure; intros m Em. apply Loc_bind_pure; intros st Est.
    destruct (saction st) as [a|]; [|apply Loc_ret; pl].
    match goal with |- Loc _ _ (if ?b then _ else _) _ => destruct b end; [|apply Loc_ret; pl].
    tr_bind. apply Loc_ret; pl.
  Qed.

  Lemma trans_dec_loc : forall c s mi ev dec,
    Loc (pos s) pos (trans_dec c tp s mi ev dec) (trans_dec c tp' s mi ev dec).
  Proof.
    intros c s mi ev dec. unfold trans_dec. tr_bind.
    apply Loc_bind_pure; intros r Er.
    match goal with |- Loc _ _ (if ?b then _ else _) _ => destruct b end;
      [apply decrement_limit_loc|apply Loc_ret; pl].
  Qed.

  (** ** the loops over machines *)
  Lemma trans_all_loc : forall c ev k from s,
    Loc (pos s) pos (trans_all c tp ev k from s) (trans_all c tp' ev k from s).
  Proof.
    induction k as [|k IH]; intros from s; cbn [trans_all]; [apply Loc_ret; lia|].
    tr_bind. apply IH.
  Qed.

  Lemma blocking_begin_all_loc : forall c target k from s,
    Loc (pos s) pos (blocking_begin_all c tp target k from s) (blocking_begin_all c tp' target k from s).
  Proof.
    induction k as [|k IH]; intros from s; cbn [blocking_begin_all]; [apply Loc_ret; lia|].
    lbind trans_dec_loc. intros s1 E. apply IH.
  Qed.

  Lemma normal_sent_all_loc : forall c k from s,
    Loc (pos s) pos (normal_sent_all c tp k from s) (normal_sent_all c tp' k from s).
  Proof.
    induction k as [|k IH]; intros from s; cbn [normal_sent_all]; [apply Loc_ret; lia|].
    apply Loc_bind_pure; intros r Er. tr_bind. apply IH.
  Qed.

  Lemma blocking_end_all_loc : forall c blocked k from s,
    Loc (pos s) pos (blocking_end_all c tp blocked k from s) (blocking_end_all c tp' blocked k from s).
  Proof.
    induction k as [|k IH]; intros from s; cbn [blocking_end_all]; [apply Loc_ret; lia|].
    apply Loc_bind_pure; intros r Er. apply Loc_bind_pure; intros s0 E0.
    assert (Hp : pos s0 = pos s).
    { destruct (negb (blocked =? 0)); [mbind E0 as d Ed|]; inversion E0; reflexivity. }
    tr_bind. apply IH.
  Qed.

  (** ** process_event *)
  Lemma process_event_loc : forall c s e,
    Loc (pos s) pos (process_event c tp s e) (process_event c tp' s e).
  Proof.
    intros c s e. unfold process_event. destruct e as [ | | | |m| |m| |m|m].
    - apply trans_all_loc.
    - apply trans_all_loc.
    - apply trans_all_loc.
    - lapp normal_sent_all_loc.
    - destruct (N.of_nat (nmach s) <=? m); [apply Loc_ret; pl|].
      apply Loc_bind_pure; intros r Er. lapp trans_dec_loc.
    - apply trans_all_loc.
    - destruct (bactive s); lapp blocking_begin_all_loc.
    - apply Loc_bind_pure; intros [s0 b] E0.
      assert (Hp : pos s0 = pos s).
      { destruct (bactive s); [mbind E0 as g Eg|]; inversion E0; reflexivity. }
      lapp blocking_end_all_loc.
    - destruct (N.of_nat (nmach s) <=? m); [apply Loc_ret; pl|]. lapp trans_dec_loc.
    - destruct (N.of_nat (nmach s) <=? m); [apply Loc_ret; pl|]. tr_bind. apply Loc_ret; pl.
  Qed.

  Lemma events_loc : forall c evs s,
    Loc (pos s) pos (foldM (process_event c tp) evs s) (foldM (process_event c tp') evs s).
  Proof.
    induction evs as [|e evs IH]; intros s; cbn [foldM]; [apply Loc_ret; lia|].
    lbind process_event_loc. intros s1 E. apply IH.
  Qed.

  (** ** signal round *)
  Lemma signal_all_loc : forall c excluded k from s,
    Loc (pos s) pos (signal_all c tp excluded k from s) (signal_all c tp' excluded k from s).
  Proof.
    induction k as [|k IH]; intros from s; cbn [signal_all]; [apply Loc_ret; lia|].
    eapply Loc_bind with (gp1 := pos); [|intros s1 E; apply IH].
    match goal with |- Loc _ _ (if ?b then _ else _) _ => destruct b end; [apply Loc_ret; pl|].
    tr_bind. apply Loc_ret; pl.
  Qed.

  Lemma signal_round_loc : forall c s,
    Loc (pos s) pos (signal_round c tp s) (signal_round c tp' s).
  Proof.
    intros c s. unfold signal_round. destruct (sigp s) as [g|]; [|apply Loc_ret; pl].
    cbn zeta. lbind signal_all_loc. intros s1 E1. cbn beta.
    eapply Loc_bind with (gp1 := pos); [|intros s2 E2; apply Loc_ret; pl].
    destruct (sigp s1) as [g1|]; [|apply Loc_ret; pl].
    destruct g as [|x]; [apply Loc_ret; pl|].
    tr_bind. apply Loc_ret; pl.
  Qed.

  (** ** trigger_events, Framework::new, histories *)
  Lemma trigger_events_loc : forall c s evs t,
    Loc (pos s) (fun r => pos (fst r)) (trigger_events c tp s evs t) (trigger_events c tp' s evs t).
  Proof.
    intros c s evs t. unfold trigger_events. cbn zeta.
    lbind events_loc. intros s1 E1. lbind signal_round_loc. intros s2 E2. apply Loc_ret; pl.
  Qed.

  Lemma init_rts_loc : forall ms p,
    Loc p snd (init_rts tp p ms) (init_rts tp' p ms).
  Proof.
    induction ms as [|m ms IH]; intros p; cbn [init_rts]; [apply Loc_ret; pl|].
    apply Loc_bind_pure; intros st0 Est.
    destruct (saction st0) as [a|].
    - destruct (sample_limit tp p a) as [l q] eqn:El. samp_step El sample_limit_loc.
      eapply Loc_bind; [apply IH|]. intros [rs p2] E. apply Loc_ret; pl.
    - eapply Loc_bind; [apply IH|]. intros [rs p2] E. apply Loc_ret; pl.
  Qed.

  Lemma fnew_loc : forall c t0, Loc 0%nat pos (fnew c tp t0) (fnew c tp' t0).
  Proof.
    intros c t0. unfold fnew. eapply Loc_bind; [apply init_rts_loc|].
    intros [rs p] E. apply Loc_ret; pl.
  Qed.

  Lemma run_loc : forall c h s,
    Loc (pos s) (fun r => pos (fst r)) (run c tp s h) (run c tp' s h).
  Proof.
    induction h as [|[evs t] h IH]; intros s; cbn [run]; [apply Loc_ret; pl|].
    eapply Loc_bind; [apply trigger_events_loc|]. intros [s1 acts] E. cbn beta iota. cbn [fst].
    eapply Loc_bind; [apply IH|]. intros [s2 rest] E2. apply Loc_ret; pl.
  Qed.

End Local.

(** ** the theorems *)

(** positions only grow *)
Theorem trigger_events_pos_mono : forall c tp s evs t s' acts,
  trigger_events c tp s evs t = Ok (s', acts) -> (pos s <= pos s')%nat.
Proof.
  intros c tp s evs t s' acts H.
  destruct (trigger_events_loc tp tp c s evs t) as [Hok _]. apply (Hok _ H).
Qed.

Theorem process_event_pos_mono : forall c tp s e s',
  process_event c tp s e = Ok s' -> (pos s <= pos s')%nat.
Proof.
  intros c tp s e s' H. destruct (process_event_loc tp tp c s e) as [Hok _]. apply (Hok _ H).
Qed.

Theorem transition_pos_mono : forall fuel c tp s mi ev s' b,
  transition fuel c tp s mi ev = Ok (s', b) -> (pos s <= pos s')%nat.
Proof.
  intros fuel c tp s mi ev s' b H.
  destruct (transition_loc tp tp fuel c s mi ev) as [Hok _]. apply (Hok _ H).
Qed.

Theorem run_pos_mono : forall c tp h s s' outs,
  run c tp s h = Ok (s', outs) -> (pos s <= pos s')%nat.
Proof.
  intros c tp h s s' outs H. destruct (run_loc tp tp c h s) as [Hok _]. apply (Hok _ H).
Qed.

(** the result depends on the tape only through the consumed segment *)
Theorem trigger_events_tape_local : forall c tp tp' s evs t s' acts,
  trigger_events c tp s evs t = Ok (s', acts) ->
  agree tp tp' (pos s) (pos s') ->
  trigger_events c tp' s evs t = Ok (s', acts).
Proof.
  intros c tp tp' s evs t s' acts H Hag.
  destruct (trigger_events_loc tp tp' c s evs t) as [Hok _]. apply (Hok _ H). exact Hag.
Qed.

Theorem process_event_tape_local : forall c tp tp' s e s',
  process_event c tp s e = Ok s' -> agree tp tp' (pos s) (pos s') ->
  process_event c tp' s e = Ok s'.
Proof.
  intros c tp tp' s e s' H Hag.
  destruct (process_event_loc tp tp' c s e) as [Hok _]. apply (Hok _ H). exact Hag.
Qed.

Theorem transition_tape_local : forall fuel c tp tp' s mi ev s' b,
  transition fuel c tp s mi ev = Ok (s', b) -> agree tp tp' (pos s) (pos s') ->
  transition fuel c tp' s mi ev = Ok (s', b).
Proof.
  intros fuel c tp tp' s mi ev s' b H Hag.
  destruct (transition_loc tp tp' fuel c s mi ev) as [Hok _]. apply (Hok _ H). exact Hag.
Qed.

(** Framework::new and whole histories *)
Theorem fnew_tape_local : forall c tp tp' t0 s,
  fnew c tp t0 = Ok s -> agree tp tp' 0 (pos s) -> fnew c tp' t0 = Ok s.
Proof.
  intros c tp tp' t0 s H Hag. destruct (fnew_loc tp tp' c t0) as [Hok _]. apply (Hok _ H). exact Hag.
Qed.

Theorem run_tape_local : forall c tp tp' h s s' outs,
  run c tp s h = Ok (s', outs) -> agree tp tp' (pos s) (pos s') -> run c tp' s h = Ok (s', outs).
Proof.
  intros c tp tp' h s s' outs H Hag.
  destruct (run_loc tp tp' c h s) as [Hok _]. apply (Hok _ H). exact Hag.
Qed.

(** a whole life of the framework, from [Framework::new] on: the outputs are
    a function of the configuration, the inputs and the prefix [0, pos) of the
    random stream that was consumed *)
Theorem life_tape_local : forall c tp tp' t0 h s0 s' outs,
  fnew c tp t0 = Ok s0 -> run c tp s0 h = Ok (s', outs) ->
  agree tp tp' 0 (pos s') ->
  fnew c tp' t0 = Ok s0 /\ run c tp' s0 h = Ok (s', outs).
Proof.
  intros c tp tp' t0 h s0 s' outs Hn Hr Hag.
  pose proof (run_pos_mono _ _ _ _ _ _ Hr) as Hle.
  destruct (agree_split _ _ _ _ _ Hag (conj (Nat.le_0_l (pos s0)) Hle)) as [H1 H2]. split.
  - eapply fnew_tape_local; eassumption.
  - eapply run_tape_local; eassumption.
Qed.

(** the consumed segments of successive calls are adjacent and in order: a
    history h1 ++ h2 consumes [pos s, pos s1) for h1 and then [pos s1, pos s2) for h2 *)
Theorem run_app_segments : forall c tp tp' s h1 h2 s1 o1 s2 o2,
  run c tp s h1 = Ok (s1, o1) -> run c tp s1 h2 = Ok (s2, o2) ->
  (pos s <= pos s1 <= pos s2)%nat /\
  (agree tp tp' (pos s) (pos s1) -> run c tp' s h1 = Ok (s1, o1)) /\
  (agree tp tp' (pos s1) (pos s2) -> run c tp' s1 h2 = Ok (s2, o2)).
Proof.
  intros c tp tp' s h1 h2 s1 o1 s2 o2 H1 H2.
  pose proof (run_pos_mono _ _ _ _ _ _ H1). pose proof (run_pos_mono _ _ _ _ _ _ H2).
  split; [lia|]. split; intro Hag; eapply run_tape_local; eassumption.
Qed.

(** failing outcomes (panic, fuel exhaustion) are local too: whatever the
    outcome on [tp], a tape that agrees with [tp] from the start position on
    gives the same outcome (nothing before [pos s] is ever read) *)
Theorem trigger_events_tape_suffix : forall c tp tp' s evs t,
  agree_from tp tp' (pos s) -> trigger_events c tp' s evs t = trigger_events c tp s evs t.
Proof. intros c tp tp' s evs t Hag. destruct (trigger_events_loc tp tp' c s evs t) as [_ Hf]. auto. Qed.

Theorem run_tape_suffix : forall c tp tp' h s,
  agree_from tp tp' (pos s) -> run c tp' s h = run c tp s h.
Proof. intros c tp tp' h s Hag. destruct (run_loc tp tp' c h s) as [_ Hf]. auto. Qed.

Theorem transition_tape_suffix : forall fuel c tp tp' s mi ev,
  agree_from tp tp' (pos s) -> transition fuel c tp' s mi ev = transition fuel c tp s mi ev.
Proof.
  intros fuel c tp tp' s mi ev Hag. destruct (transition_loc tp tp' fuel c s mi ev) as [_ Hf]. auto.
Qed.

Theorem fnew_tape_ext : forall c tp tp' t0,
  (forall p, tp' p = tp p) -> fnew c tp' t0 = fnew c tp t0.
Proof.
  intros c tp tp' t0 Hag. destruct (fnew_loc tp tp' c t0) as [_ Hf]. apply Hf.
  intros p _. apply Hag.
Qed.

Print Assumptions trigger_events_pos_mono.
Print Assumptions trigger_events_tape_local.
Print Assumptions fnew_tape_local.
Print Assumptions run_tape_local.
Print Assumptions life_tape_local.
Print Assumptions trigger_events_tape_suffix.
Print Assumptions run_tape_suffix.
