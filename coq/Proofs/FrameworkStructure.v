(** Structural facts about the framework model: unfolding lemmas, tape
    positions only grow, and a generic "preorder" lemma: any relation between
    the state before and after that is a preorder and is preserved by the
    primitive updates a machine step can make is preserved by [transition],
    [decrement_limit] and friends. Most frame properties are instances. *)
From MB Require Import Model.Framework Proofs.Tactics Proofs.ListFacts.
Open Scope N_scope.

Lemma trigger_events_unfold : forall c tp s evs t,
  trigger_events c tp s evs t =
  (s1 <- foldM (process_event c tp) evs (begin_call s t) ;;
   s2 <- signal_round c tp s1 ;;
   Ok (s2, collect_actions (slots s2))).
Proof. reflexivity. Qed.

Lemma foldM_app : forall {A B} (f : A -> B -> outcome A) l1 l2 a,
  foldM f (l1 ++ l2) a = (a1 <- foldM f l1 a ;; foldM f l2 a1).
Proof.
  intros A B f l1; induction l1 as [|b l1 IH]; intros l2 a; cbn [foldM app bind]; [reflexivity|].
  destruct (f a b) as [a'| |]; cbn [bind]; auto.
Qed.

Lemma foldM_app_process : forall c tp evs1 evs2 s,
  foldM (process_event c tp) (evs1 ++ evs2) s =
  (s1 <- foldM (process_event c tp) evs1 s ;; foldM (process_event c tp) evs2 s1).
Proof. intros; apply foldM_app. Qed.

Lemma trans_all_unfold : forall c tp ev k from s,
  trans_all c tp ev (S k) from s =
  ('(s1, _) <- transition FUEL c tp s from ev ;; trans_all c tp ev k (S from) s1).
Proof. reflexivity. Qed.

Lemma run_clone : forall c tp s1 s2 h, s1 = s2 -> run c tp s1 h = run c tp s2 h.
Proof. intros; subst; reflexivity. Qed.

(** ** tape positions only grow *)
Lemma dist_sample_pos : forall tp p d v p', dist_sample tp p d = (v, p') -> p' = S p.
Proof.
  unfold dist_sample; intros tp p d v p' H.
  destruct (dtype d); try (inversion H; reflexivity).
  destruct (feq _ _); inversion H; reflexivity.
Qed.

Lemma dist_sample_clamped_pos : forall tp p d v p', dist_sample_clamped tp p d = (v, p') -> p' = S p.
Proof.
  unfold dist_sample_clamped; intros tp p d v p' H.
  destruct (dist_sample tp p d) as [raw q] eqn:E. apply dist_sample_pos in E.
  destruct (fgt _ _); inversion H; subst; reflexivity.
Qed.

Lemma sample_day_clamped_pos : forall tp p d v p', sample_day_clamped tp p d = (v, p') -> p' = S p.
Proof.
  unfold sample_day_clamped; intros tp p d v p' H.
  destruct (dist_sample_clamped tp p d) as [x q] eqn:E. apply dist_sample_clamped_pos in E.
  inversion H; subst; reflexivity.
Qed.

Lemma sample_limit_pos : forall tp p a v p', sample_limit tp p a = (v, p') -> (p <= p')%nat.
Proof.
  unfold sample_limit; intros tp p a v p' H.
  destruct a as [t|b r t [l|]|b r t d [l|]|r d [l|]]; try (inversion H; subst; lia);
    destruct (dist_sample_clamped tp p l) as [x q] eqn:E; apply dist_sample_clamped_pos in E;
    inversion H; subst; lia.
Qed.

Lemma sample_value_pos : forall tp p cn v p', sample_value tp p cn = (v, p') -> (p <= p')%nat.
Proof.
  unfold sample_value; intros tp p cn v p' H. destruct (cdist cn) as [d|].
  - destruct (dist_sample_clamped tp p d) as [x q] eqn:E. apply dist_sample_clamped_pos in E.
    inversion H; subst; lia.
  - inversion H; subst; lia.
Qed.

Lemma sample_state_pos : forall tp p st ev v p', sample_state tp p st ev = (v, p') -> (p <= p')%nat.
Proof.
  unfold sample_state; intros tp p st ev v p' H.
  destruct (nth_error (strans st) (event_idx ev)) as [[l|]|]; inversion H; subst; lia.
Qed.

(** ** what [schedule_action] writes into a slot *)
Definition action_shape (oa : option action) (ta : taction) : Prop :=
  match oa, ta with
  | Some (Cancel t), TCancel _ t' => t = t'
  | Some (SendPadding b r _ _), TSendPadding _ _ b' r' => b = b' /\ r = r'
  | Some (BlockOutgoing b r _ _ _), TBlockOutgoing _ _ _ b' r' => b = b' /\ r = r'
  | Some (UpdateTimer r _ _), TUpdateTimer _ _ r' => r = r'
  | _, _ => False
  end.

(** every timeout / duration is the clock image of a sampled value clamped to
    one day by [sample_day_clamped] *)
Definition day_sample (c : cfg) (v : N) : Prop :=
  exists tp p d, v = c_from_micros (clk c) (fst (sample_day_clamped tp p d)).

Definition ta_durations (c : cfg) (ta : taction) : Prop :=
  match ta with
  | TCancel _ _ => True
  | TSendPadding _ t _ _ => day_sample c t
  | TBlockOutgoing _ t d _ _ => day_sample c t /\ day_sample c d
  | TUpdateTimer _ d _ => day_sample c d
  end.

Definition sched_ok (c : cfg) (mi : nat) (a : option taction) : Prop :=
  match a with
  | None => True
  | Some ta =>
      taction_machine ta = N.of_nat mi /\
      ta_durations c ta /\
      exists m st, nth_error (machines c) mi = Some m /\ In st (states m) /\
                   action_shape (saction st) ta
  end.

(** a machine step never touches the accounting fields of a runtime *)
Definition same_acct (r r' : mrt) : Prop :=
  psent r' = psent r /\ nsent r' = nsent r /\ bdur r' = bdur r.

Lemma same_acct_refl : forall r, same_acct r r.
Proof. unfold same_acct; auto. Qed.

Lemma same_acct_trans : forall r1 r2 r3, same_acct r1 r2 -> same_acct r2 r3 -> same_acct r1 r3.
Proof. unfold same_acct; intros r1 r2 r3 (A & B & C) (D & E & F). repeat split; congruence. Qed.

Ltac sa := unfold same_acct; cbn; auto.

(** unset zeroed-once flags of a runtime *)
Definition zc_rt (r : mrt) : N := (if za r then 0 else 1) + (if zb r then 0 else 1).
Definition flags_mono (r r' : mrt) : Prop :=
  (za r = true -> za r' = true) /\ (zb r = true -> zb r' = true).

(** ** the generic preorder lemma *)
Section PreciseSteps.
  (** the precise version: the hypotheses name exactly the kinds of update a
      machine step performs on machine [mi]'s runtime *)
  Variable c : cfg.
  Variable tp : tape.
  Variable R : nat -> fstate -> fstate -> Prop.
  Hypothesis R_refl : forall mi s, R mi s s.
  Hypothesis R_trans : forall mi s1 s2 s3, R mi s1 s2 -> R mi s2 s3 -> R mi s1 s3.
  (** log entries other than the two that carry meaning for limits *)
  Hypothesis R_log : forall mi s e,
    fst (fst e) <> LOG_DEC -> fst (fst e) <> LOG_CHANGE ->
    fst (fst e) <> LOG_SIGSET -> fst (fst e) <> LOG_SIGDELIVER -> fst (fst e) <> LOG_CZERO ->
    R mi s (add_log s e).
  Hypothesis R_step : forall mi s, R mi s (add_step s).
  Hypothesis R_pos : forall mi s p, (pos s <= p)%nat -> R mi s (set_pos s p).
  (** the machine ends *)
  Hypothesis R_end : forall mi s r,
    nth_error (rts s) mi = Some r -> R mi s (set_rt s mi (rt_set_cur r STATE_END (lim r))).
  (** the machine changes to a different state, sampling a fresh limit *)
  Hypothesis R_change : forall mi s r ns l p,
    nth_error (rts s) mi = Some r -> cur r <> ns -> (pos s <= p)%nat ->
    R mi s (set_pos (set_rt (add_log s (LOG_CHANGE, N.of_nat mi, ns)) mi (rt_set_cur r ns l)) p).
  (** counters are updated without reaching zero: state, limit, accounting
      fields and zeroed-once flags untouched *)
  Hypothesis R_ctr : forall mi s r r' p,
    nth_error (rts s) mi = Some r -> cur r' = cur r -> lim r' = lim r -> same_acct r r' ->
    za r' = za r -> zb r' = zb r -> (pos s <= p)%nat ->
    R mi s (set_pos (set_rt s mi r') p).
  (** a counter goes from non-zero to zero for the first time in this call:
      at least one zeroed-once flag is newly set, CounterZero is raised *)
  Hypothesis R_czero : forall mi s r r' p,
    nth_error (rts s) mi = Some r -> cur r' = cur r -> lim r' = lim r -> same_acct r r' ->
    flags_mono r r' -> zc_rt r' < zc_rt r -> (pos s <= p)%nat ->
    R mi s (add_log (set_pos (set_rt s mi r') p) (LOG_CZERO, N.of_nat mi, 0)).
  (** the limit is decremented (floored at zero) *)
  Hypothesis R_dec : forall mi s r,
    nth_error (rts s) mi = Some r ->
    R mi s (set_rt (add_log s (LOG_DEC, N.of_nat mi, 0)) mi
                   (if 0 <? lim r then rt_set_lim r (lim r - 1) else r)).
  Hypothesis R_slot : forall mi s a, sched_ok c mi a -> R mi s (set_slot s mi a).
  (** the machine signals *)
  Hypothesis R_sigset : forall mi s,
    R mi s (set_sigp (add_log s (LOG_SIGSET, N.of_nat mi, 0)) (Some (sig_join (sigp s) mi))).

  Ltac rlog_side := let Hc := fresh in (intro Hc; vm_compute in Hc; discriminate Hc).
  (* first the log entry [E], then the rest *)
  Ltac rlogthen E := eapply R_trans; [apply (fun mi s => R_log mi s E); rlog_side|].
  (* the rest first, the log entry [E] last *)
  Ltac thenrlog E := eapply R_trans; [|apply (fun mi s => R_log mi s E); rlog_side].

  Lemma schedule_action_P : forall s mi st s',
    schedule_action c tp s mi st = Ok s' -> R mi s s'.
  Proof.
    unfold schedule_action; intros s mi st s' H.
    mbind H as m Em. mbind H as st0 Est. mbind H as sl Esl.
    apply get_ok in Em. apply getN_ok in Est. apply nthN_In in Est.
    assert (Hok : forall ta, taction_machine ta = N.of_nat mi -> ta_durations c ta ->
                             action_shape (saction st0) ta -> sched_ok c mi (Some ta)).
    { intros ta H1 H2 H3. split; [exact H1|]. split; [exact H2|]. exists m, st0. auto. }
    destruct (saction st0) as [[t|b r t l|b r t d l|r d l]|] eqn:Ea.
    - inversion H; subst. rlogthen (LOG_SCHED, N.of_nat mi, st). apply R_slot.
      apply Hok; cbn; auto.
    - destruct (sample_day_clamped tp (pos (add_log s (LOG_SCHED, N.of_nat mi, st))) t) as [v p] eqn:E1.
      pose proof (sample_day_clamped_pos _ _ _ _ _ E1) as Hp. inversion H; subst.
      rlogthen (LOG_SCHED, N.of_nat mi, st). eapply R_trans; [apply R_pos|apply R_slot]; [cbn; lia|].
      apply Hok; cbn; auto. do 3 eexists. rewrite E1. reflexivity.
    - destruct (sample_day_clamped tp (pos (add_log s (LOG_SCHED, N.of_nat mi, st))) t) as [v p] eqn:E1.
      destruct (sample_day_clamped tp p d) as [v2 p2] eqn:E2.
      pose proof (sample_day_clamped_pos _ _ _ _ _ E1) as Hp.
      pose proof (sample_day_clamped_pos _ _ _ _ _ E2) as Hp2. inversion H; subst.
      rlogthen (LOG_SCHED, N.of_nat mi, st). eapply R_trans; [apply R_pos|apply R_slot]; [cbn; lia|].
      apply Hok; cbn; auto. split; do 3 eexists; [rewrite E1|rewrite E2]; reflexivity.
    - destruct (sample_day_clamped tp (pos (add_log s (LOG_SCHED, N.of_nat mi, st))) d) as [v p] eqn:E1.
      pose proof (sample_day_clamped_pos _ _ _ _ _ E1) as Hp. inversion H; subst.
      rlogthen (LOG_SCHED, N.of_nat mi, st). eapply R_trans; [apply R_pos|apply R_slot]; [cbn; lia|].
      apply Hok; cbn; auto. do 3 eexists. rewrite E1. reflexivity.
    - inversion H; subst. rlogthen (LOG_SCHED, N.of_nat mi, st). apply R_slot. exact I.
  Qed.

  Lemma update_counter_P : forall (trans : fstate -> nat -> event -> outcome (fstate * bool)) s mi s' al ch,
    (forall s1 s2 b, trans s1 mi CounterZero = Ok (s2, b) -> R mi s1 s2) ->
    update_counter trans c tp s mi = Ok (s', al, ch) -> R mi s s'.
  Proof.
    unfold update_counter; intros trans s mi s' al ch Htr H.
    mbind H as m Em. mbind H as r Er. mbind H as st Est. apply get_ok in Er.
    set (XA := match sctr_a st with
               | Some cn => _
               | None => (r, pos s, false)
               end) in H.
    assert (HA : (pos s <= snd (fst XA))%nat /\ same_acct r (fst (fst XA))
                 /\ cur (fst (fst XA)) = cur r /\ lim (fst (fst XA)) = lim r
                 /\ zb (fst (fst XA)) = zb r
                 /\ (if snd XA then za r = false /\ za (fst (fst XA)) = true
                     else za (fst (fst XA)) = za r)).
    { subst XA. destruct (sctr_a st) as [cn|]; [|cbn; repeat split; solve [lia | reflexivity | auto]].
      destruct (ccopy cn).
      - destruct (negb (ca r =? 0) && (apply_op (cop cn) (ca r) (cb r) =? 0) && negb (za r)) eqn:Ez; cbn;
          (repeat split; try solve [lia | reflexivity | auto]).
        apply andb_prop in Ez. destruct Ez as [_ Ez]. destruct (za r); [discriminate|reflexivity].
      - destruct (sample_value tp (pos s) cn) as [chg p] eqn:Es. apply sample_value_pos in Es.
        destruct (negb (ca r =? 0) && (apply_op (cop cn) (ca r) chg =? 0) && negb (za r)) eqn:Ez; cbn;
          (repeat split; try solve [lia | reflexivity | auto]).
        apply andb_prop in Ez. destruct Ez as [_ Ez]. destruct (za r); [discriminate|reflexivity]. }
    destruct XA as [[rA pA] zA]. cbn [fst snd] in HA. destruct HA as (HA & HAs & HAc & HAl & HAb & HAz).
    set (XB := match sctr_b st with
               | Some cn => _
               | None => (rA, pA, false)
               end) in H.
    assert (HB : (pA <= snd (fst XB))%nat /\ same_acct rA (fst (fst XB))
                 /\ cur (fst (fst XB)) = cur rA /\ lim (fst (fst XB)) = lim rA
                 /\ za (fst (fst XB)) = za rA
                 /\ (if snd XB then zb rA = false /\ zb (fst (fst XB)) = true
                     else zb (fst (fst XB)) = zb rA)).
    { subst XB. destruct (sctr_b st) as [cn|]; [|cbn; repeat split; solve [lia | reflexivity | auto]].
      destruct (ccopy cn).
      - destruct (negb (cb r =? 0) && (apply_op (cop cn) (cb rA) (ca r) =? 0) && negb (zb rA)) eqn:Ez; cbn;
          (repeat split; try solve [lia | reflexivity | auto]).
        apply andb_prop in Ez. destruct Ez as [_ Ez]. destruct (zb rA); [discriminate|reflexivity].
      - destruct (sample_value tp pA cn) as [chg p] eqn:Es. apply sample_value_pos in Es.
        destruct (negb (cb r =? 0) && (apply_op (cop cn) (cb rA) chg =? 0) && negb (zb rA)) eqn:Ez; cbn;
          (repeat split; try solve [lia | reflexivity | auto]).
        apply andb_prop in Ez. destruct Ez as [_ Ez]. destruct (zb rA); [discriminate|reflexivity]. }
    destruct XB as [[rB pB] zB]. cbn [fst snd] in HB. destruct HB as (HB & HBs & HBc & HBl & HBa & HBz).
    assert (Hc : cur rB = cur r) by congruence.
    assert (Hl : lim rB = lim r) by congruence.
    assert (Hs : same_acct r rB) by (eapply same_acct_trans; eauto).
    assert (Hp : (pos s <= pB)%nat) by lia.
    destruct (zA || zB) eqn:Ezz.
    - mbind H as [s2 chg] E2. mbind H as sl Esl. inversion H; subst.
      apply Htr in E2. eapply R_trans; [|exact E2].
      apply (R_czero mi s r rB pB); auto.
      + unfold flags_mono. destruct zA, zB; cbn in Ezz; try discriminate;
          repeat match goal with Hx : _ /\ _ |- _ => destruct Hx end; split; intros; congruence.
      + unfold zc_rt. rewrite HBa.
        destruct zA, zB; cbn in Ezz; try discriminate;
          repeat match goal with Hx : _ /\ _ |- _ => destruct Hx end;
          repeat match goal with Hx : za _ = _ |- _ => rewrite Hx in * end;
          repeat match goal with Hx : zb _ = _ |- _ => rewrite Hx in * end;
          try (destruct (za r)); try (destruct (zb r)); try (destruct (zb rA)); cbn; lia.
    - assert (zA = false /\ zB = false) by (destruct zA, zB; cbn in Ezz; auto; discriminate).
      destruct H0 as [-> ->]. inversion H; subst.
      apply (R_ctr mi s r rB pB); auto; congruence.
  Qed.

  Lemma transition_P : forall fuel s mi ev s' b,
    transition fuel c tp s mi ev = Ok (s', b) -> R mi s s'.
  Proof.
    induction fuel as [|fuel IH]; intros s mi ev s' b H; [discriminate H|].
    cbn [transition] in H.
    set (s0 := add_step (add_log s (LOG_TRANS, N.of_nat mi, N.of_nat (event_idx ev)))) in H.
    assert (H0 : R mi s s0) by (subst s0; rlogthen (LOG_TRANS, N.of_nat mi, N.of_nat (event_idx ev)); apply R_step).
    mbind H as r Er. apply get_ok in Er.
    destruct (cur r =? STATE_END) eqn:Eend; [inversion H; subst; exact H0|].
    mbind H as m Em. mbind H as st Est.
    destruct (sample_state tp (pos s0) st ev) as [nxt p] eqn:Es. apply sample_state_pos in Es.
    assert (H1 : R mi s (set_pos s0 p)) by (eapply R_trans; [exact H0|apply R_pos; exact Es]).
    destruct nxt as [ns|]; [|inversion H; subst; exact H1].
    set (s1 := add_log (set_pos s0 p) (LOG_NEXT, N.of_nat mi, ns)) in H.
    assert (H2 : R mi s s1) by (subst s1; eapply R_trans; [exact H1|]; rlogthen (LOG_NEXT, N.of_nat mi, ns); apply R_refl).
    destruct (ns =? STATE_END) eqn:Ens;
      [inversion H; subst; eapply R_trans; [exact H2|apply (R_end mi s1 r); exact Er]|].
    destruct (ns =? STATE_SIGNAL) eqn:Esg;
      [inversion H; subst; eapply R_trans; [exact H2|exact (R_sigset mi s1)]|].
    mbind H as s2 E2.
    assert (H3 : R mi s s2).
    { destruct (N.eqb_spec (cur r) ns) as [Heq|Hneq]; cbn [negb] in E2; [inversion E2; subst; exact H2|].
      mbind E2 as nst Enst.
      destruct (match saction nst with Some a4 => sample_limit tp (pos s1) a4 | None => (STATE_LIMIT_MAX, pos s1) end) as [l q] eqn:El.
      assert (Hq : (pos s1 <= q)%nat).
      { destruct (saction nst); [apply sample_limit_pos in El; exact El|injection El as _ Hq'; rewrite <- Hq'; apply le_n]. }
      inversion E2; subst. eapply R_trans; [exact H2|].
      apply (R_change mi s1 r ns l q); [exact Er|exact Hneq|exact Hq]. }
    mbind H as r1 Er1. mbind H as below Ebel. mbind H as [[s5 allow] chg] Euc.
    apply update_counter_P in Euc; [|intros; eapply IH; eassumption].
    mbind H as s6 Esch. mbind H as r2 Er2. inversion H; subst.
    eapply R_trans; [exact H3|]. eapply R_trans; [exact Euc|].
    destruct (allow && below); [eapply schedule_action_P; exact Esch|inversion Esch; subst; apply R_refl].
  Qed.

  Lemma decrement_limit_P : forall s mi s', decrement_limit c tp s mi = Ok s' -> R mi s s'.
  Proof.
    unfold decrement_limit; intros s mi s' H.
    mbind H as r0 Er0. apply get_ok in Er0.
    set (r := if 0 <? lim r0 then rt_set_lim r0 (lim r0 - 1) else r0) in H.
    set (s1 := set_rt (add_log s (LOG_DEC, N.of_nat mi, 0)) mi r) in H.
    assert (H1 : R mi s s1) by (subst s1 r; apply R_dec; exact Er0).
    mbind H as m Em. mbind H as st Est.
    destruct (saction st) as [act|]; [|inversion H; subst; exact H1].
    destruct ((lim r =? 0) && action_has_limit act); [|inversion H; subst; exact H1].
    mbind H as [s2 b] E2. inversion H; subst.
    apply transition_P in E2. eapply R_trans; [exact H1|].
    eapply R_trans; [apply (R_slot mi s1 None); exact I|]. rlogthen (LOG_LIMIT, N.of_nat mi, 0). exact E2.
  Qed.
End PreciseSteps.

Section Preorder.
  (** the coarse version used for frame properties: any runtime update that
      keeps the accounting fields, any log entry *)
  Variable c : cfg.
  Variable tp : tape.
  Variable R : nat -> fstate -> fstate -> Prop.
  Hypothesis R_refl : forall mi s, R mi s s.
  Hypothesis R_trans : forall mi s1 s2 s3, R mi s1 s2 -> R mi s2 s3 -> R mi s1 s3.
  Hypothesis R_log : forall mi s e, R mi s (add_log s e).
  Hypothesis R_step : forall mi s, R mi s (add_step s).
  Hypothesis R_pos : forall mi s p, (pos s <= p)%nat -> R mi s (set_pos s p).
  Hypothesis R_rt : forall mi s r r',
    nth_error (rts s) mi = Some r -> same_acct r r' -> R mi s (set_rt s mi r').
  Hypothesis R_slot : forall mi s a, sched_ok c mi a -> R mi s (set_slot s mi a).
  Hypothesis R_sig : forall mi s g, R mi s (set_sigp s g).

  Lemma R_change_coarse : forall mi s r ns l p,
    nth_error (rts s) mi = Some r -> cur r <> ns -> (pos s <= p)%nat ->
    R mi s (set_pos (set_rt (add_log s (LOG_CHANGE, N.of_nat mi, ns)) mi (rt_set_cur r ns l)) p).
  Proof.
    intros mi s r ns l p Hr _ Hp. eapply R_trans; [apply R_log|].
    eapply R_trans; [apply (R_rt mi _ r (rt_set_cur r ns l)); [exact Hr|sa]|apply R_pos; exact Hp].
  Qed.

  Lemma R_dec_coarse : forall mi s r,
    nth_error (rts s) mi = Some r ->
    R mi s (set_rt (add_log s (LOG_DEC, N.of_nat mi, 0)) mi
                   (if 0 <? lim r then rt_set_lim r (lim r - 1) else r)).
  Proof.
    intros mi s r Hr. eapply R_trans; [apply R_log|].
    apply (R_rt mi _ r); [exact Hr|destruct (0 <? lim r); sa].
  Qed.

  Lemma R_ctr_coarse : forall mi s r r' p,
    nth_error (rts s) mi = Some r -> same_acct r r' -> (pos s <= p)%nat ->
    R mi s (set_pos (set_rt s mi r') p).
  Proof.
    intros mi s r r' p Hr Hs Hp. eapply R_trans; [eapply R_rt; eauto|apply R_pos; exact Hp].
  Qed.

  Lemma R_czero_coarse : forall mi s r r' p,
    nth_error (rts s) mi = Some r -> same_acct r r' -> (pos s <= p)%nat ->
    R mi s (add_log (set_pos (set_rt s mi r') p) (LOG_CZERO, N.of_nat mi, 0)).
  Proof.
    intros mi s r r' p Hr Hs Hp. eapply R_trans; [eapply R_ctr_coarse; eauto|apply R_log].
  Qed.

  Lemma R_sigset_coarse : forall mi s,
    R mi s (set_sigp (add_log s (LOG_SIGSET, N.of_nat mi, 0)) (Some (sig_join (sigp s) mi))).
  Proof. intros mi s. eapply R_trans; [apply R_log|apply R_sig]. Qed.

  Lemma schedule_action_R : forall s mi st s',
    schedule_action c tp s mi st = Ok s' -> R mi s s'.
  Proof.
    apply (schedule_action_P c tp R); auto.
  Qed.

  Lemma update_counter_R : forall (trans : fstate -> nat -> event -> outcome (fstate * bool)) s mi s' al ch,
    (forall s1 s2 b, trans s1 mi CounterZero = Ok (s2, b) -> R mi s1 s2) ->
    update_counter trans c tp s mi = Ok (s', al, ch) -> R mi s s'.
  Proof.
    apply (update_counter_P c tp R); auto.
    - intros; eapply R_ctr_coarse; eauto.
    - intros; eapply R_czero_coarse; eauto.
  Qed.

  Lemma transition_R : forall fuel s mi ev s' b,
    transition fuel c tp s mi ev = Ok (s', b) -> R mi s s'.
  Proof.
    apply (transition_P c tp R); auto.
    - intros; eapply R_rt; eauto; sa.
    - apply R_change_coarse.
    - intros; eapply R_ctr_coarse; eauto.
    - intros; eapply R_czero_coarse; eauto.
    - apply R_sigset_coarse.
  Qed.

  Lemma decrement_limit_R : forall s mi s', decrement_limit c tp s mi = Ok s' -> R mi s s'.
  Proof.
    apply (decrement_limit_P c tp R); auto.
    - intros; eapply R_rt; eauto; sa.
    - apply R_change_coarse.
    - intros; eapply R_ctr_coarse; eauto.
    - intros; eapply R_czero_coarse; eauto.
    - apply R_dec_coarse.
    - apply R_sigset_coarse.
  Qed.

  Lemma trans_dec_R : forall s mi ev dec s', trans_dec c tp s mi ev dec = Ok s' -> R mi s s'.
  Proof.
    unfold trans_dec; intros s mi ev dec s' H.
    mbind H as [s1 chg] E. apply transition_R in E. mbind H as r Er.
    destruct (negb chg && negb (cur r =? STATE_END) && dec).
    - apply decrement_limit_R in H. eapply R_trans; eassumption.
    - inversion H; subst; exact E.
  Qed.
End Preorder.

(** ** loops made only of machine steps *)
Section StepLoops.
  Variable c : cfg.
  Variable tp : tape.
  Variable G : fstate -> fstate -> Prop.
  Hypothesis G_refl : forall s, G s s.
  Hypothesis G_trans : forall s1 s2 s3, G s1 s2 -> G s2 s3 -> G s1 s3.
  Hypothesis G_step : forall s mi ev s' b, transition FUEL c tp s mi ev = Ok (s', b) -> G s s'.
  Hypothesis G_dec : forall s mi s', decrement_limit c tp s mi = Ok s' -> G s s'.
  Hypothesis G_log : forall s mi, G s (add_log s (LOG_SIGDELIVER, N.of_nat mi, 0)).
  Hypothesis G_sig : forall s, G s (set_sigp s None).

  Lemma trans_dec_G : forall s mi ev dec s', trans_dec c tp s mi ev dec = Ok s' -> G s s'.
  Proof.
    unfold trans_dec; intros s mi ev dec s' H.
    mbind H as [s1 chg] E. apply G_step in E. mbind H as r Er.
    destruct (negb chg && negb (cur r =? STATE_END) && dec).
    - apply G_dec in H. eapply G_trans; eassumption.
    - inversion H; subst; exact E.
  Qed.

  Lemma trans_all_G : forall ev k from s s', trans_all c tp ev k from s = Ok s' -> G s s'.
  Proof.
    induction k as [|k IH]; intros from s s' H; cbn [trans_all] in H.
    - inversion H; subst; apply G_refl.
    - mbind H as [s1 b] E. apply G_step in E. apply IH in H. eapply G_trans; eassumption.
  Qed.

  Lemma blocking_begin_all_G : forall target k from s s',
    blocking_begin_all c tp target k from s = Ok s' -> G s s'.
  Proof.
    induction k as [|k IH]; intros from s s' H; cbn [blocking_begin_all] in H.
    - inversion H; subst; apply G_refl.
    - mbind H as s1 E. apply trans_dec_G in E. apply IH in H. eapply G_trans; eassumption.
  Qed.

  Lemma signal_all_G : forall excluded k from s s',
    signal_all c tp excluded k from s = Ok s' -> G s s'.
  Proof.
    induction k as [|k IH]; intros from s s' H; cbn [signal_all] in H.
    - inversion H; subst; apply G_refl.
    - mbind H as s1 E. apply IH in H.
      assert (G s s1).
      { destruct (match excluded with Some x => Nat.eqb x from | None => false end);
          [inversion E; subst; apply G_refl|].
        mbind E as [s2 b] E2. inversion E; subst. apply G_step in E2.
        eapply G_trans; [apply G_log|exact E2]. }
      eapply G_trans; eassumption.
  Qed.

  Lemma signal_round_G : forall s s', signal_round c tp s = Ok s' -> G s s'.
  Proof.
    unfold signal_round; intros s s' H.
    destruct (sigp s) as [g|]; [|inversion H; subst; apply G_refl].
    mbind H as s1 E1. apply signal_all_G in E1. mbind H as s2 E2. inversion H; subst.
    assert (G s1 s2).
    { destruct (sigp s1) as [g1|]; [|inversion E2; subst; apply G_refl].
      destruct g as [|x]; [inversion E2; subst; apply G_refl|].
      mbind E2 as [s3 b] E3. inversion E2; subst. apply G_step in E3.
      eapply G_trans; [apply G_sig|]. eapply G_trans; [apply G_log|exact E3]. }
    eapply G_trans; [apply G_sig|]. eapply G_trans; [exact E1|].
    eapply G_trans; [eassumption|apply G_sig].
  Qed.
End StepLoops.

(** ** the call-level generic lemma: a preorder preserved by top-level machine
    steps and by the accounting updates of [process_event] is preserved by
    [process_event], a whole batch and the signal round *)
Section CallLevel.
  Variable c : cfg.
  Variable tp : tape.
  Variable G : fstate -> fstate -> Prop.
  Hypothesis G_refl : forall s, G s s.
  Hypothesis G_trans : forall s1 s2 s3, G s1 s2 -> G s2 s3 -> G s1 s3.
  Hypothesis G_step : forall s mi ev s' b, transition FUEL c tp s mi ev = Ok (s', b) -> G s s'.
  Hypothesis G_dec : forall s mi s', decrement_limit c tp s mi = Ok s' -> G s s'.
  Hypothesis G_log : forall s mi, G s (add_log s (LOG_SIGDELIVER, N.of_nat mi, 0)).
  Hypothesis G_sig : forall s, G s (set_sigp s None).
  Hypothesis G_gnorm : forall s, G s (set_gnorm s (gnorm s + 1)).
  Hypothesis G_gpad : forall s, G s (set_gpad s (gpad s + 1)).
  Hypothesis G_begin : forall s, bactive s = false -> G s (set_blocking s (gblk s) (now s) true).
  Hypothesis G_end : forall s g, bactive s = true ->
    c_add (clk c) (gblk s) (c_since (clk c) (now s) (bstart s)) = Ok g ->
    G s (set_blocking s g (bstart s) false).
  Hypothesis G_nsent : forall s mi r, nth_error (rts s) mi = Some r ->
    G s (set_rt s mi (rt_set_nsent r (nsent r + 1))).
  Hypothesis G_psent : forall s mi r, nth_error (rts s) mi = Some r ->
    G s (set_rt s mi (rt_set_psent r (psent r + 1))).
  Hypothesis G_bdur : forall s mi r b d, nth_error (rts s) mi = Some r ->
    c_add (clk c) (bdur r) b = Ok d -> G s (set_rt s mi (rt_set_bdur r d)).

  Lemma trans_dec_G' : forall s mi ev dec s', trans_dec c tp s mi ev dec = Ok s' -> G s s'.
  Proof. apply (trans_dec_G c tp G); auto. Qed.
  Lemma trans_all_G' : forall ev k from s s', trans_all c tp ev k from s = Ok s' -> G s s'.
  Proof. apply (trans_all_G c tp G); auto. Qed.
  Lemma blocking_begin_all_G' : forall target k from s s',
    blocking_begin_all c tp target k from s = Ok s' -> G s s'.
  Proof. apply (blocking_begin_all_G c tp G); auto. Qed.
  Lemma signal_round_G' : forall s s', signal_round c tp s = Ok s' -> G s s'.
  Proof. apply (signal_round_G c tp G); auto. Qed.

  Lemma normal_sent_all_G : forall k from s s', normal_sent_all c tp k from s = Ok s' -> G s s'.
  Proof.
    induction k as [|k IH]; intros from s s' H; cbn [normal_sent_all] in H.
    - inversion H; subst; apply G_refl.
    - mbind H as r Er. apply get_ok in Er. mbind H as [s1 b] E. apply G_step in E. apply IH in H.
      eapply G_trans; [apply G_nsent; exact Er|]. eapply G_trans; eassumption.
  Qed.

  Lemma blocking_end_all_G : forall blocked k from s s',
    blocking_end_all c tp blocked k from s = Ok s' -> G s s'.
  Proof.
    induction k as [|k IH]; intros from s s' H; cbn [blocking_end_all] in H.
    - inversion H; subst; apply G_refl.
    - mbind H as r Er. apply get_ok in Er. mbind H as s0 E0. mbind H as [s1 b] E. apply G_step in E.
      apply IH in H.
      assert (G s s0).
      { destruct (negb (blocked =? 0)); [|inversion E0; subst; apply G_refl].
        mbind E0 as d Ed. inversion E0; subst. eapply G_bdur; eauto. }
      eapply G_trans; [eassumption|]. eapply G_trans; eassumption.
  Qed.

  Lemma process_event_G : forall s e s', process_event c tp s e = Ok s' -> G s s'.
  Proof.
    unfold process_event; intros s e s' H.
    destruct e as [ | | | |m| |m| |m|m].
    - eapply trans_all_G'; eauto.
    - eapply trans_all_G'; eauto.
    - eapply trans_all_G'; eauto.
    - apply normal_sent_all_G in H. eapply G_trans; [apply G_gnorm|exact H].
    - destruct (N.of_nat (nmach s) <=? m); [inversion H; subst; apply G_gpad|].
      mbind H as r Er. apply get_ok in Er. apply trans_dec_G' in H.
      eapply G_trans; [apply G_gpad|]. eapply G_trans; [apply G_psent; exact Er|exact H].
    - eapply trans_all_G'; eauto.
    - apply blocking_begin_all_G' in H. destruct (bactive s) eqn:Ea; [exact H|].
      eapply G_trans; [apply G_begin; exact Ea|exact H].
    - mbind H as [s0 b] E0. apply blocking_end_all_G in H.
      assert (G s s0).
      { destruct (bactive s) eqn:Ea; [|inversion E0; subst; apply G_refl].
        mbind E0 as g Eg. inversion E0; subst. apply G_end; auto. }
      eapply G_trans; eassumption.
    - destruct (N.of_nat (nmach s) <=? m); [inversion H; subst; apply G_refl|].
      eapply trans_dec_G'; eauto.
    - destruct (N.of_nat (nmach s) <=? m); [inversion H; subst; apply G_refl|].
      mbind H as [s1 b] E. inversion H; subst. eapply G_step; eauto.
  Qed.

  Lemma events_G : forall evs s s', foldM (process_event c tp) evs s = Ok s' -> G s s'.
  Proof.
    induction evs as [|e evs IH]; intros s s' H; cbn [foldM] in H.
    - inversion H; subst; apply G_refl.
    - mbind H as s1 E. apply process_event_G in E. apply IH in H. eapply G_trans; eassumption.
  Qed.

  Lemma trigger_events_G : forall s evs t s' acts,
    trigger_events c tp s evs t = Ok (s', acts) ->
    G (begin_call s t) s' /\ acts = collect_actions (slots s').
  Proof.
    unfold trigger_events; intros s evs t s' acts H.
    mbind H as s1 E1. mbind H as s2 E2. inversion H; subst.
    apply events_G in E1. apply signal_round_G' in E2. split; [|reflexivity].
    eapply G_trans; eassumption.
  Qed.
End CallLevel.
