(** Property C16 at the level of whole runs, the last clause: "bypass is honoured
    only when EVERY action that started or updated the current blocking allowed
    bypass" -- stated over the returned trace and the actions only.

    The blocking descriptor of a side (expiry, "all contributors allowed bypass")
    is REPLAYED from the reported BlockingBegin / BlockingEnd events and the
    actions that caused them ([replayX]); every released TunnelSent is justified
    by that replay ([bypass_all_replay_partial]).

    RESULT. The target as first stated (replay with the contract rule
    [replay_begin], [replayS]) is FALSE: a zero-duration REPLACING BlockOutgoing
    fired while (or while not) blocking sets the expiry to "now"; the simulator
    then reports the BlockingEnd of that instant BEFORE the pending BlockingBegin
    (expiry has priority over the event queue in pick_next), and the side is not
    blocking afterwards, while the literal replay restarts the blocking at the
    late BlockingBegin and never sees an end ([stated_target_refuted], a concrete
    run evaluated by vm_compute; this is the replacing sibling of known finding
    F8). The strongest true variant differs in exactly this corner: the replay
    rule [replay_begin_r] maps a zero-duration replacing block to "not blocking"
    and is [replay_begin] otherwise. With it the four-way claim holds for every
    run on a parsed trace, as stated ([bypass_all_replay_partial]); and the
    statement with the literal rule holds for all runs whose actions contain no
    zero-duration replacing block ([bypass_all_replay_stated_no_zero_replace]).

    Structure
    - 1. the replay ([bdesc], [replay_begin], [replay_begin_r], [act_of],
         [replayG] generic in the begin rule, [replayX], [replayS]) and its
         stability under extension of the history.
    - 2. what firing a scheduled action does to the descriptor of a side,
         exactly ([act_on_dside]).
    - 3. [pick_next] as an abstract run tracking the descriptors exactly
         ([pn_runE], [pick_next_runE]).
    - 4. the exact invariant [einvR]: the simulator's descriptor of each side is
         the replay of the reported prefix, extended by [replay_begin_r] with the
         one pending (fired, not yet reported) BlockingBegin of that side if there
         is one; preserved by runs ([einv_run]).
    - 5. the history property [hp] (clauses 1/2, 3, and the pending form of 4),
         the loop ([linvE], [iter_linvE], [loop_finE]).
    - 6. the theorems, the readable corollary ([replay_flag_true_all]: the flag of
         the replay is the conjunction over the list of contributing actions
         [replayC]), the refutation of the literal statement, non-vacuity. *)
From Coq Require Import List Arith Lia Permutation ZArith Bool Sorted.
From MB Require Import Base.Prelude Model.Framework Model.Sim Proofs.Tactics Proofs.SimHeap.
From MB Require Import Proofs.SimBasics Proofs.SimReach Proofs.SimHistory Proofs.SimActionTrace.
From MB Require Import Proofs.SimBlockTrace Proofs.SimFailClosed.
From MB Require Proofs.SimTimers Proofs.SimBlocking Proofs.SimIdentity Proofs.FrameworkSlots.
Import ListNotations.
Open Scope N_scope.

(** * 1. The replay *)

Definition bdesc := option (Z * bool).          (* expiry, every contributing action allowed bypass *)

(** the contract rule ([SimBlocking.act_on_block_rule] read as a function) *)
Definition replay_begin (b : bdesc) (t : Z) (a : taction) : bdesc :=
  match a with
  | TBlockOutgoing _ _ dur by_ rp =>
      match b with
      | None => if (0 <? dur) || rp then Some ((t + Z.of_N dur)%Z, by_) else None
      | Some (u, fl) =>
          if rp then Some ((t + Z.of_N dur)%Z, by_)
          else if (u <? t + Z.of_N dur)%Z then Some ((t + Z.of_N dur)%Z, fl && by_)
          else Some (u, fl)
      end
  | _ => b
  end.

(** a zero-duration replacing block: its BlockingEnd is reported before its BlockingBegin *)
Definition zero_replace (a : taction) : bool :=
  match a with TBlockOutgoing _ _ dur _ rp => (dur =? 0) && rp | _ => false end.

(** the rule of the true variant: as [replay_begin], except that a zero-duration replacing block
    leaves the side not blocking *)
Definition replay_begin_r (b : bdesc) (t : Z) (a : taction) : bdesc :=
  if zero_replace a then None else replay_begin b t a.

(** THE action for machine [m] in record [j] (unique by [FrameworkSlots.output_contract]) *)
Definition act_of (H : list hrec) (j : nat) (m : N) : option taction :=
  match nth_error H j with
  | Some rj => find (fun a => taction_machine a =? m) (h_acts rj)
  | None => None
  end.

Section Replay.
  Context {D : Type}.
  Variable rb : option D -> Z -> taction -> option D.

  (** one record of the history *)
  Definition rstep (X : bool) (f : nat -> nat) (H : list hrec) (i : nat) (r : hrec) (b : option D) : option D :=
    if Bool.eqb (se_client (h_ev r)) X then
      match se_ev (h_ev r) with
      | TEBlockingBegin m =>
          match act_of H (f i) m with Some a => rb b (se_time (h_ev r)) a | None => b end
      | TEBlockingEnd => None
      | _ => b
      end
    else b.

  (** the fold over the records [H[0..k)] *)
  Fixpoint replayG (X : bool) (f : nat -> nat) (H : list hrec) (k : nat) : option D :=
    match k with
    | O => None
    | S k' =>
        match nth_error H k' with
        | Some r => rstep X f H k' r (replayG X f H k')
        | None => replayG X f H k'
        end
    end.

  Lemma replayG_S : forall X f H k r, nth_error H k = Some r ->
    replayG X f H (S k) = rstep X f H k r (replayG X f H k).
  Proof. intros X f H k r E. cbn [replayG]. rewrite E. reflexivity. Qed.

  Lemma act_of_snoc : forall H r j m, (j < length H)%nat -> act_of (H ++ [r]) j m = act_of H j m.
  Proof. intros H r j m L. unfold act_of. rewrite nth_error_app1 by exact L. reflexivity. Qed.

  Lemma rstep_noncompl : forall X f H i r b, is_complb (h_ev r) = false ->
    rstep X f H i r b = if Bool.eqb (se_client (h_ev r)) X
                        then match se_ev (h_ev r) with TEBlockingEnd => None | _ => b end else b.
  Proof.
    intros X f H i r b Hc. unfold rstep. destruct (Bool.eqb _ X); [|reflexivity].
    unfold is_complb in Hc. destruct (se_ev (h_ev r)); try reflexivity; discriminate.
  Qed.

  Lemma rstep_other_side : forall X f H i r b, se_client (h_ev r) <> X -> rstep X f H i r b = b.
  Proof.
    intros X f H i r b Hne. unfold rstep. destruct (Bool.eqb (se_client (h_ev r)) X) eqn:E; [|reflexivity].
    apply Bool.eqb_prop in E. contradiction.
  Qed.

  (** the replay of a prefix does not change when the history is extended *)
  Lemma replayG_snoc : forall X f f' H r k,
    (k <= length H)%nat -> (forall i, (i < k)%nat -> f' i = f i) ->
    (forall i ri, (i < k)%nat -> nth_error H i = Some ri -> is_complb (h_ev ri) = true -> (f i < length H)%nat) ->
    replayG X f' (H ++ [r]) k = replayG X f H k.
  Proof.
    intros X f f' H r. induction k as [|k IH]; intros Lk Hf Hlt; [reflexivity|].
    cbn [replayG]. rewrite nth_error_app1 by lia.
    rewrite IH; [|lia|intros i Hi; apply Hf; lia|intros i ri Hi; apply Hlt; lia].
    destruct (nth_error H k) as [rk|] eqn:Ek; [|reflexivity].
    unfold rstep. destruct (Bool.eqb _ X); [|reflexivity].
    destruct (se_ev (h_ev rk)) eqn:Eev; try reflexivity.
    rewrite (Hf k) by lia. rewrite act_of_snoc; [reflexivity|].
    apply (Hlt k rk); [lia|exact Ek|]. unfold is_complb. rewrite Eev. reflexivity.
  Qed.

  (** the replay depends on [f] only at the BlockingBegin records *)
  Lemma replayG_ext : forall X f g H k,
    (forall i ri m, (i < k)%nat -> nth_error H i = Some ri -> se_ev (h_ev ri) = TEBlockingBegin m -> f i = g i) ->
    replayG X f H k = replayG X g H k.
  Proof.
    intros X f g H. induction k as [|k IH]; intros Hfg; [reflexivity|].
    cbn [replayG]. rewrite IH by (intros i ri m Hi; apply (Hfg i ri m); lia).
    destruct (nth_error H k) as [rk|] eqn:Ek; [|reflexivity].
    unfold rstep. destruct (Bool.eqb _ X); [|reflexivity].
    destruct (se_ev (h_ev rk)) eqn:Eev; try reflexivity.
    rewrite (Hfg k rk m); [reflexivity|lia|exact Ek|exact Eev].
  Qed.

  (** no BlockingBegin / BlockingEnd of side [X] in [k, n): the descriptor does not move *)
  Lemma replayG_const : forall X f H k n, (k <= n)%nat ->
    (forall i ri, (k <= i < n)%nat -> nth_error H i = Some ri -> se_client (h_ev ri) = X ->
       is_complb (h_ev ri) = false /\ se_ev (h_ev ri) <> TEBlockingEnd) ->
    replayG X f H n = replayG X f H k.
  Proof.
    intros X f H k n Hkn. induction Hkn as [|n Hkn IH]; intros Hno; [reflexivity|].
    cbn [replayG]. destruct (nth_error H n) as [rn|] eqn:En.
    - rewrite IH by (intros i ri Hi; apply Hno; lia).
      destruct (Bool.bool_dec (se_client (h_ev rn)) X) as [E|E]; [|apply rstep_other_side; exact E].
      destruct (Hno n rn) as [Hc Hne]; [lia|exact En|exact E|].
      rewrite rstep_noncompl by exact Hc. destruct (Bool.eqb _ X); [|reflexivity].
      destruct (se_ev (h_ev rn)); try reflexivity. contradiction.
    - apply IH. intros i ri Hi. apply Hno. lia.
  Qed.
End Replay.

(** the replay of the true variant, and the replay as first stated *)
Definition replayX : bool -> (nat -> nat) -> list hrec -> nat -> bdesc := replayG replay_begin_r.
Definition replayS : bool -> (nat -> nat) -> list hrec -> nat -> bdesc := replayG replay_begin.

(** a release is justified by a descriptor: not blocking, or every contributor allowed bypass and
    the packet carries the bypass flag *)
Definition judged (b : bdesc) (e : sev) : Prop :=
  b = None \/ exists u, b = Some (u, true) /\ se_bypass e = true.

(** * 2. Firing a scheduled action, exactly *)

Definition dside (sd : side) : bdesc :=
  match s_buntil sd with None => None | Some u => Some (u, s_bbypass sd) end.

Lemma act_on_dside : forall sd ic a t sd' e,
  act_on sd ic a t = Ok (sd', e) -> dside sd' = replay_begin (dside sd) t a.
Proof.
  intros sd ic a t sd' e H.
  destruct a as [m tm|m tmo by_ rp|m tmo dur by_ rp|m dur rp]; unfold act_on in H; try discriminate.
  - injection H as <- _. reflexivity.
  - injection H as <- _. unfold dside, replay_begin.
    destruct (s_buntil sd) as [u|] eqn:Eu.
    + destruct rp; cbn [orb].
      * unfold side_set_block. cbn [s_buntil s_bbypass]. reflexivity.
      * destruct (u <? t + Z.of_N dur)%Z.
        -- unfold side_set_block. cbn [s_buntil s_bbypass]. reflexivity.
        -- rewrite Eu. reflexivity.
    + destruct rp; cbn [orb].
      * rewrite Bool.orb_true_r. unfold side_set_block. cbn [s_buntil s_bbypass]. reflexivity.
      * rewrite Bool.orb_false_r.
        destruct (Z.ltb_spec t (t + Z.of_N dur)) as [L|L]; destruct (N.ltb_spec 0 dur) as [L'|L']; try lia.
        -- unfold side_set_block. cbn [s_buntil s_bbypass]. reflexivity.
        -- rewrite Eu. reflexivity.
Qed.

Lemma do_scheduled_action_E : forall c s target c' s' e,
  do_scheduled_action c s target = Ok (c', s', e) ->
  exists (ic : bool) (mi : nat) (a : taction),
    let sd := if ic then c else s in
    let sd' := if ic then c' else s' in
    nth_error (s_sched sd) mi = Some (Some (a, target)) /\
    s_sched sd' = upd (s_sched sd) mi None /\
    (if ic then s' = s else c' = c) /\
    se_time e = target /\ se_client e = ic /\ completes a e /\
    dside sd' = replay_begin (dside sd) target a.
Proof.
  intros c s target c' s' e H. unfold do_scheduled_action in H.
  destruct (take_action (s_sched c) target) as [[[a t] l]|] eqn:Ec.
  - mbind H as p E. destruct p as [c1 e1]. injection H as <- <- <-.
    apply SimTimers.take_action_spec in Ec. destruct Ec as (mi & -> & Hn & -> & _).
    pose proof (act_on_dside _ _ _ _ _ _ E) as B.
    apply SimTimers.act_on_spec in E. destruct E as (A1 & A2 & A3 & A4 & A5 & A6).
    cbn [side_set_sched s_sched] in A1.
    exists true, mi, a. cbv zeta.
    split; [exact Hn|]. split; [exact A1|]. split; [reflexivity|]. split; [exact A4|]. split; [exact A5|].
    split; [|exact B].
    apply completes_of_spec. destruct a; try exact A6. tauto.
  - destruct (take_action (s_sched s) target) as [[[a t] l]|] eqn:Es; [|discriminate].
    mbind H as p E. destruct p as [s1 e1]. injection H as <- <- <-.
    apply SimTimers.take_action_spec in Es. destruct Es as (mi & -> & Hn & -> & _).
    pose proof (act_on_dside _ _ _ _ _ _ E) as B.
    apply SimTimers.act_on_spec in E. destruct E as (A1 & A2 & A3 & A4 & A5 & A6).
    cbn [side_set_sched s_sched] in A1.
    exists false, mi, a. cbv zeta.
    split; [exact Hn|]. split; [exact A1|]. split; [reflexivity|]. split; [exact A4|]. split; [exact A5|].
    split; [|exact B].
    apply completes_of_spec. destruct a; try exact A6. tauto.
Qed.

(** * 3. [pick_next] as a run that tracks the descriptors exactly *)

(** the descriptor of side [X] in the simulator state *)
Definition dsim (st : sim) (X : bool) : bdesc := dside (if X then m_c st else m_s st).
Definition same_d (st st' : sim) : Prop := forall X, dsim st' X = dsim st X.

Lemma pbe_le : forall bc bs t b bic, peek_blocked_exp bc bs t = (b, bic) ->
  (forall u, bc = Some u -> b <= since u t) /\ (forall u, bs = Some u -> b <= since u t).
Proof.
  intros bc bs t b bic H. unfold peek_blocked_exp in H.
  destruct bc as [c|], bs as [s|].
  - destruct (Z.ltb_spec c s); injection H as <- _; split; intros u E; injection E as <-;
      try lia; apply SimBlocking.since_mono; lia.
  - injection H as <- _. split; intros u E; [injection E as <-; lia|discriminate].
  - injection H as <- _. split; intros u E; [discriminate|injection E as <-; lia].
  - split; intros u E; discriminate.
Qed.

Lemma arith_q_lt_b : forall sa it b q, C2 sa it b q = false -> C3 sa it q = true -> q < b.
Proof. unfold C2, C3. intros sa it b q E2 E3. b2p; lia. Qed.

Lemma arith_sa_lt_b : forall sa it b q, C2 sa it b q = false -> C3 sa it q = false -> sa < it -> sa < b.
Proof. unfold C2, C3. intros sa it b q E2 E3 L. b2p; lia. Qed.

Lemma since_gt : forall u t d, d < since u t -> (t + Z.of_N d < u)%Z.
Proof. intros u t d. unfold since. lia. Qed.

Lemma dside_some : forall sd u fl, dside sd = Some (u, fl) -> s_buntil sd = Some u.
Proof. intros sd u fl H. unfold dside in H. destruct (s_buntil sd); [injection H as <- _; reflexivity|discriminate]. Qed.

Inductive pn_runE : sim -> Z -> option sev -> sim -> Prop :=
| runE_none : forall st t, pn_runE st t None st
| runE_skip : forall st t st1 t1 r st',
    same_slots st st1 -> same_cq st st1 -> (t <= t1)%Z -> qge st1 t1 -> same_d st st1 ->
    pn_runE st1 t1 r st' -> pn_runE st t r st'
| runE_fire : forall st t st1 t1 r st' X mi a x,
    nth_error (slotsX st X) mi = Some (Some (a, t1)) ->
    slotsX st1 X = upd (slotsX st X) mi None -> slotsX st1 (negb X) = slotsX st (negb X) ->
    Permutation (cqs st1 X) (x :: cqs st X) -> Permutation (cqs st1 (negb X)) (cqs st (negb X)) ->
    completes a x -> se_time x = t1 -> se_client x = X -> (t <= t1)%Z -> qge st1 t1 ->
    (* every completion still queued is due strictly later: with [tinv] none is queued *)
    (forall Y y, In y (cqs st Y) -> (t1 < se_time y)%Z) ->
    dsim st1 (negb X) = dsim st (negb X) ->
    (* the contract rule, exactly *)
    dsim st1 X = replay_begin (dsim st X) t1 a ->
    (* a slot fires strictly before the expiry of either side *)
    (forall Y u fl, dsim st Y = Some (u, fl) -> (t1 < u)%Z) ->
    pn_runE st1 t1 r st' -> pn_runE st t r st'
| runE_end : forall st t e st' u fl,
    se_ev e = TEBlockingEnd -> same_slots st st' -> same_cq st st' -> (t <= se_time e)%Z -> qge st' (se_time e) ->
    dsim st (se_client e) = Some (u, fl) -> (forall Y y, In y (cqs st Y) -> (u <= se_time y)%Z) ->
    dsim st' (se_client e) = None ->
    dsim st' (negb (se_client e)) = dsim st (negb (se_client e)) ->
    pn_runE st t (Some e) st'
| runE_other : forall st t e st',
    is_complb e = false -> se_ev e <> TEBlockingEnd ->
    same_slots st st' -> same_cq st st' -> (t <= se_time e)%Z -> qge st' (se_time e) -> same_d st st' ->
    (* an event leaves the queue strictly before the expiry of either side *)
    (forall Y u fl, dsim st Y = Some (u, fl) -> (t < u)%Z) ->
    pn_runE st t (Some e) st'
| runE_pop : forall st t e st',
    is_complb e = true -> same_slots st st' ->
    Permutation (cqs st (se_client e)) (e :: cqs st' (se_client e)) ->
    Permutation (cqs st' (negb (se_client e))) (cqs st (negb (se_client e))) ->
    (t <= se_time e)%Z -> qge st' (se_time e) -> same_d st st' ->
    (forall Y u fl, dsim st Y = Some (u, fl) -> (t < u)%Z) ->
    pn_runE st t (Some e) st'.

Theorem pick_next_runE : forall fuel st t r st',
  SimBlocking.sq_inv (m_sq st) -> hpi (m_sq st) -> qge st t ->
  pick_next fuel st t = Ok (r, st') -> pn_runE st t r st' /\ hpi (m_sq st').
Proof.
  induction fuel as [|fuel IH]; intros st t r st' Hinv Hh Hq H; [discriminate H|].
  pose proof (proj1 Hinv) as Hwf.
  apply pn_unfoldB in H. destruct H as (b & bic & q & w & qic & Hb & Hpq & H). cbv zeta in Hpq, H.
  set (sa := peek_sched (s_sched (m_c st)) (s_sched (m_s st)) t) in *.
  set (it := peek_timers (s_timers (m_c st)) (s_timers (m_s st)) t) in *.
  set (n := net_peek_agg (m_net st) t) in *.
  assert (Bsa : sa <= DMAX) by apply peek_sched_le.
  assert (Bit : it <= DMAX) by apply peek_timers_le.
  assert (Bn : n <= DMAX) by apply SimBlocking.net_peek_agg_le_DMAX.
  assert (Bb : b <= DMAX) by (eapply SimTimers.peek_blocked_exp_le; exact Hb).
  assert (Bq : q <= DMAX).
  { pose proof (SimBlocking.peek_queue_le_DMAX (m_sq st) (m_c st) (m_s st) (n_cagg (m_net st)) (n_sagg (m_net st))
                  (N.min (N.min (N.min sa it) b) n) t) as L. rewrite Hpq in L. exact L. }
  assert (Hsx : forall X x, In x (cqs st X) ->
            (t <= se_time x)%Z /\
            (q <= since (se_time x) t \/ (q = DMAX /\ N.min (N.min (N.min sa it) b) n < since (se_time x) t))).
  { intros X x Hx. split; [apply (Hq X x Hx)|].
    eapply peek_queue_int_le; [apply Hh|apply in_cqs_iq; exact Hx|exact Hpq]. }
  (* every side that blocks expires no earlier than [b] from now *)
  assert (Hble : forall Y u fl, dsim st Y = Some (u, fl) -> b <= since u t).
  { intros Y u fl Hd. apply dside_some in Hd. destruct (pbe_le _ _ _ _ _ Hb) as [Lc Ls].
    destruct Y; [apply Lc|apply Ls]; exact Hd. }
  destruct H as [(-> & ->)|[H|(E0 & E1 & [(E2 & -> & net' & ->)|(E2 & H)])]].
  - split; [apply runE_none|exact Hh].
  - (* aggregate delay popped *)
    destruct (IH (mksim (m_sq st) (m_c st) (m_s st) (net_pop_agg (m_net st)) (m_pos st)) t r st' Hinv Hh Hq H) as [R Hh'].
    split; [|exact Hh'].
    apply (runE_skip st t (mksim (m_sq st) (m_c st) (m_s st) (net_pop_agg (m_net st)) (m_pos st)) t r st');
      [intros X; reflexivity|intros X; apply Permutation_refl|lia|exact Hq|intros X; reflexivity|exact R].
  - (* blocking expiry *)
    split; [|exact Hh].
    pose proof (arith_bD _ _ _ _ _ E0 E1 E2 Bsa Bit Bn Bq) as HbD.
    destruct (peek_blocked_exp_some _ _ _ _ _ Hb HbD) as (u & Hu & Hbu).
    apply (runE_end _ _ _ _ u (if bic then s_bbypass (m_c st) else s_bbypass (m_s st))); cbn [se_ev se_time se_client].
    + reflexivity.
    + intros [|]; unfold slotsX; cbn [m_c m_s]; destruct bic; reflexivity.
    + intros X; apply Permutation_refl.
    + lia.
    + intros X x Hx.
      match type of Hx with In x (cqs ?s X) => change (cqs s X) with (cqs st X) in Hx end.
      destruct (Hsx X x Hx) as [Ht Hx'].
      pose proof (arith_b _ _ _ _ _ _ E1 E2 Bn Hx') as Hbx.
      pose proof (SimTimers.since_below _ _ Ht). lia.
    + unfold dsim, dside. destruct bic; rewrite Hu; reflexivity.
    + intros Y y Hy. destruct (Hsx Y y Hy) as [Ht Hx'].
      pose proof (arith_b _ _ _ _ _ _ E1 E2 Bn Hx') as Hbx.
      apply (since_lt_le u (se_time y) t); [rewrite <- Hbu; exact HbD|rewrite <- Hbu; exact Hbx|exact Ht].
    + unfold dsim, dside. destruct bic; cbn [m_c m_s side_set_block s_buntil]; reflexivity.
    + unfold dsim. destruct bic; reflexivity.
  - destruct H as [(E3 & tmp & sq' & Hpop & -> & ->)|(E3 & H)].
    + (* the head of the queue *)
      pose proof (arith_q _ _ _ _ _ E0 E1 E2 E3 Bsa Bit Bb Bn) as Hqd.
      pose proof (SimTimers.peek_pop_consistent _ _ _ _ _ _ _ _ _ _ _ _ (wf_simq_sq_wf _ Hwf) Hpq Hqd Hpop) as Htmp.
      destruct (cq_pop _ _ _ _ _ _ Hwf Hpop) as (Hcl & Hperm & Hin).
      destruct (SimBlocking.sq_pop_inv _ _ _ _ _ _ Hinv Hpop) as [_ Hnbend].
      split; [|eapply hpi_pop; [exact Hh|exact Hpop]].
      assert (Hlive : forall Y u fl, dsim st Y = Some (u, fl) -> (t < u)%Z).
      { intros Y u fl Hd. pose proof (Hble Y u fl Hd) as L1.
        pose proof (arith_q_lt_b _ _ _ _ E2 E3) as L2.
        assert (L3 : q < since u t) by lia. apply since_gt in L3. lia. }
      assert (Hrest : forall X x, In x (cq sq' X) -> (t + Z.of_N q <= se_time x)%Z).
      { intros X x Hx.
        assert (Hx0 : In x (cqs st X)).
        { unfold cqs. apply (Permutation_in _ (Permutation_sym (Hperm X))).
          destruct (_ && _); [right|]; exact Hx. }
        destruct (Hsx X x Hx0) as [Ht [Hx'|[Hx' _]]]; [|lia].
        pose proof (SimTimers.since_below _ _ Ht). lia. }
      destruct (is_complb tmp) eqn:Ec.
      * (* a completion: its time is not changed *)
        assert (Hx0 : In tmp (cqs st qic)).
        { unfold cqs. apply (Permutation_in _ (Permutation_sym (Hperm qic))).
          rewrite Bool.eqb_reflx. cbn [andb]. left. reflexivity. }
        destruct (Hsx qic tmp Hx0) as [Ht [Hx'|[Hx' _]]]; [|lia].
        pose proof (SimTimers.since_below _ _ Ht) as Hbl.
        destruct (Z.ltb_spec (se_time tmp) (t + Z.of_N q)) as [L|L]; [lia|].
        apply runE_pop; [exact Ec|intros X; reflexivity| | | | |intros X; reflexivity|exact Hlive].
        -- rewrite Hcl. pose proof (Hperm qic) as P. rewrite Bool.eqb_reflx in P. exact P.
        -- rewrite Hcl. pose proof (Hperm (negb qic)) as P.
           replace (Bool.eqb qic (negb qic)) with false in P by (destruct qic; reflexivity).
           apply Permutation_sym. exact P.
        -- exact Ht.
        -- intros X x Hx. specialize (Hrest X x Hx). lia.
      * (* another event *)
        set (e := if (se_time tmp <? t + Z.of_N q)%Z then set_time tmp (t + Z.of_N q)%Z else tmp).
        assert (He : is_complb e = false /\ se_time e = (t + Z.of_N q)%Z /\ se_ev e = se_ev tmp).
        { subst e. destruct (Z.ltb_spec (se_time tmp) (t + Z.of_N q)) as [L|L].
          - split; [exact Ec|]. split; reflexivity.
          - split; [exact Ec|]. split; [lia|reflexivity]. }
        destruct He as (He1 & He2 & He3).
        apply runE_other; [exact He1|rewrite He3; exact Hnbend|intros X; reflexivity| | | |intros X; reflexivity|exact Hlive].
        -- intros X. pose proof (Hperm X) as P. rewrite Bool.andb_false_r in P. apply Permutation_sym. exact P.
        -- lia.
        -- intros X x Hx. rewrite He2. apply (Hrest X x Hx).
    + assert (Hmin : forall X x, In x (cqs st X) -> (t + Z.of_N (N.min sa it) <= se_time x)%Z).
      { intros X x Hx. destruct (Hsx X x Hx) as [Ht Hx'].
        pose proof (arith_t _ _ _ _ _ _ E1 E2 E3 Bb Bn Hx').
        pose proof (SimTimers.since_below _ _ Ht). lia. }
      destruct H as [(Hle & c' & s' & e & Hd & H)|(Hlt & c' & s' & e & Hd & H)].
      * (* an internal timer: pick again as of its expiry *)
        pose proof (SimTimers.do_internal_timer_spec _ _ _ _ _ _ Hd) as (ic & mi & Sp). cbv zeta in Sp.
        assert (Hs : s_sched c' = s_sched (m_c st) /\ s_sched s' = s_sched (m_s st) /\ is_complb e = false /\
                     dside c' = dside (m_c st) /\ dside s' = dside (m_s st) /\
                     se_ev e <> TEBlockingEnd).
        { destruct ic; destruct Sp as (_ & _ & S3 & S4 & _ & S6 & S7 & ->); subst; cbn [se_ev]; unfold dside;
            rewrite ?S6, ?S7; (repeat (split; [solve [auto]|])); discriminate. }
        destruct Hs as (Sc & Ss & Ec & Bc & Bs & Ene).
        set (st1 := mksim (sq_push (m_sq st) e) c' s' (m_net st) (m_pos st)) in *.
        assert (Hcq : same_cq st st1). { intros X. apply cq_push_other. exact Ec. }
        assert (Hq1 : qge st1 (t + Z.of_N it)%Z).
        { intros X x Hx. apply (Permutation_in _ (Hcq X)) in Hx. specialize (Hmin X x Hx). lia. }
        destruct (IH st1 _ r st' (SimBlocking.sq_push_inv _ _ Hinv Ene) (hpi_push _ _ Hh) Hq1 H) as [R Hh'].
        split; [|exact Hh'].
        eapply runE_skip; [|exact Hcq| |exact Hq1| |exact R]; [|lia|].
        -- intros [|]; unfold slotsX; cbn [m_c m_s]; assumption.
        -- intros [|]; unfold dsim; cbn [m_c m_s]; assumption.
      * (* a scheduled action fires *)
        pose proof (do_scheduled_action_E _ _ _ _ _ _ Hd) as (ic & mi & a & Sp). cbv zeta in Sp.
        destruct Sp as (S1 & S2 & S3 & S6 & S7 & Hc & B1).
        destruct (completes_compl _ _ Hc) as [Ec _].
        set (st1 := mksim (sq_push (m_sq st) e) c' s' (m_net st) (m_pos st)) in *.
        assert (Hcq1 : Permutation (cqs st1 ic) (e :: cqs st ic)).
        { unfold cqs, st1; cbn [m_sq]. pose proof (cq_push (m_sq st) e ic) as P.
          rewrite S7, Ec, Bool.eqb_reflx in P. exact P. }
        assert (Hcq2 : Permutation (cqs st1 (negb ic)) (cqs st (negb ic))).
        { unfold cqs, st1; cbn [m_sq]. pose proof (cq_push (m_sq st) e (negb ic)) as P.
          rewrite S7 in P. replace (Bool.eqb ic (negb ic)) with false in P by (destruct ic; reflexivity).
          exact P. }
        assert (Hq1 : qge st1 (t + Z.of_N sa)%Z).
        { intros X x Hx.
          assert (Hx' : x = e \/ In x (cqs st X)).
          { destruct (Bool.bool_dec X ic) as [->|Hne].
            - apply (Permutation_in _ Hcq1) in Hx. destruct Hx as [Hx|Hx]; auto.
            - assert (X = negb ic) as -> by (destruct X, ic; try reflexivity; elim Hne; reflexivity).
              apply (Permutation_in _ Hcq2) in Hx. auto. }
          destruct Hx' as [->|Hx']; [lia|]. specialize (Hmin X x Hx'). lia. }
        assert (Hstrict : forall Y y, In y (cqs st Y) -> (t + Z.of_N sa < se_time y)%Z).
        { intros Y y Hy. destruct (Hsx Y y Hy) as [Ht Hx'].
          pose proof (arith_fire _ _ _ _ _ _ E1 E2 E3 Hlt Bit Bb Bn Hx') as L.
          unfold since in L. lia. }
        assert (Hlive : forall Y u fl, dsim st Y = Some (u, fl) -> (t + Z.of_N sa < u)%Z).
        { intros Y u fl Hdd. pose proof (Hble Y u fl Hdd) as L1.
          pose proof (arith_sa_lt_b _ _ _ _ E2 E3 Hlt) as L2.
          apply since_gt. lia. }
        destruct (IH st1 _ r st' (SimBlocking.sq_push_inv _ _ Hinv (complb_not_bend _ Ec)) (hpi_push _ _ Hh) Hq1 H)
          as [R Hh'].
        split; [|exact Hh'].
        eapply (runE_fire st t st1 (t + Z.of_N sa)%Z r st' ic mi a e);
          [ | | |exact Hcq1|exact Hcq2|exact Hc|exact S6|exact S7|lia|exact Hq1|exact Hstrict| | |exact Hlive|exact R].
        -- destruct ic; exact S1.
        -- destruct ic; unfold slotsX, st1; cbn [m_c m_s]; exact S2.
        -- destruct ic; unfold slotsX, st1; cbn [m_c m_s negb]; rewrite S3; reflexivity.
        -- destruct ic; unfold dsim, st1; cbn [m_c m_s negb]; rewrite S3; reflexivity.
        -- destruct ic; unfold dsim, st1; cbn [m_c m_s]; exact B1.
Qed.

Lemma pn_runE_qge : forall st t r st', pn_runE st t r st' ->
  forall e, r = Some e -> qge st' (se_time e) /\ (t <= se_time e)%Z.
Proof.
  intros st t r st' R.
  induction R as [st t|st t st1 t1 r st' _ _ Ht _ _ _ IH
                 |st t st1 t1 r st' X mi a x _ _ _ _ _ _ _ _ Ht _ _ _ _ _ _ IH
                 |st t e0 st' u fl _ _ _ Ht Hq _ _ _ _
                 |st t e0 st' _ _ _ _ Ht Hq _ _|st t e0 st' _ _ _ _ Ht Hq _ _];
    intros e He.
  - discriminate.
  - destruct (IH e He). split; [assumption|lia].
  - destruct (IH e He). split; [assumption|lia].
  - injection He as <-. auto.
  - injection He as <-. auto.
  - injection He as <-. auto.
Qed.

(** * 4. The exact invariant *)

Definition is_beginb (x : sev) : bool := match se_ev x with TEBlockingBegin _ => true | _ => false end.
Definition is_bendb (X : bool) (e : sev) : bool :=
  match se_ev e with TEBlockingEnd => Bool.eqb (se_client e) X | _ => false end.

(** the pending BlockingBegin [x] of side [X] (fired from the action of record [j], not yet
    reported): the simulator is one [replay_begin_r] ahead of the replay [R X] of the reports, and
    blocks (if at all) until after the instant of [x] *)
Definition pnormal (R : bool -> bdesc) (H : list hrec) (st : sim) (X : bool) (x : sev) (j : nat) : Prop :=
  exists a, act_of H j (cmach x) = Some a /\
    dsim st X = replay_begin_r (R X) (se_time x) a /\
    (forall u fl, dsim st X = Some (u, fl) -> (se_time x < u)%Z).

(** inside one [pick_next] only: a zero-duration replacing block has just fired; the side's expiry is
    "now", the BlockingEnd is the next event to be returned *)
Definition pzomb (H : list hrec) (st : sim) (X : bool) (x : sev) (j : nat) : Prop :=
  exists a fl, act_of H j (cmach x) = Some a /\ zero_replace a = true /\
    dsim st X = Some (se_time x, fl) /\
    (forall u fl', dsim st (negb X) = Some (u, fl') -> (se_time x < u)%Z).

(** [G] is the ghost of [tinv]: the queued completions (at most one in all) with their records *)
Inductive einvR (mid : bool) (R : bool -> bdesc) (H : list hrec) (st : sim) (G : bool -> list (sev * nat)) : Prop :=
| einv0 : G true = [] -> G false = [] -> (forall X, dsim st X = R X) -> einvR mid R H st G
| einv1 : forall X x j, G X = [(x, j)] -> G (negb X) = [] -> dsim st (negb X) = R (negb X) ->
    ((is_beginb x = false /\ dsim st X = R X) \/
     (is_beginb x = true /\ (pnormal R H st X x j \/ (mid = true /\ pzomb H st X x j)))) ->
    einvR mid R H st G.

Definition Rf (H : list hrec) (f : nat -> nat) : bool -> bdesc := fun X => replayX X f H (length H).
Definition Rp (H : list hrec) (f : nat -> nat) (e : sev) : bool -> bdesc :=
  fun X => if is_bendb X e then None else replayX X f H (length H).

Lemma G_empty : forall G : bool -> list (sev * nat), G true = [] -> G false = [] -> forall X, G X = [].
Proof. intros G Ht Hf [|]; assumption. Qed.

Lemma pnormal_same_d : forall R H st st1 X x j, same_d st st1 -> pnormal R H st X x j -> pnormal R H st1 X x j.
Proof.
  intros R H st st1 X x j Hd (a & A1 & A2 & A3). exists a. split; [exact A1|]. rewrite !Hd. auto.
Qed.

Lemma einvR_same_d : forall mid R H st st1 G, same_d st st1 -> einvR mid R H st G -> einvR mid R H st1 G.
Proof.
  intros mid R H st st1 G Hd [H1 H2 H3|X x j H1 H2 H3 H4].
  - apply einv0; [exact H1|exact H2|]. intros X. rewrite Hd. apply H3.
  - apply (einv1 _ _ _ _ _ X x j); [exact H1|exact H2|rewrite Hd; exact H3|].
    destruct H4 as [[B E]|[B [P|[M (a & fl & Z1 & Z2 & Z3 & Z4)]]]].
    + left. split; [exact B|]. rewrite Hd. exact E.
    + right. split; [exact B|]. left. eapply pnormal_same_d; eassumption.
    + right. split; [exact B|]. right. split; [exact M|]. exists a, fl. rewrite !Hd. auto.
Qed.

(** with [tinv], a slot fires only when nothing is queued *)
Lemma G_nil_at_fire : forall H st t f G t1,
  tinv H st t f G noex -> (forall Y y, In y (cqs st Y) -> (t1 < se_time y)%Z) -> (t <= t1)%Z ->
  forall Y, G Y = [].
Proof.
  intros H st t f G t1 I Hs Ht Y. destruct (G Y) as [|[x0 j0] l] eqn:E; [reflexivity|exfalso].
  assert (Hin : In (x0, j0) (G Y)) by (rewrite E; left; reflexivity).
  pose proof (Hs Y x0 (G_in_cqs _ _ _ _ _ _ _ _ I Hin)) as L1.
  destruct (ti_qcause _ _ _ _ _ _ I Y x0 j0 Hin) as (_ & _ & L2). lia.
Qed.

Lemma find_uniq : forall (l : list taction) a,
  In a l -> (forall a', In a' l -> taction_machine a' = taction_machine a -> a' = a) ->
  find (fun a' => taction_machine a' =? taction_machine a) l = Some a.
Proof.
  induction l as [|h l IH]; intros a Hin Hu; [destruct Hin|]. cbn [find].
  destruct (N.eqb_spec (taction_machine h) (taction_machine a)) as [E|E].
  - f_equal. apply Hu; [left; reflexivity|exact E].
  - destruct Hin as [->|Hin]; [contradiction|]. apply IH; [exact Hin|].
    intros a' Ha'. apply Hu. right. exact Ha'.
Qed.

Lemma act_of_uniq : forall H j rj a, huniq H -> nth_error H j = Some rj -> In a (h_acts rj) ->
  act_of H j (taction_machine a) = Some a.
Proof.
  intros H j rj a HU Hj Ha. unfold act_of. rewrite Hj. apply find_uniq; [exact Ha|].
  intros a' Ha' E. apply (HU rj a' a); [eapply nth_error_In; exact Hj|exact Ha'|exact Ha|exact E].
Qed.

Lemma replay_begin_live : forall b t a u fl,
  zero_replace a = false -> (forall u0 fl0, b = Some (u0, fl0) -> (t < u0)%Z) ->
  replay_begin b t a = Some (u, fl) -> (t < u)%Z.
Proof.
  intros b t a u fl Hz Hb H.
  destruct a as [m tm|m tmo by_ rp|m tmo dur by_ rp|m dur rp]; cbn [replay_begin] in H; try (eapply Hb; exact H).
  cbn [zero_replace] in Hz.
  destruct b as [[u0 fl0]|].
  - specialize (Hb u0 fl0 eq_refl). destruct rp.
    + injection H as <- _. destruct (N.eqb_spec dur 0); [discriminate|lia].
    + destruct (Z.ltb_spec u0 (t + Z.of_N dur)); injection H as <- _; lia.
  - destruct (N.ltb_spec 0 dur) as [L|L]; cbn [orb] in H.
    + injection H as <- _. lia.
    + destruct rp; [|discriminate]. destruct (N.eqb_spec dur 0); [discriminate|lia].
Qed.

Lemma replay_begin_zero_replace : forall b t m tmo dur by_ rp,
  zero_replace (TBlockOutgoing m tmo dur by_ rp) = true ->
  replay_begin b t (TBlockOutgoing m tmo dur by_ rp) = Some (t, by_).
Proof.
  intros b t m tmo dur by_ rp Hz. cbn [zero_replace] in Hz. apply andb_prop in Hz. destruct Hz as [Hd ->].
  apply N.eqb_eq in Hd. subst dur. cbn [replay_begin].
  replace (t + Z.of_N 0)%Z with t by lia.
  destruct b as [[u fl]|]; [reflexivity|]. rewrite Bool.orb_true_r. reflexivity.
Qed.

Lemma is_bendb_spec : forall X e, is_bendb X e = true <-> is_bend X e.
Proof.
  intros X e. unfold is_bendb, is_bend. destruct (se_ev e); split; try discriminate; try (intros [? _]; discriminate).
  - intros E. split; [reflexivity|apply Bool.eqb_prop; exact E].
  - intros [_ ->]. apply Bool.eqb_reflx.
Qed.

Lemma is_bendb_not_end : forall X e, se_ev e <> TEBlockingEnd -> is_bendb X e = false.
Proof. intros X e H. unfold is_bendb. destruct (se_ev e); try reflexivity. contradiction. Qed.

Lemma Rp_not_end : forall H f e, se_ev e <> TEBlockingEnd -> forall X, Rp H f e X = Rf H f X.
Proof. intros H f e Hne X. unfold Rp, Rf. rewrite (is_bendb_not_end X e Hne). reflexivity. Qed.

Lemma tinv_pop_move : forall H st t f G st' e,
  tinv H st t f G noex -> is_complb e = true -> same_slots st st' ->
  Permutation (cqs st (se_client e)) (e :: cqs st' (se_client e)) ->
  Permutation (cqs st' (negb (se_client e))) (cqs st (negb (se_client e))) ->
  (t <= se_time e)%Z -> tinv H st' (se_time e) f G (ex_of e).
Proof.
  intros H st t f G st' e I He Hs Hp1 Hp2 Ht.
  eapply tinv_move; [exact I|exact Hs| |exact Ht].
  intros X. cbn [noex app]. unfold ex_of. rewrite He. cbn [andb].
  destruct (Bool.eqb (se_client e) X) eqn:EX.
  - apply Bool.eqb_prop in EX. subst X. cbn [app]. exact Hp1.
  - assert (X = negb (se_client e)) as -> by (destruct X, (se_client e); try reflexivity; discriminate).
    cbn [app]. apply Permutation_sym. exact Hp2.
Qed.

(** an event other than a BlockingEnd returned from a state satisfying the invariant: no zero-duration
    replacing block is in progress (its expiry "now" would have been reported first) *)
Lemma einvR_leave_queue : forall H st t f G st' e,
  tinv H st t f G noex -> einvR true (Rf H f) H st G -> same_d st st' ->
  (forall Y u fl, dsim st Y = Some (u, fl) -> (t < u)%Z) -> se_ev e <> TEBlockingEnd ->
  einvR false (Rp H f e) H st' G.
Proof.
  intros H st t f G st' e I E Hd Hlive Hne.
  assert (HR : forall X, Rp H f e X = Rf H f X) by (apply Rp_not_end; exact Hne).
  destruct E as [H1 H2 H3|X x j H1 H2 H3 H4].
  - apply einv0; [exact H1|exact H2|]. intros X. rewrite Hd, HR. apply H3.
  - apply (einv1 _ _ _ _ _ X x j); [exact H1|exact H2|rewrite Hd, HR; exact H3|].
    destruct H4 as [[B Ex]|[B [(a & A1 & A2 & A3)|[_ (a & fl & Z1 & Z2 & Z3 & Z4)]]]].
    + left. split; [exact B|]. rewrite Hd, HR. exact Ex.
    + right. split; [exact B|]. left. exists a. split; [exact A1|]. rewrite !Hd, HR. auto.
    + exfalso. pose proof (Hlive X _ _ Z3) as L.
      assert (Hin : In (x, j) (G X)) by (rewrite H1; left; reflexivity).
      destruct (ti_qcause _ _ _ _ _ _ I X x j Hin) as (_ & _ & L2). lia.
Qed.

Theorem einv_run : forall st t r st', pn_runE st t r st' ->
  forall H f G, huniq H -> tinv H st t f G noex -> einvR true (Rf H f) H st G ->
  match r with
  | None => True
  | Some e => exists G', tinv H st' (se_time e) f G' (ex_of e) /\
      (forall X p, In p (G X) -> In p (G' X)) /\
      einvR false (Rp H f e) H st' G' /\
      (forall X x j, G X = [(x, j)] -> is_beginb x = true -> pnormal (Rf H f) H st X x j -> ~ is_bend X e)
  end.
Proof.
  intros st t r st' R.
  induction R as [st t|st t st1 t1 r st' Hs Hc Ht _ Hd _ IH
                 |st t st1 t1 r st' X mi a x Hn Hs1 Hs2 Hp1 Hp2 Hcm Htx Hcx Ht _ Hstrict Hb1 Hex Hlive _ IH
                 |st t e st' u fl He Hs Hc Ht _ Hu Hue Hnone Hbo
                 |st t e st' He Hne Hs Hc Ht _ Hd Hlive
                 |st t e st' He Hs Hp1 Hp2 Ht _ Hd Hlive]; intros H f G HU I E.
  - exact Logic.I.
  - (* skip *)
    assert (I1 : tinv H st1 t1 f G noex).
    { eapply tinv_move; [exact I|exact Hs| |exact Ht].
      intros X. cbn [noex app]. apply Permutation_sym. apply Hc. }
    specialize (IH H f G HU I1 (einvR_same_d _ _ _ _ _ _ Hd E)).
    destruct r as [e|]; [|exact Logic.I].
    destruct IH as (G' & J1 & J2 & J3 & J4). exists G'. split; [exact J1|]. split; [exact J2|]. split; [exact J3|].
    intros Y y j HG Hb Hp. apply (J4 Y y j HG Hb). eapply pnormal_same_d; eassumption.
  - (* a slot fires *)
    pose proof (G_nil_at_fire _ _ _ _ _ _ I Hstrict Ht) as Hnil.
    assert (Hd0 : forall Y, dsim st Y = Rf H f Y).
    { destruct E as [_ _ H3|Y y j H1 _ _ _]; [exact H3|]. rewrite Hnil in H1. discriminate. }
    destruct (tinv_fire_x _ _ _ _ _ _ _ _ _ _ _ I Hn Hs1 Hs2 Hp1 Hp2 Hcm Htx Hcx Ht) as (j & rj & Hj & Haj & I').
    set (G1 := fun Y => if Bool.eqb Y X then (x, j) :: G Y else G Y) in *.
    assert (HG1 : G1 X = [(x, j)]).
    { unfold G1. rewrite Bool.eqb_reflx, Hnil. reflexivity. }
    assert (HG2 : G1 (negb X) = []).
    { unfold G1. replace (Bool.eqb (negb X) X) with false by (destruct X; reflexivity). apply Hnil. }
    assert (E1 : einvR true (Rf H f) H st1 G1).
    { apply (einv1 _ _ _ _ _ X x j HG1 HG2); [rewrite Hb1; apply Hd0|].
      destruct a as [m tm|m tmo by_ rp|m tmo dur by_ rp|m dur rp]; cbn [completes] in Hcm; try contradiction.
      - left. destruct Hcm as (Hev & _). split; [unfold is_beginb; rewrite Hev; reflexivity|].
        rewrite Hex. cbn [replay_begin]. apply Hd0.
      - right. split; [unfold is_beginb; rewrite Hcm; reflexivity|].
        assert (Hact : act_of H j (cmach x) = Some (TBlockOutgoing m tmo dur by_ rp)).
        { replace (cmach x) with (taction_machine (TBlockOutgoing m tmo dur by_ rp))
            by (unfold cmach; rewrite Hcm; reflexivity).
          eapply act_of_uniq; eassumption. }
        destruct (zero_replace (TBlockOutgoing m tmo dur by_ rp)) eqn:Ez.
        + right. split; [reflexivity|]. exists (TBlockOutgoing m tmo dur by_ rp), by_.
          split; [exact Hact|]. split; [exact Ez|]. split.
          * rewrite Hex, Htx. apply replay_begin_zero_replace. exact Ez.
          * intros u0 fl0 Hs0. rewrite Hb1 in Hs0. rewrite Htx. eapply Hlive. exact Hs0.
        + left. exists (TBlockOutgoing m tmo dur by_ rp). split; [exact Hact|]. split.
          * unfold replay_begin_r. rewrite Ez, Hex, Hd0, Htx. reflexivity.
          * intros u0 fl0 Hs0. rewrite Hex in Hs0. rewrite Htx.
            eapply replay_begin_live; [exact Ez| |exact Hs0]. intros u1 fl1 Hs1'. eapply Hlive. exact Hs1'. }
    specialize (IH H f G1 HU I' E1).
    destruct r as [e|]; [|exact Logic.I].
    destruct IH as (G' & J1 & J2 & J3 & J4). exists G'. split; [exact J1|]. split; [|split; [exact J3|]].
    + intros Y p Hp. rewrite Hnil in Hp. destruct Hp.
    + intros Y y j0 HG. rewrite Hnil in HG. discriminate.
  - (* blocking expiry *)
    exists G. split; [|split; [auto|split]].
    + eapply tinv_move; [exact I|exact Hs| |exact Ht].
      intros X. rewrite (ex_of_other _ _ (bend_not_compl _ He)). cbn [noex app]. apply Permutation_sym. apply Hc.
    + assert (RpE : Rp H f e (se_client e) = None).
      { unfold Rp, is_bendb. rewrite He, Bool.eqb_reflx. reflexivity. }
      assert (RpO : Rp H f e (negb (se_client e)) = Rf H f (negb (se_client e))).
      { unfold Rp, Rf, is_bendb. rewrite He.
        replace (Bool.eqb (se_client e) (negb (se_client e))) with false by (destruct (se_client e); reflexivity).
        reflexivity. }
      destruct E as [H1 H2 H3|X x j H1 H2 H3 H4].
      * apply einv0; [exact H1|exact H2|]. intros X.
        destruct (negb_cases (se_client e) X) as [->| ->]; [rewrite Hnone, RpE; reflexivity|].
        rewrite Hbo, RpO. apply H3.
      * assert (Hin : In (x, j) (G X)) by (rewrite H1; left; reflexivity).
        pose proof (Hue X x (G_in_cqs _ _ _ _ _ _ _ _ I Hin)) as Lx.
        apply (einv1 _ _ _ _ _ X x j H1 H2).
        -- destruct (negb_cases (se_client e) (negb X)) as [Eq|Eq]; rewrite Eq.
           ++ rewrite Hnone, RpE. reflexivity.
           ++ rewrite Hbo, RpO, <- Eq. exact H3.
        -- destruct (negb_cases (se_client e) X) as [EX|EX].
           ++ (* the end of the side with the pending completion *)
              destruct H4 as [[B Ex]|[B [(a & A1 & A2 & A3)|[_ (a & fl0 & Z1 & Z2 & Z3 & Z4)]]]].
              ** left. split; [exact B|]. rewrite EX, Hnone, RpE. reflexivity.
              ** exfalso. rewrite EX in A3. specialize (A3 _ _ Hu). lia.
              ** right. split; [exact B|]. left. exists a. split; [exact Z1|]. rewrite EX, Hnone, RpE.
                 split; [unfold replay_begin_r; rewrite Z2; reflexivity|]. intros u0 fl1 Hx. discriminate.
           ++ (* the end of the other side *)
              assert (EX' : se_client e = negb X) by (rewrite EX; destruct (se_client e); reflexivity).
              assert (HRX : Rp H f e X = Rf H f X).
              { rewrite EX. exact RpO. }
              assert (HdX : dsim st' X = dsim st X).
              { rewrite EX. exact Hbo. }
              destruct H4 as [[B Ex]|[B [(a & A1 & A2 & A3)|[_ (a & fl0 & Z1 & Z2 & Z3 & Z4)]]]].
              ** left. split; [exact B|]. rewrite HdX, HRX. exact Ex.
              ** right. split; [exact B|]. left. exists a. split; [exact A1|]. rewrite !HdX, HRX. auto.
              ** exfalso. rewrite EX' in Hu. specialize (Z4 _ _ Hu). lia.
    + intros X x j HG Hb (a & A1 & A2 & A3) [_ Hside].
      assert (Hin : In (x, j) (G X)) by (rewrite HG; left; reflexivity).
      pose proof (Hue X x (G_in_cqs _ _ _ _ _ _ _ _ I Hin)) as Lx.
      rewrite Hside in Hu. specialize (A3 _ _ Hu). lia.
  - (* another event leaves the queue *)
    exists G. split; [|split; [auto|split]].
    + eapply tinv_move; [exact I|exact Hs| |exact Ht].
      intros X. rewrite (ex_of_other _ _ He). cbn [noex app]. apply Permutation_sym. apply Hc.
    + eapply einvR_leave_queue; eassumption.
    + intros X x j _ _ _ [Hend _]. contradiction.
  - (* a completion leaves the queue *)
    exists G. split; [|split; [auto|split]].
    + eapply tinv_pop_move; eassumption.
    + eapply einvR_leave_queue; try eassumption. apply complb_not_bend. exact He.
    + intros X x j _ _ _ [Hend _]. apply (complb_not_bend _ He). exact Hend.
Qed.
