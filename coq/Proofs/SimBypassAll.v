(** Property C16 at the level of whole runs, the last clause: "bypass is honoured
    only when EVERY action that started or updated the current blocking allowed
    bypass" -- stated over the returned trace and the actions only.

    The blocking descriptor of a side (expiry, "all contributors allowed bypass")
    is REPLAYED from the reported BlockingBegin / BlockingEnd events and the
    actions that caused them ([replayX]); every released TunnelSent is justified
    by that replay ([bypass_all_replay_partial]).

    RESULT. The target as first stated (replay with the contract rule
    [replay_begin], [replayS]) is FALSE: a zero-duration REPLACING BlockOutgoing
    fired while (or while not) blocking sets the expiry to "now"; the simulator
    then reports the BlockingEnd of that instant BEFORE the pending BlockingBegin
    (expiry has priority over the event queue in pick_next), and the side is not
    blocking afterwards, while the literal replay restarts the blocking at the
    late BlockingBegin and never sees an end ([stated_target_refuted], a concrete
    run evaluated by vm_compute; this is the replacing sibling of known finding
    F8). The strongest true variant differs in exactly this corner: the replay
    rule [replay_begin_r] maps a zero-duration replacing block to "not blocking"
    and is [replay_begin] otherwise. With it the four-way claim holds for every
    run on a parsed trace, as stated ([bypass_all_replay_partial]); and the
    statement with the literal rule holds for all runs whose actions contain no
    zero-duration replacing block ([bypass_all_replay_stated_no_zero_replace]).

    Structure
    - 1. the replay ([bdesc], [replay_begin], [replay_begin_r], [act_of],
         [replayG] generic in the begin rule, [replayX], [replayS]) and its
         stability under extension of the history.
    - 2. what firing a scheduled action does to the descriptor of a side,
         exactly ([act_on_dside]).
    - 3. [pick_next] as an abstract run tracking the descriptors exactly
         ([pn_runE], [pick_next_runE]).
    - 4. the exact invariant [einvR]: the simulator's descriptor of each side is
         the replay of the reported prefix, extended by [replay_begin_r] with the
         one pending (fired, not yet reported) BlockingBegin of that side if there
         is one; preserved by runs ([einv_run]).
    - 5. the history property [hp] (clauses 1/2, 3, and the pending form of 4),
         the loop ([linvE], [iter_linvE], [loop_finE]).
    - 6. the theorems ([bypass_all_replay_run] for the instrumented loop,
         [bypass_all_replay_partial] and [bypass_all_replay_history_partial] for
         [sim_advanced] on parsed traces, [bypass_all_replay_stated_no_zero_replace]);
         the readable corollary ([replay_flag_true_all], [replay_flag_all]: the flag
         of the replay is the conjunction over the list of contributing actions
         [replayC]; [replayC_sound]: each contributor caused a BlockingBegin of that
         side reported since its last BlockingEnd).
    - 7. concrete runs evaluated inside Coq: the refutation of the literal statement
         ([stated_target_refuted]), non-vacuity of clause (2) with two contributors
         ([bypass_all_case2_two_contributors]) and of clause (3)
         ([bypass_all_case3_one_step_ahead]). *)
From Coq Require Import List Arith Lia Permutation ZArith Bool Sorted.
From MB Require Import Base.Prelude Model.Framework Model.Sim Proofs.Tactics Proofs.SimHeap.
From MB Require Import Proofs.SimBasics Proofs.SimReach Proofs.SimHistory Proofs.SimActionTrace.
From MB Require Import Proofs.SimBlockTrace Proofs.SimFailClosed.
From MB Require Proofs.SimTimers Proofs.SimBlocking Proofs.SimIdentity Proofs.FrameworkSlots.
Import ListNotations.
Open Scope N_scope.

(** * 1. The replay *)

Definition bdesc := option (Z * bool).          (* expiry, every contributing action allowed bypass *)

(** the contract rule ([SimBlocking.act_on_block_rule] read as a function) *)
Definition replay_begin (b : bdesc) (t : Z) (a : taction) : bdesc :=
  match a with
  | TBlockOutgoing _ _ dur by_ rp =>
      match b with
      | None => if (0 <? dur) || rp then Some ((t + Z.of_N dur)%Z, by_) else None
      | Some (u, fl) =>
          if rp then Some ((t + Z.of_N dur)%Z, by_)
          else if (u <? t + Z.of_N dur)%Z then Some ((t + Z.of_N dur)%Z, fl && by_)
          else Some (u, fl)
      end
  | _ => b
  end.

(** a zero-duration replacing block: its BlockingEnd is reported before its BlockingBegin *)
Definition zero_replace (a : taction) : bool :=
  match a with TBlockOutgoing _ _ dur _ rp => (dur =? 0) && rp | _ => false end.

(** the rule of the true variant: as [replay_begin], except that a zero-duration replacing block
    leaves the side not blocking *)
Definition replay_begin_r (b : bdesc) (t : Z) (a : taction) : bdesc :=
  if zero_replace a then None else replay_begin b t a.

(** THE action for machine [m] in record [j] (unique by [FrameworkSlots.output_contract]) *)
Definition act_of (H : list hrec) (j : nat) (m : N) : option taction :=
  match nth_error H j with
  | Some rj => find (fun a => taction_machine a =? m) (h_acts rj)
  | None => None
  end.

Section Replay.
  Context {D : Type}.
  Variable rb : option D -> Z -> taction -> option D.

  (** one record of the history *)
  Definition rstep (X : bool) (f : nat -> nat) (H : list hrec) (i : nat) (r : hrec) (b : option D) : option D :=
    if Bool.eqb (se_client (h_ev r)) X then
      match se_ev (h_ev r) with
      | TEBlockingBegin m =>
          match act_of H (f i) m with Some a => rb b (se_time (h_ev r)) a | None => b end
      | TEBlockingEnd => None
      | _ => b
      end
    else b.

  (** the fold over the records [H[0..k)] *)
  Fixpoint replayG (X : bool) (f : nat -> nat) (H : list hrec) (k : nat) : option D :=
    match k with
    | O => None
    | S k' =>
        match nth_error H k' with
        | Some r => rstep X f H k' r (replayG X f H k')
        | None => replayG X f H k'
        end
    end.

  Lemma replayG_S : forall X f H k r, nth_error H k = Some r ->
    replayG X f H (S k) = rstep X f H k r (replayG X f H k).
  Proof. intros X f H k r E. cbn [replayG]. rewrite E. reflexivity. Qed.

  Lemma act_of_snoc : forall H r j m, (j < length H)%nat -> act_of (H ++ [r]) j m = act_of H j m.
  Proof. intros H r j m L. unfold act_of. rewrite nth_error_app1 by exact L. reflexivity. Qed.

  Lemma rstep_noncompl : forall X f H i r b, is_complb (h_ev r) = false ->
    rstep X f H i r b = if Bool.eqb (se_client (h_ev r)) X
                        then match se_ev (h_ev r) with TEBlockingEnd => None | _ => b end else b.
  Proof.
    intros X f H i r b Hc. unfold rstep. destruct (Bool.eqb _ X); [|reflexivity].
    unfold is_complb in Hc. destruct (se_ev (h_ev r)); try reflexivity; discriminate.
  Qed.

  Lemma rstep_other_side : forall X f H i r b, se_client (h_ev r) <> X -> rstep X f H i r b = b.
  Proof.
    intros X f H i r b Hne. unfold rstep. destruct (Bool.eqb (se_client (h_ev r)) X) eqn:E; [|reflexivity].
    apply Bool.eqb_prop in E. contradiction.
  Qed.

  (** the replay of a prefix does not change when the history is extended *)
  Lemma replayG_snoc : forall X f f' H r k,
    (k <= length H)%nat -> (forall i, (i < k)%nat -> f' i = f i) ->
    (forall i ri, (i < k)%nat -> nth_error H i = Some ri -> is_complb (h_ev ri) = true -> (f i < length H)%nat) ->
    replayG X f' (H ++ [r]) k = replayG X f H k.
  Proof.
    intros X f f' H r. induction k as [|k IH]; intros Lk Hf Hlt; [reflexivity|].
    cbn [replayG]. rewrite nth_error_app1 by lia.
    rewrite IH; [|lia|intros i Hi; apply Hf; lia|intros i ri Hi; apply Hlt; lia].
    destruct (nth_error H k) as [rk|] eqn:Ek; [|reflexivity].
    unfold rstep. destruct (Bool.eqb _ X); [|reflexivity].
    destruct (se_ev (h_ev rk)) eqn:Eev; try reflexivity.
    rewrite (Hf k) by lia. rewrite act_of_snoc; [reflexivity|].
    apply (Hlt k rk); [lia|exact Ek|]. unfold is_complb. rewrite Eev. reflexivity.
  Qed.

  (** the replay depends on [f] only at the BlockingBegin records *)
  Lemma replayG_ext : forall X f g H k,
    (forall i ri m, (i < k)%nat -> nth_error H i = Some ri -> se_ev (h_ev ri) = TEBlockingBegin m -> f i = g i) ->
    replayG X f H k = replayG X g H k.
  Proof.
    intros X f g H. induction k as [|k IH]; intros Hfg; [reflexivity|].
    cbn [replayG]. rewrite IH by (intros i ri m Hi; apply (Hfg i ri m); lia).
    destruct (nth_error H k) as [rk|] eqn:Ek; [|reflexivity].
    unfold rstep. destruct (Bool.eqb _ X); [|reflexivity].
    destruct (se_ev (h_ev rk)) eqn:Eev; try reflexivity.
    rewrite (Hfg k rk m); [reflexivity|lia|exact Ek|exact Eev].
  Qed.

  (** no BlockingBegin / BlockingEnd of side [X] in [k, n): the descriptor does not move *)
  Lemma replayG_const : forall X f H k n, (k <= n)%nat ->
    (forall i ri, (k <= i < n)%nat -> nth_error H i = Some ri -> se_client (h_ev ri) = X ->
       is_complb (h_ev ri) = false /\ se_ev (h_ev ri) <> TEBlockingEnd) ->
    replayG X f H n = replayG X f H k.
  Proof.
    intros X f H k n Hkn. induction Hkn as [|n Hkn IH]; intros Hno; [reflexivity|].
    cbn [replayG]. destruct (nth_error H n) as [rn|] eqn:En.
    - rewrite IH by (intros i ri Hi; apply Hno; lia).
      destruct (Bool.bool_dec (se_client (h_ev rn)) X) as [E|E]; [|apply rstep_other_side; exact E].
      destruct (Hno n rn) as [Hc Hne]; [lia|exact En|exact E|].
      rewrite rstep_noncompl by exact Hc. destruct (Bool.eqb _ X); [|reflexivity].
      destruct (se_ev (h_ev rn)); try reflexivity. contradiction.
    - apply IH. intros i ri Hi. apply Hno. lia.
  Qed.
End Replay.

(** the replay of the true variant, and the replay as first stated *)
Definition replayX : bool -> (nat -> nat) -> list hrec -> nat -> bdesc := replayG replay_begin_r.
Definition replayS : bool -> (nat -> nat) -> list hrec -> nat -> bdesc := replayG replay_begin.

(** a release is justified by a descriptor: not blocking, or every contributor allowed bypass and
    the packet carries the bypass flag *)
Definition judged (b : bdesc) (e : sev) : Prop :=
  b = None \/ exists u, b = Some (u, true) /\ se_bypass e = true.

(** * 2. Firing a scheduled action, exactly *)

Definition dside (sd : side) : bdesc :=
  match s_buntil sd with None => None | Some u => Some (u, s_bbypass sd) end.

Lemma act_on_dside : forall sd ic a t sd' e,
  act_on sd ic a t = Ok (sd', e) -> dside sd' = replay_begin (dside sd) t a.
Proof.
  intros sd ic a t sd' e H.
  destruct a as [m tm|m tmo by_ rp|m tmo dur by_ rp|m dur rp]; unfold act_on in H; try discriminate.
  - injection H as <- _. reflexivity.
  - injection H as <- _. unfold dside, replay_begin.
    destruct (s_buntil sd) as [u|] eqn:Eu.
    + destruct rp; cbn [orb].
      * unfold side_set_block. cbn [s_buntil s_bbypass]. reflexivity.
      * destruct (u <? t + Z.of_N dur)%Z.
        -- unfold side_set_block. cbn [s_buntil s_bbypass]. reflexivity.
        -- rewrite Eu. reflexivity.
    + destruct rp; cbn [orb].
      * rewrite Bool.orb_true_r. unfold side_set_block. cbn [s_buntil s_bbypass]. reflexivity.
      * rewrite Bool.orb_false_r.
        destruct (Z.ltb_spec t (t + Z.of_N dur)) as [L|L]; destruct (N.ltb_spec 0 dur) as [L'|L']; try lia.
        -- unfold side_set_block. cbn [s_buntil s_bbypass]. reflexivity.
        -- rewrite Eu. reflexivity.
Qed.

Lemma do_scheduled_action_E : forall c s target c' s' e,
  do_scheduled_action c s target = Ok (c', s', e) ->
  exists (ic : bool) (mi : nat) (a : taction),
    let sd := if ic then c else s in
    let sd' := if ic then c' else s' in
    nth_error (s_sched sd) mi = Some (Some (a, target)) /\
    s_sched sd' = upd (s_sched sd) mi None /\
    (if ic then s' = s else c' = c) /\
    se_time e = target /\ se_client e = ic /\ completes a e /\
    dside sd' = replay_begin (dside sd) target a.
Proof.
  intros c s target c' s' e H. unfold do_scheduled_action in H.
  destruct (take_action (s_sched c) target) as [[[a t] l]|] eqn:Ec.
  - mbind H as p E. destruct p as [c1 e1]. injection H as <- <- <-.
    apply SimTimers.take_action_spec in Ec. destruct Ec as (mi & -> & Hn & -> & _).
    pose proof (act_on_dside _ _ _ _ _ _ E) as B.
    apply SimTimers.act_on_spec in E. destruct E as (A1 & A2 & A3 & A4 & A5 & A6).
    cbn [side_set_sched s_sched] in A1.
    exists true, mi, a. cbv zeta.
    split; [exact Hn|]. split; [exact A1|]. split; [reflexivity|]. split; [exact A4|]. split; [exact A5|].
    split; [|exact B].
    apply completes_of_spec. destruct a; try exact A6. tauto.
  - destruct (take_action (s_sched s) target) as [[[a t] l]|] eqn:Es; [|discriminate].
    mbind H as p E. destruct p as [s1 e1]. injection H as <- <- <-.
    apply SimTimers.take_action_spec in Es. destruct Es as (mi & -> & Hn & -> & _).
    pose proof (act_on_dside _ _ _ _ _ _ E) as B.
    apply SimTimers.act_on_spec in E. destruct E as (A1 & A2 & A3 & A4 & A5 & A6).
    cbn [side_set_sched s_sched] in A1.
    exists false, mi, a. cbv zeta.
    split; [exact Hn|]. split; [exact A1|]. split; [reflexivity|]. split; [exact A4|]. split; [exact A5|].
    split; [|exact B].
    apply completes_of_spec. destruct a; try exact A6. tauto.
Qed.

(** * 3. [pick_next] as a run that tracks the descriptors exactly *)

(** the descriptor of side [X] in the simulator state *)
Definition dsim (st : sim) (X : bool) : bdesc := dside (if X then m_c st else m_s st).
Definition same_d (st st' : sim) : Prop := forall X, dsim st' X = dsim st X.

Lemma pbe_le : forall bc bs t b bic, peek_blocked_exp bc bs t = (b, bic) ->
  (forall u, bc = Some u -> b <= since u t) /\ (forall u, bs = Some u -> b <= since u t).
Proof.
  intros bc bs t b bic H. unfold peek_blocked_exp in H.
  destruct bc as [c|], bs as [s|].
  - destruct (Z.ltb_spec c s); injection H as <- _; split; intros u E; injection E as <-;
      try lia; apply SimBlocking.since_mono; lia.
  - injection H as <- _. split; intros u E; [injection E as <-; lia|discriminate].
  - injection H as <- _. split; intros u E; [discriminate|injection E as <-; lia].
  - split; intros u E; discriminate.
Qed.

Lemma arith_q_lt_b : forall sa it b q, C2 sa it b q = false -> C3 sa it q = true -> q < b.
Proof. unfold C2, C3. intros sa it b q E2 E3. b2p; lia. Qed.

Lemma arith_sa_lt_b : forall sa it b q, C2 sa it b q = false -> C3 sa it q = false -> sa < it -> sa < b.
Proof. unfold C2, C3. intros sa it b q E2 E3 L. b2p; lia. Qed.

Lemma since_gt : forall u t d, d < since u t -> (t + Z.of_N d < u)%Z.
Proof. intros u t d. unfold since. lia. Qed.

Lemma dside_some : forall sd u fl, dside sd = Some (u, fl) -> s_buntil sd = Some u.
Proof. intros sd u fl H. unfold dside in H. destruct (s_buntil sd); [injection H as <- _; reflexivity|discriminate]. Qed.

Inductive pn_runE : sim -> Z -> option sev -> sim -> Prop :=
| runE_none : forall st t, pn_runE st t None st
| runE_skip : forall st t st1 t1 r st',
    same_slots st st1 -> same_cq st st1 -> (t <= t1)%Z -> qge st1 t1 -> same_d st st1 ->
    pn_runE st1 t1 r st' -> pn_runE st t r st'
| runE_fire : forall st t st1 t1 r st' X mi a x,
    nth_error (slotsX st X) mi = Some (Some (a, t1)) ->
    slotsX st1 X = upd (slotsX st X) mi None -> slotsX st1 (negb X) = slotsX st (negb X) ->
    Permutation (cqs st1 X) (x :: cqs st X) -> Permutation (cqs st1 (negb X)) (cqs st (negb X)) ->
    completes a x -> se_time x = t1 -> se_client x = X -> (t <= t1)%Z -> qge st1 t1 ->
    (* every completion still queued is due strictly later: with [tinv] none is queued *)
    (forall Y y, In y (cqs st Y) -> (t1 < se_time y)%Z) ->
    dsim st1 (negb X) = dsim st (negb X) ->
    (* the contract rule, exactly *)
    dsim st1 X = replay_begin (dsim st X) t1 a ->
    (* a slot fires strictly before the expiry of either side *)
    (forall Y u fl, dsim st Y = Some (u, fl) -> (t1 < u)%Z) ->
    pn_runE st1 t1 r st' -> pn_runE st t r st'
| runE_end : forall st t e st' u fl,
    se_ev e = TEBlockingEnd -> same_slots st st' -> same_cq st st' -> (t <= se_time e)%Z -> qge st' (se_time e) ->
    dsim st (se_client e) = Some (u, fl) -> (forall Y y, In y (cqs st Y) -> (u <= se_time y)%Z) ->
    dsim st' (se_client e) = None ->
    dsim st' (negb (se_client e)) = dsim st (negb (se_client e)) ->
    pn_runE st t (Some e) st'
| runE_other : forall st t e st',
    is_complb e = false -> se_ev e <> TEBlockingEnd ->
    same_slots st st' -> same_cq st st' -> (t <= se_time e)%Z -> qge st' (se_time e) -> same_d st st' ->
    (* an event leaves the queue strictly before the expiry of either side *)
    (forall Y u fl, dsim st Y = Some (u, fl) -> (t < u)%Z) ->
    pn_runE st t (Some e) st'
| runE_pop : forall st t e st',
    is_complb e = true -> same_slots st st' ->
    Permutation (cqs st (se_client e)) (e :: cqs st' (se_client e)) ->
    Permutation (cqs st' (negb (se_client e))) (cqs st (negb (se_client e))) ->
    (t <= se_time e)%Z -> qge st' (se_time e) -> same_d st st' ->
    (forall Y u fl, dsim st Y = Some (u, fl) -> (t < u)%Z) ->
    pn_runE st t (Some e) st'.

Theorem pick_next_runE : forall fuel st t r st',
  SimBlocking.sq_inv (m_sq st) -> hpi (m_sq st) -> qge st t ->
  pick_next fuel st t = Ok (r, st') -> pn_runE st t r st' /\ hpi (m_sq st').
Proof.
  induction fuel as [|fuel IH]; intros st t r st' Hinv Hh Hq H; [discriminate H|].
  pose proof (proj1 Hinv) as Hwf.
  apply pn_unfoldB in H. destruct H as (b & bic & q & w & qic & Hb & Hpq & H). cbv zeta in Hpq, H.
  set (sa := peek_sched (s_sched (m_c st)) (s_sched (m_s st)) t) in *.
  set (it := peek_timers (s_timers (m_c st)) (s_timers (m_s st)) t) in *.
  set (n := net_peek_agg (m_net st) t) in *.
  assert (Bsa : sa <= DMAX) by apply peek_sched_le.
  assert (Bit : it <= DMAX) by apply peek_timers_le.
  assert (Bn : n <= DMAX) by apply SimBlocking.net_peek_agg_le_DMAX.
  assert (Bb : b <= DMAX) by (eapply SimTimers.peek_blocked_exp_le; exact Hb).
  assert (Bq : q <= DMAX).
  { pose proof (SimBlocking.peek_queue_le_DMAX (m_sq st) (m_c st) (m_s st) (n_cagg (m_net st)) (n_sagg (m_net st))
                  (N.min (N.min (N.min sa it) b) n) t) as L. rewrite Hpq in L. exact L. }
  assert (Hsx : forall X x, In x (cqs st X) ->
            (t <= se_time x)%Z /\
            (q <= since (se_time x) t \/ (q = DMAX /\ N.min (N.min (N.min sa it) b) n < since (se_time x) t))).
  { intros X x Hx. split; [apply (Hq X x Hx)|].
    eapply peek_queue_int_le; [apply Hh|apply in_cqs_iq; exact Hx|exact Hpq]. }
  (* every side that blocks expires no earlier than [b] from now *)
  assert (Hble : forall Y u fl, dsim st Y = Some (u, fl) -> b <= since u t).
  { intros Y u fl Hd. apply dside_some in Hd. destruct (pbe_le _ _ _ _ _ Hb) as [Lc Ls].
    destruct Y; [apply Lc|apply Ls]; exact Hd. }
  destruct H as [(-> & ->)|[H|(E0 & E1 & [(E2 & -> & net' & ->)|(E2 & H)])]].
  - split; [apply runE_none|exact Hh].
  - (* aggregate delay popped *)
    destruct (IH (mksim (m_sq st) (m_c st) (m_s st) (net_pop_agg (m_net st)) (m_pos st)) t r st' Hinv Hh Hq H) as [R Hh'].
    split; [|exact Hh'].
    apply (runE_skip st t (mksim (m_sq st) (m_c st) (m_s st) (net_pop_agg (m_net st)) (m_pos st)) t r st');
      [intros X; reflexivity|intros X; apply Permutation_refl|lia|exact Hq|intros X; reflexivity|exact R].
  - (* blocking expiry *)
    split; [|exact Hh].
    pose proof (arith_bD _ _ _ _ _ E0 E1 E2 Bsa Bit Bn Bq) as HbD.
    destruct (peek_blocked_exp_some _ _ _ _ _ Hb HbD) as (u & Hu & Hbu).
    apply (runE_end _ _ _ _ u (if bic then s_bbypass (m_c st) else s_bbypass (m_s st))); cbn [se_ev se_time se_client].
    + reflexivity.
    + intros [|]; unfold slotsX; cbn [m_c m_s]; destruct bic; reflexivity.
    + intros X; apply Permutation_refl.
    + lia.
    + intros X x Hx.
      match type of Hx with In x (cqs ?s X) => change (cqs s X) with (cqs st X) in Hx end.
      destruct (Hsx X x Hx) as [Ht Hx'].
      pose proof (arith_b _ _ _ _ _ _ E1 E2 Bn Hx') as Hbx.
      pose proof (SimTimers.since_below _ _ Ht). lia.
    + unfold dsim, dside. destruct bic; rewrite Hu; reflexivity.
    + intros Y y Hy. destruct (Hsx Y y Hy) as [Ht Hx'].
      pose proof (arith_b _ _ _ _ _ _ E1 E2 Bn Hx') as Hbx.
      apply (since_lt_le u (se_time y) t); [rewrite <- Hbu; exact HbD|rewrite <- Hbu; exact Hbx|exact Ht].
    + unfold dsim, dside. destruct bic; cbn [m_c m_s side_set_block s_buntil]; reflexivity.
    + unfold dsim. destruct bic; reflexivity.
  - destruct H as [(E3 & tmp & sq' & Hpop & -> & ->)|(E3 & H)].
    + (* the head of the queue *)
      pose proof (arith_q _ _ _ _ _ E0 E1 E2 E3 Bsa Bit Bb Bn) as Hqd.
      pose proof (SimTimers.peek_pop_consistent _ _ _ _ _ _ _ _ _ _ _ _ (wf_simq_sq_wf _ Hwf) Hpq Hqd Hpop) as Htmp.
      destruct (cq_pop _ _ _ _ _ _ Hwf Hpop) as (Hcl & Hperm & Hin).
      destruct (SimBlocking.sq_pop_inv _ _ _ _ _ _ Hinv Hpop) as [_ Hnbend].
      split; [|eapply hpi_pop; [exact Hh|exact Hpop]].
      assert (Hlive : forall Y u fl, dsim st Y = Some (u, fl) -> (t < u)%Z).
      { intros Y u fl Hd. pose proof (Hble Y u fl Hd) as L1.
        pose proof (arith_q_lt_b _ _ _ _ E2 E3) as L2.
        assert (L3 : q < since u t) by lia. apply since_gt in L3. lia. }
      assert (Hrest : forall X x, In x (cq sq' X) -> (t + Z.of_N q <= se_time x)%Z).
      { intros X x Hx.
        assert (Hx0 : In x (cqs st X)).
        { unfold cqs. apply (Permutation_in _ (Permutation_sym (Hperm X))).
          destruct (_ && _); [right|]; exact Hx. }
        destruct (Hsx X x Hx0) as [Ht [Hx'|[Hx' _]]]; [|lia].
        pose proof (SimTimers.since_below _ _ Ht). lia. }
      destruct (is_complb tmp) eqn:Ec.
      * (* a completion: its time is not changed *)
        assert (Hx0 : In tmp (cqs st qic)).
        { unfold cqs. apply (Permutation_in _ (Permutation_sym (Hperm qic))).
          rewrite Bool.eqb_reflx. cbn [andb]. left. reflexivity. }
        destruct (Hsx qic tmp Hx0) as [Ht [Hx'|[Hx' _]]]; [|lia].
        pose proof (SimTimers.since_below _ _ Ht) as Hbl.
        destruct (Z.ltb_spec (se_time tmp) (t + Z.of_N q)) as [L|L]; [lia|].
        apply runE_pop; [exact Ec|intros X; reflexivity| | | | |intros X; reflexivity|exact Hlive].
        -- rewrite Hcl. pose proof (Hperm qic) as P. rewrite Bool.eqb_reflx in P. exact P.
        -- rewrite Hcl. pose proof (Hperm (negb qic)) as P.
           replace (Bool.eqb qic (negb qic)) with false in P by (destruct qic; reflexivity).
           apply Permutation_sym. exact P.
        -- exact Ht.
        -- intros X x Hx. specialize (Hrest X x Hx). lia.
      * (* another event *)
        set (e := if (se_time tmp <? t + Z.of_N q)%Z then set_time tmp (t + Z.of_N q)%Z else tmp).
        assert (He : is_complb e = false /\ se_time e = (t + Z.of_N q)%Z /\ se_ev e = se_ev tmp).
        { subst e. destruct (Z.ltb_spec (se_time tmp) (t + Z.of_N q)) as [L|L].
          - split; [exact Ec|]. split; reflexivity.
          - split; [exact Ec|]. split; [lia|reflexivity]. }
        destruct He as (He1 & He2 & He3).
        apply runE_other; [exact He1|rewrite He3; exact Hnbend|intros X; reflexivity| | | |intros X; reflexivity|exact Hlive].
        -- intros X. pose proof (Hperm X) as P. rewrite Bool.andb_false_r in P. apply Permutation_sym. exact P.
        -- lia.
        -- intros X x Hx. rewrite He2. apply (Hrest X x Hx).
    + assert (Hmin : forall X x, In x (cqs st X) -> (t + Z.of_N (N.min sa it) <= se_time x)%Z).
      { intros X x Hx. destruct (Hsx X x Hx) as [Ht Hx'].
        pose proof (arith_t _ _ _ _ _ _ E1 E2 E3 Bb Bn Hx').
        pose proof (SimTimers.since_below _ _ Ht). lia. }
      destruct H as [(Hle & c' & s' & e & Hd & H)|(Hlt & c' & s' & e & Hd & H)].
      * (* an internal timer: pick again as of its expiry *)
        pose proof (SimTimers.do_internal_timer_spec _ _ _ _ _ _ Hd) as (ic & mi & Sp). cbv zeta in Sp.
        assert (Hs : s_sched c' = s_sched (m_c st) /\ s_sched s' = s_sched (m_s st) /\ is_complb e = false /\
                     dside c' = dside (m_c st) /\ dside s' = dside (m_s st) /\
                     se_ev e <> TEBlockingEnd).
        { destruct ic; destruct Sp as (_ & _ & S3 & S4 & _ & S6 & S7 & ->); subst; cbn [se_ev]; unfold dside;
            rewrite ?S6, ?S7; (repeat (split; [solve [auto]|])); discriminate. }
        destruct Hs as (Sc & Ss & Ec & Bc & Bs & Ene).
        set (st1 := mksim (sq_push (m_sq st) e) c' s' (m_net st) (m_pos st)) in *.
        assert (Hcq : same_cq st st1). { intros X. apply cq_push_other. exact Ec. }
        assert (Hq1 : qge st1 (t + Z.of_N it)%Z).
        { intros X x Hx. apply (Permutation_in _ (Hcq X)) in Hx. specialize (Hmin X x Hx). lia. }
        destruct (IH st1 _ r st' (SimBlocking.sq_push_inv _ _ Hinv Ene) (hpi_push _ _ Hh) Hq1 H) as [R Hh'].
        split; [|exact Hh'].
        eapply runE_skip; [|exact Hcq| |exact Hq1| |exact R]; [|lia|].
        -- intros [|]; unfold slotsX; cbn [m_c m_s]; assumption.
        -- intros [|]; unfold dsim; cbn [m_c m_s]; assumption.
      * (* a scheduled action fires *)
        pose proof (do_scheduled_action_E _ _ _ _ _ _ Hd) as (ic & mi & a & Sp). cbv zeta in Sp.
        destruct Sp as (S1 & S2 & S3 & S6 & S7 & Hc & B1).
        destruct (completes_compl _ _ Hc) as [Ec _].
        set (st1 := mksim (sq_push (m_sq st) e) c' s' (m_net st) (m_pos st)) in *.
        assert (Hcq1 : Permutation (cqs st1 ic) (e :: cqs st ic)).
        { unfold cqs, st1; cbn [m_sq]. pose proof (cq_push (m_sq st) e ic) as P.
          rewrite S7, Ec, Bool.eqb_reflx in P. exact P. }
        assert (Hcq2 : Permutation (cqs st1 (negb ic)) (cqs st (negb ic))).
        { unfold cqs, st1; cbn [m_sq]. pose proof (cq_push (m_sq st) e (negb ic)) as P.
          rewrite S7 in P. replace (Bool.eqb ic (negb ic)) with false in P by (destruct ic; reflexivity).
          exact P. }
        assert (Hq1 : qge st1 (t + Z.of_N sa)%Z).
        { intros X x Hx.
          assert (Hx' : x = e \/ In x (cqs st X)).
          { destruct (Bool.bool_dec X ic) as [->|Hne].
            - apply (Permutation_in _ Hcq1) in Hx. destruct Hx as [Hx|Hx]; auto.
            - assert (X = negb ic) as -> by (destruct X, ic; try reflexivity; elim Hne; reflexivity).
              apply (Permutation_in _ Hcq2) in Hx. auto. }
          destruct Hx' as [->|Hx']; [lia|]. specialize (Hmin X x Hx'). lia. }
        assert (Hstrict : forall Y y, In y (cqs st Y) -> (t + Z.of_N sa < se_time y)%Z).
        { intros Y y Hy. destruct (Hsx Y y Hy) as [Ht Hx'].
          pose proof (arith_fire _ _ _ _ _ _ E1 E2 E3 Hlt Bit Bb Bn Hx') as L.
          unfold since in L. lia. }
        assert (Hlive : forall Y u fl, dsim st Y = Some (u, fl) -> (t + Z.of_N sa < u)%Z).
        { intros Y u fl Hdd. pose proof (Hble Y u fl Hdd) as L1.
          pose proof (arith_sa_lt_b _ _ _ _ E2 E3 Hlt) as L2.
          apply since_gt. lia. }
        destruct (IH st1 _ r st' (SimBlocking.sq_push_inv _ _ Hinv (complb_not_bend _ Ec)) (hpi_push _ _ Hh) Hq1 H)
          as [R Hh'].
        split; [|exact Hh'].
        eapply (runE_fire st t st1 (t + Z.of_N sa)%Z r st' ic mi a e);
          [ | | |exact Hcq1|exact Hcq2|exact Hc|exact S6|exact S7|lia|exact Hq1|exact Hstrict| | |exact Hlive|exact R].
        -- destruct ic; exact S1.
        -- destruct ic; unfold slotsX, st1; cbn [m_c m_s]; exact S2.
        -- destruct ic; unfold slotsX, st1; cbn [m_c m_s negb]; rewrite S3; reflexivity.
        -- destruct ic; unfold dsim, st1; cbn [m_c m_s negb]; rewrite S3; reflexivity.
        -- destruct ic; unfold dsim, st1; cbn [m_c m_s]; exact B1.
Qed.

Lemma pn_runE_qge : forall st t r st', pn_runE st t r st' ->
  forall e, r = Some e -> qge st' (se_time e) /\ (t <= se_time e)%Z.
Proof.
  intros st t r st' R.
  induction R as [st t|st t st1 t1 r st' _ _ Ht _ _ _ IH
                 |st t st1 t1 r st' X mi a x _ _ _ _ _ _ _ _ Ht _ _ _ _ _ _ IH
                 |st t e0 st' u fl _ _ _ Ht Hq _ _ _ _
                 |st t e0 st' _ _ _ _ Ht Hq _ _|st t e0 st' _ _ _ _ Ht Hq _ _];
    intros e He.
  - discriminate.
  - destruct (IH e He). split; [assumption|lia].
  - destruct (IH e He). split; [assumption|lia].
  - injection He as <-. auto.
  - injection He as <-. auto.
  - injection He as <-. auto.
Qed.

(** * 4. The exact invariant *)

Definition is_beginb (x : sev) : bool := match se_ev x with TEBlockingBegin _ => true | _ => false end.
Definition is_bendb (X : bool) (e : sev) : bool :=
  match se_ev e with TEBlockingEnd => Bool.eqb (se_client e) X | _ => false end.

(** the pending BlockingBegin [x] of side [X] (fired from the action of record [j], not yet
    reported): the simulator is one [replay_begin_r] ahead of the replay [R X] of the reports, and
    blocks (if at all) until after the instant of [x] *)
Definition pnormal (R : bool -> bdesc) (H : list hrec) (st : sim) (X : bool) (x : sev) (j : nat) : Prop :=
  exists a, act_of H j (cmach x) = Some a /\
    dsim st X = replay_begin_r (R X) (se_time x) a /\
    (forall u fl, dsim st X = Some (u, fl) -> (se_time x < u)%Z).

(** inside one [pick_next] only: a zero-duration replacing block has just fired; the side's expiry is
    "now", the BlockingEnd is the next event to be returned *)
Definition pzomb (H : list hrec) (st : sim) (X : bool) (x : sev) (j : nat) : Prop :=
  exists a fl, act_of H j (cmach x) = Some a /\ zero_replace a = true /\
    dsim st X = Some (se_time x, fl) /\
    (forall u fl', dsim st (negb X) = Some (u, fl') -> (se_time x < u)%Z).

(** [G] is the ghost of [tinv]: the queued completions (at most one in all) with their records *)
Inductive einvR (mid : bool) (R : bool -> bdesc) (H : list hrec) (st : sim) (G : bool -> list (sev * nat)) : Prop :=
| einv0 : G true = [] -> G false = [] -> (forall X, dsim st X = R X) -> einvR mid R H st G
| einv1 : forall X x j, G X = [(x, j)] -> G (negb X) = [] -> dsim st (negb X) = R (negb X) ->
    ((is_beginb x = false /\ dsim st X = R X) \/
     (is_beginb x = true /\ (pnormal R H st X x j \/ (mid = true /\ pzomb H st X x j)))) ->
    einvR mid R H st G.

Definition Rf (H : list hrec) (f : nat -> nat) : bool -> bdesc := fun X => replayX X f H (length H).
Definition Rp (H : list hrec) (f : nat -> nat) (e : sev) : bool -> bdesc :=
  fun X => if is_bendb X e then None else replayX X f H (length H).

Lemma G_empty : forall G : bool -> list (sev * nat), G true = [] -> G false = [] -> forall X, G X = [].
Proof. intros G Ht Hf [|]; assumption. Qed.

Lemma pnormal_same_d : forall R H st st1 X x j, same_d st st1 -> pnormal R H st X x j -> pnormal R H st1 X x j.
Proof.
  intros R H st st1 X x j Hd (a & A1 & A2 & A3). exists a. split; [exact A1|]. rewrite !Hd. auto.
Qed.

Lemma einvR_same_d : forall mid R H st st1 G, same_d st st1 -> einvR mid R H st G -> einvR mid R H st1 G.
Proof.
  intros mid R H st st1 G Hd [H1 H2 H3|X x j H1 H2 H3 H4].
  - apply einv0; [exact H1|exact H2|]. intros X. rewrite Hd. apply H3.
  - apply (einv1 _ _ _ _ _ X x j); [exact H1|exact H2|rewrite Hd; exact H3|].
    destruct H4 as [[B E]|[B [P|[M (a & fl & Z1 & Z2 & Z3 & Z4)]]]].
    + left. split; [exact B|]. rewrite Hd. exact E.
    + right. split; [exact B|]. left. eapply pnormal_same_d; eassumption.
    + right. split; [exact B|]. right. split; [exact M|]. exists a, fl. rewrite !Hd. auto.
Qed.

(** with [tinv], a slot fires only when nothing is queued *)
Lemma G_nil_at_fire : forall H st t f G t1,
  tinv H st t f G noex -> (forall Y y, In y (cqs st Y) -> (t1 < se_time y)%Z) -> (t <= t1)%Z ->
  forall Y, G Y = [].
Proof.
  intros H st t f G t1 I Hs Ht Y. destruct (G Y) as [|[x0 j0] l] eqn:E; [reflexivity|exfalso].
  assert (Hin : In (x0, j0) (G Y)) by (rewrite E; left; reflexivity).
  pose proof (Hs Y x0 (G_in_cqs _ _ _ _ _ _ _ _ I Hin)) as L1.
  destruct (ti_qcause _ _ _ _ _ _ I Y x0 j0 Hin) as (_ & _ & L2). lia.
Qed.

Lemma find_uniq : forall (l : list taction) a,
  In a l -> (forall a', In a' l -> taction_machine a' = taction_machine a -> a' = a) ->
  find (fun a' => taction_machine a' =? taction_machine a) l = Some a.
Proof.
  induction l as [|h l IH]; intros a Hin Hu; [destruct Hin|]. cbn [find].
  destruct (N.eqb_spec (taction_machine h) (taction_machine a)) as [E|E].
  - f_equal. apply Hu; [left; reflexivity|exact E].
  - destruct Hin as [->|Hin]; [contradiction|]. apply IH; [exact Hin|].
    intros a' Ha'. apply Hu. right. exact Ha'.
Qed.

Lemma act_of_uniq : forall H j rj a, huniq H -> nth_error H j = Some rj -> In a (h_acts rj) ->
  act_of H j (taction_machine a) = Some a.
Proof.
  intros H j rj a HU Hj Ha. unfold act_of. rewrite Hj. apply find_uniq; [exact Ha|].
  intros a' Ha' E. apply (HU rj a' a); [eapply nth_error_In; exact Hj|exact Ha'|exact Ha|exact E].
Qed.

Lemma replay_begin_live : forall b t a u fl,
  zero_replace a = false -> (forall u0 fl0, b = Some (u0, fl0) -> (t < u0)%Z) ->
  replay_begin b t a = Some (u, fl) -> (t < u)%Z.
Proof.
  intros b t a u fl Hz Hb H.
  destruct a as [m tm|m tmo by_ rp|m tmo dur by_ rp|m dur rp]; cbn [replay_begin] in H; try (eapply Hb; exact H).
  cbn [zero_replace] in Hz.
  destruct b as [[u0 fl0]|].
  - specialize (Hb u0 fl0 eq_refl). destruct rp.
    + injection H as <- _. destruct (N.eqb_spec dur 0); [discriminate|lia].
    + destruct (Z.ltb_spec u0 (t + Z.of_N dur)); injection H as <- _; lia.
  - destruct (N.ltb_spec 0 dur) as [L|L]; cbn [orb] in H.
    + injection H as <- _. lia.
    + destruct rp; [|discriminate]. destruct (N.eqb_spec dur 0); [discriminate|lia].
Qed.

Lemma replay_begin_zero_replace : forall b t m tmo dur by_ rp,
  zero_replace (TBlockOutgoing m tmo dur by_ rp) = true ->
  replay_begin b t (TBlockOutgoing m tmo dur by_ rp) = Some (t, by_).
Proof.
  intros b t m tmo dur by_ rp Hz. cbn [zero_replace] in Hz. apply andb_prop in Hz. destruct Hz as [Hd ->].
  apply N.eqb_eq in Hd. subst dur. cbn [replay_begin].
  replace (t + Z.of_N 0)%Z with t by lia.
  destruct b as [[u fl]|]; [reflexivity|]. rewrite Bool.orb_true_r. reflexivity.
Qed.

Lemma is_bendb_spec : forall X e, is_bendb X e = true <-> is_bend X e.
Proof.
  intros X e. unfold is_bendb, is_bend. destruct (se_ev e); split; try discriminate; try (intros [? _]; discriminate).
  - intros E. split; [reflexivity|apply Bool.eqb_prop; exact E].
  - intros [_ ->]. apply Bool.eqb_reflx.
Qed.

Lemma is_bendb_not_end : forall X e, se_ev e <> TEBlockingEnd -> is_bendb X e = false.
Proof. intros X e H. unfold is_bendb. destruct (se_ev e); try reflexivity. contradiction. Qed.

Lemma Rp_not_end : forall H f e, se_ev e <> TEBlockingEnd -> forall X, Rp H f e X = Rf H f X.
Proof. intros H f e Hne X. unfold Rp, Rf. rewrite (is_bendb_not_end X e Hne). reflexivity. Qed.

Lemma tinv_pop_move : forall H st t f G st' e,
  tinv H st t f G noex -> is_complb e = true -> same_slots st st' ->
  Permutation (cqs st (se_client e)) (e :: cqs st' (se_client e)) ->
  Permutation (cqs st' (negb (se_client e))) (cqs st (negb (se_client e))) ->
  (t <= se_time e)%Z -> tinv H st' (se_time e) f G (ex_of e).
Proof.
  intros H st t f G st' e I He Hs Hp1 Hp2 Ht.
  eapply tinv_move; [exact I|exact Hs| |exact Ht].
  intros X. cbn [noex app]. unfold ex_of. rewrite He. cbn [andb].
  destruct (Bool.eqb (se_client e) X) eqn:EX.
  - apply Bool.eqb_prop in EX. subst X. cbn [app]. exact Hp1.
  - assert (X = negb (se_client e)) as -> by (destruct X, (se_client e); try reflexivity; discriminate).
    cbn [app]. apply Permutation_sym. exact Hp2.
Qed.

(** an event other than a BlockingEnd returned from a state satisfying the invariant: no zero-duration
    replacing block is in progress (its expiry "now" would have been reported first) *)
Lemma einvR_leave_queue : forall H st t f G st' e,
  tinv H st t f G noex -> einvR true (Rf H f) H st G -> same_d st st' ->
  (forall Y u fl, dsim st Y = Some (u, fl) -> (t < u)%Z) -> se_ev e <> TEBlockingEnd ->
  einvR false (Rp H f e) H st' G.
Proof.
  intros H st t f G st' e I E Hd Hlive Hne.
  assert (HR : forall X, Rp H f e X = Rf H f X) by (apply Rp_not_end; exact Hne).
  destruct E as [H1 H2 H3|X x j H1 H2 H3 H4].
  - apply einv0; [exact H1|exact H2|]. intros X. rewrite Hd, HR. apply H3.
  - apply (einv1 _ _ _ _ _ X x j); [exact H1|exact H2|rewrite Hd, HR; exact H3|].
    destruct H4 as [[B Ex]|[B [(a & A1 & A2 & A3)|[_ (a & fl & Z1 & Z2 & Z3 & Z4)]]]].
    + left. split; [exact B|]. rewrite Hd, HR. exact Ex.
    + right. split; [exact B|]. left. exists a. split; [exact A1|]. rewrite !Hd, HR. auto.
    + exfalso. pose proof (Hlive X _ _ Z3) as L.
      assert (Hin : In (x, j) (G X)) by (rewrite H1; left; reflexivity).
      destruct (ti_qcause _ _ _ _ _ _ I X x j Hin) as (_ & _ & L2). lia.
Qed.

Theorem einv_run : forall st t r st', pn_runE st t r st' ->
  forall H f G, huniq H -> tinv H st t f G noex -> einvR true (Rf H f) H st G ->
  match r with
  | None => True
  | Some e => exists G', tinv H st' (se_time e) f G' (ex_of e) /\
      (forall X p, In p (G X) -> In p (G' X)) /\
      einvR false (Rp H f e) H st' G' /\
      (forall X x j, G X = [(x, j)] -> is_beginb x = true -> pnormal (Rf H f) H st X x j -> ~ is_bend X e)
  end.
Proof.
  intros st t r st' R.
  induction R as [st t|st t st1 t1 r st' Hs Hc Ht _ Hd _ IH
                 |st t st1 t1 r st' X mi a x Hn Hs1 Hs2 Hp1 Hp2 Hcm Htx Hcx Ht _ Hstrict Hb1 Hex Hlive _ IH
                 |st t e st' u fl He Hs Hc Ht _ Hu Hue Hnone Hbo
                 |st t e st' He Hne Hs Hc Ht _ Hd Hlive
                 |st t e st' He Hs Hp1 Hp2 Ht _ Hd Hlive]; intros H f G HU I E.
  - exact Logic.I.
  - (* skip *)
    assert (I1 : tinv H st1 t1 f G noex).
    { eapply tinv_move; [exact I|exact Hs| |exact Ht].
      intros X. cbn [noex app]. apply Permutation_sym. apply Hc. }
    specialize (IH H f G HU I1 (einvR_same_d _ _ _ _ _ _ Hd E)).
    destruct r as [e|]; [|exact Logic.I].
    destruct IH as (G' & J1 & J2 & J3 & J4). exists G'. split; [exact J1|]. split; [exact J2|]. split; [exact J3|].
    intros Y y j HG Hb Hp. apply (J4 Y y j HG Hb). eapply pnormal_same_d; eassumption.
  - (* a slot fires *)
    pose proof (G_nil_at_fire _ _ _ _ _ _ I Hstrict Ht) as Hnil.
    assert (Hd0 : forall Y, dsim st Y = Rf H f Y).
    { destruct E as [_ _ H3|Y y j H1 _ _ _]; [exact H3|]. rewrite Hnil in H1. discriminate. }
    destruct (tinv_fire_x _ _ _ _ _ _ _ _ _ _ _ I Hn Hs1 Hs2 Hp1 Hp2 Hcm Htx Hcx Ht) as (j & rj & Hj & Haj & I').
    set (G1 := fun Y => if Bool.eqb Y X then (x, j) :: G Y else G Y) in *.
    assert (HG1 : G1 X = [(x, j)]).
    { unfold G1. rewrite Bool.eqb_reflx, Hnil. reflexivity. }
    assert (HG2 : G1 (negb X) = []).
    { unfold G1. replace (Bool.eqb (negb X) X) with false by (destruct X; reflexivity). apply Hnil. }
    assert (E1 : einvR true (Rf H f) H st1 G1).
    { apply (einv1 _ _ _ _ _ X x j HG1 HG2); [rewrite Hb1; apply Hd0|].
      destruct a as [m tm|m tmo by_ rp|m tmo dur by_ rp|m dur rp]; cbn [completes] in Hcm; try contradiction.
      - left. destruct Hcm as (Hev & _). split; [unfold is_beginb; rewrite Hev; reflexivity|].
        rewrite Hex. cbn [replay_begin]. apply Hd0.
      - right. split; [unfold is_beginb; rewrite Hcm; reflexivity|].
        assert (Hact : act_of H j (cmach x) = Some (TBlockOutgoing m tmo dur by_ rp)).
        { replace (cmach x) with (taction_machine (TBlockOutgoing m tmo dur by_ rp))
            by (unfold cmach; rewrite Hcm; reflexivity).
          eapply act_of_uniq; eassumption. }
        destruct (zero_replace (TBlockOutgoing m tmo dur by_ rp)) eqn:Ez.
        + right. split; [reflexivity|]. exists (TBlockOutgoing m tmo dur by_ rp), by_.
          split; [exact Hact|]. split; [exact Ez|]. split.
          * rewrite Hex, Htx. apply replay_begin_zero_replace. exact Ez.
          * intros u0 fl0 Hs0. rewrite Hb1 in Hs0. rewrite Htx. eapply Hlive. exact Hs0.
        + left. exists (TBlockOutgoing m tmo dur by_ rp). split; [exact Hact|]. split.
          * unfold replay_begin_r. rewrite Ez, Hex, Hd0, Htx. reflexivity.
          * intros u0 fl0 Hs0. rewrite Hex in Hs0. rewrite Htx.
            eapply replay_begin_live; [exact Ez| |exact Hs0]. intros u1 fl1 Hs1'. eapply Hlive. exact Hs1'. }
    specialize (IH H f G1 HU I' E1).
    destruct r as [e|]; [|exact Logic.I].
    destruct IH as (G' & J1 & J2 & J3 & J4). exists G'. split; [exact J1|]. split; [|split; [exact J3|]].
    + intros Y p Hp. rewrite Hnil in Hp. destruct Hp.
    + intros Y y j0 HG. rewrite Hnil in HG. discriminate.
  - (* blocking expiry *)
    exists G. split; [|split; [auto|split]].
    + eapply tinv_move; [exact I|exact Hs| |exact Ht].
      intros X. rewrite (ex_of_other _ _ (bend_not_compl _ He)). cbn [noex app]. apply Permutation_sym. apply Hc.
    + assert (RpE : Rp H f e (se_client e) = None).
      { unfold Rp, is_bendb. rewrite He, Bool.eqb_reflx. reflexivity. }
      assert (RpO : Rp H f e (negb (se_client e)) = Rf H f (negb (se_client e))).
      { unfold Rp, Rf, is_bendb. rewrite He.
        replace (Bool.eqb (se_client e) (negb (se_client e))) with false by (destruct (se_client e); reflexivity).
        reflexivity. }
      destruct E as [H1 H2 H3|X x j H1 H2 H3 H4].
      * apply einv0; [exact H1|exact H2|]. intros X.
        destruct (negb_cases (se_client e) X) as [->| ->]; [rewrite Hnone, RpE; reflexivity|].
        rewrite Hbo, RpO. apply H3.
      * assert (Hin : In (x, j) (G X)) by (rewrite H1; left; reflexivity).
        pose proof (Hue X x (G_in_cqs _ _ _ _ _ _ _ _ I Hin)) as Lx.
        apply (einv1 _ _ _ _ _ X x j H1 H2).
        -- destruct (negb_cases (se_client e) (negb X)) as [Eq|Eq]; rewrite Eq.
           ++ rewrite Hnone, RpE. reflexivity.
           ++ rewrite Hbo, RpO, <- Eq. exact H3.
        -- destruct (negb_cases (se_client e) X) as [EX|EX].
           ++ (* the end of the side with the pending completion *)
              destruct H4 as [[B Ex]|[B [(a & A1 & A2 & A3)|[_ (a & fl0 & Z1 & Z2 & Z3 & Z4)]]]].
              ** left. split; [exact B|]. rewrite EX, Hnone, RpE. reflexivity.
              ** exfalso. rewrite EX in A3. specialize (A3 _ _ Hu). lia.
              ** right. split; [exact B|]. left. exists a. split; [exact Z1|]. rewrite EX, Hnone, RpE.
                 split; [unfold replay_begin_r; rewrite Z2; reflexivity|]. intros u0 fl1 Hx. discriminate.
           ++ (* the end of the other side *)
              assert (EX' : se_client e = negb X) by (rewrite EX; destruct (se_client e); reflexivity).
              assert (HRX : Rp H f e X = Rf H f X).
              { rewrite EX. exact RpO. }
              assert (HdX : dsim st' X = dsim st X).
              { rewrite EX. exact Hbo. }
              destruct H4 as [[B Ex]|[B [(a & A1 & A2 & A3)|[_ (a & fl0 & Z1 & Z2 & Z3 & Z4)]]]].
              ** left. split; [exact B|]. rewrite HdX, HRX. exact Ex.
              ** right. split; [exact B|]. left. exists a. split; [exact A1|]. rewrite !HdX, HRX. auto.
              ** exfalso. rewrite EX' in Hu. specialize (Z4 _ _ Hu). lia.
    + intros X x j HG Hb (a & A1 & A2 & A3) [_ Hside].
      assert (Hin : In (x, j) (G X)) by (rewrite HG; left; reflexivity).
      pose proof (Hue X x (G_in_cqs _ _ _ _ _ _ _ _ I Hin)) as Lx.
      rewrite Hside in Hu. specialize (A3 _ _ Hu). lia.
  - (* another event leaves the queue *)
    exists G. split; [|split; [auto|split]].
    + eapply tinv_move; [exact I|exact Hs| |exact Ht].
      intros X. rewrite (ex_of_other _ _ He). cbn [noex app]. apply Permutation_sym. apply Hc.
    + eapply einvR_leave_queue; eassumption.
    + intros X x j _ _ _ [Hend _]. contradiction.
  - (* a completion leaves the queue *)
    exists G. split; [|split; [auto|split]].
    + eapply tinv_pop_move; eassumption.
    + eapply einvR_leave_queue; try eassumption. apply complb_not_bend. exact He.
    + intros X x j _ _ _ [Hend _]. apply (complb_not_bend _ He). exact Hend.
Qed.

(** * 5. The history property and the loop *)

(** (3): one BlockingBegin of side [X] fired in the instant of the release [k] and is reported later
    (at [j]); the release is judged by the replay including that report, which is one
    [replay_begin_r] step (with THE action that caused [j]) from the replay at [k] *)
Definition c3 (X : bool) (f : nat -> nat) (H : list hrec) (k : nat) (rk : hrec) : Prop :=
  exists j rj m, (k < j)%nat /\ nth_error H j = Some rj /\ se_ev (h_ev rj) = TEBlockingBegin m /\
    se_client (h_ev rj) = X /\ se_time (h_ev rj) = se_time (h_ev rk) /\
    (forall i ri, (k < i < j)%nat -> nth_error H i = Some ri -> se_client (h_ev ri) = X ->
       is_complb (h_ev ri) = false) /\
    (exists a, act_of H (f j) m = Some a /\
       replayX X f H (S j) = replay_begin_r (replayX X f H k) (se_time (h_ev rk)) a) /\
    judged (replayX X f H (S j)) (h_ev rk).

(** (4): the run was cut within the instant of the release, a completion of side [X] may still be pending *)
Definition c4 (X : bool) (H : list hrec) (k : nat) (rk : hrec) : Prop :=
  forall i ri, (k < i)%nat -> nth_error H i = Some ri ->
    se_time (h_ev ri) = se_time (h_ev rk) /\ (se_client (h_ev ri) = X -> is_complb (h_ev ri) = false).

(** (4) while the run goes on: the BlockingBegin [x] of side [X] is still queued; the release was judged
    by the replay at [k] extended with it *)
Definition c4p (X : bool) (f : nat -> nat) (H : list hrec) (G : bool -> list (sev * nat)) (k : nat) (rk : hrec) : Prop :=
  exists x j a, G X = [(x, j)] /\ is_beginb x = true /\ act_of H j (cmach x) = Some a /\
    se_time x = se_time (h_ev rk) /\
    (forall i ri, (k < i)%nat -> nth_error H i = Some ri ->
       se_time (h_ev ri) = se_time (h_ev rk) /\
       (se_client (h_ev ri) = X -> is_complb (h_ev ri) = false /\ se_ev (h_ev ri) <> TEBlockingEnd)) /\
    judged (replay_begin_r (replayX X f H k) (se_time x) a) (h_ev rk).

Definition hp (H : list hrec) (f : nat -> nat) (G : bool -> list (sev * nat)) : Prop :=
  forall k rk, nth_error H k = Some rk -> se_ev (h_ev rk) = TETunnelSent ->
    judged (replayX (se_client (h_ev rk)) f H k) (h_ev rk) \/
    c3 (se_client (h_ev rk)) f H k rk \/ c4p (se_client (h_ev rk)) f H G k rk.

Record linvE (H : list hrec) (st : sim) (t : Z) (f : nat -> nat) (G : bool -> list (sev * nat)) : Prop := mk_linvE {
  le_sq : SimBlocking.sq_inv (m_sq st);
  le_hp : hpi (m_sq st);
  le_qge : qge st t;
  le_t : tinv H st t f G noex;
  le_u : huniq H;
  le_e : einvR false (Rf H f) H st G;
  le_h : hp H f G
}.

Lemma einvR_weaken : forall R H st G, einvR false R H st G -> einvR true R H st G.
Proof.
  intros R H st G [H1 H2 H3|X x j H1 H2 H3 H4]; [apply einv0; assumption|].
  apply (einv1 _ _ _ _ _ X x j H1 H2 H3).
  destruct H4 as [L|[B [P|[M _]]]]; [left; exact L|right; split; [exact B|left; exact P]|discriminate].
Qed.

Lemma einvR_transfer : forall R R' H r st st3 (G G' : bool -> list (sev * nat)),
  (forall Y, R' Y = R Y) -> (forall Y, G' Y = G Y) -> same_d st st3 ->
  (forall Y x j, In (x, j) (G Y) -> (j < length H)%nat) ->
  einvR false R H st G -> einvR false R' (H ++ [r]) st3 G'.
Proof.
  intros R R' H r st st3 G G' HR HG Hd Hj [H1 H2 H3|X x j H1 H2 H3 H4].
  - apply einv0; rewrite ?HG; auto. intros X. rewrite Hd, HR. apply H3.
  - apply (einv1 _ _ _ _ _ X x j); rewrite ?HG; auto.
    + rewrite Hd, HR. exact H3.
    + destruct H4 as [[B Ex]|[B [(a & A1 & A2 & A3)|[M _]]]]; [|right; split; [exact B|left]|discriminate].
      * left. split; [exact B|]. rewrite Hd, HR. exact Ex.
      * exists a. split; [|rewrite !Hd, HR; auto].
        rewrite act_of_snoc; [exact A1|]. apply (Hj X x j). rewrite H1. left. reflexivity.
Qed.

Lemma rstep_Rp : forall {D} (rb : option D -> Z -> taction -> option D) Y f H i r b,
  is_complb (h_ev r) = false ->
  rstep rb Y f H i r b = if is_bendb Y (h_ev r) then None else b.
Proof.
  intros D rb Y f H i r b Hc. rewrite rstep_noncompl by exact Hc. unfold is_bendb.
  destruct (Bool.eqb _ Y); destruct (se_ev (h_ev r)); reflexivity.
Qed.

Lemma judged_of_leak : forall sd e,
  s_buntil sd = None \/ (s_bbypass sd = true /\ se_bypass e = true) -> judged (dside sd) e.
Proof.
  intros sd e [E|[E1 E2]]; unfold judged, dside.
  - rewrite E. left. reflexivity.
  - destruct (s_buntil sd) as [u|]; [right; exists u; rewrite E1; auto|left; reflexivity].
Qed.

Lemma sub_nil : forall {A} (l : list A), (forall p, In p l -> False) -> l = [].
Proof. intros A [|a l] H; [reflexivity|]. exfalso. apply (H a). left. reflexivity. Qed.

Lemma sub_single : forall {A} (l : list A) q, (forall p, In p l -> p = q) -> length l = 1%nat -> l = [q].
Proof.
  intros A [|a [|b l]] q H L; cbn [length] in L; try discriminate.
  rewrite (H a); [reflexivity|left; reflexivity].
Qed.

Lemma beginb_ev : forall x, is_beginb x = true -> exists m, se_ev x = TEBlockingBegin m /\ cmach x = m.
Proof.
  intros x H. unfold is_beginb in H. unfold cmach. destruct (se_ev x); try discriminate. eauto.
Qed.

Lemma compl_not_begin_ev : forall x, is_complb x = true -> is_beginb x = false -> exists m, se_ev x = TEPaddingSent m.
Proof.
  intros x H1 H2. unfold is_complb in H1. unfold is_beginb in H2. destruct (se_ev x); try discriminate. eauto.
Qed.

(** one iteration of the main loop *)
Lemma iter_linvE : forall cc sc tp st t next st1 sq2 net2 act X sd' sq3 pos3 H f G,
  linvE H st t f G ->
  pick_next (pn_fuel st) st t = Ok (Some next, st1) ->
  sim_network_stack next (m_sq st1) (if se_client next then s_bbypass (m_c st1) else s_bbypass (m_s st1))
                    (m_net st1) (se_time next) = Ok (sq2, net2, act) ->
  se_client next = X ->
  trigger_update (if X then cc else sc) tp (if X then m_c st1 else m_s st1) (m_pos st1) next (se_time next) sq2 X
    = Ok (sd', sq3, pos3) ->
  let st3 := mksim sq3 (if X then sd' else m_c st1) (if X then m_s st1 else sd') net2 pos3 in
  exists f' G', linvE (H ++ [mkhrec next (acts_for cc sc tp st1 next)]) st3 (se_time next) f' G'.
Proof.
  intros cc sc tp st t next st1 sq2 net2 act X sd' sq3 pos3 H f G [Hinv Hh Hq I HU E BY] Ep En HX Et st3.
  destruct (pick_next_runE _ _ _ _ _ Hinv Hh Hq Ep) as [R Hh1].
  destruct (pn_runE_qge _ _ _ _ R next eq_refl) as [Hq1 Ht1].
  destruct (einv_run _ _ _ _ R H f G HU I (einvR_weaken _ _ _ _ E)) as (G1 & I1 & Gm & E1 & Hnoend).
  pose proof (SimBlocking.pick_next_inv _ _ _ _ _ Hinv Ep) as Hinv1.
  pose proof (SimBlocking.network_stack_inv _ _ _ _ _ _ _ _ Hinv1 En) as Hinv2.
  destruct (network_stack_cq _ _ _ _ _ _ _ _ (proj1 Hinv1) En) as [P2 Hh2].
  pose proof (SimBlocking.trigger_update_inv _ _ _ _ _ _ _ _ _ _ _ Hinv2 Et) as Hinv3.
  destruct (trigger_update_spec _ _ _ _ _ _ _ _ _ _ _ Et) as (fw' & acts & Ete & Ea).
  destruct (apply_actions_cq _ _ _ _ _ _ _ Ea) as [P3 Hh3].
  destruct (SimTimers.apply_actions_spec _ _ _ _ _ _ _ Ea) as (L1 & _ & S1 & _ & _ & _ & Sbu & Sbb).
  cbn [side_set_fw s_sched s_buntil s_bbypass] in L1, S1, Sbu, Sbb.
  assert (Hacts : acts_for cc sc tp st1 next = acts).
  { unfold acts_for. rewrite HX. rewrite Ete. reflexivity. }
  assert (Hcq : same_cq st1 st3).
  { intros Y. unfold cqs, st3. cbn [m_sq]. eapply perm_trans; [apply P3|apply P2]. }
  assert (Hd3 : same_d st1 st3).
  { intros Y. unfold dsim, dside, st3. destruct X, Y; cbn [m_c m_s]; rewrite ?Sbu, ?Sbb; reflexivity. }
  destruct (tinv_take _ _ _ _ _ _ I1) as (f' & G' & A1 & A2 & A3 & A4 & A5).
  set (r := mkhrec next (acts_for cc sc tp st1 next)).
  assert (I3 : tinv (H ++ [r]) st3 (se_time next) f' G' noex).
  { unfold r. rewrite Hacts.
    apply (tinv_append_x H st1 (se_time next) f G1 next acts st3 f' G' I1 eq_refl A1 A2 A3 A4 A5); rewrite ?HX.
    - unfold slotsX, st3. destruct X; reflexivity.
    - unfold slotsX, st3. destruct X; cbn [m_c m_s]; exact L1.
    - unfold slotsX, st3. destruct X; cbn [m_c m_s]; exact S1.
    - exact Hcq. }
  set (H' := H ++ [r]) in *.
  assert (Hlen' : length H' = S (length H)).
  { unfold H'. rewrite app_length. cbn [length]. lia. }
  assert (Hlast : nth_error H' (length H) = Some r) by apply nth_snoc_last.
  (* stability of the replay and of the causes *)
  assert (Hflt : forall i ri, (i < length H)%nat -> nth_error H i = Some ri -> is_complb (h_ev ri) = true ->
            (f i < length H)%nat).
  { intros i ri Li Hi Hc. pose proof (cause_lt _ _ _ _ (ti_fcause _ _ _ _ _ _ I1 i ri Hi Hc)). lia. }
  assert (Hrep : forall Y k, (k <= length H)%nat -> replayX Y f' H' k = replayX Y f H k).
  { intros Y k Lk. unfold replayX, H'. apply replayG_snoc; [exact Lk|intros i Hi; apply A1; lia|].
    intros i ri Hi. apply Hflt. lia. }
  assert (HjG1 : forall Y x j, In (x, j) (G1 Y) -> (j < length H)%nat).
  { intros Y x j Hin. destruct (ti_qcause _ _ _ _ _ _ I1 Y x j Hin) as (_ & C & _). exact (cause_lt _ _ _ _ C). }
  (* a queued completion is due now *)
  assert (HtG1 : forall Y x j, In (x, j) (G1 Y) -> se_time x = se_time next).
  { intros Y x j Hin. destruct (ti_qcause _ _ _ _ _ _ I1 Y x j Hin) as (_ & _ & Lx).
    pose proof (ti_qperm _ _ _ _ _ _ I1 Y) as P.
    assert (Hx : In x (ex_of next Y ++ cqs st1 Y)).
    { apply (Permutation_in _ P). apply in_map_iff. exists (x, j). auto. }
    apply in_app_or in Hx. destruct Hx as [Hx|Hx].
    - unfold ex_of in Hx. destruct (_ && _); [|destruct Hx]. destruct Hx as [<-|[]]. reflexivity.
    - pose proof (Hq1 Y x Hx). lia. }
  (* the ghosts after the bookkeeping of the returned event *)
  assert (HGnc : is_complb next = false -> forall Y, G' Y = G1 Y).
  { intros Hc Y.
    assert (Len : length (G' Y) = length (G1 Y)).
    { pose proof (Permutation_length (A4 Y)) as L4.
      pose proof (Permutation_length (ti_qperm _ _ _ _ _ _ I1 Y)) as L5.
      rewrite (ex_of_other _ _ Hc) in L5. cbn [app] in L5. rewrite map_length in L4, L5. lia. }
    destruct E1 as [H1 H2 _|Z z jz H1 H2 _ _].
    - rewrite (G_empty _ H1 H2 Y) in *. destruct (G' Y); [reflexivity|discriminate].
    - destruct (negb_cases Z Y) as [->| ->].
      + rewrite H1 in *. apply sub_single; [|exact Len].
        intros p Hp. destruct p as [xp jp]. apply A2 in Hp. rewrite H1 in Hp. destruct Hp as [<-|[]]. reflexivity.
      + rewrite H2 in *. destruct (G' (negb Z)); [reflexivity|discriminate]. }
  assert (HGc : is_complb next = true ->
            G1 X = [(next, f' (length H))] /\ G1 (negb X) = [] /\ (forall Y, G' Y = [])).
  { intros Hc. destruct (A5 Hc) as [Hin Hfr]. rewrite HX in Hin, Hfr.
    destruct E1 as [H1 H2 _|Z z jz H1 H2 _ _].
    - rewrite (G_empty _ H1 H2 X) in Hin. destruct Hin.
    - destruct (negb_cases Z X) as [EZ|EZ]; [|rewrite EZ, H2 in Hin; destruct Hin].
      subst Z. rewrite H1 in Hin. destruct Hin as [Eq|[]]. injection Eq as -> ->.
      split; [exact H1|]. split; [exact H2|].
      intros Y. apply sub_nil. intros [xp jp] Hp.
      destruct (negb_cases X Y) as [->| ->].
      + pose proof (A2 _ _ _ Hp) as Hp1. rewrite H1 in Hp1. destruct Hp1 as [Eq|[]]. injection Eq as <- <-.
        apply (Hfr _ _ Hp); reflexivity.
      + apply A2 in Hp. rewrite H2 in Hp. destruct Hp. }
  exists f', G'. constructor.
  - exact Hinv3.
  - apply Hh3. apply Hh2. exact Hh1.
  - intros Y x Hx. apply (Permutation_in _ (Hcq Y)) in Hx. apply (Hq1 Y x Hx).
  - exact I3.
  - apply huniq_snoc. exact HU.
  - (* the exact invariant *)
    destruct (is_complb next) eqn:Hc.
    + (* a completion is reported: the replay catches up *)
      destruct (HGc eq_refl) as (G1X & G1N & Gnil).
      pose proof (complb_not_bend _ Hc) as Hne.
      apply einv0; [apply Gnil|apply Gnil|]. intros Y. unfold Rf. rewrite Hlen'.
      unfold replayX. rewrite (replayG_S _ _ _ _ _ _ Hlast). fold replayX. rewrite Hrep by lia.
      rewrite (Hd3 Y).
      destruct E1 as [H1 H2 _|Z z jz H1 H2 H3 H4]; [rewrite (G_empty _ H1 H2 X) in G1X; discriminate|].
      assert (Z = X) as ->.
      { destruct (negb_cases Z X) as [EZ|EZ]; [symmetry; exact EZ|]. rewrite EZ, H2 in G1X. discriminate. }
      rewrite H1 in G1X. injection G1X as -> ->.
      destruct (negb_cases X Y) as [->| ->].
      * destruct H4 as [[B Ex]|[B [(a & B1 & B2 & B3)|[M _]]]]; [| |discriminate].
        -- destruct (compl_not_begin_ev _ Hc B) as (m & Hev).
           unfold rstep. cbn [r h_ev]. rewrite HX, Bool.eqb_reflx, Hev. rewrite Ex. apply Rp_not_end. exact Hne.
        -- destruct (beginb_ev _ B) as (m & Hev & Hm).
           unfold rstep. cbn [r h_ev]. rewrite HX, Bool.eqb_reflx, Hev.
           rewrite <- Hm. unfold H'. rewrite act_of_snoc by (apply (HjG1 X next); rewrite H1; left; reflexivity).
           rewrite B1, B2. rewrite (Rp_not_end _ _ _ Hne). reflexivity.
      * rewrite rstep_other_side by (cbn [r h_ev]; rewrite HX; destruct X; discriminate).
        rewrite H3. apply Rp_not_end. exact Hne.
    + (* no completion is reported *)
      apply (einvR_transfer (Rp H f next) _ H r st1 st3 G1 G'); [|apply HGnc; reflexivity|exact Hd3|exact HjG1|exact E1].
      intros Y. unfold Rf, Rp. rewrite Hlen'.
      unfold replayX. rewrite (replayG_S _ _ _ _ _ _ Hlast). fold replayX. rewrite Hrep by lia.
      apply rstep_Rp. exact Hc.
  - (* the history property *)
    intros k rk Hk Hts.
    apply nth_snoc_inv in Hk. destruct Hk as [[Lk Hk]|[-> ->]].
    + (* an earlier release *)
      destruct (BY k rk Hk Hts) as [J|[C3|C4]].
      * left. rewrite Hrep by lia. exact J.
      * right. left. destruct C3 as (j & rj & m & Lkj & Hj & Hev & Hside & Htime & Hbetw & (a & Ha & Hrs) & J).
        assert (Lj : (j < length H)%nat) by (apply nth_error_Some; congruence).
        exists j, rj, m. split; [exact Lkj|]. split; [apply nth_snoc_lt; exact Hj|].
        split; [exact Hev|]. split; [exact Hside|]. split; [exact Htime|]. split; [|split].
        -- intros i ri Hi Hni. apply nth_snoc_inv in Hni. destruct Hni as [[_ Hni]|[-> _]]; [|lia].
           apply (Hbetw i ri Hi Hni).
        -- exists a. rewrite (A1 j Lj). unfold H'. rewrite act_of_snoc; [|apply (Hflt j rj Lj Hj); apply begin_compl in Hev; tauto].
           split; [exact Ha|]. fold H'. rewrite !Hrep by lia. exact Hrs.
        -- rewrite Hrep by lia. exact J.
      * destruct C4 as (x & j & a & HGX & Hb & Ha & Htx & Hlater & J).
        set (Xk := se_client (h_ev rk)) in *.
        (* the pending BlockingBegin is the only ghost, before and after pick_next *)
        assert (HinG : In (x, j) (G Xk)) by (rewrite HGX; left; reflexivity).
        pose proof (Gm _ _ HinG) as HinG1.
        assert (HG1 : G1 Xk = [(x, j)] /\ G1 (negb Xk) = []).
        { destruct E1 as [H1 H2 _|Z z jz H1 H2 _ _]; [rewrite (G_empty _ H1 H2 Xk) in HinG1; destruct HinG1|].
          destruct (negb_cases Z Xk) as [EZ|EZ]; [|rewrite EZ, H2 in HinG1; destruct HinG1].
          subst Z. rewrite H1 in HinG1. destruct HinG1 as [Eq|[]]. injection Eq as -> ->. auto. }
        destruct HG1 as [HG1a HG1b].
        assert (Hpn : pnormal (Rf H f) H st Xk x j).
        { destruct E as [H1 H2 _|Z z jz H1 H2 _ H4]; [rewrite (G_empty _ H1 H2 Xk) in HinG; destruct HinG|].
          destruct (negb_cases Z Xk) as [EZ|EZ]; [|rewrite EZ, H2 in HinG; destruct HinG].
          subst Z. rewrite H1 in HGX. injection HGX as -> ->.
          destruct H4 as [[B _]|[_ [P|[M _]]]]; [congruence|exact P|discriminate]. }
        pose proof (Hnoend Xk x j HGX Hb Hpn) as Hnb.
        pose proof (HtG1 Xk x j HinG1) as Htn.
        pose proof (HjG1 Xk x j HinG1) as Ljx.
        destruct (is_complb next) eqn:Hc.
        -- (* the pending BlockingBegin is reported now: clause (3) *)
           destruct (HGc eq_refl) as (G1X & G1N & Gnil).
           assert (Xk = X) as EX.
           { destruct (negb_cases X Xk) as [EZ|EZ]; [exact EZ|]. rewrite EZ, G1N in HinG1. destruct HinG1. }
           rewrite EX in *. rewrite G1X in HG1a. injection HG1a as Ex Ej. subst x.
           destruct (beginb_ev _ Hb) as (m & Hev & Hm).
           right. left. exists (length H), r, m.
           split; [exact Lk|]. split; [exact Hlast|]. split; [exact Hev|]. split; [exact HX|].
           split; [cbn [r h_ev]; congruence|]. split; [|].
           { intros i ri Hi Hni Hsi. apply nth_snoc_inv in Hni. destruct Hni as [[_ Hni]|[-> _]]; [|lia].
             destruct (Hlater i ri) as [_ Hl2]; [lia|exact Hni|]. apply (Hl2 Hsi). }
           assert (Hconst : replayX X f H (length H) = replayX X f H k).
           { unfold replayX. apply replayG_const; [lia|]. intros i ri Hi Hni Hsi.
             destruct (Nat.eq_dec i k) as [->|Hik].
             - rewrite Hk in Hni. injection Hni as <-. unfold is_complb. rewrite Hts. split; [reflexivity|discriminate].
             - destruct (Hlater i ri) as [_ Hl2]; [lia|exact Hni|]. apply (Hl2 Hsi). }
           assert (Hstep : replayX X f' H' (S (length H)) = replay_begin_r (replayX X f' H' k) (se_time (h_ev rk)) a).
           { unfold replayX at 1. rewrite (replayG_S _ _ _ _ _ _ Hlast). fold replayX. rewrite !Hrep by lia.
             unfold rstep. cbn [r h_ev]. rewrite HX, Bool.eqb_reflx, Hev.
             rewrite Ej. unfold H'. rewrite act_of_snoc by exact Ljx. rewrite <- Hm, Ha, Hconst. congruence. }
           split.
           ++ exists a. split; [|exact Hstep].
              rewrite Ej. unfold H'. rewrite act_of_snoc by exact Ljx. rewrite <- Hm. exact Ha.
           ++ rewrite Hstep, Hrep by lia. rewrite <- Htx. exact J.
        -- (* it stays pending *)
           right. right. exists x, j, a.
           split; [rewrite HGnc by reflexivity; exact HG1a|]. split; [exact Hb|].
           split; [unfold H'; rewrite act_of_snoc by exact Ljx; exact Ha|]. split; [exact Htx|]. split.
           ++ intros i ri Hi Hni. apply nth_snoc_inv in Hni. destruct Hni as [[_ Hni]|[-> ->]]; [apply (Hlater i ri Hi Hni)|].
              cbn [r h_ev]. split; [congruence|]. intros Hsn. split; [exact Hc|].
              intros Hend. apply Hnb. split; assumption.
           ++ rewrite Hrep by lia. exact J.
    + (* the release being recorded *)
      cbn [r h_ev] in Hts |- *. rewrite HX.
      assert (Hc : is_complb next = false) by (unfold is_complb; rewrite Hts; reflexivity).
      assert (Hne : se_ev next <> TEBlockingEnd) by (rewrite Hts; discriminate).
      pose proof (SimBlocking.pick_next_no_leak _ _ _ _ _ (proj1 Hinv) Ep Hts) as NL. cbv zeta in NL.
      rewrite HX in NL. apply judged_of_leak in NL. fold (dsim st1 X) in NL.
      destruct E1 as [H1 H2 H3|Z z jz H1 H2 H3 H4].
      * left. rewrite Hrep by lia. rewrite H3, (Rp_not_end _ _ _ Hne) in NL. exact NL.
      * destruct (negb_cases Z X) as [EZ|EZ].
        -- subst Z. destruct H4 as [[B Ex]|[B [(a & B1 & B2 & B3)|[M _]]]]; [| |discriminate].
           ++ left. rewrite Hrep by lia. rewrite Ex, (Rp_not_end _ _ _ Hne) in NL. exact NL.
           ++ right. right. exists z, jz, a.
              assert (Hin : In (z, jz) (G1 X)) by (rewrite H1; left; reflexivity).
              split; [rewrite HGnc by exact Hc; exact H1|]. split; [exact B|].
              split; [unfold H'; rewrite act_of_snoc by (apply (HjG1 X z jz Hin)); exact B1|].
              split; [apply (HtG1 X z jz Hin)|]. split.
              ** intros i ri Hi Hni. apply nth_snoc_inv in Hni. destruct Hni as [[Li _]|[-> _]]; lia.
              ** rewrite Hrep by lia. rewrite B2, (Rp_not_end _ _ _ Hne) in NL. exact NL.
        -- left. rewrite Hrep by lia. rewrite <- EZ in H3. rewrite H3, (Rp_not_end _ _ _ Hne) in NL. exact NL.
Qed.

(** the claim about one release [k], for a begin rule [rb]: clauses (1), (2), (3), (4).
    [claim_full] adds to (3) that the replay including the late report [j] is ONE [rb] step, with THE
    action that caused [j], from the replay at [k]. *)
Definition claim_full (rb : bdesc -> Z -> taction -> bdesc) (f : nat -> nat) (H : list hrec) (k : nat) (rk : hrec) : Prop :=
  let X := se_client (h_ev rk) in
  let b0 := replayG rb X f H k in
  b0 = None \/
  (exists u, b0 = Some (u, true) /\ se_bypass (h_ev rk) = true) \/
  (exists j rj m, (k < j)%nat /\ nth_error H j = Some rj /\ se_ev (h_ev rj) = TEBlockingBegin m /\
     se_client (h_ev rj) = X /\ se_time (h_ev rj) = se_time (h_ev rk) /\
     (forall i ri, (k < i < j)%nat -> nth_error H i = Some ri -> se_client (h_ev ri) = X ->
        is_complb (h_ev ri) = false) /\
     (exists a, act_of H (f j) m = Some a /\ replayG rb X f H (S j) = rb b0 (se_time (h_ev rk)) a) /\
     let b1 := replayG rb X f H (S j) in
     b1 = None \/ (exists u, b1 = Some (u, true) /\ se_bypass (h_ev rk) = true)) \/
  (forall i ri, (k < i)%nat -> nth_error H i = Some ri ->
     se_time (h_ev ri) = se_time (h_ev rk) /\ (se_client (h_ev ri) = X -> is_complb (h_ev ri) = false)).

Definition claim (rb : bdesc -> Z -> taction -> bdesc) (f : nat -> nat) (H : list hrec) (k : nat) (rk : hrec) : Prop :=
  let X := se_client (h_ev rk) in
  let b0 := replayG rb X f H k in
  b0 = None \/
  (exists u, b0 = Some (u, true) /\ se_bypass (h_ev rk) = true) \/
  (exists j rj m, (k < j)%nat /\ nth_error H j = Some rj /\ se_ev (h_ev rj) = TEBlockingBegin m /\
     se_client (h_ev rj) = X /\ se_time (h_ev rj) = se_time (h_ev rk) /\
     (forall i ri, (k < i < j)%nat -> nth_error H i = Some ri -> se_client (h_ev ri) = X ->
        is_complb (h_ev ri) = false) /\
     let b1 := replayG rb X f H (S j) in
     b1 = None \/ (exists u, b1 = Some (u, true) /\ se_bypass (h_ev rk) = true)) \/
  (forall i ri, (k < i)%nat -> nth_error H i = Some ri ->
     se_time (h_ev ri) = se_time (h_ev rk) /\ (se_client (h_ev ri) = X -> is_complb (h_ev ri) = false)).

Lemma claim_full_claim : forall rb f H k rk, claim_full rb f H k rk -> claim rb f H k rk.
Proof.
  intros rb f H k rk [C|[C|[(j & rj & m & C1 & C2 & C3 & C4 & C5 & C6 & _ & C8)|C]]].
  - left. exact C.
  - right. left. exact C.
  - right. right. left. exists j, rj, m. auto 10.
  - right. right. right. exact C.
Qed.

(** what the invariant says about a finished history *)
Definition finE (H : list hrec) (f : nat -> nat) : Prop :=
  fin H f /\ forall k rk, nth_error H k = Some rk -> se_ev (h_ev rk) = TETunnelSent -> claim_full replay_begin_r f H k rk.

Lemma linvE_fin : forall H st t f G, linvE H st t f G -> finE H f.
Proof.
  intros H st t f G L. split; [eapply tinv_fin; exact (le_t _ _ _ _ _ L)|].
  intros k rk Hk Hts. unfold claim_full. cbv zeta. fold replayX.
  destruct (le_h _ _ _ _ _ L k rk Hk Hts) as [[J|J]|[C3|C4]].
  - left. exact J.
  - right. left. exact J.
  - right. right. left. destruct C3 as (j & rj & m & C1 & C2 & C3 & C4 & C5 & C6 & C7 & C8).
    exists j, rj, m. repeat (split; [assumption|]). exact C8.
  - right. right. right. destruct C4 as (x & j & a & _ & _ & _ & _ & Hl & _).
    intros i ri Hi Hni. destruct (Hl i ri Hi Hni) as [T1 T2]. split; [exact T1|]. intros Hs. apply (T2 Hs).
Qed.

Theorem loop_finE : forall fuel cc sc tp args st t hist iters Hout,
  sim_loop_h fuel cc sc tp args st t hist iters = Ok Hout ->
  forall f G, linvE (rev hist) st t f G -> exists f', finE Hout f'.
Proof.
  induction fuel as [|fuel IH]; intros cc sc tp args st t hist iters Hout H f G L; [discriminate|].
  cbn [sim_loop_h] in H.
  destruct (pick_next (pn_fuel st) st t) as [[nx st1]|k|] eqn:Ep; cbn [bind] in H; try discriminate.
  destruct nx as [next|]; [|injection H as <-; exists f; eapply linvE_fin; exact L].
  destruct (se_time next <? t)%Z; [discriminate|].
  destruct (sim_network_stack next (m_sq st1) _ (m_net st1) (se_time next)) as [[[sq2 net2] act]|k|] eqn:En;
    cbn [bind] in H; try discriminate.
  assert (Hu : exists c3' s3 sq3 pos3,
             (let st3 := mksim sq3 c3' s3 net2 pos3 in
              exists f' G', linvE (rev hist ++ [mkhrec next (acts_for cc sc tp st1 next)]) st3 (se_time next) f' G') /\
             (let st3 := mksim sq3 c3' s3 net2 pos3 in
              let hist' := mkhrec next (acts_for cc sc tp st1 next) :: hist in
              (if (0 <? a_max_trace args) && (a_max_trace args <=? N.of_nat (length hist')) then Ok (rev hist')
               else
                 let iters' := iters + 1 in
                 if (0 <? a_max_iter args) && (a_max_iter args <=? iters') then Ok (rev hist')
                 else if negb (a_continue args) && sq_no_normal sq3 then Ok (rev hist')
                 else sim_loop_h fuel cc sc tp args st3 (se_time next) hist' iters') = Ok Hout)).
  { destruct (se_client next) eqn:Ec.
    - destruct (trigger_update cc tp (m_c st1) (m_pos st1) next (se_time next) sq2 true) as [[[c' sq'] p']|k|] eqn:Et;
        cbn [bind] in H; try discriminate.
      exists c', (m_s st1), sq', p'. split; [|exact H].
      apply (iter_linvE cc sc tp st t next st1 sq2 net2 act true c' sq' p' (rev hist) f G L Ep); auto.
      rewrite Ec. exact En.
    - destruct (trigger_update sc tp (m_s st1) (m_pos st1) next (se_time next) sq2 false) as [[[s' sq'] p']|k|] eqn:Et;
        cbn [bind] in H; try discriminate.
      exists (m_c st1), s', sq', p'. split; [|exact H].
      apply (iter_linvE cc sc tp st t next st1 sq2 net2 act false s' sq' p' (rev hist) f G L Ep); auto.
      rewrite Ec. exact En. }
  clear H. destruct Hu as (c3' & s3 & sq3 & pos3 & (f' & G' & L3) & H). cbv zeta in H.
  assert (Hfin : exists f'', finE (rev (mkhrec next (acts_for cc sc tp st1 next) :: hist)) f'').
  { exists f'. cbn [rev]. eapply linvE_fin. exact L3. }
  destruct (_ && _) in H; [injection H as <-; exact Hfin|].
  destruct (_ && _) in H; [injection H as <-; exact Hfin|].
  destruct (_ && _) in H; [injection H as <-; exact Hfin|].
  eapply (IH _ _ _ _ _ _ _ _ _ H f' G'). exact L3.
Qed.

(** the initial state: nothing is queued, neither side blocks *)
Lemma init_linvE : forall cc sc tp sq delay pps st0 t0,
  sim_init cc sc tp sq delay pps st0 t0 -> SimBlocking.sq_inv sq -> sq_start sq ->
  linvE [] st0 t0 (fun _ => 0%nat) (fun _ => []).
Proof.
  intros cc sc tp sq delay pps st0 t0 Hi Hinv Hs.
  destruct (init_tinv _ _ _ _ _ _ _ _ Hi Hs) as (I & Hq & Hh & Esq).
  constructor.
  - rewrite Esq. exact Hinv.
  - exact Hh.
  - exact Hq.
  - exact I.
  - intros r a a' [].
  - apply einv0; [reflexivity|reflexivity|].
    destruct Hi as (cfw & sfw & net & _ & _ & _ & _ & ->). intros [|]; reflexivity.
  - intros k rk Hk. destruct k; discriminate.
Qed.

(** * 6. The theorems *)

Section Run.
  Variables (fuel : nat) (cc sc : cfg) (tp : tape) (args : simargs) (st0 : sim) (t0 : Z) (H : list hrec).
  Variables (sq : simq) (delay : N) (pps : option N).
  Hypothesis Hinit : sim_init cc sc tp sq delay pps st0 t0.
  Hypothesis Hinv : SimBlocking.sq_inv sq.          (* every parsed trace: SimBlocking.parse_trace_inv *)
  Hypothesis Hstart : sq_start sq.                   (* every parsed trace: parse_trace_start *)
  Hypothesis Hrun : sim_loop_h fuel cc sc tp args st0 t0 [] 0 = Ok H.

  Lemma run_finE : exists f, finE H f.
  Proof.
    eapply (loop_finE _ _ _ _ _ _ _ _ _ _ Hrun). cbn [rev].
    exact (init_linvE _ _ _ _ _ _ _ _ Hinit Hinv Hstart).
  Qed.

  (** for the instrumented loop from any initial queue satisfying [sq_inv] and [sq_start]: a cause
      assignment [f] (sound, exact timing, injective) such that every released TunnelSent is justified by
      the replay of the reports *)
  Theorem bypass_all_replay_run : exists f : nat -> nat,
    (forall k rk m, nth_error H k = Some rk ->
       (se_ev (h_ev rk) = TEPaddingSent m \/ se_ev (h_ev rk) = TEBlockingBegin m) ->
       caused_by H k rk m (f k)) /\
    (forall k1 k2 rk1 rk2 m, k1 <> k2 -> nth_error H k1 = Some rk1 -> nth_error H k2 = Some rk2 ->
       (se_ev (h_ev rk1) = TEPaddingSent m \/ se_ev (h_ev rk1) = TEBlockingBegin m) ->
       (se_ev (h_ev rk2) = TEPaddingSent m \/ se_ev (h_ev rk2) = TEBlockingBegin m) ->
       f k1 <> f k2) /\
    forall k rk, nth_error H k = Some rk -> se_ev (h_ev rk) = TETunnelSent ->
      claim_full replay_begin_r f H k rk.
  Proof.
    destruct run_finE as (f & (F1 & F2) & CL). exists f. split; [|split].
    - intros k rk m Hk Hev. destruct (compl_of_ev _ _ Hev) as [Hc Hm].
      exact (cause_caused_by _ _ _ _ _ (F1 k rk Hk Hc) Hm).
    - intros k1 k2 rk1 rk2 m Hne Hk1 Hk2 Hev1 Hev2 E.
      destruct (compl_of_ev _ _ Hev1) as [Hc1 Hm1]. destruct (compl_of_ev _ _ Hev2) as [Hc2 Hm2].
      destruct (F1 k1 rk1 Hk1 Hc1) as (rj1 & a1 & _ & N1 & S1 & _).
      destruct (F1 k2 rk2 Hk2 Hc2) as (rj2 & a2 & _ & N2 & S2 & _).
      rewrite E in N1. rewrite N1 in N2. injection N2 as <-.
      apply (F2 k1 k2 rk1 rk2 Hne Hk1 Hk2 Hc1 Hc2); [unfold sdr; congruence|congruence|exact E].
    - exact CL.
  Qed.
End Run.

(** ** For the runs of [sim_advanced] on parsed traces (all events recorded)

    THE TRUE VARIANT of the target. It differs from the target as first stated in ONE place: the replay
    [replayX] uses the rule [replay_begin_r] (a zero-duration replacing block leaves the side not
    blocking) instead of [replay_begin]; see [stated_target_refuted] below for why this is necessary.
    Clause (3) is additionally sharpened: the replay including the late report [j] is one
    [replay_begin_r] step, with THE action that caused [j], from the replay at the release [k]. *)
Theorem bypass_all_replay_partial : forall fuel cc sc tp tr delay pps args out,
  SimHistory.full_args args ->
  sim_advanced fuel cc sc tp (parse_trace tr delay) delay pps args = Ok out ->
  exists H : list SimHistory.hrec, out = map SimHistory.h_ev H /\
  exists f : nat -> nat,
    (forall k rk m, nth_error H k = Some rk ->
       (se_ev (h_ev rk) = TEPaddingSent m \/ se_ev (h_ev rk) = TEBlockingBegin m) ->
       SimActionTrace.caused_by H k rk m (f k)) /\
    forall k rk, nth_error H k = Some rk -> se_ev (h_ev rk) = TETunnelSent ->
      let X := se_client (h_ev rk) in
      let b0 := replayX X f H k in
      (* (1) not blocking according to the reports *)
      b0 = None \/
      (* (2) blocking, every contributor allowed bypass, the packet carries the bypass flag *)
      (exists u, b0 = Some (u, true) /\ se_bypass (h_ev rk) = true) \/
      (* (3) one BlockingBegin of side X fired in this very instant and is reported later *)
      (exists j rj m, (k < j)%nat /\ nth_error H j = Some rj /\ se_ev (h_ev rj) = TEBlockingBegin m /\
         se_client (h_ev rj) = X /\ se_time (h_ev rj) = se_time (h_ev rk) /\
         (forall i ri, (k < i < j)%nat -> nth_error H i = Some ri -> se_client (h_ev ri) = X ->
            is_complb (h_ev ri) = false) /\
         (exists a, act_of H (f j) m = Some a /\
            replayX X f H (S j) = replay_begin_r b0 (se_time (h_ev rk)) a) /\
         let b1 := replayX X f H (S j) in
         b1 = None \/ (exists u, b1 = Some (u, true) /\ se_bypass (h_ev rk) = true)) \/
      (* (4) the run was cut within this instant *)
      (forall i ri, (k < i)%nat -> nth_error H i = Some ri ->
         se_time (h_ev ri) = se_time (h_ev rk) /\ (se_client (h_ev ri) = X -> is_complb (h_ev ri) = false)).
Proof.
  intros fuel cc sc tp tr delay pps args out Hf Hrun.
  destruct (sim_advanced_history _ _ _ _ _ _ _ _ _ Hf Hrun) as (st0 & t0 & H & Hi & Hl & ->).
  exists H. split; [reflexivity|].
  destruct (bypass_all_replay_run fuel cc sc tp args st0 t0 H _ delay pps Hi
              (SimBlocking.parse_trace_inv tr delay) (parse_trace_start tr delay) Hl) as (f & F1 & _ & F3).
  exists f. split; [exact F1|exact F3].
Qed.

(** the same, with the history tied to the instrumented loop (the records carry the actions the
    frameworks really returned) and with the injectivity of the cause assignment *)
Theorem bypass_all_replay_history_partial : forall fuel cc sc tp tr delay pps args out,
  SimHistory.full_args args ->
  sim_advanced fuel cc sc tp (parse_trace tr delay) delay pps args = Ok out ->
  exists st0 t0 (H : list SimHistory.hrec),
    sim_init cc sc tp (parse_trace tr delay) delay pps st0 t0 /\
    sim_loop_h fuel cc sc tp args st0 t0 [] 0 = Ok H /\ out = map SimHistory.h_ev H /\
  exists f : nat -> nat,
    (forall k rk m, nth_error H k = Some rk ->
       (se_ev (h_ev rk) = TEPaddingSent m \/ se_ev (h_ev rk) = TEBlockingBegin m) ->
       SimActionTrace.caused_by H k rk m (f k)) /\
    (forall k1 k2 rk1 rk2 m, k1 <> k2 -> nth_error H k1 = Some rk1 -> nth_error H k2 = Some rk2 ->
       (se_ev (h_ev rk1) = TEPaddingSent m \/ se_ev (h_ev rk1) = TEBlockingBegin m) ->
       (se_ev (h_ev rk2) = TEPaddingSent m \/ se_ev (h_ev rk2) = TEBlockingBegin m) ->
       f k1 <> f k2) /\
    forall k rk, nth_error H k = Some rk -> se_ev (h_ev rk) = TETunnelSent ->
      claim_full replay_begin_r f H k rk.
Proof.
  intros fuel cc sc tp tr delay pps args out Hf Hrun.
  destruct (sim_advanced_history _ _ _ _ _ _ _ _ _ Hf Hrun) as (st0 & t0 & H & Hi & Hl & ->).
  exists st0, t0, H. split; [exact Hi|]. split; [exact Hl|]. split; [reflexivity|].
  exact (bypass_all_replay_run fuel cc sc tp args st0 t0 H _ delay pps Hi
           (SimBlocking.parse_trace_inv tr delay) (parse_trace_start tr delay) Hl).
Qed.

(** ** The target with the literal rule [replay_begin], for runs without zero-duration replacing blocks *)

Definition no_zero_replace (H : list hrec) : Prop :=
  forall r a, In r H -> In a (h_acts r) -> zero_replace a = false.

Lemma act_of_in : forall H j m a, act_of H j m = Some a -> exists r, In r H /\ In a (h_acts r).
Proof.
  intros H j m a E. unfold act_of in E. destruct (nth_error H j) as [rj|] eqn:Ej; [|discriminate].
  exists rj. split; [eapply nth_error_In; exact Ej|]. apply find_some in E. tauto.
Qed.

Lemma replayG_rb_ext : forall {D} (rb1 rb2 : option D -> Z -> taction -> option D) X f H k,
  (forall j m a b t, act_of H j m = Some a -> rb1 b t a = rb2 b t a) ->
  replayG rb1 X f H k = replayG rb2 X f H k.
Proof.
  intros D rb1 rb2 X f H k Hx. induction k as [|k IH]; [reflexivity|].
  cbn [replayG]. rewrite IH. destruct (nth_error H k) as [rk|]; [|reflexivity].
  unfold rstep. destruct (Bool.eqb _ X); [|reflexivity].
  destruct (se_ev (h_ev rk)); try reflexivity.
  destruct (act_of H (f k) m) as [a|] eqn:E; [|reflexivity]. apply (Hx _ _ _ _ _ E).
Qed.

Lemma replayS_eq : forall H X f k, no_zero_replace H -> replayS X f H k = replayX X f H k.
Proof.
  intros H X f k Hz. unfold replayS, replayX. apply replayG_rb_ext.
  intros j m a b t E. destruct (act_of_in _ _ _ _ E) as (r & Hr & Ha).
  unfold replay_begin_r. rewrite (Hz r a Hr Ha). reflexivity.
Qed.

Lemma claim_full_stated : forall f H k rk, no_zero_replace H ->
  claim_full replay_begin_r f H k rk -> claim_full replay_begin f H k rk.
Proof.
  intros f H k rk Hz C. unfold claim_full in *. cbv zeta in *.
  fold replayX in C. fold replayS.
  rewrite !(replayS_eq H _ f _ Hz).
  destruct C as [C|[C|[(j & rj & m & C1 & C2 & C3 & C4 & C5 & C6 & (a & C7 & C7') & C8)|C]]].
  - left. exact C.
  - right. left. exact C.
  - right. right. left. exists j, rj, m. repeat (split; [assumption|]).
    rewrite !(replayS_eq H _ f _ Hz). split; [|exact C8].
    exists a. split; [exact C7|]. rewrite C7'.
    destruct (act_of_in _ _ _ _ C7) as (r & Hr & Ha).
    unfold replay_begin_r. rewrite (Hz r a Hr Ha). reflexivity.
  - right. right. right. exact C.
Qed.

(** the target AS FIRST STATED (replay with the contract rule [replay_begin]) holds for every run in
    which no framework returned a zero-duration replacing BlockOutgoing *)
Theorem bypass_all_replay_stated_no_zero_replace : forall fuel cc sc tp tr delay pps args out,
  SimHistory.full_args args ->
  sim_advanced fuel cc sc tp (parse_trace tr delay) delay pps args = Ok out ->
  exists H : list SimHistory.hrec, out = map SimHistory.h_ev H /\
  exists f : nat -> nat,
    (forall k rk m, nth_error H k = Some rk ->
       (se_ev (h_ev rk) = TEPaddingSent m \/ se_ev (h_ev rk) = TEBlockingBegin m) ->
       SimActionTrace.caused_by H k rk m (f k)) /\
    (no_zero_replace H ->
     forall k rk, nth_error H k = Some rk -> se_ev (h_ev rk) = TETunnelSent ->
      let X := se_client (h_ev rk) in
      let b0 := replayS X f H k in
      b0 = None \/
      (exists u, b0 = Some (u, true) /\ se_bypass (h_ev rk) = true) \/
      (exists j rj m, (k < j)%nat /\ nth_error H j = Some rj /\ se_ev (h_ev rj) = TEBlockingBegin m /\
         se_client (h_ev rj) = X /\ se_time (h_ev rj) = se_time (h_ev rk) /\
         (forall i ri, (k < i < j)%nat -> nth_error H i = Some ri -> se_client (h_ev ri) = X ->
            is_complb (h_ev ri) = false) /\
         (exists a, act_of H (f j) m = Some a /\
            replayS X f H (S j) = replay_begin b0 (se_time (h_ev rk)) a) /\
         let b1 := replayS X f H (S j) in
         b1 = None \/ (exists u, b1 = Some (u, true) /\ se_bypass (h_ev rk) = true)) \/
      (forall i ri, (k < i)%nat -> nth_error H i = Some ri ->
         se_time (h_ev ri) = se_time (h_ev rk) /\ (se_client (h_ev ri) = X -> is_complb (h_ev ri) = false))).
Proof.
  intros fuel cc sc tp tr delay pps args out Hf Hrun.
  destruct (sim_advanced_history _ _ _ _ _ _ _ _ _ Hf Hrun) as (st0 & t0 & H & Hi & Hl & ->).
  exists H. split; [reflexivity|].
  destruct (bypass_all_replay_run fuel cc sc tp args st0 t0 H _ delay pps Hi
              (SimBlocking.parse_trace_inv tr delay) (parse_trace_start tr delay) Hl) as (f & F1 & _ & F3).
  exists f. split; [exact F1|].
  intros Hz k rk Hk Hts. exact (claim_full_stated f H k rk Hz (F3 k rk Hk Hts)).
Qed.

(** ** What the flag of the replay means: the conjunction over the contributing actions

    [replayC] is the same replay carrying, instead of the flag, the LIST of the actions that started,
    replaced or extended the current blocking (start / replace: the action alone; extension: added;
    a BlockingBegin that does not move the expiry: not a contributor). The flag of [replayX] is the
    conjunction of [block_bypass] over that list ([replayC_flag]); so clauses (2) and (3) say: EVERY
    action that started or updated the current blocking allowed bypass ([replay_flag_true_all]), and
    each of them is the cause of a BlockingBegin of that side reported since the last BlockingEnd
    ([replayC_sound]). *)
Definition cdesc := option (Z * list taction).

Definition replay_begin_c (b : cdesc) (t : Z) (a : taction) : cdesc :=
  match a with
  | TBlockOutgoing _ _ dur by_ rp =>
      if zero_replace a then None
      else
        match b with
        | None => if (0 <? dur) || rp then Some ((t + Z.of_N dur)%Z, [a]) else None
        | Some (u, cs) =>
            if rp then Some ((t + Z.of_N dur)%Z, [a])
            else if (u <? t + Z.of_N dur)%Z then Some ((t + Z.of_N dur)%Z, a :: cs)
            else Some (u, cs)
        end
  | _ => b
  end.

Definition flag_of (c : cdesc) : bdesc :=
  match c with None => None | Some (u, cs) => Some (u, forallb block_bypass cs) end.

Definition replayC : bool -> (nat -> nat) -> list hrec -> nat -> cdesc := replayG replay_begin_c.

Lemma flag_of_begin : forall c t a, flag_of (replay_begin_c c t a) = replay_begin_r (flag_of c) t a.
Proof.
  intros c t a. destruct a as [m tm|m tmo by_ rp|m tmo dur by_ rp|m dur rp]; try reflexivity.
  unfold replay_begin_r, replay_begin_c.
  destruct (zero_replace (TBlockOutgoing m tmo dur by_ rp)); [reflexivity|].
  destruct c as [[u cs]|]; cbn [flag_of replay_begin].
  - destruct rp.
    + cbn [flag_of forallb block_bypass]. rewrite Bool.andb_true_r. reflexivity.
    + destruct (u <? t + Z.of_N dur)%Z; cbn [flag_of forallb block_bypass]; [|reflexivity].
      rewrite Bool.andb_comm. reflexivity.
  - destruct ((0 <? dur) || rp); [|reflexivity].
    cbn [flag_of forallb block_bypass]. rewrite Bool.andb_true_r. reflexivity.
Qed.

Lemma replayC_flag : forall X f H k, flag_of (replayC X f H k) = replayX X f H k.
Proof.
  intros X f H k. unfold replayC, replayX. induction k as [|k IH]; [reflexivity|].
  cbn [replayG]. destruct (nth_error H k) as [rk|]; [|exact IH].
  rewrite <- IH. unfold rstep. destruct (Bool.eqb _ X); [|reflexivity].
  destruct (se_ev (h_ev rk)); try reflexivity.
  destruct (act_of H (f k) m); [apply flag_of_begin|reflexivity].
Qed.

(** the flag of the replayed descriptor is the conjunction over the contributors *)
Theorem replay_flag_all : forall X f H k u fl, replayX X f H k = Some (u, fl) ->
  exists cs, replayC X f H k = Some (u, cs) /\ fl = forallb block_bypass cs.
Proof.
  intros X f H k u fl E. rewrite <- replayC_flag in E. unfold flag_of in E.
  destruct (replayC X f H k) as [[u' cs]|]; [|discriminate]. injection E as <- <-. eauto.
Qed.

(** "bypassable" means: the action that started or last replaced the blocking and every action that
    extended it since allowed bypass *)
Theorem replay_flag_true_all : forall X f H k u, replayX X f H k = Some (u, true) ->
  exists cs, replayC X f H k = Some (u, cs) /\ forall a, In a cs -> block_bypass a = true.
Proof.
  intros X f H k u E. destruct (replay_flag_all _ _ _ _ _ _ E) as (cs & Ec & Hfl).
  exists cs. split; [exact Ec|]. symmetry in Hfl. rewrite forallb_forall in Hfl. exact Hfl.
Qed.

(** one BlockingBegin either leaves the descriptor as it was or its action is a contributor (and it
    is the only one if it started or replaced the blocking) *)
Lemma replay_begin_c_step : forall b t a u cs, replay_begin_c b t a = Some (u, cs) ->
  b = Some (u, cs) \/ cs = [a] \/ (exists u0 cs0, b = Some (u0, cs0) /\ cs = a :: cs0 /\ (u0 < u)%Z).
Proof.
  intros b t a u cs E.
  destruct a as [m tm|m tmo by_ rp|m tmo dur by_ rp|m dur rp]; try (left; exact E).
  unfold replay_begin_c in E. destruct (zero_replace _); [discriminate|].
  destruct b as [[u0 cs0]|].
  - destruct rp; [injection E as <- <-; auto|].
    destruct (Z.ltb_spec u0 (t + Z.of_N dur)); [|left; exact E].
    injection E as <- <-. right. right. exists u0, cs0. auto.
  - destruct (_ || _); [|discriminate]. injection E as <- <-. auto.
Qed.

(** every contributor is THE action that caused a BlockingBegin of side [X] reported before [k], with
    no BlockingEnd of [X] reported since *)
Theorem replayC_sound : forall X f H k u cs, replayC X f H k = Some (u, cs) ->
  forall a, In a cs ->
  exists i ri m, (i < k)%nat /\ nth_error H i = Some ri /\ se_ev (h_ev ri) = TEBlockingBegin m /\
    se_client (h_ev ri) = X /\ act_of H (f i) m = Some a /\
    forall i' ri', (i < i' < k)%nat -> nth_error H i' = Some ri' -> ~ is_bend X (h_ev ri').
Proof.
  intros X f H. unfold replayC. induction k as [|k IH]; intros u cs E a Ha; [discriminate|].
  cbn [replayG] in E. destruct (nth_error H k) as [rk|] eqn:Ek.
  - assert (Hold : forall u0 cs0, replayG replay_begin_c X f H k = Some (u0, cs0) -> In a cs0 ->
              ~ is_bend X (h_ev rk) ->
              exists i ri m, (i < S k)%nat /\ nth_error H i = Some ri /\ se_ev (h_ev ri) = TEBlockingBegin m /\
                se_client (h_ev ri) = X /\ act_of H (f i) m = Some a /\
                forall i' ri', (i < i' < S k)%nat -> nth_error H i' = Some ri' -> ~ is_bend X (h_ev ri')).
    { intros u0 cs0 E0 Ha0 Hnb. destruct (IH u0 cs0 E0 a Ha0) as (i & ri & m & Li & Hi & Hev & Hs & Hact & Hno).
      exists i, ri, m. split; [lia|]. repeat (split; [assumption|]).
      intros i' ri' Hi' Hni'. destruct (Nat.eq_dec i' k) as [->|Hne].
      - rewrite Ek in Hni'. injection Hni' as <-. exact Hnb.
      - apply (Hno i' ri'); [lia|exact Hni']. }
    unfold rstep in E. destruct (Bool.eqb (se_client (h_ev rk)) X) eqn:EX.
    + apply Bool.eqb_prop in EX.
      destruct (se_ev (h_ev rk)) eqn:Eev;
        try (apply (Hold u cs E Ha); intros [Hb _]; congruence); [|discriminate].
      destruct (act_of H (f k) m) as [a0|] eqn:Eact; [|apply (Hold u cs E Ha); intros [Hb _]; congruence].
      destruct (replay_begin_c_step _ _ _ _ _ E) as [Eb|[->|(u0 & cs0 & Eb & -> & _)]].
      * apply (Hold u cs Eb Ha). intros [Hb _]. congruence.
      * destruct Ha as [<-|[]]. exists k, rk, m. split; [lia|]. repeat (split; [assumption|]).
        intros i' ri' Hi'. lia.
      * destruct Ha as [<-|Ha].
        -- exists k, rk, m. split; [lia|]. repeat (split; [assumption|]). intros i' ri' Hi'. lia.
        -- apply (Hold u0 cs0 Eb Ha). intros [Hb _]. congruence.
    + apply (Hold u cs E Ha). intros [_ Hs]. rewrite Hs, Bool.eqb_reflx in EX. discriminate.
  - destruct (IH u cs E a Ha) as (i & ri & m & Li & Hi & Hev & Hs & Hact & Hno).
    exists i, ri, m. split; [lia|]. repeat (split; [assumption|]).
    intros i' ri' Hi' Hni'. destruct (Nat.eq_dec i' k) as [->|Hne]; [congruence|].
    apply (Hno i' ri'); [lia|exact Hni'].
Qed.

(** * 7. Concrete runs (evaluated inside Coq): the refutation of the literal target, non-vacuity *)

(** role machines as in Properties/SimExamples.v: state 0 moves to state 1 on [ev] with probability 1,
    state 1 carries the action; constant distributions *)
Definition bx_cd (bits : N) : dist := mkdist (Uniform bits bits) 0 0.
Definition bx_d0 := bx_cd 0.                        (* 0.0 *)
Definition bx_d1 := bx_cd 4607182418800017408.      (* 1.0 us *)
Definition bx_d2 := bx_cd 4611686018427387904.      (* 2.0 *)
Definition bx_d5 := bx_cd 4617315517961601024.      (* 5.0 *)
Definition bx_d10 := bx_cd 4621819117588971520.     (* 10.0 *)
Definition bx_d50 := bx_cd 4632233691727265792.     (* 50.0 *)
Definition bx_d100 := bx_cd 4636737291354636288.    (* 100.0 *)
Definition bx_d200 := bx_cd 4641240890982006784.    (* 200.0 *)
Definition bx_on (ev : event) (target : N) : list (option (list trans)) :=
  map (fun i => if Nat.eqb i (event_idx ev) then Some [(target, 1065353216)] else None) (seq 0 13).
Definition bx_none13 : list (option (list trans)) := map (fun _ => None) (seq 0 13).
Definition bx_two (ev : event) (a : action) : machine :=
  mkmachine 18446744073709551615 0 18446744073709551615 0
    [mkstate None None None (bx_on ev 1); mkstate (Some a) None None bx_none13].
Definition bx_mk (ms : list machine) : cfg := mkcfg ms 4607182418800017408 4607182418800017408 stdclock.
Definition bx_server : cfg := mkcfg [] 0 0 stdclock.
Definition bx_tape : tape := fun _ => 0.
Definition bx_args : simargs := mksimargs 0 0 false false false.
(** the client sends at 0 and at 50 us; network delay 1 us *)
Definition bx_sq : simq := parse_trace [(0, true); (50000, true)]%Z 1000.
Definition bx_fw0 : fstate := mkfstate 0 0 [] [] 0 0 0 0 false None 0 0 [].
Definition bx_fw (c : cfg) (p : nat) : fstate := match fnew_at c bx_tape 0 p with Ok x => x | _ => bx_fw0 end.
Definition bx_net : netb := match netb_new 1000 None (sq_pps bx_sq) with Ok n => n | _ => mknetb 0 0 [] 0 [] [] 0 0 end.
Definition bx_st0 (c : cfg) : sim :=
  mksim bx_sq (new_side c (bx_fw c 0)) (new_side bx_server (bx_fw bx_server (Framework.pos (bx_fw c 0))))
        bx_net (Framework.pos (bx_fw bx_server (Framework.pos (bx_fw c 0)))).
Definition bx_hist (c : cfg) : list hrec :=
  match sim_loop_h 200 c bx_server bx_tape bx_args (bx_st0 c) 0 [] 0 with Ok h => h | _ => [] end.

Lemma bx_init : forall c cfw sfw,
  fnew_at c bx_tape 0 0 = Ok cfw -> fnew_at bx_server bx_tape 0 (Framework.pos cfw) = Ok sfw ->
  sim_init c bx_server bx_tape bx_sq 1000 None (bx_st0 c) 0.
Proof.
  intros c cfw sfw E1 E2. exists cfw, sfw, bx_net.
  split; [vm_compute; reflexivity|]. split; [exact E1|]. split; [exact E2|]. split; [vm_compute; reflexivity|].
  unfold bx_st0, bx_fw. rewrite E1. rewrite E2. reflexivity.
Qed.

(** ** COUNTEREXAMPLE to the target as first stated (replay with [replay_begin]).
    Client machines: 0 blocks (fail-closed) for 100 us, 1 us after the first NormalSent; 1 issues, on the
    BlockingBegin, a REPLACING BlockOutgoing of ZERO duration due 5 us later. At 6 us that action fires:
    the expiry of the client becomes 6 us = now, so pick_next reports BlockingEnd(6 us) at once, BEFORE
    the queued BlockingBegin(6 us) of machine 1; afterwards the client is not blocking and its second
    packet leaves at 50 us without the bypass flag (record 8). The literal replay reads
    Begin, End, Begin(replace, zero duration) and restarts a blocking "until 6 us, bypass not allowed"
    at the late BlockingBegin which nothing ends; so at record 8 it is [Some (6000, false)]: (1) and (2)
    fail, no BlockingBegin follows (3), and the run goes on to a later instant (4). *)
Definition cxz_cfg : cfg :=
  bx_mk [bx_two NormalSent (BlockOutgoing false false bx_d1 bx_d100 None);
         bx_two BlockingBegin (BlockOutgoing false true bx_d5 bx_d0 None)].
Definition cxz_H : list hrec := Eval vm_compute in bx_hist cxz_cfg.

Theorem stated_target_refuted :
  sim_init cxz_cfg bx_server bx_tape bx_sq 1000 None (bx_st0 cxz_cfg) 0 /\
  sim_loop_h 200 cxz_cfg bx_server bx_tape bx_args (bx_st0 cxz_cfg) 0 [] 0 = Ok cxz_H /\
  sim_advanced 200 cxz_cfg bx_server bx_tape bx_sq 1000 None bx_args = Ok (map h_ev cxz_H) /\
  map (fun r => (se_ev (h_ev r), se_time (h_ev r), se_bypass (h_ev r), h_acts r)) cxz_H =
    [(TENormalSent, 0, false, [TBlockOutgoing 0 1000 100000 false false]);
     (TETunnelSent, 0, false, []); (TETunnelRecv, 1000, false, []); (TENormalRecv, 1000, false, []);
     (TEBlockingBegin 0, 1000, false, [TBlockOutgoing 1 5000 0 false true]);
     (TEBlockingEnd, 6000, false, []); (TEBlockingBegin 1, 6000, false, []);
     (TENormalSent, 50000, false, []); (TETunnelSent, 50000, false, []); (TETunnelRecv, 51000, false, [])]%Z /\
  (* whatever cause assignment is used, the literal claim fails at the release recorded as #8 *)
  forall f : nat -> nat,
    (forall k rk m, nth_error cxz_H k = Some rk ->
       (se_ev (h_ev rk) = TEPaddingSent m \/ se_ev (h_ev rk) = TEBlockingBegin m) ->
       caused_by cxz_H k rk m (f k)) ->
    exists rk, nth_error cxz_H 8 = Some rk /\ se_ev (h_ev rk) = TETunnelSent /\
      replayS true f cxz_H 8 = Some (6000%Z, false) /\ replayX true f cxz_H 8 = None /\
      ~ claim replay_begin f cxz_H 8 rk.
Proof.
  split.
  { eapply bx_init; vm_compute; reflexivity. }
  split; [vm_compute; reflexivity|]. split; [vm_compute; reflexivity|]. split; [vm_compute; reflexivity|].
  intros f Hf.
  assert (E4 : f 4%nat = 0%nat).
  { destruct (Hf 4%nat _ 0 eq_refl (or_intror eq_refl)) as (rj & a & L & Hj & _ & Ha & _).
    destruct (f 4%nat) as [|[|[|[|n]]]]; [reflexivity| | | |lia];
      vm_compute in Hj; injection Hj as <-; destruct Ha. }
  assert (E6 : f 6%nat = 4%nat).
  { destruct (Hf 6%nat _ 1 eq_refl (or_intror eq_refl)) as (rj & a & L & Hj & _ & Ha & Hm & _).
    destruct (f 6%nat) as [|[|[|[|[|[|n]]]]]]; [| | | |reflexivity| |lia];
      vm_compute in Hj; injection Hj as <-; try (destruct Ha; fail).
    destruct Ha as [<-|[]]. discriminate Hm. }
  set (g := fun i : nat => match i with 4%nat => 0%nat | 6%nat => 4%nat | _ => 0%nat end).
  assert (Efg : forall i ri m, (i < 8)%nat -> nth_error cxz_H i = Some ri ->
            se_ev (h_ev ri) = TEBlockingBegin m -> f i = g i).
  { intros i ri m Li Hi Hev.
    do 8 (destruct i as [|i]; [try (vm_compute in Hi; injection Hi as <-; discriminate Hev); assumption|]). lia. }
  assert (ES : replayS true f cxz_H 8 = Some (6000%Z, false)).
  { unfold replayS. rewrite (replayG_ext replay_begin true f g cxz_H 8 Efg). vm_compute. reflexivity. }
  assert (EX : replayX true f cxz_H 8 = None).
  { unfold replayX. rewrite (replayG_ext replay_begin_r true f g cxz_H 8 Efg). vm_compute. reflexivity. }
  eexists. split; [reflexivity|]. split; [reflexivity|]. split; [exact ES|]. split; [exact EX|].
  unfold claim. cbv zeta. cbn [h_ev se_client se_time se_bypass]. fold replayS. rewrite ES.
  intros [C|[(u & C & _)|[(j & rj & m & Lj & Hj & Hev & _)|C]]].
  - discriminate C.
  - discriminate C.
  - do 9 (destruct j as [|j]; [lia|]).
    destruct j as [|j]; [vm_compute in Hj; injection Hj as <-; discriminate Hev|].
    destruct j; discriminate Hj.
  - destruct (C 9%nat _ ltac:(lia) eq_refl) as [Ht _]. discriminate Ht.
Qed.

(** ** Non-vacuity, clause (2) with two contributors.
    Client machines: 0 a bypassable blocker (100 us, 1 us after the first NormalSent); 1 an extending
    bypassable blocker (200 us, not replacing, 2 us after the BlockingBegin); 2 a bypass padder (5 us
    after the BlockingBegin). The padding's TunnelSent (#7, at 6 us) leaves the blocking client: the
    replay there is [Some (203000, true)] with the two contributing actions. *)
Definition ex2_cfg : cfg :=
  bx_mk [bx_two NormalSent (BlockOutgoing true false bx_d1 bx_d100 None);
         bx_two BlockingBegin (BlockOutgoing true false bx_d2 bx_d200 None);
         bx_two BlockingBegin (SendPadding true false bx_d5 None)].
Definition ex2_H : list hrec := Eval vm_compute in bx_hist ex2_cfg.

Example bypass_all_case2_two_contributors :
  sim_init ex2_cfg bx_server bx_tape bx_sq 1000 None (bx_st0 ex2_cfg) 0 /\
  sim_loop_h 200 ex2_cfg bx_server bx_tape bx_args (bx_st0 ex2_cfg) 0 [] 0 = Ok ex2_H /\
  sim_advanced 200 ex2_cfg bx_server bx_tape bx_sq 1000 None bx_args = Ok (map h_ev ex2_H) /\
  map (fun r => (se_ev (h_ev r), se_time (h_ev r), se_bypass (h_ev r), h_acts r)) (firstn 8 ex2_H) =
    [(TENormalSent, 0, false, [TBlockOutgoing 0 1000 100000 true false]);
     (TETunnelSent, 0, false, []); (TETunnelRecv, 1000, false, []); (TENormalRecv, 1000, false, []);
     (TEBlockingBegin 0, 1000, true, [TBlockOutgoing 1 2000 200000 true false; TSendPadding 2 5000 true false]);
     (TEBlockingBegin 1, 3000, true, []); (TEPaddingSent 2, 6000, true, []);
     (TETunnelSent, 6000, true, [])]%Z /\
  forall f : nat -> nat,
    (forall k rk m, nth_error ex2_H k = Some rk ->
       (se_ev (h_ev rk) = TEPaddingSent m \/ se_ev (h_ev rk) = TEBlockingBegin m) ->
       caused_by ex2_H k rk m (f k)) ->
    exists rk, nth_error ex2_H 7 = Some rk /\ se_ev (h_ev rk) = TETunnelSent /\ se_client (h_ev rk) = true /\
      se_pad (h_ev rk) = true /\ se_bypass (h_ev rk) = true /\
      replayX true f ex2_H 7 = Some (203000%Z, true) /\
      replayC true f ex2_H 7 = Some (203000%Z, [TBlockOutgoing 1 2000 200000 true false;
                                                 TBlockOutgoing 0 1000 100000 true false]).
Proof.
  split.
  { eapply bx_init; vm_compute; reflexivity. }
  split; [vm_compute; reflexivity|]. split; [vm_compute; reflexivity|]. split; [vm_compute; reflexivity|].
  intros f Hf.
  assert (E4 : f 4%nat = 0%nat).
  { destruct (Hf 4%nat _ 0 eq_refl (or_intror eq_refl)) as (rj & a & L & Hj & _ & Ha & _).
    destruct (f 4%nat) as [|[|[|[|n]]]]; [reflexivity| | | |lia];
      vm_compute in Hj; injection Hj as <-; destruct Ha. }
  assert (E5 : f 5%nat = 4%nat).
  { destruct (Hf 5%nat _ 1 eq_refl (or_intror eq_refl)) as (rj & a & L & Hj & _ & Ha & Hm & _).
    destruct (f 5%nat) as [|[|[|[|[|n]]]]]; [| | | |reflexivity|lia];
      vm_compute in Hj; injection Hj as <-; try (destruct Ha; fail).
    destruct Ha as [<-|[]]. discriminate Hm. }
  set (g := fun i : nat => match i with 4%nat => 0%nat | 5%nat => 4%nat | _ => 0%nat end).
  assert (Efg : forall i ri m, (i < 7)%nat -> nth_error ex2_H i = Some ri ->
            se_ev (h_ev ri) = TEBlockingBegin m -> f i = g i).
  { intros i ri m Li Hi Hev.
    do 7 (destruct i as [|i]; [try (vm_compute in Hi; injection Hi as <-; discriminate Hev); assumption|]). lia. }
  eexists. split; [reflexivity|]. repeat (split; [reflexivity|]). split.
  - unfold replayX. rewrite (replayG_ext replay_begin_r true f g ex2_H 7 Efg). vm_compute. reflexivity.
  - unfold replayC. rewrite (replayG_ext replay_begin_c true f g ex2_H 7 Efg). vm_compute. reflexivity.
Qed.

(** ** Non-vacuity, clause (3): a release judged one step ahead.
    Client machines: 0 a fail-closed blocker (100 us); 1 a bypass padder (5 us after the
    BlockingBegin): its TunnelSent is held; 2 a REPLACING bypassable blocker (50 us, 10 us after the
    BlockingBegin). At 11 us the replacing block fires, the held padding leaves at once (#6), and the
    BlockingBegin of machine 2 is reported after it (#7, same instant): at #6 the replay of the reports is
    still [Some (101000, false)], including #7 it is [Some (61000, true)]. *)
Definition ex3_cfg : cfg :=
  bx_mk [bx_two NormalSent (BlockOutgoing false false bx_d1 bx_d100 None);
         bx_two BlockingBegin (SendPadding true false bx_d5 None);
         bx_two BlockingBegin (BlockOutgoing true true bx_d10 bx_d50 None)].
Definition ex3_H : list hrec := Eval vm_compute in bx_hist ex3_cfg.

Example bypass_all_case3_one_step_ahead :
  sim_init ex3_cfg bx_server bx_tape bx_sq 1000 None (bx_st0 ex3_cfg) 0 /\
  sim_loop_h 200 ex3_cfg bx_server bx_tape bx_args (bx_st0 ex3_cfg) 0 [] 0 = Ok ex3_H /\
  sim_advanced 200 ex3_cfg bx_server bx_tape bx_sq 1000 None bx_args = Ok (map h_ev ex3_H) /\
  map (fun r => (se_ev (h_ev r), se_time (h_ev r), se_bypass (h_ev r), h_acts r)) (firstn 8 ex3_H) =
    [(TENormalSent, 0, false, [TBlockOutgoing 0 1000 100000 false false]);
     (TETunnelSent, 0, false, []); (TETunnelRecv, 1000, false, []); (TENormalRecv, 1000, false, []);
     (TEBlockingBegin 0, 1000, false, [TSendPadding 1 5000 true false; TBlockOutgoing 2 10000 50000 true true]);
     (TEPaddingSent 1, 6000, true, []); (TETunnelSent, 11000, true, []);
     (TEBlockingBegin 2, 11000, true, [])]%Z /\
  forall f : nat -> nat,
    (forall k rk m, nth_error ex3_H k = Some rk ->
       (se_ev (h_ev rk) = TEPaddingSent m \/ se_ev (h_ev rk) = TEBlockingBegin m) ->
       caused_by ex3_H k rk m (f k)) ->
    exists rk, nth_error ex3_H 6 = Some rk /\ se_ev (h_ev rk) = TETunnelSent /\ se_client (h_ev rk) = true /\
      se_bypass (h_ev rk) = true /\
      replayX true f ex3_H 6 = Some (101000%Z, false) /\       (* (1) and (2) do not apply *)
      replayX true f ex3_H 8 = Some (61000%Z, true).           (* (3) with j = 7 *)
Proof.
  split.
  { eapply bx_init; vm_compute; reflexivity. }
  split; [vm_compute; reflexivity|]. split; [vm_compute; reflexivity|]. split; [vm_compute; reflexivity|].
  intros f Hf.
  assert (E4 : f 4%nat = 0%nat).
  { destruct (Hf 4%nat _ 0 eq_refl (or_intror eq_refl)) as (rj & a & L & Hj & _ & Ha & _).
    destruct (f 4%nat) as [|[|[|[|n]]]]; [reflexivity| | | |lia];
      vm_compute in Hj; injection Hj as <-; destruct Ha. }
  assert (E7 : f 7%nat = 4%nat).
  { destruct (Hf 7%nat _ 2 eq_refl (or_intror eq_refl)) as (rj & a & L & Hj & _ & Ha & Hm & _).
    destruct (f 7%nat) as [|[|[|[|[|[|[|n]]]]]]]; [| | | |reflexivity| | |lia];
      vm_compute in Hj; injection Hj as <-; try (destruct Ha; fail).
    destruct Ha as [<-|[]]. discriminate Hm. }
  set (g := fun i : nat => match i with 4%nat => 0%nat | 7%nat => 4%nat | _ => 0%nat end).
  assert (Efg : forall i ri m, (i < 8)%nat -> nth_error ex3_H i = Some ri ->
            se_ev (h_ev ri) = TEBlockingBegin m -> f i = g i).
  { intros i ri m Li Hi Hev.
    do 8 (destruct i as [|i]; [try (vm_compute in Hi; injection Hi as <-; discriminate Hev); assumption|]). lia. }
  eexists. split; [reflexivity|]. repeat (split; [reflexivity|]). split.
  - unfold replayX. rewrite (replayG_ext replay_begin_r true f g ex3_H 6); [vm_compute; reflexivity|].
    intros i ri m Li. apply Efg. lia.
  - unfold replayX. rewrite (replayG_ext replay_begin_r true f g ex3_H 8 Efg). vm_compute. reflexivity.
Qed.

Print Assumptions bypass_all_replay_partial.
Print Assumptions bypass_all_replay_history_partial.
Print Assumptions bypass_all_replay_stated_no_zero_replace.
Print Assumptions replay_flag_true_all.
Print Assumptions replayC_sound.
Print Assumptions stated_target_refuted.
