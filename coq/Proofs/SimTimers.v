From Coq Require Import List Arith Lia Permutation Sorted ZArith.
From MB Require Import Base.Prelude Model.Framework Model.Sim Proofs.Tactics Proofs.SimHeap.
Import ListNotations.
Open Scope N_scope.

(** * The simulator runs the per-machine action timer and internal timer as the
      framework's contract says (step contracts for [apply_actions],
      [do_scheduled_action], [do_internal_timer] and [pick_next]). *)

(** ** list helpers *)
Lemma st_upd_length : forall {A} (l : list A) i x, length (upd l i x) = length l.
Proof. intros A l. induction l as [|a l IH]; intros [|i] x; cbn [upd length]; auto. Qed.

Lemma st_nth_upd : forall {A} (l : list A) i j x c,
  nth_error l j = Some c ->
  nth_error (upd l i x) j = Some (if Nat.eqb i j then x else c).
Proof.
  intros A l. induction l as [|a l IH]; intros [|i] [|j] x c H; cbn [upd nth_error Nat.eqb] in *;
    try discriminate; auto.
Qed.

Lemma st_upd_oob : forall {A} (l : list A) i x, nth_error l i = None -> upd l i x = l.
Proof.
  intros A l. induction l as [|a l IH]; intros [|i] x H; cbn [upd nth_error] in *;
    try discriminate; auto.
  f_equal. apply IH. exact H.
Qed.

(** an entry that survives clearing a slot was there before *)
Lemma st_nth_upd_none : forall {A} (l : list (option A)) i j x,
  nth_error (upd l i None) j = Some (Some x) -> nth_error l j = Some (Some x).
Proof.
  intros A l. induction l as [|a l IH]; intros [|i] [|j] x H; cbn [upd nth_error] in *;
    try discriminate; auto.
  eapply IH. exact H.
Qed.

(** ** what a list of returned actions does to ONE machine's slots (the specification) *)
Definition sched_step (nowt : Z) (mi : nat) (cur : option (taction * Z)) (a : taction) : option (taction * Z) :=
  if Nat.eqb (N.to_nat (taction_machine a)) mi then
    match a with
    | TSendPadding _ tmo _ _ | TBlockOutgoing _ tmo _ _ _ => Some (a, (nowt + Z.of_N tmo)%Z)
    | TCancel _ TAction | TCancel _ TAll => None
    | _ => cur
    end
  else cur.
Definition sched_after (acts : list taction) (nowt : Z) (mi : nat) (cur : option (taction * Z)) :=
  fold_left (sched_step nowt mi) acts cur.

(** UpdateTimer: set when replace, when no timer is running, or when the new expiry is later *)
Definition timer_sets (nowt : Z) (cur : option Z) (dur : N) (rp : bool) : bool :=
  rp || match cur with None => true | Some t => (t <? nowt + Z.of_N dur)%Z end.
Definition timer_step (nowt : Z) (mi : nat) (cur : option Z) (a : taction) : option Z :=
  if Nat.eqb (N.to_nat (taction_machine a)) mi then
    match a with
    | TUpdateTimer _ dur rp => if timer_sets nowt cur dur rp then Some (nowt + Z.of_N dur)%Z else cur
    | TCancel _ TInternal | TCancel _ TAll => None
    | _ => cur
    end
  else cur.
Definition timer_after (acts : list taction) (nowt : Z) (mi : nat) (cur : option Z) :=
  fold_left (timer_step nowt mi) acts cur.

(** the TimerBegin events: one per UpdateTimer that sets the timer, in action order *)
Fixpoint timer_begins (acts : list taction) (nowt : Z) (is_client : bool) (timers : list (option Z)) : list sev :=
  match acts with
  | [] => []
  | a :: rest =>
      let mi := N.to_nat (taction_machine a) in
      match a with
      | TUpdateTimer m dur rp =>
          let cur := match nth_error timers mi with Some c => c | None => None end in
          if timer_sets nowt cur dur rp
          then mksev (TETimerBegin m) nowt is_client false false false
               :: timer_begins rest nowt is_client (upd timers mi (Some (nowt + Z.of_N dur)%Z))
          else timer_begins rest nowt is_client timers
      | TCancel _ TInternal | TCancel _ TAll => timer_begins rest nowt is_client (upd timers mi None)
      | _ => timer_begins rest nowt is_client timers
      end
  end.

(** one action of [apply_actions] *)
Definition apply1 (a : taction) (sd : side) (sq : simq) (nowt : Z) (is_client : bool) : outcome (side * simq) :=
  let mi := N.to_nat (taction_machine a) in
  match a with
  | TCancel _ tm =>
      _ <- get (s_sched sd) mi ;;
      Ok (match tm with
          | TAction => side_set_sched sd (upd (s_sched sd) mi None)
          | TInternal => side_set_timers sd (upd (s_timers sd) mi None)
          | TAll => side_set_timers (side_set_sched sd (upd (s_sched sd) mi None))
                                    (upd (s_timers sd) mi None)
          end, sq)
  | TSendPadding _ tmo _ _ | TBlockOutgoing _ tmo _ _ _ =>
      _ <- get (s_sched sd) mi ;;
      Ok (side_set_sched sd (upd (s_sched sd) mi (Some (a, (nowt + Z.of_N tmo)%Z))), sq)
  | TUpdateTimer m dur rp =>
      cur <- get (s_timers sd) mi ;;
      let current := match cur with Some t => t | None => nowt end in
      if rp || (match cur with None => true | Some _ => false end) || (current <? nowt + Z.of_N dur)%Z then
        Ok (side_set_timers sd (upd (s_timers sd) mi (Some (nowt + Z.of_N dur)%Z)),
            sq_push sq (mksev (TETimerBegin m) nowt is_client false false false))
      else Ok (sd, sq)
  end.

Lemma apply_actions_cons : forall a rest sd sq nowt ic,
  apply_actions (a :: rest) sd sq nowt ic =
  ('(sd', sq') <- apply1 a sd sq nowt ic ;; apply_actions rest sd' sq' nowt ic).
Proof. intros. destruct a; reflexivity. Qed.

Lemma timer_sets_model : forall nowt cur dur rp,
  (rp || (match cur with None => true | Some _ => false end)
   || ((match cur with Some t => t | None => nowt end) <? nowt + Z.of_N dur)%Z)%bool
  = timer_sets nowt cur dur rp.
Proof.
  intros nowt [t|] dur rp; unfold timer_sets; destruct rp; cbn [orb]; auto.
Qed.

Lemma apply1_spec : forall a sd sq nowt ic sd1 sq1,
  apply1 a sd sq nowt ic = Ok (sd1, sq1) ->
  length (s_sched sd1) = length (s_sched sd) /\ length (s_timers sd1) = length (s_timers sd) /\
  (forall mi cur, nth_error (s_sched sd) mi = Some cur ->
                  nth_error (s_sched sd1) mi = Some (sched_step nowt mi cur a)) /\
  (forall mi cur, nth_error (s_timers sd) mi = Some cur ->
                  nth_error (s_timers sd1) mi = Some (timer_step nowt mi cur a)) /\
  (forall rest sq0, sq0 = sq ->
     fold_left sq_push (timer_begins (a :: rest) nowt ic (s_timers sd)) sq0
     = fold_left sq_push (timer_begins rest nowt ic (s_timers sd1)) sq1) /\
  s_fw sd1 = s_fw sd /\ s_buntil sd1 = s_buntil sd /\ s_bbypass sd1 = s_bbypass sd.
Proof.
  intros a sd sq nowt ic sd1 sq1 H.
  destruct a as [m tm|m tmo by_ rp|m tmo dur by_ rp|m dur rp]; unfold apply1 in H;
    cbn [taction_machine] in H.
  - (* Cancel *)
    mbind H as x E. injection H as <- <-.
    destruct tm; cbn [side_set_sched side_set_timers s_sched s_timers s_fw s_buntil s_bbypass];
      rewrite ?st_upd_length;
      (split; [reflexivity|]; split; [reflexivity|]; split; [|split; [|split]]).
    all: try (intros mi cur Hn; unfold sched_step, timer_step; cbn [taction_machine];
              first [ rewrite (st_nth_upd _ _ _ _ _ Hn); reflexivity
                    | rewrite Hn; destruct (Nat.eqb (N.to_nat m) mi); reflexivity ]).
    all: try (intros rest sq0 ->; cbn [timer_begins taction_machine]; reflexivity).
    all: auto.
  - (* SendPadding *)
    mbind H as x E. injection H as <- <-.
    cbn [side_set_sched s_sched s_timers s_fw s_buntil s_bbypass]. rewrite st_upd_length.
    split; [reflexivity|]. split; [reflexivity|]. split; [|split; [|split]].
    + intros mi cur Hn. unfold sched_step; cbn [taction_machine].
      rewrite (st_nth_upd _ _ _ _ _ Hn). reflexivity.
    + intros mi cur Hn. unfold timer_step; cbn [taction_machine].
      rewrite Hn. destruct (Nat.eqb (N.to_nat m) mi); reflexivity.
    + intros rest sq0 ->. reflexivity.
    + auto.
  - (* BlockOutgoing *)
    mbind H as x E. injection H as <- <-.
    cbn [side_set_sched s_sched s_timers s_fw s_buntil s_bbypass]. rewrite st_upd_length.
    split; [reflexivity|]. split; [reflexivity|]. split; [|split; [|split]].
    + intros mi cur Hn. unfold sched_step; cbn [taction_machine].
      rewrite (st_nth_upd _ _ _ _ _ Hn). reflexivity.
    + intros mi cur Hn. unfold timer_step; cbn [taction_machine].
      rewrite Hn. destruct (Nat.eqb (N.to_nat m) mi); reflexivity.
    + intros rest sq0 ->. reflexivity.
    + auto.
  - (* UpdateTimer *)
    mbind H as cur0 E. apply get_ok in E.
    rewrite timer_sets_model in H.
    destruct (timer_sets nowt cur0 dur rp) eqn:Ets; injection H as <- <-.
    + cbn [side_set_timers s_sched s_timers s_fw s_buntil s_bbypass]. rewrite st_upd_length.
      split; [reflexivity|]. split; [reflexivity|]. split; [|split; [|split]].
      * intros mi cur Hn. unfold sched_step; cbn [taction_machine].
        rewrite Hn. destruct (Nat.eqb (N.to_nat m) mi); reflexivity.
      * intros mi cur Hn. unfold timer_step; cbn [taction_machine].
        rewrite (st_nth_upd _ _ _ _ _ Hn).
        destruct (Nat.eqb (N.to_nat m) mi) eqn:Em; [|reflexivity].
        apply Nat.eqb_eq in Em. subst mi. rewrite E in Hn. injection Hn as <-.
        rewrite Ets. reflexivity.
      * intros rest sq0 ->. cbn [timer_begins taction_machine]. rewrite E, Ets.
        cbn [fold_left]. reflexivity.
      * auto.
    + split; [reflexivity|]. split; [reflexivity|]. split; [|split; [|split]].
      * intros mi cur Hn. unfold sched_step; cbn [taction_machine].
        rewrite Hn. destruct (Nat.eqb (N.to_nat m) mi); reflexivity.
      * intros mi cur Hn. unfold timer_step; cbn [taction_machine].
        destruct (Nat.eqb (N.to_nat m) mi) eqn:Em; [|exact Hn].
        apply Nat.eqb_eq in Em. subst mi. rewrite E in Hn. injection Hn as <-.
        rewrite Ets. exact E.
      * intros rest sq0 ->. cbn [timer_begins taction_machine]. rewrite E, Ets. reflexivity.
      * auto.
Qed.

Theorem apply_actions_spec : forall acts sd sq nowt ic sd' sq',
  apply_actions acts sd sq nowt ic = Ok (sd', sq') ->
  length (s_sched sd') = length (s_sched sd) /\ length (s_timers sd') = length (s_timers sd) /\
  (forall mi cur, nth_error (s_sched sd) mi = Some cur ->
                  nth_error (s_sched sd') mi = Some (sched_after acts nowt mi cur)) /\
  (forall mi cur, nth_error (s_timers sd) mi = Some cur ->
                  nth_error (s_timers sd') mi = Some (timer_after acts nowt mi cur)) /\
  sq' = fold_left sq_push (timer_begins acts nowt ic (s_timers sd)) sq /\
  s_fw sd' = s_fw sd /\ s_buntil sd' = s_buntil sd /\ s_bbypass sd' = s_bbypass sd.
Proof.
  induction acts as [|a rest IH]; intros sd sq nowt ic sd' sq' H.
  - cbn [apply_actions] in H. injection H as <- <-.
    unfold sched_after, timer_after. cbn [fold_left timer_begins]. auto 10.
  - rewrite apply_actions_cons in H. mbind H as p E. destruct p as [sd1 sq1].
    apply apply1_spec in E.
    destruct E as (L1 & L2 & S1 & T1 & Q1 & F1 & B1 & BB1).
    apply IH in H. destruct H as (L1' & L2' & S2 & T2 & Q2 & F2 & B2 & BB2).
    split; [congruence|]. split; [congruence|]. split; [|split; [|split]].
    + intros mi cur Hn. unfold sched_after. cbn [fold_left].
      apply S2. apply S1. exact Hn.
    + intros mi cur Hn. unfold timer_after. cbn [fold_left].
      apply T2. apply T1. exact Hn.
    + rewrite Q2. symmetry. apply Q1. reflexivity.
    + split; [congruence|]. split; congruence.
Qed.

(** ** firing: the earliest due timer, exactly at its due time, exactly once *)
(** all pending (Some) entries of a slot list *)
Definition due_times (l : list (option (taction * Z))) : list Z :=
  flat_map (fun o => match o with Some (_, t) => [t] | None => [] end) l.
Definition timer_times (l : list (option Z)) : list Z :=
  flat_map (fun o => match o with Some t => [t] | None => [] end) l.

Lemma due_times_app : forall a b, due_times (a ++ b) = due_times a ++ due_times b.
Proof. intros. unfold due_times. apply flat_map_app. Qed.
Lemma timer_times_app : forall a b, timer_times (a ++ b) = timer_times a ++ timer_times b.
Proof. intros. unfold timer_times. apply flat_map_app. Qed.

Lemma in_due_times : forall l t,
  In t (due_times l) <-> exists mi a, nth_error l mi = Some (Some (a, t)).
Proof.
  induction l as [|o l IH]; intros t.
  - split; [intros []|]. intros (mi & a & H). destruct mi; discriminate.
  - change (due_times (o :: l)) with
      ((match o with Some (_, t) => [t] | None => [] end) ++ due_times l).
    rewrite in_app_iff, IH. split.
    + intros [H|(mi & a & H)].
      * destruct o as [[a t']|]; [|destruct H]. destruct H as [->|[]]. exists 0%nat, a. reflexivity.
      * exists (S mi), a. exact H.
    + intros ([|mi] & a & H); cbn [nth_error] in H.
      * injection H as ->. left. left. reflexivity.
      * right. eauto.
Qed.

Lemma in_timer_times : forall l t,
  In t (timer_times l) <-> exists mi, nth_error l mi = Some (Some t).
Proof.
  induction l as [|o l IH]; intros t.
  - split; [intros []|]. intros (mi & H). destruct mi; discriminate.
  - change (timer_times (o :: l)) with
      ((match o with Some t => [t] | None => [] end) ++ timer_times l).
    rewrite in_app_iff, IH. split.
    + intros [H|(mi & H)].
      * destruct o as [t'|]; [|destruct H]. destruct H as [->|[]]. exists 0%nat. reflexivity.
      * exists (S mi). exact H.
    + intros ([|mi] & H); cbn [nth_error] in H.
      * injection H as ->. left. left. reflexivity.
      * right. eauto.
Qed.

(** the common scan: the least non-negative distance, capped by the start value *)
Definition scan_step (nowt : Z) (acc : N) (t : Z) : N :=
  if (nowt <=? t)%Z && (since t nowt <? acc) then since t nowt else acc.

Lemma since_le_DMAX : forall a b, since a b <= DMAX.
Proof. intros. unfold since. lia. Qed.

Lemma since_exact : forall t nowt, (nowt <= t)%Z -> since t nowt < DMAX ->
  (nowt + Z.of_N (since t nowt))%Z = t.
Proof. intros t nowt H1 H2. unfold since in *. lia. Qed.

Lemma since_reach : forall t nowt, since t nowt < DMAX -> (t <= nowt + Z.of_N (since t nowt))%Z.
Proof. intros t nowt H2. unfold since in *. lia. Qed.

Lemma since_below : forall t nowt, (nowt <= t)%Z -> (nowt + Z.of_N (since t nowt) <= t)%Z.
Proof. intros t nowt H1. unfold since in *. lia. Qed.

Lemma scan_spec : forall nowt ts acc, acc <= DMAX ->
  let r := fold_left (scan_step nowt) ts acc in
  r <= acc /\
  (r < acc -> In (nowt + Z.of_N r)%Z ts) /\
  (forall t, In t ts -> (nowt <= t)%Z -> r <= since t nowt).
Proof.
  intros nowt ts. induction ts as [|t ts IH]; intros acc Hacc; cbn [fold_left].
  - split; [lia|]. split; [lia|]. intros t [].
  - assert (Hs : scan_step nowt acc t <= acc /\
                 (scan_step nowt acc t < acc -> (nowt + Z.of_N (scan_step nowt acc t))%Z = t) /\
                 ((nowt <= t)%Z -> scan_step nowt acc t <= since t nowt)).
    { unfold scan_step. destruct (Z.leb_spec nowt t) as [Hle|Hgt]; cbn [andb].
      - destruct (N.ltb_spec (since t nowt) acc) as [Hlt|Hge].
        + split; [lia|]. split; [|lia]. intros _. apply since_exact; [exact Hle|lia].
        + split; [lia|]. split; [lia|]. intros _. exact Hge.
      - split; [lia|]. split; lia. }
    destruct Hs as (S1 & S2 & S3).
    specialize (IH (scan_step nowt acc t) ltac:(lia)). cbv zeta in IH.
    destruct IH as (I1 & I2 & I3).
    split; [lia|]. split.
    + intros Hlt.
      destruct (N.lt_ge_cases (fold_left (scan_step nowt) ts (scan_step nowt acc t))
                              (scan_step nowt acc t)) as [Hl|Hg].
      * right. apply I2. exact Hl.
      * left. assert (Heq : fold_left (scan_step nowt) ts (scan_step nowt acc t) = scan_step nowt acc t) by lia.
        rewrite Heq in *. symmetry. apply S2. exact Hlt.
    + intros t' [<-|Hin] Hle.
      * specialize (S3 Hle). lia.
      * apply I3; assumption.
Qed.

Lemma fold_sched_scan : forall nowt l acc,
  fold_left (fun (acc : N) (o : option (taction * Z)) =>
               match o with
               | Some (_, t) => if (nowt <=? t)%Z && (since t nowt <? acc) then since t nowt else acc
               | None => acc
               end) l acc
  = fold_left (scan_step nowt) (due_times l) acc.
Proof.
  intros nowt l. induction l as [|o l IH]; intros acc; [reflexivity|].
  cbn [fold_left]. rewrite IH.
  change (due_times (o :: l)) with
    ((match o with Some (_, t) => [t] | None => [] end) ++ due_times l).
  rewrite fold_left_app. destruct o as [[a t]|]; reflexivity.
Qed.

Lemma fold_timers_scan : forall nowt l acc,
  fold_left (fun (acc : N) (o : option Z) =>
               match o with
               | Some t => if (nowt <=? t)%Z && (since t nowt <? acc) then since t nowt else acc
               | None => acc
               end) l acc
  = fold_left (scan_step nowt) (timer_times l) acc.
Proof.
  intros nowt l. induction l as [|o l IH]; intros acc; [reflexivity|].
  cbn [fold_left]. rewrite IH.
  change (timer_times (o :: l)) with
    ((match o with Some t => [t] | None => [] end) ++ timer_times l).
  rewrite fold_left_app. destruct o as [t|]; reflexivity.
Qed.

Lemma peek_sched_scan : forall sc ss nowt,
  peek_sched sc ss nowt = fold_left (scan_step nowt) (due_times sc ++ due_times ss) DMAX.
Proof.
  intros. unfold peek_sched. rewrite !fold_sched_scan, fold_left_app. reflexivity.
Qed.

Lemma peek_timers_scan : forall tc ts nowt,
  peek_timers tc ts nowt = fold_left (scan_step nowt) (timer_times tc ++ timer_times ts) DMAX.
Proof.
  intros. unfold peek_timers. rewrite !fold_timers_scan, fold_left_app. reflexivity.
Qed.

Lemma peek_sched_spec : forall sc ss nowt sa, peek_sched sc ss nowt = sa ->
  sa <= DMAX /\
  (sa < DMAX -> In (nowt + Z.of_N sa)%Z (due_times sc ++ due_times ss)) /\
  (forall t, In t (due_times sc ++ due_times ss) -> (nowt <= t)%Z -> sa <= since t nowt).
Proof.
  intros sc ss nowt sa <-. rewrite peek_sched_scan.
  apply (scan_spec nowt (due_times sc ++ due_times ss) DMAX). lia.
Qed.

Lemma peek_timers_spec : forall tc ts nowt it, peek_timers tc ts nowt = it ->
  it <= DMAX /\
  (it < DMAX -> In (nowt + Z.of_N it)%Z (timer_times tc ++ timer_times ts)) /\
  (forall t, In t (timer_times tc ++ timer_times ts) -> (nowt <= t)%Z -> it <= since t nowt).
Proof.
  intros tc ts nowt it <-. rewrite peek_timers_scan.
  apply (scan_spec nowt (timer_times tc ++ timer_times ts) DMAX). lia.
Qed.

(** ** take_timer / take_action: the first slot whose expiry is the target *)
Lemma take_timer_spec : forall l target i j l',
  take_timer l target i = Some (j, l') ->
  exists mi, j = (i + mi)%nat /\ nth_error l mi = Some (Some target) /\ l' = upd l mi None /\
             (forall k, (k < mi)%nat -> nth_error l k <> Some (Some target)).
Proof.
  induction l as [|o l IH]; intros target i j l' H; cbn [take_timer] in H; [discriminate|].
  destruct o as [t|].
  - destruct (Z.eqb_spec t target) as [->|Hne].
    + injection H as <- <-. exists 0%nat. split; [lia|]. split; [reflexivity|]. split; [reflexivity|].
      intros k Hk; lia.
    + destruct (take_timer l target (S i)) as [[j0 r']|] eqn:E; [|discriminate].
      injection H as <- <-. apply IH in E. destruct E as (mi & -> & Hn & -> & Hfirst).
      exists (S mi). split; [lia|]. split; [exact Hn|]. split; [reflexivity|].
      intros [|k] Hk; cbn [nth_error]; [congruence|]. apply Hfirst. lia.
  - destruct (take_timer l target (S i)) as [[j0 r']|] eqn:E; [|discriminate].
    injection H as <- <-. apply IH in E. destruct E as (mi & -> & Hn & -> & Hfirst).
    exists (S mi). split; [lia|]. split; [exact Hn|]. split; [reflexivity|].
    intros [|k] Hk; cbn [nth_error]; [congruence|]. apply Hfirst. lia.
Qed.

Lemma take_action_spec : forall l target a t l',
  take_action l target = Some (a, t, l') ->
  exists mi, t = target /\ nth_error l mi = Some (Some (a, target)) /\ l' = upd l mi None /\
             (forall k b, (k < mi)%nat -> nth_error l k <> Some (Some (b, target))).
Proof.
  induction l as [|o l IH]; intros target a t l' H; cbn [take_action] in H; [discriminate|].
  destruct o as [[a0 t0]|].
  - destruct (Z.eqb_spec t0 target) as [->|Hne].
    + injection H as <- <- <-. exists 0%nat. split; [reflexivity|]. split; [reflexivity|].
      split; [reflexivity|]. intros k b Hk; lia.
    + destruct (take_action l target) as [[[a1 t1] r']|] eqn:E; [|discriminate].
      injection H as <- <- <-. apply IH in E. destruct E as (mi & -> & Hn & -> & Hfirst).
      exists (S mi). split; [reflexivity|]. split; [exact Hn|]. split; [reflexivity|].
      intros [|k] b Hk; cbn [nth_error]; [congruence|]. apply Hfirst. lia.
  - destruct (take_action l target) as [[[a1 t1] r']|] eqn:E; [|discriminate].
    injection H as <- <- <-. apply IH in E. destruct E as (mi & -> & Hn & -> & Hfirst).
    exists (S mi). split; [reflexivity|]. split; [exact Hn|]. split; [reflexivity|].
    intros [|k] b Hk; cbn [nth_error]; [congruence|]. apply Hfirst. lia.
Qed.

(** what [act_on] does to a side *)
Lemma act_on_spec : forall sd ic a t sd' e,
  act_on sd ic a t = Ok (sd', e) ->
  s_sched sd' = s_sched sd /\ s_timers sd' = s_timers sd /\ s_fw sd' = s_fw sd /\
  se_time e = t /\ se_client e = ic /\
  match a with
  | TSendPadding m _ by_ rp => se_ev e = TEPaddingSent m /\ se_pad e = true /\ se_bypass e = by_ /\ se_replace e = rp
                               /\ sd' = sd
  | TBlockOutgoing m _ _ _ _ => se_ev e = TEBlockingBegin m /\ se_pad e = false
  | _ => False
  end.
Proof.
  intros sd ic a t sd' e H.
  destruct a as [m tm|m tmo by_ rp|m tmo dur by_ rp|m dur rp]; unfold act_on in H; try discriminate.
  - injection H as <- <-. cbn [se_time se_client se_ev se_pad se_bypass se_replace]. auto 12.
  - injection H as <- <-. cbn [se_time se_client se_ev se_pad se_bypass se_replace].
    destruct (rp || _)%bool; cbn [side_set_block s_sched s_timers s_fw]; auto 12.
Qed.

Theorem do_scheduled_action_spec : forall c s target c' s' e,
  do_scheduled_action c s target = Ok (c', s', e) ->
  exists (is_client : bool) (mi : nat) (a : taction),
    let sd := if is_client then c else s in
    let sd' := if is_client then c' else s' in
    nth_error (s_sched sd) mi = Some (Some (a, target)) /\
    s_sched sd' = upd (s_sched sd) mi None /\                      (* fires once: the slot is cleared *)
    (if is_client then s' = s else c' = c) /\                      (* the other side is untouched *)
    s_timers sd' = s_timers sd /\ s_fw sd' = s_fw sd /\
    se_time e = target /\ se_client e = is_client /\
    match a with
    | TSendPadding m _ by_ rp => se_ev e = TEPaddingSent m /\ se_pad e = true /\ se_bypass e = by_ /\ se_replace e = rp
                                 /\ s_buntil sd' = s_buntil sd /\ s_bbypass sd' = s_bbypass sd
    | TBlockOutgoing m _ _ _ _ => se_ev e = TEBlockingBegin m /\ se_pad e = false
    | _ => False
    end.
Proof.
  intros c s target c' s' e H. unfold do_scheduled_action in H.
  destruct (take_action (s_sched c) target) as [[[a t] l]|] eqn:Ec.
  - mbind H as p E. destruct p as [c1 e1]. injection H as <- <- <-.
    apply take_action_spec in Ec. destruct Ec as (mi & -> & Hn & -> & _).
    apply act_on_spec in E. destruct E as (A1 & A2 & A3 & A4 & A5 & A6).
    cbn [side_set_sched s_sched s_timers s_fw] in A1, A2, A3.
    exists true, mi, a. cbv zeta.
    split; [exact Hn|]. split; [exact A1|]. split; [reflexivity|]. split; [exact A2|].
    split; [exact A3|]. split; [exact A4|]. split; [exact A5|].
    destruct a; try exact A6.
    destruct A6 as (B1 & B2 & B3 & B4 & ->). cbn [side_set_sched s_buntil s_bbypass]. auto 10.
  - destruct (take_action (s_sched s) target) as [[[a t] l]|] eqn:Es; [|discriminate].
    mbind H as p E. destruct p as [s1 e1]. injection H as <- <- <-.
    apply take_action_spec in Es. destruct Es as (mi & -> & Hn & -> & _).
    apply act_on_spec in E. destruct E as (A1 & A2 & A3 & A4 & A5 & A6).
    cbn [side_set_sched s_sched s_timers s_fw] in A1, A2, A3.
    exists false, mi, a. cbv zeta.
    split; [exact Hn|]. split; [exact A1|]. split; [reflexivity|]. split; [exact A2|].
    split; [exact A3|]. split; [exact A4|]. split; [exact A5|].
    destruct a; try exact A6.
    destruct A6 as (B1 & B2 & B3 & B4 & ->). cbn [side_set_sched s_buntil s_bbypass]. auto 10.
Qed.

(** the fired slot is the FIRST one (client machines before server machines) due at [target] *)
Lemma do_scheduled_action_first : forall c s target c' s' e,
  do_scheduled_action c s target = Ok (c', s', e) ->
  (exists mi a, nth_error (s_sched c) mi = Some (Some (a, target)) /\ s_sched c' = upd (s_sched c) mi None /\
                (forall k b, (k < mi)%nat -> nth_error (s_sched c) k <> Some (Some (b, target))) /\
                se_client e = true) \/
  (~ In target (due_times (s_sched c)) /\
   exists mi a, nth_error (s_sched s) mi = Some (Some (a, target)) /\ s_sched s' = upd (s_sched s) mi None /\
                (forall k b, (k < mi)%nat -> nth_error (s_sched s) k <> Some (Some (b, target))) /\
                se_client e = false).
Proof.
  intros c s target c' s' e H. unfold do_scheduled_action in H.
  destruct (take_action (s_sched c) target) as [[[a t] l]|] eqn:Ec.
  - left. mbind H as p E. destruct p as [c1 e1]. injection H as <- <- <-.
    apply take_action_spec in Ec. destruct Ec as (mi & -> & Hn & -> & Hf).
    apply act_on_spec in E. destruct E as (A1 & A2 & A3 & A4 & A5 & A6).
    cbn [side_set_sched s_sched] in A1. exists mi, a. auto.
  - right. split.
    + intros Hin. apply in_due_times in Hin. destruct Hin as (mi & a & Hn).
      clear H. revert mi Hn Ec. generalize (s_sched c) as l.
      induction l as [|o l IH]; intros mi Hn Ec; [destruct mi; discriminate|].
      cbn [take_action] in Ec. destruct mi as [|mi]; cbn [nth_error] in Hn.
      * injection Hn as ->. rewrite Z.eqb_refl in Ec. discriminate.
      * destruct o as [[a0 t0]|].
        -- destruct (t0 =? target)%Z; [discriminate|].
           destruct (take_action l target) as [[[a1 t1] r']|] eqn:E1; [discriminate|].
           eapply IH; eauto.
        -- destruct (take_action l target) as [[[a1 t1] r']|] eqn:E1; [discriminate|].
           eapply IH; eauto.
    + destruct (take_action (s_sched s) target) as [[[a t] l]|] eqn:Es; [|discriminate].
      mbind H as p E. destruct p as [s1 e1]. injection H as <- <- <-.
      apply take_action_spec in Es. destruct Es as (mi & -> & Hn & -> & Hf).
      apply act_on_spec in E. destruct E as (A1 & A2 & A3 & A4 & A5 & A6).
      cbn [side_set_sched s_sched] in A1. exists mi, a. auto.
Qed.

Theorem do_internal_timer_spec : forall c s target c' s' e,
  do_internal_timer c s target = Ok (c', s', e) ->
  exists (is_client : bool) (mi : nat),
    let sd := if is_client then c else s in
    let sd' := if is_client then c' else s' in
    nth_error (s_timers sd) mi = Some (Some target) /\
    s_timers sd' = upd (s_timers sd) mi None /\
    (if is_client then s' = s else c' = c) /\
    s_sched sd' = s_sched sd /\ s_fw sd' = s_fw sd /\ s_buntil sd' = s_buntil sd /\ s_bbypass sd' = s_bbypass sd /\
    e = mksev (TETimerEnd (N.of_nat mi)) target is_client false false false.
Proof.
  intros c s target c' s' e H. unfold do_internal_timer in H.
  destruct (take_timer (s_timers c) target 0) as [[id l]|] eqn:Ec.
  - injection H as <- <- <-.
    apply take_timer_spec in Ec. destruct Ec as (mi & -> & Hn & -> & _).
    exists true, mi. cbv zeta. cbn [side_set_timers s_sched s_timers s_fw s_buntil s_bbypass Nat.add].
    auto 10.
  - destruct (take_timer (s_timers s) target 0) as [[id l]|] eqn:Es; [|discriminate].
    injection H as <- <- <-.
    apply take_timer_spec in Es. destruct Es as (mi & -> & Hn & -> & _).
    exists false, mi. cbv zeta. cbn [side_set_timers s_sched s_timers s_fw s_buntil s_bbypass Nat.add].
    auto 10.
Qed.

(** ** one layer of [pick_next] as a case split *)
Lemma peek_blocked_exp_le : forall bc bs nowt b bic,
  peek_blocked_exp bc bs nowt = (b, bic) -> b <= DMAX.
Proof.
  intros bc bs nowt b bic H. unfold peek_blocked_exp in H.
  destruct bc as [c|], bs as [s|]; [destruct (c <? s)%Z| | |]; injection H as <- _;
    try apply since_le_DMAX; lia.
Qed.

Definition pn_case (fuel' : nat) (st : sim) (nowt : Z) (r : option sev) (st' : sim)
           (sa it b : N) (bic : bool) (q : N) (which : qid) (qic : bool) : Prop :=
  (r = None /\ st' = st) \/
  (pick_next fuel' (mksim (m_sq st) (m_c st) (m_s st) (net_pop_agg (m_net st)) (m_pos st)) nowt = Ok (r, st')) \/
  (b <= sa /\ b <= it /\ b <= q /\
   r = Some (mksev TEBlockingEnd (nowt + Z.of_N b)%Z bic false false false) /\
   exists c' s' net', st' = mksim (m_sq st) c' s' net' (m_pos st) /\
     s_sched c' = s_sched (m_c st) /\ s_timers c' = s_timers (m_c st) /\
     s_sched s' = s_sched (m_s st) /\ s_timers s' = s_timers (m_s st)) \/
  (q <= sa /\ q <= it /\ q < DMAX /\
   exists tmp sq', sq_pop (m_sq st) which qic (if qic then n_cagg (m_net st) else n_sagg (m_net st)) = Some (tmp, sq') /\
     r = Some (if (se_time tmp <? nowt + Z.of_N q)%Z then set_time tmp (nowt + Z.of_N q)%Z else tmp) /\
     st' = mksim sq' (m_c st) (m_s st) (m_net st) (m_pos st)) \/
  (it <= sa /\
   exists c' s' e, do_internal_timer (m_c st) (m_s st) (nowt + Z.of_N it)%Z = Ok (c', s', e) /\
     pick_next fuel' (mksim (sq_push (m_sq st) e) c' s' (m_net st) (m_pos st)) (nowt + Z.of_N it)%Z = Ok (r, st')) \/
  (sa < it /\
   exists c' s' e, do_scheduled_action (m_c st) (m_s st) (nowt + Z.of_N sa)%Z = Ok (c', s', e) /\
     pick_next fuel' (mksim (sq_push (m_sq st) e) c' s' (m_net st) (m_pos st)) (nowt + Z.of_N sa)%Z = Ok (r, st')).

Lemma pick_next_cases0 : forall fuel' st nowt r st',
  pick_next (S fuel') st nowt = Ok (r, st') ->
  forall sa it b bic n q which qic,
  sa = peek_sched (s_sched (m_c st)) (s_sched (m_s st)) nowt ->
  it = peek_timers (s_timers (m_c st)) (s_timers (m_s st)) nowt ->
  (b, bic) = peek_blocked_exp (s_buntil (m_c st)) (s_buntil (m_s st)) nowt ->
  n = net_peek_agg (m_net st) nowt ->
  (q, which, qic) = peek_queue (m_sq st) (m_c st) (m_s st) (n_cagg (m_net st)) (n_sagg (m_net st))
                               (N.min (N.min (N.min sa it) b) n) nowt ->
  pn_case fuel' st nowt r st' sa it b bic q which qic.
Proof.
  intros fuel' st nowt r st' H sa it b bic n q which qic Hsa Hit Hb Hn Hq.
  unfold pn_case. cbn [pick_next] in H.
  rewrite <- Hsa, <- Hit, <- Hn in H. rewrite <- Hb in H. rewrite <- Hq in H.
  destruct ((sa =? DMAX) && (it =? DMAX) && (b =? DMAX) && (n =? DMAX) && (q =? DMAX)) eqn:E0.
  { injection H as <- <-. left. auto. }
  right.
  destruct ((n <=? sa) && (n <=? it) && (n <=? b) && (n <=? q)) eqn:E1.
  { left. exact H. }
  right.
  destruct ((b <=? sa) && (b <=? it) && (b <=? q)) eqn:E2.
  { left. split_andb.
    repeat match goal with Hx : (_ <=? _) = true |- _ => apply N.leb_le in Hx end.
    destruct bic; injection H as <- <-.
    - split; [assumption|]. split; [assumption|]. split; [assumption|]. split; [reflexivity|].
      eexists _, _, _. split; [reflexivity|]. cbn [side_set_block s_sched s_timers]. auto.
    - split; [assumption|]. split; [assumption|]. split; [assumption|]. split; [reflexivity|].
      eexists _, _, _. split; [reflexivity|]. cbn [side_set_block s_sched s_timers]. auto. }
  right.
  destruct ((q <=? sa) && (q <=? it)) eqn:E3.
  { left. split_andb.
    repeat match goal with Hx : (_ <=? _) = true |- _ => apply N.leb_le in Hx end.
    split; [assumption|]. split; [assumption|]. split.
    - symmetry in Hb. apply peek_blocked_exp_le in Hb.
      destruct (N.leb_spec b sa) as [B1|B1]; [|lia].
      destruct (N.leb_spec b it) as [B2|B2]; [|lia].
      destruct (N.leb_spec b q) as [B3|B3]; [|lia].
      discriminate E2.
    - destruct (sq_pop (m_sq st) which qic (if qic then n_cagg (m_net st) else n_sagg (m_net st)))
        as [[tmp sq']|] eqn:Ep; [|discriminate].
      injection H as <- <-. eauto. }
  right.
  destruct (N.leb_spec it sa) as [E4|E4].
  - left. split; [exact E4|].
    mbind H as p Ed. destruct p as [[c' s'] e]. eauto.
  - right. split; [exact E4|].
    mbind H as p Ed. destruct p as [[c' s'] e]. eauto.
Qed.

Lemma pick_next_cases : forall fuel' st nowt r st',
  pick_next (S fuel') st nowt = Ok (r, st') ->
  exists b bic q which qic,
    let sa := peek_sched (s_sched (m_c st)) (s_sched (m_s st)) nowt in
    let it := peek_timers (s_timers (m_c st)) (s_timers (m_s st)) nowt in
    peek_blocked_exp (s_buntil (m_c st)) (s_buntil (m_s st)) nowt = (b, bic) /\
    peek_queue (m_sq st) (m_c st) (m_s st) (n_cagg (m_net st)) (n_sagg (m_net st))
               (N.min (N.min (N.min sa it) b) (net_peek_agg (m_net st) nowt)) nowt = (q, which, qic) /\
    pn_case fuel' st nowt r st' sa it b bic q which qic.
Proof.
  intros fuel' st nowt r st' H.
  destruct (peek_blocked_exp (s_buntil (m_c st)) (s_buntil (m_s st)) nowt) as [b bic] eqn:Hb.
  destruct (peek_queue (m_sq st) (m_c st) (m_s st) (n_cagg (m_net st)) (n_sagg (m_net st))
              (N.min (N.min (N.min (peek_sched (s_sched (m_c st)) (s_sched (m_s st)) nowt)
                                   (peek_timers (s_timers (m_c st)) (s_timers (m_s st)) nowt)) b)
                     (net_peek_agg (m_net st) nowt)) nowt) as [[q which] qic] eqn:Hq.
  exists b, bic, q, which, qic. cbv zeta.
  split; [reflexivity|]. split; [exact Hq|].
  eapply pick_next_cases0; try reflexivity; [exact H|symmetry; exact Hb|symmetry; exact Hq].
Qed.

(** ** pick_next never touches the slots except by firing *)
Definition slots_sub (st' st : sim) : Prop :=
  (forall mi x, nth_error (s_sched (m_c st')) mi = Some (Some x) -> nth_error (s_sched (m_c st)) mi = Some (Some x)) /\
  (forall mi x, nth_error (s_sched (m_s st')) mi = Some (Some x) -> nth_error (s_sched (m_s st)) mi = Some (Some x)) /\
  (forall mi x, nth_error (s_timers (m_c st')) mi = Some (Some x) -> nth_error (s_timers (m_c st)) mi = Some (Some x)) /\
  (forall mi x, nth_error (s_timers (m_s st')) mi = Some (Some x) -> nth_error (s_timers (m_s st)) mi = Some (Some x)).

Lemma slots_sub_refl : forall st, slots_sub st st.
Proof. intros st. unfold slots_sub. auto. Qed.

Lemma slots_sub_trans : forall a b c, slots_sub a b -> slots_sub b c -> slots_sub a c.
Proof. unfold slots_sub. intros a b c (A1 & A2 & A3 & A4) (B1 & B2 & B3 & B4). auto 10. Qed.

Lemma slots_sub_same : forall st' st,
  s_sched (m_c st') = s_sched (m_c st) -> s_sched (m_s st') = s_sched (m_s st) ->
  s_timers (m_c st') = s_timers (m_c st) -> s_timers (m_s st') = s_timers (m_s st) ->
  slots_sub st' st.
Proof. intros st' st E1 E2 E3 E4. unfold slots_sub. rewrite E1, E2, E3, E4. auto. Qed.

Lemma slots_sub_internal : forall st c' s' e target sq net pos,
  do_internal_timer (m_c st) (m_s st) target = Ok (c', s', e) ->
  slots_sub (mksim sq c' s' net pos) st.
Proof.
  intros st c' s' e target sq net pos H.
  apply do_internal_timer_spec in H. destruct H as (ic & mi & H). cbv zeta in H.
  unfold slots_sub. cbn [m_c m_s].
  destruct ic; destruct H as (H1 & H2 & H3 & H4 & _); subst; rewrite H2, H4.
  - split; [auto|]. split; [auto|]. split; [|auto]. intros k x. apply st_nth_upd_none.
  - split; [auto|]. split; [auto|]. split; [auto|]. intros k x. apply st_nth_upd_none.
Qed.

Lemma slots_sub_sched : forall st c' s' e target sq net pos,
  do_scheduled_action (m_c st) (m_s st) target = Ok (c', s', e) ->
  slots_sub (mksim sq c' s' net pos) st.
Proof.
  intros st c' s' e target sq net pos H.
  apply do_scheduled_action_spec in H. destruct H as (ic & mi & a & H). cbv zeta in H.
  unfold slots_sub. cbn [m_c m_s].
  destruct ic; destruct H as (H1 & H2 & H3 & H4 & _); subst; rewrite H2, H4.
  - split; [|auto]. intros k x. apply st_nth_upd_none.
  - split; [auto|]. split; [|auto]. intros k x. apply st_nth_upd_none.
Qed.

Lemma pick_next_slots_sub : forall fuel st nowt r st',
  pick_next fuel st nowt = Ok (r, st') -> slots_sub st' st.
Proof.
  induction fuel as [|fuel IH]; intros st nowt r st' H; [discriminate H|].
  apply pick_next_cases in H.
  destruct H as (b & bic & q & which & qic & _ & _ & H). unfold pn_case in H.
  destruct H as [(_ & ->)|[H|[H|[H|[H|H]]]]].
  - apply slots_sub_refl.
  - apply IH in H. eapply slots_sub_trans; [exact H|].
    apply slots_sub_same; reflexivity.
  - destruct H as (_ & _ & _ & _ & c' & s' & net' & -> & E1 & E2 & E3 & E4).
    apply slots_sub_same; assumption.
  - destruct H as (_ & _ & _ & tmp & sq' & _ & _ & ->). apply slots_sub_same; reflexivity.
  - destruct H as (_ & c' & s' & e & Hd & H). apply IH in H.
    eapply slots_sub_trans; [exact H|]. eapply slots_sub_internal; exact Hd.
  - destruct H as (_ & c' & s' & e & Hd & H). apply IH in H.
    eapply slots_sub_trans; [exact H|]. eapply slots_sub_sched; exact Hd.
Qed.

Theorem pick_next_slots : forall fuel st nowt r st',
  pick_next fuel st nowt = Ok (r, st') ->
  (forall mi x, nth_error (s_sched (m_c st')) mi = Some (Some x) -> nth_error (s_sched (m_c st)) mi = Some (Some x)) /\
  (forall mi x, nth_error (s_sched (m_s st')) mi = Some (Some x) -> nth_error (s_sched (m_s st)) mi = Some (Some x)) /\
  (forall mi x, nth_error (s_timers (m_c st')) mi = Some (Some x) -> nth_error (s_timers (m_c st)) mi = Some (Some x)) /\
  (forall mi x, nth_error (s_timers (m_s st')) mi = Some (Some x) -> nth_error (s_timers (m_s st)) mi = Some (Some x)).
Proof. exact pick_next_slots_sub. Qed.

(** the pending times of a state, and their monotonicity under [slots_sub] *)
Definition pending (st : sim) : list Z :=
  due_times (s_sched (m_c st)) ++ due_times (s_sched (m_s st))
  ++ timer_times (s_timers (m_c st)) ++ timer_times (s_timers (m_s st)).

Lemma slots_sub_pending : forall st' st t, slots_sub st' st -> In t (pending st') -> In t (pending st).
Proof.
  intros st' st t (A1 & A2 & A3 & A4). unfold pending.
  rewrite !in_app_iff, !in_due_times, !in_timer_times.
  intros [(mi & a & H)|[(mi & a & H)|[(mi & H)|(mi & H)]]]; eauto 8.
Qed.

(** every pending time that is not overdue is at least the two peeks away *)
Lemma pending_ge_peeks : forall st nowt t,
  In t (pending st) -> (nowt <= t)%Z ->
  let sa := peek_sched (s_sched (m_c st)) (s_sched (m_s st)) nowt in
  let it := peek_timers (s_timers (m_c st)) (s_timers (m_s st)) nowt in
  (nowt + Z.of_N (N.min sa it) <= t)%Z.
Proof.
  intros st nowt t Hin Hle sa it.
  destruct (peek_sched_spec _ _ nowt sa eq_refl) as (_ & _ & Hs).
  destruct (peek_timers_spec _ _ nowt it eq_refl) as (_ & _ & Ht).
  pose proof (since_below t nowt Hle) as Hb.
  unfold pending in Hin. rewrite app_assoc in Hin. apply in_app_or in Hin.
  destruct Hin as [Hin|Hin].
  - specialize (Hs t Hin Hle). lia.
  - specialize (Ht t Hin Hle). lia.
Qed.

(** ** peek / pop consistency of the event queue *)
(** the heap a [qid] names, and the time [evq_pop] reports for its head *)
Definition evq_sel (q : evq) (which : qid) : list sev :=
  match which with
  | QBlocking => q_blocking q | QBypassable => q_bypass q | QInternal => q_internal q | QBase => q_base q
  end.
Definition pop_time (which : qid) (p : sev) (delay : N) : Z :=
  match which with QBase => (se_time p + Z.of_N delay)%Z | _ => se_time p end.

(** queue well-formedness: every event sits in the queue of its own side. [sq_push] routes by
    [se_client], so this is an invariant of every reachable queue; [peek_queue] relies on it when it
    answers "pop from side [se_client p]" for the head [p] it found. *)
Definition evq_wf (b : bool) (q : evq) : Prop :=
  forall which e, In e (evq_sel q which) -> se_client e = b.
Definition sq_wf (sq : simq) : Prop := evq_wf true (sq_c sq) /\ evq_wf false (sq_s sq).

Lemma sq_wf_side : forall sq ic, sq_wf sq -> evq_wf ic (sq_side sq ic).
Proof. intros sq [|] [H1 H2]; assumption. Qed.

Lemma heap_peek_in : forall {A} (h : list A) p, heap_peek h = Some p -> In p h.
Proof. intros A [|a h] p H; [discriminate|]. injection H as ->. left. reflexivity. Qed.

Lemma evq_pop_sel : forall q which delay x q',
  evq_pop q which delay = Some (x, q') ->
  exists p, heap_peek (evq_sel q which) = Some p /\ se_time x = pop_time which p delay.
Proof.
  intros q which delay x q' H. unfold evq_pop in H.
  destruct which; cbn [evq_sel pop_time];
    match type of H with match ?hp with _ => _ end = _ => destruct hp as [[p h]|] eqn:E end;
    try discriminate; injection H as <- <-; apply heap_pop_peek in E; exists p; split; auto.
Qed.

Lemma evq_peek_sel : forall q delay nowt p which dur,
  evq_peek q delay nowt = (Some p, which, dur) ->
  heap_peek (evq_sel q which) = Some p /\ dur = since (pop_time which p delay) nowt.
Proof.
  intros q delay nowt p which dur H. unfold evq_peek in H.
  destruct (evq_len q); [discriminate|].
  destruct (opt_gt (heap_peek (q_blocking q)) (heap_peek (q_bypass q))) eqn:E1.
  - destruct (opt_gt (heap_peek (q_internal q)) (heap_peek (q_blocking q))) eqn:E2.
    + destruct (before (heap_peek (q_base q)) (heap_peek (q_internal q)) delay) eqn:E3.
      * injection H as H1 <- <-. cbn [evq_sel pop_time]. rewrite H1. auto.
      * injection H as H1 <- <-. cbn [evq_sel pop_time]. rewrite H1. auto.
    + destruct (before (heap_peek (q_base q)) (heap_peek (q_blocking q)) delay) eqn:E3.
      * injection H as H1 <- <-. cbn [evq_sel pop_time]. rewrite H1. auto.
      * injection H as H1 <- <-. cbn [evq_sel pop_time]. rewrite H1. auto.
  - destruct (opt_gt (heap_peek (q_internal q)) (heap_peek (q_bypass q))) eqn:E2.
    + destruct (before (heap_peek (q_base q)) (heap_peek (q_internal q)) delay) eqn:E3.
      * injection H as H1 <- <-. cbn [evq_sel pop_time]. rewrite H1. auto.
      * injection H as H1 <- <-. cbn [evq_sel pop_time]. rewrite H1. auto.
    + destruct (before (heap_peek (q_base q)) (heap_peek (q_bypass q)) delay) eqn:E3.
      * injection H as H1 <- <-. cbn [evq_sel pop_time]. rewrite H1. auto.
      * injection H as H1 <- <-. cbn [evq_sel pop_time]. rewrite H1. auto.
Qed.

Lemma sq_peek_sel : forall sq cd sd nowt p which dur,
  sq_wf sq -> sq_peek sq cd sd nowt = (Some p, which, dur) ->
  heap_peek (evq_sel (sq_side sq (se_client p)) which) = Some p /\
  dur = since (pop_time which p (if se_client p then cd else sd)) nowt.
Proof.
  intros sq cd sd nowt p which dur [Wc Ws] H. unfold sq_peek in H.
  destruct (sq_len sq); [discriminate|].
  destruct (evq_peek (sq_c sq) cd nowt) as [[c cq] cdur] eqn:Ec.
  destruct (evq_peek (sq_s sq) sd nowt) as [[s sqq] sdur] eqn:Es.
  assert (HC : forall p0, c = Some p0 -> (c, cq, cdur) = (Some p, which, dur) ->
               heap_peek (evq_sel (sq_side sq (se_client p)) which) = Some p /\
               dur = since (pop_time which p (if se_client p then cd else sd)) nowt).
  { intros p0 -> Hi. injection Hi as -> -> ->. apply evq_peek_sel in Ec. destruct Ec as [E1 E2].
    rewrite (Wc which p (heap_peek_in _ _ E1)). cbn [sq_side]. auto. }
  assert (HS : forall p0, s = Some p0 -> (s, sqq, sdur) = (Some p, which, dur) ->
               heap_peek (evq_sel (sq_side sq (se_client p)) which) = Some p /\
               dur = since (pop_time which p (if se_client p then cd else sd)) nowt).
  { intros p0 -> Hi. injection Hi as -> -> ->. apply evq_peek_sel in Es. destruct Es as [E1 E2].
    rewrite (Ws which p (heap_peek_in _ _ E1)). cbn [sq_side]. auto. }
  destruct c as [ce|], s as [se|].
  - destruct (match cdur ?= sdur with
              | Eq => ev_idx (se_ev ce) ?= ev_idx (se_ev se) | x => x end).
    + eapply HC; [reflexivity|exact H].
    + eapply HC; [reflexivity|exact H].
    + eapply HS; [reflexivity|exact H].
  - eapply HC; [reflexivity|exact H].
  - eapply HS; [reflexivity|exact H].
  - discriminate.
Qed.

Lemma sq_peek_blocking_sel : forall sq bb ic p which,
  sq_peek_blocking sq bb ic = (Some p, which) ->
  heap_peek (evq_sel (sq_side sq ic) which) = Some p /\ pop_time which p = (fun _ => se_time p).
Proof.
  intros sq bb ic p which H. unfold sq_peek_blocking in H.
  destruct bb.
  - injection H as H1 <-. cbn [evq_sel pop_time]. auto.
  - destruct (opt_gt _ _); injection H as H1 <-; cbn [evq_sel pop_time]; auto.
Qed.

Lemma evq_peek_non_blocking_sel : forall q delay p which,
  evq_peek_non_blocking q delay = (Some p, which) -> heap_peek (evq_sel q which) = Some p.
Proof.
  intros q delay p which H. unfold evq_peek_non_blocking in H.
  destruct (before _ _ _); injection H as H1 <-; cbn [evq_sel]; auto.
Qed.

Lemma sq_peek_non_blocking_sel : forall sq bb ic delay p which,
  sq_peek_non_blocking sq bb ic delay = (Some p, which) ->
  heap_peek (evq_sel (sq_side sq ic) which) = Some p.
Proof.
  intros sq bb ic delay p which H. unfold sq_peek_non_blocking in H.
  destruct bb.
  - destruct (evq_peek_non_blocking (sq_side sq ic) delay) as [n nq] eqn:En.
    destruct (opt_gt _ _).
    + injection H as H1 <-. cbn [evq_sel]. auto.
    + injection H as -> <-. eapply evq_peek_non_blocking_sel. exact En.
  - eapply evq_peek_non_blocking_sel. exact H.
Qed.

Lemma pop_time_qbase : forall nq n delay,
  (if qid_eqb nq QBase then (se_time n + Z.of_N delay)%Z else se_time n) = pop_time nq n delay.
Proof. intros [| | |] n delay; reflexivity. Qed.

Lemma pqes_sel : forall sq bu bb nowt delay ic d which ic',
  peek_queue_earliest_side sq bu bb nowt delay ic = (d, which, ic') -> d < DMAX ->
  ic' = ic /\ exists p, heap_peek (evq_sel (sq_side sq ic) which) = Some p /\
                        (pop_time which p delay <= nowt + Z.of_N d)%Z.
Proof.
  intros sq bu bb nowt delay ic d which ic' H Hd. unfold peek_queue_earliest_side in H.
  destruct (sq_peek_blocking sq bb ic) as [pb bq] eqn:Eb.
  destruct (sq_peek_non_blocking sq bb ic delay) as [pn nq] eqn:En.
  destruct pb as [b|], pn as [n|].
  - apply sq_peek_blocking_sel in Eb. destruct Eb as [Eb1 Eb2].
    apply sq_peek_non_blocking_sel in En. rewrite pop_time_qbase in H.
    match type of H with (if ?c then _ else _) = _ => destruct c end; injection H as <- <- <-.
    + split; [reflexivity|]. exists b. split; [exact Eb1|]. rewrite Eb2.
      apply since_reach in Hd. lia.
    + split; [reflexivity|]. exists n. split; [exact En|]. apply since_reach. exact Hd.
  - apply sq_peek_blocking_sel in Eb. destruct Eb as [Eb1 Eb2]. injection H as <- <- <-.
    split; [reflexivity|]. exists b. split; [exact Eb1|]. rewrite Eb2.
    apply since_reach in Hd. lia.
  - apply sq_peek_non_blocking_sel in En. rewrite pop_time_qbase in H. injection H as <- <- <-.
    split; [reflexivity|]. exists n. split; [exact En|]. apply since_reach. exact Hd.
  - injection H as <- _ _. lia.
Qed.

Lemma peek_queue_sel : forall sq c s cd sd earliest nowt d which ic,
  sq_wf sq -> peek_queue sq c s cd sd earliest nowt = (d, which, ic) -> d < DMAX ->
  exists p, heap_peek (evq_sel (sq_side sq ic) which) = Some p /\
            (pop_time which p (if ic then cd else sd) <= nowt + Z.of_N d)%Z.
Proof.
  intros sq c s cd sd earliest nowt d which ic W H Hd. unfold peek_queue in H.
  destruct (sq_len sq); [injection H as <- _ _; lia|].
  destruct (sq_peek sq cd sd nowt) as [[pk qq] dur] eqn:Ep.
  destruct pk as [p|]; [|injection H as <- _ _; lia].
  destruct (earliest <? dur); [injection H as <- _ _; lia|].
  assert (HD : (dur, qq, se_client p) = (d, which, ic) ->
               exists p, heap_peek (evq_sel (sq_side sq ic) which) = Some p /\
                         (pop_time which p (if ic then cd else sd) <= nowt + Z.of_N d)%Z).
  { intros Hi. injection Hi as -> -> <-. apply (sq_peek_sel _ _ _ _ _ _ _ W) in Ep.
    destruct Ep as [E1 E2]. exists p. split; [exact E1|]. subst d. apply since_reach. exact Hd. }
  destruct (negb (is_tunnel_sent (se_ev p))); [exact (HD H)|].
  match type of H with (if ?b then _ else _) = _ => destruct b end; [exact (HD H)|].
  match type of H with (if ?b then _ else _) = _ => destruct b end; [exact (HD H)|].
  match type of H with (if ?b then _ else _) = _ => destruct b end; [exact (HD H)|].
  destruct (peek_queue_earliest_side sq (s_buntil c) (s_bbypass c) nowt cd true) as [[c_d c_q] c_b] eqn:Ec.
  destruct (peek_queue_earliest_side sq (s_buntil s) (s_bbypass s) nowt sd false) as [[s_d s_q] s_b] eqn:Es.
  destruct (c_d <=? s_d); injection H as -> -> ->.
  - apply pqes_sel in Ec; [|exact Hd]. destruct Ec as (-> & p0 & E1 & E2). eauto.
  - apply pqes_sel in Es; [|exact Hd]. destruct Es as (-> & p0 & E1 & E2). eauto.
Qed.

(** the event [sq_pop] returns for the answer of [peek_queue] is the peeked one: it is due no later
    than the peeked distance *)
Lemma peek_pop_consistent : forall sq c s cd sd earliest nowt d which ic tmp sq',
  sq_wf sq -> peek_queue sq c s cd sd earliest nowt = (d, which, ic) -> d < DMAX ->
  sq_pop sq which ic (if ic then cd else sd) = Some (tmp, sq') ->
  (se_time tmp <= nowt + Z.of_N d)%Z.
Proof.
  intros sq c s cd sd earliest nowt d which ic tmp sq' W H Hd Hp.
  destruct (peek_queue_sel _ _ _ _ _ _ _ _ _ _ W H Hd) as (p & E1 & E2).
  unfold sq_pop in Hp.
  destruct (evq_pop (sq_side sq ic) which (if ic then cd else sd)) as [[x q']|] eqn:Ee; [|discriminate].
  injection Hp as <- <-. apply evq_pop_sel in Ee. destruct Ee as (p' & E3 & E4).
  rewrite E1 in E3. injection E3 as <-. rewrite E4. exact E2.
Qed.

(** [sq_wf] is an invariant: the empty queue has it, [sq_push] and [sq_pop] keep it *)
Lemma evq_wf_push : forall b q x, evq_wf b q -> se_client x = b -> evq_wf b (evq_push q x).
Proof.
  intros b q x W Hx which e Hin.
  assert (HP : forall h, In e (heap_push sev_le h x) -> e = x \/ In e h).
  { intros h Hi. apply (Permutation_in _ (heap_push_perm _ sev_le h x)) in Hi.
    destruct Hi as [<-|Hi]; auto. }
  unfold evq_push in Hin.
  destruct (se_ev x); try destruct (se_bypass x); destruct which; cbn [evq_sel q_base q_blocking q_bypass q_internal] in Hin;
    try (apply HP in Hin; destruct Hin as [->|Hin]; [exact Hx|]);
    first [ exact (W QBlocking e Hin) | exact (W QBypassable e Hin)
          | exact (W QInternal e Hin) | exact (W QBase e Hin) ].
Qed.

Lemma sq_wf_empty : forall pps, sq_wf (mksimq evq_empty evq_empty pps).
Proof. intros pps. split; intros [| | |] e []. Qed.

Lemma sq_wf_push : forall sq x, sq_wf sq -> sq_wf (sq_push sq x).
Proof.
  intros sq x [Wc Ws]. unfold sq_push, sq_set_side, sq_side.
  destruct (se_client x) eqn:Ex; split; cbn [sq_c sq_s]; auto; apply evq_wf_push; auto.
Qed.

Lemma evq_wf_pop : forall b q which delay x q', evq_wf b q -> evq_pop q which delay = Some (x, q') -> evq_wf b q'.
Proof.
  intros b q which delay x q' W H w e Hin. unfold evq_pop in H.
  destruct which;
    match type of H with match ?hp with _ => _ end = _ => destruct hp as [[p h]|] eqn:E end;
    try discriminate; injection H as <- <-; apply heap_pop_perm in E;
    destruct w; cbn [evq_sel q_base q_blocking q_bypass q_internal] in Hin;
    try (assert (Hin' : In e (p :: h)) by (right; exact Hin);
         apply (Permutation_in _ (Permutation_sym E)) in Hin');
    first [ exact (W QBlocking e Hin) | exact (W QBypassable e Hin)
          | exact (W QInternal e Hin) | exact (W QBase e Hin)
          | exact (W QBlocking e Hin') | exact (W QBypassable e Hin')
          | exact (W QInternal e Hin') | exact (W QBase e Hin') ].
Qed.

Lemma sq_wf_pop : forall sq which ic delay x sq', sq_wf sq -> sq_pop sq which ic delay = Some (x, sq') -> sq_wf sq'.
Proof.
  intros sq which ic delay x sq' [Wc Ws] H. unfold sq_pop in H.
  destruct (evq_pop (sq_side sq ic) which delay) as [[y q']|] eqn:E; [|discriminate].
  injection H as <- <-. destruct ic; cbn [sq_side sq_set_side] in *; split; cbn [sq_c sq_s]; auto;
    eapply evq_wf_pop; eauto.
Qed.

Lemma pick_next_wf : forall fuel st nowt r st',
  sq_wf (m_sq st) -> pick_next fuel st nowt = Ok (r, st') -> sq_wf (m_sq st').
Proof.
  induction fuel as [|fuel IH]; intros st nowt r st' W H; [discriminate H|].
  apply pick_next_cases in H.
  destruct H as (b & bic & q & which & qic & _ & _ & H). unfold pn_case in H.
  destruct H as [(_ & ->)|[H|[H|[H|[H|H]]]]].
  - exact W.
  - eapply IH; [|exact H]. exact W.
  - destruct H as (_ & _ & _ & _ & c' & s' & net' & -> & _). exact W.
  - destruct H as (_ & _ & _ & tmp & sq' & Hp & _ & ->). cbn [m_sq]. eapply sq_wf_pop; eauto.
  - destruct H as (_ & c' & s' & e & _ & H). eapply IH; [|exact H]. cbn [m_sq]. apply sq_wf_push. exact W.
  - destruct H as (_ & c' & s' & e & _ & H). eapply IH; [|exact H]. cbn [m_sq]. apply sq_wf_push. exact W.
Qed.

(** ** "fires when due, before simulated time moves past it" *)
(** an event returned by [pick_next] is never later than a timer that is still pending afterwards and
    was not already overdue *)
Theorem pick_next_not_past_wf : forall fuel st nowt e st',
  sq_wf (m_sq st) ->
  pick_next fuel st nowt = Ok (Some e, st') ->
  forall t, In t (pending st') -> (nowt <= t)%Z -> (se_time e <= t)%Z.
Proof.
  induction fuel as [|fuel IH]; intros st nowt e st' W H t Hin Hle; [discriminate H|].
  pose proof (pick_next_slots_sub _ _ _ _ _ H) as Hsub.
  pose proof (pending_ge_peeks st nowt t (slots_sub_pending _ _ _ Hsub Hin) Hle) as Hge.
  cbv zeta in Hge.
  apply pick_next_cases in H.
  destruct H as (b & bic & q & which & qic & Hb & Hq & H). cbv zeta in Hq. unfold pn_case in H.
  destruct H as [(Hr & _)|[H|[H|[H|[H|H]]]]].
  - discriminate Hr.
  - eapply IH; [|exact H|exact Hin|exact Hle]. exact W.
  - destruct H as (B1 & B2 & _ & Hr & _). injection Hr as ->. cbn [se_time]. lia.
  - destruct H as (Q1 & Q2 & Q3 & tmp & sq' & Hp & Hr & _).
    pose proof (peek_pop_consistent _ _ _ _ _ _ _ _ _ _ _ _ W Hq Q3 Hp) as Htmp.
    injection Hr as ->.
    destruct (se_time tmp <? nowt + Z.of_N q)%Z; cbn [set_time se_time]; lia.
  - destruct H as (L & c' & s' & e0 & _ & H).
    eapply IH; [|exact H|exact Hin|lia]. cbn [m_sq]. apply sq_wf_push. exact W.
  - destruct H as (L & c' & s' & e0 & _ & H).
    eapply IH; [|exact H|exact Hin|lia]. cbn [m_sq]. apply sq_wf_push. exact W.
Qed.

(** The statement requested for [pick_next_not_past] quantifies over ARBITRARY states and is false as
    written: [peek_queue] answers "pop from side [se_client p]" for the head [p] it peeked, so when an
    event sits in the queue of the wrong side (impossible for queues built with [sq_push]) the popped
    event is not the peeked one. Witness: a server-tagged event at time 0 in the CLIENT queue, a server
    event at time 100 in the server queue, a client timer pending at 50; [pick_next] at time 0 peeks
    distance 0 but pops (and returns) the event at 100, past the timer at 50 which stays pending. *)
Definition cex_fw : fstate := mkfstate 0 0 [] [] 0 0 0 0 false None 0 0 [].
Definition cex_st : sim :=
  mksim (mksimq (mkevq [] [] [] [mksev TETunnelRecv 0 false false false false])
                (mkevq [] [] [] [mksev TETunnelRecv 100 false false false false]) None)
        (mkside cex_fw [None] [Some 50%Z] None false) (mkside cex_fw [] [] None false)
        (mknetb 0 0 [] 0 [] [] 0 0) 0.

Lemma pick_next_not_past_counterexample :
  exists e st', pick_next 5 cex_st 0 = Ok (Some e, st') /\
    In 50%Z (due_times (s_sched (m_c st')) ++ due_times (s_sched (m_s st'))
             ++ timer_times (s_timers (m_c st')) ++ timer_times (s_timers (m_s st'))) /\
    (0 <= 50)%Z /\ (50 - 0 < Z.of_N DMAX)%Z /\ se_time e = 100%Z.
Proof.
  eexists _, _. split; [vm_compute; reflexivity|].
  split; [vm_compute; auto|]. split; [lia|]. split; [vm_compute; reflexivity|]. reflexivity.
Qed.

(** the requested statement, with the queue invariant as the only extra hypothesis (the bound
    [t - nowt < DMAX] of the request is not needed: see [pick_next_not_past_wf]) *)
Theorem pick_next_not_past_partial : forall fuel st nowt e st',
  sq_wf (m_sq st) ->
  pick_next fuel st nowt = Ok (Some e, st') ->
  (forall t, In t (due_times (s_sched (m_c st')) ++ due_times (s_sched (m_s st'))
                   ++ timer_times (s_timers (m_c st')) ++ timer_times (s_timers (m_s st'))) ->
             (nowt <= t)%Z -> (t - nowt < Z.of_N DMAX)%Z -> (se_time e <= t)%Z).
Proof.
  intros fuel st nowt e st' W H t Hin Hle _.
  eapply pick_next_not_past_wf; eauto.
Qed.

(** ** [sq_wf] holds for every queue the simulator builds *)
Lemma parse_lines_wf : forall tr delay q sw rw smax rmax q' pps,
  sq_wf q -> parse_lines tr delay q sw rw smax rmax = (q', pps) -> sq_wf q'.
Proof.
  induction tr as [|[t d] tr IH]; intros delay q sw rw smax rmax q' pps W H; cbn [parse_lines] in H.
  - injection H as <- _. exact W.
  - destruct d.
    + destruct (window_add_w PARSE_WINDOW sw t) as [sw' m]. eapply IH; [|exact H]. apply sq_wf_push. exact W.
    + destruct (window_add_w PARSE_WINDOW rw t) as [rw' m]. eapply IH; [|exact H]. apply sq_wf_push. exact W.
Qed.

Lemma parse_trace_wf : forall tr delay, sq_wf (parse_trace tr delay).
Proof.
  intros tr delay. unfold parse_trace.
  destruct (parse_lines tr delay (mksimq evq_empty evq_empty None) [] [] 0 0) as [q pps] eqn:E.
  apply parse_lines_wf in E; [|apply sq_wf_empty]. destruct E as [Wc Ws]. split; assumption.
Qed.

Lemma fold_push_wf : forall l sq, sq_wf sq -> sq_wf (fold_left sq_push l sq).
Proof. induction l as [|x l IH]; intros sq W; cbn [fold_left]; auto using sq_wf_push. Qed.

Lemma apply_actions_wf : forall acts sd sq nowt ic sd' sq',
  sq_wf sq -> apply_actions acts sd sq nowt ic = Ok (sd', sq') -> sq_wf sq'.
Proof.
  intros acts sd sq nowt ic sd' sq' W H. apply apply_actions_spec in H.
  destruct H as (_ & _ & _ & _ & -> & _). apply fold_push_wf. exact W.
Qed.

Lemma trigger_update_wf : forall cf tp sd pos next nowt sq ic sd' sq' pos',
  sq_wf sq -> trigger_update cf tp sd pos next nowt sq ic = Ok (sd', sq', pos') -> sq_wf sq'.
Proof.
  intros cf tp sd pos next nowt sq ic sd' sq' pos' W H. unfold trigger_update in H.
  mbind H as p E. destruct p as [fw' acts]. mbind H as p2 E2. destruct p2 as [sd1 sq1].
  injection H as _ <- _. eapply apply_actions_wf; eauto.
Qed.

Lemma sim_network_stack_wf : forall next sq bb net nowt sq' net' act,
  sq_wf sq -> sim_network_stack next sq bb net nowt = Ok (sq', net', act) -> sq_wf sq'.
Proof.
  intros next sq bb net nowt sq' net' act W H. unfold sim_network_stack in H.
  destruct (se_ev next) as [| | | |m| |m| |m|m].
  - injection H as <- _ _. exact W.
  - injection H as <- _ _. exact W.
  - (* TunnelRecv *)
    destruct (se_pad next); injection H as <- _ _; apply sq_wf_push; exact W.
  - (* NormalSent *)
    injection H as <- _ _. apply sq_wf_push; exact W.
  - (* PaddingSent *)
    destruct (se_replace next); [|injection H as <- _ _; apply sq_wf_push; exact W].
    destruct (sq_peek_blocking sq bb (se_client next)) as [[queued|] which];
      [|injection H as <- _ _; apply sq_wf_push; exact W].
    match type of H with (if ?b then _ else _) = _ => destruct b end;
      [|injection H as <- _ _; apply sq_wf_push; exact W].
    destruct (negb (se_bypass next)); [injection H as <- _ _; exact W|].
    destruct (sq_pop_blocking sq which bb (se_client next)
                (if se_client next then n_cagg net else n_sagg net)) as [[entry sq1]|] eqn:Ep;
      [|discriminate].
    injection H as <- _ _. apply sq_wf_push.
    unfold sq_pop_blocking in Ep. destruct bb; eapply sq_wf_pop; eauto.
  - (* TunnelSent *)
    destruct (net_sample net nowt (se_client next)) as [[net1 nd] bl].
    destruct (negb (se_pad next)); injection H as <- _ _; apply sq_wf_push; exact W.
  - injection H as <- _ _. exact W.
  - injection H as <- _ _. exact W.
  - injection H as <- _ _. exact W.
  - injection H as <- _ _. exact W.
Qed.
