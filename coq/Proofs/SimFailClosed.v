(** Property C16, "completely fail-closed defenses", at the level of whole runs:
    if no BlockOutgoing action that a side's framework has returned so far allows
    bypass, then while that side is blocking NOTHING leaves it, not even padding
    with the bypass flag ([fail_closed_nothing_leaves]).

    Why: a TunnelSent is released from a side with [s_buntil <> None] only if
    [s_bbypass = true] ([SimBlocking.pick_next_no_leak]). The flag [s_bbypass] of a
    side starts [false] and changes only when a scheduled [TBlockOutgoing] fires,
    where the new value is the action's flag, or the old value AND-ed with it, or the
    old value ([act_on_bb]). So [s_bbypass = true] implies that some fired block
    action allowed bypass; a fired action sits in a slot, and every slot entry was
    returned in some history record of that side ([SimActionTrace.tinv]).

    Structure
    - 1. [block_bypass]; what firing does to [s_bbypass] ([act_on_bb],
         [do_scheduled_action_bb]); [pick_next] sets the flag of a side only from a
         slot entry of that side that allows bypass ([pick_next_bb]).
    - 2. the history side: [hbyp H k X] (a record [< k] of side [X] returned a block
         action allowing bypass), the state invariant [bbinv] (flag set => [hbyp]).
    - 3. the loop: [SimBlockTrace.iter_linv] re-run with its ghosts exposed
         ([iter_linv_x]), the extended invariant [linvF], [iter_linvF], [loop_finF].
    - 4. the theorems: positive form ([blocked_side_tunnel_sent_needs_bypass_block]:
         a TunnelSent of a blocking side is preceded by a record of that side with a
         bypass-allowing block action) and the requested form.

    The requested statement holds as written (no counterexample, no extra premise). *)
From Coq Require Import List Arith Lia Permutation ZArith Bool Sorted.
From MB Require Import Base.Prelude Model.Framework Model.Sim Proofs.Tactics Proofs.SimHeap.
From MB Require Import Proofs.SimBasics Proofs.SimReach Proofs.SimHistory Proofs.SimActionTrace.
From MB Require Import Proofs.SimBlockTrace.
From MB Require Proofs.SimTimers Proofs.SimBlocking Proofs.SimIdentity Proofs.FrameworkSlots.
Import ListNotations.
Open Scope N_scope.

(** * 1. The bypass flag of a side *)

(** does a BlockOutgoing action allow bypass *)
Definition block_bypass (a : taction) : bool :=
  match a with TBlockOutgoing _ _ _ by_ _ => by_ | _ => false end.

(** the bypass flag of side [X] *)
Definition bb (st : sim) (X : bool) : bool := s_bbypass (if X then m_c st else m_s st).

(** executing a due action sets the flag only if the action allows bypass *)
Lemma act_on_bb : forall sd ic a t sd' e,
  act_on sd ic a t = Ok (sd', e) -> s_bbypass sd' = true ->
  s_bbypass sd = true \/ block_bypass a = true.
Proof.
  intros sd ic a t sd' e H Hb.
  destruct a as [m tm|m tmo by_ rp|m tmo dur by_ rp|m dur rp]; unfold act_on in H; try discriminate.
  - injection H as <- _. left. exact Hb.
  - injection H as <- _. cbn [block_bypass]. destruct by_; [right; reflexivity|]. left.
    revert Hb. destruct (rp || _)%bool; [|auto].
    unfold side_set_block. cbn [s_bbypass].
    destruct rp; [discriminate|]. destruct (s_buntil sd); [|discriminate].
    rewrite Bool.andb_false_r. discriminate.
Qed.

Lemma do_scheduled_action_bb : forall c s target c' s' e,
  do_scheduled_action c s target = Ok (c', s', e) ->
  exists (ic : bool) (mi : nat) (a : taction),
    let sd := if ic then c else s in
    let sd' := if ic then c' else s' in
    nth_error (s_sched sd) mi = Some (Some (a, target)) /\
    s_sched sd' = upd (s_sched sd) mi None /\
    (if ic then s' = s else c' = c) /\
    (s_bbypass sd' = true -> s_bbypass sd = true \/ block_bypass a = true).
Proof.
  intros c s target c' s' e H. unfold do_scheduled_action in H.
  destruct (take_action (s_sched c) target) as [[[a t] l]|] eqn:Ec.
  - mbind H as p E. destruct p as [c1 e1]. injection H as <- <- <-.
    apply SimTimers.take_action_spec in Ec. destruct Ec as (mi & -> & Hn & -> & _).
    pose proof (act_on_bb _ _ _ _ _ _ E) as B.
    apply SimTimers.act_on_spec in E. destruct E as (A1 & _).
    cbn [side_set_sched s_sched s_bbypass] in A1, B.
    exists true, mi, a. cbv zeta. auto.
  - destruct (take_action (s_sched s) target) as [[[a t] l]|] eqn:Es; [|discriminate].
    mbind H as p E. destruct p as [s1 e1]. injection H as <- <- <-.
    apply SimTimers.take_action_spec in Es. destruct Es as (mi & -> & Hn & -> & _).
    pose proof (act_on_bb _ _ _ _ _ _ E) as B.
    apply SimTimers.act_on_spec in E. destruct E as (A1 & _).
    cbn [side_set_sched s_sched s_bbypass] in A1, B.
    exists false, mi, a. cbv zeta. auto.
Qed.

(** a slot of side [X] holds an action allowing bypass *)
Definition slot_byp (st : sim) (X : bool) : Prop :=
  exists mi a due, nth_error (slotsX st X) mi = Some (Some (a, due)) /\ block_bypass a = true.

(** [pick_next] sets the bypass flag of a side only from one of its slots *)
Theorem pick_next_bb : forall fuel st t r st',
  pick_next fuel st t = Ok (r, st') ->
  forall X, bb st' X = true -> bb st X = true \/ slot_byp st X.
Proof.
  induction fuel as [|fuel IH]; intros st t r st' H X Hb; [discriminate H|].
  apply pn_unfoldB in H. destruct H as (b & bic & q & w & qic & _ & _ & H). cbv zeta in H.
  destruct H as [(_ & ->)|[H|(_ & _ & [(_ & _ & net' & ->)|(_ & H)])]].
  - left. exact Hb.
  - exact (IH _ _ _ _ H X Hb).
  - left. revert Hb. unfold bb. destruct bic, X; cbn [m_c m_s side_set_block s_bbypass]; auto.
  - destruct H as [(_ & tmp & sq' & _ & _ & ->)|(_ & [(_ & c' & s' & e & Hd & H)|(_ & c' & s' & e & Hd & H)])].
    + left. exact Hb.
    + (* an internal timer *)
      pose proof (SimTimers.do_internal_timer_spec _ _ _ _ _ _ Hd) as (ic & mi & Sp). cbv zeta in Sp.
      assert (Hs : s_sched c' = s_sched (m_c st) /\ s_sched s' = s_sched (m_s st) /\
                   s_bbypass c' = s_bbypass (m_c st) /\ s_bbypass s' = s_bbypass (m_s st)).
      { destruct ic; destruct Sp as (_ & _ & S3 & S4 & _ & _ & S7 & _); subst; auto. }
      destruct Hs as (Sc & Ss & Bc & Bs).
      destruct (IH _ _ _ _ H X Hb) as [Hb1|(mi' & a & due & Hn & Ha)].
      * left. revert Hb1. unfold bb. destruct X; cbn [m_c m_s]; congruence.
      * right. exists mi', a, due. split; [|exact Ha].
        revert Hn. unfold slotsX. destruct X; cbn [m_c m_s]; congruence.
    + (* a scheduled action fires *)
      pose proof (do_scheduled_action_bb _ _ _ _ _ _ Hd) as (ic & mi & a & Sp). cbv zeta in Sp.
      destruct Sp as (S1 & S2 & S3 & S4).
      destruct (IH _ _ _ _ H X Hb) as [Hb1|(mi' & a' & due & Hn & Ha)].
      * unfold bb in Hb1. cbn [m_c m_s] in Hb1.
        destruct ic, X; try (left; unfold bb; congruence).
        -- destruct (S4 Hb1) as [B|B]; [left; exact B|].
           right. exists mi, a, (t + Z.of_N (peek_sched (s_sched (m_c st)) (s_sched (m_s st)) t))%Z.
           split; [exact S1|exact B].
        -- destruct (S4 Hb1) as [B|B]; [left; exact B|].
           right. exists mi, a, (t + Z.of_N (peek_sched (s_sched (m_c st)) (s_sched (m_s st)) t))%Z.
           split; [exact S1|exact B].
      * right. exists mi', a', due. split; [|exact Ha].
        revert Hn. unfold slotsX. cbn [m_c m_s].
        destruct ic, X; try (rewrite S2; apply SimTimers.st_nth_upd_none); congruence.
Qed.

(** * 2. The history side *)

(** a record before [k] of side [X] returned a BlockOutgoing action that allows bypass *)
Definition hbyp (H : list hrec) (k : nat) (X : bool) : Prop :=
  exists j rj a, (j < k)%nat /\ nth_error H j = Some rj /\ se_client (h_ev rj) = X /\
    In a (h_acts rj) /\ block_bypass a = true.

Lemma hbyp_mono : forall H k k' X, hbyp H k X -> (k <= k')%nat -> hbyp H k' X.
Proof. intros H k k' X (j & rj & a & L & R) Hk. exists j, rj, a. split; [lia|exact R]. Qed.

Lemma hbyp_snoc : forall H r k X, hbyp H k X -> hbyp (H ++ [r]) k X.
Proof.
  intros H r k X (j & rj & a & L & Hj & R). exists j, rj, a. split; [exact L|].
  split; [apply nth_snoc_lt; exact Hj|exact R].
Qed.

(** the bypass flag of a side is set only if its framework returned a block allowing bypass *)
Definition bbinv (H : list hrec) (st : sim) : Prop := forall X, bb st X = true -> hbyp H (length H) X.

Lemma bbinv_pick : forall H st t f G ex fuel r st1,
  tinv H st t f G ex -> bbinv H st -> pick_next fuel st t = Ok (r, st1) -> bbinv H st1.
Proof.
  intros H st t f G ex fuel r st1 I B Ep X Hb.
  destruct (pick_next_bb _ _ _ _ _ Ep X Hb) as [Hb0|(mi & a & due & Hn & Ha)]; [exact (B X Hb0)|].
  destruct (ti_slot _ _ _ _ _ _ I X mi a due Hn) as (j & rj & J1 & J2 & J3 & _).
  exists j, rj, a. split; [apply nth_error_Some; congruence|]. split; [exact J1|]. split; [exact J2|].
  split; [exact J3|exact Ha].
Qed.

(** the property of the theorem, for a history and a cause assignment: a TunnelSent of a side
    between a BlockingBegin (caused by a positive-duration block) and the next BlockingEnd of that
    side is preceded by a record of that side with a block action allowing bypass *)
Definition fc (H : list hrec) (f : nat -> nat) : Prop :=
  forall b k rb rk m, (b < k)%nat -> nth_error H b = Some rb -> nth_error H k = Some rk ->
    se_ev (h_ev rb) = TEBlockingBegin m -> SimBlockTrace.pos H (f b) (h_ev rb) ->
    se_ev (h_ev rk) = TETunnelSent -> se_client (h_ev rk) = se_client (h_ev rb) ->
    (forall i ri, (b < i < k)%nat -> nth_error H i = Some ri -> ~ is_bend (se_client (h_ev rb)) (h_ev ri)) ->
    hbyp H k (se_client (h_ev rb)).

(** * 3. The loop *)

(** [SimBlockTrace.iter_linv] with its ghosts exposed: old records keep their (positive-duration)
    cause, and a side with an open BlockingBegin is blocking when [next] is picked *)
Lemma iter_linv_x : forall cc sc tp st t next st1 sq2 net2 act X sd' sq3 pos3 H f G,
  linv H st t f G ->
  pick_next (pn_fuel st) st t = Ok (Some next, st1) ->
  sim_network_stack next (m_sq st1) (if se_client next then s_bbypass (m_c st1) else s_bbypass (m_s st1))
                    (m_net st1) (se_time next) = Ok (sq2, net2, act) ->
  se_client next = X ->
  trigger_update (if X then cc else sc) tp (if X then m_c st1 else m_s st1) (m_pos st1) next (se_time next) sq2 X
    = Ok (sd', sq3, pos3) ->
  let st3 := mksim sq3 (if X then sd' else m_c st1) (if X then m_s st1 else sd') net2 pos3 in
  let r := mkhrec next (acts_for cc sc tp st1 next) in
  exists f' G', linv (H ++ [r]) st3 (se_time next) f' G' /\
    (forall b rb, (b < length H)%nat -> nth_error H b = Some rb -> is_complb (h_ev rb) = true ->
       SimBlockTrace.pos (H ++ [r]) (f' b) (h_ev rb) -> SimBlockTrace.pos H (f b) (h_ev rb)) /\
    (forall Y b, open_at H f Y b -> is_bend Y next \/ bu st1 Y <> None) /\
    tinv H st t f G noex.
Proof.
  intros cc sc tp st t next st1 sq2 net2 act X sd' sq3 pos3 H f G [Hinv Hh Hq I HU B BY] Ep En HX Et st3 r.
  destruct (pick_next_runB _ _ _ _ _ Hinv Hh Hq Ep) as [R Hh1].
  destruct (pn_runB_qge _ _ _ _ R next eq_refl) as [Hq1 Ht1].
  destruct (binv_run _ _ _ _ R H f G HU I B) as (G1 & I1 & Q1 & Q2).
  pose proof (SimBlocking.pick_next_inv _ _ _ _ _ Hinv Ep) as Hinv1.
  pose proof (SimBlocking.network_stack_inv _ _ _ _ _ _ _ _ Hinv1 En) as Hinv2.
  destruct (network_stack_cq _ _ _ _ _ _ _ _ (proj1 Hinv1) En) as [P2 Hh2].
  pose proof (SimBlocking.trigger_update_inv _ _ _ _ _ _ _ _ _ _ _ Hinv2 Et) as Hinv3.
  destruct (trigger_update_spec _ _ _ _ _ _ _ _ _ _ _ Et) as (fw' & acts & Ete & Ea).
  destruct (apply_actions_cq _ _ _ _ _ _ _ Ea) as [P3 Hh3].
  destruct (SimTimers.apply_actions_spec _ _ _ _ _ _ _ Ea) as (L1 & _ & S1 & _ & _ & _ & Sbu & _).
  cbn [side_set_fw s_sched s_buntil] in L1, S1, Sbu.
  assert (Hacts : acts_for cc sc tp st1 next = acts).
  { unfold acts_for. rewrite HX. rewrite Ete. reflexivity. }
  assert (Hcq : same_cq st1 st3).
  { intros Y. unfold cqs, st3. cbn [m_sq]. eapply perm_trans; [apply P3|apply P2]. }
  assert (Hbu3 : forall Y, bu st3 Y = bu st1 Y).
  { intros Y. unfold bu, st3. destruct X, Y; cbn [m_c m_s]; auto. }
  destruct (tinv_take _ _ _ _ _ _ I1) as (f' & G' & A1 & A2 & A3 & A4 & A5).
  assert (I3 : tinv (H ++ [r]) st3 (se_time next) f' G' noex).
  { unfold r. rewrite Hacts.
    apply (tinv_append_x H st1 (se_time next) f G1 next acts st3 f' G' I1 eq_refl A1 A2 A3 A4 A5); rewrite ?HX.
    - unfold slotsX, st3. destruct X; reflexivity.
    - unfold slotsX, st3. destruct X; cbn [m_c m_s]; exact L1.
    - unfold slotsX, st3. destruct X; cbn [m_c m_s]; exact S1.
    - exact Hcq. }
  (* old records keep their cause and its duration *)
  assert (Hposf : forall b rb, (b < length H)%nat -> nth_error H b = Some rb -> is_complb (h_ev rb) = true ->
            SimBlockTrace.pos (H ++ [r]) (f' b) (h_ev rb) -> SimBlockTrace.pos H (f b) (h_ev rb)).
  { intros b rb L Hb Hc Hp. rewrite (A1 b L) in Hp.
    pose proof (cause_lt _ _ _ _ (ti_fcause _ _ _ _ _ _ I1 b rb Hb Hc)) as Lf.
    apply (pos_snoc H r); [lia|exact Hp]. }
  exists f', G'. split; [|split; [exact Hposf|split; [exact Q2|exact I]]]. constructor.
  - exact Hinv3.
  - apply Hh3. apply Hh2. exact Hh1.
  - intros Y x Hx. apply (Permutation_in _ (Hcq Y)) in Hx. apply (Hq1 Y x Hx).
  - exact I3.
  - apply huniq_snoc. exact HU.
  - constructor.
    + intros Y x j Hin Hp. rewrite Hbu3. apply A2 in Hin.
      destruct (ti_qcause _ _ _ _ _ _ I1 Y x j Hin) as (_ & C & _).
      apply (Q1 Y x j Hin). apply (pos_snoc H r); [exact (cause_lt _ _ _ _ C)|exact Hp].
    + intros Y b (rb & m & Hb & Hev & Hside & Hp & Hnb). rewrite Hbu3.
      destruct (begin_compl _ _ Hev) as [Hc _].
      apply nth_snoc_inv in Hb. destruct Hb as [[L Hb]|[-> ->]].
      * destruct (Q2 Y b) as [Hbe|Hne]; [|exfalso|exact Hne].
        -- exists rb, m. split; [exact Hb|]. split; [exact Hev|]. split; [exact Hside|].
           split; [apply (Hposf b rb L Hb Hc Hp)|].
           intros i ri Hi Hni. apply (Hnb i ri Hi). apply nth_snoc_lt. exact Hni.
        -- apply (Hnb (length H) r L); [apply nth_snoc_last|exact Hbe].
      * cbn [r h_ev] in Hev, Hside, Hp, Hc.
        destruct (A5 Hc) as [Hin _]. rewrite Hside in Hin.
        destruct (ti_qcause _ _ _ _ _ _ I1 Y next _ Hin) as (_ & C & _).
        destruct (Q1 Y next _ Hin) as (u & Hu & _).
        { apply (pos_snoc H r); [exact (cause_lt _ _ _ _ C)|exact Hp]. }
        rewrite Hu. discriminate.
  - intros b k rb rk m Hbk Hb Hk Hev Hp Hts Hside Hnb.
    destruct (begin_compl _ _ Hev) as [Hc _].
    assert (Lk : (k <= length H)%nat).
    { assert (L : (k < length (H ++ [r]))%nat) by (apply nth_error_Some; congruence).
      rewrite app_length in L. cbn [length] in L. lia. }
    assert (Hb' : nth_error H b = Some rb).
    { apply nth_snoc_inv in Hb. destruct Hb as [[_ Hb]|[-> _]]; [exact Hb|lia]. }
    assert (Lb : (b < length H)%nat) by (apply nth_error_Some; congruence).
    pose proof (Hposf b rb Lb Hb' Hc Hp) as Hp'.
    apply nth_snoc_inv in Hk. destruct Hk as [[L Hk]|[-> ->]].
    + apply (BY b k rb rk m Hbk Hb' Hk Hev Hp' Hts Hside).
      intros i ri Hi Hni. apply (Hnb i ri Hi). apply nth_snoc_lt. exact Hni.
    + cbn [r h_ev] in Hts, Hside |- *.
      destruct (Q2 (se_client (h_ev rb)) b) as [[Hbe _]|Hne].
      * exists rb, m. split; [exact Hb'|]. split; [exact Hev|]. split; [reflexivity|]. split; [exact Hp'|].
        intros i ri Hi Hni.
        assert (Li : (i < length H)%nat) by (apply nth_error_Some; congruence).
        apply (Hnb i ri); [lia|apply nth_snoc_lt; exact Hni].
      * congruence.
      * pose proof (SimBlocking.pick_next_no_leak _ _ _ _ _ (proj1 Hinv) Ep Hts) as NL. cbv zeta in NL.
        unfold bu in Hne. rewrite <- Hside in Hne.
        destruct NL as [NL|[_ NL]]; [contradiction|exact NL].
Qed.

(** the extended loop invariant *)
Record linvF (H : list hrec) (st : sim) (t : Z) (f : nat -> nat) (G : bool -> list (sev * nat)) : Prop := mk_linvF {
  lf_l : linv H st t f G;
  lf_bb : bbinv H st;
  lf_fc : fc H f
}.

(** one iteration of the main loop *)
Lemma iter_linvF : forall cc sc tp st t next st1 sq2 net2 act X sd' sq3 pos3 H f G,
  linvF H st t f G ->
  pick_next (pn_fuel st) st t = Ok (Some next, st1) ->
  sim_network_stack next (m_sq st1) (if se_client next then s_bbypass (m_c st1) else s_bbypass (m_s st1))
                    (m_net st1) (se_time next) = Ok (sq2, net2, act) ->
  se_client next = X ->
  trigger_update (if X then cc else sc) tp (if X then m_c st1 else m_s st1) (m_pos st1) next (se_time next) sq2 X
    = Ok (sd', sq3, pos3) ->
  let st3 := mksim sq3 (if X then sd' else m_c st1) (if X then m_s st1 else sd') net2 pos3 in
  exists f' G', linvF (H ++ [mkhrec next (acts_for cc sc tp st1 next)]) st3 (se_time next) f' G'.
Proof.
  intros cc sc tp st t next st1 sq2 net2 act X sd' sq3 pos3 H f G [L BB FC] Ep En HX Et st3.
  destruct (iter_linv_x cc sc tp st t next st1 sq2 net2 act X sd' sq3 pos3 H f G L Ep En HX Et)
    as (f' & G' & L3 & Hposf & Q2 & I).
  fold st3 in L3. set (r := mkhrec next (acts_for cc sc tp st1 next)) in *.
  pose proof (bbinv_pick _ _ _ _ _ _ _ _ _ I BB Ep) as BB1.
  destruct (trigger_update_spec _ _ _ _ _ _ _ _ _ _ _ Et) as (fw' & acts & _ & Ea).
  destruct (SimTimers.apply_actions_spec _ _ _ _ _ _ _ Ea) as (_ & _ & _ & _ & _ & _ & _ & Sbb).
  cbn [side_set_fw s_bbypass] in Sbb.
  assert (Hbb3 : forall Y, bb st3 Y = bb st1 Y).
  { intros Y. unfold bb, st3. destruct X, Y; cbn [m_c m_s]; auto. }
  assert (Hlen : length (H ++ [r]) = S (length H)).
  { rewrite app_length. cbn [length]. lia. }
  exists f', G'. constructor.
  - exact L3.
  - intros Y Hb. rewrite Hbb3 in Hb. rewrite Hlen.
    apply hbyp_snoc. apply (hbyp_mono H (length H)); [exact (BB1 Y Hb)|lia].
  - intros b k rb rk m Hbk Hb Hk Hev Hp Hts Hside Hnb.
    destruct (begin_compl _ _ Hev) as [Hc _].
    assert (Lk : (k <= length H)%nat).
    { assert (Lk' : (k < length (H ++ [r]))%nat) by (apply nth_error_Some; congruence). lia. }
    assert (Hb' : nth_error H b = Some rb).
    { apply nth_snoc_inv in Hb. destruct Hb as [[_ Hb]|[-> _]]; [exact Hb|lia]. }
    assert (Lb : (b < length H)%nat) by (apply nth_error_Some; congruence).
    pose proof (Hposf b rb Lb Hb' Hc Hp) as Hp'.
    apply hbyp_snoc.
    apply nth_snoc_inv in Hk. destruct Hk as [[Lk' Hk]|[-> ->]].
    + apply (FC b k rb rk m Hbk Hb' Hk Hev Hp' Hts Hside).
      intros i ri Hi Hni. apply (Hnb i ri Hi). apply nth_snoc_lt. exact Hni.
    + (* the TunnelSent being recorded: the side is blocking, so its bypass flag is set *)
      cbn [r h_ev] in Hts, Hside.
      apply BB1.
      destruct (Q2 (se_client (h_ev rb)) b) as [[Hbe _]|Hne].
      * exists rb, m. split; [exact Hb'|]. split; [exact Hev|]. split; [reflexivity|]. split; [exact Hp'|].
        intros i ri Hi Hni.
        assert (Li : (i < length H)%nat) by (apply nth_error_Some; congruence).
        apply (Hnb i ri); [lia|apply nth_snoc_lt; exact Hni].
      * congruence.
      * pose proof (SimBlocking.pick_next_no_leak _ _ _ _ _ (proj1 (li_sq _ _ _ _ _ L)) Ep Hts) as NL.
        cbv zeta in NL. unfold bu in Hne. rewrite <- Hside in Hne. unfold bb. rewrite <- Hside.
        destruct NL as [NL|[NL _]]; [contradiction|exact NL].
Qed.

(** what the invariant says about a finished history *)
Definition finF (H : list hrec) (f : nat -> nat) : Prop := finB H f /\ fc H f.

Lemma linvF_fin : forall H st t f G, linvF H st t f G -> finF H f.
Proof.
  intros H st t f G L. split; [eapply linv_fin; exact (lf_l _ _ _ _ _ L)|exact (lf_fc _ _ _ _ _ L)].
Qed.

Theorem loop_finF : forall fuel cc sc tp args st t hist iters Hout,
  sim_loop_h fuel cc sc tp args st t hist iters = Ok Hout ->
  forall f G, linvF (rev hist) st t f G -> exists f', finF Hout f'.
Proof.
  induction fuel as [|fuel IH]; intros cc sc tp args st t hist iters Hout H f G L; [discriminate|].
  cbn [sim_loop_h] in H.
  destruct (pick_next (pn_fuel st) st t) as [[nx st1]|k|] eqn:Ep; cbn [bind] in H; try discriminate.
  destruct nx as [next|]; [|injection H as <-; exists f; eapply linvF_fin; exact L].
  destruct (se_time next <? t)%Z; [discriminate|].
  destruct (sim_network_stack next (m_sq st1) _ (m_net st1) (se_time next)) as [[[sq2 net2] act]|k|] eqn:En;
    cbn [bind] in H; try discriminate.
  assert (Hu : exists c3 s3 sq3 pos3,
             (let st3 := mksim sq3 c3 s3 net2 pos3 in
              exists f' G', linvF (rev hist ++ [mkhrec next (acts_for cc sc tp st1 next)]) st3 (se_time next) f' G') /\
             (let st3 := mksim sq3 c3 s3 net2 pos3 in
              let hist' := mkhrec next (acts_for cc sc tp st1 next) :: hist in
              (if (0 <? a_max_trace args) && (a_max_trace args <=? N.of_nat (length hist')) then Ok (rev hist')
               else
                 let iters' := iters + 1 in
                 if (0 <? a_max_iter args) && (a_max_iter args <=? iters') then Ok (rev hist')
                 else if negb (a_continue args) && sq_no_normal sq3 then Ok (rev hist')
                 else sim_loop_h fuel cc sc tp args st3 (se_time next) hist' iters') = Ok Hout)).
  { destruct (se_client next) eqn:Ec.
    - destruct (trigger_update cc tp (m_c st1) (m_pos st1) next (se_time next) sq2 true) as [[[c' sq'] p']|k|] eqn:Et;
        cbn [bind] in H; try discriminate.
      exists c', (m_s st1), sq', p'. split; [|exact H].
      apply (iter_linvF cc sc tp st t next st1 sq2 net2 act true c' sq' p' (rev hist) f G L Ep); auto.
      rewrite Ec. exact En.
    - destruct (trigger_update sc tp (m_s st1) (m_pos st1) next (se_time next) sq2 false) as [[[s' sq'] p']|k|] eqn:Et;
        cbn [bind] in H; try discriminate.
      exists (m_c st1), s', sq', p'. split; [|exact H].
      apply (iter_linvF cc sc tp st t next st1 sq2 net2 act false s' sq' p' (rev hist) f G L Ep); auto.
      rewrite Ec. exact En. }
  clear H. destruct Hu as (c3 & s3 & sq3 & pos3 & (f' & G' & L3) & H). cbv zeta in H.
  assert (Hfin : exists f'', finF (rev (mkhrec next (acts_for cc sc tp st1 next) :: hist)) f'').
  { exists f'. cbn [rev]. eapply linvF_fin. exact L3. }
  destruct (_ && _) in H; [injection H as <-; exact Hfin|].
  destruct (_ && _) in H; [injection H as <-; exact Hfin|].
  destruct (_ && _) in H; [injection H as <-; exact Hfin|].
  eapply (IH _ _ _ _ _ _ _ _ _ H f' G'). exact L3.
Qed.

(** the initial state: both bypass flags are clear *)
Lemma init_linvF : forall cc sc tp sq delay pps st0 t0,
  sim_init cc sc tp sq delay pps st0 t0 -> SimBlocking.sq_inv sq -> sq_start sq ->
  linvF [] st0 t0 (fun _ => 0%nat) (fun _ => []).
Proof.
  intros cc sc tp sq delay pps st0 t0 Hi Hinv Hs. constructor.
  - exact (init_linv _ _ _ _ _ _ _ _ Hi Hinv Hs).
  - destruct Hi as (cfw & sfw & net & _ & _ & _ & _ & ->).
    intros X Hb. unfold bb, new_side in Hb. destruct X; cbn [m_c m_s s_bbypass] in Hb; discriminate.
  - intros b k rb rk m _ Hb. destruct b; discriminate.
Qed.

(** * 4. The theorems *)

Section Run.
  Variables (fuel : nat) (cc sc : cfg) (tp : tape) (args : simargs) (st0 : sim) (t0 : Z) (H : list hrec).
  Variables (sq : simq) (delay : N) (pps : option N).
  Hypothesis Hinit : sim_init cc sc tp sq delay pps st0 t0.
  Hypothesis Hinv : SimBlocking.sq_inv sq.          (* every parsed trace: SimBlocking.parse_trace_inv *)
  Hypothesis Hstart : sq_start sq.                   (* every parsed trace: parse_trace_start *)
  Hypothesis Hrun : sim_loop_h fuel cc sc tp args st0 t0 [] 0 = Ok H.

  Lemma run_finF : exists f, finF H f.
  Proof.
    eapply (loop_finF _ _ _ _ _ _ _ _ _ _ Hrun). cbn [rev].
    exact (init_linvF _ _ _ _ _ _ _ _ Hinit Hinv Hstart).
  Qed.

  (** positive form, for the instrumented loop from any initial queue satisfying [sq_inv] and
      [sq_start], with ONE cause assignment [f] serving both C16 theorems: a blocked side sends only
      packets carrying the bypass flag, and only after its framework returned a block allowing bypass *)
  Theorem blocked_side_tunnel_sent_needs_bypass_block_run : exists f : nat -> nat,
    (forall k rk m, nth_error H k = Some rk ->
       (se_ev (h_ev rk) = TEPaddingSent m \/ se_ev (h_ev rk) = TEBlockingBegin m) ->
       caused_by H k rk m (f k)) /\
    (forall k1 k2 rk1 rk2 m, k1 <> k2 -> nth_error H k1 = Some rk1 -> nth_error H k2 = Some rk2 ->
       (se_ev (h_ev rk1) = TEPaddingSent m \/ se_ev (h_ev rk1) = TEBlockingBegin m) ->
       (se_ev (h_ev rk2) = TEPaddingSent m \/ se_ev (h_ev rk2) = TEBlockingBegin m) ->
       f k1 <> f k2) /\
    forall b k rb rk m rj a,
      (b < k)%nat -> nth_error H b = Some rb -> nth_error H k = Some rk ->
      se_ev (h_ev rb) = TEBlockingBegin m ->
      nth_error H (f b) = Some rj -> In a (h_acts rj) -> taction_machine a = m ->
      completes a (h_ev rb) -> 0 < block_dur a ->
      se_ev (h_ev rk) = TETunnelSent -> se_client (h_ev rk) = se_client (h_ev rb) ->
      (forall i ri, (b < i < k)%nat -> nth_error H i = Some ri ->
                    ~ (se_ev (h_ev ri) = TEBlockingEnd /\ se_client (h_ev ri) = se_client (h_ev rb))) ->
      se_bypass (h_ev rk) = true /\
      exists j rj' a', (j < k)%nat /\ nth_error H j = Some rj' /\ se_client (h_ev rj') = se_client (h_ev rb) /\
        In a' (h_acts rj') /\ block_bypass a' = true.
  Proof.
    destruct run_finF as (f & ((F1 & F2) & BY) & FC). exists f. split; [|split].
    - intros k rk m Hk Hev. destruct (compl_of_ev _ _ Hev) as [Hc Hm].
      exact (cause_caused_by _ _ _ _ _ (F1 k rk Hk Hc) Hm).
    - intros k1 k2 rk1 rk2 m Hne Hk1 Hk2 Hev1 Hev2 E.
      destruct (compl_of_ev _ _ Hev1) as [Hc1 Hm1]. destruct (compl_of_ev _ _ Hev2) as [Hc2 Hm2].
      destruct (F1 k1 rk1 Hk1 Hc1) as (rj1 & a1 & _ & N1 & S1 & _).
      destruct (F1 k2 rk2 Hk2 Hc2) as (rj2 & a2 & _ & N2 & S2 & _).
      rewrite E in N1. rewrite N1 in N2. injection N2 as <-.
      apply (F2 k1 k2 rk1 rk2 Hne Hk1 Hk2 Hc1 Hc2); [unfold sdr; congruence|congruence|exact E].
    - intros b k rb rk m rj a Hbk Hb Hk Hev Hj Ha Hm _ Hd Hts Hside Hnb.
      assert (Hp : SimBlockTrace.pos H (f b) (h_ev rb)).
      { exists rj, a. split; [exact Hj|]. split; [exact Ha|]. split; [|exact Hd].
        destruct (begin_compl _ _ Hev) as [_ Hcm]. congruence. }
      split.
      + exact (BY b k rb rk m Hbk Hb Hk Hev Hp Hts Hside Hnb).
      + exact (FC b k rb rk m Hbk Hb Hk Hev Hp Hts Hside Hnb).
  Qed.

  (** the requested form, for the instrumented loop *)
  Theorem fail_closed_nothing_leaves_run : exists f : nat -> nat,
    (forall k rk m, nth_error H k = Some rk ->
       (se_ev (h_ev rk) = TEPaddingSent m \/ se_ev (h_ev rk) = TEBlockingBegin m) ->
       caused_by H k rk m (f k)) /\
    forall b k rb rk m rj a,
      (b < k)%nat -> nth_error H b = Some rb -> nth_error H k = Some rk ->
      se_ev (h_ev rb) = TEBlockingBegin m ->
      nth_error H (f b) = Some rj -> In a (h_acts rj) -> taction_machine a = m ->
      completes a (h_ev rb) -> 0 < block_dur a ->
      se_client (h_ev rk) = se_client (h_ev rb) ->
      (forall i ri, (b < i < k)%nat -> nth_error H i = Some ri ->
                    ~ (se_ev (h_ev ri) = TEBlockingEnd /\ se_client (h_ev ri) = se_client (h_ev rb))) ->
      (forall j rj' a', (j < k)%nat -> nth_error H j = Some rj' -> se_client (h_ev rj') = se_client (h_ev rb) ->
                        In a' (h_acts rj') -> block_bypass a' = false) ->
      se_ev (h_ev rk) <> TETunnelSent.
  Proof.
    destruct blocked_side_tunnel_sent_needs_bypass_block_run as (f & F1 & _ & F3). exists f. split; [exact F1|].
    intros b k rb rk m rj a Hbk Hb Hk Hev Hj Ha Hm Hc Hd Hside Hnb Hno Hts.
    destruct (F3 b k rb rk m rj a Hbk Hb Hk Hev Hj Ha Hm Hc Hd Hts Hside Hnb)
      as (_ & j & rj' & a' & Lj & Hj' & Hs' & Ha' & Hby).
    rewrite (Hno j rj' a' Lj Hj' Hs' Ha') in Hby. discriminate.
  Qed.
End Run.

(** For the runs of [sim_advanced] on parsed traces (all events recorded): between a reported
    BlockingBegin [b] of a side that was caused (cause assignment [f], the one of
    [SimActionTrace.action_completion_trace]) by a BlockOutgoing action of POSITIVE duration and the
    next reported BlockingEnd of that side, every TunnelSent [k] of that side carries the bypass flag
    AND some record before [k] of that side contains a BlockOutgoing action that allows bypass. *)
Theorem blocked_side_tunnel_sent_needs_bypass_block : forall fuel cc sc tp tr delay pps args out,
  SimHistory.full_args args ->
  sim_advanced fuel cc sc tp (parse_trace tr delay) delay pps args = Ok out ->
  exists H : list SimHistory.hrec, out = map SimHistory.h_ev H /\
  exists f : nat -> nat,
    (forall k rk m, nth_error H k = Some rk ->
       (se_ev (h_ev rk) = TEPaddingSent m \/ se_ev (h_ev rk) = TEBlockingBegin m) ->
       SimActionTrace.caused_by H k rk m (f k)) /\
    forall b k rb rk m rj a,
      (b < k)%nat -> nth_error H b = Some rb -> nth_error H k = Some rk ->
      se_ev (h_ev rb) = TEBlockingBegin m ->
      nth_error H (f b) = Some rj -> In a (h_acts rj) -> taction_machine a = m ->
      SimActionTrace.completes a (h_ev rb) -> (0 < SimBlockTrace.block_dur a) ->
      se_ev (h_ev rk) = TETunnelSent -> se_client (h_ev rk) = se_client (h_ev rb) ->
      (forall i ri, (b < i < k)%nat -> nth_error H i = Some ri ->
                    ~ (se_ev (h_ev ri) = TEBlockingEnd /\ se_client (h_ev ri) = se_client (h_ev rb))) ->
      se_bypass (h_ev rk) = true /\
      exists j rj' a', (j < k)%nat /\ nth_error H j = Some rj' /\ se_client (h_ev rj') = se_client (h_ev rb) /\
        In a' (h_acts rj') /\ block_bypass a' = true.
Proof.
  intros fuel cc sc tp tr delay pps args out Hf Hrun.
  destruct (sim_advanced_history _ _ _ _ _ _ _ _ _ Hf Hrun) as (st0 & t0 & H & Hi & Hl & ->).
  exists H. split; [reflexivity|].
  destruct (blocked_side_tunnel_sent_needs_bypass_block_run fuel cc sc tp args st0 t0 H _ delay pps Hi
              (SimBlocking.parse_trace_inv tr delay) (parse_trace_start tr delay) Hl) as (f & F1 & _ & F3).
  exists f. split; [exact F1|exact F3].
Qed.

(** C16, completely fail-closed defenses: if no BlockOutgoing action returned for the side before
    [k] allows bypass, then while the side is blocking nothing leaves it. *)
Theorem fail_closed_nothing_leaves : forall fuel cc sc tp tr delay pps args out,
  SimHistory.full_args args ->
  sim_advanced fuel cc sc tp (parse_trace tr delay) delay pps args = Ok out ->
  exists H : list SimHistory.hrec, out = map SimHistory.h_ev H /\
  exists f : nat -> nat,
    (forall k rk m, nth_error H k = Some rk ->
       (se_ev (h_ev rk) = TEPaddingSent m \/ se_ev (h_ev rk) = TEBlockingBegin m) ->
       SimActionTrace.caused_by H k rk m (f k)) /\
    forall b k rb rk m rj a,
      (b < k)%nat -> nth_error H b = Some rb -> nth_error H k = Some rk ->
      se_ev (h_ev rb) = TEBlockingBegin m ->
      nth_error H (f b) = Some rj -> In a (h_acts rj) -> taction_machine a = m ->
      SimActionTrace.completes a (h_ev rb) -> (0 < SimBlockTrace.block_dur a) ->
      se_client (h_ev rk) = se_client (h_ev rb) ->
      (forall i ri, (b < i < k)%nat -> nth_error H i = Some ri ->
                    ~ (se_ev (h_ev ri) = TEBlockingEnd /\ se_client (h_ev ri) = se_client (h_ev rb))) ->
      (* no block action returned for that side before k allows bypass *)
      (forall j rj' a', (j < k)%nat -> nth_error H j = Some rj' -> se_client (h_ev rj') = se_client (h_ev rb) ->
                        In a' (h_acts rj') -> block_bypass a' = false) ->
      se_ev (h_ev rk) <> TETunnelSent.
Proof.
  intros fuel cc sc tp tr delay pps args out Hf Hrun.
  destruct (sim_advanced_history _ _ _ _ _ _ _ _ _ Hf Hrun) as (st0 & t0 & H & Hi & Hl & ->).
  exists H. split; [reflexivity|].
  exact (fail_closed_nothing_leaves_run fuel cc sc tp args st0 t0 H _ delay pps Hi
           (SimBlocking.parse_trace_inv tr delay) (parse_trace_start tr delay) Hl).
Qed.
