(** Property C16 at the level of whole runs, the BlockingEnd half -- in terms of the
    returned trace and the actions only, from the exact invariant of SimBypassAll.v
    (the simulator's descriptor of a side = [replayX] of the reported prefix, extended
    by the one pending BlockingBegin of that side).

    RESULTS (for every run of [sim_advanced] on a parsed trace recording all events,
    with the history [H] and ONE cause assignment [f] that also serves
    [SimBypassAll.bypass_all_replay_partial]):
    - (E1) exact time. A BlockingEnd of side X at index j is reported exactly at the
      expiry the replay computes ([replayX X f H j = Some (u, fl)], time = u), EXCEPT in
      the zero-duration-replace corner: a zero-duration REPLACING BlockOutgoing fired at
      this instant, the end is reported at once (strictly before the expiry that was in
      force, if any) and the BlockingBegin of that action is reported later at the same
      instant (or the run is cut within the instant). The statement without the corner
      is FALSE ([end_exact_time_plain_refuted]). A pending begin of any other kind never
      precedes a BlockingEnd of its side, so there is no further disjunct.
    - (E2) nothing passes the expiry: if the replay of the prefix before k says blocking
      until u then record k is not later than u. This holds AS STATED, without any
      "one step ahead" proviso (a pending begin fired strictly before the expiry that was
      in force, and every record until its report carries that instant).
    - (E3) between two BlockingEnd of a side there is a BlockingBegin of that side, or the
      second end is the zero-duration-replace corner (its begin follows it).
    - (E4) every BlockingEnd of a side is preceded by a BlockingBegin of that side with no
      BlockingEnd of the side in between, or it is the zero-duration-replace corner.
    (E3) and (E4) are corollaries of (E1) and a fact about the replay alone.

    Structure: 1. [pick_next] as a run that also tracks time against the expiries
    ([pn_runF]); 2. the invariant along a run ([einv_runF]); 3. history properties and
    the loop ([linvF], [iter_linvF], [loop_finF]); 4. the theorems; 5. concrete runs. *)
From Coq Require Import List Arith Lia Permutation ZArith Bool Sorted.
From MB Require Import Base.Prelude Model.Framework Model.Sim Proofs.Tactics Proofs.SimHeap.
From MB Require Import Proofs.SimBasics Proofs.SimReach Proofs.SimHistory Proofs.SimActionTrace.
From MB Require Import Proofs.SimBlockTrace Proofs.SimFailClosed Proofs.SimBypassAll.
From MB Require Proofs.SimTimers Proofs.SimBlocking Proofs.SimIdentity Proofs.FrameworkSlots.
Import ListNotations.
Open Scope N_scope.

(** * 1. [pick_next] as a run that tracks time against the expiries *)

Lemma arith_it_lt_b : forall sa it b q, C2 sa it b q = false -> C3 sa it q = false -> it <= sa -> it < b.
Proof. unfold C2, C3. intros sa it b q E2 E3 L. b2p; lia. Qed.

(** [SimBypassAll.pn_runE] with, in addition: time never moves past an expiry in a skip; the
    BlockingEnd is reported exactly at the expiry and not after the other side's; an event leaves the
    queue strictly before both expiries *)
Inductive pn_runF : sim -> Z -> option sev -> sim -> Prop :=
| runF_none : forall st t, pn_runF st t None st
| runF_skip : forall st t st1 t1 r st',
    same_slots st st1 -> same_cq st st1 -> (t <= t1)%Z -> qge st1 t1 -> same_d st st1 ->
    (forall Y u fl, dsim st Y = Some (u, fl) -> (t <= u)%Z -> (t1 <= u)%Z) ->
    pn_runF st1 t1 r st' -> pn_runF st t r st'
| runF_fire : forall st t st1 t1 r st' X mi a x,
    nth_error (slotsX st X) mi = Some (Some (a, t1)) ->
    slotsX st1 X = upd (slotsX st X) mi None -> slotsX st1 (negb X) = slotsX st (negb X) ->
    Permutation (cqs st1 X) (x :: cqs st X) -> Permutation (cqs st1 (negb X)) (cqs st (negb X)) ->
    completes a x -> se_time x = t1 -> se_client x = X -> (t <= t1)%Z -> qge st1 t1 ->
    (forall Y y, In y (cqs st Y) -> (t1 < se_time y)%Z) ->
    dsim st1 (negb X) = dsim st (negb X) ->
    dsim st1 X = replay_begin (dsim st X) t1 a ->
    (forall Y u fl, dsim st Y = Some (u, fl) -> (t1 < u)%Z) ->
    pn_runF st1 t1 r st' -> pn_runF st t r st'
| runF_end : forall st t e st' u fl,
    se_ev e = TEBlockingEnd -> same_slots st st' -> same_cq st st' -> (t <= se_time e)%Z -> qge st' (se_time e) ->
    dsim st (se_client e) = Some (u, fl) -> (forall Y y, In y (cqs st Y) -> (u <= se_time y)%Z) ->
    dsim st' (se_client e) = None ->
    dsim st' (negb (se_client e)) = dsim st (negb (se_client e)) ->
    (* reported exactly at the expiry *)
    ((t <= u)%Z -> se_time e = u) ->
    (* and not after the expiry of the other side *)
    (forall Y u' fl', dsim st Y = Some (u', fl') -> (t <= u')%Z -> (se_time e <= u')%Z) ->
    pn_runF st t (Some e) st'
| runF_other : forall st t e st',
    is_complb e = false -> se_ev e <> TEBlockingEnd ->
    same_slots st st' -> same_cq st st' -> (t <= se_time e)%Z -> qge st' (se_time e) -> same_d st st' ->
    (forall Y u fl, dsim st Y = Some (u, fl) -> (se_time e < u)%Z) ->
    pn_runF st t (Some e) st'
| runF_pop : forall st t e st',
    is_complb e = true -> same_slots st st' ->
    Permutation (cqs st (se_client e)) (e :: cqs st' (se_client e)) ->
    Permutation (cqs st' (negb (se_client e))) (cqs st (negb (se_client e))) ->
    (t <= se_time e)%Z -> qge st' (se_time e) -> same_d st st' ->
    (forall Y u fl, dsim st Y = Some (u, fl) -> (se_time e < u)%Z) ->
    pn_runF st t (Some e) st'.

Theorem pick_next_runF : forall fuel st t r st',
  SimBlocking.sq_inv (m_sq st) -> hpi (m_sq st) -> qge st t ->
  pick_next fuel st t = Ok (r, st') -> pn_runF st t r st' /\ hpi (m_sq st').
Proof.
  induction fuel as [|fuel IH]; intros st t r st' Hinv Hh Hq H; [discriminate H|].
  pose proof (proj1 Hinv) as Hwf.
  apply pn_unfoldB in H. destruct H as (b & bic & q & w & qic & Hb & Hpq & H). cbv zeta in Hpq, H.
  set (sa := peek_sched (s_sched (m_c st)) (s_sched (m_s st)) t) in *.
  set (it := peek_timers (s_timers (m_c st)) (s_timers (m_s st)) t) in *.
  set (n := net_peek_agg (m_net st) t) in *.
  assert (Bsa : sa <= DMAX) by apply peek_sched_le.
  assert (Bit : it <= DMAX) by apply peek_timers_le.
  assert (Bn : n <= DMAX) by apply SimBlocking.net_peek_agg_le_DMAX.
  assert (Bb : b <= DMAX) by (eapply SimTimers.peek_blocked_exp_le; exact Hb).
  assert (Bq : q <= DMAX).
  { pose proof (SimBlocking.peek_queue_le_DMAX (m_sq st) (m_c st) (m_s st) (n_cagg (m_net st)) (n_sagg (m_net st))
                  (N.min (N.min (N.min sa it) b) n) t) as L. rewrite Hpq in L. exact L. }
  assert (Hsx : forall X x, In x (cqs st X) ->
            (t <= se_time x)%Z /\
            (q <= since (se_time x) t \/ (q = DMAX /\ N.min (N.min (N.min sa it) b) n < since (se_time x) t))).
  { intros X x Hx. split; [apply (Hq X x Hx)|].
    eapply peek_queue_int_le; [apply Hh|apply in_cqs_iq; exact Hx|exact Hpq]. }
  assert (Hble : forall Y u fl, dsim st Y = Some (u, fl) -> b <= since u t).
  { intros Y u fl Hd. apply dside_some in Hd. destruct (pbe_le _ _ _ _ _ Hb) as [Lc Ls].
    destruct Y; [apply Lc|apply Ls]; exact Hd. }
  destruct H as [(-> & ->)|[H|(E0 & E1 & [(E2 & -> & net' & ->)|(E2 & H)])]].
  - split; [apply runF_none|exact Hh].
  - (* aggregate delay popped *)
    destruct (IH (mksim (m_sq st) (m_c st) (m_s st) (net_pop_agg (m_net st)) (m_pos st)) t r st' Hinv Hh Hq H) as [R Hh'].
    split; [|exact Hh'].
    apply (runF_skip st t (mksim (m_sq st) (m_c st) (m_s st) (net_pop_agg (m_net st)) (m_pos st)) t r st');
      [intros X; reflexivity|intros X; apply Permutation_refl|lia|exact Hq|intros X; reflexivity|auto|exact R].
  - (* blocking expiry *)
    split; [|exact Hh].
    pose proof (arith_bD _ _ _ _ _ E0 E1 E2 Bsa Bit Bn Bq) as HbD.
    destruct (peek_blocked_exp_some _ _ _ _ _ Hb HbD) as (u & Hu & Hbu).
    apply (runF_end _ _ _ _ u (if bic then s_bbypass (m_c st) else s_bbypass (m_s st))); cbn [se_ev se_time se_client].
    + reflexivity.
    + intros [|]; unfold slotsX; cbn [m_c m_s]; destruct bic; reflexivity.
    + intros X; apply Permutation_refl.
    + lia.
    + intros X x Hx.
      match type of Hx with In x (cqs ?s X) => change (cqs s X) with (cqs st X) in Hx end.
      destruct (Hsx X x Hx) as [Ht Hx'].
      pose proof (arith_b _ _ _ _ _ _ E1 E2 Bn Hx') as Hbx.
      pose proof (SimTimers.since_below _ _ Ht). lia.
    + unfold dsim, dside. destruct bic; rewrite Hu; reflexivity.
    + intros Y y Hy. destruct (Hsx Y y Hy) as [Ht Hx'].
      pose proof (arith_b _ _ _ _ _ _ E1 E2 Bn Hx') as Hbx.
      apply (since_lt_le u (se_time y) t); [rewrite <- Hbu; exact HbD|rewrite <- Hbu; exact Hbx|exact Ht].
    + unfold dsim, dside. destruct bic; cbn [m_c m_s side_set_block s_buntil]; reflexivity.
    + unfold dsim. destruct bic; reflexivity.
    + intros Lu. rewrite Hbu in HbD |- *. unfold since in *. lia.
    + intros Y u' fl' Hd Lu. pose proof (Hble Y u' fl' Hd) as L1.
      pose proof (SimTimers.since_below _ _ Lu). lia.
  - destruct H as [(E3 & tmp & sq' & Hpop & -> & ->)|(E3 & H)].
    + (* the head of the queue *)
      pose proof (arith_q _ _ _ _ _ E0 E1 E2 E3 Bsa Bit Bb Bn) as Hqd.
      pose proof (SimTimers.peek_pop_consistent _ _ _ _ _ _ _ _ _ _ _ _ (wf_simq_sq_wf _ Hwf) Hpq Hqd Hpop) as Htmp.
      destruct (cq_pop _ _ _ _ _ _ Hwf Hpop) as (Hcl & Hperm & Hin).
      destruct (SimBlocking.sq_pop_inv _ _ _ _ _ _ Hinv Hpop) as [_ Hnbend].
      split; [|eapply hpi_pop; [exact Hh|exact Hpop]].
      assert (Hlive : forall Y u fl, dsim st Y = Some (u, fl) -> (t + Z.of_N q < u)%Z).
      { intros Y u fl Hd. pose proof (Hble Y u fl Hd) as L1.
        pose proof (arith_q_lt_b _ _ _ _ E2 E3) as L2.
        assert (L3 : q < since u t) by lia. apply since_gt in L3. exact L3. }
      assert (Hrest : forall X x, In x (cq sq' X) -> (t + Z.of_N q <= se_time x)%Z).
      { intros X x Hx.
        assert (Hx0 : In x (cqs st X)).
        { unfold cqs. apply (Permutation_in _ (Permutation_sym (Hperm X))).
          destruct (_ && _); [right|]; exact Hx. }
        destruct (Hsx X x Hx0) as [Ht [Hx'|[Hx' _]]]; [|lia].
        pose proof (SimTimers.since_below _ _ Ht). lia. }
      destruct (is_complb tmp) eqn:Ec.
      * (* a completion: its time is not changed *)
        assert (Hx0 : In tmp (cqs st qic)).
        { unfold cqs. apply (Permutation_in _ (Permutation_sym (Hperm qic))).
          rewrite Bool.eqb_reflx. cbn [andb]. left. reflexivity. }
        destruct (Hsx qic tmp Hx0) as [Ht [Hx'|[Hx' _]]]; [|lia].
        pose proof (SimTimers.since_below _ _ Ht) as Hbl.
        destruct (Z.ltb_spec (se_time tmp) (t + Z.of_N q)) as [L|L]; [lia|].
        apply runF_pop; [exact Ec|intros X; reflexivity| | | | |intros X; reflexivity|].
        -- rewrite Hcl. pose proof (Hperm qic) as P. rewrite Bool.eqb_reflx in P. exact P.
        -- rewrite Hcl. pose proof (Hperm (negb qic)) as P.
           replace (Bool.eqb qic (negb qic)) with false in P by (destruct qic; reflexivity).
           apply Permutation_sym. exact P.
        -- exact Ht.
        -- intros X x Hx. specialize (Hrest X x Hx). lia.
        -- intros Y u fl Hd. specialize (Hlive Y u fl Hd). lia.
      * (* another event *)
        set (e := if (se_time tmp <? t + Z.of_N q)%Z then set_time tmp (t + Z.of_N q)%Z else tmp).
        assert (He : is_complb e = false /\ se_time e = (t + Z.of_N q)%Z /\ se_ev e = se_ev tmp).
        { subst e. destruct (Z.ltb_spec (se_time tmp) (t + Z.of_N q)) as [L|L].
          - split; [exact Ec|]. split; reflexivity.
          - split; [exact Ec|]. split; [lia|reflexivity]. }
        destruct He as (He1 & He2 & He3).
        apply runF_other; [exact He1|rewrite He3; exact Hnbend|intros X; reflexivity| | | |intros X; reflexivity|].
        -- intros X. pose proof (Hperm X) as P. rewrite Bool.andb_false_r in P. apply Permutation_sym. exact P.
        -- lia.
        -- intros X x Hx. rewrite He2. apply (Hrest X x Hx).
        -- intros Y u fl Hd. rewrite He2. apply (Hlive Y u fl Hd).
    + assert (Hmin : forall X x, In x (cqs st X) -> (t + Z.of_N (N.min sa it) <= se_time x)%Z).
      { intros X x Hx. destruct (Hsx X x Hx) as [Ht Hx'].
        pose proof (arith_t _ _ _ _ _ _ E1 E2 E3 Bb Bn Hx').
        pose proof (SimTimers.since_below _ _ Ht). lia. }
      destruct H as [(Hle & c' & s' & e & Hd & H)|(Hlt & c' & s' & e & Hd & H)].
      * (* an internal timer: pick again as of its expiry *)
        pose proof (SimTimers.do_internal_timer_spec _ _ _ _ _ _ Hd) as (ic & mi & Sp). cbv zeta in Sp.
        assert (Hs : s_sched c' = s_sched (m_c st) /\ s_sched s' = s_sched (m_s st) /\ is_complb e = false /\
                     dside c' = dside (m_c st) /\ dside s' = dside (m_s st) /\
                     se_ev e <> TEBlockingEnd).
        { destruct ic; destruct Sp as (_ & _ & S3 & S4 & _ & S6 & S7 & ->); subst; cbn [se_ev]; unfold dside;
            rewrite ?S6, ?S7; (repeat (split; [solve [auto]|])); discriminate. }
        destruct Hs as (Sc & Ss & Ec & Bc & Bs & Ene).
        set (st1 := mksim (sq_push (m_sq st) e) c' s' (m_net st) (m_pos st)) in *.
        assert (Hcq : same_cq st st1). { intros X. apply cq_push_other. exact Ec. }
        assert (Hq1 : qge st1 (t + Z.of_N it)%Z).
        { intros X x Hx. apply (Permutation_in _ (Hcq X)) in Hx. specialize (Hmin X x Hx). lia. }
        destruct (IH st1 _ r st' (SimBlocking.sq_push_inv _ _ Hinv Ene) (hpi_push _ _ Hh) Hq1 H) as [R Hh'].
        split; [|exact Hh'].
        eapply runF_skip; [|exact Hcq| |exact Hq1| | |exact R]; [|lia| |].
        -- intros [|]; unfold slotsX; cbn [m_c m_s]; assumption.
        -- intros [|]; unfold dsim; cbn [m_c m_s]; assumption.
        -- intros Y u fl Hdd _. pose proof (Hble Y u fl Hdd) as L1.
           pose proof (arith_it_lt_b _ _ _ _ E2 E3 Hle) as L2.
           assert (L3 : it < since u t) by lia. apply since_gt in L3. lia.
      * (* a scheduled action fires *)
        pose proof (do_scheduled_action_E _ _ _ _ _ _ Hd) as (ic & mi & a & Sp). cbv zeta in Sp.
        destruct Sp as (S1 & S2 & S3 & S6 & S7 & Hc & B1).
        destruct (completes_compl _ _ Hc) as [Ec _].
        set (st1 := mksim (sq_push (m_sq st) e) c' s' (m_net st) (m_pos st)) in *.
        assert (Hcq1 : Permutation (cqs st1 ic) (e :: cqs st ic)).
        { unfold cqs, st1; cbn [m_sq]. pose proof (cq_push (m_sq st) e ic) as P.
          rewrite S7, Ec, Bool.eqb_reflx in P. exact P. }
        assert (Hcq2 : Permutation (cqs st1 (negb ic)) (cqs st (negb ic))).
        { unfold cqs, st1; cbn [m_sq]. pose proof (cq_push (m_sq st) e (negb ic)) as P.
          rewrite S7 in P. replace (Bool.eqb ic (negb ic)) with false in P by (destruct ic; reflexivity).
          exact P. }
        assert (Hq1 : qge st1 (t + Z.of_N sa)%Z).
        { intros X x Hx.
          assert (Hx' : x = e \/ In x (cqs st X)).
          { destruct (Bool.bool_dec X ic) as [->|Hne].
            - apply (Permutation_in _ Hcq1) in Hx. destruct Hx as [Hx|Hx]; auto.
            - assert (X = negb ic) as -> by (destruct X, ic; try reflexivity; elim Hne; reflexivity).
              apply (Permutation_in _ Hcq2) in Hx. auto. }
          destruct Hx' as [->|Hx']; [lia|]. specialize (Hmin X x Hx'). lia. }
        assert (Hstrict : forall Y y, In y (cqs st Y) -> (t + Z.of_N sa < se_time y)%Z).
        { intros Y y Hy. destruct (Hsx Y y Hy) as [Ht Hx'].
          pose proof (arith_fire _ _ _ _ _ _ E1 E2 E3 Hlt Bit Bb Bn Hx') as L.
          unfold since in L. lia. }
        assert (Hlive : forall Y u fl, dsim st Y = Some (u, fl) -> (t + Z.of_N sa < u)%Z).
        { intros Y u fl Hdd. pose proof (Hble Y u fl Hdd) as L1.
          pose proof (arith_sa_lt_b _ _ _ _ E2 E3 Hlt) as L2.
          apply since_gt. lia. }
        destruct (IH st1 _ r st' (SimBlocking.sq_push_inv _ _ Hinv (complb_not_bend _ Ec)) (hpi_push _ _ Hh) Hq1 H)
          as [R Hh'].
        split; [|exact Hh'].
        eapply (runF_fire st t st1 (t + Z.of_N sa)%Z r st' ic mi a e);
          [ | | |exact Hcq1|exact Hcq2|exact Hc|exact S6|exact S7|lia|exact Hq1|exact Hstrict| | |exact Hlive|exact R].
        -- destruct ic; exact S1.
        -- destruct ic; unfold slotsX, st1; cbn [m_c m_s]; exact S2.
        -- destruct ic; unfold slotsX, st1; cbn [m_c m_s negb]; rewrite S3; reflexivity.
        -- destruct ic; unfold dsim, st1; cbn [m_c m_s negb]; rewrite S3; reflexivity.
        -- destruct ic; unfold dsim, st1; cbn [m_c m_s]; exact B1.
Qed.

Lemma pn_runF_qge : forall st t r st', pn_runF st t r st' ->
  forall e, r = Some e -> qge st' (se_time e) /\ (t <= se_time e)%Z.
Proof.
  intros st t r st' R.
  induction R as [st t|st t st1 t1 r st' _ _ Ht _ _ _ _ IH
                 |st t st1 t1 r st' X mi a x _ _ _ _ _ _ _ _ Ht _ _ _ _ _ _ IH
                 |st t e0 st' u fl _ _ _ Ht Hq _ _ _ _ _ _
                 |st t e0 st' _ _ _ _ Ht Hq _ _|st t e0 st' _ _ _ _ Ht Hq _ _];
    intros e He.
  - discriminate.
  - destruct (IH e He). split; [assumption|lia].
  - destruct (IH e He). split; [assumption|lia].
  - injection He as <-. auto.
  - injection He as <-. auto.
  - injection He as <-. auto.
Qed.

(** * 2. The invariant along a run *)

(** no side is blocking until before now *)
Definition live (st : sim) (t : Z) : Prop := forall X u fl, dsim st X = Some (u, fl) -> (t <= u)%Z.

(** a pending BlockingBegin fired strictly before the expiry the reports still show *)
Definition plive (R : bool -> bdesc) (G : bool -> list (sev * nat)) : Prop :=
  forall X x j u fl, G X = [(x, j)] -> is_beginb x = true -> R X = Some (u, fl) -> (se_time x < u)%Z.

(** what is known when a BlockingEnd of side [X] is returned: it is the expiry of the replay, or a
    zero-duration replacing block has just fired (its BlockingBegin is queued) *)
Definition endfacts (H : list hrec) (f : nat -> nat) (G' : bool -> list (sev * nat)) (e : sev) : Prop :=
  forall X, is_bend X e ->
    (exists u fl, Rf H f X = Some (u, fl) /\ se_time e = u) \/
    (exists x j a, G' X = [(x, j)] /\ is_beginb x = true /\ act_of H j (cmach x) = Some a /\
       zero_replace a = true /\ se_time x = se_time e /\
       forall u fl, Rf H f X = Some (u, fl) -> (se_time e < u)%Z).

Lemma replay_begin_ge : forall b t a u fl,
  (forall u0 fl0, b = Some (u0, fl0) -> (t < u0)%Z) -> replay_begin b t a = Some (u, fl) -> (t <= u)%Z.
Proof.
  intros b t a u fl Hb H.
  destruct a as [m tm|m tmo by_ rp|m tmo dur by_ rp|m dur rp]; cbn [replay_begin] in H;
    try (specialize (Hb _ _ H); lia).
  destruct b as [[u0 fl0]|].
  - specialize (Hb u0 fl0 eq_refl). destruct rp; [injection H as <- _; lia|].
    destruct (Z.ltb_spec u0 (t + Z.of_N dur)); injection H as <- _; lia.
  - destruct (_ || _); [injection H as <- _; lia|discriminate].
Qed.

Lemma in_cqs_G : forall H st t f G X e, tinv H st t f G noex -> In e (cqs st X) -> exists j, In (e, j) (G X).
Proof.
  intros H st t f G X e I Hin. pose proof (ti_qperm _ _ _ _ _ _ I X) as P. cbn [noex app] in P.
  apply (Permutation_in _ (Permutation_sym P)) in Hin. apply in_map_iff in Hin.
  destruct Hin as ([e0 j] & E & Hin). cbn [fst] in E. subst e0. eauto.
Qed.

Lemma live_same_d : forall st st1 t, same_d st st1 -> live st t -> live st1 t.
Proof. intros st st1 t Hd L X u fl Hs. rewrite Hd in Hs. eapply L. exact Hs. Qed.

Theorem einv_runF : forall st t r st', pn_runF st t r st' ->
  forall H f G, huniq H -> tinv H st t f G noex -> einvR true (Rf H f) H st G ->
  live st t -> plive (Rf H f) G ->
  match r with
  | None => True
  | Some e => exists G', tinv H st' (se_time e) f G' (ex_of e) /\
      (forall X p, In p (G X) -> In p (G' X)) /\
      einvR false (Rp H f e) H st' G' /\
      (forall X x j, G X = [(x, j)] -> is_beginb x = true -> pnormal (Rf H f) H st X x j -> ~ is_bend X e) /\
      live st' (se_time e) /\ plive (Rf H f) G' /\ endfacts H f G' e
  end.
Proof.
  intros st t r st' R.
  induction R as [st t|st t st1 t1 r st' Hs Hc Ht _ Hd Hlv _ IH
                 |st t st1 t1 r st' X mi a x Hn Hs1 Hs2 Hp1 Hp2 Hcm Htx Hcx Ht _ Hstrict Hb1 Hex Hlive _ IH
                 |st t e st' u fl He Hs Hc Ht _ Hu Hue Hnone Hbo Het Hpl
                 |st t e st' He Hne Hs Hc Ht _ Hd Hlive
                 |st t e st' He Hs Hp1 Hp2 Ht _ Hd Hlive]; intros H f G HU I E LV PL.
  - exact Logic.I.
  - (* skip *)
    assert (I1 : tinv H st1 t1 f G noex).
    { eapply tinv_move; [exact I|exact Hs| |exact Ht].
      intros X. cbn [noex app]. apply Permutation_sym. apply Hc. }
    assert (LV1 : live st1 t1).
    { intros X u fl Hsx. rewrite Hd in Hsx. apply (Hlv X u fl Hsx). apply (LV X u fl Hsx). }
    specialize (IH H f G HU I1 (einvR_same_d _ _ _ _ _ _ Hd E) LV1 PL).
    destruct r as [e|]; [|exact Logic.I].
    destruct IH as (G' & J1 & J2 & J3 & J4 & J5). exists G'. split; [exact J1|]. split; [exact J2|]. split; [exact J3|].
    split; [|exact J5].
    intros Y y j HG Hb Hp. apply (J4 Y y j HG Hb). eapply pnormal_same_d; eassumption.
  - (* a slot fires *)
    pose proof (G_nil_at_fire _ _ _ _ _ _ I Hstrict Ht) as Hnil.
    assert (Hd0 : forall Y, dsim st Y = Rf H f Y).
    { destruct E as [_ _ H3|Y y j H1 _ _ _]; [exact H3|]. rewrite Hnil in H1. discriminate. }
    destruct (tinv_fire_x _ _ _ _ _ _ _ _ _ _ _ I Hn Hs1 Hs2 Hp1 Hp2 Hcm Htx Hcx Ht) as (j & rj & Hj & Haj & I').
    set (G1 := fun Y => if Bool.eqb Y X then (x, j) :: G Y else G Y) in *.
    assert (HG1 : G1 X = [(x, j)]).
    { unfold G1. rewrite Bool.eqb_reflx, Hnil. reflexivity. }
    assert (HG2 : G1 (negb X) = []).
    { unfold G1. replace (Bool.eqb (negb X) X) with false by (destruct X; reflexivity). apply Hnil. }
    assert (E1 : einvR true (Rf H f) H st1 G1).
    { apply (einv1 _ _ _ _ _ X x j HG1 HG2); [rewrite Hb1; apply Hd0|].
      destruct a as [m tm|m tmo by_ rp|m tmo dur by_ rp|m dur rp]; cbn [completes] in Hcm; try contradiction.
      - left. destruct Hcm as (Hev & _). split; [unfold is_beginb; rewrite Hev; reflexivity|].
        rewrite Hex. cbn [replay_begin]. apply Hd0.
      - right. split; [unfold is_beginb; rewrite Hcm; reflexivity|].
        assert (Hact : act_of H j (cmach x) = Some (TBlockOutgoing m tmo dur by_ rp)).
        { replace (cmach x) with (taction_machine (TBlockOutgoing m tmo dur by_ rp))
            by (unfold cmach; rewrite Hcm; reflexivity).
          eapply act_of_uniq; eassumption. }
        destruct (zero_replace (TBlockOutgoing m tmo dur by_ rp)) eqn:Ez.
        + right. split; [reflexivity|]. exists (TBlockOutgoing m tmo dur by_ rp), by_.
          split; [exact Hact|]. split; [exact Ez|]. split.
          * rewrite Hex, Htx. apply replay_begin_zero_replace. exact Ez.
          * intros u0 fl0 Hs0. rewrite Hb1 in Hs0. rewrite Htx. eapply Hlive. exact Hs0.
        + left. exists (TBlockOutgoing m tmo dur by_ rp). split; [exact Hact|]. split.
          * unfold replay_begin_r. rewrite Ez, Hex, Hd0, Htx. reflexivity.
          * intros u0 fl0 Hs0. rewrite Hex in Hs0. rewrite Htx.
            eapply replay_begin_live; [exact Ez| |exact Hs0]. intros u1 fl1 Hs1'. eapply Hlive. exact Hs1'. }
    assert (LV1 : live st1 t1).
    { intros Y u0 fl0 Hs0. destruct (negb_cases X Y) as [->| ->].
      - rewrite Hex in Hs0. eapply replay_begin_ge; [|exact Hs0]. intros u1 fl1 Hs1'. eapply Hlive. exact Hs1'.
      - rewrite Hb1 in Hs0. pose proof (Hlive _ _ _ Hs0). lia. }
    assert (PL1 : plive (Rf H f) G1).
    { intros Y y jy u0 fl0 HGY Hby HR. destruct (negb_cases X Y) as [->| ->]; [|rewrite HG2 in HGY; discriminate].
      rewrite HG1 in HGY. injection HGY as <- <-. rewrite <- Hd0 in HR. rewrite Htx. eapply Hlive. exact HR. }
    specialize (IH H f G1 HU I' E1 LV1 PL1).
    destruct r as [e|]; [|exact Logic.I].
    destruct IH as (G' & J1 & J2 & J3 & J4 & J5). exists G'. split; [exact J1|]. split; [|split; [exact J3|split; [|exact J5]]].
    + intros Y p Hp. rewrite Hnil in Hp. destruct Hp.
    + intros Y y j0 HG. rewrite Hnil in HG. discriminate.
  - (* blocking expiry *)
    assert (Hte : se_time e = u) by (apply Het; apply (LV _ _ _ Hu)).
    exists G. split; [|split; [auto|split; [|split; [|split; [|split; [exact PL|]]]]]].
    + eapply tinv_move; [exact I|exact Hs| |exact Ht].
      intros X. rewrite (ex_of_other _ _ (bend_not_compl _ He)). cbn [noex app]. apply Permutation_sym. apply Hc.
    + assert (RpE : Rp H f e (se_client e) = None).
      { unfold Rp, is_bendb. rewrite He, Bool.eqb_reflx. reflexivity. }
      assert (RpO : Rp H f e (negb (se_client e)) = Rf H f (negb (se_client e))).
      { unfold Rp, Rf, is_bendb. rewrite He.
        replace (Bool.eqb (se_client e) (negb (se_client e))) with false by (destruct (se_client e); reflexivity).
        reflexivity. }
      destruct E as [H1 H2 H3|X x j H1 H2 H3 H4].
      * apply einv0; [exact H1|exact H2|]. intros X.
        destruct (negb_cases (se_client e) X) as [->| ->]; [rewrite Hnone, RpE; reflexivity|].
        rewrite Hbo, RpO. apply H3.
      * assert (Hin : In (x, j) (G X)) by (rewrite H1; left; reflexivity).
        pose proof (Hue X x (G_in_cqs _ _ _ _ _ _ _ _ I Hin)) as Lx.
        apply (einv1 _ _ _ _ _ X x j H1 H2).
        -- destruct (negb_cases (se_client e) (negb X)) as [Eq|Eq]; rewrite Eq.
           ++ rewrite Hnone, RpE. reflexivity.
           ++ rewrite Hbo, RpO, <- Eq. exact H3.
        -- destruct (negb_cases (se_client e) X) as [EX|EX].
           ++ destruct H4 as [[B Ex]|[B [(a & A1 & A2 & A3)|[_ (a & fl0 & Z1 & Z2 & Z3 & Z4)]]]].
              ** left. split; [exact B|]. rewrite EX, Hnone, RpE. reflexivity.
              ** exfalso. rewrite EX in A3. specialize (A3 _ _ Hu). lia.
              ** right. split; [exact B|]. left. exists a. split; [exact Z1|]. rewrite EX, Hnone, RpE.
                 split; [unfold replay_begin_r; rewrite Z2; reflexivity|]. intros u0 fl1 Hx. discriminate.
           ++ assert (EX' : se_client e = negb X) by (rewrite EX; destruct (se_client e); reflexivity).
              assert (HRX : Rp H f e X = Rf H f X).
              { rewrite EX. exact RpO. }
              assert (HdX : dsim st' X = dsim st X).
              { rewrite EX. exact Hbo. }
              destruct H4 as [[B Ex]|[B [(a & A1 & A2 & A3)|[_ (a & fl0 & Z1 & Z2 & Z3 & Z4)]]]].
              ** left. split; [exact B|]. rewrite HdX, HRX. exact Ex.
              ** right. split; [exact B|]. left. exists a. split; [exact A1|]. rewrite !HdX, HRX. auto.
              ** exfalso. rewrite EX' in Hu. specialize (Z4 _ _ Hu). lia.
    + intros X x j HG Hb (a & A1 & A2 & A3) [_ Hside].
      assert (Hin : In (x, j) (G X)) by (rewrite HG; left; reflexivity).
      pose proof (Hue X x (G_in_cqs _ _ _ _ _ _ _ _ I Hin)) as Lx.
      rewrite Hside in Hu. specialize (A3 _ _ Hu). lia.
    + (* nothing passes an expiry *)
      intros X u0 fl0 Hs0. destruct (negb_cases (se_client e) X) as [->| ->].
      * rewrite Hnone in Hs0. discriminate.
      * rewrite Hbo in Hs0. apply (Hpl _ _ _ Hs0). apply (LV _ _ _ Hs0).
    + (* the end is the expiry of the replay, or the zero-duration replace in progress *)
      intros X [_ Hside]. rewrite Hside in Hu.
      destruct E as [H1 H2 H3|X0 x j H1 H2 H3 H4].
      * left. exists u, fl. rewrite <- H3. auto.
      * destruct (negb_cases X0 X) as [EX|EX].
        -- subst X0. destruct H4 as [[B Ex]|[B [(a & A1 & A2 & A3)|[_ (a & fl0 & Z1 & Z2 & Z3 & Z4)]]]].
           ++ left. exists u, fl. rewrite <- Ex. auto.
           ++ exfalso. assert (Hin : In (x, j) (G X)) by (rewrite H1; left; reflexivity).
              pose proof (Hue X x (G_in_cqs _ _ _ _ _ _ _ _ I Hin)) as Lx.
              specialize (A3 _ _ Hu). lia.
           ++ right. rewrite Hu in Z3. injection Z3 as Eu _.
              exists x, j, a. split; [exact H1|]. split; [exact B|]. split; [exact Z1|]. split; [exact Z2|].
              split; [congruence|]. intros u1 fl1 HR. rewrite Hte, Eu. apply (PL X x j u1 fl1 H1 B HR).
        -- left. exists u, fl. rewrite EX, <- H3, <- EX. auto.
  - (* another event leaves the queue *)
    exists G. split; [|split; [auto|split; [|split; [|split; [|split; [exact PL|]]]]]].
    + eapply tinv_move; [exact I|exact Hs| |exact Ht].
      intros X. rewrite (ex_of_other _ _ He). cbn [noex app]. apply Permutation_sym. apply Hc.
    + eapply einvR_leave_queue; try eassumption.
      intros Y u0 fl0 Hs0. pose proof (Hlive _ _ _ Hs0). lia.
    + intros X x j _ _ _ [Hend _]. contradiction.
    + intros X u0 fl0 Hs0. rewrite Hd in Hs0. pose proof (Hlive _ _ _ Hs0). lia.
    + intros X [Hend _]. contradiction.
  - (* a completion leaves the queue *)
    exists G. split; [|split; [auto|split; [|split; [|split; [|split; [exact PL|]]]]]].
    + eapply tinv_pop_move; eassumption.
    + eapply einvR_leave_queue; try eassumption; [|apply complb_not_bend; exact He].
      intros Y u0 fl0 Hs0. pose proof (Hlive _ _ _ Hs0). lia.
    + intros X x j _ _ _ [Hend _]. apply (complb_not_bend _ He). exact Hend.
    + intros X u0 fl0 Hs0. rewrite Hd in Hs0. pose proof (Hlive _ _ _ Hs0). lia.
    + intros X [Hend _]. exfalso. apply (complb_not_bend _ He). exact Hend.
Qed.

(** * 3. History properties and the loop *)

(** the end at [j] came early: strictly before the expiry the replay shows (if it shows one) *)
Definition early (X : bool) (f : nat -> nat) (H : list hrec) (j : nat) (rj : hrec) : Prop :=
  forall u fl, replayX X f H j = Some (u, fl) -> (se_time (h_ev rj) < u)%Z.

(** the zero-duration-replace corner, resolved: the BlockingBegin of a zero-duration replacing block is
    reported after the end, in the same instant, nothing of side [X]'s completions in between; after it
    the replay says "not blocking" *)
Definition e1c3 (X : bool) (f : nat -> nat) (H : list hrec) (j : nat) (rj : hrec) : Prop :=
  exists j' rj' m a, (j < j')%nat /\ nth_error H j' = Some rj' /\ se_ev (h_ev rj') = TEBlockingBegin m /\
    se_client (h_ev rj') = X /\ se_time (h_ev rj') = se_time (h_ev rj) /\
    (forall i ri, (j < i < j')%nat -> nth_error H i = Some ri -> se_client (h_ev ri) = X ->
       is_complb (h_ev ri) = false) /\
    act_of H (f j') m = Some a /\ zero_replace a = true /\ replayX X f H (S j') = None.

(** the run was cut within the instant of the end *)
Definition e1c4 (X : bool) (H : list hrec) (j : nat) (rj : hrec) : Prop :=
  forall i ri, (j < i)%nat -> nth_error H i = Some ri ->
    se_time (h_ev ri) = se_time (h_ev rj) /\ (se_client (h_ev ri) = X -> is_complb (h_ev ri) = false).

(** the same while the run goes on: the BlockingBegin of the zero-duration replacing block is queued *)
Definition e1c4p (X : bool) (H : list hrec) (G : bool -> list (sev * nat)) (j : nat) (rj : hrec) : Prop :=
  exists x jx a, G X = [(x, jx)] /\ is_beginb x = true /\ act_of H jx (cmach x) = Some a /\
    zero_replace a = true /\ se_time x = se_time (h_ev rj) /\ e1c4 X H j rj.

Definition hpE1 (H : list hrec) (f : nat -> nat) (G : bool -> list (sev * nat)) : Prop :=
  forall j rj, nth_error H j = Some rj -> se_ev (h_ev rj) = TEBlockingEnd ->
    (exists u fl, replayX (se_client (h_ev rj)) f H j = Some (u, fl) /\ se_time (h_ev rj) = u) \/
    (early (se_client (h_ev rj)) f H j rj /\
     (e1c3 (se_client (h_ev rj)) f H j rj \/ e1c4p (se_client (h_ev rj)) H G j rj)).

Definition hpE2 (H : list hrec) (f : nat -> nat) : Prop :=
  forall X k rk u fl, nth_error H k = Some rk -> replayX X f H k = Some (u, fl) -> (se_time (h_ev rk) <= u)%Z.

Record linvF (H : list hrec) (st : sim) (t : Z) (f : nat -> nat) (G : bool -> list (sev * nat)) : Prop := mk_linvF {
  lF_e : linvE H st t f G;
  lF_live : live st t;
  lF_pl : plive (Rf H f) G;
  lF_1 : hpE1 H f G;
  lF_2 : hpE2 H f
}.

(** one iteration of the main loop (the first part is [SimBypassAll.iter_linvE] again, with the ghosts
    in the open) *)
Lemma iter_linvF : forall cc sc tp st t next st1 sq2 net2 act X sd' sq3 pos3 H f G,
  linvF H st t f G ->
  pick_next (pn_fuel st) st t = Ok (Some next, st1) ->
  sim_network_stack next (m_sq st1) (if se_client next then s_bbypass (m_c st1) else s_bbypass (m_s st1))
                    (m_net st1) (se_time next) = Ok (sq2, net2, act) ->
  se_client next = X ->
  trigger_update (if X then cc else sc) tp (if X then m_c st1 else m_s st1) (m_pos st1) next (se_time next) sq2 X
    = Ok (sd', sq3, pos3) ->
  let st3 := mksim sq3 (if X then sd' else m_c st1) (if X then m_s st1 else sd') net2 pos3 in
  exists f' G', linvF (H ++ [mkhrec next (acts_for cc sc tp st1 next)]) st3 (se_time next) f' G'.
Proof.
  intros cc sc tp st t next st1 sq2 net2 act X sd' sq3 pos3 H f G [[Hinv Hh Hq I HU E BY] LV PL Q1 Q2] Ep En HX Et st3.
  destruct (pick_next_runF _ _ _ _ _ Hinv Hh Hq Ep) as [R Hh1].
  destruct (pn_runF_qge _ _ _ _ R next eq_refl) as [Hq1 Ht1].
  destruct (einv_runF _ _ _ _ R H f G HU I (einvR_weaken _ _ _ _ E) LV PL) as (G1 & I1 & Gm & E1 & Hnoend & LV1 & PL1 & EF).
  pose proof (SimBlocking.pick_next_inv _ _ _ _ _ Hinv Ep) as Hinv1.
  pose proof (SimBlocking.network_stack_inv _ _ _ _ _ _ _ _ Hinv1 En) as Hinv2.
  destruct (network_stack_cq _ _ _ _ _ _ _ _ (proj1 Hinv1) En) as [P2 Hh2].
  pose proof (SimBlocking.trigger_update_inv _ _ _ _ _ _ _ _ _ _ _ Hinv2 Et) as Hinv3.
  destruct (trigger_update_spec _ _ _ _ _ _ _ _ _ _ _ Et) as (fw' & acts & Ete & Ea).
  destruct (apply_actions_cq _ _ _ _ _ _ _ Ea) as [P3 Hh3].
  destruct (SimTimers.apply_actions_spec _ _ _ _ _ _ _ Ea) as (L1 & _ & S1 & _ & _ & _ & Sbu & Sbb).
  cbn [side_set_fw s_sched s_buntil s_bbypass] in L1, S1, Sbu, Sbb.
  assert (Hacts : acts_for cc sc tp st1 next = acts).
  { unfold acts_for. rewrite HX. rewrite Ete. reflexivity. }
  assert (Hcq : same_cq st1 st3).
  { intros Y. unfold cqs, st3. cbn [m_sq]. eapply perm_trans; [apply P3|apply P2]. }
  assert (Hd3 : same_d st1 st3).
  { intros Y. unfold dsim, dside, st3. destruct X, Y; cbn [m_c m_s]; rewrite ?Sbu, ?Sbb; reflexivity. }
  destruct (tinv_take _ _ _ _ _ _ I1) as (f' & G' & A1 & A2 & A3 & A4 & A5).
  set (r := mkhrec next (acts_for cc sc tp st1 next)).
  assert (I3 : tinv (H ++ [r]) st3 (se_time next) f' G' noex).
  { unfold r. rewrite Hacts.
    apply (tinv_append_x H st1 (se_time next) f G1 next acts st3 f' G' I1 eq_refl A1 A2 A3 A4 A5); rewrite ?HX.
    - unfold slotsX, st3. destruct X; reflexivity.
    - unfold slotsX, st3. destruct X; cbn [m_c m_s]; exact L1.
    - unfold slotsX, st3. destruct X; cbn [m_c m_s]; exact S1.
    - exact Hcq. }
  set (H' := H ++ [r]) in *.
  assert (Hlen' : length H' = S (length H)).
  { unfold H'. rewrite app_length. cbn [length]. lia. }
  assert (Hlast : nth_error H' (length H) = Some r) by apply nth_snoc_last.
  (* stability of the replay and of the causes *)
  assert (Hflt : forall i ri, (i < length H)%nat -> nth_error H i = Some ri -> is_complb (h_ev ri) = true ->
            (f i < length H)%nat).
  { intros i ri Li Hi Hc. pose proof (cause_lt _ _ _ _ (ti_fcause _ _ _ _ _ _ I1 i ri Hi Hc)). lia. }
  assert (Hrep : forall Y k, (k <= length H)%nat -> replayX Y f' H' k = replayX Y f H k).
  { intros Y k Lk. unfold replayX, H'. apply replayG_snoc; [exact Lk|intros i Hi; apply A1; lia|].
    intros i ri Hi. apply Hflt. lia. }
  assert (HjG1 : forall Y x j, In (x, j) (G1 Y) -> (j < length H)%nat).
  { intros Y x j Hin. destruct (ti_qcause _ _ _ _ _ _ I1 Y x j Hin) as (_ & C & _). exact (cause_lt _ _ _ _ C). }
  (* a queued completion is due now *)
  assert (HtG1 : forall Y x j, In (x, j) (G1 Y) -> se_time x = se_time next).
  { intros Y x j Hin. destruct (ti_qcause _ _ _ _ _ _ I1 Y x j Hin) as (_ & _ & Lx).
    pose proof (ti_qperm _ _ _ _ _ _ I1 Y) as P.
    assert (Hx : In x (ex_of next Y ++ cqs st1 Y)).
    { apply (Permutation_in _ P). apply in_map_iff. exists (x, j). auto. }
    apply in_app_or in Hx. destruct Hx as [Hx|Hx].
    - unfold ex_of in Hx. destruct (_ && _); [|destruct Hx]. destruct Hx as [<-|[]]. reflexivity.
    - pose proof (Hq1 Y x Hx). lia. }
  (* the ghosts after the bookkeeping of the returned event *)
  assert (HGnc : is_complb next = false -> forall Y, G' Y = G1 Y).
  { intros Hc Y.
    assert (Len : length (G' Y) = length (G1 Y)).
    { pose proof (Permutation_length (A4 Y)) as L4.
      pose proof (Permutation_length (ti_qperm _ _ _ _ _ _ I1 Y)) as L5.
      rewrite (ex_of_other _ _ Hc) in L5. cbn [app] in L5. rewrite map_length in L4, L5. lia. }
    destruct E1 as [H1 H2 _|Z z jz H1 H2 _ _].
    - rewrite (G_empty _ H1 H2 Y) in *. destruct (G' Y); [reflexivity|discriminate].
    - destruct (negb_cases Z Y) as [->| ->].
      + rewrite H1 in *. apply sub_single; [|exact Len].
        intros p Hp. destruct p as [xp jp]. apply A2 in Hp. rewrite H1 in Hp. destruct Hp as [<-|[]]. reflexivity.
      + rewrite H2 in *. destruct (G' (negb Z)); [reflexivity|discriminate]. }
  assert (HGc : is_complb next = true ->
            G1 X = [(next, f' (length H))] /\ G1 (negb X) = [] /\ (forall Y, G' Y = [])).
  { intros Hc. destruct (A5 Hc) as [Hin Hfr]. rewrite HX in Hin, Hfr.
    destruct E1 as [H1 H2 _|Z z jz H1 H2 _ _].
    - rewrite (G_empty _ H1 H2 X) in Hin. destruct Hin.
    - destruct (negb_cases Z X) as [EZ|EZ]; [|rewrite EZ, H2 in Hin; destruct Hin].
      subst Z. rewrite H1 in Hin. destruct Hin as [Eq|[]]. injection Eq as -> ->.
      split; [exact H1|]. split; [exact H2|].
      intros Y. apply sub_nil. intros [xp jp] Hp.
      destruct (negb_cases X Y) as [->| ->].
      + pose proof (A2 _ _ _ Hp) as Hp1. rewrite H1 in Hp1. destruct Hp1 as [Eq|[]]. injection Eq as <- <-.
        apply (Hfr _ _ Hp); reflexivity.
      + apply A2 in Hp. rewrite H2 in Hp. destruct Hp. }
  (* the replay after the new record, when it is not a completion *)
  assert (HRnc : is_complb next = false -> forall Y, Rf H' f' Y = Rp H f next Y).
  { intros Hc Y. unfold Rf, Rp. rewrite Hlen'.
    unfold replayX. rewrite (replayG_S _ _ _ _ _ _ Hlast). fold replayX. rewrite Hrep by lia.
    apply rstep_Rp. exact Hc. }
  exists f', G'. constructor.
  { constructor.
    - exact Hinv3.
    - apply Hh3. apply Hh2. exact Hh1.
    - intros Y x Hx. apply (Permutation_in _ (Hcq Y)) in Hx. apply (Hq1 Y x Hx).
    - exact I3.
    - apply huniq_snoc. exact HU.
    - (* the exact invariant *)
      destruct (is_complb next) eqn:Hc.
      + (* a completion is reported: the replay catches up *)
        destruct (HGc eq_refl) as (G1X & G1N & Gnil).
        pose proof (complb_not_bend _ Hc) as Hne.
        apply einv0; [apply Gnil|apply Gnil|]. intros Y. unfold Rf. rewrite Hlen'.
        unfold replayX. rewrite (replayG_S _ _ _ _ _ _ Hlast). fold replayX. rewrite Hrep by lia.
        rewrite (Hd3 Y).
        destruct E1 as [H1 H2 _|Z z jz H1 H2 H3 H4]; [rewrite (G_empty _ H1 H2 X) in G1X; discriminate|].
        assert (Z = X) as ->.
        { destruct (negb_cases Z X) as [EZ|EZ]; [symmetry; exact EZ|]. rewrite EZ, H2 in G1X. discriminate. }
        rewrite H1 in G1X. injection G1X as -> ->.
        destruct (negb_cases X Y) as [->| ->].
        * destruct H4 as [[B Ex]|[B [(a & B1 & B2 & B3)|[M _]]]]; [| |discriminate].
          -- destruct (compl_not_begin_ev _ Hc B) as (m & Hev).
             unfold rstep. cbn [r h_ev]. rewrite HX, Bool.eqb_reflx, Hev. rewrite Ex. apply Rp_not_end. exact Hne.
          -- destruct (beginb_ev _ B) as (m & Hev & Hm).
             unfold rstep. cbn [r h_ev]. rewrite HX, Bool.eqb_reflx, Hev.
             rewrite <- Hm. unfold H'. rewrite act_of_snoc by (apply (HjG1 X next); rewrite H1; left; reflexivity).
             rewrite B1, B2. rewrite (Rp_not_end _ _ _ Hne). reflexivity.
        * rewrite rstep_other_side by (cbn [r h_ev]; rewrite HX; destruct X; discriminate).
          rewrite H3. apply Rp_not_end. exact Hne.
      + (* no completion is reported *)
        apply (einvR_transfer (Rp H f next) _ H r st1 st3 G1 G'); [|apply HGnc; reflexivity|exact Hd3|exact HjG1|exact E1].
        intros Y. unfold Rf, Rp. rewrite Hlen'.
        unfold replayX. rewrite (replayG_S _ _ _ _ _ _ Hlast). fold replayX. rewrite Hrep by lia.
        apply rstep_Rp. exact Hc.
    - (* the history property *)
      intros k rk Hk Hts.
      apply nth_snoc_inv in Hk. destruct Hk as [[Lk Hk]|[-> ->]].
      + (* an earlier release *)
        destruct (BY k rk Hk Hts) as [J|[C3|C4]].
        * left. rewrite Hrep by lia. exact J.
        * right. left. destruct C3 as (j & rj & m & Lkj & Hj & Hev & Hside & Htime & Hbetw & (a & Ha & Hrs) & J).
          assert (Lj : (j < length H)%nat) by (apply nth_error_Some; congruence).
          exists j, rj, m. split; [exact Lkj|]. split; [apply nth_snoc_lt; exact Hj|].
          split; [exact Hev|]. split; [exact Hside|]. split; [exact Htime|]. split; [|split].
          -- intros i ri Hi Hni. apply nth_snoc_inv in Hni. destruct Hni as [[_ Hni]|[-> _]]; [|lia].
             apply (Hbetw i ri Hi Hni).
          -- exists a. rewrite (A1 j Lj). unfold H'. rewrite act_of_snoc; [|apply (Hflt j rj Lj Hj); apply begin_compl in Hev; tauto].
             split; [exact Ha|]. fold H'. rewrite !Hrep by lia. exact Hrs.
          -- rewrite Hrep by lia. exact J.
        * destruct C4 as (x & j & a & HGX & Hb & Ha & Htx & Hlater & J).
          set (Xk := se_client (h_ev rk)) in *.
          (* the pending BlockingBegin is the only ghost, before and after pick_next *)
          assert (HinG : In (x, j) (G Xk)) by (rewrite HGX; left; reflexivity).
          pose proof (Gm _ _ HinG) as HinG1.
          assert (HG1 : G1 Xk = [(x, j)] /\ G1 (negb Xk) = []).
          { destruct E1 as [H1 H2 _|Z z jz H1 H2 _ _]; [rewrite (G_empty _ H1 H2 Xk) in HinG1; destruct HinG1|].
            destruct (negb_cases Z Xk) as [EZ|EZ]; [|rewrite EZ, H2 in HinG1; destruct HinG1].
            subst Z. rewrite H1 in HinG1. destruct HinG1 as [Eq|[]]. injection Eq as -> ->. auto. }
          destruct HG1 as [HG1a HG1b].
          assert (Hpn : pnormal (Rf H f) H st Xk x j).
          { destruct E as [H1 H2 _|Z z jz H1 H2 _ H4]; [rewrite (G_empty _ H1 H2 Xk) in HinG; destruct HinG|].
            destruct (negb_cases Z Xk) as [EZ|EZ]; [|rewrite EZ, H2 in HinG; destruct HinG].
            subst Z. rewrite H1 in HGX. injection HGX as -> ->.
            destruct H4 as [[B _]|[_ [P|[M _]]]]; [congruence|exact P|discriminate]. }
          pose proof (Hnoend Xk x j HGX Hb Hpn) as Hnb.
          pose proof (HtG1 Xk x j HinG1) as Htn.
          pose proof (HjG1 Xk x j HinG1) as Ljx.
          destruct (is_complb next) eqn:Hc.
          -- (* the pending BlockingBegin is reported now: clause (3) *)
             destruct (HGc eq_refl) as (G1X & G1N & Gnil).
             assert (Xk = X) as EX.
             { destruct (negb_cases X Xk) as [EZ|EZ]; [exact EZ|]. rewrite EZ, G1N in HinG1. destruct HinG1. }
             rewrite EX in *. rewrite G1X in HG1a. injection HG1a as Ex Ej. subst x.
             destruct (beginb_ev _ Hb) as (m & Hev & Hm).
             right. left. exists (length H), r, m.
             split; [exact Lk|]. split; [exact Hlast|]. split; [exact Hev|]. split; [exact HX|].
             split; [cbn [r h_ev]; congruence|]. split; [|].
             { intros i ri Hi Hni Hsi. apply nth_snoc_inv in Hni. destruct Hni as [[_ Hni]|[-> _]]; [|lia].
               destruct (Hlater i ri) as [_ Hl2]; [lia|exact Hni|]. apply (Hl2 Hsi). }
             assert (Hconst : replayX X f H (length H) = replayX X f H k).
             { unfold replayX. apply replayG_const; [lia|]. intros i ri Hi Hni Hsi.
               destruct (Nat.eq_dec i k) as [->|Hik].
               - rewrite Hk in Hni. injection Hni as <-. unfold is_complb. rewrite Hts. split; [reflexivity|discriminate].
               - destruct (Hlater i ri) as [_ Hl2]; [lia|exact Hni|]. apply (Hl2 Hsi). }
             assert (Hstep : replayX X f' H' (S (length H)) = replay_begin_r (replayX X f' H' k) (se_time (h_ev rk)) a).
             { unfold replayX at 1. rewrite (replayG_S _ _ _ _ _ _ Hlast). fold replayX. rewrite !Hrep by lia.
               unfold rstep. cbn [r h_ev]. rewrite HX, Bool.eqb_reflx, Hev.
               rewrite Ej. unfold H'. rewrite act_of_snoc by exact Ljx. rewrite <- Hm, Ha, Hconst. congruence. }
             split.
             ++ exists a. split; [|exact Hstep].
                rewrite Ej. unfold H'. rewrite act_of_snoc by exact Ljx. rewrite <- Hm. exact Ha.
             ++ rewrite Hstep, Hrep by lia. rewrite <- Htx. exact J.
          -- (* it stays pending *)
             right. right. exists x, j, a.
             split; [rewrite HGnc by reflexivity; exact HG1a|]. split; [exact Hb|].
             split; [unfold H'; rewrite act_of_snoc by exact Ljx; exact Ha|]. split; [exact Htx|]. split.
             ++ intros i ri Hi Hni. apply nth_snoc_inv in Hni. destruct Hni as [[_ Hni]|[-> ->]]; [apply (Hlater i ri Hi Hni)|].
                cbn [r h_ev]. split; [congruence|]. intros Hsn. split; [exact Hc|].
                intros Hend. apply Hnb. split; assumption.
             ++ rewrite Hrep by lia. exact J.
      + (* the release being recorded *)
        cbn [r h_ev] in Hts |- *. rewrite HX.
        assert (Hc : is_complb next = false) by (unfold is_complb; rewrite Hts; reflexivity).
        assert (Hne : se_ev next <> TEBlockingEnd) by (rewrite Hts; discriminate).
        pose proof (SimBlocking.pick_next_no_leak _ _ _ _ _ (proj1 Hinv) Ep Hts) as NL. cbv zeta in NL.
        rewrite HX in NL. apply judged_of_leak in NL. fold (dsim st1 X) in NL.
        destruct E1 as [H1 H2 H3|Z z jz H1 H2 H3 H4].
        * left. rewrite Hrep by lia. rewrite H3, (Rp_not_end _ _ _ Hne) in NL. exact NL.
        * destruct (negb_cases Z X) as [EZ|EZ].
          -- subst Z. destruct H4 as [[B Ex]|[B [(a & B1 & B2 & B3)|[M _]]]]; [| |discriminate].
             ++ left. rewrite Hrep by lia. rewrite Ex, (Rp_not_end _ _ _ Hne) in NL. exact NL.
             ++ right. right. exists z, jz, a.
                assert (Hin : In (z, jz) (G1 X)) by (rewrite H1; left; reflexivity).
                split; [rewrite HGnc by exact Hc; exact H1|]. split; [exact B|].
                split; [unfold H'; rewrite act_of_snoc by (apply (HjG1 X z jz Hin)); exact B1|].
                split; [apply (HtG1 X z jz Hin)|]. split.
                ** intros i ri Hi Hni. apply nth_snoc_inv in Hni. destruct Hni as [[Li _]|[-> _]]; lia.
                ** rewrite Hrep by lia. rewrite B2, (Rp_not_end _ _ _ Hne) in NL. exact NL.
          -- left. rewrite Hrep by lia. rewrite <- EZ in H3. rewrite H3, (Rp_not_end _ _ _ Hne) in NL. exact NL.
  }
  { (* no side blocks until before now *)
    eapply live_same_d; [exact Hd3|exact LV1]. }
  { (* a pending begin fired before the expiry the reports show *)
    intros Y y jy u fl HGY Hby HR.
    destruct (is_complb next) eqn:Hc.
    - destruct (HGc eq_refl) as (_ & _ & Gnil). rewrite Gnil in HGY. discriminate.
    - rewrite (HGnc eq_refl) in HGY. rewrite (HRnc eq_refl) in HR. unfold Rp in HR.
      destruct (is_bendb Y next); [discriminate|]. apply (PL1 Y y jy u fl HGY Hby HR). }
  { (* (E1) *)
    intros j rj Hj Hend.
    apply nth_snoc_inv in Hj. destruct Hj as [[Lj Hj]|[-> ->]].
    - destruct (Q1 j rj Hj Hend) as [(u & fl & HR & Hu)|[Hearly C]].
      + left. exists u, fl. rewrite Hrep by lia. auto.
      + right. split; [intros u fl HR; rewrite Hrep in HR by lia; apply (Hearly u fl HR)|].
        set (Xj := se_client (h_ev rj)) in *.
        destruct C as [(j' & rj' & m & a & Ljj & Hj' & Hev & Hside & Htime & Hbetw & Ha & Hz & HN)
                      |(x & jx & a & HGX & Hb & Ha & Hz & Htx & Hlater)].
        * left. assert (Lj' : (j' < length H)%nat) by (apply nth_error_Some; congruence).
          exists j', rj', m, a. split; [exact Ljj|]. split; [apply nth_snoc_lt; exact Hj'|].
          split; [exact Hev|]. split; [exact Hside|]. split; [exact Htime|]. split; [|split; [|split; [exact Hz|]]].
          -- intros i ri Hi Hni. apply nth_snoc_inv in Hni. destruct Hni as [[_ Hni]|[-> _]]; [|lia].
             apply (Hbetw i ri Hi Hni).
          -- rewrite (A1 j' Lj'). unfold H'. rewrite act_of_snoc; [exact Ha|].
             apply (Hflt j' rj' Lj' Hj'). apply begin_compl in Hev. tauto.
          -- rewrite Hrep by lia. exact HN.
        * assert (HinG : In (x, jx) (G Xj)) by (rewrite HGX; left; reflexivity).
          pose proof (Gm _ _ HinG) as HinG1.
          assert (HG1 : G1 Xj = [(x, jx)] /\ G1 (negb Xj) = []).
          { destruct E1 as [H1 H2 _|Z z jz H1 H2 _ _]; [rewrite (G_empty _ H1 H2 Xj) in HinG1; destruct HinG1|].
            destruct (negb_cases Z Xj) as [EZ|EZ]; [|rewrite EZ, H2 in HinG1; destruct HinG1].
            subst Z. rewrite H1 in HinG1. destruct HinG1 as [Eq|[]]. injection Eq as -> ->. auto. }
          destruct HG1 as [HG1a HG1b].
          pose proof (HtG1 Xj x jx HinG1) as Htn.
          pose proof (HjG1 Xj x jx HinG1) as Ljx.
          destruct (is_complb next) eqn:Hc.
          -- (* the queued BlockingBegin is reported now *)
             destruct (HGc eq_refl) as (G1X & G1N & Gnil).
             assert (Xj = X) as EX.
             { destruct (negb_cases X Xj) as [EZ|EZ]; [exact EZ|]. rewrite EZ, G1N in HinG1. destruct HinG1. }
             rewrite EX in *. rewrite G1X in HG1a. injection HG1a as Ex Ej. subst x.
             destruct (beginb_ev _ Hb) as (m & Hev & Hm).
             assert (Hact : act_of H' (f' (length H)) m = Some a).
             { rewrite Ej. unfold H'. rewrite act_of_snoc by exact Ljx. rewrite <- Hm. exact Ha. }
             left. exists (length H), r, m, a.
             split; [exact Lj|]. split; [exact Hlast|]. split; [exact Hev|]. split; [exact HX|].
             split; [cbn [r h_ev]; congruence|]. split; [|split; [exact Hact|split; [exact Hz|]]].
             ++ intros i ri Hi Hni Hsi. apply nth_snoc_inv in Hni. destruct Hni as [[_ Hni]|[-> _]]; [|lia].
                destruct (Hlater i ri) as [_ Hl2]; [lia|exact Hni|]. apply (Hl2 Hsi).
             ++ unfold replayX. rewrite (replayG_S _ _ _ _ _ _ Hlast).
                unfold rstep. cbn [r h_ev]. rewrite HX, Bool.eqb_reflx, Hev, Hact.
                unfold replay_begin_r. rewrite Hz. reflexivity.
          -- (* it stays queued *)
             right. exists x, jx, a.
             split; [rewrite HGnc by reflexivity; exact HG1a|]. split; [exact Hb|].
             split; [unfold H'; rewrite act_of_snoc by exact Ljx; exact Ha|]. split; [exact Hz|]. split; [exact Htx|].
             intros i ri Hi Hni. apply nth_snoc_inv in Hni. destruct Hni as [[_ Hni]|[-> ->]]; [apply (Hlater i ri Hi Hni)|].
             cbn [r h_ev]. split; [congruence|]. intros _. exact Hc.
    - (* the end being recorded *)
      cbn [r h_ev] in Hend |- *. rewrite HX.
      assert (Hc : is_complb next = false) by (apply bend_not_compl; exact Hend).
      destruct (EF X (conj Hend HX)) as [(u & fl & HR & Hu)|(x & jx & a & HG1X & Hb & Ha & Hz & Htx & Hearly)].
      + left. exists u, fl. rewrite Hrep by lia. auto.
      + right. split; [intros u fl HR; rewrite Hrep in HR by lia; apply (Hearly u fl HR)|].
        right. exists x, jx, a.
        assert (Hin : In (x, jx) (G1 X)) by (rewrite HG1X; left; reflexivity).
        split; [rewrite HGnc by exact Hc; exact HG1X|]. split; [exact Hb|].
        split; [unfold H'; rewrite act_of_snoc by (apply (HjG1 X x jx Hin)); exact Ha|].
        split; [exact Hz|]. split; [exact Htx|].
        intros i ri Hi Hni. apply nth_snoc_inv in Hni. destruct Hni as [[Li _]|[-> _]]; lia. }
  { (* (E2) *)
    intros Y k rk u fl Hk HR.
    apply nth_snoc_inv in Hk. destruct Hk as [[Lk Hk]|[-> ->]].
    - rewrite Hrep in HR by lia. apply (Q2 Y k rk u fl Hk HR).
    - rewrite Hrep in HR by lia. cbn [r h_ev]. fold (Rf H f Y) in HR.
      destruct (is_bendb Y next) eqn:Eb.
      + apply is_bendb_spec in Eb.
        destruct (EF Y Eb) as [(u' & fl' & HR' & Hu')|(x & jx & a & _ & _ & _ & _ & _ & Hearly)].
        * rewrite HR in HR'. injection HR' as <- _. lia.
        * specialize (Hearly u fl HR). lia.
      + assert (HRp : Rp H f next Y = Some (u, fl)) by (unfold Rp; rewrite Eb; exact HR).
        destruct E1 as [H1 H2 H3|Z z jz H1 H2 H3 H4].
        * apply (LV1 Y u fl). rewrite H3. exact HRp.
        * destruct (negb_cases Z Y) as [EZ|EZ].
          -- subst Y. destruct H4 as [[B Ex]|[B [(a & B1 & B2 & B3)|[M _]]]]; [| |discriminate].
             ++ apply (LV1 Z u fl). rewrite Ex. exact HRp.
             ++ assert (Hin : In (z, jz) (G1 Z)) by (rewrite H1; left; reflexivity).
                pose proof (PL1 Z z jz u fl H1 B HR) as L. rewrite (HtG1 Z z jz Hin) in L. lia.
          -- apply (LV1 Y u fl). rewrite EZ, H3, <- EZ. exact HRp. }
Qed.

(** THE ZERO-DURATION-REPLACE CORNER for the BlockingEnd at [j] of side [X]: the end is reported
    strictly before the expiry the replay shows (if it shows one), and the BlockingBegin caused by a
    zero-duration replacing BlockOutgoing follows in the same instant (no completion of side [X] in
    between; after it the replay says "not blocking") -- or the run was cut within the instant *)
Definition zero_replace_corner (X : bool) (f : nat -> nat) (H : list hrec) (j : nat) (rj : hrec) : Prop :=
  early X f H j rj /\ (e1c3 X f H j rj \/ e1c4 X H j rj).

(** what the invariant says about a finished history *)
Definition endE1 (H : list hrec) (f : nat -> nat) : Prop :=
  forall j rj, nth_error H j = Some rj -> se_ev (h_ev rj) = TEBlockingEnd ->
    (exists u fl, replayX (se_client (h_ev rj)) f H j = Some (u, fl) /\ se_time (h_ev rj) = u) \/
    zero_replace_corner (se_client (h_ev rj)) f H j rj.

Definition finF (H : list hrec) (f : nat -> nat) : Prop := finE H f /\ endE1 H f /\ hpE2 H f.

Lemma linvF_fin : forall H st t f G, linvF H st t f G -> finF H f.
Proof.
  intros H st t f G [L _ _ Q1 Q2]. split; [eapply linvE_fin; exact L|]. split; [|exact Q2].
  intros j rj Hj Hend. destruct (Q1 j rj Hj Hend) as [C|[Hearly [C|C]]].
  - left. exact C.
  - right. split; [exact Hearly|left; exact C].
  - right. split; [exact Hearly|right]. destruct C as (x & jx & a & _ & _ & _ & _ & _ & C). exact C.
Qed.

Theorem loop_finF : forall fuel cc sc tp args st t hist iters Hout,
  sim_loop_h fuel cc sc tp args st t hist iters = Ok Hout ->
  forall f G, linvF (rev hist) st t f G -> exists f', finF Hout f'.
Proof.
  induction fuel as [|fuel IH]; intros cc sc tp args st t hist iters Hout H f G L; [discriminate|].
  cbn [sim_loop_h] in H.
  destruct (pick_next (pn_fuel st) st t) as [[nx st1]|k|] eqn:Ep; cbn [bind] in H; try discriminate.
  destruct nx as [next|]; [|injection H as <-; exists f; eapply linvF_fin; exact L].
  destruct (se_time next <? t)%Z; [discriminate|].
  destruct (sim_network_stack next (m_sq st1) _ (m_net st1) (se_time next)) as [[[sq2 net2] act]|k|] eqn:En;
    cbn [bind] in H; try discriminate.
  assert (Hu : exists c3' s3 sq3 pos3,
             (let st3 := mksim sq3 c3' s3 net2 pos3 in
              exists f' G', linvF (rev hist ++ [mkhrec next (acts_for cc sc tp st1 next)]) st3 (se_time next) f' G') /\
             (let st3 := mksim sq3 c3' s3 net2 pos3 in
              let hist' := mkhrec next (acts_for cc sc tp st1 next) :: hist in
              (if (0 <? a_max_trace args) && (a_max_trace args <=? N.of_nat (length hist')) then Ok (rev hist')
               else
                 let iters' := iters + 1 in
                 if (0 <? a_max_iter args) && (a_max_iter args <=? iters') then Ok (rev hist')
                 else if negb (a_continue args) && sq_no_normal sq3 then Ok (rev hist')
                 else sim_loop_h fuel cc sc tp args st3 (se_time next) hist' iters') = Ok Hout)).
  { destruct (se_client next) eqn:Ec.
    - destruct (trigger_update cc tp (m_c st1) (m_pos st1) next (se_time next) sq2 true) as [[[c' sq'] p']|k|] eqn:Et;
        cbn [bind] in H; try discriminate.
      exists c', (m_s st1), sq', p'. split; [|exact H].
      apply (iter_linvF cc sc tp st t next st1 sq2 net2 act true c' sq' p' (rev hist) f G L Ep); auto.
      rewrite Ec. exact En.
    - destruct (trigger_update sc tp (m_s st1) (m_pos st1) next (se_time next) sq2 false) as [[[s' sq'] p']|k|] eqn:Et;
        cbn [bind] in H; try discriminate.
      exists (m_c st1), s', sq', p'. split; [|exact H].
      apply (iter_linvF cc sc tp st t next st1 sq2 net2 act false s' sq' p' (rev hist) f G L Ep); auto.
      rewrite Ec. exact En. }
  clear H. destruct Hu as (c3' & s3 & sq3 & pos3 & (f' & G' & L3) & H). cbv zeta in H.
  assert (Hfin : exists f'', finF (rev (mkhrec next (acts_for cc sc tp st1 next) :: hist)) f'').
  { exists f'. cbn [rev]. eapply linvF_fin. exact L3. }
  destruct (_ && _) in H; [injection H as <-; exact Hfin|].
  destruct (_ && _) in H; [injection H as <-; exact Hfin|].
  destruct (_ && _) in H; [injection H as <-; exact Hfin|].
  eapply (IH _ _ _ _ _ _ _ _ _ H f' G'). exact L3.
Qed.

Lemma init_linvF : forall cc sc tp sq delay pps st0 t0,
  sim_init cc sc tp sq delay pps st0 t0 -> SimBlocking.sq_inv sq -> sq_start sq ->
  linvF [] st0 t0 (fun _ => 0%nat) (fun _ => []).
Proof.
  intros cc sc tp sq delay pps st0 t0 Hi Hinv Hs. constructor.
  - exact (init_linvE _ _ _ _ _ _ _ _ Hi Hinv Hs).
  - destruct Hi as (cfw & sfw & net & _ & _ & _ & _ & ->). intros [|] u fl Hd; discriminate Hd.
  - intros X x j u fl HG. discriminate HG.
  - intros j rj Hj. destruct j; discriminate.
  - intros X k rk u fl Hk. destruct k; discriminate.
Qed.

(** * 4. The theorems *)

(** a replay that says "blocking" has seen a BlockingBegin of the side since its last BlockingEnd *)
Lemma replay_some_begin : forall {D} (rb : option D -> Z -> taction -> option D) X f H k d,
  replayG rb X f H k = Some d ->
  exists i ri m, (i < k)%nat /\ nth_error H i = Some ri /\ se_ev (h_ev ri) = TEBlockingBegin m /\
    se_client (h_ev ri) = X /\
    forall i' ri', (i < i' < k)%nat -> nth_error H i' = Some ri' -> ~ is_bend X (h_ev ri').
Proof.
  intros D rb X f H. induction k as [|k IH]; intros d E; [discriminate|].
  cbn [replayG] in E.
  assert (Hold : forall d0, replayG rb X f H k = Some d0 ->
            (forall rk, nth_error H k = Some rk -> ~ is_bend X (h_ev rk)) ->
            exists i ri m, (i < S k)%nat /\ nth_error H i = Some ri /\ se_ev (h_ev ri) = TEBlockingBegin m /\
              se_client (h_ev ri) = X /\
              forall i' ri', (i < i' < S k)%nat -> nth_error H i' = Some ri' -> ~ is_bend X (h_ev ri')).
  { intros d0 E0 Hnb. destruct (IH d0 E0) as (i & ri & m & Li & Hi & Hev & Hs & Hno).
    exists i, ri, m. split; [lia|]. repeat (split; [assumption|]).
    intros i' ri' Hi' Hni'. destruct (Nat.eq_dec i' k) as [->|Hne]; [apply Hnb; exact Hni'|].
    apply (Hno i' ri'); [lia|exact Hni']. }
  destruct (nth_error H k) as [rk|] eqn:Ek; [|apply (Hold d E); intros rk Hk; discriminate].
  destruct (Bool.bool_dec (se_client (h_ev rk)) X) as [EX|EX].
  - unfold rstep in E. rewrite EX, Bool.eqb_reflx in E.
    destruct (se_ev (h_ev rk)) eqn:Eev;
      try (apply (Hold d E); intros rk' Hk' [Hb _]; injection Hk' as <-; congruence); [|discriminate].
    exists k, rk, m. split; [lia|]. repeat (split; [assumption|]). intros i' ri' Hi'. lia.
  - rewrite rstep_other_side in E by exact EX. apply (Hold d E).
    intros rk' Hk' [_ Hs]. injection Hk' as <-. contradiction.
Qed.

Section Run.
  Variables (fuel : nat) (cc sc : cfg) (tp : tape) (args : simargs) (st0 : sim) (t0 : Z) (H : list hrec).
  Variables (sq : simq) (delay : N) (pps : option N).
  Hypothesis Hinit : sim_init cc sc tp sq delay pps st0 t0.
  Hypothesis Hinv : SimBlocking.sq_inv sq.          (* every parsed trace: SimBlocking.parse_trace_inv *)
  Hypothesis Hstart : sq_start sq.                   (* every parsed trace: parse_trace_start *)
  Hypothesis Hrun : sim_loop_h fuel cc sc tp args st0 t0 [] 0 = Ok H.

  Lemma run_finF : exists f, finF H f.
  Proof.
    eapply (loop_finF _ _ _ _ _ _ _ _ _ _ Hrun). cbn [rev].
    exact (init_linvF _ _ _ _ _ _ _ _ Hinit Hinv Hstart).
  Qed.

  (** for the instrumented loop from any initial queue satisfying [sq_inv] and [sq_start]: ONE cause
      assignment [f] (sound, injective) for the release theorem of SimBypassAll.v and for (E1)-(E4) *)
  Theorem blocking_end_run : exists f : nat -> nat,
    (forall k rk m, nth_error H k = Some rk ->
       (se_ev (h_ev rk) = TEPaddingSent m \/ se_ev (h_ev rk) = TEBlockingBegin m) ->
       caused_by H k rk m (f k)) /\
    (forall k1 k2 rk1 rk2 m, k1 <> k2 -> nth_error H k1 = Some rk1 -> nth_error H k2 = Some rk2 ->
       (se_ev (h_ev rk1) = TEPaddingSent m \/ se_ev (h_ev rk1) = TEBlockingBegin m) ->
       (se_ev (h_ev rk2) = TEPaddingSent m \/ se_ev (h_ev rk2) = TEBlockingBegin m) ->
       f k1 <> f k2) /\
    (* the releases, as in SimBypassAll.bypass_all_replay_run *)
    (forall k rk, nth_error H k = Some rk -> se_ev (h_ev rk) = TETunnelSent ->
       claim_full replay_begin_r f H k rk) /\
    (* (E1) *)
    (forall j rj, nth_error H j = Some rj -> se_ev (h_ev rj) = TEBlockingEnd ->
       (exists u fl, replayX (se_client (h_ev rj)) f H j = Some (u, fl) /\ se_time (h_ev rj) = u) \/
       zero_replace_corner (se_client (h_ev rj)) f H j rj) /\
    (* (E2) *)
    (forall X k rk u fl, nth_error H k = Some rk -> replayX X f H k = Some (u, fl) ->
       (se_time (h_ev rk) <= u)%Z) /\
    (* (E3) *)
    (forall j1 j2 r1 r2, (j1 < j2)%nat -> nth_error H j1 = Some r1 -> nth_error H j2 = Some r2 ->
       se_ev (h_ev r1) = TEBlockingEnd -> se_ev (h_ev r2) = TEBlockingEnd ->
       se_client (h_ev r1) = se_client (h_ev r2) ->
       (exists i ri m, (j1 < i < j2)%nat /\ nth_error H i = Some ri /\ se_ev (h_ev ri) = TEBlockingBegin m /\
          se_client (h_ev ri) = se_client (h_ev r2)) \/
       zero_replace_corner (se_client (h_ev r2)) f H j2 r2) /\
    (* (E4) *)
    (forall j rj, nth_error H j = Some rj -> se_ev (h_ev rj) = TEBlockingEnd ->
       (exists i ri m, (i < j)%nat /\ nth_error H i = Some ri /\ se_ev (h_ev ri) = TEBlockingBegin m /\
          se_client (h_ev ri) = se_client (h_ev rj) /\
          forall i' ri', (i < i' < j)%nat -> nth_error H i' = Some ri' ->
            ~ (se_ev (h_ev ri') = TEBlockingEnd /\ se_client (h_ev ri') = se_client (h_ev rj))) \/
       zero_replace_corner (se_client (h_ev rj)) f H j rj).
  Proof.
    destruct run_finF as (f & ((F1 & F2) & CL) & E1 & E2). exists f.
    assert (E4 : forall j rj, nth_error H j = Some rj -> se_ev (h_ev rj) = TEBlockingEnd ->
       (exists i ri m, (i < j)%nat /\ nth_error H i = Some ri /\ se_ev (h_ev ri) = TEBlockingBegin m /\
          se_client (h_ev ri) = se_client (h_ev rj) /\
          forall i' ri', (i < i' < j)%nat -> nth_error H i' = Some ri' ->
            ~ (se_ev (h_ev ri') = TEBlockingEnd /\ se_client (h_ev ri') = se_client (h_ev rj))) \/
       zero_replace_corner (se_client (h_ev rj)) f H j rj).
    { intros j rj Hj Hend. destruct (E1 j rj Hj Hend) as [(u & fl & HR & _)|C]; [left|right; exact C].
      exact (replay_some_begin _ _ _ _ _ _ HR). }
    split; [|split; [|split; [exact CL|split; [exact E1|split; [exact E2|split; [|exact E4]]]]]].
    - intros k rk m Hk Hev. destruct (compl_of_ev _ _ Hev) as [Hc Hm].
      exact (cause_caused_by _ _ _ _ _ (F1 k rk Hk Hc) Hm).
    - intros k1 k2 rk1 rk2 m Hne Hk1 Hk2 Hev1 Hev2 E.
      destruct (compl_of_ev _ _ Hev1) as [Hc1 Hm1]. destruct (compl_of_ev _ _ Hev2) as [Hc2 Hm2].
      destruct (F1 k1 rk1 Hk1 Hc1) as (rj1 & a1 & _ & N1 & S1 & _).
      destruct (F1 k2 rk2 Hk2 Hc2) as (rj2 & a2 & _ & N2 & S2 & _).
      rewrite E in N1. rewrite N1 in N2. injection N2 as <-.
      apply (F2 k1 k2 rk1 rk2 Hne Hk1 Hk2 Hc1 Hc2); [unfold sdr; congruence|congruence|exact E].
    - intros j1 j2 r1 r2 L Hj1 Hj2 He1 He2 Hs.
      destruct (E4 j2 r2 Hj2 He2) as [(i & ri & m & Li & Hi & Hev & Hsi & Hno)|C]; [left|right; exact C].
      exists i, ri, m. split; [|auto].
      destruct (Nat.lt_trichotomy i j1) as [Lt|[Eq|Gt]]; [|subst i; congruence|lia].
      exfalso. apply (Hno j1 r1); [lia|exact Hj1|]. split; assumption.
  Qed.
End Run.

(** ** For the runs of [sim_advanced] on parsed traces (all events recorded) *)
Theorem blocking_end_trace : forall fuel cc sc tp tr delay pps args out,
  SimHistory.full_args args ->
  sim_advanced fuel cc sc tp (parse_trace tr delay) delay pps args = Ok out ->
  exists H : list SimHistory.hrec, out = map SimHistory.h_ev H /\
  exists f : nat -> nat,
    (forall k rk m, nth_error H k = Some rk ->
       (se_ev (h_ev rk) = TEPaddingSent m \/ se_ev (h_ev rk) = TEBlockingBegin m) ->
       SimActionTrace.caused_by H k rk m (f k)) /\
    (* (E1) a BlockingEnd is reported exactly at the expiry the replay computes, or it is the
       zero-duration-replace corner *)
    (forall j rj, nth_error H j = Some rj -> se_ev (h_ev rj) = TEBlockingEnd ->
       (exists u fl, replayX (se_client (h_ev rj)) f H j = Some (u, fl) /\ se_time (h_ev rj) = u) \/
       zero_replace_corner (se_client (h_ev rj)) f H j rj) /\
    (* (E2) nothing passes the expiry the replay shows *)
    (forall X k rk u fl, nth_error H k = Some rk -> replayX X f H k = Some (u, fl) ->
       (se_time (h_ev rk) <= u)%Z) /\
    (* (E3) at most one end per blocking *)
    (forall j1 j2 r1 r2, (j1 < j2)%nat -> nth_error H j1 = Some r1 -> nth_error H j2 = Some r2 ->
       se_ev (h_ev r1) = TEBlockingEnd -> se_ev (h_ev r2) = TEBlockingEnd ->
       se_client (h_ev r1) = se_client (h_ev r2) ->
       (exists i ri m, (j1 < i < j2)%nat /\ nth_error H i = Some ri /\ se_ev (h_ev ri) = TEBlockingBegin m /\
          se_client (h_ev ri) = se_client (h_ev r2)) \/
       zero_replace_corner (se_client (h_ev r2)) f H j2 r2) /\
    (* (E4) begin before end *)
    (forall j rj, nth_error H j = Some rj -> se_ev (h_ev rj) = TEBlockingEnd ->
       (exists i ri m, (i < j)%nat /\ nth_error H i = Some ri /\ se_ev (h_ev ri) = TEBlockingBegin m /\
          se_client (h_ev ri) = se_client (h_ev rj) /\
          forall i' ri', (i < i' < j)%nat -> nth_error H i' = Some ri' ->
            ~ (se_ev (h_ev ri') = TEBlockingEnd /\ se_client (h_ev ri') = se_client (h_ev rj))) \/
       zero_replace_corner (se_client (h_ev rj)) f H j rj).
Proof.
  intros fuel cc sc tp tr delay pps args out Hf Hrun.
  destruct (sim_advanced_history _ _ _ _ _ _ _ _ _ Hf Hrun) as (st0 & t0 & H & Hi & Hl & ->).
  exists H. split; [reflexivity|].
  destruct (blocking_end_run fuel cc sc tp args st0 t0 H _ delay pps Hi
              (SimBlocking.parse_trace_inv tr delay) (parse_trace_start tr delay) Hl)
    as (f & F1 & _ & _ & E1 & E2 & E3 & E4).
  exists f. auto.
Qed.

(** the same with the history tied to the instrumented loop, the injectivity of the cause assignment,
    and the release theorem of SimBypassAll.v for the SAME [f] *)
Theorem blocking_end_history : forall fuel cc sc tp tr delay pps args out,
  SimHistory.full_args args ->
  sim_advanced fuel cc sc tp (parse_trace tr delay) delay pps args = Ok out ->
  exists st0 t0 (H : list SimHistory.hrec),
    sim_init cc sc tp (parse_trace tr delay) delay pps st0 t0 /\
    sim_loop_h fuel cc sc tp args st0 t0 [] 0 = Ok H /\ out = map SimHistory.h_ev H /\
  exists f : nat -> nat,
    (forall k rk m, nth_error H k = Some rk ->
       (se_ev (h_ev rk) = TEPaddingSent m \/ se_ev (h_ev rk) = TEBlockingBegin m) ->
       SimActionTrace.caused_by H k rk m (f k)) /\
    (forall k1 k2 rk1 rk2 m, k1 <> k2 -> nth_error H k1 = Some rk1 -> nth_error H k2 = Some rk2 ->
       (se_ev (h_ev rk1) = TEPaddingSent m \/ se_ev (h_ev rk1) = TEBlockingBegin m) ->
       (se_ev (h_ev rk2) = TEPaddingSent m \/ se_ev (h_ev rk2) = TEBlockingBegin m) ->
       f k1 <> f k2) /\
    (forall k rk, nth_error H k = Some rk -> se_ev (h_ev rk) = TETunnelSent ->
       claim_full replay_begin_r f H k rk) /\
    (forall j rj, nth_error H j = Some rj -> se_ev (h_ev rj) = TEBlockingEnd ->
       (exists u fl, replayX (se_client (h_ev rj)) f H j = Some (u, fl) /\ se_time (h_ev rj) = u) \/
       zero_replace_corner (se_client (h_ev rj)) f H j rj) /\
    (forall X k rk u fl, nth_error H k = Some rk -> replayX X f H k = Some (u, fl) ->
       (se_time (h_ev rk) <= u)%Z) /\
    (forall j1 j2 r1 r2, (j1 < j2)%nat -> nth_error H j1 = Some r1 -> nth_error H j2 = Some r2 ->
       se_ev (h_ev r1) = TEBlockingEnd -> se_ev (h_ev r2) = TEBlockingEnd ->
       se_client (h_ev r1) = se_client (h_ev r2) ->
       (exists i ri m, (j1 < i < j2)%nat /\ nth_error H i = Some ri /\ se_ev (h_ev ri) = TEBlockingBegin m /\
          se_client (h_ev ri) = se_client (h_ev r2)) \/
       zero_replace_corner (se_client (h_ev r2)) f H j2 r2) /\
    (forall j rj, nth_error H j = Some rj -> se_ev (h_ev rj) = TEBlockingEnd ->
       (exists i ri m, (i < j)%nat /\ nth_error H i = Some ri /\ se_ev (h_ev ri) = TEBlockingBegin m /\
          se_client (h_ev ri) = se_client (h_ev rj) /\
          forall i' ri', (i < i' < j)%nat -> nth_error H i' = Some ri' ->
            ~ (se_ev (h_ev ri') = TEBlockingEnd /\ se_client (h_ev ri') = se_client (h_ev rj))) \/
       zero_replace_corner (se_client (h_ev rj)) f H j rj).
Proof.
  intros fuel cc sc tp tr delay pps args out Hf Hrun.
  destruct (sim_advanced_history _ _ _ _ _ _ _ _ _ Hf Hrun) as (st0 & t0 & H & Hi & Hl & ->).
  exists st0, t0, H. split; [exact Hi|]. split; [exact Hl|]. split; [reflexivity|].
  exact (blocking_end_run fuel cc sc tp args st0 t0 H _ delay pps Hi
           (SimBlocking.parse_trace_inv tr delay) (parse_trace_start tr delay) Hl).
Qed.

(** * 5. Concrete runs (the runs of SimBypassAll.v, section 7) *)

(** (E1) WITHOUT the corner is false, and the corner is not vacuous: in the run [cxz_H] (client machines:
    a fail-closed blocker for 100 us at 1 us; a REPLACING zero-duration blocker at 6 us) the BlockingEnd
    #5 is reported at 6 us while the replay of the reports before it says "blocking until 101 us"; the
    BlockingBegin of the zero-duration replace follows as #6, after which the replay says "not blocking". *)
Example end_exact_time_plain_refuted :
  sim_loop_h 200 cxz_cfg bx_server bx_tape bx_args (bx_st0 cxz_cfg) 0 [] 0 = Ok cxz_H /\
  sim_advanced 200 cxz_cfg bx_server bx_tape bx_sq 1000 None bx_args = Ok (map h_ev cxz_H) /\
  forall f : nat -> nat,
    (forall k rk m, nth_error cxz_H k = Some rk ->
       (se_ev (h_ev rk) = TEPaddingSent m \/ se_ev (h_ev rk) = TEBlockingBegin m) ->
       caused_by cxz_H k rk m (f k)) ->
    exists rj, nth_error cxz_H 5 = Some rj /\ se_ev (h_ev rj) = TEBlockingEnd /\ se_client (h_ev rj) = true /\
      se_time (h_ev rj) = 6000%Z /\ replayX true f cxz_H 5 = Some (101000%Z, false) /\
      ~ (exists u fl, replayX true f cxz_H 5 = Some (u, fl) /\ se_time (h_ev rj) = u) /\
      zero_replace_corner true f cxz_H 5 rj.
Proof.
  split; [vm_compute; reflexivity|]. split; [vm_compute; reflexivity|].
  intros f Hf.
  assert (E4 : f 4%nat = 0%nat).
  { destruct (Hf 4%nat _ 0 eq_refl (or_intror eq_refl)) as (rj & a & L & Hj & _ & Ha & _).
    destruct (f 4%nat) as [|[|[|[|n]]]]; [reflexivity| | | |lia];
      vm_compute in Hj; injection Hj as <-; destruct Ha. }
  assert (E6 : f 6%nat = 4%nat).
  { destruct (Hf 6%nat _ 1 eq_refl (or_intror eq_refl)) as (rj & a & L & Hj & _ & Ha & Hm & _).
    destruct (f 6%nat) as [|[|[|[|[|[|n]]]]]]; [| | | |reflexivity| |lia];
      vm_compute in Hj; injection Hj as <-; try (destruct Ha; fail).
    destruct Ha as [<-|[]]. discriminate Hm. }
  set (g := fun i : nat => match i with 4%nat => 0%nat | 6%nat => 4%nat | _ => 0%nat end).
  assert (Efg : forall i ri m, (i < 7)%nat -> nth_error cxz_H i = Some ri ->
            se_ev (h_ev ri) = TEBlockingBegin m -> f i = g i).
  { intros i ri m Li Hi Hev.
    do 7 (destruct i as [|i]; [try (vm_compute in Hi; injection Hi as <-; discriminate Hev); assumption|]). lia. }
  assert (E5 : replayX true f cxz_H 5 = Some (101000%Z, false)).
  { unfold replayX. rewrite (replayG_ext replay_begin_r true f g cxz_H 5); [vm_compute; reflexivity|].
    intros i ri m Li. apply Efg. lia. }
  eexists. split; [reflexivity|]. repeat (split; [reflexivity|]). split; [exact E5|]. split.
  - intros (u & fl & HR & Hu). rewrite E5 in HR. injection HR as <- _. discriminate Hu.
  - split.
    + intros u fl HR. rewrite E5 in HR. injection HR as <- _. reflexivity.
    + left. eexists 6%nat, _, 1, (TBlockOutgoing 1 5000 0 false true).
      split; [lia|]. split; [reflexivity|]. split; [reflexivity|]. split; [reflexivity|]. split; [reflexivity|].
      split; [intros i ri Hi; lia|]. split; [rewrite E6; reflexivity|]. split; [reflexivity|].
      unfold replayX. rewrite (replayG_ext replay_begin_r true f g cxz_H 7 Efg). vm_compute. reflexivity.
Qed.

(** non-vacuity of the exact case of (E1), and of (E2)-(E4): in the run [ex2_H] (a bypassable blocker
    for 100 us at 1 us, extended non-replacing by 200 us at 3 us) the only BlockingEnd (#11) is reported at
    203 us = the expiry the replay computes from the two BlockingBegins *)
Example end_exact_time_example :
  sim_loop_h 200 ex2_cfg bx_server bx_tape bx_args (bx_st0 ex2_cfg) 0 [] 0 = Ok ex2_H /\
  sim_advanced 200 ex2_cfg bx_server bx_tape bx_sq 1000 None bx_args = Ok (map h_ev ex2_H) /\
  forall f : nat -> nat,
    (forall k rk m, nth_error ex2_H k = Some rk ->
       (se_ev (h_ev rk) = TEPaddingSent m \/ se_ev (h_ev rk) = TEBlockingBegin m) ->
       caused_by ex2_H k rk m (f k)) ->
    exists rj, nth_error ex2_H 11 = Some rj /\ se_ev (h_ev rj) = TEBlockingEnd /\ se_client (h_ev rj) = true /\
      se_time (h_ev rj) = 203000%Z /\ replayX true f ex2_H 11 = Some (203000%Z, true) /\
      replayX true f ex2_H 12 = None.
Proof.
  split; [vm_compute; reflexivity|]. split; [vm_compute; reflexivity|].
  intros f Hf.
  assert (E4 : f 4%nat = 0%nat).
  { destruct (Hf 4%nat _ 0 eq_refl (or_intror eq_refl)) as (rj & a & L & Hj & _ & Ha & _).
    destruct (f 4%nat) as [|[|[|[|n]]]]; [reflexivity| | | |lia];
      vm_compute in Hj; injection Hj as <-; destruct Ha. }
  assert (E5 : f 5%nat = 4%nat).
  { destruct (Hf 5%nat _ 1 eq_refl (or_intror eq_refl)) as (rj & a & L & Hj & _ & Ha & Hm & _).
    destruct (f 5%nat) as [|[|[|[|[|n]]]]]; [| | | |reflexivity|lia];
      vm_compute in Hj; injection Hj as <-; try (destruct Ha; fail).
    destruct Ha as [<-|[]]. discriminate Hm. }
  set (g := fun i : nat => match i with 4%nat => 0%nat | 5%nat => 4%nat | _ => 0%nat end).
  assert (Efg : forall i ri m, (i < 12)%nat -> nth_error ex2_H i = Some ri ->
            se_ev (h_ev ri) = TEBlockingBegin m -> f i = g i).
  { intros i ri m Li Hi Hev.
    do 12 (destruct i as [|i]; [try (vm_compute in Hi; injection Hi as <-; discriminate Hev); assumption|]). lia. }
  eexists. split; [reflexivity|]. repeat (split; [reflexivity|]). split.
  - unfold replayX. rewrite (replayG_ext replay_begin_r true f g ex2_H 11); [vm_compute; reflexivity|].
    intros i ri m Li. apply Efg. lia.
  - unfold replayX. rewrite (replayG_ext replay_begin_r true f g ex2_H 12 Efg). vm_compute. reflexivity.
Qed.

Print Assumptions blocking_end_trace.
Print Assumptions blocking_end_history.
Print Assumptions end_exact_time_plain_refuted.
Print Assumptions end_exact_time_example.
