(** Property C17 at the level of whole runs: every PaddingSent / BlockingBegin the
    simulator reports was caused by an earlier SendPadding / BlockOutgoing action the
    framework of that side returned for that machine, happens exactly at the action's
    issue time plus its timeout, carries its flags, was not superseded before it was
    due, and every issued action completes at most once.

    Structure
    - 1. queue facts: the completions queued in the internal heaps ([cq]) under
         [sq_push] / [sq_pop]; heap order of the internal heaps ([hpi]).
    - 2. [peek_queue] never answers later than a queued internal event.
    - 3. [pick_next] as an abstract run ([pn_run]): it fires slots (pushing the
         completion, exactly at the due time), and finally returns an event; a
         returned completion is an element of the queue, with its time unchanged.
    - 4. the network stack and [trigger_update] do not touch queued completions.
    - 5. the token invariant [tinv] relating slots / queued completions / reported
         completions to the history; preserved by runs and by appending a record.
    - 6. the loop, the theorems, and the counterexample to the statement without the
         hypothesis on the initial queue. *)
From Coq Require Import List Arith Lia Permutation ZArith Bool.
From MB Require Import Base.Prelude Model.Framework Model.Sim Proofs.Tactics Proofs.SimHeap.
From MB Require Import Proofs.SimBasics Proofs.SimReach Proofs.SimHistory.
From MB Require Proofs.SimTimers Proofs.SimBlocking Proofs.SimIdentity.
Import ListNotations.
Open Scope N_scope.

(** * 0. Definitions of the statement *)

(** the action-timer relevant part of an action for machine m *)
Definition is_sched_for (m : N) (a : taction) : bool :=
  (taction_machine a =? m) &&
  match a with
  | TSendPadding _ _ _ _ | TBlockOutgoing _ _ _ _ _ => true
  | TCancel _ TAction | TCancel _ TAll => true
  | _ => false
  end.

(** e is the completion of a *)
Definition completes (a : taction) (e : sev) : Prop :=
  match a with
  | TSendPadding m tmo by_ rp =>
      se_ev e = TEPaddingSent m /\ se_pad e = true /\ se_bypass e = by_ /\ se_replace e = rp
  | TBlockOutgoing m tmo dur by_ rp => se_ev e = TEBlockingBegin m
  | _ => False
  end.

Definition timeout_of (a : taction) : N :=
  match a with TSendPadding _ tmo _ _ | TBlockOutgoing _ tmo _ _ _ => tmo | _ => 0 end.

(** completion events and their machine *)
Definition is_complb (x : sev) : bool :=
  match se_ev x with TEPaddingSent _ | TEBlockingBegin _ => true | _ => false end.
Definition cmach (x : sev) : N :=
  match se_ev x with TEPaddingSent m | TEBlockingBegin m => m | _ => 0 end.

Lemma completes_compl : forall a x, completes a x -> is_complb x = true /\ cmach x = taction_machine a.
Proof.
  intros a x H. unfold is_complb, cmach. destruct a; cbn [completes taction_machine] in *; try contradiction.
  - destruct H as (-> & _). auto.
  - rewrite H. auto.
Qed.

(** * 1. Queue facts *)

(** the internal heap of side X, the completions queued there *)
Definition iq (sq : simq) (X : bool) : list sev := q_internal (sq_side sq X).
Definition cq (sq : simq) (X : bool) : list sev := filter is_complb (iq sq X).
Definition hpi (sq : simq) : Prop := forall X, SimIdentity.hp (iq sq X).

Definition rint (x : sev) : bool := qid_eqb QInternal (SimBlocking.route x).

Lemma compl_rint : forall x, is_complb x = true -> rint x = true.
Proof. intros x. unfold is_complb, rint, SimBlocking.route. destruct (se_ev x); try discriminate; reflexivity. Qed.

Lemma perm_filter : forall {A} (p : A -> bool) l l', Permutation l l' -> Permutation (filter p l) (filter p l').
Proof.
  intros A p l l' H. induction H as [|x l l' _ IH|x y l|l l' l'' _ IH1 _ IH2]; cbn [filter].
  - constructor.
  - destruct (p x); [constructor|]; exact IH.
  - destruct (p x), (p y); try apply Permutation_refl. apply perm_swap.
  - eapply perm_trans; eauto.
Qed.

Lemma iq_push : forall sq x X,
  iq (sq_push sq x) X = if Bool.eqb (se_client x) X && rint x then heap_push sev_le (iq sq X) x else iq sq X.
Proof.
  intros sq x X. unfold iq, sq_push. rewrite SimBlocking.sq_side_set.
  destruct (Bool.eqb (se_client x) X) eqn:E; cbn [andb]; [|reflexivity].
  apply Bool.eqb_prop in E. subst X.
  change (q_internal (evq_push (sq_side sq (se_client x)) x))
    with (SimBlocking.evq_heap (evq_push (sq_side sq (se_client x)) x) QInternal).
  rewrite SimBlocking.evq_push_heap. reflexivity.
Qed.

Lemma cq_push : forall sq x X,
  Permutation (cq (sq_push sq x) X)
              (if Bool.eqb (se_client x) X && is_complb x then x :: cq sq X else cq sq X).
Proof.
  intros sq x X. unfold cq. rewrite iq_push.
  destruct (Bool.eqb (se_client x) X); cbn [andb]; [|apply Permutation_refl].
  destruct (rint x) eqn:Er.
  - eapply perm_trans; [apply perm_filter; apply (heap_push_perm sev sev_le)|].
    cbn [filter]. destruct (is_complb x); apply Permutation_refl.
  - destruct (is_complb x) eqn:Ec; [|apply Permutation_refl].
    apply compl_rint in Ec. congruence.
Qed.

Lemma cq_push_other : forall sq x X, is_complb x = false -> Permutation (cq (sq_push sq x) X) (cq sq X).
Proof.
  intros sq x X H. pose proof (cq_push sq x X) as P. rewrite H, Bool.andb_false_r in P. exact P.
Qed.

Lemma hpi_push : forall sq x, hpi sq -> hpi (sq_push sq x).
Proof.
  intros sq x H X. rewrite iq_push. destruct (_ && _); [apply SimIdentity.hp_push|]; apply H.
Qed.

(** popping *)
Lemma iq_pop : forall sq w ic delay x sq',
  sq_pop sq w ic delay = Some (x, sq') ->
  (forall X, X <> ic -> iq sq' X = iq sq X) /\
  (w <> QInternal -> iq sq' ic = iq sq ic) /\
  (w = QInternal -> heap_pop sev_le (iq sq ic) = Some (x, iq sq' ic)).
Proof.
  intros sq w ic delay x sq' H. unfold sq_pop in H.
  destruct (evq_pop (sq_side sq ic) w delay) as [[x0 q]|] eqn:E; [|discriminate].
  injection H as <- <-. split.
  - intros X HX. unfold iq. rewrite SimBlocking.sq_side_set.
    destruct (Bool.eqb ic X) eqn:Eb; [|reflexivity]. apply Bool.eqb_prop in Eb. congruence.
  - unfold iq. rewrite SimBlocking.sq_side_set, Bool.eqb_reflx.
    unfold evq_pop in E. destruct w;
      match type of E with match ?hp with _ => _ end = _ => destruct hp as [[p h]|] eqn:Eh end;
      try discriminate; injection E as <- <-; cbn [q_internal]; split; intros Hw; try congruence; try reflexivity.
Qed.

Lemma cq_pop : forall sq w ic delay x sq',
  SimBlocking.wf_simq sq -> sq_pop sq w ic delay = Some (x, sq') ->
  se_client x = ic /\
  (forall X, Permutation (cq sq X) (if Bool.eqb ic X && is_complb x then x :: cq sq' X else cq sq' X)) /\
  (is_complb x = true -> In x (iq sq ic)).
Proof.
  intros sq w ic delay x sq' Hwf H.
  destruct (SimBlocking.sq_pop_ok _ _ _ _ _ _ Hwf H) as [Hc Hk].
  destruct (iq_pop _ _ _ _ _ _ H) as (Ho & Hn & Hi).
  split; [exact Hc|].
  assert (Hw : is_complb x = true -> w = QInternal).
  { intros Hx. unfold is_complb in Hx. destruct w; [| |reflexivity|].
    - destruct Hk as [Hk _]. rewrite Hk in Hx. discriminate.
    - destruct Hk as [Hk _]. rewrite Hk in Hx. discriminate.
    - rewrite Hk in Hx. discriminate. }
  split.
  - intros X. unfold cq. destruct (Bool.eqb ic X) eqn:Eb; cbn [andb].
    + apply Bool.eqb_prop in Eb. subst X.
      destruct (SimBlocking.qid_eq_dec w QInternal) as [->|Hne].
      * specialize (Hi eq_refl). apply heap_pop_perm in Hi.
        eapply perm_trans; [apply perm_filter; exact Hi|]. cbn [filter].
        destruct (is_complb x); apply Permutation_refl.
      * rewrite (Hn Hne). destruct (is_complb x) eqn:Ex; [|apply Permutation_refl].
        elim Hne. apply Hw. reflexivity.
    + rewrite (Ho X); [apply Permutation_refl|]. intros ->. rewrite Bool.eqb_reflx in Eb. discriminate.
  - intros Hx. specialize (Hi (Hw Hx)). apply heap_pop_perm in Hi.
    apply (Permutation_in _ (Permutation_sym Hi)). left. reflexivity.
Qed.

Lemma hpi_pop : forall sq w ic delay x sq', hpi sq -> sq_pop sq w ic delay = Some (x, sq') -> hpi sq'.
Proof.
  intros sq w ic delay x sq' Hh H X.
  destruct (iq_pop _ _ _ _ _ _ H) as (Ho & Hn & Hi).
  destruct (Bool.bool_dec X ic) as [->|Hne]; [|rewrite (Ho X Hne); apply Hh].
  destruct (SimBlocking.qid_eq_dec w QInternal) as [->|Hw]; [|rewrite (Hn Hw); apply Hh].
  eapply SimIdentity.hp_pop; [apply Hh|apply Hi; reflexivity].
Qed.

Lemma wf_simq_sq_wf : forall sq, SimBlocking.wf_simq sq -> SimTimers.sq_wf sq.
Proof.
  intros sq [Hc Hs]. split; intros which e He.
  - destruct Hc as (H1 & H2 & H3 & H4). destruct which; cbn in He;
      [apply H2 in He|apply H3 in He|apply H4 in He|apply H1 in He]; tauto.
  - destruct Hs as (H1 & H2 & H3 & H4). destruct which; cbn in He;
      [apply H2 in He|apply H3 in He|apply H4 in He|apply H1 in He]; tauto.
Qed.

(** * 2. [peek_queue] never answers later than a queued internal event *)

Lemma sev_gt_false_time : forall a b, sev_gt a b = false -> (se_time b <= se_time a)%Z.
Proof.
  intros a b H. destruct (Z_lt_le_dec (se_time a) (se_time b)) as [L|L]; [|exact L].
  assert (T : sev_gt a b = true) by (apply SimIdentity.sev_gt_spec; lia). congruence.
Qed.

Lemma sev_gt_true_time : forall a b, sev_gt a b = true -> (se_time a <= se_time b)%Z.
Proof. intros a b H. apply SimIdentity.sev_gt_spec in H. lia. Qed.

Lemma before_true : forall o y d, before o (Some y) d = true ->
  exists x, o = Some x /\ (se_time x + Z.of_N d <= se_time y)%Z.
Proof.
  intros [x|] y d H; cbn [before] in H; [|discriminate]. exists x. split; [reflexivity|].
  unfold key_cmp in H. destruct (Z.compare_spec (se_time x + Z.of_N d) (se_time y)); try lia; discriminate.
Qed.

Lemma iq_head : forall h x, SimIdentity.hp h -> In x h ->
  exists p, heap_peek h = Some p /\ (se_time p <= se_time x)%Z.
Proof.
  intros h x Hh Hin. destruct h as [|p rest]; [destruct Hin|]. exists p. split; [reflexivity|].
  apply SimIdentity.kle_time. pose proof (SimIdentity.lb_peek _ Hh) as L.
  cbn [heap_peek hd_error SimIdentity.lb] in L. apply L. exact Hin.
Qed.

Lemma in_len_pos : forall {A} (l : list A) x, In x l -> (0 < length l)%nat.
Proof. intros A [|a l] x H; [destruct H|cbn [length]; lia]. Qed.

Lemma evq_peek_int_le : forall q delay nowt x o w dur,
  SimIdentity.hp (q_internal q) -> In x (q_internal q) ->
  evq_peek q delay nowt = (o, w, dur) -> exists p, o = Some p /\ dur <= since (se_time x) nowt.
Proof.
  intros q delay nowt x o w dur Hh Hin H.
  destruct (iq_head _ _ Hh Hin) as (pi & Hpk & Hpi).
  pose proof (in_len_pos _ _ Hin) as Hl.
  unfold evq_peek in H.
  destruct (evq_len q) eqn:El; [unfold evq_len in El; lia|].
  rewrite Hpk in H.
  remember (if opt_gt (heap_peek (q_blocking q)) (heap_peek (q_bypass q))
            then (heap_peek (q_blocking q), QBlocking) else (heap_peek (q_bypass q), QBypassable)) as fq eqn:Efq.
  clear Efq. destruct fq as [F1 QQ].
  assert (HF : exists f2 q2, (if opt_gt (Some pi) F1 then (Some pi, QInternal) else (F1, QQ)) = (Some f2, q2)
                             /\ (se_time f2 <= se_time pi)%Z).
  { destruct (opt_gt (Some pi) F1) eqn:E2.
    - exists pi, QInternal. split; [reflexivity|lia].
    - destruct F1 as [b|]; cbn [opt_gt] in E2; [|discriminate].
      exists b, QQ. split; [reflexivity|]. apply sev_gt_false_time. exact E2. }
  destruct HF as (f2 & q2 & HF & Hf2). rewrite HF in H.
  destruct (before (heap_peek (q_base q)) (Some f2) delay) eqn:E3.
  - apply before_true in E3. destruct E3 as (nb & Enb & Hnb). rewrite Enb in H.
    injection H as <- <- <-. exists nb. split; [reflexivity|]. apply SimBlocking.since_mono. lia.
  - injection H as <- <- <-. exists f2. split; [reflexivity|]. apply SimBlocking.since_mono. lia.
Qed.

Lemma sq_peek_int_le : forall sq cd sd nowt X x o w dur,
  SimIdentity.hp (iq sq X) -> In x (iq sq X) ->
  sq_peek sq cd sd nowt = (o, w, dur) -> exists p, o = Some p /\ dur <= since (se_time x) nowt.
Proof.
  intros sq cd sd nowt X x o w dur Hh Hin H.
  pose proof (in_len_pos _ _ Hin) as Hl.
  unfold sq_peek in H.
  destruct (sq_len sq) eqn:El.
  { unfold sq_len, evq_len in El. unfold iq, sq_side in Hl. destruct X; lia. }
  destruct (evq_peek (sq_c sq) cd nowt) as [[c cq0] cdur] eqn:Ec.
  destruct (evq_peek (sq_s sq) sd nowt) as [[s sqq] sdur] eqn:Es.
  destruct X; unfold iq, sq_side in Hh, Hin.
  - destruct (evq_peek_int_le _ _ _ _ _ _ _ Hh Hin Ec) as (p & -> & Hd).
    destruct s as [se|].
    + destruct (N.compare_spec cdur sdur) as [E|E|E];
        [destruct (ev_idx (se_ev p) ?= ev_idx (se_ev se))| |]; injection H as <- <- <-;
        eexists; (split; [reflexivity|]); lia.
    + injection H as <- <- <-. eexists; split; [reflexivity|exact Hd].
  - destruct (evq_peek_int_le _ _ _ _ _ _ _ Hh Hin Es) as (p & -> & Hd).
    destruct c as [ce|].
    + destruct (N.compare_spec cdur sdur) as [E|E|E];
        [destruct (ev_idx (se_ev ce) ?= ev_idx (se_ev p))| |]; injection H as <- <- <-;
        eexists; (split; [reflexivity|]); lia.
    + injection H as <- <- <-. eexists; split; [reflexivity|exact Hd].
Qed.

(** the non-blocking peek of a side whose internal heap has head [pi] *)
Lemma sq_peek_non_blocking_int : forall sq bb X delay pn nq pi,
  heap_peek (iq sq X) = Some pi ->
  sq_peek_non_blocking sq bb X delay = (pn, nq) ->
  exists n, pn = Some n /\
    ((if qid_eqb nq QBase then se_time n + Z.of_N delay else se_time n) <= se_time pi)%Z.
Proof.
  intros sq bb X delay pn nq pi Hpk H. unfold iq in Hpk.
  assert (HE : forall pn nq, evq_peek_non_blocking (sq_side sq X) delay = (pn, nq) ->
            exists n, pn = Some n /\ (se_time n <= se_time pi)%Z /\
              ((if qid_eqb nq QBase then se_time n + Z.of_N delay else se_time n) <= se_time pi)%Z).
  { intros pn0 nq0 H0. unfold evq_peek_non_blocking in H0. rewrite Hpk in H0.
    destruct (before (heap_peek (q_base (sq_side sq X))) (Some pi) delay) eqn:E.
    - apply before_true in E. destruct E as (nb & Enb & Hnb). injection H0 as <- <-.
      exists nb. split; [exact Enb|]. cbn [qid_eqb]. lia.
    - injection H0 as <- <-. exists pi. split; [reflexivity|]. cbn [qid_eqb]. lia. }
  unfold sq_peek_non_blocking in H. destruct bb.
  - destruct (evq_peek_non_blocking (sq_side sq X) delay) as [n0 nq0] eqn:En.
    destruct (HE _ _ eq_refl) as (n & -> & Hn1 & Hn2).
    destruct (opt_gt (heap_peek (q_bypass (sq_side sq X))) (Some n)) eqn:Eg.
    + injection H as <- <-. destruct (heap_peek (q_bypass (sq_side sq X))) as [y|]; [|discriminate].
      cbn [opt_gt] in Eg. apply sev_gt_true_time in Eg. exists y. split; [reflexivity|]. cbn [qid_eqb]. lia.
    + injection H as <- <-. exists n. split; [reflexivity|exact Hn2].
  - destruct (HE _ _ H) as (n & -> & _ & Hn2). exists n. split; [reflexivity|exact Hn2].
Qed.

Lemma pqes_int_le : forall sq bu bb nowt delay X d w ic' x,
  SimIdentity.hp (iq sq X) -> In x (iq sq X) ->
  peek_queue_earliest_side sq bu bb nowt delay X = (d, w, ic') -> d <= since (se_time x) nowt.
Proof.
  intros sq bu bb nowt delay X d w ic' x Hh Hin H.
  destruct (iq_head _ _ Hh Hin) as (pi & Hpk & Hpi).
  unfold peek_queue_earliest_side in H.
  destruct (sq_peek_blocking sq bb X) as [pb bq].
  destruct (sq_peek_non_blocking sq bb X delay) as [pn nq] eqn:En.
  destruct (sq_peek_non_blocking_int _ _ _ _ _ _ _ Hpk En) as (n & -> & Hn).
  destruct pb as [b|].
  - match type of H with (if ?c then _ else _) = _ => destruct c eqn:Ebf end; injection H as <- _ _.
    + apply SimBlocking.since_mono.
      match type of Ebf with match (?a ?= ?b)%Z with _ => _ end = true =>
        destruct (Z.compare_spec a b) as [E|E|E]; [| |discriminate Ebf] end; lia.
    + apply SimBlocking.since_mono. lia.
  - injection H as <- _ _. apply SimBlocking.since_mono. lia.
Qed.

Lemma peek_queue_int_le : forall sq c s cd sd earliest nowt q w ic X x,
  SimIdentity.hp (iq sq X) -> In x (iq sq X) ->
  peek_queue sq c s cd sd earliest nowt = (q, w, ic) ->
  q <= since (se_time x) nowt \/ (q = DMAX /\ earliest < since (se_time x) nowt).
Proof.
  intros sq c s cd sd earliest nowt q w ic X x Hh Hin H.
  pose proof (in_len_pos _ _ Hin) as Hl.
  unfold peek_queue in H.
  destruct (sq_len sq) eqn:El.
  { unfold sq_len, evq_len in El. unfold iq, sq_side in Hl. destruct X; lia. }
  destruct (sq_peek sq cd sd nowt) as [[pk qq] dur] eqn:Ep.
  destruct (sq_peek_int_le _ _ _ _ _ _ _ _ _ Hh Hin Ep) as (p & -> & Hd).
  destruct (N.ltb_spec earliest dur) as [Hlt|Hge]; [injection H as <- _ _; right; split; [reflexivity|lia]|].
  left.
  destruct (negb (is_tunnel_sent (se_ev p))); [injection H as <- _ _; exact Hd|].
  match type of H with (if ?b then _ else _) = _ => destruct b end; [injection H as <- _ _; exact Hd|].
  match type of H with (if ?b then _ else _) = _ => destruct b end; [injection H as <- _ _; exact Hd|].
  match type of H with (if ?b then _ else _) = _ => destruct b end; [injection H as <- _ _; exact Hd|].
  destruct (peek_queue_earliest_side sq (s_buntil c) (s_bbypass c) nowt cd true) as [[c_d c_q] c_b] eqn:Ec.
  destruct (peek_queue_earliest_side sq (s_buntil s) (s_bbypass s) nowt sd false) as [[s_d s_q] s_b] eqn:Es.
  destruct X.
  - pose proof (pqes_int_le _ _ _ _ _ _ _ _ _ _ Hh Hin Ec) as Hc.
    destruct (N.leb_spec c_d s_d); injection H as <- _ _; lia.
  - pose proof (pqes_int_le _ _ _ _ _ _ _ _ _ _ Hh Hin Es) as Hs.
    destruct (N.leb_spec c_d s_d); injection H as <- _ _; lia.
Qed.

(** * 3. [pick_next] as an abstract run over slots and queued completions *)

Definition slotsX (st : sim) (X : bool) : list (option (taction * Z)) := s_sched (if X then m_c st else m_s st).
Definition cqs (st : sim) (X : bool) : list sev := cq (m_sq st) X.
Definition qge (st : sim) (t : Z) : Prop := forall X x, In x (cqs st X) -> (t <= se_time x)%Z.
Definition same_slots (st st' : sim) : Prop := forall X, slotsX st' X = slotsX st X.
Definition same_cq (st st' : sim) : Prop := forall X, Permutation (cqs st' X) (cqs st X).

Definition C0 (sa it b n q : N) : bool := (sa =? DMAX) && (it =? DMAX) && (b =? DMAX) && (n =? DMAX) && (q =? DMAX).
Definition C1 (sa it b n q : N) : bool := (n <=? sa) && (n <=? it) && (n <=? b) && (n <=? q).
Definition C2 (sa it b q : N) : bool := (b <=? sa) && (b <=? it) && (b <=? q).
Definition C3 (sa it q : N) : bool := (q <=? sa) && (q <=? it).

(** one layer of [pick_next] with the complete branch conditions *)
Lemma pn_unfold : forall fuel' st nowt r st',
  pick_next (S fuel') st nowt = Ok (r, st') ->
  exists b bic q w qic,
    let sa := peek_sched (s_sched (m_c st)) (s_sched (m_s st)) nowt in
    let it := peek_timers (s_timers (m_c st)) (s_timers (m_s st)) nowt in
    let n := net_peek_agg (m_net st) nowt in
    peek_blocked_exp (s_buntil (m_c st)) (s_buntil (m_s st)) nowt = (b, bic) /\
    peek_queue (m_sq st) (m_c st) (m_s st) (n_cagg (m_net st)) (n_sagg (m_net st))
               (N.min (N.min (N.min sa it) b) n) nowt = (q, w, qic) /\
    ((r = None /\ st' = st) \/
     (pick_next fuel' (mksim (m_sq st) (m_c st) (m_s st) (net_pop_agg (m_net st)) (m_pos st)) nowt = Ok (r, st')) \/
     (C0 sa it b n q = false /\ C1 sa it b n q = false /\
      ((C2 sa it b q = true /\
        r = Some (mksev TEBlockingEnd (nowt + Z.of_N b)%Z bic false false false) /\
        exists c' s' net', st' = mksim (m_sq st) c' s' net' (m_pos st) /\
          s_sched c' = s_sched (m_c st) /\ s_sched s' = s_sched (m_s st)) \/
       (C2 sa it b q = false /\
        ((C3 sa it q = true /\
          exists tmp sq',
            sq_pop (m_sq st) w qic (if qic then n_cagg (m_net st) else n_sagg (m_net st)) = Some (tmp, sq') /\
            r = Some (if (se_time tmp <? nowt + Z.of_N q)%Z then set_time tmp (nowt + Z.of_N q)%Z else tmp) /\
            st' = mksim sq' (m_c st) (m_s st) (m_net st) (m_pos st)) \/
         (C3 sa it q = false /\
          ((it <= sa /\ exists c' s' e,
              do_internal_timer (m_c st) (m_s st) (nowt + Z.of_N it)%Z = Ok (c', s', e) /\
              pick_next fuel' (mksim (sq_push (m_sq st) e) c' s' (m_net st) (m_pos st)) (nowt + Z.of_N it)%Z = Ok (r, st')) \/
           (sa < it /\ exists c' s' e,
              do_scheduled_action (m_c st) (m_s st) (nowt + Z.of_N sa)%Z = Ok (c', s', e) /\
              pick_next fuel' (mksim (sq_push (m_sq st) e) c' s' (m_net st) (m_pos st)) (nowt + Z.of_N sa)%Z = Ok (r, st'))))))))).
Proof.
  intros fuel' st nowt r st' H.
  destruct (peek_blocked_exp (s_buntil (m_c st)) (s_buntil (m_s st)) nowt) as [b bic] eqn:Hb.
  destruct (peek_queue (m_sq st) (m_c st) (m_s st) (n_cagg (m_net st)) (n_sagg (m_net st))
              (N.min (N.min (N.min (peek_sched (s_sched (m_c st)) (s_sched (m_s st)) nowt)
                                   (peek_timers (s_timers (m_c st)) (s_timers (m_s st)) nowt)) b)
                     (net_peek_agg (m_net st) nowt)) nowt) as [[q w] qic] eqn:Hq.
  exists b, bic, q, w, qic. cbv zeta. split; [reflexivity|]. split; [exact Hq|].
  cbn [pick_next] in H. rewrite Hb in H. rewrite Hq in H.
  set (sa := peek_sched (s_sched (m_c st)) (s_sched (m_s st)) nowt) in *.
  set (it := peek_timers (s_timers (m_c st)) (s_timers (m_s st)) nowt) in *.
  set (n := net_peek_agg (m_net st) nowt) in *.
  unfold C0, C1, C2, C3.
  destruct ((sa =? DMAX) && (it =? DMAX) && (b =? DMAX) && (n =? DMAX) && (q =? DMAX)) eqn:E0.
  { injection H as <- <-. left. auto. }
  right.
  destruct ((n <=? sa) && (n <=? it) && (n <=? b) && (n <=? q)) eqn:E1.
  { left. exact H. }
  right. split; [reflexivity|]. split; [reflexivity|].
  destruct ((b <=? sa) && (b <=? it) && (b <=? q)) eqn:E2.
  { left. split; [reflexivity|].
    destruct bic; injection H as <- <-; (split; [reflexivity|]); eexists _, _, _; (split; [reflexivity|]);
      cbn [side_set_block s_sched]; auto. }
  right. split; [reflexivity|].
  destruct ((q <=? sa) && (q <=? it)) eqn:E3.
  { left. split; [reflexivity|].
    destruct (sq_pop (m_sq st) w qic (if qic then n_cagg (m_net st) else n_sagg (m_net st)))
      as [[tmp sq']|] eqn:Ep; [|discriminate].
    injection H as <- <-. eauto. }
  right. split; [reflexivity|].
  destruct (N.leb_spec it sa) as [E4|E4].
  - left. split; [exact E4|]. mbind H as p Ed. destruct p as [[c' s'] e]. eauto.
  - right. split; [exact E4|]. mbind H as p Ed. destruct p as [[c' s'] e]. eauto.
Qed.

Ltac b2p :=
  repeat match goal with
         | H : _ && _ = true |- _ => apply andb_prop in H; destruct H
         | H : _ && _ = false |- _ => apply Bool.andb_false_iff in H; destruct H
         | H : (_ <=? _) = true |- _ => apply N.leb_le in H
         | H : (_ <=? _) = false |- _ => apply N.leb_gt in H
         | H : (_ =? _) = true |- _ => apply N.eqb_eq in H
         | H : (_ =? _) = false |- _ => apply N.eqb_neq in H
         end.

Lemma arith_b : forall sa it b n q sx,
  C1 sa it b n q = false -> C2 sa it b q = true -> n <= DMAX ->
  (q <= sx \/ (q = DMAX /\ N.min (N.min (N.min sa it) b) n < sx)) -> b <= sx.
Proof. unfold C1, C2. intros sa it b n q sx E1 E2 Hn Hx. b2p; lia. Qed.

Lemma arith_q : forall sa it b n q,
  C0 sa it b n q = false -> C1 sa it b n q = false -> C2 sa it b q = false -> C3 sa it q = true ->
  sa <= DMAX -> it <= DMAX -> b <= DMAX -> n <= DMAX -> q < DMAX.
Proof. unfold C0, C1, C2, C3. intros sa it b n q E0 E1 E2 E3 H1 H2 H3 H4. b2p; lia. Qed.

Lemma arith_t : forall sa it b n q sx,
  C1 sa it b n q = false -> C2 sa it b q = false -> C3 sa it q = false -> b <= DMAX -> n <= DMAX ->
  (q <= sx \/ (q = DMAX /\ N.min (N.min (N.min sa it) b) n < sx)) -> N.min sa it <= sx.
Proof. unfold C1, C2, C3. intros sa it b n q sx E1 E2 E3 Hb Hn Hx. b2p; lia. Qed.

Inductive pn_run : sim -> Z -> option sev -> sim -> Prop :=
| run_none : forall st t, pn_run st t None st
| run_skip : forall st t st1 t1 r st',
    same_slots st st1 -> same_cq st st1 -> (t <= t1)%Z -> qge st1 t1 ->
    pn_run st1 t1 r st' -> pn_run st t r st'
| run_fire : forall st t st1 t1 r st' X mi a x,
    nth_error (slotsX st X) mi = Some (Some (a, t1)) ->
    slotsX st1 X = upd (slotsX st X) mi None -> slotsX st1 (negb X) = slotsX st (negb X) ->
    Permutation (cqs st1 X) (x :: cqs st X) -> Permutation (cqs st1 (negb X)) (cqs st (negb X)) ->
    completes a x -> se_time x = t1 -> se_client x = X -> (t <= t1)%Z -> qge st1 t1 ->
    pn_run st1 t1 r st' -> pn_run st t r st'
| run_other : forall st t e st',
    is_complb e = false -> same_slots st st' -> same_cq st st' -> (t <= se_time e)%Z -> qge st' (se_time e) ->
    pn_run st t (Some e) st'
| run_pop : forall st t e st',
    is_complb e = true -> same_slots st st' ->
    Permutation (cqs st (se_client e)) (e :: cqs st' (se_client e)) ->
    Permutation (cqs st' (negb (se_client e))) (cqs st (negb (se_client e))) ->
    (t <= se_time e)%Z -> qge st' (se_time e) ->
    pn_run st t (Some e) st'.

Lemma in_cqs_iq : forall st X x, In x (cqs st X) -> In x (iq (m_sq st) X).
Proof. intros st X x H. unfold cqs, cq in H. apply filter_In in H. tauto. Qed.

Lemma completes_of_spec : forall a e,
  match a with
  | TSendPadding m _ by_ rp => se_ev e = TEPaddingSent m /\ se_pad e = true /\ se_bypass e = by_ /\ se_replace e = rp
                               /\ True
  | TBlockOutgoing m _ _ _ _ => se_ev e = TEBlockingBegin m /\ se_pad e = false
  | _ => False
  end -> completes a e.
Proof. intros a e H. destruct a; cbn [completes]; try exact H; tauto. Qed.

Theorem pick_next_run : forall fuel st t r st',
  SimBlocking.wf_simq (m_sq st) -> hpi (m_sq st) -> qge st t ->
  pick_next fuel st t = Ok (r, st') -> pn_run st t r st' /\ hpi (m_sq st').
Proof.
  induction fuel as [|fuel IH]; intros st t r st' Hwf Hh Hq H; [discriminate H|].
  apply pn_unfold in H. destruct H as (b & bic & q & w & qic & Hb & Hpq & H). cbv zeta in Hpq, H.
  set (sa := peek_sched (s_sched (m_c st)) (s_sched (m_s st)) t) in *.
  set (it := peek_timers (s_timers (m_c st)) (s_timers (m_s st)) t) in *.
  set (n := net_peek_agg (m_net st) t) in *.
  assert (Bsa : sa <= DMAX) by apply peek_sched_le.
  assert (Bit : it <= DMAX) by apply peek_timers_le.
  assert (Bn : n <= DMAX) by apply SimBlocking.net_peek_agg_le_DMAX.
  assert (Bb : b <= DMAX) by (eapply SimTimers.peek_blocked_exp_le; exact Hb).
  assert (Hsx : forall X x, In x (cqs st X) ->
            (t <= se_time x)%Z /\
            (q <= since (se_time x) t \/ (q = DMAX /\ N.min (N.min (N.min sa it) b) n < since (se_time x) t))).
  { intros X x Hx. split; [apply (Hq X x Hx)|].
    eapply peek_queue_int_le; [apply Hh|apply in_cqs_iq; exact Hx|exact Hpq]. }
  destruct H as [(-> & ->)|[H|(E0 & E1 & [(E2 & -> & c' & s' & net' & -> & Sc & Ss)|(E2 & H)])]].
  - split; [apply run_none|exact Hh].
  - (* aggregate delay popped *)
    destruct (IH (mksim (m_sq st) (m_c st) (m_s st) (net_pop_agg (m_net st)) (m_pos st)) t r st' Hwf Hh Hq H) as [R Hh'].
    split; [|exact Hh'].
    apply (run_skip st t (mksim (m_sq st) (m_c st) (m_s st) (net_pop_agg (m_net st)) (m_pos st)) t r st');
      [intros X; reflexivity|intros X; apply Permutation_refl|lia|exact Hq|exact R].
  - (* blocking expiry *)
    split; [|exact Hh].
    apply run_other; [reflexivity| | | |].
    + intros [|]; unfold slotsX; cbn [m_c m_s]; assumption.
    + intros X; apply Permutation_refl.
    + cbn [se_time]. lia.
    + intros X x Hx. cbn [se_time]. change (cqs (mksim (m_sq st) c' s' net' (m_pos st)) X) with (cqs st X) in Hx.
      destruct (Hsx X x Hx) as [Ht Hx'].
      pose proof (arith_b _ _ _ _ _ _ E1 E2 Bn Hx') as Hbx.
      pose proof (SimTimers.since_below _ _ Ht). lia.
  - destruct H as [(E3 & tmp & sq' & Hpop & -> & ->)|(E3 & H)].
    + (* the head of the queue *)
      pose proof (arith_q _ _ _ _ _ E0 E1 E2 E3 Bsa Bit Bb Bn) as Hqd.
      pose proof (SimTimers.peek_pop_consistent _ _ _ _ _ _ _ _ _ _ _ _ (wf_simq_sq_wf _ Hwf) Hpq Hqd Hpop) as Htmp.
      destruct (cq_pop _ _ _ _ _ _ Hwf Hpop) as (Hcl & Hperm & Hin).
      split; [|eapply hpi_pop; [exact Hh|exact Hpop]].
      assert (Hrest : forall X x, In x (cq sq' X) -> (t + Z.of_N q <= se_time x)%Z).
      { intros X x Hx.
        assert (Hx0 : In x (cqs st X)).
        { unfold cqs. apply (Permutation_in _ (Permutation_sym (Hperm X))).
          destruct (_ && _); [right|]; exact Hx. }
        destruct (Hsx X x Hx0) as [Ht [Hx'|[Hx' _]]]; [|lia].
        pose proof (SimTimers.since_below _ _ Ht). lia. }
      destruct (is_complb tmp) eqn:Ec.
      * (* a completion: its time is not changed *)
        assert (Hx0 : In tmp (cqs st qic)).
        { unfold cqs. apply (Permutation_in _ (Permutation_sym (Hperm qic))).
          rewrite Bool.eqb_reflx. cbn [andb]. left. reflexivity. }
        destruct (Hsx qic tmp Hx0) as [Ht [Hx'|[Hx' _]]]; [|lia].
        pose proof (SimTimers.since_below _ _ Ht) as Hbl.
        destruct (Z.ltb_spec (se_time tmp) (t + Z.of_N q)) as [L|L]; [lia|].
        apply run_pop; [exact Ec|intros X; reflexivity| | | |].
        -- rewrite Hcl. pose proof (Hperm qic) as P. rewrite Bool.eqb_reflx in P. exact P.
        -- rewrite Hcl. pose proof (Hperm (negb qic)) as P.
           replace (Bool.eqb qic (negb qic)) with false in P by (destruct qic; reflexivity).
           apply Permutation_sym. exact P.
        -- exact Ht.
        -- intros X x Hx. specialize (Hrest X x Hx). lia.
      * (* another event *)
        set (e := if (se_time tmp <? t + Z.of_N q)%Z then set_time tmp (t + Z.of_N q)%Z else tmp).
        assert (He : is_complb e = false /\ se_time e = (t + Z.of_N q)%Z).
        { subst e. destruct (Z.ltb_spec (se_time tmp) (t + Z.of_N q)) as [L|L].
          - split; [exact Ec|reflexivity].
          - split; [exact Ec|lia]. }
        destruct He as [He1 He2].
        apply run_other; [exact He1|intros X; reflexivity| | |].
        -- intros X. pose proof (Hperm X) as P. rewrite Bool.andb_false_r in P. apply Permutation_sym. exact P.
        -- lia.
        -- intros X x Hx. rewrite He2. apply (Hrest X x Hx).
    + assert (Hmin : forall X x, In x (cqs st X) -> (t + Z.of_N (N.min sa it) <= se_time x)%Z).
      { intros X x Hx. destruct (Hsx X x Hx) as [Ht Hx'].
        pose proof (arith_t _ _ _ _ _ _ E1 E2 E3 Bb Bn Hx').
        pose proof (SimTimers.since_below _ _ Ht). lia. }
      destruct H as [(Hle & c' & s' & e & Hd & H)|(Hlt & c' & s' & e & Hd & H)].
      * (* an internal timer: pick again as of its expiry *)
        pose proof (SimTimers.do_internal_timer_spec _ _ _ _ _ _ Hd) as (ic & mi & Sp). cbv zeta in Sp.
        assert (Hs : s_sched c' = s_sched (m_c st) /\ s_sched s' = s_sched (m_s st) /\ is_complb e = false).
        { destruct ic; destruct Sp as (_ & _ & S3 & S4 & _ & _ & _ & ->); subst; auto. }
        destruct Hs as (Sc & Ss & Ec).
        set (st1 := mksim (sq_push (m_sq st) e) c' s' (m_net st) (m_pos st)) in *.
        assert (Hcq : same_cq st st1). { intros X. apply cq_push_other. exact Ec. }
        assert (Hq1 : qge st1 (t + Z.of_N it)%Z).
        { intros X x Hx. apply (Permutation_in _ (Hcq X)) in Hx. specialize (Hmin X x Hx). lia. }
        destruct (IH st1 _ r st' (SimBlocking.sq_push_wf _ _ Hwf) (hpi_push _ _ Hh) Hq1 H) as [R Hh'].
        split; [|exact Hh'].
        eapply run_skip; [|exact Hcq| |exact Hq1|exact R]; [|lia].
        intros [|]; unfold slotsX; cbn [m_c m_s]; assumption.
      * (* a scheduled action fires *)
        pose proof (SimTimers.do_scheduled_action_spec _ _ _ _ _ _ Hd) as (ic & mi & a & Sp). cbv zeta in Sp.
        destruct Sp as (S1 & S2 & S3 & _ & _ & S6 & S7 & S8).
        assert (Hc : completes a e).
        { apply completes_of_spec. destruct a; try exact S8. tauto. }
        destruct (completes_compl _ _ Hc) as [Ec _].
        set (st1 := mksim (sq_push (m_sq st) e) c' s' (m_net st) (m_pos st)) in *.
        assert (Hcq1 : Permutation (cqs st1 ic) (e :: cqs st ic)).
        { unfold cqs, st1; cbn [m_sq]. pose proof (cq_push (m_sq st) e ic) as P.
          rewrite S7, Ec, Bool.eqb_reflx in P. exact P. }
        assert (Hcq2 : Permutation (cqs st1 (negb ic)) (cqs st (negb ic))).
        { unfold cqs, st1; cbn [m_sq]. pose proof (cq_push (m_sq st) e (negb ic)) as P.
          rewrite S7 in P. replace (Bool.eqb ic (negb ic)) with false in P by (destruct ic; reflexivity).
          exact P. }
        assert (Hq1 : qge st1 (t + Z.of_N sa)%Z).
        { intros X x Hx.
          assert (Hx' : x = e \/ In x (cqs st X)).
          { destruct (Bool.bool_dec X ic) as [->|Hne].
            - apply (Permutation_in _ Hcq1) in Hx. destruct Hx as [Hx|Hx]; auto.
            - assert (X = negb ic) as -> by (destruct X, ic; try reflexivity; elim Hne; reflexivity).
              apply (Permutation_in _ Hcq2) in Hx. auto. }
          destruct Hx' as [->|Hx']; [lia|]. specialize (Hmin X x Hx'). lia. }
        destruct (IH st1 _ r st' (SimBlocking.sq_push_wf _ _ Hwf) (hpi_push _ _ Hh) Hq1 H) as [R Hh'].
        split; [|exact Hh'].
        eapply (run_fire st t st1 (t + Z.of_N sa)%Z r st' ic mi a e);
          [ | | |exact Hcq1|exact Hcq2|exact Hc|exact S6|exact S7|lia|exact Hq1|exact R].
        -- destruct ic; exact S1.
        -- destruct ic; unfold slotsX, st1; cbn [m_c m_s]; exact S2.
        -- destruct ic; unfold slotsX, st1; cbn [m_c m_s negb]; rewrite S3; reflexivity.
Qed.

Lemma pn_run_qge : forall st t r st', pn_run st t r st' ->
  forall e, r = Some e -> qge st' (se_time e) /\ (t <= se_time e)%Z.
Proof.
  intros st t r st' R. induction R as [st t|st t st1 t1 r st' _ _ Ht _ _ IH
                                      |st t st1 t1 r st' X mi a x _ _ _ _ _ _ _ _ Ht _ _ IH
                                      |st t e0 st' _ _ _ Ht Hq|st t e0 st' _ _ _ _ Ht Hq]; intros e He.
  - discriminate.
  - destruct (IH e He). split; [assumption|lia].
  - destruct (IH e He). split; [assumption|lia].
  - injection He as <-. auto.
  - injection He as <-. auto.
Qed.

(** * 4. The network stack and [trigger_update] leave queued completions alone *)

Lemma network_stack_cq : forall next sq bb net nowt sq' net' act,
  SimBlocking.wf_simq sq -> sim_network_stack next sq bb net nowt = Ok (sq', net', act) ->
  (forall X, Permutation (cq sq' X) (cq sq X)) /\ (hpi sq -> hpi sq').
Proof.
  intros next sq bb net nowt sq' net' act Hwf H. unfold sim_network_stack in H.
  assert (Hpush : forall sq0 x, is_complb x = false ->
            (forall X, Permutation (cq (sq_push sq0 x) X) (cq sq0 X)) /\ (hpi sq0 -> hpi (sq_push sq0 x))).
  { intros sq0 x Hx. split; [intros X; apply cq_push_other; exact Hx|apply hpi_push]. }
  assert (Hid : (forall X, Permutation (cq sq X) (cq sq X)) /\ (hpi sq -> hpi sq)).
  { split; [intros; apply Permutation_refl|auto]. }
  destruct (se_ev next) eqn:Eev; try (injection H as <- _ _; exact Hid).
  - destruct (se_pad next); injection H as <- _ _; apply Hpush; reflexivity.
  - injection H as <- _ _. apply Hpush; reflexivity.
  - destruct (se_replace next); [|injection H as <- _ _; apply Hpush; reflexivity].
    destruct (sq_peek_blocking sq bb (se_client next)) as [[queued|] which] eqn:Epk;
      [|injection H as <- _ _; apply Hpush; reflexivity].
    destruct (Bool.eqb (se_client queued) (se_client next) && is_tunnel_sent (se_ev queued)
              && negb (se_pad queued)); [|injection H as <- _ _; apply Hpush; reflexivity].
    destruct (negb (se_bypass next)); [injection H as <- _ _; exact Hid|].
    destruct (sq_pop_blocking sq which bb (se_client next)
                (if se_client next then n_cagg net else n_sagg net)) as [[entry sq1]|] eqn:Epop;
      [|discriminate].
    injection H as <- _ _.
    assert (Hp : exists w d, sq_pop sq w (se_client next) d = Some (entry, sq1) /\ (w = QBlocking \/ w = QBypassable)).
    { unfold sq_pop_blocking in Epop. destruct bb.
      - exists QBlocking, 0. auto.
      - exists which, (if se_client next then n_cagg net else n_sagg net). split; [exact Epop|].
        unfold sq_peek_blocking in Epk. destruct (opt_gt _ _) in Epk; injection Epk as _ <-; auto. }
    destruct Hp as (w & d & Hp & Hw).
    assert (He : se_ev entry = TETunnelSent).
    { destruct (SimBlocking.sq_pop_ok _ _ _ _ _ _ Hwf Hp) as [_ Hk]. destruct Hw as [-> | ->]; apply Hk. }
    assert (Hce : is_complb entry = false) by (unfold is_complb; rewrite He; reflexivity).
    destruct (cq_pop _ _ _ _ _ _ Hwf Hp) as (_ & Hperm & _).
    match goal with |- context [sq_push sq1 ?x] => destruct (Hpush sq1 x) as [P1 P2] end.
    { unfold is_complb. cbn [se_ev]. rewrite He. reflexivity. }
    split.
    + intros X. eapply perm_trans; [apply P1|]. pose proof (Hperm X) as P. rewrite Hce, Bool.andb_false_r in P.
      apply Permutation_sym. exact P.
    + intros Hh. apply P2. eapply hpi_pop; [exact Hh|exact Hp].
  - destruct (net_sample net nowt (se_client next)) as [[net1 nd] baseline].
    destruct (negb (se_pad next)); injection H as <- _ _; apply Hpush; reflexivity.
Qed.

Lemma apply_actions_cq : forall acts sd sq nowt ic sd' sq',
  apply_actions acts sd sq nowt ic = Ok (sd', sq') ->
  (forall X, Permutation (cq sq' X) (cq sq X)) /\ (hpi sq -> hpi sq').
Proof.
  induction acts as [|a rest IH]; intros sd sq nowt ic sd' sq' H; cbn [apply_actions] in H.
  - injection H as _ <-. split; [intros; apply Permutation_refl|auto].
  - mbind H as [sd1 sq1] E1. apply IH in H. destruct H as [P1 P2].
    assert (Hs : (forall X, Permutation (cq sq1 X) (cq sq X)) /\ (hpi sq -> hpi sq1)).
    { destruct a.
      + mbind E1 as x Eg. injection E1 as _ <-. split; [intros; apply Permutation_refl|auto].
      + mbind E1 as x Eg. injection E1 as _ <-. split; [intros; apply Permutation_refl|auto].
      + mbind E1 as x Eg. injection E1 as _ <-. split; [intros; apply Permutation_refl|auto].
      + mbind E1 as cur Eg.
        match type of E1 with (if ?b then _ else _) = _ => destruct b end; injection E1 as _ <-.
        * split; [intros X; apply cq_push_other; reflexivity|apply hpi_push].
        * split; [intros; apply Permutation_refl|auto]. }
    destruct Hs as [Q1 Q2]. split; [intros X; eapply perm_trans; [apply P1|apply Q1]|auto].
Qed.

Lemma trigger_update_spec : forall cf tp sd p next nowt sq ic sd' sq' p',
  trigger_update cf tp sd p next nowt sq ic = Ok (sd', sq', p') ->
  exists fw' acts, trigger_events cf tp (set_pos (s_fw sd) p) [se_ev next] nowt = Ok (fw', acts) /\
    apply_actions acts (side_set_fw sd fw') sq nowt ic = Ok (sd', sq').
Proof.
  intros cf tp sd p next nowt sq ic sd' sq' p' H. unfold trigger_update in H.
  mbind H as [fw' acts] Et. mbind H as [sd1 sq1] Ea. injection H as <- <- _. eauto.
Qed.

(** * 5. The token invariant *)

Definition tm (r : hrec) : Z := se_time (h_ev r).
Definition sdr (r : hrec) : bool := se_client (h_ev r).

Definition sched_rel (a : taction) : bool :=
  match a with
  | TSendPadding _ _ _ _ | TBlockOutgoing _ _ _ _ _ => true
  | TCancel _ TAction | TCancel _ TAll => true
  | _ => false
  end.

Lemma is_sched_for_eq : forall m a, is_sched_for m a = (taction_machine a =? m) && sched_rel a.
Proof. reflexivity. Qed.

(** every action-timer action for [m] on side [X] in a record strictly between [j] and [bound]
    was issued at or after [t] *)
Definition no_later (H : list hrec) (X : bool) (m : N) (j bound : nat) (t : Z) : Prop :=
  forall j' rj' a', (j < j' < bound)%nat -> nth_error H j' = Some rj' -> sdr rj' = X ->
    In a' (h_acts rj') -> is_sched_for m a' = true -> (t <= tm rj')%Z.

(** [x] is the completion of an action returned in record [j] (< bound) *)
Definition cause (H : list hrec) (bound : nat) (x : sev) (j : nat) : Prop :=
  exists rj a, (j < bound)%nat /\ nth_error H j = Some rj /\ sdr rj = se_client x /\ In a (h_acts rj) /\
    taction_machine a = cmach x /\ completes a x /\
    se_time x = (tm rj + Z.of_N (timeout_of a))%Z /\
    no_later H (se_client x) (cmach x) j bound (se_time x).

Definition tok (p : sev * nat) : N * nat := (cmach (fst p), snd p).

Definition slot_ok (H : list hrec) (f : nat -> nat) (G : bool -> list (sev * nat))
           (X : bool) (mi : nat) (a : taction) (due : Z) : Prop :=
  exists j rj, nth_error H j = Some rj /\ sdr rj = X /\ In a (h_acts rj) /\
    N.to_nat (taction_machine a) = mi /\ due = (tm rj + Z.of_N (timeout_of a))%Z /\
    (forall j' rj' a', (j < j')%nat -> nth_error H j' = Some rj' -> sdr rj' = X -> In a' (h_acts rj') ->
       is_sched_for (taction_machine a) a' = true -> False) /\
    (forall k rk, nth_error H k = Some rk -> sdr rk = X -> is_complb (h_ev rk) = true ->
       cmach (h_ev rk) = taction_machine a -> f k <> j) /\
    (forall x j0, In (x, j0) (G X) -> cmach x = taction_machine a -> j0 <> j).

(** [f k]: the record whose action completion [k] consumes; [G X]: the completions queued on side
    [X] (plus [ex X]: popped, not yet recorded), each with the record whose action it consumes *)
Record tinv (H : list hrec) (st : sim) (t : Z) (f : nat -> nat) (G : bool -> list (sev * nat))
       (ex : bool -> list sev) : Prop := mk_tinv {
  ti_time : forall r, In r H -> (tm r <= t)%Z;
  ti_slot : forall X mi a due, nth_error (slotsX st X) mi = Some (Some (a, due)) -> slot_ok H f G X mi a due;
  ti_qperm : forall X, Permutation (map fst (G X)) (ex X ++ cqs st X);
  ti_qcause : forall X x j, In (x, j) (G X) -> se_client x = X /\ cause H (length H) x j /\ (se_time x <= t)%Z;
  ti_qnodup : forall X, NoDup (map tok (G X));
  ti_fcause : forall k rk, nth_error H k = Some rk -> is_complb (h_ev rk) = true -> cause H k (h_ev rk) (f k);
  ti_finj : forall k1 k2 rk1 rk2, k1 <> k2 -> nth_error H k1 = Some rk1 -> nth_error H k2 = Some rk2 ->
      is_complb (h_ev rk1) = true -> is_complb (h_ev rk2) = true -> sdr rk1 = sdr rk2 ->
      cmach (h_ev rk1) = cmach (h_ev rk2) -> f k1 <> f k2;
  ti_fq : forall k rk x j, nth_error H k = Some rk -> is_complb (h_ev rk) = true -> In (x, j) (G (sdr rk)) ->
      cmach x = cmach (h_ev rk) -> f k <> j
}.

Definition noex : bool -> list sev := fun _ => [].
Definition ex_of (e : sev) : bool -> list sev :=
  fun X => if is_complb e && Bool.eqb (se_client e) X then [e] else [].

Lemma tinv_move : forall H st t f G ex st1 t1 ex',
  tinv H st t f G ex -> same_slots st st1 ->
  (forall X, Permutation (ex X ++ cqs st X) (ex' X ++ cqs st1 X)) -> (t <= t1)%Z ->
  tinv H st1 t1 f G ex'.
Proof.
  intros H st t f G ex st1 t1 ex' I Hs Hp Ht. destruct I as [I1 I2 I3 I4 I5 I6 I7 I8]. constructor.
  - intros r Hr. specialize (I1 r Hr). lia.
  - intros X mi a due Hn. rewrite Hs in Hn. apply I2. exact Hn.
  - intros X. eapply perm_trans; [apply I3|apply Hp].
  - intros X x j Hin. destruct (I4 X x j Hin) as (A & B & C). split; [exact A|]. split; [exact B|lia].
  - exact I5.
  - exact I6.
  - exact I7.
  - exact I8.
Qed.

Lemma nth_upd_none_other : forall {A} (l : list (option A)) i j x,
  nth_error (upd l i None) j = Some (Some x) -> nth_error l j = Some (Some x) /\ i <> j.
Proof.
  intros A l. induction l as [|a l IH]; intros [|i] [|j] x H; cbn [upd nth_error] in *; try discriminate; auto.
  destruct (IH _ _ _ H). auto.
Qed.

Lemma tinv_fire : forall H st t f G st1 t1 X mi a x,
  tinv H st t f G noex ->
  nth_error (slotsX st X) mi = Some (Some (a, t1)) ->
  slotsX st1 X = upd (slotsX st X) mi None -> slotsX st1 (negb X) = slotsX st (negb X) ->
  Permutation (cqs st1 X) (x :: cqs st X) -> Permutation (cqs st1 (negb X)) (cqs st (negb X)) ->
  completes a x -> se_time x = t1 -> se_client x = X -> (t <= t1)%Z ->
  exists G', tinv H st1 t1 f G' noex.
Proof.
  intros H st t f G st1 t1 X mi a x I Hn Hs1 Hs2 Hp1 Hp2 Hc Htx Hcx Ht.
  destruct I as [I1 I2 I3 I4 I5 I6 I7 I8].
  destruct (I2 X mi a t1 Hn) as (j & rj & J1 & J2 & J3 & J4 & J5 & J6 & J7 & J8).
  destruct (completes_compl _ _ Hc) as [Hcb Hcm].
  exists (fun Y => if Bool.eqb Y X then (x, j) :: G Y else G Y).
  assert (HnegX : Bool.eqb (negb X) X = false) by (destruct X; reflexivity).
  constructor.
  - intros r Hr. specialize (I1 r Hr). lia.
  - intros Y mi' a' due' Hn'.
    assert (Ho : slot_ok H f G Y mi' a' due' /\ (Y = X -> mi <> mi')).
    { destruct (Bool.bool_dec Y X) as [->|Hne].
      - rewrite Hs1 in Hn'. apply nth_upd_none_other in Hn'. destruct Hn' as [Hn' Hd]. split; [apply I2; exact Hn'|auto].
      - assert (Y = negb X) as -> by (destruct Y, X; try reflexivity; elim Hne; reflexivity).
        rewrite Hs2 in Hn'. split; [apply I2; exact Hn'|]. intros E. destruct X; discriminate. }
    destruct Ho as [(j' & rj' & K1 & K2 & K3 & K4 & K5 & K6 & K7 & K8) Hd].
    exists j', rj'. repeat (split; [assumption|]).
    intros x0 j0 Hin Hm.
    destruct (Bool.eqb Y X) eqn:EY; [|eapply K8; eauto].
    apply Bool.eqb_prop in EY.
    destruct Hin as [Hin|Hin]; [|eapply K8; eauto].
    injection Hin as <- <-. exfalso. apply (Hd EY). rewrite <- J4, <- K4. f_equal. congruence.
  - intros Y. cbn [noex app]. destruct (Bool.bool_dec Y X) as [->|Hne].
    + rewrite Bool.eqb_reflx. cbn [map fst]. eapply perm_trans; [|apply Permutation_sym; exact Hp1].
      apply perm_skip. apply (I3 X).
    + assert (Y = negb X) as -> by (destruct Y, X; try reflexivity; elim Hne; reflexivity).
      rewrite HnegX. eapply perm_trans; [apply (I3 (negb X))|]. apply Permutation_sym. exact Hp2.
  - intros Y x0 j0 Hin.
    assert (Hold : In (x0, j0) (G Y) -> se_client x0 = Y /\ cause H (length H) x0 j0 /\ (se_time x0 <= t1)%Z).
    { intros Hi. destruct (I4 Y x0 j0 Hi) as (A & B & C). split; [exact A|]. split; [exact B|lia]. }
    destruct (Bool.eqb Y X) eqn:EY; [|auto].
    apply Bool.eqb_prop in EY. subst Y.
    destruct Hin as [Hin|Hin]; [|auto]. injection Hin as <- <-.
    split; [exact Hcx|]. split; [|lia].
    exists rj, a. split; [apply nth_error_Some; congruence|]. split; [exact J1|]. split; [congruence|].
    split; [exact J3|]. split; [congruence|]. split; [exact Hc|]. split; [congruence|].
    intros j' rj' a' Hj' Hnj' Hsd' Hin' Hsf. exfalso.
    apply (J6 j' rj' a'); try assumption; [lia|congruence|congruence].
  - intros Y. destruct (Bool.eqb Y X) eqn:EY; [|apply I5].
    apply Bool.eqb_prop in EY. subst Y. cbn [map]. constructor; [|apply I5].
    intros Hin. apply in_map_iff in Hin. destruct Hin as ([x0 j0] & Ht0 & Hin0).
    unfold tok in Ht0. cbn [fst snd] in Ht0. injection Ht0 as Hm0 ->.
    apply (J8 x0 j Hin0); [congruence|reflexivity].
  - exact I6.
  - exact I7.
  - intros k rk x0 j0 Hk Hcb0 Hin Hm.
    destruct (Bool.eqb (sdr rk) X) eqn:EY; [|eapply I8; eauto].
    apply Bool.eqb_prop in EY.
    destruct Hin as [Hin|Hin]; [|eapply I8; eauto].
    injection Hin as <- <-. apply (J7 k rk Hk EY Hcb0). congruence.
Qed.

Lemma ex_of_other : forall e X, is_complb e = false -> ex_of e X = [].
Proof. intros e X H. unfold ex_of. rewrite H. reflexivity. Qed.

Theorem tinv_run : forall st t r st', pn_run st t r st' ->
  forall H f G, tinv H st t f G noex ->
  match r with None => True | Some e => exists G', tinv H st' (se_time e) f G' (ex_of e) end.
Proof.
  intros st t r st' R.
  induction R as [st t|st t st1 t1 r st' Hs Hc Ht _ _ IH
                 |st t st1 t1 r st' X mi a x Hn Hs1 Hs2 Hp1 Hp2 Hcm Htx Hcx Ht _ _ IH
                 |st t e st' He Hs Hc Ht _|st t e st' He Hs Hp1 Hp2 Ht _]; intros H f G I.
  - exact Logic.I.
  - apply (IH H f G). eapply tinv_move; [exact I|exact Hs| |exact Ht].
    intros X. cbn [noex app]. apply Permutation_sym. apply Hc.
  - destruct (tinv_fire _ _ _ _ _ _ _ _ _ _ _ I Hn Hs1 Hs2 Hp1 Hp2 Hcm Htx Hcx Ht) as (G' & I').
    apply (IH H f G' I').
  - exists G. eapply tinv_move; [exact I|exact Hs| |exact Ht].
    intros X. rewrite (ex_of_other _ _ He). cbn [noex app]. apply Permutation_sym. apply Hc.
  - exists G. eapply tinv_move; [exact I|exact Hs| |exact Ht].
    intros X. cbn [noex app]. unfold ex_of. rewrite He. cbn [andb].
    destruct (Bool.eqb (se_client e) X) eqn:EX.
    + apply Bool.eqb_prop in EX. subst X. cbn [app]. exact Hp1.
    + assert (X = negb (se_client e)) as -> by (destruct X, (se_client e); try reflexivity; discriminate).
      cbn [app]. apply Permutation_sym. exact Hp2.
Qed.

(** ** appending the record of the returned event *)

Lemma nth_snoc_inv : forall {A} (l : list A) r i x,
  nth_error (l ++ [r]) i = Some x -> ((i < length l)%nat /\ nth_error l i = Some x) \/ (i = length l /\ x = r).
Proof.
  intros A l r i x H. destruct (Nat.lt_ge_cases i (length l)) as [L|L].
  - left. split; [exact L|]. rewrite nth_error_app1 in H by exact L. exact H.
  - right. rewrite nth_error_app2 in H by exact L.
    destruct (i - length l)%nat as [|d] eqn:E; cbn [nth_error] in H.
    + injection H as <-. split; [lia|reflexivity].
    + destruct d; discriminate.
Qed.

Lemma nth_snoc_lt : forall {A} (l : list A) r i x, nth_error l i = Some x -> nth_error (l ++ [r]) i = Some x.
Proof.
  intros A l r i x H. rewrite nth_error_app1; [exact H|]. apply nth_error_Some. congruence.
Qed.

Lemma nth_snoc_last : forall {A} (l : list A) r, nth_error (l ++ [r]) (length l) = Some r.
Proof. intros A l r. rewrite nth_error_app2 by lia. rewrite Nat.sub_diag. reflexivity. Qed.

Lemma cause_snoc : forall H r b x j, cause H b x j -> (b <= length H)%nat -> cause (H ++ [r]) b x j.
Proof.
  intros H r b x j (rj & a & C1 & C2 & C3 & C4 & C5 & C6 & C7 & C8) Hb.
  exists rj, a. split; [exact C1|]. split; [apply nth_snoc_lt; exact C2|].
  repeat (split; [assumption|]).
  intros j' rj' a' Hj' Hn. apply nth_snoc_inv in Hn. destruct Hn as [[_ Hn]|[-> _]]; [|lia].
  apply (C8 j' rj' a' Hj' Hn).
Qed.

Lemma cause_snoc_S : forall H r x j, cause H (length H) x j -> (se_time x <= tm r)%Z ->
  cause (H ++ [r]) (S (length H)) x j.
Proof.
  intros H r x j (rj & a & C1 & C2 & C3 & C4 & C5 & C6 & C7 & C8) Ht.
  exists rj, a. split; [lia|]. split; [apply nth_snoc_lt; exact C2|].
  repeat (split; [assumption|]).
  intros j' rj' a' Hj' Hn. apply nth_snoc_inv in Hn. destruct Hn as [[L Hn]|[-> ->]].
  - apply (C8 j' rj' a'); [lia|exact Hn].
  - intros _ _ _. exact Ht.
Qed.

Lemma sched_after_some : forall acts t mi cur a due,
  SimTimers.sched_after acts t mi cur = Some (a, due) ->
  (cur = Some (a, due) /\
   forall a', In a' acts -> N.to_nat (taction_machine a') = mi -> sched_rel a' = false) \/
  (In a acts /\ N.to_nat (taction_machine a) = mi /\ due = (t + Z.of_N (timeout_of a))%Z).
Proof.
  unfold SimTimers.sched_after.
  induction acts as [|a0 rest IH]; intros t mi cur a due H; cbn [fold_left] in H.
  - left. split; [exact H|]. intros a' [].
  - apply IH in H. destruct H as [[Hc Hno]|(Hin & Hm & Hd)].
    + unfold SimTimers.sched_step in Hc.
      destruct (Nat.eqb (N.to_nat (taction_machine a0)) mi) eqn:Em.
      * apply Nat.eqb_eq in Em.
        destruct a0 as [m tmr|m tmo by_ rp|m tmo dur by_ rp|m dur rp].
        -- destruct tmr; try discriminate. left. split; [exact Hc|].
           intros a' [<-|Hin] Hm'; [reflexivity|auto].
        -- injection Hc as <- <-. right. split; [left; reflexivity|]. split; [exact Em|reflexivity].
        -- injection Hc as <- <-. right. split; [left; reflexivity|]. split; [exact Em|reflexivity].
        -- left. split; [exact Hc|]. intros a' [<-|Hin] Hm'; [reflexivity|auto].
      * apply Nat.eqb_neq in Em. left. split; [exact Hc|].
        intros a' [<-|Hin] Hm'; [contradiction|auto].
    + right. split; [right; exact Hin|]. auto.
Qed.

Lemma is_sched_for_inv : forall m a, is_sched_for m a = true -> taction_machine a = m /\ sched_rel a = true.
Proof.
  intros m a H. rewrite is_sched_for_eq in H. apply andb_prop in H. destruct H as [H1 H2].
  apply N.eqb_eq in H1. auto.
Qed.

(** the bookkeeping of the popped completion: it moves from the queue ghost to [f] *)
Lemma tinv_take : forall H st t f G e,
  tinv H st t f G (ex_of e) ->
  exists f' G',
    (forall i, (i < length H)%nat -> f' i = f i) /\
    (forall X x j, In (x, j) (G' X) -> In (x, j) (G X)) /\
    (forall X, NoDup (map tok (G' X))) /\
    (forall X, Permutation (map fst (G' X)) (cqs st X)) /\
    (is_complb e = true ->
       In (e, f' (length H)) (G (se_client e)) /\
       forall x j, In (x, j) (G' (se_client e)) -> cmach x = cmach e -> j <> f' (length H)).
Proof.
  intros H st t f G e I. destruct I as [I1 I2 I3 I4 I5 I6 I7 I8].
  destruct (is_complb e) eqn:Ec.
  - pose proof (I3 (se_client e)) as P. unfold ex_of in P. rewrite Ec, Bool.eqb_reflx in P. cbn [andb app] in P.
    assert (Hin : In e (map fst (G (se_client e)))).
    { apply (Permutation_in _ (Permutation_sym P)). left. reflexivity. }
    apply in_map_iff in Hin. destruct Hin as ([e0 j] & He0 & Hin). cbn [fst] in He0. subst e0.
    destruct (in_split _ _ Hin) as (G1 & G2 & EG).
    exists (fun i => if Nat.eqb i (length H) then j else f i),
           (fun X => if Bool.eqb (se_client e) X then G1 ++ G2 else G X).
    split; [|split; [|split; [|split]]].
    + intros i Hi. destruct (Nat.eqb_spec i (length H)); [lia|reflexivity].
    + intros X x j0 Hx. destruct (Bool.eqb (se_client e) X) eqn:EX; [|exact Hx].
      apply Bool.eqb_prop in EX. subst X. rewrite EG. apply in_app_or in Hx. apply in_or_app.
      destruct Hx; [left|right; right]; assumption.
    + intros X. destruct (Bool.eqb (se_client e) X) eqn:EX; [|apply I5].
      apply Bool.eqb_prop in EX. subst X.
      pose proof (I5 (se_client e)) as N. rewrite EG, map_app in N. cbn [map] in N.
      rewrite map_app. eapply NoDup_remove_1. exact N.
    + intros X. destruct (Bool.eqb (se_client e) X) eqn:EX.
      * apply Bool.eqb_prop in EX. subst X. rewrite EG, map_app in P. cbn [map fst] in P.
        rewrite map_app. apply Permutation_sym. eapply Permutation_cons_app_inv.
        apply Permutation_sym. exact P.
      * pose proof (I3 X) as P'. unfold ex_of in P'. rewrite Ec, EX in P'. exact P'.
    + intros _. rewrite Nat.eqb_refl, Bool.eqb_reflx. split; [exact Hin|].
      intros x j0 Hx Hm ->.
      pose proof (I5 (se_client e)) as N. rewrite EG, map_app in N. cbn [map] in N.
      apply NoDup_remove_2 in N. apply N. rewrite <- map_app.
      apply in_map_iff. exists (x, j). split; [|exact Hx]. unfold tok. cbn [fst snd]. congruence.
  - exists f, G. split; [reflexivity|]. split; [auto|]. split; [exact I5|]. split; [|discriminate].
    intros X. pose proof (I3 X) as P. rewrite (ex_of_other _ _ Ec) in P. exact P.
Qed.

Theorem tinv_append : forall H st' t f G e acts st3,
  tinv H st' t f G (ex_of e) -> t = se_time e ->
  slotsX st3 (negb (se_client e)) = slotsX st' (negb (se_client e)) ->
  length (slotsX st3 (se_client e)) = length (slotsX st' (se_client e)) ->
  (forall mi cur, nth_error (slotsX st' (se_client e)) mi = Some cur ->
     nth_error (slotsX st3 (se_client e)) mi = Some (SimTimers.sched_after acts t mi cur)) ->
  same_cq st' st3 ->
  exists f' G', tinv (H ++ [mkhrec e acts]) st3 t f' G' noex.
Proof.
  intros H st' t f G e acts st3 I Ht Hso Hlen Hsa Hcq.
  destruct (tinv_take _ _ _ _ _ _ I) as (f' & G' & A1 & A2 & A3 & A4 & A5).
  destruct I as [I1 I2 I3 I4 I5 I6 I7 I8].
  set (rnew := mkhrec e acts).
  assert (Htm : tm rnew = t) by (unfold tm, rnew; cbn [h_ev]; congruence).
  assert (Hsd : sdr rnew = se_client e) by reflexivity.
  (* the token of the popped completion *)
  assert (A5' : is_complb e = true -> cause H (length H) e (f' (length H)) /\ (f' (length H) < length H)%nat).
  { intros Hc. destruct (A5 Hc) as [Hin _]. destruct (I4 _ _ _ Hin) as (_ & C & _).
    split; [exact C|]. destruct C as (rj & a & C1 & _). exact C1. }
  exists f', G'. constructor.
  - intros r Hr. apply in_app_or in Hr. destruct Hr as [Hr|[<-|[]]]; [apply I1; exact Hr|lia].
  - (* slots *)
    intros X mi a due Hn.
    assert (Hlift : forall j rj,
              nth_error H j = Some rj -> sdr rj = X -> In a (h_acts rj) -> N.to_nat (taction_machine a) = mi ->
              due = (tm rj + Z.of_N (timeout_of a))%Z ->
              (forall j' rj' a', (j < j')%nat -> nth_error H j' = Some rj' -> sdr rj' = X -> In a' (h_acts rj') ->
                 is_sched_for (taction_machine a) a' = true -> False) ->
              (forall k0 rk, nth_error H k0 = Some rk -> sdr rk = X -> is_complb (h_ev rk) = true ->
                 cmach (h_ev rk) = taction_machine a -> f k0 <> j) ->
              (forall x j0, In (x, j0) (G X) -> cmach x = taction_machine a -> j0 <> j) ->
              (sdr rnew = X -> forall a', In a' acts -> is_sched_for (taction_machine a) a' = true -> False) ->
              slot_ok (H ++ [rnew]) f' G' X mi a due).
    { intros j rj K1 K2 K3 K4 K5 K6 K7 K8 Knew.
      exists j, rj. split; [apply nth_snoc_lt; exact K1|]. repeat (split; [assumption|]).
      split; [|split].
      - intros j' rj' a' Hj' Hn' Hs' Hin' Hsf. apply nth_snoc_inv in Hn'. destruct Hn' as [[_ Hn']|[_ ->]].
        + eapply K6; eauto.
        + eapply Knew; eauto.
      - intros k0 rk Hk0 Hsk Hck Hmk. apply nth_snoc_inv in Hk0. destruct Hk0 as [[L Hk0]|[-> ->]].
        + rewrite (A1 k0 L). eapply K7; eauto.
        + cbn [rnew h_ev] in Hck, Hmk. destruct (A5 Hck) as [Hin _].
          rewrite Hsd in Hsk. rewrite Hsk in Hin. eapply K8; eauto.
      - intros x j0 Hx Hm. eapply K8; eauto. }
    destruct (Bool.bool_dec X (se_client e)) as [->|Hne].
    + assert (Hcur : exists cur, nth_error (slotsX st' (se_client e)) mi = Some cur).
      { apply SimHeap.sh_nth_some. rewrite <- Hlen. apply nth_error_Some. congruence. }
      destruct Hcur as (cur & Hcur). rewrite (Hsa mi cur Hcur) in Hn. injection Hn as Hn.
      apply sched_after_some in Hn. destruct Hn as [[-> Hno]|(Hin & Hm & Hd)].
      * destruct (I2 _ _ _ _ Hcur) as (j & rj & K1 & K2 & K3 & K4 & K5 & K6 & K7 & K8).
        apply (Hlift j rj K1 K2 K3 K4 K5 K6 K7 K8).
        intros _ a' Hin' Hsf. apply is_sched_for_inv in Hsf. destruct Hsf as [Hm' Hr'].
        rewrite (Hno a' Hin') in Hr'; [discriminate|]. congruence.
      * exists (length H), rnew. split; [apply nth_snoc_last|]. split; [reflexivity|]. split; [exact Hin|].
        split; [exact Hm|]. split; [rewrite Htm; exact Hd|]. split; [|split].
        -- intros j' rj' a' Hj' Hn'. assert (L : (j' < length (H ++ [rnew]))%nat) by (apply nth_error_Some; congruence).
           rewrite app_length in L. cbn [length] in L. lia.
        -- intros k0 rk Hk0 Hsk Hck Hmk. apply nth_snoc_inv in Hk0. destruct Hk0 as [[L Hk0]|[-> ->]].
           ++ rewrite (A1 k0 L). destruct (I6 k0 rk Hk0 Hck) as (rj & a0 & C1 & _). lia.
           ++ cbn [rnew h_ev] in Hck. destruct (A5' Hck) as [_ L]. lia.
        -- intros x j0 Hx Hm0. apply A2 in Hx. destruct (I4 _ _ _ Hx) as (_ & (rj & a0 & C1 & _) & _). lia.
    + assert (X = negb (se_client e)) as -> by (destruct X, (se_client e); try reflexivity; elim Hne; reflexivity).
      rewrite Hso in Hn. destruct (I2 _ _ _ _ Hn) as (j & rj & K1 & K2 & K3 & K4 & K5 & K6 & K7 & K8).
      apply (Hlift j rj K1 K2 K3 K4 K5 K6 K7 K8).
      intros E. rewrite Hsd in E. destruct (se_client e); discriminate.
  - intros X. cbn [noex app]. eapply perm_trans; [apply A4|]. apply Permutation_sym. apply Hcq.
  - intros X x j Hx. apply A2 in Hx. destruct (I4 _ _ _ Hx) as (B1 & B2 & B3).
    split; [exact B1|]. split; [|exact B3].
    rewrite app_length. cbn [length]. rewrite Nat.add_1_r. apply cause_snoc_S; [exact B2|lia].
  - exact A3.
  - intros k0 rk Hk0 Hck. apply nth_snoc_inv in Hk0. destruct Hk0 as [[L Hk0]|[-> ->]].
    + rewrite (A1 k0 L). apply cause_snoc; [apply (I6 k0 rk Hk0 Hck)|lia].
    + cbn [rnew h_ev] in *. destruct (A5' Hck) as [C _]. apply cause_snoc; [exact C|lia].
  - intros k1 k2 rk1 rk2 Hne Hk1 Hk2 Hc1 Hc2 Hs Hm.
    apply nth_snoc_inv in Hk1. apply nth_snoc_inv in Hk2.
    destruct Hk1 as [[L1 Hk1]|[-> ->]]; destruct Hk2 as [[L2 Hk2]|[-> ->]].
    + rewrite (A1 k1 L1), (A1 k2 L2). eapply I7; eauto.
    + rewrite (A1 k1 L1). cbn [rnew h_ev] in Hc2, Hm. destruct (A5 Hc2) as [Hin _].
      rewrite Hsd in Hs. rewrite <- Hs in Hin. eapply I8; eauto.
    + rewrite (A1 k2 L2). cbn [rnew h_ev] in Hc1, Hm. destruct (A5 Hc1) as [Hin _].
      rewrite Hsd in Hs. rewrite Hs in Hin. intros E. symmetry in E. revert E. eapply I8; eauto.
    + contradiction.
  - intros k0 rk x j Hk0 Hck Hx Hm. apply nth_snoc_inv in Hk0. destruct Hk0 as [[L Hk0]|[-> ->]].
    + rewrite (A1 k0 L). apply A2 in Hx. eapply I8; eauto.
    + cbn [rnew h_ev] in Hck, Hm. rewrite Hsd in Hx. destruct (A5 Hck) as [_ Hf].
      intros E. apply (Hf x j Hx Hm). symmetry. exact E.
Qed.

(** * 6. The loop *)

(** what the invariant says about a finished history *)
Definition fin (H : list hrec) (f : nat -> nat) : Prop :=
  (forall k rk, nth_error H k = Some rk -> is_complb (h_ev rk) = true -> cause H k (h_ev rk) (f k)) /\
  (forall k1 k2 rk1 rk2, k1 <> k2 -> nth_error H k1 = Some rk1 -> nth_error H k2 = Some rk2 ->
      is_complb (h_ev rk1) = true -> is_complb (h_ev rk2) = true -> sdr rk1 = sdr rk2 ->
      cmach (h_ev rk1) = cmach (h_ev rk2) -> f k1 <> f k2).

Lemma tinv_fin : forall H st t f G ex, tinv H st t f G ex -> fin H f.
Proof. intros H st t f G ex I. split; [exact (ti_fcause _ _ _ _ _ _ I)|exact (ti_finj _ _ _ _ _ _ I)]. Qed.

(** one iteration of the main loop *)
Lemma iter_tinv : forall cc sc tp st t next st1 sq2 net2 act X sd' sq3 pos3 H f G,
  SimBlocking.sq_inv (m_sq st) -> hpi (m_sq st) -> qge st t -> tinv H st t f G noex ->
  pick_next (pn_fuel st) st t = Ok (Some next, st1) ->
  sim_network_stack next (m_sq st1) (if se_client next then s_bbypass (m_c st1) else s_bbypass (m_s st1))
                    (m_net st1) (se_time next) = Ok (sq2, net2, act) ->
  se_client next = X ->
  trigger_update (if X then cc else sc) tp (if X then m_c st1 else m_s st1) (m_pos st1) next (se_time next) sq2 X
    = Ok (sd', sq3, pos3) ->
  let st3 := mksim sq3 (if X then sd' else m_c st1) (if X then m_s st1 else sd') net2 pos3 in
  SimBlocking.sq_inv (m_sq st3) /\ hpi (m_sq st3) /\ qge st3 (se_time next) /\
  exists f' G', tinv (H ++ [mkhrec next (acts_for cc sc tp st1 next)]) st3 (se_time next) f' G' noex.
Proof.
  intros cc sc tp st t next st1 sq2 net2 act X sd' sq3 pos3 H f G Hinv Hh Hq I Ep En HX Et st3.
  destruct (pick_next_run _ _ _ _ _ (proj1 Hinv) Hh Hq Ep) as [R Hh1].
  destruct (pn_run_qge _ _ _ _ R next eq_refl) as [Hq1 Ht1].
  destruct (tinv_run _ _ _ _ R H f G I) as (G1 & I1).
  pose proof (SimBlocking.pick_next_inv _ _ _ _ _ Hinv Ep) as Hinv1.
  pose proof (SimBlocking.network_stack_inv _ _ _ _ _ _ _ _ Hinv1 En) as Hinv2.
  destruct (network_stack_cq _ _ _ _ _ _ _ _ (proj1 Hinv1) En) as [P2 Hh2].
  pose proof (SimBlocking.trigger_update_inv _ _ _ _ _ _ _ _ _ _ _ Hinv2 Et) as Hinv3.
  destruct (trigger_update_spec _ _ _ _ _ _ _ _ _ _ _ Et) as (fw' & acts & Ete & Ea).
  destruct (apply_actions_cq _ _ _ _ _ _ _ Ea) as [P3 Hh3].
  destruct (SimTimers.apply_actions_spec _ _ _ _ _ _ _ Ea) as (L1 & _ & S1 & _).
  cbn [side_set_fw s_sched] in L1, S1.
  assert (Hacts : acts_for cc sc tp st1 next = acts).
  { unfold acts_for. rewrite HX. rewrite Ete. reflexivity. }
  assert (Hcq : same_cq st1 st3).
  { intros Y. unfold cqs, st3. cbn [m_sq]. eapply perm_trans; [apply P3|apply P2]. }
  split; [exact Hinv3|]. split; [apply Hh3; apply Hh2; exact Hh1|]. split.
  - intros Y x Hx. apply (Permutation_in _ (Hcq Y)) in Hx. apply (Hq1 Y x Hx).
  - rewrite Hacts. apply (tinv_append H st1 (se_time next) f G1 next acts st3 I1 eq_refl); rewrite ?HX.
    + unfold slotsX, st3. destruct X; reflexivity.
    + unfold slotsX, st3. destruct X; cbn [m_c m_s]; exact L1.
    + unfold slotsX, st3. destruct X; cbn [m_c m_s]; exact S1.
    + exact Hcq.
Qed.

Theorem loop_fin : forall fuel cc sc tp args st t hist iters Hout,
  sim_loop_h fuel cc sc tp args st t hist iters = Ok Hout ->
  forall f G, SimBlocking.sq_inv (m_sq st) -> hpi (m_sq st) -> qge st t -> tinv (rev hist) st t f G noex ->
  exists f', fin Hout f'.
Proof.
  induction fuel as [|fuel IH]; intros cc sc tp args st t hist iters Hout H f G Hinv Hh Hq I; [discriminate|].
  cbn [sim_loop_h] in H.
  destruct (pick_next (pn_fuel st) st t) as [[nx st1]|k|] eqn:Ep; cbn [bind] in H; try discriminate.
  destruct nx as [next|]; [|injection H as <-; exists f; eapply tinv_fin; exact I].
  destruct (se_time next <? t)%Z; [discriminate|].
  destruct (sim_network_stack next (m_sq st1) _ (m_net st1) (se_time next)) as [[[sq2 net2] act]|k|] eqn:En;
    cbn [bind] in H; try discriminate.
  assert (Hu : exists c3 s3 sq3 pos3,
             (let st3 := mksim sq3 c3 s3 net2 pos3 in
              SimBlocking.sq_inv (m_sq st3) /\ hpi (m_sq st3) /\ qge st3 (se_time next) /\
              exists f' G', tinv (rev hist ++ [mkhrec next (acts_for cc sc tp st1 next)]) st3 (se_time next) f' G' noex) /\
             (let st3 := mksim sq3 c3 s3 net2 pos3 in
              let hist' := mkhrec next (acts_for cc sc tp st1 next) :: hist in
              (if (0 <? a_max_trace args) && (a_max_trace args <=? N.of_nat (length hist')) then Ok (rev hist')
               else
                 let iters' := iters + 1 in
                 if (0 <? a_max_iter args) && (a_max_iter args <=? iters') then Ok (rev hist')
                 else if negb (a_continue args) && sq_no_normal sq3 then Ok (rev hist')
                 else sim_loop_h fuel cc sc tp args st3 (se_time next) hist' iters') = Ok Hout)).
  { destruct (se_client next) eqn:Ec.
    - destruct (trigger_update cc tp (m_c st1) (m_pos st1) next (se_time next) sq2 true) as [[[c' sq'] p']|k|] eqn:Et;
        cbn [bind] in H; try discriminate.
      exists c', (m_s st1), sq', p'. split; [|exact H].
      apply (iter_tinv cc sc tp st t next st1 sq2 net2 act true c' sq' p' (rev hist) f G Hinv Hh Hq I Ep); auto.
      rewrite Ec. exact En.
    - destruct (trigger_update sc tp (m_s st1) (m_pos st1) next (se_time next) sq2 false) as [[[s' sq'] p']|k|] eqn:Et;
        cbn [bind] in H; try discriminate.
      exists (m_c st1), s', sq', p'. split; [|exact H].
      apply (iter_tinv cc sc tp st t next st1 sq2 net2 act false s' sq' p' (rev hist) f G Hinv Hh Hq I Ep); auto.
      rewrite Ec. exact En. }
  clear H. destruct Hu as (c3 & s3 & sq3 & pos3 & (Hinv3 & Hh3 & Hq3 & f' & G' & I3) & H). cbv zeta in H.
  assert (Hfin : exists f'', fin (rev (mkhrec next (acts_for cc sc tp st1 next) :: hist)) f'').
  { exists f'. cbn [rev]. eapply tinv_fin. exact I3. }
  destruct (_ && _) in H; [injection H as <-; exact Hfin|].
  destruct (_ && _) in H; [injection H as <-; exact Hfin|].
  destruct (_ && _) in H; [injection H as <-; exact Hfin|].
  eapply (IH _ _ _ _ _ _ _ _ _ H f' G'); try assumption.
Qed.

(** ** the initial state *)

(** what the theorems need of the initial queue beyond [sq_inv]: no PaddingSent / BlockingBegin is
    queued yet, and the internal heaps are heaps. Every parsed trace satisfies it
    ([parse_trace_start]); [sq_inv] alone does not exclude a queued PaddingSent (see the
    counterexample at the end). *)
Definition sq_start (sq : simq) : Prop := forall X, cq sq X = [] /\ SimIdentity.hp (iq sq X).

Lemma nth_map_none : forall {A B} (l : list A) i (x : B),
  nth_error (map (fun _ => @None B) l) i = Some (Some x) -> False.
Proof. intros A B l. induction l as [|a l IH]; intros [|i] x H; cbn [map nth_error] in H; try discriminate; eauto. Qed.

Lemma init_tinv : forall cc sc tp sq delay pps st0 t0,
  sim_init cc sc tp sq delay pps st0 t0 -> sq_start sq ->
  tinv [] st0 t0 (fun _ => 0%nat) (fun _ => []) noex /\ qge st0 t0 /\ hpi (m_sq st0) /\ m_sq st0 = sq.
Proof.
  intros cc sc tp sq delay pps st0 t0 (cfw & sfw & net & _ & _ & _ & _ & ->) Hs. cbn [m_sq].
  split; [|split; [|split; [|reflexivity]]].
  - constructor.
    + intros r [].
    + intros X mi a due Hn. exfalso. unfold slotsX in Hn. cbn [m_c m_s] in Hn.
      destruct X; unfold new_side in Hn; cbn [s_sched] in Hn; eapply nth_map_none; exact Hn.
    + intros X. cbn [map noex app]. unfold cqs. cbn [m_sq]. rewrite (proj1 (Hs X)). constructor.
    + intros X x j [].
    + intros X. constructor.
    + intros k rk Hk. destruct k; discriminate.
    + intros k1 k2 rk1 rk2 _ Hk. destruct k1; discriminate.
    + intros k rk x j Hk. destruct k; discriminate.
  - intros X x Hx. unfold cqs in Hx. cbn [m_sq] in Hx. rewrite (proj1 (Hs X)) in Hx. destruct Hx.
  - intros X. apply Hs.
Qed.

Lemma iq_push_normal : forall sq x X, se_ev x = TENormalSent -> iq (sq_push sq x) X = iq sq X.
Proof.
  intros sq x X H. rewrite iq_push. unfold rint, SimBlocking.route. rewrite H. cbn [qid_eqb].
  rewrite Bool.andb_false_r. reflexivity.
Qed.

Lemma parse_lines_iq : forall tr delay q sw rw smax rmax X,
  iq (fst (parse_lines tr delay q sw rw smax rmax)) X = iq q X.
Proof.
  induction tr as [|[t [|]] rest IH]; intros delay q sw rw smax rmax X; cbn [parse_lines].
  - reflexivity.
  - destruct (window_add_w PARSE_WINDOW sw t) as [sw' m]. rewrite IH. apply iq_push_normal. reflexivity.
  - destruct (window_add_w PARSE_WINDOW rw t) as [rw' m]. rewrite IH. apply iq_push_normal. reflexivity.
Qed.

Theorem parse_trace_start : forall tr delay, sq_start (parse_trace tr delay).
Proof.
  intros tr delay X. unfold parse_trace.
  pose proof (parse_lines_iq tr delay (mksimq evq_empty evq_empty None) [] [] 0 0 X) as E.
  destruct (parse_lines tr delay (mksimq evq_empty evq_empty None) [] [] 0 0) as [q pps]. cbn [fst] in E.
  assert (E' : iq (mksimq (sq_c q) (sq_s q) (Some pps)) X = []).
  { transitivity (iq q X); [destruct X; reflexivity|]. rewrite E. destruct X; reflexivity. }
  unfold cq. rewrite E'. split; [reflexivity|apply SimIdentity.hp_nil].
Qed.

(** * 7. The theorems *)

(** completion [k] (record [rk], machine [m]) is caused by the action of record [j] *)
Definition caused_by (H : list hrec) (k : nat) (rk : hrec) (m : N) (j : nat) : Prop :=
  exists rj a, (j < k)%nat /\ nth_error H j = Some rj /\
    se_client (h_ev rj) = se_client (h_ev rk) /\                      (* same side *)
    In a (h_acts rj) /\ taction_machine a = m /\ completes a (h_ev rk) /\
    se_time (h_ev rk) = (se_time (h_ev rj) + Z.of_N (timeout_of a))%Z /\   (* exactly issue time + timeout *)
    (* not superseded before it was due *)
    (forall j' rj' a', (j < j' < k)%nat -> nth_error H j' = Some rj' ->
       se_client (h_ev rj') = se_client (h_ev rk) -> In a' (h_acts rj') -> is_sched_for m a' = true ->
       (se_time (h_ev rk) <= se_time (h_ev rj'))%Z).

Lemma compl_of_ev : forall x m, se_ev x = TEPaddingSent m \/ se_ev x = TEBlockingBegin m ->
  is_complb x = true /\ cmach x = m.
Proof. intros x m [H|H]; unfold is_complb, cmach; rewrite H; auto. Qed.

Lemma cause_caused_by : forall H k rk m j,
  cause H k (h_ev rk) j -> cmach (h_ev rk) = m -> caused_by H k rk m j.
Proof.
  intros H k rk m j (rj & a & C1 & C2 & C3 & C4 & C5 & C6 & C7 & C8) <-.
  exists rj, a. repeat (split; [assumption|]). exact C8.
Qed.

Section Run.
  Variables (fuel : nat) (cc sc : cfg) (tp : tape) (args : simargs) (st0 : sim) (t0 : Z) (H : list hrec).
  Variables (sq : simq) (delay : N) (pps : option N).
  Hypothesis Hinit : sim_init cc sc tp sq delay pps st0 t0.
  Hypothesis Hinv : SimBlocking.sq_inv sq.          (* every parsed trace: SimBlocking.parse_trace_inv *)
  Hypothesis Hstart : sq_start sq.                   (* every parsed trace: parse_trace_start *)
  Hypothesis Hrun : sim_loop_h fuel cc sc tp args st0 t0 [] 0 = Ok H.

  Lemma run_fin : exists f, fin H f.
  Proof.
    destruct (init_tinv _ _ _ _ _ _ _ _ Hinit Hstart) as (I & Hq & Hh & Esq).
    eapply (loop_fin _ _ _ _ _ _ _ _ _ _ Hrun); [rewrite Esq; exact Hinv|exact Hh|exact Hq|exact I].
  Qed.

  (** soundness, exact timing, flags, not superseded *)
  Theorem action_completion_sound_partial : forall k rk m, nth_error H k = Some rk ->
    (se_ev (h_ev rk) = TEPaddingSent m \/ se_ev (h_ev rk) = TEBlockingBegin m) ->
    exists j rj a, (j < k)%nat /\ nth_error H j = Some rj /\
      se_client (h_ev rj) = se_client (h_ev rk) /\
      In a (h_acts rj) /\ taction_machine a = m /\ completes a (h_ev rk) /\
      se_time (h_ev rk) = (se_time (h_ev rj) + Z.of_N (timeout_of a))%Z /\
      (forall j' rj' a', (j < j' < k)%nat -> nth_error H j' = Some rj' ->
         se_client (h_ev rj') = se_client (h_ev rk) -> In a' (h_acts rj') -> is_sched_for m a' = true ->
         (se_time (h_ev rk) <= se_time (h_ev rj'))%Z).
  Proof.
    intros k rk m Hk Hev. destruct run_fin as (f & F1 & _).
    destruct (compl_of_ev _ _ Hev) as [Hc Hm].
    destruct (cause_caused_by _ _ _ _ _ (F1 k rk Hk Hc) Hm) as (rj & a & C).
    exists (f k), rj, a. exact C.
  Qed.

  (** once: there is an assignment [f] of completions to the records whose action they complete that
      satisfies the soundness statement and never assigns the same record to two different
      completions of one machine (an action of record [j] for machine [m] fires at most once) *)
  Theorem action_completion_once : exists f : nat -> nat,
    (forall k rk m, nth_error H k = Some rk ->
       (se_ev (h_ev rk) = TEPaddingSent m \/ se_ev (h_ev rk) = TEBlockingBegin m) ->
       caused_by H k rk m (f k)) /\
    (forall k1 k2 rk1 rk2 m, k1 <> k2 -> nth_error H k1 = Some rk1 -> nth_error H k2 = Some rk2 ->
       (se_ev (h_ev rk1) = TEPaddingSent m \/ se_ev (h_ev rk1) = TEBlockingBegin m) ->
       (se_ev (h_ev rk2) = TEPaddingSent m \/ se_ev (h_ev rk2) = TEBlockingBegin m) ->
       f k1 <> f k2).
  Proof.
    destruct run_fin as (f & F1 & F2). exists f. split.
    - intros k rk m Hk Hev. destruct (compl_of_ev _ _ Hev) as [Hc Hm].
      exact (cause_caused_by _ _ _ _ _ (F1 k rk Hk Hc) Hm).
    - intros k1 k2 rk1 rk2 m Hne Hk1 Hk2 Hev1 Hev2 E.
      destruct (compl_of_ev _ _ Hev1) as [Hc1 Hm1]. destruct (compl_of_ev _ _ Hev2) as [Hc2 Hm2].
      destruct (F1 k1 rk1 Hk1 Hc1) as (rj1 & a1 & _ & N1 & S1 & _).
      destruct (F1 k2 rk2 Hk2 Hc2) as (rj2 & a2 & _ & N2 & S2 & _).
      rewrite E in N1. rewrite N1 in N2. injection N2 as <-.
      apply (F2 k1 k2 rk1 rk2 Hne Hk1 Hk2 Hc1 Hc2); [unfold sdr; congruence|congruence|exact E].
  Qed.
End Run.

(** * 8. COUNTEREXAMPLE to [action_completion_sound] as first stated (with [sq_inv sq] as the only
    hypothesis on the initial queue): [sq_inv] is a routing invariant and allows a PaddingSent event
    to sit in an internal heap of the INITIAL queue. The simulator reports it (record 4 of the run
    below) although no framework ever returned an action (every record has [h_acts = []]).
    [sq_start] excludes this; it holds for every parsed trace ([parse_trace_start]), so for the
    runs of [sim_advanced] on parsed traces nothing is lost. *)
Definition cx_cfg : cfg := mkcfg [] 0 0 stdclock.
Definition cx_tape : tape := fun _ => 0.
Definition cx_sq : simq :=
  mksimq (mkevq [mksev TENormalSent 0 true false false false] [] []
                [mksev (TEPaddingSent 0) 5 true true false false])
         evq_empty None.
Definition cx_args : simargs := mksimargs 0 0 false false false.
Definition cx_fw : fstate := mkfstate 0 0 [] [] 0 0 0 0 false None 0 0 [].
Definition cx_st0 : sim :=
  mksim cx_sq (new_side cx_cfg cx_fw) (new_side cx_cfg cx_fw) (mknetb 0 0 [] 0 [] [] 0 18446744073709551615) 0.
Definition cx_H : list hrec :=
  match sim_loop_h 10 cx_cfg cx_cfg cx_tape cx_args cx_st0 0 [] 0 with Ok h => h | _ => [] end.

Lemma cx_sq_inv : SimBlocking.sq_inv cx_sq.
Proof.
  split.
  - split; (split; [|split; [|split]]); intros e Hin; cbn in Hin; try (destruct Hin; fail).
    + destruct Hin as [<-|[]]. cbn. auto.
    + destruct Hin as [<-|[]]. cbn. split; [reflexivity|]. split; discriminate.
  - intros ic w e Hin. destruct ic, w; cbn in Hin; try (destruct Hin; fail);
      destruct Hin as [<-|[]]; cbn; discriminate.
Qed.

Lemma action_completion_sound_counterexample :
  sim_init cx_cfg cx_cfg cx_tape cx_sq 0 None cx_st0 0 /\ SimBlocking.sq_inv cx_sq /\
  sim_loop_h 10 cx_cfg cx_cfg cx_tape cx_args cx_st0 0 [] 0 = Ok cx_H /\
  (exists rk, nth_error cx_H 4 = Some rk /\ se_ev (h_ev rk) = TEPaddingSent 0) /\
  Forall (fun r => h_acts r = []) cx_H /\
  ~ sq_start cx_sq.
Proof.
  split.
  { exists cx_fw, cx_fw, (mknetb 0 0 [] 0 [] [] 0 18446744073709551615).
    split; [reflexivity|]. split; [vm_compute; reflexivity|]. split; [vm_compute; reflexivity|].
    split; [vm_compute; reflexivity|reflexivity]. }
  split; [exact cx_sq_inv|].
  split; [vm_compute; reflexivity|].
  split; [eexists; split; [vm_compute; reflexivity|reflexivity]|].
  split; [vm_compute; repeat constructor|].
  intros Hs. destruct (Hs true) as [Hc _]. vm_compute in Hc. discriminate.
Qed.

(** * 9. For the runs of [sim_advanced] on parsed traces (all events recorded) *)
Theorem action_completion_trace : forall fuel cc sc tp tr delay pps args out,
  full_args args ->
  sim_advanced fuel cc sc tp (parse_trace tr delay) delay pps args = Ok out ->
  exists H : list hrec, out = map h_ev H /\
  exists f : nat -> nat,
    (forall k rk m, nth_error H k = Some rk ->
       (se_ev (h_ev rk) = TEPaddingSent m \/ se_ev (h_ev rk) = TEBlockingBegin m) ->
       caused_by H k rk m (f k)) /\
    (forall k1 k2 rk1 rk2 m, k1 <> k2 -> nth_error H k1 = Some rk1 -> nth_error H k2 = Some rk2 ->
       (se_ev (h_ev rk1) = TEPaddingSent m \/ se_ev (h_ev rk1) = TEBlockingBegin m) ->
       (se_ev (h_ev rk2) = TEPaddingSent m \/ se_ev (h_ev rk2) = TEBlockingBegin m) ->
       f k1 <> f k2).
Proof.
  intros fuel cc sc tp tr delay pps args out Hf Hrun.
  destruct (sim_advanced_history _ _ _ _ _ _ _ _ _ Hf Hrun) as (st0 & t0 & H & Hi & Hl & ->).
  exists H. split; [reflexivity|].
  exact (action_completion_once fuel cc sc tp args st0 t0 H _ delay pps Hi
           (SimBlocking.parse_trace_inv tr delay) (parse_trace_start tr delay) Hl).
Qed.
