From Coq Require Import List Arith Lia Permutation ZArith Bool.
From MB Require Import Base.Prelude Model.Framework Model.Sim Proofs.SimConserve.
Import ListNotations.
Open Scope N_scope.

(** * C15 in its literal form: an injective matching of receives to earlier sends

    [SimConserve.tunnel_causality] is a counting condition: for every threshold
    [T], the TunnelRecv events of one side up to [T] are at most the TunnelSent
    events of the other side (same kind) sent at least one network delay before
    [T]. Here the counting condition is turned into what it means: an INJECTIVE
    map from the receives to the sends, each receive being matched with a send
    that happened at least one delay before it.

    Part 1 is pure combinatorics on lists of integers ([dominated_matching]);
    part 2 instantiates it with the times of a simulator trace
    ([tunnel_matching]). *)

(** ** Part 1: the counting condition gives an injective matching *)

Definition cle (T : Z) (l : list Z) : nat := length (filter (fun x => (x <=? T)%Z) l).

(** counting condition: for every threshold T, the elements of rs that are <= T
    are at most the elements of ss that are <= T *)
Definition dominated (rs ss : list Z) : Prop :=
  forall T, (length (filter (fun r => (r <=? T)%Z) rs) <= length (filter (fun s => (s <=? T)%Z) ss))%nat.

Lemma cle_cons : forall T a l,
  cle T (a :: l) = ((if (a <=? T)%Z then 1 else 0) + cle T l)%nat.
Proof.
  intros T a l. unfold cle. cbn [filter].
  destruct (a <=? T)%Z; reflexivity.
Qed.

Lemma cle_perm : forall T l l', Permutation l l' -> cle T l = cle T l'.
Proof.
  intros T l l' HP. induction HP as [|x l l' HP IH|x y l|l l' l'' HP1 IH1 HP2 IH2].
  - reflexivity.
  - rewrite !cle_cons, IH. reflexivity.
  - rewrite !cle_cons. lia.
  - congruence.
Qed.

Lemma cle_mono : forall T T' l, (T <= T')%Z -> (cle T l <= cle T' l)%nat.
Proof.
  intros T T' l HT. induction l as [|a l IH].
  - apply le_n.
  - rewrite !cle_cons.
    destruct (Z.leb_spec a T) as [H1|H1]; destruct (Z.leb_spec a T') as [H2|H2]; lia.
Qed.

Lemma cle_all_above : forall r l, Forall (fun x => (r < x)%Z) l -> cle r l = 0%nat.
Proof.
  intros r l HF. induction HF as [|a l Ha HF IH].
  - reflexivity.
  - rewrite cle_cons, IH. destruct (Z.leb_spec a r) as [H1|H1]; lia.
Qed.

(** no element strictly between s and r: thresholds in [s, r] count the same *)
Lemma cle_gap : forall s r T l,
  Forall (fun x => (x <= s)%Z \/ (r < x)%Z) l -> (s <= T)%Z -> (T <= r)%Z -> cle T l = cle r l.
Proof.
  intros s r T l HF HsT HTr. induction HF as [|a l Ha HF IH].
  - reflexivity.
  - rewrite !cle_cons, IH.
    destruct (Z.leb_spec a T) as [H1|H1]; destruct (Z.leb_spec a r) as [H2|H2]; lia.
Qed.

(** either nothing in ss is <= r, or the largest element of ss that is <= r can be taken out *)
Lemma pick_largest_below : forall r ss,
  Forall (fun x => (r < x)%Z) ss \/
  exists s ss1, Permutation ss (s :: ss1) /\ (s <= r)%Z /\
                Forall (fun x => (x <= s)%Z \/ (r < x)%Z) ss1.
Proof.
  intros r ss. induction ss as [|a ss IH].
  - left. constructor.
  - destruct IH as [Hall|(s & ss1 & HP & Hsr & HF)].
    + destruct (Z.leb_spec a r) as [Har|Har].
      * right. exists a, ss. split; [apply Permutation_refl|]. split; [exact Har|].
        eapply Forall_impl; [|exact Hall]. intros x Hx. right. exact Hx.
      * left. constructor; assumption.
    + right. destruct (Z.leb_spec a r) as [Har|Har].
      * destruct (Z.leb_spec a s) as [Has|Has].
        -- exists s, (a :: ss1). split.
           ++ eapply Permutation_trans; [apply perm_skip; exact HP|apply perm_swap].
           ++ split; [exact Hsr|]. constructor; [left; exact Has|exact HF].
        -- exists a, (s :: ss1). split.
           ++ apply perm_skip. exact HP.
           ++ split; [exact Har|]. constructor; [left; lia|].
              eapply Forall_impl; [|exact HF]. intros x [Hx|Hx]; [left; lia|right; exact Hx].
      * exists s, (a :: ss1). split.
        -- eapply Permutation_trans; [apply perm_skip; exact HP|apply perm_swap].
        -- split; [exact Hsr|]. constructor; [right; exact Har|exact HF].
Qed.

(** removing r from the receives and the largest send below r keeps the counting condition *)
Lemma dominated_step : forall r rs ss s ss1,
  dominated (r :: rs) ss -> Permutation ss (s :: ss1) -> (s <= r)%Z ->
  Forall (fun x => (x <= s)%Z \/ (r < x)%Z) ss1 ->
  dominated rs ss1.
Proof.
  intros r rs ss s ss1 HD HP Hsr HF T.
  fold (cle T rs). fold (cle T ss1).
  assert (HD' : forall U, (cle U (r :: rs) <= cle U (s :: ss1))%nat).
  { intros U. rewrite <- (cle_perm U _ _ HP). apply HD. }
  destruct (Z.ltb_spec T s) as [HTs|HTs].
  - (* neither r nor s is counted *)
    specialize (HD' T). rewrite !cle_cons in HD'.
    destruct (Z.leb_spec r T) as [H1|H1]; destruct (Z.leb_spec s T) as [H2|H2]; lia.
  - destruct (Z.ltb_spec T r) as [HTr|HTr].
    + (* s <= T < r: nothing of ss1 between T and r *)
      rewrite (cle_gap s r T ss1 HF HTs) by lia.
      pose proof (cle_mono T r rs ltac:(lia)) as Hm.
      specialize (HD' r). rewrite !cle_cons in HD'.
      destruct (Z.leb_spec r r) as [H1|H1]; destruct (Z.leb_spec s r) as [H2|H2]; lia.
    + (* both counted *)
      specialize (HD' T). rewrite !cle_cons in HD'.
      destruct (Z.leb_spec r T) as [H1|H1]; destruct (Z.leb_spec s T) as [H2|H2]; lia.
Qed.

(** list form of the matching: ss can be reordered so that its first
    [length rs] elements are pointwise below rs *)
Theorem dominated_prefix : forall rs ss, dominated rs ss ->
  exists ms rest, Permutation ss (ms ++ rest) /\ Forall2 (fun r s => (s <= r)%Z) rs ms.
Proof.
  induction rs as [|r rs IH]; intros ss HD.
  - exists [], ss. split; [apply Permutation_refl|constructor].
  - destruct (pick_largest_below r ss) as [Hall|(s & ss1 & HP & Hsr & HF)].
    + exfalso. specialize (HD r). fold (cle r (r :: rs)) in HD. fold (cle r ss) in HD.
      rewrite (cle_all_above r ss Hall), cle_cons in HD.
      destruct (Z.leb_spec r r) as [H1|H1]; lia.
    + destruct (IH ss1 (dominated_step r rs ss s ss1 HD HP Hsr HF)) as (ms & rest & HP1 & HF2).
      exists (s :: ms), rest. split.
      * eapply Permutation_trans; [exact HP|]. cbn [app]. apply perm_skip. exact HP1.
      * constructor; assumption.
Qed.

Lemma Forall2_nth_error : forall (A B : Type) (R : A -> B -> Prop) l l',
  Forall2 R l l' -> forall i a b, nth_error l i = Some a -> nth_error l' i = Some b -> R a b.
Proof.
  intros A B R l l' HF. induction HF as [|x y l l' Hxy HF IH]; intros i a b Ha Hb.
  - destruct i; discriminate.
  - destruct i as [|i]; cbn [nth_error] in Ha, Hb.
    + injection Ha as <-. injection Hb as <-. exact Hxy.
    + eapply IH; eassumption.
Qed.

Lemma Forall2_len : forall (A B : Type) (R : A -> B -> Prop) l l',
  Forall2 R l l' -> length l = length l'.
Proof.
  intros A B R l l' HF. induction HF as [|x y l l' Hxy HF IH].
  - reflexivity.
  - cbn [length]. rewrite IH. reflexivity.
Qed.

(** the converse: a matching implies the counting condition (so nothing is lost) *)
Lemma prefix_dominated : forall rs ss ms rest,
  Permutation ss (ms ++ rest) -> Forall2 (fun r s => (s <= r)%Z) rs ms -> dominated rs ss.
Proof.
  intros rs ss ms rest HP HF T. fold (cle T rs). fold (cle T ss).
  rewrite (cle_perm T _ _ HP). unfold cle at 2. rewrite filter_app, app_length.
  fold (cle T ms). apply Nat.le_trans with (cle T ms); [|lia].
  clear HP. induction HF as [|r s rs ms Hsr HF IH].
  - apply le_n.
  - rewrite !cle_cons.
    destruct (Z.leb_spec r T) as [H1|H1]; destruct (Z.leb_spec s T) as [H2|H2]; lia.
Qed.

(** position form: rs can be matched injectively into ss with s <= r *)
Theorem dominated_matching : forall rs ss, dominated rs ss ->
  exists g : nat -> nat,
    (forall i, (i < length rs)%nat -> (g i < length ss)%nat) /\
    (forall i j, (i < length rs)%nat -> (j < length rs)%nat -> i <> j -> g i <> g j) /\
    (forall i r s, nth_error rs i = Some r -> nth_error ss (g i) = Some s -> (s <= r)%Z).
Proof.
  intros rs ss HD.
  destruct (dominated_prefix rs ss HD) as (ms & rest & HP & HF).
  apply Permutation_nth_error in HP as (Hlen & f & Hinj & Hf).
  pose proof (Forall2_len _ _ _ _ _ HF) as Hl.
  exists f. split; [|split].
  - intros i Hi. apply nth_error_Some. rewrite <- Hf.
    apply nth_error_Some. rewrite app_length. lia.
  - intros i j _ _ Hij Heq. apply Hij. apply Hinj. exact Heq.
  - intros i r s Hr Hs. rewrite <- Hf in Hs.
    assert (Hi : (i < length ms)%nat).
    { rewrite <- Hl. apply nth_error_Some. congruence. }
    rewrite nth_error_app1 in Hs by exact Hi.
    exact (Forall2_nth_error _ _ _ _ _ HF i r s Hr Hs).
Qed.

(** ** Part 2: simulator traces *)

Definition times_of (p : sev -> bool) (l : list sev) : list Z := map se_time (filter p l).

Lemma filter_map_and : forall (A B : Type) (p : A -> bool) (f : A -> B) (q : B -> bool) l,
  length (filter (fun e => p e && q (f e)) l) = length (filter q (map f (filter p l))).
Proof.
  intros A B p f q l. induction l as [|a l IH].
  - reflexivity.
  - cbn [filter]. destruct (p a); cbn [andb].
    + cbn [map filter]. destruct (q (f a)); cbn [length]; rewrite IH; reflexivity.
    + exact IH.
Qed.

Lemma cnt_recvs : forall p T out,
  cnt (fun e => p e && upto T e) out = length (filter (fun r => (r <=? T)%Z) (times_of p out)).
Proof.
  intros p T out. unfold cnt, times_of.
  exact (filter_map_and _ _ p se_time (fun r => (r <=? T)%Z) out).
Qed.

Lemma cnt_sents : forall p d T out,
  cnt (fun e => p e && sent_by d T e) out =
  length (filter (fun s => (s <=? T)%Z) (map (fun t => (t + Z.of_N d)%Z) (times_of p out))).
Proof.
  intros p d T out. unfold cnt, times_of. rewrite map_map.
  exact (filter_map_and _ _ p (fun e => (se_time e + Z.of_N d)%Z) (fun s => (s <=? T)%Z) out).
Qed.

(** the counting form of causality, on the lists of times *)
Theorem tunnel_dominated : forall fuel cc sc tp sq delay pps args out,
  init_simq sq -> full_args args ->
  sim_advanced fuel cc sc tp sq delay pps args = Ok out ->
  forall X k,
    dominated (times_of (is_tr X k) out)
              (map (fun t => (t + Z.of_N delay)%Z) (times_of (is_ts (negb X) k) out)).
Proof.
  intros fuel cc sc tp sq delay pps args out Hinit Hfull H X k T.
  rewrite <- cnt_recvs, <- cnt_sents.
  exact (tunnel_causality fuel cc sc tp sq delay pps args out Hinit Hfull H X k T).
Qed.

(** C15, literal form: the i-th TunnelRecv of side X (kind k) is matched to the
    (g i)-th TunnelSent of the other side (same kind); distinct receives go to
    distinct sends; the send happened at least [delay] before the receive. *)
Theorem tunnel_matching : forall fuel cc sc tp sq delay pps args out,
  init_simq sq -> full_args args ->
  sim_advanced fuel cc sc tp sq delay pps args = Ok out ->
  forall X k,
    let recvs := times_of (is_tr X k) out in
    let sents := map (fun t => (t + Z.of_N delay)%Z) (times_of (is_ts (negb X) k) out) in
    exists g : nat -> nat,
      (forall i, (i < length recvs)%nat -> (g i < length sents)%nat) /\
      (forall i j, (i < length recvs)%nat -> (j < length recvs)%nat -> i <> j -> g i <> g j) /\
      (forall i r s, nth_error recvs i = Some r -> nth_error sents (g i) = Some s -> (s <= r)%Z).
Proof.
  intros fuel cc sc tp sq delay pps args out Hinit Hfull H X k recvs sents.
  apply dominated_matching.
  exact (tunnel_dominated fuel cc sc tp sq delay pps args out Hinit Hfull H X k).
Qed.

(** the same on the events themselves: every TunnelRecv event at position i of
    the filtered trace has a TunnelSent partner event, of the other side and
    the same kind, with [se_time sent + delay <= se_time recv] *)
Corollary tunnel_matching_events : forall fuel cc sc tp sq delay pps args out,
  init_simq sq -> full_args args ->
  sim_advanced fuel cc sc tp sq delay pps args = Ok out ->
  forall X k,
    let recvs := filter (is_tr X k) out in
    let sents := filter (is_ts (negb X) k) out in
    exists g : nat -> nat,
      (forall i, (i < length recvs)%nat -> (g i < length sents)%nat) /\
      (forall i j, (i < length recvs)%nat -> (j < length recvs)%nat -> i <> j -> g i <> g j) /\
      (forall i er, nth_error recvs i = Some er ->
         exists es, nth_error sents (g i) = Some es /\
                    In er out /\ is_tr X k er = true /\
                    In es out /\ is_ts (negb X) k es = true /\
                    (se_time es + Z.of_N delay <= se_time er)%Z).
Proof.
  intros fuel cc sc tp sq delay pps args out Hinit Hfull H X k recvs sents.
  destruct (tunnel_matching fuel cc sc tp sq delay pps args out Hinit Hfull H X k)
    as (g & Hb & Hi & Hle).
  unfold times_of in Hb, Hi, Hle.
  fold recvs in Hb, Hi, Hle. fold sents in Hb, Hle.
  rewrite (map_length se_time recvs) in Hb, Hi.
  rewrite (map_length (fun t => (t + Z.of_N delay)%Z) (map se_time sents)) in Hb.
  rewrite (map_length se_time sents) in Hb.
  exists g. split; [exact Hb|]. split; [exact Hi|].
  intros i er Her.
  assert (Hlt : (i < length recvs)%nat) by (apply nth_error_Some; congruence).
  specialize (Hb i Hlt).
  destruct (nth_error sents (g i)) as [es|] eqn:Hes.
  2:{ apply nth_error_None in Hes. lia. }
  exists es. split; [reflexivity|].
  pose proof (nth_error_In _ _ Her) as Hin1. pose proof (nth_error_In _ _ Hes) as Hin2.
  unfold recvs in Hin1. unfold sents in Hin2.
  apply filter_In in Hin1 as (Hin1 & Hp1). apply filter_In in Hin2 as (Hin2 & Hp2).
  split; [exact Hin1|]. split; [exact Hp1|]. split; [exact Hin2|]. split; [exact Hp2|].
  apply (Hle i (se_time er) (se_time es + Z.of_N delay)%Z).
  - rewrite nth_error_map, Her. reflexivity.
  - rewrite nth_error_map, nth_error_map, Hes. reflexivity.
Qed.

Print Assumptions dominated_matching.
Print Assumptions tunnel_matching.
Print Assumptions tunnel_matching_events.
