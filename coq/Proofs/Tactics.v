(** Tactics for reasoning about the outcome monad. *)
From MB Require Import Base.Prelude.

Lemma bind_ok : forall {A B} (o : outcome A) (f : A -> outcome B) b,
  bind o f = Ok b -> exists a, o = Ok a /\ f a = Ok b.
Proof. intros A B [a|k|] f b H; cbn in H; try discriminate; eauto. Qed.

Lemma bind_ext : forall {A B} (o : outcome A) (f g : A -> outcome B),
  (forall a, o = Ok a -> f a = g a) -> bind o f = bind o g.
Proof. intros A B [a|k|] f g H; cbn; auto. Qed.

Lemma get_ok : forall {A} (l : list A) i x, get l i = Ok x -> nth_error l i = Some x.
Proof. unfold get; intros A l i x H; destruct (nth_error l i); inversion H; auto. Qed.

Lemma getN_ok : forall {A} (l : list A) i x, getN l i = Ok x -> nthN l i = Some x.
Proof. unfold getN; intros A l i x H; destruct (nthN l i); inversion H; auto. Qed.

(** one step of case analysis on a hypothesis [H : <monadic expr> = Ok _] *)
Ltac mstep H :=
  match type of H with
  | bind ?e _ = Ok _ =>
      let a := fresh "a" in let E := fresh "E" in
      destruct e as [a| |] eqn:E; cbn [bind] in H; [|discriminate H|discriminate H]
  | (let '(_, _) := ?e in _) = Ok _ => let E := fresh "E" in destruct e eqn:E
  | (if ?b then _ else _) = Ok _ => let E := fresh "E" in destruct b eqn:E
  | (match ?e with _ => _ end) = Ok _ => let E := fresh "E" in destruct e eqn:E
  | Ok _ = Ok _ => inversion H; subst; clear H
  | Panic _ = Ok _ => discriminate H
  | OutOfFuel = Ok _ => discriminate H
  end.

Ltac msteps H := repeat (mstep H).

(** bind step with explicit names *)
Tactic Notation "mbind" hyp(H) "as" simple_intropattern(a) ident(E) :=
  match type of H with
  | bind ?e _ = Ok _ =>
      destruct e as [a| |] eqn:E; cbn [bind] in H; [|discriminate H|discriminate H]
  end.

Ltac split_andb :=
  repeat match goal with
         | H : _ && _ = true |- _ => apply andb_prop in H; destruct H
         end.
