(** C06: State::sample_state over the whole draw space. The draw is
    r = k / 2^23 for k in [0, 2^23); with the f32 partial sums S_1 <= S_2 <= ...
    accumulated in the code's order, target j is chosen exactly for
    thr S_{j-1} <= k < thr S_j, where thr S = ceil (S * 2^23) is computed in
    integer arithmetic from the float's mantissa and exponent. *)
From Coq Require Import Reals Lra Psatz.
From Flocq Require Import Core.Core IEEE754.BinarySingleNaN.
From MB Require Import Model.Framework Model.Validate Model.Thresholds.
From MB Require Import Proofs.Tactics Proofs.ListFacts Proofs.ValidateSound.
Open Scope Z_scope.

Notation fexp32 := (SpecFloat.fexp prec32 emax32).

(** ** the draw r = k / 2^23 is exact *)
Lemma f32_of_k_exact : forall k : N, (k < 2 ^ 24)%N ->
  B2R (f32_of_k k) = (IZR (Z.of_N k) * / IZR (2 ^ 23))%R /\ is_finite (f32_of_k k) = true.
Proof.
  intros k Hk. unfold f32_of_k.
  generalize (binary_normalize_correct prec32 emax32 _ _ mode_NE (Z.of_N k) (-23) false).
  cbv zeta. change (round_mode mode_NE) with ZnearestE.
  assert (HF : F2R (Float radix2 (Z.of_N k) (-23)) = (IZR (Z.of_N k) * / IZR (2 ^ 23))%R).
  { unfold F2R; cbn [Fnum Fexp]. change (bpow radix2 (-23)) with (/ IZR (Z.pow_pos 2 23))%R. reflexivity. }
  assert (Hkz : (0 <= Z.of_N k < 2 ^ 24)%Z) by (change (2 ^ 24)%Z with (Z.of_N (2 ^ 24)); lia).
  assert (Hfmt : generic_format radix2 fexp32 (F2R (Float radix2 (Z.of_N k) (-23)))).
  { apply generic_format_F2R. intros Hnz. unfold cexp, SpecFloat.fexp.
    assert (Hm : (mag radix2 (F2R (Float radix2 (Z.of_N k) (-23))) <= 1)%Z).
    { apply mag_le_bpow.
      - apply F2R_neq_0. cbn. exact Hnz.
      - rewrite <- F2R_Zabs. cbn [Fnum]. rewrite Z.abs_eq by lia.
        apply Rlt_le_trans with (F2R (Float radix2 (2 ^ 24) (-23))).
        + apply F2R_lt. lia.
        + unfold F2R; cbn [Fnum Fexp]. change (bpow radix2 1) with 2%R.
          change (bpow radix2 (-23)) with (/ IZR (Z.pow_pos 2 23))%R.
          change (IZR (2 ^ 24)) with (2 * IZR (Z.pow_pos 2 23))%R.
          assert (0 < IZR (Z.pow_pos 2 23))%R by (apply IZR_lt; reflexivity).
          field_simplify; lra. }
    unfold SpecFloat.emin, prec32, emax32 in *. lia. }
  rewrite round_generic; auto with typeclass_instances.
  rewrite Rlt_bool_true.
  - intros (H1 & H2 & _). rewrite H1, HF. split; [reflexivity|exact H2].
  - rewrite HF. rewrite Rabs_pos_eq.
    + apply Rlt_trans with 2%R.
      * assert (0 < IZR (2 ^ 23))%R by (apply IZR_lt; reflexivity).
        apply Rmult_lt_reg_r with (IZR (2 ^ 23)); [assumption|].
        rewrite Rmult_assoc, Rinv_l by lra. rewrite Rmult_1_r.
        change 2%R with (IZR 2). rewrite <- mult_IZR. apply IZR_lt. lia.
      * change 2%R with (bpow radix2 1). apply bpow_lt. unfold emax32; lia.
    + apply Rmult_le_pos; [apply IZR_le; lia|].
      left. apply Rinv_0_lt_compat. apply IZR_lt. reflexivity.
Qed.

(** k/2^23 < S  <->  k < thr S, for every draw k and every finite S *)
Lemma flt32_thr : forall (k : N) (s : F32),
  (k < 2 ^ 24)%N -> is_finite s = true ->
  flt32 (f32_of_k k) s = (Z.of_N k <? thr s).
Proof.
  intros k s Hk Fs. destruct (f32_of_k_exact k Hk) as [Rk Fk].
  unfold flt32. rewrite Bltb_correct by assumption. rewrite Rk.
  assert (P23 : (0 < IZR (2 ^ 23))%R) by (apply IZR_lt; reflexivity).
  assert (Hk0 : (0 <= Z.of_N k)%Z) by lia.
  destruct s as [sz|si| |ss m e Hb]; try discriminate Fs.
  - (* zero *)
    cbn [thr B2R]. rewrite Rlt_bool_false.
    + symmetry. apply Z.ltb_ge. lia.
    + apply Rmult_le_pos; [apply IZR_le; lia|left; apply Rinv_0_lt_compat; exact P23].
  - destruct ss.
    + (* negative *)
      cbn [thr]. rewrite Rlt_bool_false.
      * symmetry. apply Z.ltb_ge. lia.
      * apply Rle_trans with 0%R.
        -- unfold B2R, F2R; cbn [Fnum Fexp cond_Zopp].
           assert (IZR (- Z.pos m) < 0)%R by (apply IZR_lt; lia).
           pose proof (bpow_gt_0 radix2 e). nra.
        -- apply Rmult_le_pos; [apply IZR_le; lia|left; apply Rinv_0_lt_compat; exact P23].
    + cbn [thr]. unfold B2R, F2R; cbn [Fnum Fexp cond_Zopp].
      destruct (Z.leb_spec 0 (e + 23)) as [He|He].
      * (* S * 2^23 = m * 2^(e+23) is an integer *)
        assert (Heq : (IZR (Z.pos m) * bpow radix2 e = IZR (Z.pos m * 2 ^ (e + 23)) * / IZR (2 ^ 23))%R).
        { rewrite mult_IZR. rewrite (IZR_Zpower radix2) by lia. rewrite bpow_plus.
          change (bpow radix2 23) with (IZR (2 ^ 23)). field. lra. }
        rewrite Heq.
        destruct (Z.ltb_spec (Z.of_N k) (Z.pos m * 2 ^ (e + 23))) as [Hl|Hl].
        -- apply Rlt_bool_true. apply Rmult_lt_compat_r; [apply Rinv_0_lt_compat; exact P23|apply IZR_lt; exact Hl].
        -- apply Rlt_bool_false. apply Rmult_le_compat_r; [left; apply Rinv_0_lt_compat; exact P23|apply IZR_le; exact Hl].
      * set (d := (2 ^ (- (e + 23)))%Z).
        assert (Hd : (0 < d)%Z) by (apply Z.pow_pos_nonneg; lia).
        assert (Heq : (IZR (Z.pos m) * bpow radix2 e = IZR (Z.pos m) * / IZR d * / IZR (2 ^ 23))%R).
        { subst d. rewrite (IZR_Zpower radix2) by lia.
          replace e with (- (- (e + 23)) + - 23)%Z at 1 by lia. rewrite bpow_plus, bpow_opp.
          change (bpow radix2 (-23)) with (/ IZR (2 ^ 23))%R. ring. }
        rewrite Heq.
        assert (Dpos : (0 < IZR d)%R) by (apply IZR_lt; exact Hd).
        (* k < ceil (m / d)  <->  k * d < m *)
        assert (Hceil : (Z.of_N k < (Z.pos m + d - 1) / d <-> Z.of_N k * d < Z.pos m)%Z).
        { pose proof (Z.div_mod (Z.pos m + d - 1) d ltac:(lia)) as Hdm.
          pose proof (Z.mod_pos_bound (Z.pos m + d - 1) d Hd) as Hr.
          split; intros H.
          - nia.
          - assert (Hq : (Z.of_N k + 1 <= (Z.pos m + d - 1) / d)%Z)
              by (apply Z.div_le_lower_bound; [exact Hd|nia]).
            lia. }
        destruct (Z.ltb_spec (Z.of_N k) ((Z.pos m + d - 1) / d)) as [Hl|Hl].
        -- apply Rlt_bool_true. apply Hceil in Hl.
           apply Rmult_lt_compat_r; [apply Rinv_0_lt_compat; exact P23|].
           apply Rmult_lt_reg_r with (IZR d); [exact Dpos|].
           rewrite Rmult_assoc, Rinv_l by lra. rewrite Rmult_1_r, <- mult_IZR. apply IZR_lt. exact Hl.
        -- apply Rlt_bool_false.
           assert (Hn : (Z.pos m <= Z.of_N k * d)%Z) by (destruct (Z.lt_ge_cases (Z.of_N k * d) (Z.pos m)) as [Hc|Hc]; [apply Hceil in Hc; lia|exact Hc]).
           apply Rmult_le_compat_r; [left; apply Rinv_0_lt_compat; exact P23|].
           apply Rmult_le_reg_r with (IZR d); [exact Dpos|].
           rewrite Rmult_assoc, Rinv_l by lra. rewrite Rmult_1_r, <- mult_IZR. apply IZR_le. exact Hn.
Qed.

Lemma Bplus_finite_inv : forall x y : F32,
  is_finite (fadd32 x y) = true -> is_finite x = true /\ is_finite y = true.
Proof.
  intros x y H. unfold fadd32, Bplus in H.
  destruct x as [sx|sx| |sx mx ex Hx]; destruct y as [sy|sy| |sy my ey Hy]; cbn in H; auto;
    try discriminate H; try (destruct (Bool.eqb sx sy); discriminate H).
Qed.

Lemma sums_finite : forall v s,
  is_finite (sum32 v s) = true -> is_finite s = true /\ Forall (fun x => is_finite x = true) (sums v s).
Proof.
  induction v as [|[t p] v IH]; intros s H; cbn [sum32 fold_left sums snd] in *.
  - split; [exact H|constructor].
  - fold (sum32 v (fadd32 s (f32_of_bits p))) in H.
    destruct (IH _ H) as [Hs Hf]. destruct (Bplus_finite_inv _ _ Hs) as [Hx _].
    split; [exact Hx|constructor; assumption].
Qed.

(** the sampler, for every draw: the first target whose integer threshold
    exceeds k *)
Theorem pick_trans_thresholds : forall v s (k : N),
  (k < 2 ^ 24)%N -> Forall (fun x => is_finite x = true) (sums v s) ->
  pick_trans v s (f32_of_k k) = pick_int (map fst v) (map thr (sums v s)) (Z.of_N k).
Proof.
  induction v as [|[t p] v IH]; intros s k Hk Hf; cbn [pick_trans sums map pick_int fst]; [reflexivity|].
  inversion Hf as [|x l Hx Hl]; subst.
  rewrite (flt32_thr k _ Hk Hx). destruct (Z.of_N k <? thr (fadd32 s (f32_of_bits p))); [reflexivity|].
  apply IH; assumption.
Qed.

(** for a validated vector every partial sum is finite *)
Lemma validated_sums_finite : forall n v,
  validate_vector n v [] f32_zero = true -> Forall (fun x => is_finite x = true) (sums v f32_zero).
Proof.
  intros n v H. destruct (validate_vector_sound _ _ _ _ H) as (_ & _ & _ & [Hf _]).
  apply (sums_finite v f32_zero Hf).
Qed.

Theorem sample_state_thresholds : forall n v (k : N),
  validate_vector n v [] f32_zero = true -> (k < 2 ^ 24)%N ->
  pick_trans v f32_zero (f32_of_k k) =
  pick_int (map fst v) (map thr (sums v f32_zero)) (Z.of_N k).
Proof.
  intros n v k Hv Hk. apply pick_trans_thresholds; [exact Hk|eapply validated_sums_finite; eauto].
Qed.

(** a probability-1 transition is always taken *)
Lemma thr_one : thr f32_one = 2 ^ 23.
Proof. vm_compute. reflexivity. Qed.

Theorem prob_one_always : forall t (k : N), (k < 2 ^ 23)%N ->
  pick_trans [(t, 1065353216%N)] f32_zero (f32_of_k k) = Some t.
Proof.
  intros t k Hk.
  rewrite pick_trans_thresholds.
  - cbn [sums map pick_int fst].
    replace (fadd32 f32_zero (f32_of_bits 1065353216)) with f32_one by (vm_compute; reflexivity).
    rewrite thr_one. replace (Z.of_N k <? 2 ^ 23) with true; [reflexivity|].
    symmetry. apply Z.ltb_lt. change (2 ^ 23)%Z with (Z.of_N (2 ^ 23)). lia.
  - change (2 ^ 24)%N with (2 * 2 ^ 23)%N. lia.
  - cbn [sums]. constructor; [vm_compute; reflexivity|constructor].
Qed.
