From Coq Require Import List Arith Lia Permutation Sorted ZArith Bool.
From MB Require Import Base.Prelude Model.Framework Model.Sim Proofs.Tactics Proofs.SimHeap.
From MB Require Import Proofs.FrameworkSlots Proofs.SimTimers Proofs.SimConserve.
Import ListNotations.
Open Scope N_scope.

(** * Property C14: without machines the simulator reproduces the parsed trace

    With no machine on either side, simulating a parsed trace gives back exactly the
    trace: the client's TunnelSent events are at the send times, its TunnelRecv events
    at the receive times, the server is the mirror image shifted by the network delay,
    and there is nothing else (theorem [no_machines_identity] at the end). *)

Definition sends (tr : list (Z * bool)) : list Z := map fst (filter (fun x => snd x) tr).
Definition recvs (tr : list (Z * bool)) : list Z := map fst (filter (fun x => negb (snd x)) tr).
Definition times (p : sev -> bool) (l : list sev) : list Z := map se_time (filter p l).
Fixpoint win_counts_from (win : N) (w : list Z) (ts : list Z) : list N :=
  match ts with
  | [] => []
  | t :: rest => let '(w', c) := window_add_w win w t in c :: win_counts_from win w' rest
  end.
Definition win_counts (win : N) (ts : list Z) : list N := win_counts_from win [] ts.

(** only the four packet events, no padding, no flags *)
Definition plain (e : sev) : Prop :=
  se_pad e = false /\ se_bypass e = false /\ se_replace e = false /\
  (se_ev e = TENormalSent \/ se_ev e = TETunnelSent \/ se_ev e = TETunnelRecv \/ se_ev e = TENormalRecv).

(** ** (a) the heap order on events is a total preorder *)
Lemma sev_le_spec : forall a b,
  sev_le a b = true <->
  ((se_time b < se_time a)%Z \/ (se_time a = se_time b /\ ev_idx (se_ev b) <= ev_idx (se_ev a))).
Proof.
  intros a b. unfold sev_le, sev_cmp, key_cmp.
  destruct (Z.compare_spec (se_time a) (se_time b)) as [E|E|E];
    [destruct (N.compare_spec (ev_idx (se_ev a)) (ev_idx (se_ev b))) as [F|F|F]| |];
    split; intros H; try reflexivity; try discriminate H; lia.
Qed.

Lemma sev_gt_spec : forall a b,
  sev_gt a b = true <->
  ((se_time a < se_time b)%Z \/ (se_time a = se_time b /\ ev_idx (se_ev a) < ev_idx (se_ev b))).
Proof.
  intros a b. unfold sev_gt, sev_cmp, key_cmp.
  destruct (Z.compare_spec (se_time a) (se_time b)) as [E|E|E];
    [destruct (N.compare_spec (ev_idx (se_ev a)) (ev_idx (se_ev b))) as [F|F|F]| |];
    split; intros H; try reflexivity; try discriminate H; lia.
Qed.

Theorem sev_le_total : forall a b, sev_le a b = true \/ sev_le b a = true.
Proof. intros a b. rewrite !sev_le_spec. lia. Qed.

Theorem sev_le_trans : forall a b c, sev_le a b = true -> sev_le b c = true -> sev_le a c = true.
Proof. intros a b c. rewrite !sev_le_spec. lia. Qed.

(** [kle a b]: the key (time, event number) of [a] is at most the key of [b] *)
Definition kle (a b : sev) : Prop := sev_le b a = true.

Lemma kle_time : forall a b, kle a b -> (se_time a <= se_time b)%Z.
Proof. intros a b H. unfold kle in H. rewrite sev_le_spec in H. lia. Qed.

Lemma kle_trans : forall a b c, kle a b -> kle b c -> kle a c.
Proof. intros a b c H1 H2. unfold kle in *. eapply sev_le_trans; eauto. Qed.

Definition hp (h : list sev) : Prop := is_heap sev sev_le h.

Lemma hp_nil : hp [].
Proof. apply is_heap_nil. Qed.

Lemma hp_push : forall h x, hp h -> hp (heap_push sev_le h x).
Proof. intros h x H. apply heap_push_is_heap; [apply sev_le_total|apply sev_le_trans|exact H]. Qed.

Lemma hp_pop : forall h x h', hp h -> heap_pop sev_le h = Some (x, h') -> hp h'.
Proof.
  intros h x h' H E.
  eapply heap_pop_is_heap; [apply sev_le_total|apply sev_le_trans|exact H|exact E].
Qed.

(** [lb o h]: [o] is a least element of [h] ([None] iff [h] is empty) *)
Definition lb (o : option sev) (h : list sev) : Prop :=
  match o with
  | Some p => forall e, In e h -> kle p e
  | None => h = []
  end.

Lemma lb_peek : forall h, hp h -> lb (heap_peek h) h.
Proof.
  intros h H. destruct h as [|a t]; [reflexivity|].
  cbn [heap_peek hd_error lb]. intros e He. unfold kle.
  eapply heap_peek_max; [apply sev_le_total|apply sev_le_trans|exact H|reflexivity|exact He].
Qed.

Lemma lb_opt_gt : forall n f hn hf,
  lb n hn -> lb f hf -> lb (if opt_gt n f then n else f) (hn ++ hf).
Proof.
  intros n f hn hf Hn Hf. destruct n as [a|], f as [b|]; cbn [opt_gt lb] in *.
  - destruct (sev_gt a b) eqn:E; cbn [lb]; intros e He; apply in_app_or in He; destruct He as [He|He].
    + apply Hn. exact He.
    + eapply kle_trans; [|apply Hf; exact He]. unfold kle. rewrite sev_le_spec.
      rewrite sev_gt_spec in E. lia.
    + eapply kle_trans; [|apply Hn; exact He]. unfold kle. rewrite sev_le_spec.
      assert (E' : ~ ((se_time a < se_time b)%Z \/
                      (se_time a = se_time b /\ ev_idx (se_ev a) < ev_idx (se_ev b)))).
      { intros C. rewrite <- sev_gt_spec in C. congruence. }
      lia.
    + apply Hf. exact He.
  - subst hf. rewrite app_nil_r. exact Hn.
  - subst hn. exact Hf.
  - subst hn hf. reflexivity.
Qed.

Lemma before_spec : forall x y,
  before (Some x) (Some y) 0 = true <->
  ((se_time x < se_time y)%Z \/ (se_time x = se_time y /\ ev_idx (se_ev x) <= ev_idx (se_ev y))).
Proof.
  intros x y. unfold before, key_cmp. rewrite Z.add_0_r.
  destruct (Z.compare_spec (se_time x) (se_time y)) as [E|E|E];
    [destruct (N.compare_spec (ev_idx (se_ev x)) (ev_idx (se_ev y))) as [F|F|F]| |];
    split; intros H; try reflexivity; try discriminate H; lia.
Qed.

Lemma lb_before : forall n f hn hf,
  lb n hn -> lb f hf -> lb (if before n f 0 then n else f) (hn ++ hf).
Proof.
  intros n f hn hf Hn Hf. destruct n as [a|], f as [b|].
  - destruct (before (Some a) (Some b) 0) eqn:E; cbn [lb] in *;
      intros e He; apply in_app_or in He; destruct He as [He|He].
    + apply Hn. exact He.
    + eapply kle_trans; [|apply Hf; exact He]. unfold kle. rewrite sev_le_spec.
      rewrite before_spec in E. lia.
    + eapply kle_trans; [|apply Hn; exact He]. unfold kle. rewrite sev_le_spec.
      assert (E' : ~ ((se_time a < se_time b)%Z \/
                      (se_time a = se_time b /\ ev_idx (se_ev a) <= ev_idx (se_ev b)))).
      { intros C. rewrite <- before_spec in C. congruence. }
      lia.
    + apply Hf. exact He.
  - cbn [before lb] in *. subst hf. rewrite app_nil_r. exact Hn.
  - cbn [before lb] in *. subst hn. exact Hf.
  - cbn [before lb] in *. subst hn hf. reflexivity.
Qed.

(** ** the queue: every heap is a heap *)
Definition heaps_ok (q : evq) : Prop :=
  hp (q_base q) /\ hp (q_blocking q) /\ hp (q_bypass q) /\ hp (q_internal q).
Definition sq_heaps (sq : simq) : Prop := heaps_ok (sq_c sq) /\ heaps_ok (sq_s sq).

Lemma heaps_ok_push : forall q x, heaps_ok q -> heaps_ok (evq_push q x).
Proof.
  intros q x (H1 & H2 & H3 & H4). unfold evq_push, heaps_ok.
  destruct (se_ev x); try destruct (se_bypass x); cbn [q_base q_blocking q_bypass q_internal];
    (split; [|split; [|split]]); try assumption; apply hp_push; assumption.
Qed.

Lemma sq_heaps_push : forall sq x, sq_heaps sq -> sq_heaps (sq_push sq x).
Proof.
  intros sq x [Hc Hs]. unfold sq_push, sq_set_side, sq_side, sq_heaps.
  destruct (se_client x); cbn [sq_c sq_s]; split; try assumption; apply heaps_ok_push; assumption.
Qed.

Lemma evq_len_zero : forall q, evq_len q = 0%nat -> evq_events q = [].
Proof.
  intros q H. unfold evq_len in H. unfold evq_events.
  destruct (q_base q), (q_blocking q), (q_bypass q), (q_internal q); cbn [length] in H; try lia.
  reflexivity.
Qed.

Lemma evq_peek_fst : forall q d nowt,
  fst (fst (evq_peek q d nowt)) =
  match evq_len q with
  | O => None
  | S _ =>
      let f1 := if opt_gt (heap_peek (q_blocking q)) (heap_peek (q_bypass q))
                then heap_peek (q_blocking q) else heap_peek (q_bypass q) in
      let f2 := if opt_gt (heap_peek (q_internal q)) f1 then heap_peek (q_internal q) else f1 in
      if before (heap_peek (q_base q)) f2 d then heap_peek (q_base q) else f2
  end.
Proof.
  intros q d nowt. unfold evq_peek. destruct (evq_len q); [reflexivity|]. cbv zeta.
  destruct (opt_gt (heap_peek (q_blocking q)) (heap_peek (q_bypass q))); cbv beta iota;
    match goal with |- context [opt_gt ?a ?b] => destruct (opt_gt a b) end; cbv beta iota;
    match goal with |- context [before ?a ?b ?c] => destruct (before a b c) end; reflexivity.
Qed.

(** the event [evq_peek] answers is a least element of the whole queue (no aggregate delay) *)
Lemma evq_peek_lb : forall q nowt,
  heaps_ok q -> lb (fst (fst (evq_peek q 0 nowt))) (evq_events q).
Proof.
  intros q nowt (H1 & H2 & H3 & H4). rewrite evq_peek_fst.
  destruct (evq_len q) eqn:El.
  - cbn [lb]. apply evq_len_zero. exact El.
  - cbv zeta.
    pose proof (lb_opt_gt _ _ _ _ (lb_peek _ H2) (lb_peek _ H3)) as L1.
    pose proof (lb_opt_gt _ _ _ _ (lb_peek _ H4) L1) as L2.
    pose proof (lb_before _ _ _ _ (lb_peek _ H1) L2) as L3.
    match goal with |- lb ?o _ => destruct o as [p|] end; cbn [lb] in *.
    + intros e He. apply L3. unfold evq_events in He.
      repeat (apply in_app_or in He; destruct He as [He|He]);
        repeat first [ assumption | apply in_or_app; left; assumption | apply in_or_app; right ].
    + unfold evq_events.
      destruct (q_base q); [|discriminate L3].
      destruct (q_internal q); [|discriminate L3].
      destruct (q_blocking q); [|discriminate L3].
      destruct (q_bypass q); [|discriminate L3]. reflexivity.
Qed.

Lemma pop_time_zero : forall w p, pop_time w p 0 = se_time p.
Proof. intros w p. destruct w; cbn [pop_time]; try reflexivity. apply Z.add_0_r. Qed.

Lemma evq_sel_events : forall q w e, In e (evq_sel q w) -> In e (evq_events q).
Proof.
  intros q w e H. unfold evq_events. destruct w; cbn [evq_sel] in H;
    repeat first [ assumption | apply in_or_app; left; assumption | apply in_or_app; right ].
Qed.

Lemma since_in_range : forall t nowt, (nowt <= t < nowt + Z.of_N DMAX)%Z ->
  since t nowt = Z.to_N (t - nowt) /\ since t nowt < DMAX.
Proof. intros t nowt H. unfold since. lia. Qed.

Definition in_range (nowt : Z) (l : list sev) : Prop :=
  forall e, In e l -> (nowt <= se_time e < nowt + Z.of_N DMAX)%Z.

(** (d, first half) [sq_peek] answers the earliest queued event *)
Lemma sq_peek_min : forall sq nowt,
  sq_wf sq -> sq_heaps sq -> in_range nowt (all_events sq) -> all_events sq <> [] ->
  exists p w,
    sq_peek sq 0 0 nowt = (Some p, w, since (se_time p) nowt) /\
    heap_peek (evq_sel (sq_side sq (se_client p)) w) = Some p /\
    In p (all_events sq) /\
    forall e, In e (all_events sq) -> (se_time p <= se_time e)%Z.
Proof.
  intros sq nowt W [Hc Hs] Hr Hne.
  assert (Hlen : sq_len sq <> 0%nat).
  { intros C. apply Hne. unfold sq_len in C. rewrite all_events_split.
    rewrite (evq_len_zero (sq_c sq)), (evq_len_zero (sq_s sq)) by lia. reflexivity. }
  destruct (sq_peek sq 0 0 nowt) as [[o w] dur] eqn:Epk.
  pose proof (evq_peek_lb (sq_c sq) nowt Hc) as Lc.
  pose proof (evq_peek_lb (sq_s sq) nowt Hs) as Ls.
  assert (Ho : exists p, o = Some p /\ forall e, In e (all_events sq) -> (se_time p <= se_time e)%Z).
  { unfold sq_peek in Epk. destruct (sq_len sq) as [|k]; [contradiction Hlen; reflexivity|].
    destruct (evq_peek (sq_c sq) 0 nowt) as [[c cq] cdur] eqn:Ec.
    destruct (evq_peek (sq_s sq) 0 nowt) as [[s sqq] sdur] eqn:Es.
    cbn [fst] in Lc, Ls. rewrite all_events_split.
    destruct c as [ce|], s as [se|]; cbn [lb] in Lc, Ls.
    - destruct (evq_peek_sel _ _ _ _ _ _ Ec) as [Pc Dc].
      destruct (evq_peek_sel _ _ _ _ _ _ Es) as [Ps Ds].
      rewrite pop_time_zero in Dc, Ds.
      assert (Ic : In ce (all_events sq)).
      { rewrite all_events_split. apply in_or_app. left. eapply evq_sel_events.
        eapply heap_peek_in. exact Pc. }
      assert (Is : In se (all_events sq)).
      { rewrite all_events_split. apply in_or_app. right. eapply evq_sel_events.
        eapply heap_peek_in. exact Ps. }
      destruct (since_in_range _ _ (Hr _ Ic)) as [Sc _].
      destruct (since_in_range _ _ (Hr _ Is)) as [Ss _].
      pose proof (Hr _ Ic) as Rc. pose proof (Hr _ Is) as Rs.
      assert (Hcs : forall e, In e (evq_events (sq_c sq)) -> (se_time ce <= se_time e)%Z).
      { intros e He. apply kle_time. apply Lc. exact He. }
      assert (Hss : forall e, In e (evq_events (sq_s sq)) -> (se_time se <= se_time e)%Z).
      { intros e He. apply kle_time. apply Ls. exact He. }
      destruct (N.compare_spec cdur sdur) as [E|E|E].
      + assert (Et : se_time ce = se_time se) by lia.
        destruct (ev_idx (se_ev ce) ?= ev_idx (se_ev se)); injection Epk as <- _ _;
          eexists; (split; [reflexivity|]); intros e He; apply in_app_or in He;
          destruct He as [He|He]; try (apply Hcs in He); try (apply Hss in He); lia.
      + injection Epk as <- _ _. eexists. split; [reflexivity|]. intros e He.
        apply in_app_or in He. destruct He as [He|He]; [apply Hcs in He|apply Hss in He]; lia.
      + injection Epk as <- _ _. eexists. split; [reflexivity|]. intros e He.
        apply in_app_or in He. destruct He as [He|He]; [apply Hcs in He|apply Hss in He]; lia.
    - injection Epk as <- _ _. eexists. split; [reflexivity|]. intros e He.
      rewrite Ls, app_nil_r in He. apply kle_time. apply Lc. exact He.
    - injection Epk as <- _ _. eexists. split; [reflexivity|]. intros e He.
      rewrite Lc in He. cbn [app] in He. apply kle_time. apply Ls. exact He.
    - exfalso. apply Hne. rewrite all_events_split, Lc, Ls. reflexivity. }
  destruct Ho as (p & -> & Hmin).
  destruct (sq_peek_sel _ _ _ _ _ _ _ W Epk) as [Hp Hd].
  replace (if se_client p then 0 else 0) with 0 in Hd by (destruct (se_client p); reflexivity).
  rewrite pop_time_zero in Hd.
  exists p, w. split; [rewrite Hd; reflexivity|]. split; [exact Hp|]. split; [|exact Hmin].
  rewrite all_events_split. apply heap_peek_in in Hp. apply evq_sel_events in Hp.
  destruct (se_client p); cbn [sq_side] in Hp; apply in_or_app; [left|right]; exact Hp.
Qed.

Lemma set_time_same : forall x, set_time x (se_time x + Z.of_N 0)%Z = x.
Proof. intros x. rewrite Z.add_0_r. destruct x. reflexivity. Qed.

Lemma evq_pop_exact : forall q w p,
  heap_peek (evq_sel q w) = Some p ->
  exists q', evq_pop q w 0 = Some (p, q') /\
             Permutation (evq_events q) (p :: evq_events q') /\
             (heaps_ok q -> heaps_ok q').
Proof.
  intros q w p H. unfold evq_pop, evq_events, heaps_ok.
  destruct w; cbn [evq_sel] in H;
    match goal with |- context [heap_pop sev_le ?h] => destruct (heap_pop sev_le h) as [[x h']|] eqn:E end;
    try (apply heap_pop_none in E; rewrite E in H; discriminate H);
    pose proof (heap_pop_peek _ _ _ _ _ E) as E'; rewrite H in E'; injection E' as <-;
    rewrite ?set_time_same; eexists; (split; [reflexivity|]);
    cbn [q_base q_blocking q_bypass q_internal];
    (split; [rewrite (heap_pop_perm _ _ _ _ _ E);
             first [ apply Permutation_refl | apply perm_ins2 | apply perm_ins3 | apply perm_ins4 ]|]);
    intros (H1 & H2 & H3 & H4); (split; [|split; [|split]]); try assumption;
    (eapply hp_pop; [|exact E]; assumption).
Qed.

Lemma sq_pop_exact : forall sq w ic p,
  heap_peek (evq_sel (sq_side sq ic) w) = Some p ->
  exists sq', sq_pop sq w ic 0 = Some (p, sq') /\
              Permutation (all_events sq) (p :: all_events sq') /\
              (sq_heaps sq -> sq_heaps sq').
Proof.
  intros sq w ic p H. destruct (evq_pop_exact _ _ _ H) as (q' & E & HP & Hh).
  unfold sq_pop. rewrite E. eexists. split; [reflexivity|].
  rewrite !all_events_split. unfold sq_set_side, sq_side, sq_heaps in *.
  destruct ic; cbn [sq_c sq_s].
  - split; [rewrite HP; apply Permutation_refl|]. intros [A B]. split; auto.
  - split; [rewrite HP; apply Permutation_sym; apply Permutation_middle|]. intros [A B]. split; auto.
Qed.

(** ** idle sides and a quiet network *)
Definition idle_side (sd : side) : Prop :=
  s_sched sd = [] /\ s_timers sd = [] /\ s_buntil sd = None /\ slots (s_fw sd) = [].

Definition quiet_net (delay limit : N) (nb : netb) : Prop :=
  n_cagg nb = 0 /\ n_sagg nb = 0 /\ n_aggq nb = [] /\ n_delay nb = delay /\ n_limit nb = limit.

Lemma all_events_nil_len : forall sq, all_events sq = [] -> sq_len sq = 0%nat.
Proof.
  intros sq H. unfold all_events in H. unfold sq_len, evq_len.
  repeat (apply app_eq_nil in H; let A := fresh "A" in destruct H as [A H]; rewrite A).
  rewrite H. reflexivity.
Qed.

Lemma peek_queue_idle : forall sq c s nowt p w dur,
  s_buntil c = None -> s_buntil s = None ->
  sq_peek sq 0 0 nowt = (Some p, w, dur) -> dur <= DMAX ->
  peek_queue sq c s 0 0 DMAX nowt = (dur, w, se_client p).
Proof.
  intros sq c s nowt p w dur Hc Hs Hpk Hd. unfold peek_queue.
  destruct (sq_len sq) eqn:El.
  { unfold sq_peek in Hpk. rewrite El in Hpk. discriminate Hpk. }
  rewrite Hpk. destruct (N.ltb_spec DMAX dur) as [C|_]; [lia|].
  destruct (negb (is_tunnel_sent (se_ev p))); [reflexivity|].
  rewrite Hc, Hs. reflexivity.
Qed.

(** (d) under the invariant [pick_next] either finds the queue empty, or takes out exactly the
    earliest queued event and reports it with its time unchanged; nothing else changes *)
Theorem pick_next_min : forall f st nowt r st' delay limit,
  idle_side (m_c st) -> idle_side (m_s st) -> quiet_net delay limit (m_net st) ->
  sq_wf (m_sq st) -> sq_heaps (m_sq st) -> in_range nowt (all_events (m_sq st)) ->
  pick_next (S f) st nowt = Ok (r, st') ->
  (r = None /\ st' = st /\ all_events (m_sq st) = []) \/
  (exists next sq',
     r = Some next /\ st' = mksim sq' (m_c st) (m_s st) (m_net st) (m_pos st) /\
     Permutation (all_events (m_sq st)) (next :: all_events sq') /\
     In next (all_events (m_sq st)) /\
     (forall e, In e (all_events (m_sq st)) -> (se_time next <= se_time e)%Z) /\
     sq_wf sq' /\ sq_heaps sq' /\ (routed (m_sq st) -> routed sq')).
Proof.
  intros f st nowt r st' delay limit (Hc1 & Hc2 & Hc3 & _) (Hs1 & Hs2 & Hs3 & _)
         (Hn1 & Hn2 & Hn3 & _ & _) W Hh Hr H.
  destruct st as [sq c s net pos]. cbn [m_sq m_c m_s m_net m_pos] in *.
  cbn [pick_next m_sq m_c m_s m_net m_pos] in H.
  rewrite Hc1, Hc2, Hs1, Hs2, Hc3, Hs3 in H.
  change (peek_sched [] [] nowt) with DMAX in H.
  change (peek_timers [] [] nowt) with DMAX in H.
  change (peek_blocked_exp None None nowt) with (DMAX, true) in H.
  assert (Hpa : net_peek_agg net nowt = DMAX).
  { unfold net_peek_agg. rewrite Hn3. reflexivity. }
  rewrite Hpa, Hn1, Hn2 in H. rewrite !N.min_id in H. cbv beta iota in H.
  assert (Hdec : all_events sq = [] \/ all_events sq <> []).
  { destruct (all_events sq); [left; reflexivity|right; discriminate]. }
  destruct Hdec as [Eall|Hne].
  - left. assert (Hpq : peek_queue sq c s 0 0 DMAX nowt = (DMAX, QBlocking, false)).
    { unfold peek_queue. rewrite (all_events_nil_len sq Eall). reflexivity. }
    rewrite Hpq in H. cbv beta iota in H. rewrite N.eqb_refl in H. cbn [andb] in H.
    injection H as <- <-. auto.
  - right. destruct (sq_peek_min sq nowt W Hh Hr Hne) as (p & w & Hpk & Hp & Hin & Hmin).
    destruct (since_in_range _ _ (Hr p Hin)) as [_ Hq].
    pose proof (Hr p Hin) as Hrp.
    remember (since (se_time p) nowt) as q eqn:Eq.
    rewrite (peek_queue_idle sq c s nowt p w q Hc3 Hs3 Hpk ltac:(lia)) in H.
    cbv beta iota in H. rewrite N.eqb_refl in H.
    replace (q =? DMAX) with false in H by (symmetry; apply N.eqb_neq; lia).
    cbn [andb] in H.
    replace (DMAX <=? q) with false in H by (symmetry; apply N.leb_gt; lia).
    rewrite N.leb_refl in H. cbn [andb] in H.
    replace (q <=? DMAX) with true in H by (symmetry; apply N.leb_le; lia).
    cbn [andb] in H.
    replace (if se_client p then 0 else 0) with 0 in H by (destruct (se_client p); reflexivity).
    destruct (sq_pop_exact sq w (se_client p) p Hp) as (sq' & Epop & HP & Hh').
    rewrite Epop in H.
    assert (Et : (nowt + Z.of_N q)%Z = se_time p).
    { rewrite Eq. apply since_exact; [lia|rewrite <- Eq; exact Hq]. }
    rewrite Et, Z.ltb_irrefl in H. injection H as <- <-.
    exists p, sq'. split; [reflexivity|]. split; [reflexivity|]. split; [exact HP|].
    split; [exact Hin|]. split; [exact Hmin|]. split; [eapply sq_wf_pop; eauto|].
    split; [apply Hh'; exact Hh|]. intros R. eapply sq_pop_routed; eauto.
Qed.

(** ** (b) without machines the framework never acts *)
Theorem trigger_update_idle : forall cf tp sd pos next nowt sq ic sd' sq' pos',
  idle_side sd ->
  trigger_update cf tp sd pos next nowt sq ic = Ok (sd', sq', pos') ->
  sq' = sq /\ idle_side sd' /\ s_bbypass sd' = s_bbypass sd.
Proof.
  intros cf tp sd pos next nowt sq ic sd' sq' pos' (H1 & H2 & H3 & H4) H.
  unfold trigger_update in H. mbind H as [fw' acts] Et.
  pose proof (output_contract _ _ _ _ _ _ _ Et) as (Hlen & _).
  rewrite (slots_length_call _ _ _ _ _ _ _ Et) in Hlen.
  change (slots (set_pos (s_fw sd) pos)) with (slots (s_fw sd)) in Hlen.
  rewrite H4 in Hlen. destruct acts as [|a acts]; [|cbn [length] in Hlen; lia].
  cbn [apply_actions bind] in H. injection H as <- <- <-.
  split; [reflexivity|]. split; [|reflexivity].
  unfold idle_side, side_set_fw. cbn [s_sched s_timers s_buntil s_fw].
  split; [exact H1|]. split; [exact H2|]. split; [exact H3|].
  pose proof (slots_length_call _ _ _ _ _ _ _ Et) as Hl.
  change (slots (set_pos (s_fw sd) pos)) with (slots (s_fw sd)) in Hl. rewrite H4 in Hl.
  destruct (slots fw'); [reflexivity|discriminate Hl].
Qed.

(** ** (c) below the limit the bottleneck adds nothing *)
Definition net_set_win (nb : netb) (ic : bool) (w : list Z) : netb :=
  if ic
  then mknetb (n_cagg nb) (n_sagg nb) (n_aggq nb) (n_delay nb) w (n_swin nb) (n_added nb) (n_limit nb)
  else mknetb (n_cagg nb) (n_sagg nb) (n_aggq nb) (n_delay nb) (n_cwin nb) w (n_added nb) (n_limit nb).
Definition net_win (nb : netb) (ic : bool) : list Z := if ic then n_cwin nb else n_swin nb.

Theorem net_sample_quiet : forall nb t ic,
  snd (window_add_w WINDOW (net_win nb ic) t) <= n_limit nb ->
  net_sample nb t ic =
  (net_set_win nb ic (fst (window_add_w WINDOW (net_win nb ic) t)), n_delay nb, None).
Proof.
  intros nb t ic H. unfold net_sample, window_add, net_win, net_set_win in *.
  destruct (window_add_w WINDOW (if ic then n_cwin nb else n_swin nb) t) as [w c].
  cbn [fst snd] in *.
  destruct (N.ltb_spec (n_limit nb) c) as [C|_]; [lia|].
  change (0 <? 0) with false. cbv iota. reflexivity.
Qed.

Lemma quiet_net_set_win : forall d l nb ic w, quiet_net d l nb -> quiet_net d l (net_set_win nb ic w).
Proof. intros d l nb ic w H. unfold quiet_net, net_set_win in *. destruct ic; exact H. Qed.

(** ** (e) what the network stack queues for a plain event *)
Definition out_of (d : N) (next : sev) : list sev :=
  match se_ev next with
  | TENormalSent => [mksev TETunnelSent (se_time next) (se_client next) false false false]
  | TETunnelSent => [mksev TETunnelRecv (se_time next + Z.of_N d)%Z (negb (se_client next)) false false false]
  | TETunnelRecv => [mksev TENormalRecv (se_time next) (se_client next) false false false]
  | _ => []
  end.

Definition net_after (nb : netb) (next : sev) : netb :=
  match se_ev next with
  | TETunnelSent =>
      net_set_win nb (se_client next)
        (fst (window_add_w WINDOW (net_win nb (se_client next)) (se_time next)))
  | _ => nb
  end.

Theorem sim_network_stack_plain : forall next sq bb nb sq2 nb2 act,
  plain next ->
  (se_ev next = TETunnelSent ->
   snd (window_add_w WINDOW (net_win nb (se_client next)) (se_time next)) <= n_limit nb) ->
  sim_network_stack next sq bb nb (se_time next) = Ok (sq2, nb2, act) ->
  sq2 = fold_left sq_push (out_of (n_delay nb) next) sq /\ nb2 = net_after nb next.
Proof.
  intros next sq bb nb sq2 nb2 act (Hpad & _ & _ & Hev) Hcnt H.
  unfold sim_network_stack in H. unfold out_of, net_after.
  destruct Hev as [Ev|[Ev|[Ev|Ev]]]; rewrite Ev in *.
  - injection H as <- <- _. split; reflexivity.
  - rewrite (net_sample_quiet nb _ _ (Hcnt eq_refl)) in H. rewrite Hpad in H. cbn [negb] in H.
    rewrite Z.max_l in H by lia. injection H as <- <- _. split; reflexivity.
  - rewrite Hpad in H. injection H as <- <- _. split; reflexivity.
  - injection H as <- <- _. split; reflexivity.
Qed.

Lemma out_of_plain : forall d next e, In e (out_of d next) -> plain e.
Proof.
  intros d next e H. unfold out_of in H. unfold plain.
  destruct (se_ev next); try contradiction; destruct H as [<-|[]]; cbn [se_pad se_bypass se_replace se_ev]; auto 10.
Qed.

Lemma out_of_time : forall d next e, In e (out_of d next) ->
  (se_time next <= se_time e <= se_time next + Z.of_N d)%Z.
Proof.
  intros d next e H. unfold out_of in H.
  destruct (se_ev next); try contradiction; destruct H as [<-|[]]; cbn [se_time]; lia.
Qed.

Lemma fold_push_perm : forall l sq, Permutation (all_events (fold_left sq_push l sq)) (l ++ all_events sq).
Proof.
  induction l as [|x l IH]; intros sq; cbn [fold_left app]; [apply Permutation_refl|].
  rewrite IH. rewrite sq_push_perm. apply Permutation_sym. apply Permutation_middle.
Qed.

Lemma fold_push_heaps : forall l sq, sq_heaps sq -> sq_heaps (fold_left sq_push l sq).
Proof. induction l as [|x l IH]; intros sq H; cbn [fold_left]; [exact H|]. apply IH. apply sq_heaps_push. exact H. Qed.

Lemma fold_push_routed : forall l sq, routed sq -> routed (fold_left sq_push l sq).
Proof. induction l as [|x l IH]; intros sq H; cbn [fold_left]; [exact H|]. apply IH. apply sq_push_routed. exact H. Qed.
