From Coq Require Import List Arith Lia Permutation Sorted ZArith Bool.
From MB Require Import Base.Prelude Model.Framework Model.Sim Proofs.Tactics Proofs.SimHeap.
From MB Require Import Proofs.FrameworkInv Proofs.FrameworkSlots Proofs.SimTimers Proofs.SimConserve.
Import ListNotations.
Open Scope N_scope.

(** * Property C14: without machines the simulator reproduces the parsed trace

    With no machine on either side, simulating a parsed trace gives back exactly the
    trace: the client's TunnelSent events are at the send times, its TunnelRecv events
    at the receive times, the server is the mirror image shifted by the network delay,
    and there is nothing else (theorem [no_machines_identity] at the end). *)

Definition sends (tr : list (Z * bool)) : list Z := map fst (filter (fun x => snd x) tr).
Definition recvs (tr : list (Z * bool)) : list Z := map fst (filter (fun x => negb (snd x)) tr).
Definition times (p : sev -> bool) (l : list sev) : list Z := map se_time (filter p l).
Fixpoint win_counts_from (win : N) (w : list Z) (ts : list Z) : list N :=
  match ts with
  | [] => []
  | t :: rest => let '(w', c) := window_add_w win w t in c :: win_counts_from win w' rest
  end.
Definition win_counts (win : N) (ts : list Z) : list N := win_counts_from win [] ts.

(** only the four packet events, no padding, no flags *)
Definition plain (e : sev) : Prop :=
  se_pad e = false /\ se_bypass e = false /\ se_replace e = false /\
  (se_ev e = TENormalSent \/ se_ev e = TETunnelSent \/ se_ev e = TETunnelRecv \/ se_ev e = TENormalRecv).

(** ** (a) the heap order on events is a total preorder *)
Lemma sev_le_spec : forall a b,
  sev_le a b = true <->
  ((se_time b < se_time a)%Z \/ (se_time a = se_time b /\ ev_idx (se_ev b) <= ev_idx (se_ev a))).
Proof.
  intros a b. unfold sev_le, sev_cmp, key_cmp.
  destruct (Z.compare_spec (se_time a) (se_time b)) as [E|E|E];
    [destruct (N.compare_spec (ev_idx (se_ev a)) (ev_idx (se_ev b))) as [F|F|F]| |];
    split; intros H; try reflexivity; try discriminate H; lia.
Qed.

Lemma sev_gt_spec : forall a b,
  sev_gt a b = true <->
  ((se_time a < se_time b)%Z \/ (se_time a = se_time b /\ ev_idx (se_ev a) < ev_idx (se_ev b))).
Proof.
  intros a b. unfold sev_gt, sev_cmp, key_cmp.
  destruct (Z.compare_spec (se_time a) (se_time b)) as [E|E|E];
    [destruct (N.compare_spec (ev_idx (se_ev a)) (ev_idx (se_ev b))) as [F|F|F]| |];
    split; intros H; try reflexivity; try discriminate H; lia.
Qed.

Theorem sev_le_total : forall a b, sev_le a b = true \/ sev_le b a = true.
Proof. intros a b. rewrite !sev_le_spec. lia. Qed.

Theorem sev_le_trans : forall a b c, sev_le a b = true -> sev_le b c = true -> sev_le a c = true.
Proof. intros a b c. rewrite !sev_le_spec. lia. Qed.

(** [kle a b]: the key (time, event number) of [a] is at most the key of [b] *)
Definition kle (a b : sev) : Prop := sev_le b a = true.

Lemma kle_time : forall a b, kle a b -> (se_time a <= se_time b)%Z.
Proof. intros a b H. unfold kle in H. rewrite sev_le_spec in H. lia. Qed.

Lemma kle_trans : forall a b c, kle a b -> kle b c -> kle a c.
Proof. intros a b c H1 H2. unfold kle in *. eapply sev_le_trans; eauto. Qed.

Definition hp (h : list sev) : Prop := is_heap sev sev_le h.

Lemma hp_nil : hp [].
Proof. apply is_heap_nil. Qed.

Lemma hp_push : forall h x, hp h -> hp (heap_push sev_le h x).
Proof. intros h x H. apply heap_push_is_heap; [apply sev_le_total|apply sev_le_trans|exact H]. Qed.

Lemma hp_pop : forall h x h', hp h -> heap_pop sev_le h = Some (x, h') -> hp h'.
Proof.
  intros h x h' H E.
  eapply heap_pop_is_heap; [apply sev_le_total|apply sev_le_trans|exact H|exact E].
Qed.

(** [lb o h]: [o] is a least element of [h] ([None] iff [h] is empty) *)
Definition lb (o : option sev) (h : list sev) : Prop :=
  match o with
  | Some p => forall e, In e h -> kle p e
  | None => h = []
  end.

Lemma lb_peek : forall h, hp h -> lb (heap_peek h) h.
Proof.
  intros h H. destruct h as [|a t]; [reflexivity|].
  cbn [heap_peek hd_error lb]. intros e He. unfold kle.
  eapply heap_peek_max; [apply sev_le_total|apply sev_le_trans|exact H|reflexivity|exact He].
Qed.

Lemma lb_opt_gt : forall n f hn hf,
  lb n hn -> lb f hf -> lb (if opt_gt n f then n else f) (hn ++ hf).
Proof.
  intros n f hn hf Hn Hf. destruct n as [a|], f as [b|]; cbn [opt_gt lb] in *.
  - destruct (sev_gt a b) eqn:E; cbn [lb]; intros e He; apply in_app_or in He; destruct He as [He|He].
    + apply Hn. exact He.
    + eapply kle_trans; [|apply Hf; exact He]. unfold kle. rewrite sev_le_spec.
      rewrite sev_gt_spec in E. lia.
    + eapply kle_trans; [|apply Hn; exact He]. unfold kle. rewrite sev_le_spec.
      assert (E' : ~ ((se_time a < se_time b)%Z \/
                      (se_time a = se_time b /\ ev_idx (se_ev a) < ev_idx (se_ev b)))).
      { intros C. rewrite <- sev_gt_spec in C. congruence. }
      lia.
    + apply Hf. exact He.
  - subst hf. rewrite app_nil_r. exact Hn.
  - subst hn. exact Hf.
  - subst hn hf. reflexivity.
Qed.

Lemma before_spec : forall x y,
  before (Some x) (Some y) 0 = true <->
  ((se_time x < se_time y)%Z \/ (se_time x = se_time y /\ ev_idx (se_ev x) <= ev_idx (se_ev y))).
Proof.
  intros x y. unfold before, key_cmp. rewrite Z.add_0_r.
  destruct (Z.compare_spec (se_time x) (se_time y)) as [E|E|E];
    [destruct (N.compare_spec (ev_idx (se_ev x)) (ev_idx (se_ev y))) as [F|F|F]| |];
    split; intros H; try reflexivity; try discriminate H; lia.
Qed.

Lemma lb_before : forall n f hn hf,
  lb n hn -> lb f hf -> lb (if before n f 0 then n else f) (hn ++ hf).
Proof.
  intros n f hn hf Hn Hf. destruct n as [a|], f as [b|].
  - destruct (before (Some a) (Some b) 0) eqn:E; cbn [lb] in *;
      intros e He; apply in_app_or in He; destruct He as [He|He].
    + apply Hn. exact He.
    + eapply kle_trans; [|apply Hf; exact He]. unfold kle. rewrite sev_le_spec.
      rewrite before_spec in E. lia.
    + eapply kle_trans; [|apply Hn; exact He]. unfold kle. rewrite sev_le_spec.
      assert (E' : ~ ((se_time a < se_time b)%Z \/
                      (se_time a = se_time b /\ ev_idx (se_ev a) <= ev_idx (se_ev b)))).
      { intros C. rewrite <- before_spec in C. congruence. }
      lia.
    + apply Hf. exact He.
  - cbn [before lb] in *. subst hf. rewrite app_nil_r. exact Hn.
  - cbn [before lb] in *. subst hn. exact Hf.
  - cbn [before lb] in *. subst hn hf. reflexivity.
Qed.

(** ** the queue: every heap is a heap *)
Definition heaps_ok (q : evq) : Prop :=
  hp (q_base q) /\ hp (q_blocking q) /\ hp (q_bypass q) /\ hp (q_internal q).
Definition sq_heaps (sq : simq) : Prop := heaps_ok (sq_c sq) /\ heaps_ok (sq_s sq).

Lemma heaps_ok_push : forall q x, heaps_ok q -> heaps_ok (evq_push q x).
Proof.
  intros q x (H1 & H2 & H3 & H4). unfold evq_push, heaps_ok.
  destruct (se_ev x); try destruct (se_bypass x); cbn [q_base q_blocking q_bypass q_internal];
    (split; [|split; [|split]]); try assumption; apply hp_push; assumption.
Qed.

Lemma sq_heaps_push : forall sq x, sq_heaps sq -> sq_heaps (sq_push sq x).
Proof.
  intros sq x [Hc Hs]. unfold sq_push, sq_set_side, sq_side, sq_heaps.
  destruct (se_client x); cbn [sq_c sq_s]; split; try assumption; apply heaps_ok_push; assumption.
Qed.

Lemma evq_len_zero : forall q, evq_len q = 0%nat -> evq_events q = [].
Proof.
  intros q H. unfold evq_len in H. unfold evq_events.
  destruct (q_base q), (q_blocking q), (q_bypass q), (q_internal q); cbn [length] in H; try lia.
  reflexivity.
Qed.

Lemma evq_peek_fst : forall q d nowt,
  fst (fst (evq_peek q d nowt)) =
  match evq_len q with
  | O => None
  | S _ =>
      let f1 := if opt_gt (heap_peek (q_blocking q)) (heap_peek (q_bypass q))
                then heap_peek (q_blocking q) else heap_peek (q_bypass q) in
      let f2 := if opt_gt (heap_peek (q_internal q)) f1 then heap_peek (q_internal q) else f1 in
      if before (heap_peek (q_base q)) f2 d then heap_peek (q_base q) else f2
  end.
Proof.
  intros q d nowt. unfold evq_peek. destruct (evq_len q); [reflexivity|]. cbv zeta.
  destruct (opt_gt (heap_peek (q_blocking q)) (heap_peek (q_bypass q))); cbv beta iota;
    match goal with |- context [opt_gt ?a ?b] => destruct (opt_gt a b) end; cbv beta iota;
    match goal with |- context [before ?a ?b ?c] => destruct (before a b c) end; reflexivity.
Qed.

(** the event [evq_peek] answers is a least element of the whole queue (no aggregate delay) *)
Lemma evq_peek_lb : forall q nowt,
  heaps_ok q -> lb (fst (fst (evq_peek q 0 nowt))) (evq_events q).
Proof.
  intros q nowt (H1 & H2 & H3 & H4). rewrite evq_peek_fst.
  destruct (evq_len q) eqn:El.
  - cbn [lb]. apply evq_len_zero. exact El.
  - cbv zeta.
    pose proof (lb_opt_gt _ _ _ _ (lb_peek _ H2) (lb_peek _ H3)) as L1.
    pose proof (lb_opt_gt _ _ _ _ (lb_peek _ H4) L1) as L2.
    pose proof (lb_before _ _ _ _ (lb_peek _ H1) L2) as L3.
    match goal with |- lb ?o _ => destruct o as [p|] end; cbn [lb] in *.
    + intros e He. apply L3. unfold evq_events in He.
      repeat (apply in_app_or in He; destruct He as [He|He]);
        repeat first [ assumption | apply in_or_app; left; assumption | apply in_or_app; right ].
    + unfold evq_events.
      destruct (q_base q); [|discriminate L3].
      destruct (q_internal q); [|discriminate L3].
      destruct (q_blocking q); [|discriminate L3].
      destruct (q_bypass q); [|discriminate L3]. reflexivity.
Qed.

Lemma pop_time_zero : forall w p, pop_time w p 0 = se_time p.
Proof. intros w p. destruct w; cbn [pop_time]; try reflexivity. apply Z.add_0_r. Qed.

Lemma evq_sel_events : forall q w e, In e (evq_sel q w) -> In e (evq_events q).
Proof.
  intros q w e H. unfold evq_events. destruct w; cbn [evq_sel] in H;
    repeat first [ assumption | apply in_or_app; left; assumption | apply in_or_app; right ].
Qed.

Lemma since_in_range : forall t nowt, (nowt <= t < nowt + Z.of_N DMAX)%Z ->
  since t nowt = Z.to_N (t - nowt) /\ since t nowt < DMAX.
Proof. intros t nowt H. unfold since. lia. Qed.

Definition in_range (nowt : Z) (l : list sev) : Prop :=
  forall e, In e l -> (nowt <= se_time e < nowt + Z.of_N DMAX)%Z.

(** (d, first half) [sq_peek] answers the earliest queued event *)
Lemma sq_peek_min : forall sq nowt,
  sq_wf sq -> sq_heaps sq -> in_range nowt (all_events sq) -> all_events sq <> [] ->
  exists p w,
    sq_peek sq 0 0 nowt = (Some p, w, since (se_time p) nowt) /\
    heap_peek (evq_sel (sq_side sq (se_client p)) w) = Some p /\
    In p (all_events sq) /\
    forall e, In e (all_events sq) -> (se_time p <= se_time e)%Z.
Proof.
  intros sq nowt W [Hc Hs] Hr Hne.
  assert (Hlen : sq_len sq <> 0%nat).
  { intros C. apply Hne. unfold sq_len in C. rewrite all_events_split.
    rewrite (evq_len_zero (sq_c sq)), (evq_len_zero (sq_s sq)) by lia. reflexivity. }
  destruct (sq_peek sq 0 0 nowt) as [[o w] dur] eqn:Epk.
  pose proof (evq_peek_lb (sq_c sq) nowt Hc) as Lc.
  pose proof (evq_peek_lb (sq_s sq) nowt Hs) as Ls.
  assert (Ho : exists p, o = Some p /\ forall e, In e (all_events sq) -> (se_time p <= se_time e)%Z).
  { unfold sq_peek in Epk. destruct (sq_len sq) as [|k]; [contradiction Hlen; reflexivity|].
    destruct (evq_peek (sq_c sq) 0 nowt) as [[c cq] cdur] eqn:Ec.
    destruct (evq_peek (sq_s sq) 0 nowt) as [[s sqq] sdur] eqn:Es.
    cbn [fst] in Lc, Ls. rewrite all_events_split.
    destruct c as [ce|], s as [se|]; cbn [lb] in Lc, Ls.
    - destruct (evq_peek_sel _ _ _ _ _ _ Ec) as [Pc Dc].
      destruct (evq_peek_sel _ _ _ _ _ _ Es) as [Ps Ds].
      rewrite pop_time_zero in Dc, Ds.
      assert (Ic : In ce (all_events sq)).
      { rewrite all_events_split. apply in_or_app. left. eapply evq_sel_events.
        eapply heap_peek_in. exact Pc. }
      assert (Is : In se (all_events sq)).
      { rewrite all_events_split. apply in_or_app. right. eapply evq_sel_events.
        eapply heap_peek_in. exact Ps. }
      destruct (since_in_range _ _ (Hr _ Ic)) as [Sc _].
      destruct (since_in_range _ _ (Hr _ Is)) as [Ss _].
      pose proof (Hr _ Ic) as Rc. pose proof (Hr _ Is) as Rs.
      assert (Hcs : forall e, In e (evq_events (sq_c sq)) -> (se_time ce <= se_time e)%Z).
      { intros e He. apply kle_time. apply Lc. exact He. }
      assert (Hss : forall e, In e (evq_events (sq_s sq)) -> (se_time se <= se_time e)%Z).
      { intros e He. apply kle_time. apply Ls. exact He. }
      destruct (N.compare_spec cdur sdur) as [E|E|E].
      + assert (Et : se_time ce = se_time se) by lia.
        destruct (ev_idx (se_ev ce) ?= ev_idx (se_ev se)); injection Epk as <- _ _;
          eexists; (split; [reflexivity|]); intros e He; apply in_app_or in He;
          destruct He as [He|He]; try (apply Hcs in He); try (apply Hss in He); lia.
      + injection Epk as <- _ _. eexists. split; [reflexivity|]. intros e He.
        apply in_app_or in He. destruct He as [He|He]; [apply Hcs in He|apply Hss in He]; lia.
      + injection Epk as <- _ _. eexists. split; [reflexivity|]. intros e He.
        apply in_app_or in He. destruct He as [He|He]; [apply Hcs in He|apply Hss in He]; lia.
    - injection Epk as <- _ _. eexists. split; [reflexivity|]. intros e He.
      rewrite Ls, app_nil_r in He. apply kle_time. apply Lc. exact He.
    - injection Epk as <- _ _. eexists. split; [reflexivity|]. intros e He.
      rewrite Lc in He. cbn [app] in He. apply kle_time. apply Ls. exact He.
    - exfalso. apply Hne. rewrite all_events_split, Lc, Ls. reflexivity. }
  destruct Ho as (p & -> & Hmin).
  destruct (sq_peek_sel _ _ _ _ _ _ _ W Epk) as [Hp Hd].
  replace (if se_client p then 0 else 0) with 0 in Hd by (destruct (se_client p); reflexivity).
  rewrite pop_time_zero in Hd.
  exists p, w. split; [rewrite Hd; reflexivity|]. split; [exact Hp|]. split; [|exact Hmin].
  rewrite all_events_split. apply heap_peek_in in Hp. apply evq_sel_events in Hp.
  destruct (se_client p); cbn [sq_side] in Hp; apply in_or_app; [left|right]; exact Hp.
Qed.

Lemma set_time_same : forall x, set_time x (se_time x + Z.of_N 0)%Z = x.
Proof. intros x. rewrite Z.add_0_r. destruct x. reflexivity. Qed.

Lemma evq_pop_exact : forall q w p,
  heap_peek (evq_sel q w) = Some p ->
  exists q', evq_pop q w 0 = Some (p, q') /\
             Permutation (evq_events q) (p :: evq_events q') /\
             (heaps_ok q -> heaps_ok q').
Proof.
  intros q w p H. unfold evq_pop, evq_events, heaps_ok.
  destruct w; cbn [evq_sel] in H;
    match goal with |- context [heap_pop sev_le ?h] => destruct (heap_pop sev_le h) as [[x h']|] eqn:E end;
    try (apply heap_pop_none in E; rewrite E in H; discriminate H);
    pose proof (heap_pop_peek _ _ _ _ _ E) as E'; rewrite H in E'; injection E' as <-;
    rewrite ?set_time_same; eexists; (split; [reflexivity|]);
    cbn [q_base q_blocking q_bypass q_internal];
    (split; [rewrite (heap_pop_perm _ _ _ _ _ E);
             first [ apply Permutation_refl | apply perm_ins2 | apply perm_ins3 | apply perm_ins4 ]|]);
    intros (H1 & H2 & H3 & H4); (split; [|split; [|split]]); try assumption;
    (eapply hp_pop; [|exact E]; assumption).
Qed.

Lemma sq_pop_exact : forall sq w ic p,
  heap_peek (evq_sel (sq_side sq ic) w) = Some p ->
  exists sq', sq_pop sq w ic 0 = Some (p, sq') /\
              Permutation (all_events sq) (p :: all_events sq') /\
              (sq_heaps sq -> sq_heaps sq').
Proof.
  intros sq w ic p H. destruct (evq_pop_exact _ _ _ H) as (q' & E & HP & Hh).
  unfold sq_pop. rewrite E. eexists. split; [reflexivity|].
  rewrite !all_events_split. unfold sq_set_side, sq_side, sq_heaps in *.
  destruct ic; cbn [sq_c sq_s].
  - split; [rewrite HP; apply Permutation_refl|]. intros [A B]. split; auto.
  - split; [rewrite HP; apply Permutation_sym; apply Permutation_middle|]. intros [A B]. split; auto.
Qed.

(** ** idle sides and a quiet network *)
Definition idle_side (sd : side) : Prop :=
  s_sched sd = [] /\ s_timers sd = [] /\ s_buntil sd = None /\ slots (s_fw sd) = [].

Definition quiet_net (delay limit : N) (nb : netb) : Prop :=
  n_cagg nb = 0 /\ n_sagg nb = 0 /\ n_aggq nb = [] /\ n_delay nb = delay /\ n_limit nb = limit.

Lemma all_events_nil_len : forall sq, all_events sq = [] -> sq_len sq = 0%nat.
Proof.
  intros sq H. unfold all_events in H. unfold sq_len, evq_len.
  repeat (apply app_eq_nil in H; let A := fresh "A" in destruct H as [A H]; rewrite A).
  rewrite H. reflexivity.
Qed.

Lemma peek_queue_idle : forall sq c s nowt p w dur,
  s_buntil c = None -> s_buntil s = None ->
  sq_peek sq 0 0 nowt = (Some p, w, dur) -> dur <= DMAX ->
  peek_queue sq c s 0 0 DMAX nowt = (dur, w, se_client p).
Proof.
  intros sq c s nowt p w dur Hc Hs Hpk Hd. unfold peek_queue.
  destruct (sq_len sq) eqn:El.
  { unfold sq_peek in Hpk. rewrite El in Hpk. discriminate Hpk. }
  rewrite Hpk. destruct (N.ltb_spec DMAX dur) as [C|_]; [lia|].
  destruct (negb (is_tunnel_sent (se_ev p))); [reflexivity|].
  rewrite Hc, Hs. reflexivity.
Qed.

(** (d) under the invariant [pick_next] either finds the queue empty, or takes out exactly the
    earliest queued event and reports it with its time unchanged; nothing else changes *)
Theorem pick_next_min : forall f st nowt r st' delay limit,
  idle_side (m_c st) -> idle_side (m_s st) -> quiet_net delay limit (m_net st) ->
  sq_wf (m_sq st) -> sq_heaps (m_sq st) -> in_range nowt (all_events (m_sq st)) ->
  pick_next (S f) st nowt = Ok (r, st') ->
  (r = None /\ st' = st /\ all_events (m_sq st) = []) \/
  (exists next sq',
     r = Some next /\ st' = mksim sq' (m_c st) (m_s st) (m_net st) (m_pos st) /\
     Permutation (all_events (m_sq st)) (next :: all_events sq') /\
     In next (all_events (m_sq st)) /\
     (forall e, In e (all_events (m_sq st)) -> (se_time next <= se_time e)%Z) /\
     sq_wf sq' /\ sq_heaps sq' /\ (routed (m_sq st) -> routed sq')).
Proof.
  intros f st nowt r st' delay limit (Hc1 & Hc2 & Hc3 & _) (Hs1 & Hs2 & Hs3 & _)
         (Hn1 & Hn2 & Hn3 & _ & _) W Hh Hr H.
  destruct st as [sq c s net pos]. cbn [m_sq m_c m_s m_net m_pos] in *.
  cbn [pick_next m_sq m_c m_s m_net m_pos] in H.
  rewrite Hc1, Hc2, Hs1, Hs2, Hc3, Hs3 in H.
  change (peek_sched [] [] nowt) with DMAX in H.
  change (peek_timers [] [] nowt) with DMAX in H.
  change (peek_blocked_exp None None nowt) with (DMAX, true) in H.
  assert (Hpa : net_peek_agg net nowt = DMAX).
  { unfold net_peek_agg. rewrite Hn3. reflexivity. }
  rewrite Hpa, Hn1, Hn2 in H. rewrite !N.min_id in H. cbv beta iota in H.
  assert (Hdec : all_events sq = [] \/ all_events sq <> []).
  { destruct (all_events sq); [left; reflexivity|right; discriminate]. }
  destruct Hdec as [Eall|Hne].
  - left. assert (Hpq : peek_queue sq c s 0 0 DMAX nowt = (DMAX, QBlocking, false)).
    { unfold peek_queue. rewrite (all_events_nil_len sq Eall). reflexivity. }
    rewrite Hpq in H. cbv beta iota in H. rewrite N.eqb_refl in H. cbn [andb] in H.
    injection H as <- <-. auto.
  - right. destruct (sq_peek_min sq nowt W Hh Hr Hne) as (p & w & Hpk & Hp & Hin & Hmin).
    destruct (since_in_range _ _ (Hr p Hin)) as [_ Hq].
    pose proof (Hr p Hin) as Hrp.
    remember (since (se_time p) nowt) as q eqn:Eq.
    rewrite (peek_queue_idle sq c s nowt p w q Hc3 Hs3 Hpk ltac:(lia)) in H.
    cbv beta iota in H. rewrite N.eqb_refl in H.
    replace (q =? DMAX) with false in H by (symmetry; apply N.eqb_neq; lia).
    cbn [andb] in H.
    replace (DMAX <=? q) with false in H by (symmetry; apply N.leb_gt; lia).
    rewrite N.leb_refl in H. cbn [andb] in H.
    replace (q <=? DMAX) with true in H by (symmetry; apply N.leb_le; lia).
    cbn [andb] in H.
    replace (if se_client p then 0 else 0) with 0 in H by (destruct (se_client p); reflexivity).
    destruct (sq_pop_exact sq w (se_client p) p Hp) as (sq' & Epop & HP & Hh').
    rewrite Epop in H.
    assert (Et : (nowt + Z.of_N q)%Z = se_time p).
    { rewrite Eq. apply since_exact; [lia|rewrite <- Eq; exact Hq]. }
    rewrite Et, Z.ltb_irrefl in H. injection H as <- <-.
    exists p, sq'. split; [reflexivity|]. split; [reflexivity|]. split; [exact HP|].
    split; [exact Hin|]. split; [exact Hmin|]. split; [eapply sq_wf_pop; eauto|].
    split; [apply Hh'; exact Hh|]. intros R. eapply sq_pop_routed; eauto.
Qed.

(** ** (b) without machines the framework never acts *)
Theorem trigger_update_idle : forall cf tp sd pos next nowt sq ic sd' sq' pos',
  idle_side sd ->
  trigger_update cf tp sd pos next nowt sq ic = Ok (sd', sq', pos') ->
  sq' = sq /\ idle_side sd' /\ s_bbypass sd' = s_bbypass sd.
Proof.
  intros cf tp sd pos next nowt sq ic sd' sq' pos' (H1 & H2 & H3 & H4) H.
  unfold trigger_update in H. mbind H as [fw' acts] Et.
  pose proof (output_contract _ _ _ _ _ _ _ Et) as (Hlen & _).
  rewrite (slots_length_call _ _ _ _ _ _ _ Et) in Hlen.
  change (slots (set_pos (s_fw sd) pos)) with (slots (s_fw sd)) in Hlen.
  rewrite H4 in Hlen. destruct acts as [|a acts]; [|cbn [length] in Hlen; lia].
  cbn [apply_actions bind] in H. injection H as <- <- <-.
  split; [reflexivity|]. split; [|reflexivity].
  unfold idle_side, side_set_fw. cbn [s_sched s_timers s_buntil s_fw].
  split; [exact H1|]. split; [exact H2|]. split; [exact H3|].
  pose proof (slots_length_call _ _ _ _ _ _ _ Et) as Hl.
  change (slots (set_pos (s_fw sd) pos)) with (slots (s_fw sd)) in Hl. rewrite H4 in Hl.
  destruct (slots fw'); [reflexivity|discriminate Hl].
Qed.

(** ** (c) below the limit the bottleneck adds nothing *)
Definition net_set_win (nb : netb) (ic : bool) (w : list Z) : netb :=
  if ic
  then mknetb (n_cagg nb) (n_sagg nb) (n_aggq nb) (n_delay nb) w (n_swin nb) (n_added nb) (n_limit nb)
  else mknetb (n_cagg nb) (n_sagg nb) (n_aggq nb) (n_delay nb) (n_cwin nb) w (n_added nb) (n_limit nb).
Definition net_win (nb : netb) (ic : bool) : list Z := if ic then n_cwin nb else n_swin nb.

Theorem net_sample_quiet : forall nb t ic,
  snd (window_add_w WINDOW (net_win nb ic) t) <= n_limit nb ->
  net_sample nb t ic =
  (net_set_win nb ic (fst (window_add_w WINDOW (net_win nb ic) t)), n_delay nb, None).
Proof.
  intros nb t ic H. unfold net_sample, window_add, net_win, net_set_win in *.
  destruct (window_add_w WINDOW (if ic then n_cwin nb else n_swin nb) t) as [w c].
  cbn [fst snd] in *.
  destruct (N.ltb_spec (n_limit nb) c) as [C|_]; [lia|].
  change (0 <? 0) with false. cbv iota. reflexivity.
Qed.

Lemma quiet_net_set_win : forall d l nb ic w, quiet_net d l nb -> quiet_net d l (net_set_win nb ic w).
Proof. intros d l nb ic w H. unfold quiet_net, net_set_win in *. destruct ic; exact H. Qed.

(** ** (e) what the network stack queues for a plain event *)
Definition out_of (d : N) (next : sev) : list sev :=
  match se_ev next with
  | TENormalSent => [mksev TETunnelSent (se_time next) (se_client next) false false false]
  | TETunnelSent => [mksev TETunnelRecv (se_time next + Z.of_N d)%Z (negb (se_client next)) false false false]
  | TETunnelRecv => [mksev TENormalRecv (se_time next) (se_client next) false false false]
  | _ => []
  end.

Definition net_after (nb : netb) (next : sev) : netb :=
  match se_ev next with
  | TETunnelSent =>
      net_set_win nb (se_client next)
        (fst (window_add_w WINDOW (net_win nb (se_client next)) (se_time next)))
  | _ => nb
  end.

Theorem sim_network_stack_plain : forall next sq bb nb sq2 nb2 act,
  plain next ->
  (se_ev next = TETunnelSent ->
   snd (window_add_w WINDOW (net_win nb (se_client next)) (se_time next)) <= n_limit nb) ->
  sim_network_stack next sq bb nb (se_time next) = Ok (sq2, nb2, act) ->
  sq2 = fold_left sq_push (out_of (n_delay nb) next) sq /\ nb2 = net_after nb next.
Proof.
  intros next sq bb nb sq2 nb2 act (Hpad & _ & _ & Hev) Hcnt H.
  unfold sim_network_stack in H. unfold out_of, net_after.
  destruct Hev as [Ev|[Ev|[Ev|Ev]]]; rewrite Ev in *.
  - injection H as <- <- _. split; reflexivity.
  - rewrite (net_sample_quiet nb _ _ (Hcnt eq_refl)) in H. rewrite Hpad in H. cbn [negb] in H.
    rewrite Z.max_l in H by lia. injection H as <- <- _. split; reflexivity.
  - rewrite Hpad in H. injection H as <- <- _. split; reflexivity.
  - injection H as <- <- _. split; reflexivity.
Qed.

Lemma out_of_plain : forall d next e, In e (out_of d next) -> plain e.
Proof.
  intros d next e H. unfold out_of in H. unfold plain.
  destruct (se_ev next); try contradiction; destruct H as [<-|[]]; cbn [se_pad se_bypass se_replace se_ev]; auto 10.
Qed.

Lemma out_of_time : forall d next e, In e (out_of d next) ->
  (se_time next <= se_time e <= se_time next + Z.of_N d)%Z.
Proof.
  intros d next e H. unfold out_of in H.
  destruct (se_ev next); try contradiction; destruct H as [<-|[]]; cbn [se_time]; lia.
Qed.

Lemma fold_push_perm : forall l sq, Permutation (all_events (fold_left sq_push l sq)) (l ++ all_events sq).
Proof.
  induction l as [|x l IH]; intros sq; cbn [fold_left app]; [apply Permutation_refl|].
  rewrite IH. rewrite sq_push_perm. apply Permutation_sym. apply Permutation_middle.
Qed.

Lemma fold_push_heaps : forall l sq, sq_heaps sq -> sq_heaps (fold_left sq_push l sq).
Proof. induction l as [|x l IH]; intros sq H; cbn [fold_left]; [exact H|]. apply IH. apply sq_heaps_push. exact H. Qed.

Lemma fold_push_routed : forall l sq, routed sq -> routed (fold_left sq_push l sq).
Proof. induction l as [|x l IH]; intros sq H; cbn [fold_left]; [exact H|]. apply IH. apply sq_push_routed. exact H. Qed.

(** ** multisets of times, by counting *)
Definition cz (l : list Z) (z : Z) : nat := count_occ Z.eq_dec l z.
Definition one (a z : Z) : nat := if Z.eq_dec a z then 1%nat else 0%nat.
Definition ct (p : sev -> bool) (l : list sev) (z : Z) : nat := cz (times p l) z.

Lemma cz_nil : forall z, cz [] z = 0%nat.
Proof. reflexivity. Qed.

Lemma cz_cons : forall a l z, cz (a :: l) z = (one a z + cz l z)%nat.
Proof. intros a l z. unfold cz, one. cbn [count_occ]. destruct (Z.eq_dec a z); reflexivity. Qed.

Lemma cz_app : forall l1 l2 z, cz (l1 ++ l2) z = (cz l1 z + cz l2 z)%nat.
Proof. intros l1 l2 z. unfold cz. apply count_occ_app. Qed.

Lemma cz_in : forall l z, In z l <-> (0 < cz l z)%nat.
Proof. intros l z. unfold cz. apply (count_occ_In Z.eq_dec). Qed.

Lemma cz_perm : forall l l', (forall z, cz l z = cz l' z) -> Permutation l l'.
Proof. intros l l' H. apply (Permutation_count_occ Z.eq_dec). exact H. Qed.

Lemma perm_cz : forall l l', Permutation l l' -> forall z, cz l z = cz l' z.
Proof. intros l l' H. apply (Permutation_count_occ Z.eq_dec). exact H. Qed.

Lemma cz_zero_nil : forall l, (forall z, cz l z = 0%nat) -> l = [].
Proof.
  intros [|a l] H; [reflexivity|]. specialize (H a). rewrite cz_cons in H.
  unfold one in H. destruct (Z.eq_dec a a); [lia|contradiction].
Qed.

Lemma ct_nil : forall p z, ct p [] z = 0%nat.
Proof. reflexivity. Qed.

Lemma ct_cons : forall p x l z,
  ct p (x :: l) z = ((if p x then one (se_time x) z else 0%nat) + ct p l z)%nat.
Proof.
  intros p x l z. unfold ct, times. cbn [filter]. destruct (p x); [|reflexivity].
  cbn [map]. apply cz_cons.
Qed.

Lemma ct_app : forall p l1 l2 z, ct p (l1 ++ l2) z = (ct p l1 z + ct p l2 z)%nat.
Proof. intros p l1 l2 z. unfold ct, times. rewrite filter_app, map_app. apply cz_app. Qed.

Lemma ct_perm : forall l l', Permutation l l' -> forall p z, ct p l z = ct p l' z.
Proof.
  intros l l' HP p z. induction HP as [|x l l' HP IH|x y l|l l' l'' HP1 IH1 HP2 IH2].
  - reflexivity.
  - rewrite !ct_cons, IH. reflexivity.
  - rewrite !ct_cons. lia.
  - congruence.
Qed.

Lemma ct_pos : forall p l z, (0 < ct p l z)%nat -> exists e, In e l /\ p e = true /\ se_time e = z.
Proof.
  intros p l z H. unfold ct in H. apply cz_in in H. unfold times in H.
  apply in_map_iff in H. destruct H as (e & Ht & He). apply filter_In in He.
  exists e. tauto.
Qed.

Lemma ct_in : forall p l e, In e l -> p e = true -> (0 < ct p l (se_time e))%nat.
Proof.
  intros p l e He Hp. unfold ct. apply cz_in. unfold times. apply in_map.
  apply filter_In. auto.
Qed.

Lemma ct_none : forall p l z, (forall e, In e l -> p e = false) -> ct p l z = 0%nat.
Proof.
  intros p l z H. induction l as [|x l IH]; [reflexivity|].
  rewrite ct_cons, (H x (or_introl eq_refl)), IH; [reflexivity|].
  intros e He. apply H. right. exact He.
Qed.

Lemma times_ct_perm : forall p l L, (forall z, ct p l z = cz L z) -> Permutation (times p l) L.
Proof. intros p l L H. apply cz_perm. exact H. Qed.

(** ** the sliding window fed with a list of times *)
Fixpoint wstate (win : N) (w : list Z) (ts : list Z) : list Z :=
  match ts with
  | [] => w
  | t :: r => wstate win (fst (window_add_w win w t)) r
  end.

Lemma wstate_snoc : forall win ts w t,
  wstate win w (ts ++ [t]) = fst (window_add_w win (wstate win w ts) t).
Proof. induction ts as [|a ts IH]; intros w t; cbn [wstate app]; [reflexivity|apply IH]. Qed.

Lemma win_counts_from_app : forall win a b w,
  win_counts_from win w (a ++ b) = win_counts_from win w a ++ win_counts_from win (wstate win w a) b.
Proof.
  induction a as [|x a IH]; intros b w; cbn [win_counts_from wstate app]; [reflexivity|].
  destruct (window_add_w win w x) as [w' c] eqn:E. cbn [fst app]. rewrite IH. reflexivity.
Qed.

Lemma win_count_in : forall win pre t post,
  In (snd (window_add_w win (wstate win [] pre) t)) (win_counts win (pre ++ t :: post)).
Proof.
  intros win pre t post. unfold win_counts. rewrite win_counts_from_app.
  apply in_or_app. right. cbn [win_counts_from].
  destruct (window_add_w win (wstate win [] pre) t) as [w' c]. left. reflexivity.
Qed.

Lemma ssorted_app_r : forall (a b : list Z), StronglySorted Z.le (a ++ b) -> StronglySorted Z.le b.
Proof.
  induction a as [|x a IH]; intros b H; [exact H|]. cbn [app] in H.
  apply StronglySorted_inv in H. apply IH. apply H.
Qed.

(** ** accounting for one direction.  [X = true]: packets sent by the client.  [L] is the sorted
    list of send times; [pre] has been through the bottleneck, [post] is still pending *)
Definition shift (d : N) (l : list Z) : list Z := map (fun t => (t + Z.of_N d)%Z) l.

Definition dir_inv (X : bool) (d : N) (L : list Z) (cw : list Z) (acc Q : list sev) : Prop :=
  exists pre post,
    L = pre ++ post /\ cw = wstate WINDOW [] pre /\
    (forall z, (ct (is_ns X) Q z + ct (is_ts X false) Q z = cz post z)%nat) /\
    (forall z, ct (is_ts X false) acc z = cz pre z) /\
    (forall z, (ct (is_tr (negb X) false) acc z + ct (is_tr (negb X) false) Q z = cz (shift d pre) z)%nat).

Lemma dir_head : forall X L pre post Q next,
  StronglySorted Z.le L -> L = pre ++ post ->
  (forall z, (ct (is_ns X) Q z + ct (is_ts X false) Q z = cz post z)%nat) ->
  In next Q -> (forall e, In e Q -> (se_time next <= se_time e)%Z) ->
  is_ts X false next = true ->
  exists post', post = se_time next :: post'.
Proof.
  intros X L pre post Q next HL HLe H1 Hin Hmin Hts.
  pose proof (ct_in _ _ _ Hin Hts) as Hpos.
  destruct post as [|h post'].
  { specialize (H1 (se_time next)). rewrite cz_nil in H1. lia. }
  exists post'. f_equal.
  assert (A : (se_time next <= h)%Z).
  { pose proof (H1 h) as Hh. rewrite cz_cons in Hh. unfold one in Hh.
    destruct (Z.eq_dec h h) as [_|C]; [|contradiction].
    assert (Hor : (0 < ct (is_ns X) Q h)%nat \/ (0 < ct (is_ts X false) Q h)%nat) by lia.
    destruct Hor as [Hp|Hp]; apply ct_pos in Hp; destruct Hp as (e & He & _ & <-); apply Hmin; exact He. }
  assert (B : (h <= se_time next)%Z).
  { assert (Hi : In (se_time next) (h :: post')).
    { apply cz_in. rewrite <- H1. lia. }
    destruct Hi as [->|Hi]; [lia|].
    rewrite HLe in HL. apply ssorted_app_r in HL. apply StronglySorted_inv in HL.
    destruct HL as [_ HF]. rewrite Forall_forall in HF. apply HF. exact Hi. }
  lia.
Qed.

Lemma shift_snoc : forall d l t, shift d (l ++ [t]) = shift d l ++ [(t + Z.of_N d)%Z].
Proof. intros d l t. unfold shift. rewrite map_app. reflexivity. Qed.

Ltac count_tac HQ HQ3 H1 H2 H3 :=
  let z := fresh "z" in
  intros z; specialize (H1 z); specialize (H2 z); specialize (H3 z);
  pose proof (ct_perm _ _ HQ) as EQ; pose proof (ct_perm _ _ HQ3) as EQ3;
  rewrite ?EQ in *; rewrite ?EQ3; clear EQ EQ3;
  cbn [out_of se_ev se_time se_client app] in *;
  rewrite ?shift_snoc, ?cz_app, ?ct_cons, ?cz_cons, ?ct_nil, ?cz_nil in *;
  cbn [is_ns is_ts is_tr se_ev se_client se_pad se_time is_tunnel_sent is_tunnel_recv
       Bool.eqb negb andb] in *;
  lia.

Lemma dir_step : forall X d L cw acc Q Q1 Q3 next,
  StronglySorted Z.le L ->
  dir_inv X d L cw acc Q ->
  Permutation Q (next :: Q1) ->
  (forall e, In e Q -> (se_time next <= se_time e)%Z) ->
  plain next ->
  Permutation Q3 (out_of d next ++ Q1) ->
  dir_inv X d L (if is_ts X false next then fst (window_add_w WINDOW cw (se_time next)) else cw)
          (next :: acc) Q3.
Proof.
  intros X d L cw acc Q Q1 Q3 next HL (pre & post & HLe & Hcw & H1 & H2 & H3) HQ Hmin Hpl HQ3.
  assert (Hin : In next Q).
  { eapply Permutation_in; [apply Permutation_sym; exact HQ|left; reflexivity]. }
  destruct (is_ts X false next) eqn:Ets.
  - destruct (dir_head X L pre post Q next HL HLe H1 Hin Hmin Ets) as (post' & ->).
    exists (pre ++ [se_time next]), post'.
    split; [rewrite <- app_assoc; exact HLe|].
    split; [rewrite wstate_snoc, <- Hcw; reflexivity|].
    destruct next as [ev t cl pad by_ rp]. destruct Hpl as (Hp1 & Hp2 & Hp3 & Hev).
    cbn [se_pad se_bypass se_replace se_ev] in Hp1, Hp2, Hp3, Hev. subst pad by_ rp.
    destruct ev; try (exfalso; destruct Hev as [C|[C|[C|C]]]; discriminate C);
      destruct cl, X; try discriminate Ets; clear Hev Ets Hmin Hin;
      (split; [|split]); count_tac HQ HQ3 H1 H2 H3.
  - exists pre, post. split; [exact HLe|]. split; [exact Hcw|].
    destruct next as [ev t cl pad by_ rp]. destruct Hpl as (Hp1 & Hp2 & Hp3 & Hev).
    cbn [se_pad se_bypass se_replace se_ev] in Hp1, Hp2, Hp3, Hev. subst pad by_ rp.
    destruct ev; try (exfalso; destruct Hev as [C|[C|[C|C]]]; discriminate C);
      destruct cl, X; try discriminate Ets; clear Hev Ets Hmin Hin;
      (split; [|split]); count_tac HQ HQ3 H1 H2 H3.
Qed.

Lemma dir_count : forall X d L cw acc Q next,
  StronglySorted Z.le L -> dir_inv X d L cw acc Q ->
  In next Q -> (forall e, In e Q -> (se_time next <= se_time e)%Z) ->
  is_ts X false next = true ->
  In (snd (window_add_w WINDOW cw (se_time next))) (win_counts WINDOW L).
Proof.
  intros X d L cw acc Q next HL (pre & post & HLe & Hcw & H1 & _ & _) Hin Hmin Hts.
  destruct (dir_head X L pre post Q next HL HLe H1 Hin Hmin Hts) as (post' & ->).
  rewrite HLe, Hcw. apply win_count_in.
Qed.

Lemma dir_final : forall X d L cw acc Q,
  dir_inv X d L cw acc Q ->
  (forall e, In e Q -> is_ns X e = false /\ is_ts X false e = false /\ is_tr (negb X) false e = false) ->
  (forall z, ct (is_ts X false) acc z = cz L z) /\
  (forall z, ct (is_tr (negb X) false) acc z = cz (shift d L) z).
Proof.
  intros X d L cw acc Q (pre & post & HLe & _ & H1 & H2 & H3) HQ.
  assert (Hpost : post = []).
  { apply cz_zero_nil. intros z. rewrite <- H1.
    rewrite !ct_none; [reflexivity| |]; intros e He; apply HQ; exact He. }
  subst post. rewrite app_nil_r in HLe. subst pre. split; [exact H2|].
  intros z. rewrite <- H3. rewrite (ct_none _ Q); [lia|]. intros e He. apply HQ. exact He.
Qed.

Lemma net_after_cwin : forall nb next, se_pad next = false ->
  n_cwin (net_after nb next) =
  if is_ts true false next then fst (window_add_w WINDOW (n_cwin nb) (se_time next)) else n_cwin nb.
Proof.
  intros nb next Hp. unfold net_after, is_ts, net_set_win, net_win. rewrite Hp.
  destruct (se_ev next); cbn [is_tunnel_sent andb]; try reflexivity.
  destruct (se_client next); reflexivity.
Qed.

Lemma net_after_swin : forall nb next, se_pad next = false ->
  n_swin (net_after nb next) =
  if is_ts false false next then fst (window_add_w WINDOW (n_swin nb) (se_time next)) else n_swin nb.
Proof.
  intros nb next Hp. unfold net_after, is_ts, net_set_win, net_win. rewrite Hp.
  destruct (se_ev next); cbn [is_tunnel_sent andb]; try reflexivity.
  destruct (se_client next); reflexivity.
Qed.

Lemma quiet_net_after : forall d l nb next, quiet_net d l nb -> quiet_net d l (net_after nb next).
Proof.
  intros d l nb next H. unfold net_after. destruct (se_ev next); try exact H.
  apply quiet_net_set_win. exact H.
Qed.

(** ** (f) the loop invariant *)
Section Loop.
  Variables (cc sc : cfg) (tp : tape) (args : simargs) (delay limit : N) (Lc Ls : list Z).
  Hypothesis Hfull : full_args args.
  Hypothesis Hcont : a_continue args = false.
  Hypothesis Hmt : a_max_trace args = 0.
  Hypothesis Hmi : a_max_iter args = 0.
  Hypothesis Hd : delay < DMAX.
  Hypothesis HLc : StronglySorted Z.le Lc.
  Hypothesis HLs : StronglySorted Z.le Ls.
  Hypothesis Htc : forall c, In c (win_counts WINDOW Lc) -> c <= limit.
  Hypothesis Hts : forall c, In c (win_counts WINDOW Ls) -> c <= limit.

  Record LI (st : sim) (nowt : Z) (acc : list sev) : Prop := mkLI {
    li_c : idle_side (m_c st);
    li_s : idle_side (m_s st);
    li_net : quiet_net delay limit (m_net st);
    li_wf : sq_wf (m_sq st);
    li_hp : sq_heaps (m_sq st);
    li_rt : routed (m_sq st);
    li_plq : forall e, In e (all_events (m_sq st)) -> plain e;
    li_rng : in_range nowt (all_events (m_sq st));
    li_pla : forall e, In e acc -> plain e;
    li_dc : dir_inv true delay Lc (n_cwin (m_net st)) acc (all_events (m_sq st));
    li_ds : dir_inv false delay Ls (n_swin (m_net st)) acc (all_events (m_sq st))
  }.

  Definition done (acc : list sev) : Prop :=
    (forall e, In e acc -> plain e) /\
    (forall z, ct (is_ts true false) acc z = cz Lc z) /\
    (forall z, ct (is_tr false false) acc z = cz (shift delay Lc) z) /\
    (forall z, ct (is_ts false false) acc z = cz Ls z) /\
    (forall z, ct (is_tr true false) acc z = cz (shift delay Ls) z).

  Lemma LI_done : forall st nowt acc,
    LI st nowt acc ->
    (forall e, In e (all_events (m_sq st)) ->
       se_ev e <> TENormalSent /\ se_ev e <> TETunnelSent /\ se_ev e <> TETunnelRecv) ->
    done acc.
  Proof.
    intros st nowt acc I HQ.
    assert (HQ' : forall X e, In e (all_events (m_sq st)) ->
              is_ns X e = false /\ is_ts X false e = false /\ is_tr (negb X) false e = false).
    { intros X e He. destruct (HQ e He) as (A & B & C). unfold is_ns, is_ts, is_tr.
      destruct (se_ev e); try (split; [|split]; reflexivity); congruence. }
    destruct (dir_final _ _ _ _ _ _ (li_dc _ _ _ I) (HQ' true)) as [A1 A2].
    destruct (dir_final _ _ _ _ _ _ (li_ds _ _ _ I) (HQ' false)) as [B1 B2].
    unfold done. split; [exact (li_pla _ _ _ I)|]. auto.
  Qed.

  Lemma LI_step : forall st nowt acc next sq' c3 s3 pos3,
    LI st nowt acc ->
    Permutation (all_events (m_sq st)) (next :: all_events sq') ->
    In next (all_events (m_sq st)) ->
    (forall e, In e (all_events (m_sq st)) -> (se_time next <= se_time e)%Z) ->
    sq_wf sq' -> sq_heaps sq' -> routed sq' ->
    idle_side c3 -> idle_side s3 ->
    LI (mksim (fold_left sq_push (out_of delay next) sq') c3 s3 (net_after (m_net st) next) pos3)
       (se_time next) (next :: acc).
  Proof.
    intros st nowt acc next sq' c3 s3 pos3 I HP Hin Hmin W' Hh' R' Hc3 Hs3.
    pose proof (li_plq _ _ _ I next Hin) as Hpl.
    pose proof (li_rng _ _ _ I next Hin) as Hrn.
    assert (HP3 : Permutation (all_events (fold_left sq_push (out_of delay next) sq'))
                              (out_of delay next ++ all_events sq')) by apply fold_push_perm.
    assert (Hsub : forall e, In e (all_events sq') -> In e (all_events (m_sq st))).
    { intros e He. eapply Permutation_in; [apply Permutation_sym; exact HP|right; exact He]. }
    constructor; cbn [m_c m_s m_net m_sq].
    - exact Hc3.
    - exact Hs3.
    - apply quiet_net_after. exact (li_net _ _ _ I).
    - apply fold_push_wf. exact W'.
    - apply fold_push_heaps. exact Hh'.
    - apply fold_push_routed. exact R'.
    - intros e He. apply (Permutation_in _ HP3) in He. apply in_app_or in He.
      destruct He as [He|He]; [eapply out_of_plain; exact He|].
      apply (li_plq _ _ _ I). apply Hsub. exact He.
    - intros e He. apply (Permutation_in _ HP3) in He. apply in_app_or in He.
      destruct He as [He|He].
      + apply out_of_time in He. lia.
      + apply Hsub in He. pose proof (Hmin e He). pose proof (li_rng _ _ _ I e He). lia.
    - intros e [<-|He]; [exact Hpl|]. apply (li_pla _ _ _ I). exact He.
    - rewrite net_after_cwin by apply Hpl.
      eapply dir_step; [exact HLc|exact (li_dc _ _ _ I)|exact HP|exact Hmin|exact Hpl|exact HP3].
    - rewrite net_after_swin by apply Hpl.
      eapply dir_step; [exact HLs|exact (li_ds _ _ _ I)|exact HP|exact Hmin|exact Hpl|exact HP3].
  Qed.

  Theorem sim_loop_identity : forall fuel st nowt acc it out,
    LI st nowt acc ->
    sim_loop fuel cc sc tp args st nowt acc it = Ok out ->
    exists accf, out = rev accf /\ done accf.
  Proof.
    induction fuel as [|fuel IH]; intros st nowt acc it out I H; [discriminate H|].
    cbn [sim_loop] in H. mbind H as [nx st1] Ep.
    apply (pick_next_min _ _ _ _ _ delay limit (li_c _ _ _ I) (li_s _ _ _ I) (li_net _ _ _ I)
             (li_wf _ _ _ I) (li_hp _ _ _ I) (li_rng _ _ _ I)) in Ep.
    destruct Ep as [(-> & -> & Eall)|(next & sq' & -> & -> & HP & Hin & Hmin & W' & Hh' & R')].
    - injection H as <-. exists acc. split; [reflexivity|].
      eapply LI_done; [exact I|]. intros e He. rewrite Eall in He. destruct He.
    - specialize (R' (li_rt _ _ _ I)). cbn [m_sq m_c m_s m_net m_pos] in H.
      pose proof (li_plq _ _ _ I next Hin) as Hpl.
      pose proof (li_rng _ _ _ I next Hin) as Hrn.
      destruct (Z.ltb_spec (se_time next) nowt) as [C|_]; [lia|].
      mbind H as [[sq2 net2] act] En.
      apply sim_network_stack_plain in En; [|exact Hpl|].
      2:{ intros Ev. destruct (li_net _ _ _ I) as (_ & _ & _ & _ & ->).
          destruct Hpl as (Hpad & _).
          destruct (se_client next) eqn:Ecl; cbn [net_win].
          - apply Htc. eapply dir_count; [exact HLc|exact (li_dc _ _ _ I)|exact Hin|exact Hmin|].
            unfold is_ts. rewrite Ev, Ecl, Hpad. reflexivity.
          - apply Hts. eapply dir_count; [exact HLs|exact (li_ds _ _ _ I)|exact Hin|exact Hmin|].
            unfold is_ts. rewrite Ev, Ecl, Hpad. reflexivity. }
      destruct En as [-> ->].
      replace (n_delay (m_net st)) with delay in H
        by (destruct (li_net _ _ _ I) as (_ & _ & _ & E & _); symmetry; exact E).
      mbind H as [[[c3 s3] sq3] pos3] Et.
      assert (Hst : sq3 = fold_left sq_push (out_of delay next) sq' /\ idle_side c3 /\ idle_side s3).
      { destruct (se_client next).
        - mbind Et as [[c' sq''] p'] Eu. injection Et as <- <- <- <-.
          apply trigger_update_idle in Eu; [|exact (li_c _ _ _ I)].
          destruct Eu as (-> & Hi & _). split; [reflexivity|]. split; [exact Hi|exact (li_s _ _ _ I)].
        - mbind Et as [[s' sq''] p'] Eu. injection Et as <- <- <- <-.
          apply trigger_update_idle in Eu; [|exact (li_s _ _ _ I)].
          destruct Eu as (-> & Hi & _). split; [reflexivity|]. split; [exact (li_c _ _ _ I)|exact Hi]. }
      destruct Hst as (-> & Hc3 & Hs3). clear Et.
      destruct Hfull as [Hoc Hon]. rewrite Hoc, Hon, Hmt, Hmi, Hcont in H.
      cbn [negb orb andb] in H. change (0 <? 0) with false in H. cbn [andb] in H.
      pose proof (LI_step st nowt acc next sq' c3 s3 pos3 I HP Hin Hmin W' Hh' R' Hc3 Hs3) as I3.
      destruct (sq_no_normal (fold_left sq_push (out_of delay next) sq')) eqn:Enn.
      + injection H as <-. exists (next :: acc). split; [reflexivity|].
        eapply LI_done; [exact I3|]. cbn [m_sq]. intros e He.
        eapply sq_no_normal_events; [exact (li_rt _ _ _ I3)|exact Enn|exact He].
      + eapply IH; [exact I3|exact H].
  Qed.
End Loop.

(** ** the parsed trace *)
Definition ev_of (d : N) (x : Z * bool) : sev :=
  if snd x then mksev TENormalSent (fst x) true false false false
  else mksev TENormalSent (fst x - Z.of_N d)%Z false false false false.

Lemma parse_lines_events : forall tr d q sw rw smax rmax q' pps,
  parse_lines tr d q sw rw smax rmax = (q', pps) ->
  Permutation (all_events q') (map (ev_of d) tr ++ all_events q) /\ (sq_heaps q -> sq_heaps q').
Proof.
  induction tr as [|[t dir] rest IH]; intros d q sw rw smax rmax q' pps H; cbn [parse_lines] in H.
  - injection H as <- _. split; [apply Permutation_refl|auto].
  - destruct dir.
    + destruct (window_add_w PARSE_WINDOW sw t) as [sw' m]. apply IH in H. destruct H as [HP Hh].
      split; [|intros A; apply Hh; apply sq_heaps_push; exact A].
      rewrite HP, sq_push_perm. cbn [map app]. apply Permutation_sym. apply Permutation_middle.
    + destruct (window_add_w PARSE_WINDOW rw t) as [rw' m]. apply IH in H. destruct H as [HP Hh].
      split; [|intros A; apply Hh; apply sq_heaps_push; exact A].
      rewrite HP, sq_push_perm. cbn [map app]. apply Permutation_sym. apply Permutation_middle.
Qed.

Lemma parse_trace_events : forall tr d,
  Permutation (all_events (parse_trace tr d)) (map (ev_of d) tr) /\ sq_heaps (parse_trace tr d).
Proof.
  intros tr d. unfold parse_trace.
  destruct (parse_lines tr d (mksimq evq_empty evq_empty None) [] [] 0 0) as [q pps] eqn:E.
  apply parse_lines_events in E. destruct E as [HP Hh]. split.
  - change (all_events (mksimq (sq_c q) (sq_s q) (Some pps))) with (all_events q).
    rewrite HP. change (all_events (mksimq evq_empty evq_empty None)) with (@nil sev).
    rewrite app_nil_r. apply Permutation_refl.
  - assert (H0 : sq_heaps (mksimq evq_empty evq_empty None)).
    { unfold sq_heaps, heaps_ok, evq_empty. cbn [sq_c sq_s q_base q_blocking q_bypass q_internal].
      repeat split; apply hp_nil. }
    exact (Hh H0).
Qed.

Definition unshift (d : N) (l : list Z) : list Z := map (fun t => (t - Z.of_N d)%Z) l.

Lemma ev_of_counts : forall d tr z,
  ct (is_ns true) (map (ev_of d) tr) z = cz (sends tr) z /\
  ct (is_ns false) (map (ev_of d) tr) z = cz (unshift d (recvs tr)) z.
Proof.
  intros d tr z. induction tr as [|[t dir] rest [IH1 IH2]]; [split; reflexivity|].
  unfold sends, recvs, unshift in *. cbn [map filter snd fst negb]. rewrite !ct_cons.
  destruct dir; cbn [ev_of snd fst negb map is_ns se_ev se_client Bool.eqb se_time];
    rewrite ?cz_cons, IH1, IH2; split; reflexivity.
Qed.

Lemma ev_of_spec : forall d tr e, In e (map (ev_of d) tr) ->
  plain e /\ se_ev e = TENormalSent /\
  exists a, In a (map fst tr) /\ (se_time e = a \/ se_time e = (a - Z.of_N d)%Z).
Proof.
  intros d tr e H. apply in_map_iff in H. destruct H as ([t dir] & <- & Hin).
  assert (Ha : In t (map fst tr)) by (apply in_map_iff; exists (t, dir); auto).
  unfold ev_of, plain. destruct dir; cbn [snd fst se_pad se_bypass se_replace se_ev se_time];
    (split; [auto 10|]); (split; [reflexivity|]); exists t; auto.
Qed.

Lemma ssorted_map_filter : forall (f : Z -> Z) (p : Z * bool -> bool) tr,
  (forall a b, (a <= b)%Z -> (f a <= f b)%Z) ->
  StronglySorted Z.le (map fst tr) -> StronglySorted Z.le (map f (map fst (filter p tr))).
Proof.
  intros f p tr Hf. induction tr as [|x rest IH]; intros H; cbn [filter map]; [constructor|].
  cbn [map] in H. apply StronglySorted_inv in H. destruct H as [Hs Hall].
  destruct (p x); [|apply IH; exact Hs]. cbn [map]. constructor; [apply IH; exact Hs|].
  rewrite Forall_forall in *. intros y Hy. apply in_map_iff in Hy. destruct Hy as (a & <- & Ha).
  apply Hf. apply Hall. apply in_map_iff in Ha. destruct Ha as (xa & <- & Hxa).
  apply filter_In in Hxa. apply in_map. apply Hxa.
Qed.

(** the first instant is the earliest queued event *)
Lemma first_time_min : forall sq t0,
  init_simq sq -> sq_heaps sq -> sq_first_time sq = Some t0 ->
  (forall e, In e (all_events sq) -> (t0 <= se_time e)%Z) /\
  exists e0, In e0 (all_events sq) /\ se_time e0 = t0.
Proof.
  intros sq t0 (H1 & H2 & H3 & H4 & H5 & H6 & _ & _) [(Hc & _) (Hs & _)] H.
  assert (HQ : all_events sq = q_base (sq_c sq) ++ q_base (sq_s sq)).
  { unfold all_events. rewrite H1, H2, H3, H4, H5, H6. cbn [app]. rewrite app_nil_r. reflexivity. }
  rewrite HQ. unfold sq_first_time in H.
  pose proof (lb_peek _ Hc) as Lc. pose proof (lb_peek _ Hs) as Ls.
  pose proof (@SimTimers.heap_peek_in sev (q_base (sq_c sq))) as Ic.
  pose proof (@SimTimers.heap_peek_in sev (q_base (sq_s sq))) as Is.
  destruct (heap_peek (q_base (sq_c sq))) as [c|], (heap_peek (q_base (sq_s sq))) as [s|];
    cbn [lb] in Lc, Ls; try discriminate H; injection H as <-.
  - specialize (Ic c eq_refl). specialize (Is s eq_refl). split.
    + intros e He. apply in_app_or in He.
      destruct He as [He|He]; [apply Lc, kle_time in He|apply Ls, kle_time in He]; lia.
    + destruct (Z.min_spec (se_time c) (se_time s)) as [[_ E]|[_ E]]; rewrite E.
      * exists c. split; [apply in_or_app; left; exact Ic|reflexivity].
      * exists s. split; [apply in_or_app; right; exact Is|reflexivity].
  - specialize (Ic c eq_refl). rewrite Ls, app_nil_r. split.
    + intros e He. apply kle_time. apply Lc. exact He.
    + exists c. split; [exact Ic|reflexivity].
  - specialize (Is s eq_refl). rewrite Lc. cbn [app]. split.
    + intros e He. apply kle_time. apply Ls. exact He.
    + exists s. split; [exact Is|reflexivity].
Qed.

(** * C14 *)
Theorem no_machines_identity : forall fuel cc sc tp tr delay args out limit,
  machines cc = [] -> machines sc = [] ->
  full_args args -> a_continue args = false -> a_max_trace args = 0 -> a_max_iter args = 0 ->
  tr <> [] -> Sorted Z.le (map fst tr) ->
  (forall a b, In a (map fst tr) -> In b (map fst tr) -> (Z.abs (a - b) + Z.of_N delay < Z.of_N DMAX)%Z) ->
  sq_pps (parse_trace tr delay) = Some limit ->
  (forall c, In c (win_counts WINDOW (sends tr)) -> c <= limit) ->
  (forall c, In c (win_counts WINDOW (map (fun t => (t - Z.of_N delay)%Z) (recvs tr))) -> c <= limit) ->
  sim_advanced fuel cc sc tp (parse_trace tr delay) delay None args = Ok out ->
  (forall e, In e out -> plain e) /\
  Permutation (times (is_ts true false) out) (sends tr) /\
  Permutation (times (is_tr true false) out) (recvs tr) /\
  Permutation (times (is_tr false false) out) (map (fun t => (t + Z.of_N delay)%Z) (sends tr)) /\
  Permutation (times (is_ts false false) out) (map (fun t => (t - Z.of_N delay)%Z) (recvs tr)).
Proof.
  intros fuel cc sc tp tr delay args out limit Hmc Hms Hfull Hcont Hmt Hmi Hne Hsorted Hspan Hpps
         Hnc Hns H.
  set (sq := parse_trace tr delay) in *.
  destruct (parse_trace_events tr delay) as [HPQ Hheaps]. fold sq in HPQ, Hheaps.
  pose proof (parse_trace_init tr delay) as Hinit. fold sq in Hinit.
  assert (Hd : delay < DMAX).
  { destruct tr as [|[t dir] rest]; [contradiction Hne; reflexivity|].
    specialize (Hspan t t (or_introl eq_refl) (or_introl eq_refl)). lia. }
  assert (HSS : StronglySorted Z.le (map fst tr)).
  { apply Sorted_StronglySorted; [|exact Hsorted]. intros a b c. apply Z.le_trans. }
  assert (HLc : StronglySorted Z.le (sends tr)).
  { unfold sends. rewrite <- (map_id (map fst (filter (fun x => snd x) tr))).
    apply ssorted_map_filter; [auto|exact HSS]. }
  assert (HLs : StronglySorted Z.le (unshift delay (recvs tr))).
  { unfold unshift, recvs. apply ssorted_map_filter; [intros; lia|exact HSS]. }
  assert (Hev : forall e, In e (all_events sq) ->
            plain e /\ se_ev e = TENormalSent /\
            exists a, In a (map fst tr) /\ (se_time e = a \/ se_time e = (a - Z.of_N delay)%Z)).
  { intros e He. apply (ev_of_spec delay tr). eapply Permutation_in; [exact HPQ|exact He]. }
  unfold sim_advanced in H.
  destruct (sq_first_time sq) as [t0|] eqn:E0; [|discriminate H].
  mbind H as cfw E1. mbind H as sfw E2. mbind H as net E3. mbind H as trc E4. injection H as <-.
  destruct (first_time_min sq t0 Hinit Hheaps E0) as [Hmin (e0 & He0 & Ht0)].
  assert (Hslots : forall c t p fw, machines c = [] -> fnew_at c tp t p = Ok fw -> idle_side (new_side c fw)).
  { intros c t p fw Hm Hf. unfold fnew_at in Hf. mbind Hf as [rs p'] Er. injection Hf as <-.
    unfold idle_side, new_side. cbn [s_sched s_timers s_buntil s_fw slots]. rewrite Hm. auto. }
  unfold netb_new in E3. rewrite Hpps in E3. injection E3 as <-.
  apply (sim_loop_identity cc sc tp args delay limit (sends tr) (unshift delay (recvs tr))
           Hfull Hcont Hmt Hmi Hd HLc HLs Hnc Hns) in E4.
  2:{ constructor; cbn [m_c m_s m_net m_sq n_cwin n_swin].
      - eapply Hslots; eauto.
      - eapply Hslots; eauto.
      - unfold quiet_net. cbn [n_cagg n_sagg n_aggq n_delay n_limit]. auto.
      - apply parse_trace_wf.
      - exact Hheaps.
      - apply init_routed. exact Hinit.
      - intros e He. apply Hev. exact He.
      - intros e He. split; [apply Hmin; exact He|].
        destruct (Hev e He) as (_ & _ & a & Ha & Hta).
        destruct (Hev e0 He0) as (_ & _ & b & Hb & Htb).
        specialize (Hspan a b Ha Hb). lia.
      - intros e [].
      - exists [], (sends tr). split; [reflexivity|]. split; [reflexivity|].
        split; [|split].
        + intros z. rewrite !(ct_perm _ _ HPQ). rewrite (proj1 (ev_of_counts delay tr z)).
          rewrite ct_none; [lia|]. intros e He. destruct (ev_of_spec _ _ _ He) as (_ & Ev & _).
          unfold is_ts. rewrite Ev. reflexivity.
        + intros z. reflexivity.
        + intros z. rewrite ct_nil. cbn [shift map]. rewrite cz_nil.
          rewrite (ct_perm _ _ HPQ). rewrite ct_none; [lia|].
          intros e He. destruct (ev_of_spec _ _ _ He) as (_ & Ev & _).
          unfold is_tr. rewrite Ev. reflexivity.
      - exists [], (unshift delay (recvs tr)). split; [reflexivity|]. split; [reflexivity|].
        split; [|split].
        + intros z. rewrite !(ct_perm _ _ HPQ). rewrite (proj2 (ev_of_counts delay tr z)).
          rewrite ct_none; [lia|]. intros e He. destruct (ev_of_spec _ _ _ He) as (_ & Ev & _).
          unfold is_ts. rewrite Ev. reflexivity.
        + intros z. reflexivity.
        + intros z. rewrite ct_nil. cbn [shift map]. rewrite cz_nil.
          rewrite (ct_perm _ _ HPQ). rewrite ct_none; [lia|].
          intros e He. destruct (ev_of_spec _ _ _ He) as (_ & Ev & _).
          unfold is_tr. rewrite Ev. reflexivity. }
  destruct E4 as (accf & -> & Hpl & A1 & A2 & B1 & B2).
  assert (HPo : Permutation (sort_time (rev accf)) accf).
  { eapply perm_trans; [apply sort_time_perm|]. apply Permutation_sym. apply Permutation_rev. }
  assert (Hback : shift delay (unshift delay (recvs tr)) = recvs tr).
  { unfold shift, unshift. rewrite map_map. rewrite <- (map_id (recvs tr)) at 2.
    apply map_ext. intros a. lia. }
  split; [intros e He; apply Hpl; eapply Permutation_in; [exact HPo|exact He]|].
  split; [apply times_ct_perm; intros z; rewrite (ct_perm _ _ HPo); apply A1|].
  split; [apply times_ct_perm; intros z; rewrite (ct_perm _ _ HPo), B2, Hback; reflexivity|].
  split; [apply times_ct_perm; intros z; rewrite (ct_perm _ _ HPo); apply A2|].
  apply times_ct_perm. intros z. rewrite (ct_perm _ _ HPo). apply B1.
Qed.

(** the statement as first posed carried [clock_total] for both configurations; it is not needed
    (without machines the framework never touches its clock) *)
Corollary no_machines_identity_clock_total : forall fuel cc sc tp tr delay args out limit,
  machines cc = [] -> machines sc = [] ->
  clock_total (clk cc) -> clock_total (clk sc) ->
  full_args args -> a_continue args = false -> a_max_trace args = 0 -> a_max_iter args = 0 ->
  tr <> [] -> Sorted Z.le (map fst tr) ->
  (forall a b, In a (map fst tr) -> In b (map fst tr) -> (Z.abs (a - b) + Z.of_N delay < Z.of_N DMAX)%Z) ->
  sq_pps (parse_trace tr delay) = Some limit ->
  (forall c, In c (win_counts WINDOW (sends tr)) -> c <= limit) ->
  (forall c, In c (win_counts WINDOW (map (fun t => (t - Z.of_N delay)%Z) (recvs tr))) -> c <= limit) ->
  sim_advanced fuel cc sc tp (parse_trace tr delay) delay None args = Ok out ->
  (forall e, In e out -> plain e) /\
  Permutation (times (is_ts true false) out) (sends tr) /\
  Permutation (times (is_tr true false) out) (recvs tr) /\
  Permutation (times (is_tr false false) out) (map (fun t => (t + Z.of_N delay)%Z) (sends tr)) /\
  Permutation (times (is_ts false false) out) (map (fun t => (t - Z.of_N delay)%Z) (recvs tr)).
Proof. intros fuel cc sc tp tr delay args out limit Hmc Hms _ _. apply no_machines_identity; assumption. Qed.
