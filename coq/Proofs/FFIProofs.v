(** C20: the C API returns exactly the framework's actions. *)
From MB Require Import Model.Framework Model.Validate Model.FFI.
From MB Require Import Proofs.Tactics Proofs.ListFacts Proofs.FrameworkInv Proofs.FrameworkTotal Proofs.FrameworkSlots.
Open Scope N_scope.

Lemma split_micros_spec : forall us,
  let '(s, n) := split_micros us in
  s * 1000000 + n / 1000 = us /\ n < 1000000000 /\ n mod 1000 = 0.
Proof.
  intros us. unfold split_micros.
  pose proof (N.div_mod us 1000000 ltac:(lia)) as H.
  pose proof (N.mod_lt us 1000000 ltac:(lia)) as Hm.
  split; [|split].
  - rewrite N.div_mul by lia. lia.
  - lia.
  - apply N.mod_mul. lia.
Qed.

(** kind, machine and flags are preserved *)
Lemma convert_action_fields : forall a,
  match a, convert_action a with
  | TCancel m t, [k; m'; _; _; _; _; _; _; tm] => k = 0 /\ m' = m /\ tm = c_timer t
  | TSendPadding m _ by_ rp, [k; m'; _; _; r; b; _; _; _] =>
      k = 1 /\ m' = m /\ r = (if rp then 1 else 0) /\ b = (if by_ then 1 else 0)
  | TBlockOutgoing m _ _ by_ rp, [k; m'; _; _; r; b; _; _; _] =>
      k = 2 /\ m' = m /\ r = (if rp then 1 else 0) /\ b = (if by_ then 1 else 0)
  | TUpdateTimer m _ rp, [k; m'; _; _; r; _; _; _; _] => k = 3 /\ m' = m /\ r = (if rp then 1 else 0)
  | _, _ => False
  end.
Proof.
  intros [m t|m tm b r|m tm d b r|m d r]; cbn [convert_action]; unfold split_micros; auto.
Qed.

Theorem on_events_exact : forall c tp s cevs t code s' out,
  Inv c s ->
  ffi_on_events c tp false false false false s cevs t = Ok (code, s', out) ->
  exists evs acts,
    convert_events cevs = Some evs /\
    trigger_events c tp s evs t = Ok (s', acts) /\
    code = RES_OK /\ out = map convert_action acts /\
    (length out <= length (machines c))%nat.
Proof.
  intros c tp s cevs t code s' out HI H. unfold ffi_on_events in H. cbn [orb] in H.
  destruct (convert_events cevs) as [evs|] eqn:Ec; [|discriminate H].
  mbind H as [s1 acts] E. inversion H; subst. exists evs, acts.
  pose proof (acts_length_le c tp s evs t s' acts HI E) as Hlen.
  assert (Hf : firstn (length (machines c)) (map convert_action acts) = map convert_action acts)
    by (apply firstn_all2; rewrite map_length; exact Hlen).
  rewrite Hf. repeat split; auto. rewrite map_length. exact Hlen.
Qed.

Theorem on_events_null : forall c tp a b d e s cevs t,
  a || b || d || e = true ->
  ffi_on_events c tp a b d e s cevs t = Ok (RES_NULL, s, []).
Proof. intros. unfold ffi_on_events. rewrite H. reflexivity. Qed.

Theorem start_code_spec : forall out_null utf8_ok lines_ok pad blk,
  let code := ffi_start_code out_null utf8_ok lines_ok pad blk in
  (code = RES_NULL <-> out_null = true) /\
  (code = RES_OK <-> out_null = false /\ utf8_ok = true /\ forallb (fun b => b) lines_ok = true /\
                     in_unit (f64_of_bits pad) && in_unit (f64_of_bits blk) = true).
Proof.
  intros. unfold code, ffi_start_code, RES_NULL, RES_NOT_UTF8, RES_INVALID_MACHINE, RES_START_FRAMEWORK, RES_OK.
  destruct out_null, utf8_ok, (forallb (fun b => b) lines_ok), (in_unit (f64_of_bits pad) && in_unit (f64_of_bits blk));
    cbn; split; split; intros; try discriminate; try tauto; try lia;
    repeat match goal with H : _ /\ _ |- _ => destruct H end; try discriminate.
Qed.
